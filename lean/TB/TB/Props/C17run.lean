/-
  C17 (run level) — listing a torrent twice or permuting the torrent list does not change the run at all.
-/
import TB.Spec.ExportSpec
import TB.Props.C17
import TB.Lemmas.RunO
namespace TB

/-- if equal info-hashes mean equal torrents (no collision between the loaded torrents), two torrent lists with the
    same members yield the same list after sorting and de-duplication -/
theorem C17_dedup_eq (ts ts' : List Torrent)
    (hinj : ∀ t ∈ ts ++ ts', ∀ u ∈ ts ++ ts', t.infoHash = u.infoHash → t = u)
    (hmem : ∀ t, t ∈ ts ↔ t ∈ ts') :
    dedupTorrents (sortTorrents ts) = dedupTorrents (sortTorrents ts') := by
  exact RunO.dedup_sort_eq ts ts' hinj hmem

/-- hence the whole run — result, log, tree, counters, table, work list — is identical for any two presentations of
    the same set of torrents (any order, any repetition) -/
theorem C17_run_perm (H : Bytes → Bytes) (inp : RunIn) (ts' : List Torrent)
    (hinj : ∀ t ∈ inp.torrents ++ ts', ∀ u ∈ inp.torrents ++ ts', t.infoHash = u.infoHash → t = u)
    (hmem : ∀ t, t ∈ inp.torrents ↔ t ∈ ts') :
    run H { inp with torrents := ts' } = run H inp := by
  exact RunO.run_torrents_congr H inp ts' (RunO.isEmpty_eq_of_mem _ _ hmem)
    (RunO.dedup_sort_eq inp.torrents ts' hinj hmem).symm

end TB
