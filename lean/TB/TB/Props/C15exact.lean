/-
  C15 (exact accounting) — every reported figure is the count of what actually happened.

  `C15_sum` / `C15_run` say the k-th record sums to k+1. This file says which outcomes it counts: the k-th progress
  record is the zero counters bumped by exactly the first k+1 evaluation outcomes (`C15_counters_exact`,
  `C15_run_counters_exact`), so `success` is the number of `.found`, `failed` the number of `.notFound`, `fault` the
  number of `.fault` among them (`C15_tally_counts`). With `C04a_found_verifies` (found ⇒ verifies afterwards) and
  `C02_run_not_failed` (available ⇒ not `.notFound`) the figures are tied to the tree.
-/
import TB.Props.C15
import TB.Lemmas.RunQ
namespace TB
open TB.RB

/-- the outcomes of the evaluations, in order, each piece evaluated in the state the previous ones left -/
def outcomes (H : Bytes → Bytes) : St → List Work → List Solved
  | _, [] => []
  | st, w :: ws => (solvePiece H st w).2 :: outcomes H (solvePiece H st w).1 ws

/-- the counters after a list of outcomes -/
def tally (c : Counters) (l : List Solved) : Counters := l.foldl Counters.bump c

theorem tally_cons (c : Counters) (r : Solved) (l : List Solved) :
    tally c (r :: l) = tally (c.bump r) l := rfl

/-- EXACT ACCOUNTING: without a panic, the k-th progress record is the start counters bumped by exactly the first k+1
    outcomes — every reported figure is the count of what actually happened -/
theorem C15_counters_exact (H : Bytes → Bytes) (st : St) (ws : List Work) (c : Counters) (acc : List Counters)
    (h : (solveAll H st ws c acc).2.2 = false) :
    (solveAll H st ws c acc).2.1
      = acc ++ (List.range ws.length).map (fun k => tally c ((outcomes H st ws).take (k + 1))) := by
  induction ws generalizing st c acc with
  | nil => simp [solveAll]
  | cons w ws ih =>
    rw [solveAll_cons] at h ⊢
    by_cases hp : (solvePiece H st w).2 = .panic
    · rw [if_pos hp] at h; cases h
    · rw [if_neg hp] at h ⊢
      rw [ih _ _ _ h, List.length_cons, List.range_succ_eq_map, List.append_assoc]
      congr 1
      simp only [List.map_cons, List.map_map, List.singleton_append, outcomes, List.take_succ_cons,
        tally_cons, List.take_zero]
      congr 1

/-- what the tally counts -/
theorem C15_tally_counts (c : Counters) (l : List Solved) :
    (tally c l).success = c.success + l.count .found ∧
    (tally c l).failed = c.failed + l.count .notFound ∧
    (tally c l).fault = c.fault + l.count .fault := by
  induction l generalizing c with
  | nil => simp [tally]
  | cons r l ih =>
    rw [tally_cons]
    obtain ⟨h1, h2, h3⟩ := ih (c.bump r)
    rw [h1, h2, h3]
    cases r <;> simp [Counters.bump] <;> omega

/-- run level: in a run that ends `ok`, the k-th reported record counts exactly the `found` / `notFound` / `fault`
    outcomes of the first k+1 evaluations -/
theorem C15_run_counters_exact (H : Bytes → Bytes) (inp : RunIn) (hok : (run H inp).result = .ok ()) :
    (run H inp).counters
      = (List.range (RunQ.evalOrder (run H inp).work inp.order).length).map (fun k =>
          tally ⟨0, 0, 0⟩ ((outcomes H (runSt3 inp) (RunQ.evalOrder (run H inp).work inp.order)).take (k + 1))) := by
  rcases RunQ.run_eval_or H inp with ⟨hw, h0⟩ | ⟨_, _, _, _, _, _, _, hcnt, hres⟩
  · have : RunQ.evalOrder [] inp.order = [] := by
      have := (RunQ.evalOrder_perm [] inp.order).length_eq
      exact List.eq_nil_of_length_eq_zero this
    rw [h0, hw, this]; rfl
  · have hp : (solveAll H (runSt3 inp) (RunQ.evalOrder (run H inp).work inp.order) ⟨0, 0, 0⟩ []).2.2 = false := by
      cases hp : (solveAll H (runSt3 inp) (RunQ.evalOrder (run H inp).work inp.order) ⟨0, 0, 0⟩ []).2.2
      · rfl
      · rw [hres, hp] at hok; cases hok
    have := C15_counters_exact H _ _ _ _ hp
    rw [List.nil_append] at this
    rw [← this]
    exact hcnt

/-- the last figure of a run that ends `ok`: succeeded / failed / I/O-error are the numbers of `found` / `notFound` /
    `fault` outcomes among ALL evaluations — nothing is counted twice, nothing is left out -/
theorem C15_run_final_figures (H : Bytes → Bytes) (inp : RunIn) (hok : (run H inp).result = .ok ())
    (last : Counters) (hl : (run H inp).counters.getLast? = some last) :
    last.success = (outcomes H (runSt3 inp) (RunQ.evalOrder (run H inp).work inp.order)).count .found ∧
    last.failed = (outcomes H (runSt3 inp) (RunQ.evalOrder (run H inp).work inp.order)).count .notFound ∧
    last.fault = (outcomes H (runSt3 inp) (RunQ.evalOrder (run H inp).work inp.order)).count .fault := by
  have hlen : ∀ (st : St) (ws : List Work), (outcomes H st ws).length = ws.length := by
    intro st ws
    induction ws generalizing st with
    | nil => rfl
    | cons w ws ih => simp only [outcomes, List.length_cons, ih]
  rw [C15_run_counters_exact H inp hok] at hl
  generalize RunQ.evalOrder (run H inp).work inp.order = ws at hl ⊢
  cases hn : ws.length with
  | zero => rw [hn] at hl; simp at hl
  | succ n =>
    rw [hn, List.range_succ, List.map_append, List.map_singleton, List.getLast?_append, List.getLast?_singleton] at hl
    simp only [Option.some_or, Option.some.injEq] at hl
    subst hl
    have htake : (outcomes H (runSt3 inp) ws).take (n + 1) = outcomes H (runSt3 inp) ws := by
      apply List.take_of_length_le
      rw [hlen, hn]; exact Nat.le_refl _
    rw [htake]
    have := C15_tally_counts ⟨0, 0, 0⟩ (outcomes H (runSt3 inp) ws)
    simpa using this

end TB
