/-
  Outcome — the run-level OUTCOME of the model as a function of the arguments and of the initial tree.

  The checker of the implementation uses the clauses
    * "a fault-free run that the model completes must not end in an error" (C16), and
    * "an over-long export image means an error before anything is modified" (C14);
  this file states and proves the model-side facts they rest on.

  O1 `C16_run_outcome`            fault-free, loadable torrents: `(run H inp).result` is a function of
                                   `ArgsOk`, `inp.resize` and three properties of the initial tree
                                   (`RunOverlong`, `RunBlocked`, `RunImageDir`); never `.panic`.
                                   THE STATEMENT WITH `RunOverlong` ALONE IS FALSE (`C16_outcome_needs_image_cases`):
                                   the pre-flight has two more fault-free error sources,
                                     - the image path has a regular file as a proper prefix (`look = .notDir`): the
                                       read-only open of the FIRST pass fails with an error that is not NotFound;
                                     - the image path is a directory (`look = .dir`): the first pass opens it
                                       read-only and goes on, the read+write open of the SECOND pass fails (EISDIR).
                                   `C16_run_outcome_plain` is the statement as first described, with the extra
                                   hypothesis `PlainImages` explicit.
  O2 `C16_error_before_mutation`  fault-free error runs: the tree is untouched when the error arises in validation
                                   or in the first pass; an error of the SECOND pass is possible fault-free
                                   (directory image) and then exactly the shorter images of the entries BEFORE the
                                   first directory image have been zero-extended (`C16_pass2_error_mutates`: a
                                   checked world where the tree has changed).
  O3 `C14_overlong_aborts_any_faults`  ANY fault set: flag on and an over-long (or blocked) image ⇒ error, only `stat`
                                   and read-only opens logged, tree untouched. No hypothesis on validation is needed
                                   (a failing validation is an error as well) and a fault cannot defeat it (a fault
                                   on the read-only open of the over-long image makes the first pass fail anyway).
     `C14_dir_image_errs_any_faults`   the same for a directory image, where only `result = .err` and the form of the
                                   mutations survive.
  O4 `C15_total_is_work`          `total = work.length` always; the records with and without an error / a panic.
-/
import TB.Spec.ExportSpec
import TB.Props.C04c
import TB.Props.C11
import TB.Props.C14
import TB.Props.C15
import TB.Props.C16
import TB.Props.C16run
import TB.Props.C16total
import TB.Props.C04hist
import TB.Lemmas.RunY
namespace TB
open TB.RB

/-! ## the properties of the initial tree the outcome depends on -/

/-- the image path of a non-padding entry has a regular file as a proper prefix (every open of it is `ENOTDIR`) -/
def ImageBlocked (fs : Fs) (e : TEntry) : Prop := e.isPad = false ∧ fs.look e.fullTarget = .notDir

/-- the image path of a non-padding entry is a directory -/
def ImageIsDir (fs : Fs) (e : TEntry) : Prop := e.isPad = false ∧ fs.look e.fullTarget = .dir

/-- some non-padding entry of the table of the run has an image that exists in the initial tree as a regular file
    LONGER than declared (`Overlong`, TB.Props.C14, is the per-entry property; the table `table0 inp` is a function of
    the export argument and the torrents only) -/
def RunOverlong (inp : RunIn) : Prop := ∃ e ∈ table0 inp, Overlong inp.fs e

/-- some non-padding entry's image path has a regular file as a proper prefix in the initial tree -/
def RunBlocked (inp : RunIn) : Prop := ∃ e ∈ table0 inp, ImageBlocked inp.fs e

/-- some non-padding entry's image path is a directory of the initial tree -/
def RunImageDir (inp : RunIn) : Prop := ∃ e ∈ table0 inp, ImageIsDir inp.fs e

/-- no image path is a directory or lies below a regular file (the hypothesis `hlook` of `C14_extend`) -/
def PlainImages (inp : RunIn) : Prop :=
  ∀ e ∈ table0 inp, e.isPad = false → inp.fs.look e.fullTarget ≠ .notDir ∧ inp.fs.look e.fullTarget ≠ .dir

/-- the entries of the table the second pass of the pre-flight processes before it stops: those before the first
    non-padding entry whose image path is a directory or lies below a regular file -/
def entriesBeforeStop (inp : RunIn) : List TEntry := RunY.pre2 inp.fs (table0 inp)

theorem stop1_exists_iff (inp : RunIn) :
    (∃ e ∈ table0 inp, RunY.stop1 inp.fs e = true) ↔ (RunOverlong inp ∨ RunBlocked inp) := by
  constructor
  · rintro ⟨e, he, hs⟩
    rcases (RunY.stop1_iff _ _).1 hs with h | h
    · exact .inl ⟨e, he, h⟩
    · exact .inr ⟨e, he, h⟩
  · rintro (⟨e, he, h⟩ | ⟨e, he, h⟩)
    · exact ⟨e, he, (RunY.stop1_iff _ _).2 (.inl h)⟩
    · exact ⟨e, he, (RunY.stop1_iff _ _).2 (.inr h)⟩

theorem stop2_exists_iff (inp : RunIn) :
    (∃ e ∈ table0 inp, RunY.stop2 inp.fs e = true) ↔ (RunBlocked inp ∨ RunImageDir inp) := by
  constructor
  · rintro ⟨e, he, hs⟩
    obtain ⟨hp, h | h⟩ := (RunY.stop2_iff _ _).1 hs
    · exact .inl ⟨e, he, hp, h⟩
    · exact .inr ⟨e, he, hp, h⟩
  · rintro (⟨e, he, hp, h⟩ | ⟨e, he, hp, h⟩)
    · exact ⟨e, he, (RunY.stop2_iff _ _).2 ⟨hp, .inl h⟩⟩
    · exact ⟨e, he, (RunY.stop2_iff _ _).2 ⟨hp, .inr h⟩⟩

/-! ### decidability (for the checked worlds below) -/

/-- `Overlong` as a test -/
def overlongB (fs : Fs) (e : TEntry) : Bool :=
  !e.isPad && (match fs.look e.fullTarget with
    | .file i => decide ((fs.content i).length > e.fileLength)
    | _ => false)

theorem overlongB_iff (fs : Fs) (e : TEntry) : overlongB fs e = true ↔ Overlong fs e := by
  unfold overlongB Overlong
  cases hp : e.isPad
  · cases hl : fs.look e.fullTarget <;> simp
  · simp

instance (fs : Fs) (e : TEntry) : Decidable (Overlong fs e) := decidable_of_iff _ (overlongB_iff fs e)
instance (inp : RunIn) : Decidable (RunOverlong inp) := by unfold RunOverlong; infer_instance
instance (inp : RunIn) : Decidable (RunBlocked inp) := by unfold RunBlocked ImageBlocked; infer_instance
instance (inp : RunIn) : Decidable (RunImageDir inp) := by unfold RunImageDir ImageIsDir; infer_instance
instance (inp : RunIn) : Decidable (PlainImages inp) := by unfold PlainImages; infer_instance
instance (fs : Fs) (inp : RunIn) : Decidable (ArgsOk fs inp) := by unfold ArgsOk; infer_instance

/-! ## the two passes of the pre-flight without faults -/

/-- the first pass without faults, for any table and any state: it never changes the tree, and it fails iff some
    non-padding entry's image is a regular file longer than declared or has a regular file as a proper prefix of its
    path (a missing image is skipped; a DIRECTORY is opened read-only and passed over) -/
theorem C14_pass1_outcome (st : St) (hf : st.faults = []) (table : List TEntry) :
    (resizePass1 st table).1.fs = st.fs ∧
    ((resizePass1 st table).2 = .error ↔ ∃ e ∈ table, Overlong st.fs e ∨ ImageBlocked st.fs e) := by
  refine ⟨(C14_pass1_readonly st table).1, ?_⟩
  rw [RunY.pass1_error_iff table st hf]
  constructor
  · rintro ⟨e, he, hs⟩; exact ⟨e, he, (RunY.stop1_iff _ _).1 hs⟩
  · rintro ⟨e, he, hs⟩; exact ⟨e, he, (RunY.stop1_iff _ _).2 hs⟩

/-- the second pass without faults, for any table and any state: it fails iff some non-padding entry's image path has
    a regular file as a proper prefix or IS A DIRECTORY (the read+write open fails with an error that is not
    NotFound); in either case the tree it leaves is `RunN.step` (zero-extend a shorter regular image to the declared
    length) folded over the entries before the first such entry (all entries if there is none) -/
theorem C14_pass2_outcome (st : St) (hf : st.faults = []) (table : List TEntry) :
    ((resizePass2 st table).2 = .error ↔ ∃ e ∈ table, ImageBlocked st.fs e ∨ ImageIsDir st.fs e) ∧
    (resizePass2 st table).1.fs = (RunY.pre2 st.fs table).foldl RunN.step st.fs := by
  obtain ⟨h1, _, h3, _⟩ := RunY.pass2_spec table st hf
  refine ⟨?_, h3⟩
  rw [h1]
  constructor
  · rintro ⟨e, he, hs⟩
    obtain ⟨hp, h | h⟩ := (RunY.stop2_iff _ _).1 hs
    · exact ⟨e, he, .inl ⟨hp, h⟩⟩
    · exact ⟨e, he, .inr ⟨hp, h⟩⟩
  · rintro ⟨e, he, ⟨hp, h⟩ | ⟨hp, h⟩⟩
    · exact ⟨e, he, (RunY.stop2_iff _ _).2 ⟨hp, .inl h⟩⟩
    · exact ⟨e, he, (RunY.stop2_iff _ _).2 ⟨hp, .inr h⟩⟩

/-! ## the stages of a run -/

theorem runSt1_fs (inp : RunIn) : (runSt1 inp).fs = inp.fs := (validateAll_spec _ _).1
theorem runSt1_faults (inp : RunIn) : (runSt1 inp).faults = inp.faults := (validateAll_spec _ _).2.1
theorem runSt1_ops (inp : RunIn) : ∀ o ∈ (runSt1 inp).ops, o.kind = .stat := by
  obtain ⟨n, h1, h2⟩ := (validateAll_spec ⟨inp.fs, [], inp.faults⟩ (inp.scan ++ [inp.exportDir])).2.2.1
  intro o ho
  have : (runSt1 inp).ops = [] ++ n := h1
  rw [this] at ho
  exact h2 o (by simpa using ho)

/-- validation succeeding means the arguments are fine — for ANY fault set -/
theorem valOk_argsOk (inp : RunIn) (h : RunY.valOk inp = true) : ArgsOk inp.fs inp :=
  (validateAll_spec ⟨inp.fs, [], inp.faults⟩ (inp.scan ++ [inp.exportDir])).2.2.2 h

/-- without faults validation succeeds iff the arguments are fine -/
theorem valOk_iff (inp : RunIn) (hfa : inp.faults = []) : RunY.valOk inp = true ↔ ArgsOk inp.fs inp :=
  ⟨valOk_argsOk inp, fun h => RunI.validateAll_ok ⟨inp.fs, [], inp.faults⟩ _ hfa h⟩

theorem table0_nil (inp : RunIn) (h : inp.torrents = []) : table0 inp = [] := by
  simp [table0, h, sortTorrents, dedupTorrents, buildTable]

/-- where an error can come from (ANY fault set): validation, or the pre-flight -/
theorem run_err_source (H : Bytes → Bytes) (inp : RunIn) (herr : (run H inp).result = .err) :
    inp.torrents ≠ [] ∧
    (RunY.valOk inp = false ∨ (RunY.valOk inp = true ∧ inp.resize = true ∧ (RunY.fixRes inp).2 = .error)) := by
  have hne : inp.torrents ≠ [] := by
    intro h
    rw [(C16_empty H inp h).1] at herr
    cases herr
  refine ⟨hne, ?_⟩
  cases hv : RunY.valOk inp
  · exact .inl rfl
  · refine .inr ⟨rfl, ?_⟩
    cases hr : inp.resize
    · exact absurd herr (RunY.run_past_preflight H inp hne hv (fun h => by rw [hr] at h; cases h))
    · refine ⟨rfl, ?_⟩
      rcases RunY.flow_cases (RunY.fixRes inp).2 with h | h
      · exact h
      · exact absurd herr (RunY.run_past_preflight H inp hne hv (fun _ => h))

/-! ## O1: the outcome of a fault-free run -/

/-- **O1.** The outcome of a fault-free run on a non-empty list of loadable torrents, completely:

    * `.err` iff some scan or export argument is not an absolute path of an existing directory of the initial tree
      (`¬ ArgsOk`), or the resize flag is on and, in the initial tree, some non-padding table entry's image
        - is a regular file longer than declared (`RunOverlong`; error in the first pass), or
        - has a regular file as a proper prefix of its path (`RunBlocked`; `ENOTDIR` in the first pass), or
        - is a directory (`RunImageDir`; `EISDIR` on the read+write open of the SECOND pass);
    * `.ok ()` otherwise;
    * never `.panic`.

    Assumed: `inp.faults = []` (an injected fault in validation or in the pre-flight is an error by itself);
    `inp.torrents ≠ []` (with no torrents the run returns `.ok ()` before it validates anything, `C16_empty`);
    every torrent `Loadable` (only for "never `.panic`", through `C16_run_total`; the first conjunct does not use it).
    Not assumed: `FsWF`, anything about the candidate order, the evaluation order or the hash function.
    The two last disjuncts cannot be dropped: `C16_outcome_needs_image_cases`. -/
theorem C16_run_outcome (H : Bytes → Bytes) (inp : RunIn) (hfa : inp.faults = []) (hne : inp.torrents ≠ [])
    (hload : ∀ t ∈ inp.torrents, Loadable H t) :
    ((run H inp).result = .err ↔
      (¬ ArgsOk inp.fs inp ∨ (inp.resize = true ∧ (RunOverlong inp ∨ RunBlocked inp ∨ RunImageDir inp)))) ∧
    ((run H inp).result = .ok () ↔
      (ArgsOk inp.fs inp ∧ ¬ (inp.resize = true ∧ (RunOverlong inp ∨ RunBlocked inp ∨ RunImageDir inp)))) ∧
    (run H inp).result ≠ .panic := by
  have hnp := C16_run_total H inp hload
  have hfa1 : (runSt1 inp).faults = [] := (runSt1_faults inp).trans hfa
  have hfix := (RunY.fix_spec (runSt1 inp) hfa1 (runTable0 inp)).1
  rw [runSt1_fs] at hfix
  have hstop : (RunY.fixRes inp).2 = .error ↔ (RunOverlong inp ∨ RunBlocked inp ∨ RunImageDir inp) := by
    show (fixExportFileLengths (runSt1 inp) (runTable0 inp)).2 = .error ↔ _
    rw [hfix]
    show ((∃ e ∈ table0 inp, RunY.stop1 inp.fs e = true) ∨ (∃ e ∈ table0 inp, RunY.stop2 inp.fs e = true)) ↔ _
    rw [stop1_exists_iff, stop2_exists_iff]
    constructor
    · rintro ((h | h) | (h | h))
      · exact .inl h
      · exact .inr (.inl h)
      · exact .inr (.inl h)
      · exact .inr (.inr h)
    · rintro (h | h | h)
      · exact .inl (.inl h)
      · exact .inl (.inr h)
      · exact .inr (.inr h)
  have herr : (run H inp).result = .err ↔
      (¬ ArgsOk inp.fs inp ∨ (inp.resize = true ∧ (RunOverlong inp ∨ RunBlocked inp ∨ RunImageDir inp))) := by
    constructor
    · intro h
      rcases (run_err_source H inp h).2 with hv | ⟨_, hr, hf⟩
      · left
        intro ha
        rw [(valOk_iff inp hfa).2 ha] at hv
        cases hv
      · exact .inr ⟨hr, hstop.1 hf⟩
    · intro h
      cases hv : RunY.valOk inp
      · rw [RunY.run_validate_false H inp hne hv]
      · rcases h with h | ⟨hr, hs⟩
        · exact absurd ((valOk_iff inp hfa).1 hv) h
        · rw [RunY.run_fix_error H inp hne hv hr (hstop.2 hs)]
  refine ⟨herr, ?_, hnp⟩
  constructor
  · intro hok
    have hne' : ¬ (run H inp).result = .err := by rw [hok]; intro hc; cases hc
    rw [herr] at hne'
    exact ⟨Classical.byContradiction (fun h => hne' (.inl h)), fun h => hne' (.inr h)⟩
  · rintro ⟨ha, hno⟩
    have hne' : ¬ (run H inp).result = .err := by
      rw [herr]
      rintro (h | h)
      · exact h ha
      · exact hno h
    cases hr : (run H inp).result with
    | ok u => rfl
    | err => exact absurd hr hne'
    | panic => exact absurd hr hnp

/-- **O1, as first described.** When no image path is a directory or lies below a regular file (`PlainImages`, the
    extra hypothesis — without it the statement is false, `C16_outcome_needs_image_cases`), a fault-free run on loadable
    torrents ends in `.err` iff an argument is bad or the flag is on and some image is over-long, and in `.ok ()`
    otherwise. -/
theorem C16_run_outcome_plain (H : Bytes → Bytes) (inp : RunIn) (hfa : inp.faults = []) (hne : inp.torrents ≠ [])
    (hload : ∀ t ∈ inp.torrents, Loadable H t) (hplain : PlainImages inp) :
    ((run H inp).result = .err ↔ (¬ ArgsOk inp.fs inp ∨ (inp.resize = true ∧ RunOverlong inp))) ∧
    ((run H inp).result = .ok () ↔ (ArgsOk inp.fs inp ∧ ¬ (inp.resize = true ∧ RunOverlong inp))) ∧
    (run H inp).result ≠ .panic := by
  obtain ⟨h1, h2, h3⟩ := C16_run_outcome H inp hfa hne hload
  have hb : ¬ RunBlocked inp := fun ⟨e, he, hp, hl⟩ => (hplain e he hp).1 hl
  have hd : ¬ RunImageDir inp := fun ⟨e, he, hp, hl⟩ => (hplain e he hp).2 hl
  have : (RunOverlong inp ∨ RunBlocked inp ∨ RunImageDir inp) ↔ RunOverlong inp :=
    ⟨fun h => h.elim id (fun h => h.elim (fun h => absurd h hb) (fun h => absurd h hd)), .inl⟩
  rw [this] at h1 h2
  exact ⟨h1, h2, h3⟩

/-! ## O2: what an error leaves behind -/

/-- **O2.** A fault-free run that ends in `.err`:

    * if the error comes from argument validation (`¬ ArgsOk`) or from the FIRST pass of the pre-flight (an over-long
      or a blocked image): the tree is untouched, and only `stat`s and read-only opens were logged;
    * otherwise — the arguments are fine, no image is over-long or blocked — the flag is on, some image path is a
      DIRECTORY, and the error arises in the SECOND pass (this is possible fault-free: `C16_pass2_error_mutates`).
      Then the tree is EXACTLY the initial tree with `RunN.step` (zero-extend the image of the entry to the declared
      length if it is a shorter regular file) applied to the entries before the first directory image, in table
      order. In particular (`RunY.Grown`): names, directories and the inode counter are as before; the content of
      every inode is the old content followed by zeros; an inode that changed is the image of one of those entries,
      which declared more than the old length, and its new length is the declared length of such an entry; and the
      only mutating operations logged are successful `set_len`s of those entries to their declared length.

    Assumed: `inp.faults = []`. (`inp.torrents ≠ []` follows from the error.) -/
theorem C16_error_before_mutation (H : Bytes → Bytes) (inp : RunIn) (hfa : inp.faults = [])
    (herr : (run H inp).result = .err) :
    ((¬ ArgsOk inp.fs inp ∨ RunOverlong inp ∨ RunBlocked inp) →
      (run H inp).fs = inp.fs ∧ ∀ o ∈ (run H inp).ops, o.kind = .stat ∨ o.kind = .openr) ∧
    ((ArgsOk inp.fs inp ∧ ¬ RunOverlong inp ∧ ¬ RunBlocked inp) →
      inp.resize = true ∧ RunImageDir inp ∧
      (run H inp).fs = (entriesBeforeStop inp).foldl RunN.step inp.fs ∧
      RunY.Grown inp.fs (entriesBeforeStop inp) (run H inp).fs ∧
      ∀ o ∈ (run H inp).ops, o.kind.mutating = true →
        ∃ e ∈ entriesBeforeStop inp, e.isPad = false ∧ o = ⟨.setlen e.fileLength, e.fullTarget, true⟩) := by
  obtain ⟨hne, hsrc⟩ := run_err_source H inp herr
  have hfa1 : (runSt1 inp).faults = [] := (runSt1_faults inp).trans hfa
  constructor
  · intro hcase
    rcases hsrc with hv | ⟨hv, hr, hf⟩
    · rw [RunY.run_validate_false H inp hne hv]
      exact ⟨runSt1_fs inp, fun o ho => .inl (runSt1_ops inp o ho)⟩
    · have hs1 : ∃ e ∈ runTable0 inp, RunY.stop1 (runSt1 inp).fs e = true := by
        rw [runSt1_fs]
        rcases hcase with h | h | h
        · exact absurd (valOk_argsOk inp hv) h
        · exact (stop1_exists_iff inp).2 (.inl h)
        · exact (stop1_exists_iff inp).2 (.inr h)
      obtain ⟨_, f2, n, f3, f4⟩ := RunY.fix_stop1_any (runSt1 inp) (runTable0 inp) hs1
      rw [RunY.run_fix_error H inp hne hv hr hf]
      refine ⟨f2.trans (runSt1_fs inp), fun o ho => ?_⟩
      have ho' : o ∈ (runSt1 inp).ops ++ n := by rw [← f3]; exact ho
      rcases List.mem_append.1 ho' with ho' | ho'
      · exact .inl (runSt1_ops inp o ho')
      · exact .inr (f4 o ho')
  · rintro ⟨ha, hno, hnb⟩
    rcases hsrc with hv | ⟨hv, hr, hf⟩
    · rw [(valOk_iff inp hfa).2 ha] at hv; cases hv
    · obtain ⟨g1, g2⟩ := RunY.fix_spec (runSt1 inp) hfa1 (runTable0 inp)
      rw [runSt1_fs] at g1 g2
      have hns1 : ¬ ∃ e ∈ runTable0 inp, RunY.stop1 inp.fs e = true := by
        intro h
        rcases (stop1_exists_iff inp).1 h with h | h
        · exact hno h
        · exact hnb h
      obtain ⟨k1, _, n, k3, k4⟩ := g2 hns1
      have hdir : RunImageDir inp := by
        rcases g1.1 hf with h | h
        · exact absurd h hns1
        · rcases (stop2_exists_iff inp).1 h with h | h
          · exact absurd h hnb
          · exact h
      have hfs : (run H inp).fs = (entriesBeforeStop inp).foldl RunN.step inp.fs := by
        rw [RunY.run_fix_error H inp hne hv hr hf]; exact k1
      refine ⟨hr, hdir, hfs, by rw [hfs]; exact RunY.foldl_step_grown _ _, ?_⟩
      rw [RunY.run_fix_error H inp hne hv hr hf]
      intro o ho hm
      have ho' : o ∈ (runSt1 inp).ops ++ n := by rw [← k3]; exact ho
      rcases List.mem_append.1 ho' with ho' | ho'
      · rw [runSt1_ops inp o ho'] at hm; cases hm
      · rcases k4 o ho' with h | ⟨e, _, ⟨hp, hpath, hk⟩, hor⟩
        · rw [h] at hm; cases hm
        · rcases hk with hk | ⟨hk, hok⟩
          · rw [hk] at hm; cases hm
          · rcases hor with h | h
            · rw [h] at hk; cases hk
            · refine ⟨e, h, hp, ?_⟩
              cases o
              simp only at hk hok hpath
              rw [hk, hok, hpath]

/-- **O2, uniformly.** Whatever the stage at which a fault-free run fails, the tree it leaves has the names, the
    directories and the inode counter of the initial tree, and every inode's content is the old content followed by
    zeros (none in the first case of `C16_error_before_mutation`). -/
theorem C16_error_tree_frame (H : Bytes → Bytes) (inp : RunIn) (hfa : inp.faults = [])
    (herr : (run H inp).result = .err) : RunY.Grown inp.fs (table0 inp) (run H inp).fs := by
  obtain ⟨h1, h2⟩ := C16_error_before_mutation H inp hfa herr
  by_cases hc : ArgsOk inp.fs inp ∧ ¬ RunOverlong inp ∧ ¬ RunBlocked inp
  · exact (h2 hc).2.2.2.1.mono (RunY.pre2_sub _ _)
  · have : ¬ ArgsOk inp.fs inp ∨ RunOverlong inp ∨ RunBlocked inp := by
      by_cases ha : ArgsOk inp.fs inp
      · by_cases ho : RunOverlong inp
        · exact .inr (.inl ho)
        · by_cases hb : RunBlocked inp
          · exact .inr (.inr hb)
          · exact absurd ⟨ha, ho, hb⟩ hc
      · exact .inl ha
    rw [(h1 this).1]
    exact RunY.Grown.refl _ _

/-! ## O3: the over-long image, under any faults -/

/-- **O3.** ANY fault set, any hash function, any tree: with the resize flag on, an over-long image (or an image path
    below a regular file) in the INITIAL tree makes the run end in `.err` with nothing but `stat`s and read-only opens
    in its log — hence no mutating operation, and the tree is the initial tree (directly, and as the replay of the
    log); nothing was evaluated.

    No hypothesis on validation: if validation fails under these faults the run ends in `.err` after `stat`s only;
    if it succeeds (`RunY.valOk inp = true`, which then implies `ArgsOk`) the first pass of the pre-flight fails — at the
    over-long image, or EARLIER at an injected fault or another obstacle. A fault cannot defeat the clause: a fault
    on the read-only open of the over-long image itself makes the first pass return an error anyway (`resizePass1`:
    a failed open is skipped only if it is NotFound and not injected). `inp.torrents ≠ []` follows from the
    hypothesis (an empty torrent list has an empty table). This generalises `C14_abort` (which already had no
    hypothesis on the faults) by the blocked image and the form of the log. -/
theorem C14_overlong_aborts_any_faults (H : Bytes → Bytes) (inp : RunIn) (hres : inp.resize = true)
    (hover : RunOverlong inp ∨ RunBlocked inp) :
    (run H inp).result = .err ∧ (run H inp).fs = inp.fs ∧
    (∀ o ∈ (run H inp).ops, o.kind = .stat ∨ o.kind = .openr) ∧
    (∀ o ∈ (run H inp).ops, o.kind.mutating = false) ∧
    replay inp.fs (run H inp).ops = inp.fs ∧
    (run H inp).counters = [] ∧ (run H inp).total = 0 ∧ (run H inp).setupOps = (run H inp).ops.length := by
  have hne : inp.torrents ≠ [] := by
    intro h
    have := table0_nil inp h
    rcases hover with ⟨e, he, _⟩ | ⟨e, he, _⟩ <;> (rw [this] at he; cases he)
  have key : (run H inp).result = .err ∧ (run H inp).fs = inp.fs ∧
      (∀ o ∈ (run H inp).ops, o.kind = .stat ∨ o.kind = .openr) ∧
      (run H inp).counters = [] ∧ (run H inp).total = 0 ∧ (run H inp).setupOps = (run H inp).ops.length := by
    cases hv : RunY.valOk inp
    · rw [RunY.run_validate_false H inp hne hv]
      exact ⟨rfl, runSt1_fs inp, fun o ho => .inl (runSt1_ops inp o ho), rfl, rfl, rfl⟩
    · have hs1 : ∃ e ∈ runTable0 inp, RunY.stop1 (runSt1 inp).fs e = true := by
        rw [runSt1_fs]; exact (stop1_exists_iff inp).2 hover
      obtain ⟨f1, f2, n, f3, f4⟩ := RunY.fix_stop1_any (runSt1 inp) (runTable0 inp) hs1
      rw [RunY.run_fix_error H inp hne hv hres f1]
      refine ⟨rfl, f2.trans (runSt1_fs inp), fun o ho => ?_, rfl, rfl, rfl⟩
      have ho' : o ∈ (runSt1 inp).ops ++ n := by rw [← f3]; exact ho
      rcases List.mem_append.1 ho' with ho' | ho'
      · exact .inl (runSt1_ops inp o ho')
      · exact .inr (f4 o ho')
  obtain ⟨k1, k2, k3, k4, k5, k6⟩ := key
  have hnm : ∀ o ∈ (run H inp).ops, o.kind.mutating = false := by
    intro o ho
    rcases k3 o ho with h | h <;> (rw [h]; rfl)
  refine ⟨k1, k2, k3, hnm, ?_, k4, k5, k6⟩
  rw [← C11_replay H inp, k2]

/-- **O3, directory image.** ANY fault set: with the flag on, an image path that is a directory in the initial tree
    makes the run end in `.err` as well (validation, the first pass or the second pass fails — the second at the latest
    at the read+write open of that path). Here the tree need NOT be untouched (`C16_pass2_error_mutates`), but every
    mutating operation of the log is a `set_len` of a non-padding table entry's image to its declared length. -/
theorem C14_dir_image_errs_any_faults (H : Bytes → Bytes) (inp : RunIn) (hres : inp.resize = true)
    (hdir : RunImageDir inp) :
    (run H inp).result = .err ∧
    ∀ o ∈ (run H inp).ops, o.kind.mutating = true →
      ∃ e ∈ table0 inp, e.isPad = false ∧ o.path = e.fullTarget ∧ o.kind = .setlen e.fileLength := by
  have hne : inp.torrents ≠ [] := by
    intro h
    have := table0_nil inp h
    obtain ⟨e, he, _⟩ := hdir
    rw [this] at he; cases he
  cases hv : RunY.valOk inp
  · rw [RunY.run_validate_false H inp hne hv]
    refine ⟨rfl, fun o ho hm => ?_⟩
    rw [runSt1_ops inp o ho] at hm; cases hm
  · have hs2 : ∃ e ∈ runTable0 inp, RunY.stop2 (runSt1 inp).fs e = true := by
      rw [runSt1_fs]; exact (stop2_exists_iff inp).2 (.inr hdir)
    have hf := RunY.fix_detects (runSt1 inp) (runTable0 inp) (.inr hs2)
    rw [RunY.run_fix_error H inp hne hv hres hf]
    refine ⟨rfl, fun o ho hm => ?_⟩
    -- the log of the pre-flight: first pass read-only, second pass `openrw` / `set_len`
    obtain ⟨_, n1, r2, r3⟩ := C14_pass1_readonly (runSt1 inp) (runTable0 inp)
    have hops : ∀ o ∈ (RunY.fixRes inp).1.ops, o.kind = .stat ∨ o.kind = .openr ∨
        ∃ e ∈ table0 inp, e.isPad = false ∧ o.path = e.fullTarget ∧ (o.kind = .openrw ∨ o.kind = .setlen e.fileLength) := by
      intro o ho
      show _ ∨ _ ∨ ∃ e ∈ runTable0 inp, _
      unfold RunY.fixRes at ho
      rcases RunY.flow_cases (resizePass1 (runSt1 inp) (runTable0 inp)).2 with h1 | h1
      · rw [fixExportFileLengths_error _ _ h1, r2] at ho
        rcases List.mem_append.1 ho with ho | ho
        · exact .inl (runSt1_ops inp o ho)
        · exact .inr (.inl (r3 o ho))
      · rw [RunY.fix_continue _ _ h1] at ho
        obtain ⟨n2, q1, q2⟩ := C14_pass2_ops (resizePass1 (runSt1 inp) (runTable0 inp)).1 (runTable0 inp)
        rw [q1, r2] at ho
        rcases List.mem_append.1 ho with ho | ho
        · rcases List.mem_append.1 ho with ho | ho
          · exact .inl (runSt1_ops inp o ho)
          · exact .inr (.inl (r3 o ho))
        · exact .inr (.inr (q2 o ho))
    rcases hops o ho with h | h | ⟨e, he, hp, hpath, hk | hk⟩
    · rw [h] at hm; cases hm
    · rw [h] at hm; cases hm
    · rw [hk] at hm; cases hm
    · exact ⟨e, he, hp, hpath, hk⟩

/-! ## O4: the reported figures -/

/-- **O4.** `total` is the number of work items, always (both are `0` for a run without torrents, for a run that
    ends in `.err`, and for the panic of `convert_pieces_to_work`). The progress records: never more than `total`;
    the `k`-th sums to `k + 1` in every run; a run that returns `.ok ()` has exactly `total` of them (this much is
    `C15_run`); a run that ends in `.err` has none, and `total = 0`, `work = []`; a run that ends in `.panic` has
    strictly fewer than `total` (the panic of a piece: the records stop there) or none at all with `total = 0` (the
    panic of `convert_pieces_to_work`). No hypothesis. -/
theorem C15_total_is_work (H : Bytes → Bytes) (inp : RunIn) :
    (run H inp).total = (run H inp).work.length ∧
    (run H inp).counters.length ≤ (run H inp).total ∧
    (∀ k (hk : k < (run H inp).counters.length),
      ((run H inp).counters[k]).success + ((run H inp).counters[k]).failed + ((run H inp).counters[k]).fault = k + 1) ∧
    ((run H inp).result = .ok () → (run H inp).counters.length = (run H inp).total) ∧
    ((run H inp).result = .err → (run H inp).total = 0 ∧ (run H inp).counters = [] ∧ (run H inp).work = []) ∧
    ((run H inp).result = .panic →
      (run H inp).counters.length < (run H inp).total ∨ ((run H inp).total = 0 ∧ (run H inp).counters = [])) := by
  rcases RunY.run_book H inp with ⟨h1, h2, h3⟩ | ⟨st, ordered, h1, h2, h3, h4⟩
  · rw [h1, h2, h3]
    exact ⟨rfl, Nat.le_refl _, fun k hk => absurd hk (by simp), fun _ => rfl, fun _ => ⟨rfl, rfl, rfl⟩,
      fun _ => .inr ⟨rfl, rfl⟩⟩
  · obtain ⟨recs, r1, r2, r3, r4⟩ := RunY.solveAll_records H st ordered ⟨0, 0, 0⟩ []
    rw [List.nil_append] at r1
    rw [← h4] at r1
    cases hp : (solveAll H st ordered ⟨0, 0, 0⟩ []).2.2
    · have hl := r2 hp
      rw [hp] at h3
      refine ⟨h2, by rw [r1, hl, h1, h2]; exact Nat.le_refl _, ?_, fun _ => by rw [r1, hl, h1, h2], ?_, ?_⟩
      · intro k hk
        have := r4 k (by rw [r1] at hk; exact hk)
        simp only [r1]
        simpa using this
      · intro he; rw [h3] at he; cases he
      · intro he; rw [h3] at he; cases he
    · have hl := r3 hp
      rw [hp] at h3
      refine ⟨h2, by rw [r1, h2, ← h1]; exact Nat.le_of_lt hl, ?_, ?_, ?_, fun _ => .inl (by rw [r1, h2, ← h1]; exact hl)⟩
      · intro k hk
        have := r4 k (by rw [r1] at hk; exact hk)
        simp only [r1]
        simpa using this
      · intro he; rw [h3] at he; cases he
      · intro he; rw [h3] at he; cases he

/-! ## checked worlds (`H = id`)

  One loadable multi-file torrent: name `n`, files `a` (2 bytes) and `b` (1 byte), piece length 4, one piece. With
  `H = id` the info-hash is the encoding of the info value; `Loadable` goes through `C10_iff` as in `C06Ex`. The table
  has two entries, `e/<hex>/Data/n/a` (declared 2) and `e/<hex>/Data/n/b` (declared 1). Scan directory `s`, export
  directory `e`, no faults. The worlds differ in the tree, the arguments and the flag:

    `inpOk`      empty export directory, flag on                                  → `.ok ()`
    `inpBadArg`  the export argument names a missing directory                    → `.err`  (validation)
    `inpRel`     the scan argument is relative                                    → `.err`  (validation, no `stat` at all)
    `inpOver`    the image of `a` is a regular file of 3 bytes, flag on           → `.err`  (first pass)
    `inpOverOff` the same tree, flag off                                          → `.ok ()`
    `inpBlocked` `e/<hex>` is a regular file, flag on                             → `.err`  (first pass, ENOTDIR)
    `inpDir`     the image of `a` is `[1]` (short), the image of `b` is a DIRECTORY, flag on
                                                                                  → `.err`  (second pass), `a` is now `[1, 0]`
    `inpOverF`   `inpOver` with a fault on the read-only open of the over-long image → `.err` all the same -/

namespace OutcomeEx

def fileA : BVal := .dict [(kLength, .int 2), (kPath, .list [.str [97]])]
def fileB : BVal := .dict [(kLength, .int 1), (kPath, .list [.str [98]])]
def infod : List (Bytes × BVal) :=
  [(kFiles, .list [fileA, fileB]), (kName, .str [110]), (kPieceLength, .int 4), (kPieces, .str (List.replicate 20 7))]
def root : BVal := .dict [(kInfo, .dict infod)]
def info : Info := ⟨[110], none, some [⟨2, [[97]]⟩, ⟨1, [[98]]⟩], 4, [List.replicate 20 7]⟩
def tor : Torrent := ⟨info, encode (.dict infod)⟩
def eDir : Path := [[101]]
def sDir : Path := [[115]]
def hxDir : Path := eDir ++ [hex tor.infoHash]
def dataDir : Path := hxDir ++ [sData]
def nDir : Path := dataDir ++ [[110]]
def imgA : Path := nDir ++ [[97]]
def imgB : Path := nDir ++ [[98]]

def fsEmpty : Fs := { files := [], dirs := [eDir, sDir], data := [], next := 0 }
def fsOver : Fs :=
  { files := [(imgA, 0)], dirs := [eDir, sDir, hxDir, dataDir, nDir], data := [(0, [1, 2, 3])], next := 1 }
def fsBlocked : Fs := { files := [(hxDir, 0)], dirs := [eDir, sDir], data := [(0, [])], next := 1 }
def fsDir : Fs :=
  { files := [(imgA, 0)], dirs := [eDir, sDir, hxDir, dataDir, nDir, imgB], data := [(0, [1])], next := 1 }

def inpOk : RunIn :=
  { fs := fsEmpty, torrents := [tor], scan := [⟨true, sDir⟩], exportDir := ⟨true, eDir⟩, resize := true,
    searchObs := [], order := [], faults := [] }
def inpBadArg : RunIn := { inpOk with exportDir := ⟨true, [[120]]⟩ }
def inpRel : RunIn := { inpOk with scan := [⟨false, sDir⟩] }
def inpOver : RunIn := { inpOk with fs := fsOver }
def inpOverOff : RunIn := { inpOver with resize := false }
def inpBlocked : RunIn := { inpOk with fs := fsBlocked }
def inpDir : RunIn := { inpOk with fs := fsDir }
def inpOverF : RunIn := { inpOver with faults := [2] }

theorem canon_root : canon root = true := by decide +kernel
theorem spec_info : specInfo infod = some info := by decide +kernel

/-- the document `encode root` loads as `tor` -/
theorem loadable : Loadable id tor := by
  refine ⟨encode root, (C10_iff id _ _).2 ⟨root, canon_root, rfl, ?_⟩⟩
  show (match dictGet [(kInfo, BVal.dict infod)] kInfo with
    | some (.dict info) => (match specInfo info with | some i => some ⟨i, id (encode (.dict info))⟩ | none => none)
    | _ => none) = some tor
  have : dictGet [(kInfo, BVal.dict infod)] kInfo = some (.dict infod) := by simp [dictGet]
  rw [this]
  simp only [spec_info]
  rfl

theorem loadable_all : ∀ t ∈ [tor], Loadable id t := by
  intro t ht
  rw [List.mem_singleton] at ht
  subst ht
  exact loadable

/-- the table of all these runs (it does not depend on the tree) -/
example : (table0 inpOk).map (fun e => (e.fullTarget, e.fileLength, e.isPad)) = [(imgA, 2, false), (imgB, 1, false)] := by
  decide +kernel

/-! ### non-vacuity of O1: the three outcomes -/

/-- `.ok ()`: the hypotheses of `C16_run_outcome` hold, the arguments are fine, nothing stops the pre-flight -/
example : ArgsOk inpOk.fs inpOk ∧ inpOk.resize = true ∧ ¬ RunOverlong inpOk ∧ ¬ RunBlocked inpOk ∧ ¬ RunImageDir inpOk := by
  decide +kernel
example : (run id inpOk).result = .ok () :=
  (C16_run_outcome id inpOk rfl (by decide) loadable_all).2.1.2 (by decide +kernel)
example : (run id inpOk).result = .ok () := by decide +kernel

/-- `.err` by a bad argument: the export directory does not exist; a scan argument is relative -/
example : ¬ ArgsOk inpBadArg.fs inpBadArg := by decide +kernel
example : (run id inpBadArg).result = .err :=
  (C16_run_outcome id inpBadArg rfl (by decide) loadable_all).1.2 (.inl (by decide +kernel))
example : (run id inpBadArg).result = .err ∧ (run id inpBadArg).ops.map (·.kind) = [.stat, .stat] := by decide +kernel
example : (run id inpRel).result = .err :=
  (C16_run_outcome id inpRel rfl (by decide) loadable_all).1.2 (.inl (by decide +kernel))
example : (run id inpRel).result = .err ∧ (run id inpRel).ops = [] := by decide +kernel

/-- `.err` by an over-long image (arguments fine, flag on); with the flag off the same world gives `.ok ()` -/
example : ArgsOk inpOver.fs inpOver ∧ RunOverlong inpOver ∧ ¬ RunBlocked inpOver ∧ ¬ RunImageDir inpOver := by
  decide +kernel
example : (run id inpOver).result = .err :=
  (C16_run_outcome id inpOver rfl (by decide) loadable_all).1.2 (.inr ⟨rfl, .inl (by decide +kernel)⟩)
example : (run id inpOver).result = .err ∧ (run id inpOver).fs = inpOver.fs ∧
    (run id inpOver).ops.map (fun o => (o.kind, o.ok)) = [(.stat, true), (.stat, true), (.openr, true)] := by decide +kernel
example : (run id inpOverOff).result = .ok () :=
  (C16_run_outcome id inpOverOff rfl (by decide) loadable_all).2.1.2 (by decide +kernel)

/-! ### the two further error sources of the pre-flight -/

theorem blocked_facts : ArgsOk inpBlocked.fs inpBlocked ∧ ¬ RunOverlong inpBlocked ∧ RunBlocked inpBlocked ∧
    ¬ RunImageDir inpBlocked := by decide +kernel
theorem blocked_err : (run id inpBlocked).result = .err := by decide +kernel
/-- the error arises at the first read-only open of the first pass; nothing is modified -/
example : (run id inpBlocked).fs = inpBlocked.fs ∧
    (run id inpBlocked).ops.map (fun o => (o.kind, o.ok)) = [(.stat, true), (.stat, true), (.openr, false)] := by
  decide +kernel

theorem dir_facts : ArgsOk inpDir.fs inpDir ∧ ¬ RunOverlong inpDir ∧ ¬ RunBlocked inpDir ∧ RunImageDir inpDir := by
  decide +kernel
theorem dir_err : (run id inpDir).result = .err := by decide +kernel
/-- the first pass goes through (both opens succeed, the directory is opened read-only); the second pass extends the
    image of `a` from `[1]` to `[1, 0]` and then fails on the read+write open of the directory -/
theorem dir_log : (run id inpDir).ops.map (fun o => (o.kind, o.path, o.ok)) =
    [(.stat, sDir, true), (.stat, eDir, true), (.openr, imgA, true), (.openr, imgB, true),
     (.openrw, imgA, true), (.setlen 2, imgA, true), (.openrw, imgB, false)] := by decide +kernel
theorem dir_data : inpDir.fs.data = [(0, [1])] ∧ (run id inpDir).fs.data = [(0, [1, 0])] := by decide +kernel
/-- O2 on this world: the entries before the stop are the entry of `a` alone -/
example : (entriesBeforeStop inpDir).map (·.fullTarget) = [imgA] := by decide +kernel
example : (run id inpDir).fs = (entriesBeforeStop inpDir).foldl RunN.step inpDir.fs :=
  ((C16_error_before_mutation id inpDir rfl dir_err).2 ⟨dir_facts.1, dir_facts.2.1, dir_facts.2.2.1⟩).2.2.1

/-! ### O3 under a fault on the open of the over-long image itself -/

/-- operation 2 (the read-only open of the over-long image) fails by injection: the first pass returns an error anyway -/
example : (run id inpOverF).result = .err ∧ (run id inpOverF).fs = inpOverF.fs ∧
    (run id inpOverF).ops.map (fun o => (o.kind, o.ok)) = [(.stat, true), (.stat, true), (.openr, false)] := by
  decide +kernel
example : (run id inpOverF).result = .err :=
  (C14_overlong_aborts_any_faults id inpOverF rfl (.inl (by decide +kernel))).1

/-! ### O4 on the world `inpOk`: one piece, not found -/
example : (run id inpOk).total = 1 ∧ (run id inpOk).work.length = 1 ∧ (run id inpOk).counters = [⟨0, 1, 0⟩] := by
  decide +kernel

end OutcomeEx

/-- **The statement of O1 with `RunOverlong` alone is false**: in the world `OutcomeEx.inpBlocked` (`e/<hex>` is a regular
    file) every hypothesis holds, the arguments are fine and no image is over-long, yet the run ends in `.err`. (The
    world `OutcomeEx.inpDir` refutes it as well: `OutcomeEx.dir_facts`, `OutcomeEx.dir_err`.) -/
theorem C16_outcome_needs_image_cases :
    ¬ (∀ (H : Bytes → Bytes) (inp : RunIn), inp.faults = [] → inp.torrents ≠ [] →
        (∀ t ∈ inp.torrents, Loadable H t) →
        ((run H inp).result = .err ↔ (¬ ArgsOk inp.fs inp ∨ (inp.resize = true ∧ RunOverlong inp)))) := by
  intro h
  rcases (h id OutcomeEx.inpBlocked rfl (by decide) OutcomeEx.loadable_all).1 OutcomeEx.blocked_err with h1 | ⟨_, h2⟩
  · exact h1 OutcomeEx.blocked_facts.1
  · exact OutcomeEx.blocked_facts.2.1 h2

/-- **"An error means nothing was modified" is false for the second pass, even without faults**: in the world
    `OutcomeEx.inpDir` (loadable torrent, arguments fine, no fault) the run ends in `.err` after it has zero-extended the
    image of `a`. -/
theorem C16_pass2_error_mutates :
    ¬ (∀ (H : Bytes → Bytes) (inp : RunIn), inp.faults = [] → (∀ t ∈ inp.torrents, Loadable H t) →
        (run H inp).result = .err → (run H inp).fs = inp.fs) := by
  intro h
  have h1 := h id OutcomeEx.inpDir rfl OutcomeEx.loadable_all OutcomeEx.dir_err
  have h2 := OutcomeEx.dir_data
  rw [h1] at h2
  exact absurd (h2.1.symm.trans h2.2) (by decide)


end TB
