import TB.Props.C05reads6
namespace TB
open TB.RunX

/-- hard-link separation of two distinct paths survives a critical section of any third (or the same) target: the
    section rebinds only its own target, either to its old inode or to a fresh one -/
theorem inoOf_sep_crit {fs fs' : Fs} (hwf : FsWF fs) {t0 : Path} {L off : Nat} {d : Bytes} {i0 : Nat}
    (S : CritSpec fs t0 L off d fs' i0) {p t : Path} (hne : p ≠ t)
    (hsep : ∀ i j, fs.inoOf p = some i → fs.inoOf t = some j → i ≠ j) :
    ∀ i j, fs'.inoOf p = some i → fs'.inoOf t = some j → i ≠ j := by
  intro i j hi hj
  by_cases hp : p = t0
  · have ht : t ≠ t0 := fun e => hne (hp.trans e.symm)
    rw [S.ino_other t ht] at hj
    subst hp
    rw [S.ino_t] at hi
    cases hi
    rcases S.origin with ⟨h1, _⟩ | ⟨_, h2, _⟩
    · exact hsep _ _ h1 hj
    · have := RunF.inoOf_lt hwf hj
      omega
  · rw [S.ino_other p hp] at hi
    by_cases ht : t = t0
    · subst ht
      rw [S.ino_t] at hj
      cases hj
      rcases S.origin with ⟨h1, _⟩ | ⟨_, h2, _⟩
      · exact hsep _ _ hi h1
      · have := RunF.inoOf_lt hwf hi
        omega
    · rw [S.ino_other t ht] at hj
      exact hsep _ _ hi hj

/-- R7: any SEQUENCE of critical sections of other pieces preserves the verification of a piece they all spare; the
    sparing condition is stated once, against the INITIAL tree -/
theorem C05_sections_preserve_verified (H : Bytes → Bytes) (secs : List Sec) (fs fs' : Fs) (hwf : FsWF fs) (w : Work)
    (hc : fs.crits secs = some fs')
    (hsp : ∀ sec ∈ secs, ∀ s ∈ w.segs, ¬ s.ent.isPad →
      (s.ent.fullTarget = sec.t → s.off + s.len ≤ sec.L ∧ (s.off + s.len ≤ sec.off ∨ sec.off + sec.d.length ≤ s.off)) ∧
      (s.ent.fullTarget ≠ sec.t → ∀ i j, fs.inoOf s.ent.fullTarget = some i → fs.inoOf sec.t = some j → i ≠ j))
    (h : VerE H fs w) : VerE H fs' w := by
  induction secs generalizing fs with
  | nil =>
    simp only [Fs.crits] at hc
    cases hc
    exact h
  | cons sec0 rest ih =>
    simp only [Fs.crits] at hc
    rcases crit_spec hwf sec0.t sec0.L sec0.off sec0.d with ⟨_, hn⟩ | ⟨_, fs1, i0, he, S⟩
    · rw [hn] at hc; cases hc
    · rw [he] at hc
      simp only [Option.bind_some] at hc
      have hv1 : VerE H fs1 w :=
        C05_section_preserves_verified H fs fs1 hwf sec0 w he (hsp sec0 List.mem_cons_self) h
      refine ih fs1 S.wf hc ?_ hv1
      intro sec hsec s hs hpad
      obtain ⟨a, b⟩ := hsp sec (List.mem_cons_of_mem _ hsec) s hs hpad
      exact ⟨a, fun hne => inoOf_sep_crit hwf S hne (b hne)⟩

/-! #### non-vacuity of R7: the image `d/x` holds `[7, 8]` and the piece on its first byte verifies; two sections of
    other pieces run one after the other — the second byte of `d/x`, then a NEW image `d/y` (created, fresh inode) —
    and the piece still verifies -/
namespace C05r
open TB.C05w
def ty : Path := [[100], [121]]
def secsR : List Sec := [⟨tx, 2, 1, [9]⟩, ⟨ty, 3, 0, [1, 2, 3]⟩]
example : ∃ fs', fsR.crits secsR = some fs' ∧ VerE id fs' wR := by
  cases hc : fsR.crits secsR with
  | none => exact absurd hc (by decide)
  | some fs' =>
    refine ⟨fs', rfl, C05_sections_preserve_verified id secsR fsR fs' wfR wR hc ?_ verR⟩
    intro sec hsec s hs _
    have hs' : s = ⟨1, 0, ex⟩ := by simpa [wR] using hs
    subst hs'
    have : sec = ⟨tx, 2, 1, [9]⟩ ∨ sec = ⟨ty, 3, 0, [1, 2, 3]⟩ := by simpa [secsR] using hsec
    rcases this with e | e <;> subst e
    · exact ⟨fun _ => ⟨by decide, Or.inl (by decide)⟩, fun h => absurd rfl h⟩
    · refine ⟨fun h => absurd h (by decide), fun _ i j _ hj => ?_⟩
      have : fsR.inoOf ty = none := by decide
      rw [this] at hj; cases hj
end C05r

end TB
