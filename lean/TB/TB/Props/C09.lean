/-
  C09 — decoding and loading are total: any bytes give a value or an error (never a panic).
  Termination is Lean's own obligation: every model function is total (structural recursion on the input
  or on fuel ≤ 2·|input| + 2; `pieceCountOk` is one division, no loop driven by a number read from the input).
-/
import TB.Props.C10
import TB.Props.C06
namespace TB

theorem C09_decode_total (inp : Bytes) : decode inp ≠ .panic := by
  exact C08_no_panic inp

/-- the slice of the info dictionary is always in range, and no other step of loading can panic -/
theorem C09_load_total (H : Bytes → Bytes) (inp : Bytes) : load H inp ≠ .panic := by
  cases hd : decode inp with
  | err => simp [load, hd]
  | panic => exact absurd hd (C08_no_panic inp)
  | ok t =>
    cases t with
    | str x => simp [load, hd]
    | int x a b => simp [load, hd]
    | list x a b => simp [load, hd]
    | dict rks rvs s0 c0 =>
      cases hf : findDict rks rvs kInfo with
      | none => simp [load, hd, hf]
      | some r =>
        obtain ⟨iks, ivs, s, c⟩ := r
        have hf' := findDict_eq_some.1 hf
        obtain ⟨_, _, hsp, _, _⟩ := C08_sound inp _ hd
        obtain ⟨_, _, _, _, hsl⟩ := spansExact_dict hsp
        obtain ⟨h1, h2, _, _, _⟩ := spansExact_dict (spansExactList_mem hsl _ (findValue_mem hf'))
        rw [load_eq_of_info hd hf' h1 h2]
        cases specInfo (eraseDict iks ivs) <;> simp

/-- the piece layout of a loaded torrent never panics either (index out of range, underflow) -/
theorem C09_layout_total (H : Bytes → Bytes) (inp : Bytes) (T : Torrent) (h : load H inp = .ok T) :
    constructPieces T.info.pieceLength T.info.length (T.info.files.map (·.map (·.length))) T.info.pieces ≠ none := by
  obtain ⟨ps, hps, _⟩ := C06_loaded H inp T h
  rw [hps]; exact Option.some_ne_none ps

end TB
