/-
  C09 — decoding and loading are total: any bytes give a value or an error (never a panic).
  Termination is Lean's own obligation: every model function is total (structural recursion on the input
  or on fuel ≤ 2·|input| + 2; `pieceCountOk` is one division, no loop driven by a number read from the input).
-/
import TB.Props.C10
import TB.Props.C06
namespace TB

theorem C09_decode_total (inp : Bytes) : decode inp ≠ .panic := by
  sorry

/-- the slice of the info dictionary is always in range, and no other step of loading can panic -/
theorem C09_load_total (H : Bytes → Bytes) (inp : Bytes) : load H inp ≠ .panic := by
  sorry

/-- the piece layout of a loaded torrent never panics either (index out of range, underflow) -/
theorem C09_layout_total (H : Bytes → Bytes) (inp : Bytes) (T : Torrent) (h : load H inp = .ok T) :
    constructPieces T.info.pieceLength T.info.length (T.info.files.map (·.map (·.length))) T.info.pieces ≠ none := by
  sorry

end TB
