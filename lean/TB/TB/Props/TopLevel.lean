/-
  Top level — the run-level theorems CHAINED into statements whose hypotheses speak only of
    (a) the torrents as loaded   (`Loadable`, `DistinctPaths` / `PrefixFreePaths`),
    (b) the initial tree         (`FsWF`, `NoAlias … (table0 inp)`, `AvailScan … (table0 inp)`, the two `look` conditions),
    (c) the hash                 (`HInjOn H (work0 inp)`: collision-freedom on the piece hashes of the run).
  `table0 inp` / `work0 inp` are the table and the work list before candidate lists are filled in: functions of the
  export directory and the torrents only. The theorems chained here (`C01_bytes`, `C04_run_preserved`,
  `C02_run_recovered_tree`, `C11_resume_recovers_tree`) state their layout hypotheses on `(run H inp).table` /
  `(run H inp).work`, which carry candidate lists and so depend on the tree.

    V1  `layout_of_layoutOk`, `layout_loaded`   the layout facts on the run's own table and work list;
    V2  `C01_bytes_loaded`, `C01_bytes_prefix_loaded`, `C01_bytes_loaded0`, `C04_run_preserved_loaded`;
    V3  `C02_run_recovered_loaded`  (paths prefix-free) and `C02_run_recovered_loaded_nest` (`DistinctPaths` + `hnest`);
        `C02_run_recovered_loaded0` (work items taken from `work0`), `C02_run_all_recovered_loaded` (all at once);
        `C02_run_recovered_loaded_needs_hnest`: with `DistinctPaths` alone the statement is false;
    V4  `C11_resume_recovers_loaded`, `C11_resume_recovers_loaded_nest`;
    V5  `TreeExtends`, `AvailScan_tree_mono`, `AvailScan_smaller_table`, `AvailScan_fewer_torrents`,
        `AvailScan_larger_table`, `C17_more_candidates`, `C17_more_candidates_recovered`;
        `C17_more_candidates_needs_noNewAlias`: without the alias condition the statement is false.

  What was derivable and what was not:
    * `hnopanic` of `C02_run_recovered`: derived (`C16_run_total`, from `Loadable`).
    * `hzero` (a zero-length segment belongs to an empty file): derived from `Loadable` (third clause of the C06
      partition; `RunV.zero_run`).
    * `hnest` (export images are not nested): NOT derivable from `Loadable` and `DistinctPaths`: a loadable torrent
      may list `a` and `a/b`; then whichever image is written second fails, and the piece is not recovered
      (`C02_run_recovered_loaded_needs_hnest`, a checked world). It is derived from the stronger path condition
      `PrefixFreePaths` (no non-padding path is a prefix of another one), which implies `DistinctPaths`.
    * `HInjOn` stays: it is the assumption on SHA-1. `C01_bytes_loaded` does not need it.

  Helper lemmas: TB/Lemmas/RunV.lean.
-/
import TB.Spec.ExportSpec
import TB.Props.C01bytes
import TB.Props.C04h
import TB.Props.C04hist
import TB.Props.C02chain
import TB.Props.C06layout
import TB.Props.C16total
import TB.Lemmas.RunV
namespace TB
open TB.RB

/-! ### V1. the layout facts on the table and the work list of the run -/

/-- the tree-independent layout facts (`LayoutOk`: stated on `table0 inp` / `work0 inp`) give the layout hypotheses of
    `C01_bytes`, `C04_run_preserved`, `C02_run_recovered` on the table and work list of the actual run, on whatever
    tree it runs. Nothing else is assumed: the run's entries and work items are those of `table0` / `work0` with
    candidate lists filled in (`work0_covers`), and the four facts do not look at candidate lists. (If the run stops
    before building its work list, its work list is empty and its table is empty or `table0`.) -/
theorem layout_of_layoutOk (H : Bytes → Bytes) (inp : RunIn) (h : LayoutOk H inp) :
    (∀ w ∈ (run H inp).work, SegsInRange w) ∧
    (∀ e ∈ (run H inp).table, ∀ f ∈ (run H inp).table, e.isPad = false → f.isPad = false →
      e.fullTarget = f.fullTarget → e.fileLength = f.fileLength) ∧
    RangesDisjoint (run H inp).work ∧
    HInjOn H (run H inp).work :=
  ⟨RunV.range_run H inp h.range, RunV.same_run H inp h.same, RunV.disj_run H inp h.disj, RunV.hinj_run H inp h.inj⟩

/-- the same from the torrents: every torrent loadable, no non-padding path listed twice inside a torrent, the hash
    collision-free on the piece hashes of the run -/
theorem layout_loaded (H : Bytes → Bytes) (inp : RunIn) (hload : ∀ t ∈ inp.torrents, Loadable H t)
    (hpaths : DistinctPaths inp.torrents) (hinj : HInjOn H (work0 inp)) :
    (∀ w ∈ (run H inp).work, SegsInRange w) ∧
    (∀ e ∈ (run H inp).table, ∀ f ∈ (run H inp).table, e.isPad = false → f.isPad = false →
      e.fullTarget = f.fullTarget → e.fileLength = f.fileLength) ∧
    RangesDisjoint (run H inp).work ∧
    HInjOn H (run H inp).work :=
  layout_of_layoutOk H inp (C06_layout_ok H inp hload hpaths hinj)

/-- `NoAlias` with respect to `table0 inp` (tree-independent table) gives `NoAlias` with respect to the table of the
    run, on any tree: the run's entries have the images of entries of `table0` -/
theorem NoAlias_run_of_table0 (H : Bytes → Bytes) (inp : RunIn) (fs : Fs) (h : NoAlias fs (table0 inp)) :
    NoAlias fs (run H inp).table := RunV.noAlias_run H inp h

/-- conversely, for a run that reaches piece evaluation (non-empty work list): its table is `table0` with candidate
    lists filled in. (For a run that stops during validation the table is empty and the converse fails.) -/
theorem NoAlias_table0_of_run (H : Bytes → Bytes) (inp : RunIn) (fs : Fs) (hw : (run H inp).work ≠ [])
    (h : NoAlias fs (run H inp).table) : NoAlias fs (table0 inp) := RunV.noAlias_table0_of_run H inp hw h

/-- `AvailScan` stated with the tree-independent table gives `AvailScan` with the table of the run (it depends on the
    table only through the images of the non-padding entries); the converse holds for a run that reaches piece
    evaluation -/
theorem AvailScan_run_of_table0 (H : Bytes → Bytes) (inp : RunIn) (fs : Fs) (scan : List PathArg) (w : Work)
    (h : AvailScan H fs scan (table0 inp) w) : AvailScan H fs scan (run H inp).table w := RunV.avail_run H inp h

theorem AvailScan_table0_of_run (H : Bytes → Bytes) (inp : RunIn) (fs : Fs) (scan : List PathArg) (w : Work)
    (hw : (run H inp).work ≠ []) (h : AvailScan H fs scan (run H inp).table w) :
    AvailScan H fs scan (table0 inp) w := RunV.avail_table0_of_run H inp hw h

/-! ### V2. `C01_bytes` and `C04_run_preserved` from the torrents -/

/-- C01 (end state) with the layout hypotheses derived. After any run (faults anywhere, any orders) every byte of
    every file is what it was, a zero produced by extending a file, or the correct torrent byte.
    Assumed:
    * `hwf`    the initial tree is well-formed;
    * `hna`    in the initial tree no export image of the run (`table0 inp`) shares its inode with another name;
    * `hload`  every torrent is a record the loader produces (gives `SegsInRange`, `C06_segs_in_range`);
    * `hpaths` no non-padding path is listed twice inside a torrent (gives `hsame`, `C06_same_length`; without it
               the statement is false, `C01_bytes_needs_hsame`).
    `HInjOn` is NOT assumed: `C01_bytes` does not use collision-freedom (a "correct torrent byte" is defined through
    any buffer with the piece's hash). -/
theorem C01_bytes_loaded (H : Bytes → Bytes) (inp : RunIn) (hwf : FsWF inp.fs)
    (hna : NoAlias inp.fs (table0 inp)) (hload : ∀ t ∈ inp.torrents, Loadable H t)
    (hpaths : DistinctPaths inp.torrents) :
    BytesOk H (run H inp).work inp.fs (run H inp).fs :=
  C01_bytes H inp hwf (RunV.noAlias_run H inp hna) (RunV.range_run H inp (C06_segs_in_range H inp hload))
    (RunV.same_run H inp (C06_same_length inp hpaths))

/-- the prefix form: the same at every interruption point of the run -/
theorem C01_bytes_prefix_loaded (H : Bytes → Bytes) (inp : RunIn) (hwf : FsWF inp.fs)
    (hna : NoAlias inp.fs (table0 inp)) (hload : ∀ t ∈ inp.torrents, Loadable H t)
    (hpaths : DistinctPaths inp.torrents) (n : Nat) :
    BytesOk H (run H inp).work inp.fs (replay inp.fs ((run H inp).ops.take n)) :=
  C01_bytes_prefix H inp hwf (RunV.noAlias_run H inp hna) (RunV.range_run H inp (C06_segs_in_range H inp hload))
    (RunV.same_run H inp (C06_same_length inp hpaths)) n

/-- "correct torrent byte" with respect to the run's work list is "correct torrent byte" with respect to `work0`
    (`GoodByte` looks at ranges, padding flags, images and hashes only) -/
theorem GoodByte_work0 (H : Bytes → Bytes) (inp : RunIn) {p : Path} {k : Nat} {x : UInt8}
    (h : GoodByte H (run H inp).work p k x) : GoodByte H (work0 inp) p k x := by
  obtain ⟨w, hw, j, seg, buf, hseg, hp, hpath, h1, h2, hH, hbuf⟩ := h
  refine ⟨w.strip, RunR.run_work_strip_mem H inp w hw, j, seg.strip, buf, RunV.getElem?_strip_segs hseg, hp, hpath,
    h1, h2, hH, ?_⟩
  show buf[segStart (w.segs.map WSeg.strip) j + (k - seg.off)]? = some x
  rw [RunR.segStart_strip]
  exact hbuf

/-- C01 with BOTH the hypotheses and the conclusion free of candidate lists: the "correct torrent bytes" are those of
    `work0 inp`, a function of the torrents and the export directory. Hypotheses as in `C01_bytes_loaded`. -/
theorem C01_bytes_loaded0 (H : Bytes → Bytes) (inp : RunIn) (hwf : FsWF inp.fs)
    (hna : NoAlias inp.fs (table0 inp)) (hload : ∀ t ∈ inp.torrents, Loadable H t)
    (hpaths : DistinctPaths inp.torrents) (n : Nat) :
    BytesOk H (work0 inp) inp.fs (replay inp.fs ((run H inp).ops.take n)) := by
  intro p i hp k x hx
  rcases C01_bytes_prefix_loaded H inp hwf hna hload hpaths n p i hp k x hx with h | h | h
  · exact .inl h
  · exact .inr (.inl h)
  · exact .inr (.inr (GoodByte_work0 H inp h))

/-- C04 clause a at run level with the layout hypotheses derived: a work item of the run that verifies in the
    initial tree verifies in the tree at every interruption point of the run (and in the final tree: take
    `n ≥` the length of the log).
    Assumed: `hwf`, `hna`, `hload`, `hpaths` as in `C01_bytes_loaded`, and
    * `hinj`  the hash is collision-free on the piece hashes of the run (`HInjOn`, the assumption on SHA-1; needed
              because a re-found piece is re-written from a buffer that only has the right hash);
    `hpaths` also gives `RangesDisjoint` here (`C06_ranges_disjoint`). -/
theorem C04_run_preserved_loaded (H : Bytes → Bytes) (inp : RunIn) (hwf : FsWF inp.fs)
    (hna : NoAlias inp.fs (table0 inp)) (hload : ∀ t ∈ inp.torrents, Loadable H t)
    (hpaths : DistinctPaths inp.torrents) (hinj : HInjOn H (work0 inp))
    (w : Work) (hw : w ∈ (run H inp).work) (hver : VerE H inp.fs w) (n : Nat) :
    VerE H (replay inp.fs ((run H inp).ops.take n)) w := by
  obtain ⟨hr, hs, hd, hi⟩ := layout_loaded H inp hload hpaths hinj
  exact C04_run_preserved H inp hwf (RunV.noAlias_run H inp hna) hr hs hd hi w hw hver n

/-- the same for the final tree -/
theorem C04_run_preserved_loaded_final (H : Bytes → Bytes) (inp : RunIn) (hwf : FsWF inp.fs)
    (hna : NoAlias inp.fs (table0 inp)) (hload : ∀ t ∈ inp.torrents, Loadable H t)
    (hpaths : DistinctPaths inp.torrents) (hinj : HInjOn H (work0 inp))
    (w : Work) (hw : w ∈ (run H inp).work) (hver : VerE H inp.fs w) :
    VerE H (run H inp).fs w := by
  have := C04_run_preserved_loaded H inp hwf hna hload hpaths hinj w hw hver (run H inp).ops.length
  rwa [List.take_length, ← C11_replay] at this

/-! ### V3. recovery from the torrents, the initial tree and the hash -/

/-- within every torrent of the list, the path of a non-padding file is not a prefix of the path of another
    non-padding file (component-wise; `a` is a prefix of `a/b` and of `a`). Stronger than `DistinctPaths` (which only
    excludes equal paths); exactly what makes the export images pairwise un-nested (`hnest`). Padding files are
    exempt, as in `DistinctPaths`. A single-file torrent satisfies the condition vacuously. -/
def PrefixFreePaths (ts : List Torrent) : Prop :=
  ∀ t ∈ ts, ∀ fs, t.info.files = some fs → ∀ (i j : Nat) (f g : FileRec), fs[i]? = some f → fs[j]? = some g → i ≠ j →
    isPaddingPath f.path = false → isPaddingPath g.path = false → ¬ f.path <+: g.path

theorem PrefixFreePaths.distinct {ts : List Torrent} (h : PrefixFreePaths ts) : DistinctPaths ts :=
  fun t ht => RunV.PrefixFree.distinct (h t ht)

/-- `PrefixFreePaths` in a form `decide` can check on a concrete torrent list (bounded indices) -/
theorem PrefixFreePaths.of_check {ts : List Torrent}
    (h : ∀ t ∈ ts, ∀ fs, t.info.files = some fs →
      ∀ i ∈ List.range fs.length, ∀ j ∈ List.range fs.length, i ≠ j →
        isPaddingPath (fs[i]?.getD default).path = false → isPaddingPath (fs[j]?.getD default).path = false →
        ((fs[i]?.getD default).path.isPrefixOf (fs[j]?.getD default).path) = false) : PrefixFreePaths ts := by
  intro t ht fs hfs i j f g hi hj hij n1 n2 hpre
  obtain ⟨li, _⟩ := List.getElem?_eq_some_iff.1 hi
  obtain ⟨lj, _⟩ := List.getElem?_eq_some_iff.1 hj
  have := h t ht fs hfs i (List.mem_range.2 li) j (List.mem_range.2 lj) hij
  rw [hi, hj] at this
  have h2 := this n1 n2
  simp only [Option.getD_some] at h2
  rw [List.isPrefixOf_iff_prefix.2 hpre] at h2
  cases h2

/-- the export images of the non-padding entries of the run are pairwise un-nested if the paths are prefix-free:
    torrents of the table have distinct info-hashes (`C06_hashes_distinct`), hence export roots differing in one
    component; inside one torrent the image determines the path -/
theorem C06_not_nested (inp : RunIn) (hpf : PrefixFreePaths inp.torrents) :
    ∀ e ∈ table0 inp, ∀ f ∈ table0 inp, e.isPad = false → f.isPad = false →
      e.fullTarget ∉ Fs.properPrefixes f.fullTarget :=
  RunV.notNested_table0 inp hpf

/-- a zero-length segment of a work item of the run belongs to an empty file (`hzero` of `C02_run_recovered`):
    a fact of the C06 partition, from `Loadable` alone -/
theorem C06_zero_segments (H : Bytes → Bytes) (inp : RunIn) (hload : ∀ t ∈ inp.torrents, Loadable H t) :
    (∀ w ∈ work0 inp, ∀ s ∈ w.segs, s.len = 0 → s.ent.fileLength = 0) ∧
    (∀ w ∈ (run H inp).work, ∀ s ∈ w.segs, s.len = 0 → s.ent.fileLength = 0) :=
  ⟨RunV.zero_work0 H inp hload, RunV.zero_run H inp hload⟩

/-- V3, general form (`DistinctPaths` + explicit `hnest`). In a fault-free run, a work item `w` whose data is
    available at the start in scan-only files verifies in the final tree.

    Assumed, and why:
    * `hload`  every torrent loadable — gives `SegsInRange`, `hzero` (`C06_zero_segments`), the first clause of
               `RangesDisjoint`, and `hnopanic` (`C16_run_total`);
    * `hpaths` `DistinctPaths` — gives `hsame` and `RangesDisjoint`, which fail without it
               (`C06_same_length_needs_distinct_paths`, `C06_ranges_disjoint_needs_distinct_paths`), and without `hsame`
               a recovered piece can be destroyed by a later one (`C04_run_preserved_needs_hsame`);
    * `hinj`   collision-freedom of the hash on the piece hashes of the run (SHA-1 assumption);
    * `hwf`, `hna`  the initial tree is well-formed and no export image of the run is hard-linked to another name;
    * `hfa`    no injected I/O errors (with faults the piece evaluated may end in `.fault`);
    * `hwr`    in the initial tree the image of every non-padding segment of `w` is a regular file or absent with
               nothing in the way (not below a regular file, not a directory);
    * `hnest`  no non-padding export image of the run is a proper prefix of such an image of `w` or the other way
               round. NOT derivable from `hload` and `hpaths` (`C02_run_recovered_loaded_needs_hnest`); derived from
               `PrefixFreePaths` in `C02_run_recovered_loaded`;
    * `havail` availability in scan-only files, with respect to the tree-independent table `table0 inp`. -/
theorem C02_run_recovered_loaded_nest (H : Bytes → Bytes) (inp : RunIn)
    (hload : ∀ t ∈ inp.torrents, Loadable H t) (hpaths : DistinctPaths inp.torrents)
    (hinj : HInjOn H (work0 inp)) (hwf : FsWF inp.fs) (hna : NoAlias inp.fs (table0 inp))
    (hfa : inp.faults = [])
    (w : Work) (hw : w ∈ (run H inp).work)
    (hwr : ∀ s ∈ w.segs, s.ent.isPad = false →
      inp.fs.look s.ent.fullTarget ≠ .notDir ∧ inp.fs.look s.ent.fullTarget ≠ .dir)
    (hnest : ∀ s ∈ w.segs, s.ent.isPad = false → ∀ e ∈ table0 inp, e.isPad = false →
      e.fullTarget ∉ Fs.properPrefixes s.ent.fullTarget ∧ s.ent.fullTarget ∉ Fs.properPrefixes e.fullTarget)
    (havail : AvailScan H inp.fs inp.scan (table0 inp) w) :
    VerE H (run H inp).fs w := by
  obtain ⟨hr, hs, hd, hi⟩ := layout_loaded H inp hload hpaths hinj
  refine C02_run_recovered_tree H inp hfa hwf (RunV.noAlias_run H inp hna) hs hd hi w (hr w hw)
    (RunV.zero_run H inp hload w hw) (RunV.avail_run H inp havail) (C16_run_total H inp hload) hwr ?_ hw
  intro s hs' hp e he hpe
  exact hnest s hs' hp e.strip (RunR.run_table_strip H inp e he) hpe

/-- V3. In a fault-free run on loadable torrents with prefix-free paths, a work item whose data is available at the
    start in scan-only files verifies in the final tree. Every hypothesis is about the torrents (`hload`, `hpf`), the
    initial tree (`hwf`, `hna`, `hwr`, `havail`), the hash (`hinj`) or the absence of injected faults (`hfa`); see
    `C02_run_recovered_loaded_nest` for why each is there. `hpf` replaces `DistinctPaths` and `hnest`. -/
theorem C02_run_recovered_loaded (H : Bytes → Bytes) (inp : RunIn)
    (hload : ∀ t ∈ inp.torrents, Loadable H t) (hpf : PrefixFreePaths inp.torrents)
    (hinj : HInjOn H (work0 inp)) (hwf : FsWF inp.fs) (hna : NoAlias inp.fs (table0 inp))
    (hfa : inp.faults = [])
    (w : Work) (hw : w ∈ (run H inp).work)
    (hwr : ∀ s ∈ w.segs, s.ent.isPad = false →
      inp.fs.look s.ent.fullTarget ≠ .notDir ∧ inp.fs.look s.ent.fullTarget ≠ .dir)
    (havail : AvailScan H inp.fs inp.scan (table0 inp) w) :
    VerE H (run H inp).fs w := by
  refine C02_run_recovered_loaded_nest H inp hload hpf.distinct hinj hwf hna hfa w hw hwr ?_ havail
  intro s hs hp e he hpe
  have hnn := RunV.notNested_table0 inp hpf
  have h1 := RunR.run_table_strip H inp _ (RunV.run_work_ent H inp hw s hs)
  exact ⟨hnn e he s.ent.strip h1 hpe hp, hnn s.ent.strip h1 e he hp hpe⟩

/-- V3 with the work items quantified tree-independently: every member `w0` of `work0 inp` (the pieces of the torrents,
    no candidate lists) whose data is available verifies in the final tree — provided the run reaches piece evaluation
    (`hreach`: its work list is not empty, i.e. it was not stopped by the validation of the directories or by the resize
    pre-flight; this is the one premise about the run itself, and it cannot be dropped: a run that stops in validation
    writes nothing). The other hypotheses as in `C02_run_recovered_loaded`, stated for `w0`. -/
theorem C02_run_recovered_loaded0 (H : Bytes → Bytes) (inp : RunIn)
    (hload : ∀ t ∈ inp.torrents, Loadable H t) (hpf : PrefixFreePaths inp.torrents)
    (hinj : HInjOn H (work0 inp)) (hwf : FsWF inp.fs) (hna : NoAlias inp.fs (table0 inp))
    (hfa : inp.faults = []) (hreach : (run H inp).work ≠ [])
    (w0 : Work) (hw0 : w0 ∈ work0 inp)
    (hwr : ∀ s ∈ w0.segs, s.ent.isPad = false →
      inp.fs.look s.ent.fullTarget ≠ .notDir ∧ inp.fs.look s.ent.fullTarget ≠ .dir)
    (havail : AvailScan H inp.fs inp.scan (table0 inp) w0) :
    VerE H (run H inp).fs w0 := by
  rcases RunR.run_work_strip H inp with h | h
  · exact absurd h hreach
  · rw [h] at hw0
    obtain ⟨w, hw, rfl⟩ := List.mem_map.1 hw0
    rw [RunR.verE_strip]
    exact C02_run_recovered_loaded H inp hload hpf hinj hwf hna hfa w hw
      (fun s hs hp => hwr s.strip (RunV.mem_strip_segs hs) hp)
      (RunV.avail_congr (RunV.avKey_strip w).symm havail)

/-- V3 for every available work item at once, with the counters: nothing is counted as failed, and every work item
    verifies in the final tree -/
theorem C02_run_all_recovered_loaded (H : Bytes → Bytes) (inp : RunIn)
    (hload : ∀ t ∈ inp.torrents, Loadable H t) (hpf : PrefixFreePaths inp.torrents)
    (hinj : HInjOn H (work0 inp)) (hwf : FsWF inp.fs) (hna : NoAlias inp.fs (table0 inp))
    (hfa : inp.faults = [])
    (hwr : ∀ w ∈ (run H inp).work, ∀ s ∈ w.segs, s.ent.isPad = false →
      inp.fs.look s.ent.fullTarget ≠ .notDir ∧ inp.fs.look s.ent.fullTarget ≠ .dir)
    (havail : ∀ w ∈ (run H inp).work, AvailScan H inp.fs inp.scan (table0 inp) w) :
    (∀ w ∈ (run H inp).work, VerE H (run H inp).fs w) ∧ (∀ c ∈ (run H inp).counters, c.failed = 0) :=
  ⟨fun w hw => C02_run_recovered_loaded H inp hload hpf hinj hwf hna hfa w hw (hwr w hw) (havail w hw),
    C02_run_none_failed H inp hwf (fun w hw => RunV.avail_run H inp (havail w hw))⟩

/-! ### V4. resuming -/

/-- the static table and work list of the second run are those of the first -/
theorem resumeIn_table0 (H : Bytes → Bytes) (inp : RunIn) (n : Nat) (obs' : List (Nat × List Path))
    (ord' : List (List (Nat × Nat × Nat) × Bytes)) (flts' : List Nat) :
    table0 (resumeIn H inp n obs' ord' flts') = table0 inp ∧ work0 (resumeIn H inp n obs' ord' flts') = work0 inp :=
  ⟨rfl, rfl⟩

/-- V4, general form (`DistinctPaths` + explicit `hnest`): a fault-free second run on the tree left by the first run
    `inp` (fault points anywhere) interrupted after `n` logged operations recovers every work item whose data was
    available in scan-only files BEFORE THE FIRST RUN. All tree hypotheses (`hwf`, `hna`, `hwr`, `havail`) are about the
    tree before the first run; `hload`, `hpaths`, `hinj`, `hnest` are about the torrents and the hash (both runs load
    the same torrents). See `C02_run_recovered_loaded_nest` for why each is there. -/
theorem C11_resume_recovers_loaded_nest (H : Bytes → Bytes) (inp : RunIn) (n : Nat) (obs' : List (Nat × List Path))
    (ord' : List (List (Nat × Nat × Nat) × Bytes))
    (hload : ∀ t ∈ inp.torrents, Loadable H t) (hpaths : DistinctPaths inp.torrents)
    (hinj : HInjOn H (work0 inp)) (hwf : FsWF inp.fs) (hna : NoAlias inp.fs (table0 inp))
    (w : Work) (hw : w ∈ (run H (resumeIn H inp n obs' ord' [])).work)
    (hwr : ∀ s ∈ w.segs, s.ent.isPad = false →
      inp.fs.look s.ent.fullTarget ≠ .notDir ∧ inp.fs.look s.ent.fullTarget ≠ .dir)
    (hnest : ∀ s ∈ w.segs, s.ent.isPad = false → ∀ e ∈ table0 inp, e.isPad = false →
      e.fullTarget ∉ Fs.properPrefixes s.ent.fullTarget ∧ s.ent.fullTarget ∉ Fs.properPrefixes e.fullTarget)
    (havail : AvailScan H inp.fs inp.scan (table0 inp) w) :
    VerE H (run H (resumeIn H inp n obs' ord' [])).fs w := by
  have hload2 : ∀ t ∈ (resumeIn H inp n obs' ord' []).torrents, Loadable H t := hload
  have hpaths2 : DistinctPaths (resumeIn H inp n obs' ord' []).torrents := hpaths
  have hinj2 : HInjOn H (work0 (resumeIn H inp n obs' ord' [])) := hinj
  obtain ⟨hr, hs, hd, hi⟩ := layout_loaded H (resumeIn H inp n obs' ord' []) hload2 hpaths2 hinj2
  exact C11_resume_recovers_tree H inp n obs' ord' hwf hna hs hd hi w hw (hr w hw)
    (RunV.zero_run H _ hload2 w hw) havail (C16_run_total H _ hload2) hwr hnest

/-- V4. The same with `PrefixFreePaths` in place of `DistinctPaths` and `hnest`. -/
theorem C11_resume_recovers_loaded (H : Bytes → Bytes) (inp : RunIn) (n : Nat) (obs' : List (Nat × List Path))
    (ord' : List (List (Nat × Nat × Nat) × Bytes))
    (hload : ∀ t ∈ inp.torrents, Loadable H t) (hpf : PrefixFreePaths inp.torrents)
    (hinj : HInjOn H (work0 inp)) (hwf : FsWF inp.fs) (hna : NoAlias inp.fs (table0 inp))
    (w : Work) (hw : w ∈ (run H (resumeIn H inp n obs' ord' [])).work)
    (hwr : ∀ s ∈ w.segs, s.ent.isPad = false →
      inp.fs.look s.ent.fullTarget ≠ .notDir ∧ inp.fs.look s.ent.fullTarget ≠ .dir)
    (havail : AvailScan H inp.fs inp.scan (table0 inp) w) :
    VerE H (run H (resumeIn H inp n obs' ord' [])).fs w := by
  refine C11_resume_recovers_loaded_nest H inp n obs' ord' hload hpf.distinct hinj hwf hna w hw hwr ?_ havail
  intro s hs hp e he hpe
  have hnn := RunV.notNested_table0 inp hpf
  have h1 : s.ent.strip ∈ table0 inp :=
    RunR.run_table_strip H (resumeIn H inp n obs' ord' []) _ (RunV.run_work_ent H _ hw s hs)
  exact ⟨hnn e he s.ent.strip h1 hpe hp, hnn s.ent.strip h1 e he hp hpe⟩

/-! ### V5. more candidates, more scan directories, more torrents -/

/-- `fs'` extends `fs`: every binding `(p, i)` of `fs` is a binding of `fs'`, the inode has the same content, every
    directory of `fs` is a directory of `fs'`, and both trees are well-formed. (`fs'` may have more files, more
    directories, more hard links, other contents for inodes not bound in `fs`.) -/
structure TreeExtends (fs fs' : Fs) : Prop where
  files : ∀ p i, (p, i) ∈ fs.files → (p, i) ∈ fs'.files
  content : ∀ p i, (p, i) ∈ fs.files → fs'.content i = fs.content i
  dirs : ∀ d, fs.isDir d = true → fs'.isDir d = true
  wf : FsWF fs
  wf' : FsWF fs'

theorem TreeExtends.refl {fs : Fs} (h : FsWF fs) : TreeExtends fs fs :=
  ⟨fun _ _ h => h, fun _ _ _ => rfl, fun _ h => h, h, h⟩

/-- a name of `fs` keeps its inode in `fs'` -/
theorem TreeExtends.inoOf {fs fs' : Fs} (h : TreeExtends fs fs') {p : Path} {i : Nat} (hp : fs.inoOf p = some i) :
    fs'.inoOf p = some i :=
  RunF.look_file_inoOf (RunI.look_of_mem h.wf' (h.files p i (RunF.inoOf_mem hp)))

/-- no export image of `table` acquires, in `fs'`, an inode that had a name in `fs`: if a non-padding image is bound
    in `fs'` to an inode `i` that is bound to some name in `fs`, the image was bound to `i` in `fs` already.
    (Weaker than "`fs'.inoOf e.fullTarget = fs.inoOf e.fullTarget` for every image": images may be created in `fs'`
    with new inodes. What it excludes: the larger tree contains an export image that is a hard link to an old file —
    that file is then no longer a scan-only file.) -/
def NoNewImageAlias (fs fs' : Fs) (table : List TEntry) : Prop :=
  ∀ e ∈ table, e.isPad = false → ∀ i, fs'.inoOf e.fullTarget = some i → (∃ p, (p, i) ∈ fs.files) →
    fs.inoOf e.fullTarget = some i

/-- the condition the task proposed implies `NoNewImageAlias` -/
theorem NoNewImageAlias.of_eq {fs fs' : Fs} {table : List TEntry}
    (h : ∀ e ∈ table, e.isPad = false → fs'.inoOf e.fullTarget = fs.inoOf e.fullTarget) :
    NoNewImageAlias fs fs' table := by
  intro e he hp i hi _
  rw [← h e he hp]; exact hi

/-- V5a. Availability in scan-only files is monotone in the tree and in the scan directories: if it holds in `fs` with
    scan directories `scan`, it holds in every extension `fs'` of `fs` with every `scan' ⊇ scan`, provided no export
    image of the table acquires an alias to an old file (`NoNewImageAlias`; without it the statement is false:
    `AvailScan_tree_mono_needs_noNewAlias`). Of `TreeExtends` only the `files` and `content` clauses are used. -/
theorem AvailScan_tree_mono (H : Bytes → Bytes) (fs fs' : Fs) (scan scan' : List PathArg) (table : List TEntry)
    (w : Work) (hext : TreeExtends fs fs') (hscan : ∀ d ∈ scan, d ∈ scan')
    (hnew : NoNewImageAlias fs fs' table) (ha : AvailScan H fs scan table w) :
    AvailScan H fs' scan' table w :=
  RunV.avail_tree_mono hext.files hext.content hscan hnew ha

/-- V5b. Availability with respect to `table` gives availability with respect to any table whose non-padding export
    images are among those of `table` (a SMALLER table): fewer images to stay clear of. -/
theorem AvailScan_smaller_table (H : Bytes → Bytes) (fs : Fs) (scan : List PathArg) (table table' : List TEntry)
    (w : Work)
    (hsub : ∀ e' ∈ table', e'.isPad = false → ∃ e ∈ table, e.isPad = false ∧ e.fullTarget = e'.fullTarget)
    (ha : AvailScan H fs scan table w) : AvailScan H fs scan table' w :=
  RunV.avail_table_sub hsub ha

/-- V5b for runs: a run `inp'` with the same export directory and FEWER torrents than `inp` (every torrent `inp'` keeps
    after sorting and dropping repeated info-hashes is kept by `inp`; `RunV.kept_of_subset`: this holds if
    `inp'.torrents ⊆ inp.torrents` and the info-hashes of `inp.torrents` are pairwise distinct) -/
theorem AvailScan_fewer_torrents (H : Bytes → Bytes) (inp inp' : RunIn) (fs : Fs) (scan : List PathArg) (w : Work)
    (hdir : inp'.exportDir.path = inp.exportDir.path)
    (hsub : ∀ t ∈ dedupTorrents (sortTorrents inp'.torrents), t ∈ dedupTorrents (sortTorrents inp.torrents))
    (ha : AvailScan H fs scan (table0 inp) w) : AvailScan H fs scan (table0 inp') w :=
  RunV.avail_table_sub (RunV.table0_images_sub hdir hsub) ha

/-- V5c. For a LARGER table what is needed is exactly the inode clause of `AvailScan` for the added entries: the
    files the data sits in must not be (hard links of) export images of the added torrents. A sufficient condition
    in terms of the tree: every non-padding image of `table'` is an image of `table` or is not bound to a regular
    file in `fs` (the added torrents have no export files yet). -/
theorem AvailScan_larger_table (H : Bytes → Bytes) (fs : Fs) (scan : List PathArg) (table table' : List TEntry)
    (w : Work)
    (hadd : ∀ e' ∈ table', e'.isPad = false →
      (∃ e ∈ table, e.isPad = false ∧ e.fullTarget = e'.fullTarget) ∨ fs.inoOf e'.fullTarget = none)
    (ha : AvailScan H fs scan table w) : AvailScan H fs scan table' w := by
  obtain ⟨parts, hl, hh, hp⟩ := ha
  refine ⟨parts, hl, hh, fun k seg part hk hpk => ?_⟩
  obtain ⟨a, b, c⟩ := hp k seg part hk hpk
  refine ⟨a, b, fun hpad hlen => ?_⟩
  obtain ⟨p, i, d, hmem, hd, hunder, hclen, hout, hpart⟩ := c hpad hlen
  refine ⟨p, i, d, hmem, hd, hunder, hclen, ?_, hpart⟩
  intro e' he' hpe'
  rcases hadd e' he' hpe' with ⟨e, he, hpe, heq⟩ | hnone
  · rw [← heq]; exact hout e he hpe
  · rw [hnone]; intro hc; cases hc

/-- `AvailScan` is a property of the ranges, padding flags, declared file lengths and hash of the work item: work
    items of two runs that agree on these (`RunV.avKey`; e.g. the same piece of the same torrent in a run that loads
    more torrents — entry ids and candidate lists differ) are available together -/
theorem AvailScan_congr (H : Bytes → Bytes) (fs : Fs) (scan : List PathArg) (table : List TEntry) (w w' : Work)
    (hkey : RunV.avKey w' = RunV.avKey w) (ha : AvailScan H fs scan table w) : AvailScan H fs scan table w' :=
  RunV.avail_congr hkey ha

/-- V5, the guarantee T1 is monotone: "adding readable candidate files, scan directories or torrents never reduces what
    is guaranteed not to be reported as not found".

    `inp` is the smaller world, `inp'` the larger one: its tree extends `inp.fs` (`TreeExtends`: more files, more
    directories), it has at least the scan directories of `inp`, and ANY torrents (typically more). If the data of
    `w` is available in scan-only files of the SMALLER world, with respect to the table of the LARGER world (`havail`:
    the files the data sits in are not export images of the larger run either — the inode clause of `AvailScan`; for the
    torrents both runs load this is `AvailScan_fewer_torrents` read backwards, for added torrents it holds e.g. when
    they have no export files yet, `AvailScan_larger_table`), and no export image of the larger run acquires an alias
    to an old file (`hnew`), then the larger run does not answer `.notFound` for `w`, wherever `w` stands in its
    evaluation order and whatever its fault points. `w` is a work item of the LARGER run (`hord`); the corresponding
    work item of the smaller run has the same `RunV.avKey`, so `AvailScan_congr` carries availability over. -/
theorem C17_more_candidates (H : Bytes → Bytes) (inp inp' : RunIn) (hext : TreeExtends inp.fs inp'.fs)
    (hscan : ∀ d ∈ inp.scan, d ∈ inp'.scan) (hnew : NoNewImageAlias inp.fs inp'.fs (table0 inp'))
    (w : Work) (havail : AvailScan H inp.fs inp.scan (table0 inp') w)
    (pre post : List Work) (hord : RunQ.evalOrder (run H inp').work inp'.order = pre ++ w :: post) :
    (solvePiece H (solveAll H (runSt3 inp') pre ⟨0, 0, 0⟩ []).1 w).2 ≠ .notFound :=
  C02_run_not_failed H inp' hext.wf' w
    (RunV.avail_run H inp' (RunV.avail_tree_mono hext.files hext.content hscan hnew havail)) pre post hord

/-- V5, the guarantee T2 is monotone: under the hypotheses of `C02_run_recovered_loaded` for the LARGER world — except
    that availability is only assumed in the SMALLER world — the work item verifies in the final tree of the larger
    run. `hext`, `hscan`, `hnew`, `havail` as in `C17_more_candidates`; the rest as in `C02_run_recovered_loaded` for
    `inp'` (`FsWF inp'.fs` is part of `hext`). -/
theorem C17_more_candidates_recovered (H : Bytes → Bytes) (inp inp' : RunIn) (hext : TreeExtends inp.fs inp'.fs)
    (hscan : ∀ d ∈ inp.scan, d ∈ inp'.scan) (hnew : NoNewImageAlias inp.fs inp'.fs (table0 inp'))
    (hload : ∀ t ∈ inp'.torrents, Loadable H t) (hpf : PrefixFreePaths inp'.torrents)
    (hinj : HInjOn H (work0 inp')) (hna : NoAlias inp'.fs (table0 inp')) (hfa : inp'.faults = [])
    (w : Work) (hw : w ∈ (run H inp').work)
    (hwr : ∀ s ∈ w.segs, s.ent.isPad = false →
      inp'.fs.look s.ent.fullTarget ≠ .notDir ∧ inp'.fs.look s.ent.fullTarget ≠ .dir)
    (havail : AvailScan H inp.fs inp.scan (table0 inp') w) :
    VerE H (run H inp').fs w :=
  C02_run_recovered_loaded H inp' hload hpf hinj hext.wf' hna hfa w hw hwr
    (RunV.avail_tree_mono hext.files hext.content hscan hnew havail)

/-- `TreeExtends` in a form `decide` can check on concrete trees -/
theorem TreeExtends.of_check {fs fs' : Fs} (h1 : ∀ e ∈ fs.files, e ∈ fs'.files)
    (h2 : ∀ e ∈ fs.files, fs'.content e.2 = fs.content e.2) (h3 : ∀ d ∈ fs.dirs, d ∈ fs'.dirs)
    (wf : FsWF fs) (wf' : FsWF fs') : TreeExtends fs fs' := by
  refine ⟨fun p i h => h1 (p, i) h, fun p i h => h2 (p, i) h, ?_, wf, wf'⟩
  intro d hd
  unfold Fs.isDir at hd ⊢
  rw [Bool.or_eq_true] at hd ⊢
  rcases hd with hd | hd
  · exact .inl hd
  · exact .inr (List.contains_iff_mem.2 (h3 d (List.contains_iff_mem.1 hd)))

/-! ### non-vacuity: a loadable world in which every hypothesis of V3, V4, V5 holds (`H = id`)

  One multi-file torrent, piece length 20, ONE piece (`pieces` = 20 bytes; with `H = id` the piece hash is the piece):
    `x` (11 bytes), `z` (EMPTY), `.pad/1` (1 byte, padding), `y` (8 bytes).
  The piece has a segment of `x`, a zero-length segment of `z`, a padding segment and a segment of `y`. The scan
  directory `s` holds `s/p` (the 11 bytes of `x`) and `s/q` (the 8 bytes of `y`); the export directory `e` is empty.
  `Loadable` goes through `C10_iff` as in `C06Ex`. -/

namespace TopEx

def piece : Bytes := [1, 2, 3, 4, 5, 6, 7, 8, 9, 10, 11, 0, 13, 14, 15, 16, 17, 18, 19, 20]
def fileX : BVal := .dict [(kLength, .int 11), (kPath, .list [.str [120]])]
def fileZ : BVal := .dict [(kLength, .int 0), (kPath, .list [.str [122]])]
def fileP : BVal := .dict [(kLength, .int 1), (kPath, .list [.str sPad, .str [49]])]
def fileY : BVal := .dict [(kLength, .int 8), (kPath, .list [.str [121]])]
def infod : List (Bytes × BVal) :=
  [(kFiles, .list [fileX, fileZ, fileP, fileY]), (kName, .str [110]), (kPieceLength, .int 20), (kPieces, .str piece)]
def root : BVal := .dict [(kInfo, .dict infod)]
def info : Info := ⟨[110], none, some [⟨11, [[120]]⟩, ⟨0, [[122]]⟩, ⟨1, [sPad, [49]]⟩, ⟨8, [[121]]⟩], 20, [piece]⟩
def tor : Torrent := ⟨info, encode (.dict infod)⟩
def eDir : Path := [[101]]
def sDir : Path := [[115]]
def tDir : Path := [[116]]
def sp : Path := sDir ++ [[112]]
def sq : Path := sDir ++ [[113]]
def tr : Path := tDir ++ [[114]]
def fs0 : Fs :=
  { files := [(sp, 0), (sq, 1)], dirs := [eDir, sDir], data := [(0, piece.take 11), (1, piece.drop 12)], next := 2 }
def inp : RunIn :=
  { fs := fs0, torrents := [tor], scan := [⟨true, sDir⟩], exportDir := ⟨true, eDir⟩, resize := false,
    searchObs := [], order := [], faults := [] }

theorem canon_root : canon root = true := by decide +kernel
theorem spec_info : specInfo infod = some info := by decide +kernel

/-- the document `encode root` loads as `tor` -/
theorem loadable : Loadable id tor := by
  refine ⟨encode root, (C10_iff id _ _).2 ⟨root, canon_root, rfl, ?_⟩⟩
  show (match dictGet [(kInfo, BVal.dict infod)] kInfo with
    | some (.dict info) => (match specInfo info with | some i => some ⟨i, id (encode (.dict info))⟩ | none => none)
    | _ => none) = some tor
  have : dictGet [(kInfo, BVal.dict infod)] kInfo = some (.dict infod) := by simp [dictGet]
  rw [this]
  simp only [spec_info]
  rfl

theorem loadable_all : ∀ t ∈ inp.torrents, Loadable id t := by
  intro t ht
  simp only [inp, List.mem_singleton] at ht
  subst ht
  exact loadable

theorem prefixFree : PrefixFreePaths inp.torrents := by
  apply PrefixFreePaths.of_check
  intro t ht fs hfs
  simp only [inp, List.mem_singleton] at ht
  subst ht
  simp only [tor, info, Option.some.injEq] at hfs
  subst hfs
  decide +kernel

theorem hinj : HInjOn id (work0 inp) := by
  intro w _ b b' h1 h2
  exact (show b = w.hash from h1).trans (show b' = w.hash from h2).symm

theorem wf : FsWF inp.fs :=
  RunV.fsWF_of_check fs0 (by decide +kernel) (by decide +kernel) (by decide +kernel) (by decide +kernel)

theorem noAlias : NoAlias inp.fs (table0 inp) := RunV.noAlias_of_check fs0 _ (by decide +kernel)

/-- the only work item of the run -/
def w0 : Work := (run id inp).work.headD default
theorem run_work : (run id inp).work = [w0] := by decide +kernel

/-- where the data of the four segments sits: `x` in `(s/p, 0)`, `y` in `(s/q, 1)`; the witnesses of the zero-length
    and the padding segment are ignored -/
def wit : List (Path × Nat × PathArg) :=
  [(sp, 0, ⟨true, sDir⟩), default, default, (sq, 1, ⟨true, sDir⟩)]

theorem avail : AvailScan id inp.fs inp.scan (table0 inp) w0 :=
  RunV.avail_of_check wit (by decide +kernel) (by decide +kernel) (by decide +kernel)

theorem hwr : ∀ s ∈ w0.segs, s.ent.isPad = false →
    inp.fs.look s.ent.fullTarget ≠ .notDir ∧ inp.fs.look s.ent.fullTarget ≠ .dir := by decide +kernel

example : w0.segs.map (fun s => (s.ent.fileIndex, s.off, s.len, s.ent.isPad))
    = [(0, 0, 11, false), (1, 0, 0, false), (2, 0, 1, true), (3, 0, 8, false)] := by decide +kernel

/-- the piece does not verify before the run (the export directory is empty) … -/
example : w0.segs.mapM (segBytesIn inp.fs) = none := by decide +kernel

/-- … and verifies after it: non-vacuity of V3 (`C02_run_recovered_loaded`) — every hypothesis holds in this world -/
example : VerE id (run id inp).fs w0 :=
  C02_run_recovered_loaded id inp loadable_all prefixFree hinj wf noAlias rfl w0
    (by rw [run_work]; exact List.mem_singleton.2 rfl) hwr avail

/-- non-vacuity of `C02_run_recovered_loaded0`: the same piece taken from `work0 inp` (no candidate lists) -/
def w00 : Work := (work0 inp).headD default
example : VerE id (run id inp).fs w00 :=
  C02_run_recovered_loaded0 id inp loadable_all prefixFree hinj wf noAlias rfl (by rw [run_work]; simp) w00
    (by decide +kernel) (by decide +kernel)
    (RunV.avail_of_check wit (by decide +kernel) (by decide +kernel) (by decide +kernel))

/-- non-vacuity of V2 (`C04_run_preserved_loaded`, `C01_bytes_loaded`): the hypotheses hold here as well -/
example : BytesOk id (run id inp).work inp.fs (run id inp).fs :=
  C01_bytes_loaded id inp wf noAlias loadable_all prefixFree.distinct

/-! #### V4: a first run with a fault point, interrupted; the second run recovers the piece -/

/-- the first run: operation 19 (the seek before the write of `z`) fails; the piece ends in `.fault` -/
def inpF : RunIn := { inp with faults := [19] }
example : (run id inpF).counters = [⟨0, 0, 1⟩] := by decide +kernel

/-- the work item of the second run, started on the tree left after 17 logged operations of the first run (the
    image of `x` is written, `z` and `y` are not): its entry of `x` now has two candidates -/
def w0' : Work := (run id (resumeIn id inpF 17 [] [] [])).work.headD default
theorem resume_work : (run id (resumeIn id inpF 17 [] [] [])).work = [w0'] := by decide +kernel

theorem avail' : AvailScan id inpF.fs inpF.scan (table0 inpF) w0' :=
  RunV.avail_of_check wit (by decide +kernel) (by decide +kernel) (by decide +kernel)

theorem hwr' : ∀ s ∈ w0'.segs, s.ent.isPad = false →
    inpF.fs.look s.ent.fullTarget ≠ .notDir ∧ inpF.fs.look s.ent.fullTarget ≠ .dir := by decide +kernel

/-- non-vacuity of V4 (`C11_resume_recovers_loaded`) -/
example : VerE id (run id (resumeIn id inpF 17 [] [] [])).fs w0' :=
  C11_resume_recovers_loaded id inpF 17 [] [] loadable_all prefixFree hinj wf noAlias w0'
    (by rw [resume_work]; exact List.mem_singleton.2 rfl) hwr' avail'

/-! #### V5: a larger world — one more file, one more scan directory, one more torrent -/

/-- the larger tree: additionally the directory `t` with `t/r`, 11 bytes that are NOT the content of `x` -/
def fsL : Fs :=
  { files := [(sp, 0), (sq, 1), (tr, 2)], dirs := [eDir, sDir, tDir],
    data := [(0, piece.take 11), (1, piece.drop 12), (2, List.replicate 11 9)], next := 3 }

/-- the larger run: scan directories `s` and `t`, and additionally the (single-file, not loadable — T1 does not ask
    for it) torrent of `RunQ.Ex` -/
def inpL : RunIn := { inp with fs := fsL, scan := [⟨true, sDir⟩, ⟨true, tDir⟩], torrents := [tor, RunQ.Ex.tor] }

theorem wfL : FsWF fsL :=
  RunV.fsWF_of_check fsL (by decide +kernel) (by decide +kernel) (by decide +kernel) (by decide +kernel)

theorem ext : TreeExtends inp.fs inpL.fs :=
  TreeExtends.of_check (by decide +kernel) (by decide +kernel) (by decide +kernel) wf wfL

theorem hnewL : NoNewImageAlias inp.fs inpL.fs (table0 inpL) := NoNewImageAlias.of_eq (by decide +kernel)

/-- the work item of the larger run for the piece of `tor` (three work items: this one and the two of `RunQ.Ex.tor`) -/
def wL : Work := (run id inpL).work.headD default
example : (run id inpL).work.length = 3 := by decide +kernel
example : wL.segs.map (fun s => (s.ent.fileIndex, s.off, s.len, s.ent.isPad, s.ent.searches.map (·.length)))
    = [(0, 0, 11, false, some 2), (1, 0, 0, false, none), (2, 0, 1, true, none), (3, 0, 8, false, some 1)] := by
  decide +kernel

theorem ordL : RunQ.evalOrder (run id inpL).work inpL.order = ((run id inpL).work.drop 1).reverse ++ wL :: [] := by
  decide +kernel

/-- availability in the SMALLER tree with the scan directories of the smaller run, with respect to the table of the
    LARGER run -/
theorem availL : AvailScan id inp.fs inp.scan (table0 inpL) wL :=
  RunV.avail_of_check wit (by decide +kernel) (by decide +kernel) (by decide +kernel)

/-- non-vacuity of V5 (`C17_more_candidates`) -/
example : (solvePiece id (solveAll id (runSt3 inpL) ((run id inpL).work.drop 1).reverse ⟨0, 0, 0⟩ []).1 wL).2
    ≠ .notFound :=
  C17_more_candidates id inp inpL ext (by decide +kernel) hnewL wL availL _ [] ordL

/-- the larger world with the torrents of the smaller one (all loadable): more files, more scan directories -/
def inpM : RunIn := { inp with fs := fsL, scan := [⟨true, sDir⟩, ⟨true, tDir⟩] }
def wM : Work := (run id inpM).work.headD default
theorem run_workM : (run id inpM).work = [wM] := by decide +kernel

/-- non-vacuity of `C17_more_candidates_recovered`: availability is only assumed in the smaller world -/
example : VerE id (run id inpM).fs wM :=
  C17_more_candidates_recovered id inp inpM (TreeExtends.of_check (by decide +kernel) (by decide +kernel)
      (by decide +kernel) wf wfL) (by decide +kernel) (NoNewImageAlias.of_eq (by decide +kernel))
    loadable_all prefixFree hinj (RunV.noAlias_of_check fsL _ (by decide +kernel)) rfl wM
    (by rw [run_workM]; exact List.mem_singleton.2 rfl) (by decide +kernel)
    (RunV.avail_of_check wit (by decide +kernel) (by decide +kernel) (by decide +kernel))

end TopEx

/-! ### `hnest` cannot be derived from `Loadable` and `DistinctPaths`

  The torrent of `TopEx` with other paths: `a` (12 bytes), `a/b` (EMPTY), `c` (8 bytes); piece length 20, one piece.
  `Loadable` and `DistinctPaths` hold (`a ≠ a/b`), `PrefixFreePaths` does not. The scan directory holds the data of `a`
  and of `c`; the export directory is empty. The run matches the piece, writes the image of `a` as a regular file, and
  then `create_dir_all` of the parent of `a/b` — the path of that regular file — fails: the piece ends in `.fault`, the
  image of `a/b` does not exist (ENOTDIR), the piece does not verify. Every hypothesis of
  `C02_run_recovered_loaded_nest` other than `hnest` holds. -/

namespace NestCex
open TopEx (eDir sDir sp sq)

def piece : Bytes := [1, 2, 3, 4, 5, 6, 7, 8, 9, 10, 11, 12, 13, 14, 15, 16, 17, 18, 19, 20]
def fileA : BVal := .dict [(kLength, .int 12), (kPath, .list [.str [97]])]
def fileAB : BVal := .dict [(kLength, .int 0), (kPath, .list [.str [97], .str [98]])]
def fileC : BVal := .dict [(kLength, .int 8), (kPath, .list [.str [99]])]
def infod : List (Bytes × BVal) :=
  [(kFiles, .list [fileA, fileAB, fileC]), (kName, .str [110]), (kPieceLength, .int 20), (kPieces, .str piece)]
def root : BVal := .dict [(kInfo, .dict infod)]
def info : Info := ⟨[110], none, some [⟨12, [[97]]⟩, ⟨0, [[97], [98]]⟩, ⟨8, [[99]]⟩], 20, [piece]⟩
def tor : Torrent := ⟨info, encode (.dict infod)⟩
def fs0 : Fs :=
  { files := [(sp, 0), (sq, 1)], dirs := [eDir, sDir], data := [(0, piece.take 12), (1, piece.drop 12)], next := 2 }
def inp : RunIn :=
  { fs := fs0, torrents := [tor], scan := [⟨true, sDir⟩], exportDir := ⟨true, eDir⟩, resize := false,
    searchObs := [], order := [], faults := [] }

theorem canon_root : canon root = true := by decide +kernel
theorem spec_info : specInfo infod = some info := by decide +kernel

theorem loadable : Loadable id tor := by
  refine ⟨encode root, (C10_iff id _ _).2 ⟨root, canon_root, rfl, ?_⟩⟩
  show (match dictGet [(kInfo, BVal.dict infod)] kInfo with
    | some (.dict info) => (match specInfo info with | some i => some ⟨i, id (encode (.dict info))⟩ | none => none)
    | _ => none) = some tor
  have : dictGet [(kInfo, BVal.dict infod)] kInfo = some (.dict infod) := by simp [dictGet]
  rw [this]
  simp only [spec_info]
  rfl

theorem loadable_all : ∀ t ∈ inp.torrents, Loadable id t := by
  intro t ht
  simp only [inp, List.mem_singleton] at ht
  subst ht
  exact loadable

theorem distinct : DistinctPaths inp.torrents := by
  apply DistinctPaths.of_check
  intro t ht fs hfs
  simp only [inp, List.mem_singleton] at ht
  subst ht
  simp only [tor, info, Option.some.injEq] at hfs
  subst hfs
  decide +kernel

theorem not_prefixFree : ¬ PrefixFreePaths inp.torrents := by
  intro h
  exact h tor (by simp [inp]) _ rfl 0 1 ⟨12, [[97]]⟩ ⟨0, [[97], [98]]⟩ rfl rfl (by decide) (by decide +kernel) (by decide +kernel)
    ⟨[[98]], rfl⟩

theorem hinj : HInjOn id (work0 inp) := by
  intro w _ b b' h1 h2
  exact (show b = w.hash from h1).trans (show b' = w.hash from h2).symm

theorem wf : FsWF inp.fs :=
  RunV.fsWF_of_check fs0 (by decide +kernel) (by decide +kernel) (by decide +kernel) (by decide +kernel)

theorem noAlias : NoAlias inp.fs (table0 inp) := RunV.noAlias_of_check fs0 _ (by decide +kernel)

def w0 : Work := (run id inp).work.headD default
theorem run_work : (run id inp).work = [w0] := by decide +kernel

def wit : List (Path × Nat × PathArg) := [(sp, 0, ⟨true, sDir⟩), default, (sq, 1, ⟨true, sDir⟩)]

theorem avail : AvailScan id inp.fs inp.scan (table0 inp) w0 :=
  RunV.avail_of_check wit (by decide +kernel) (by decide +kernel) (by decide +kernel)

theorem hwr : ∀ s ∈ w0.segs, s.ent.isPad = false →
    inp.fs.look s.ent.fullTarget ≠ .notDir ∧ inp.fs.look s.ent.fullTarget ≠ .dir := by decide +kernel

example : w0.segs.map (fun s => (s.ent.fileIndex, s.off, s.len, s.ent.isPad))
    = [(0, 0, 12, false), (1, 0, 0, false), (2, 0, 8, false)] := by decide +kernel

/-- the piece is matched and ends in an I/O error of the writer -/
theorem counters : (run id inp).counters = [⟨0, 0, 1⟩] := by decide +kernel

theorem w0_not_ver : ¬ VerE id (run id inp).fs w0 := by
  rintro ⟨ps, h1, _⟩
  have : w0.segs.mapM (segBytesIn (run id inp).fs) = none := by decide +kernel
  rw [this] at h1
  cases h1

end NestCex

/-- V3 with `DistinctPaths` but without `hnest` is FALSE (world `NestCex`, `H = id`): a loadable torrent listing `a` and
    `a/b`. This is why `C02_run_recovered_loaded` asks for `PrefixFreePaths` and `C02_run_recovered_loaded_nest` keeps
    `hnest` explicit. -/
theorem C02_run_recovered_loaded_needs_hnest :
    ¬ (∀ (H : Bytes → Bytes) (inp : RunIn), (∀ t ∈ inp.torrents, Loadable H t) → DistinctPaths inp.torrents →
        HInjOn H (work0 inp) → FsWF inp.fs → NoAlias inp.fs (table0 inp) → inp.faults = [] →
        ∀ w ∈ (run H inp).work,
          (∀ s ∈ w.segs, s.ent.isPad = false →
            inp.fs.look s.ent.fullTarget ≠ .notDir ∧ inp.fs.look s.ent.fullTarget ≠ .dir) →
          AvailScan H inp.fs inp.scan (table0 inp) w → VerE H (run H inp).fs w) := by
  intro h
  exact NestCex.w0_not_ver (h id NestCex.inp NestCex.loadable_all NestCex.distinct NestCex.hinj NestCex.wf
    NestCex.noAlias rfl NestCex.w0 (by rw [NestCex.run_work]; exact List.mem_singleton.2 rfl) NestCex.hwr
    NestCex.avail)

/-! ### `NoNewImageAlias` cannot be dropped from V5

  One torrent with two one-byte files `x` (`[1]`) and `y` (`[2]`), piece length 1, two pieces (`H = id`; loadability
  plays no role in T1). Smaller tree: `s/p = [1]` (inode 0), `s/q = [2]` (inode 1), empty export directory: both pieces
  are available in scan-only files. Larger tree: additionally the export image of `y` exists and is a HARD LINK to
  `s/p` (inode 0). The larger run evaluates the piece of `y` first (default order), finds it in `s/q`, writes it to its
  image — into inode 0 — and thereby destroys the only copy of the data of `x`: the piece of `x` is answered
  `.notFound`. `TreeExtends` holds, the scan directories are the same; `NoNewImageAlias` fails. -/

namespace AliasCex
open TopEx (eDir sDir sp sq)

def ih : Bytes := [0xAB]
def nm : Bytes := [110]
def tor : Torrent := ⟨⟨nm, none, some [⟨1, [[120]]⟩, ⟨1, [[121]]⟩], 1, [[1], [2]]⟩, ih⟩
def nDir : Path := eDir ++ [hex ih, sData, nm]
def imgY : Path := nDir ++ [[121]]
def fsS : Fs := { files := [(sp, 0), (sq, 1)], dirs := [eDir, sDir], data := [(0, [1]), (1, [2])], next := 2 }
def fsL : Fs :=
  { files := [(sp, 0), (sq, 1), (imgY, 0)], dirs := [eDir, sDir, eDir ++ [hex ih], eDir ++ [hex ih, sData], nDir],
    data := [(0, [1]), (1, [2])], next := 2 }
def inpS : RunIn :=
  { fs := fsS, torrents := [tor], scan := [⟨true, sDir⟩], exportDir := ⟨true, eDir⟩, resize := false,
    searchObs := [], order := [], faults := [] }
def inpL : RunIn := { inpS with fs := fsL }

theorem wfS : FsWF fsS :=
  RunV.fsWF_of_check fsS (by decide +kernel) (by decide +kernel) (by decide +kernel) (by decide +kernel)
theorem wfL : FsWF fsL :=
  RunV.fsWF_of_check fsL (by decide +kernel) (by decide +kernel) (by decide +kernel) (by decide +kernel)
theorem ext : TreeExtends inpS.fs inpL.fs :=
  TreeExtends.of_check (by decide +kernel) (by decide +kernel) (by decide +kernel) wfS wfL

/-- the pieces of `x` and of `y` in the larger run -/
def wx : Work := (run id inpL).work.headD default
def wy : Work := ((run id inpL).work.drop 1).headD default
theorem run_work : (run id inpL).work = [wx, wy] := by decide +kernel
theorem ord : RunQ.evalOrder (run id inpL).work inpL.order = [wy] ++ wx :: [] := by decide +kernel

/-- in the smaller world the data of `x` is available in the scan-only file `(s/p, 0)`, also with respect to the table
    of the larger run (same torrents) -/
theorem availS : AvailScan id inpS.fs inpS.scan (table0 inpL) wx :=
  RunV.avail_of_check [(sp, 0, ⟨true, sDir⟩)] (by decide +kernel) (by decide +kernel) (by decide +kernel)

theorem wx_notFound : (solvePiece id (solveAll id (runSt3 inpL) [wy] ⟨0, 0, 0⟩ []).1 wx).2 = .notFound := by
  decide +kernel

theorem not_noNew : ¬ NoNewImageAlias inpS.fs inpL.fs (table0 inpL) := by
  intro h
  have key : ∃ e ∈ table0 inpL, e.isPad = false ∧ inpL.fs.inoOf e.fullTarget = some 0
      ∧ inpS.fs.inoOf e.fullTarget ≠ some 0 := by decide +kernel
  obtain ⟨e, he, hp, h1, h2⟩ := key
  exact h2 (h e he hp 0 h1 ⟨sp, by decide +kernel⟩)

end AliasCex

/-- V5 (`C17_more_candidates`) without `NoNewImageAlias` is FALSE: world `AliasCex` -/
theorem C17_more_candidates_needs_noNewAlias :
    ¬ (∀ (H : Bytes → Bytes) (inp inp' : RunIn), TreeExtends inp.fs inp'.fs → (∀ d ∈ inp.scan, d ∈ inp'.scan) →
        ∀ (w : Work), AvailScan H inp.fs inp.scan (table0 inp') w →
        ∀ (pre post : List Work), RunQ.evalOrder (run H inp').work inp'.order = pre ++ w :: post →
          (solvePiece H (solveAll H (runSt3 inp') pre ⟨0, 0, 0⟩ []).1 w).2 ≠ .notFound) := by
  intro h
  exact h id AliasCex.inpS AliasCex.inpL AliasCex.ext (fun _ hd => hd) AliasCex.wx AliasCex.availS [AliasCex.wy] []
    AliasCex.ord AliasCex.wx_notFound

/-- hence `AvailScan_tree_mono` without `NoNewImageAlias` is false as well (it would give the previous statement
    through `C02_run_not_failed`) -/
theorem AvailScan_tree_mono_needs_noNewAlias :
    ¬ (∀ (H : Bytes → Bytes) (fs fs' : Fs) (scan scan' : List PathArg) (table : List TEntry) (w : Work),
        TreeExtends fs fs' → (∀ d ∈ scan, d ∈ scan') → AvailScan H fs scan table w → AvailScan H fs' scan' table w) := by
  intro h
  apply C17_more_candidates_needs_noNewAlias
  intro H inp inp' hext hscan w havail pre post hord
  exact C02_run_not_failed H inp' hext.wf' w
    (RunV.avail_run H inp' (h H inp.fs inp'.fs inp.scan inp'.scan _ w hext hscan havail)) pre post hord

end TB
