/-
  C13 — an I/O failure on one piece is confined to that piece.
-/
import TB.Spec.ExportSpec
import TB.Lemmas.RunD
import TB.Props.C01
import TB.Props.C15
namespace TB
open TB.RD
/-- whatever fails, every piece is still evaluated and accounted for exactly once (the worker loop goes on),
    and the number of faulted pieces never exceeds the number of pieces -/
theorem C13_all_accounted (H : Bytes → Bytes) (st : St) (ws : List Work) (h : (solveAll H st ws ⟨0, 0, 0⟩ []).2.2 = false) :
    (solveAll H st ws ⟨0, 0, 0⟩ []).2.1.length = ws.length ∧
    ∀ c ∈ (solveAll H st ws ⟨0, 0, 0⟩ []).2.1.getLast?, c.success + c.failed + c.fault = ws.length := by
  obtain ⟨recs, h1, h2, h3⟩ := C15_sum H st ws ⟨0, 0, 0⟩ [] h
  rw [h1]
  simp only [List.nil_append]
  refine ⟨h2, ?_⟩
  intro c hc
  have hc' : recs.getLast? = some c := hc
  rw [List.getLast?_eq_getElem?] at hc'
  obtain ⟨hk, he⟩ := List.getElem?_eq_some_iff.mp hc'
  have := h3 _ hk
  rw [he] at this
  simp only [] at this
  omega

/-- bytes written before (or despite) a failure are still sound: soundness of a write does not depend on the
    fault points at all -/
theorem C13_writes_sound (H : Bytes → Bytes) (st : St) (faults : List Nat) (w : Work) :
    ∀ o ∈ newOps { st with faults := faults } (solvePiece H { st with faults := faults } w).1, WriteSound H w o := by
  exact C01_write_sound H { st with faults := faults } w

/-- an injected failure makes exactly the operation at that index fail and has no effect on the tree -/
theorem C13_fault_is_noop (st : St) (kind : OpKind) (path : Path) (natural : Fs → Fs × Bool)
    (h : st.faults.contains st.ops.length = true) :
    (st.op kind path natural).2 = false ∧ (st.op kind path natural).1.fs = st.fs := by
  unfold St.op
  rw [if_pos h]
  exact ⟨rfl, rfl⟩

/-- locality: fault points outside the window of log indices used by the evaluation of a piece do not change
    that evaluation — same outcome, same operations, same effect on the tree -/
theorem C13_local (H : Bytes → Bytes) (st : St) (w : Work)
    (h : ∀ idx ∈ st.faults, idx < st.ops.length ∨ (solvePiece H { st with faults := [] } w).1.ops.length ≤ idx) :
    (solvePiece H st w).2 = (solvePiece H { st with faults := [] } w).2 ∧
    (solvePiece H st w).1.fs = (solvePiece H { st with faults := [] } w).1.fs ∧
    (solvePiece H st w).1.ops = (solvePiece H { st with faults := [] } w).1.ops := by
  obtain ⟨h1, h2, _⟩ := (solvePiece_sim H w).2 st { st with faults := [] } ⟨rfl, rfl, rfl⟩ h
  exact ⟨h1, h2.fs, h2.ops⟩

/-- a piece whose evaluation hit a failed operation is counted as faulted, never as succeeded or failed-to-match:
    the outcome `found` implies every operation logged for the piece succeeded -/
theorem C13_found_all_ok (H : Bytes → Bytes) (st : St) (w : Work) (h : (solvePiece H st w).2 = .found) :
    ∀ o ∈ newOps st (solvePiece H st w).1, o.ok = true := by
  exact (solvePiece_ok H st w h).newOps

end TB
