import TB.Props.C15avail
namespace TB
open TB.RB

theorem tally_snoc (c : Counters) (l : List Solved) (x : Solved) :
    tally c (l ++ [x]) = (tally c l).bump x := by
  simp [tally, List.foldl_append]

/-- AVAILABLE ⇒ COUNTED, piece by piece: in a run that ends `ok` on a well-formed tree, a work item `w` evaluated at
    position `|pre|`, available in scan-only files, whose evaluation does not end in an I/O error, is the piece that
    the record at that position counts as one more success: the record exists, and its `success` is one more than
    the tally of the outcomes before it, `failed` and `fault` unchanged. -/
theorem C15_available_piece_counted (H : Bytes → Bytes) (inp : RunIn) (hwf : FsWF inp.fs)
    (hok : (run H inp).result = .ok ())
    (w : Work) (havail : AvailScan H inp.fs inp.scan (run H inp).table w)
    (pre post : List Work) (hord : RunQ.evalOrder (run H inp).work inp.order = pre ++ w :: post)
    (hnofault : (solvePiece H (solveAll H (runSt3 inp) pre ⟨0, 0, 0⟩ []).1 w).2 ≠ .fault) :
    ∃ r, (run H inp).counters[pre.length]? = some r ∧
      r = (tally ⟨0, 0, 0⟩ ((outcomes H (runSt3 inp) (pre ++ w :: post)).take pre.length)).bump .found := by
  have hp : (solveAll H (runSt3 inp) (RunQ.evalOrder (run H inp).work inp.order) ⟨0, 0, 0⟩ []).2.2 = false := by
    rcases RunQ.run_eval_or H inp with ⟨hw, _⟩ | ⟨_, _, _, _, _, _, _, _, hres⟩
    · exfalso
      have := (RunQ.evalOrder_perm (run H inp).work inp.order).length_eq
      rw [hord, hw] at this; simp at this
    · cases hp : (solveAll H (runSt3 inp) (RunQ.evalOrder (run H inp).work inp.order) ⟨0, 0, 0⟩ []).2.2
      · rfl
      · rw [hres, hp] at hok; cases hok
  have hcnt := C15_run_counters_exact H inp hok
  have hnf := C02_run_not_failed H inp hwf w havail pre post hord
  rw [hord] at hcnt hp
  have hpp := solveAll_append_flag H _ pre (w :: post) _ _ hp
  have hat := outcomes_at H (runSt3 inp) pre w post ⟨0, 0, 0⟩ [] hpp
  have hnp := outcomes_no_panic H _ _ _ _ hp
  have hmem := List.mem_of_getElem? hat
  have hfound : (solvePiece H (solveAll H (runSt3 inp) pre ⟨0, 0, 0⟩ []).1 w).2 = .found := by
    generalize (solvePiece H (solveAll H (runSt3 inp) pre ⟨0, 0, 0⟩ []).1 w).2 = r at hnf hnofault hmem
    cases r
    · rfl
    all_goals first | exact absurd rfl hnf | exact absurd rfl hnofault | exact absurd hmem hnp
  rw [hfound] at hat
  have hlt : pre.length < (pre ++ w :: post).length := by simp
  refine ⟨_, ?_, rfl⟩
  rw [hcnt, List.getElem?_map, List.getElem?_range hlt, Option.map_some, List.take_add_one, hat,
    Option.toList_some, tally_snoc]

end TB
