/-
  C05 (writes) — concurrent writes into the same export file never damage one another.

  In the tool every worker, after verifying a piece, runs `FileWriter::write`: for every non-padding segment of the
  piece, UNDER THE PER-FILE LOCK, `create_dir_all(parent)`, open(write, create, no truncate), `set_len(declared
  length)`, seek, `write_all(segment bytes)`. The executor model (TB.Model.Exec) treats a whole piece evaluation as
  one atomic step. This file goes one level down: the unit is the critical section (`Fs.crit`, the operations of
  `writeSegs` for one segment), and the theorems say that critical sections of different pieces COMMUTE, so any
  interleaving of the workers at the granularity of critical sections leaves the same tree.

  "The same tree" is observational equivalence `ObsEq`, not equality of `Fs`: the inode NUMBER of a file created
  by a critical section depends on how many files were created before it, so the two orders give different
  numbers to freshly created files (and different orders inside the `files` / `data` lists).

    X0  `ObsEq` is an equivalence; `look`, reads through a path and `VerE` respect it.
    X1  algebra of `set_len` / positional writes on one inode and on two inodes.
    X2  `C05_sections_commute` (two critical sections), the success criterion, the duplicate-path counterexample.
    X3  `C05_pieces_commute` (the writes of two pieces).
    X4  `C05_any_write_order` (any permutation of a list of pieces).

  Definitions used below and made in TB.Lemmas.RunX (namespace TB): `Sec`, `Fs.crit`, `Fs.crits`, `ObsEq`,
  `SecComp`, `secsOf`, `bufOk`, `PiecesCompat`, `WItem`, `writeAll`.
-/
import TB.Lemmas.RunX
import TB.Props.C04h
namespace TB
open TB.RunX

/-! ### X0 — observational equivalence -/

theorem ObsEq.refl (fs : Fs) : ObsEq fs fs := (obsEq_iff_view fs fs).2 rfl

theorem ObsEq.symm {fs fs' : Fs} (h : ObsEq fs fs') : ObsEq fs' fs :=
  (obsEq_iff_view _ _).2 ((obsEq_iff_view _ _).1 h).symm

theorem ObsEq.trans {a b c : Fs} (h1 : ObsEq a b) (h2 : ObsEq b c) : ObsEq a c :=
  (obsEq_iff_view _ _).2 (((obsEq_iff_view _ _).1 h1).trans ((obsEq_iff_view _ _).1 h2))

/-- `ObsEq` (same directories, same bound names, same bytes behind every name, same pairs of names sharing a file)
    is an equivalence relation -/
theorem C05_obsEq_equivalence : Equivalence ObsEq :=
  ⟨ObsEq.refl, ObsEq.symm, ObsEq.trans⟩

/-- the fourth clause of `ObsEq` is stated for bound names; for all names it follows from the second -/
theorem ObsEq.alias_all {fs fs' : Fs} (h : ObsEq fs fs') (p q : Path) :
    fs.inoOf p = fs.inoOf q ↔ fs'.inoOf p = fs'.inoOf q := by
  obtain ⟨_, h2, _, h4⟩ := h
  have hp := h2 p
  have hq := h2 q
  cases ep : fs.inoOf p with
  | some i =>
    cases eq : fs.inoOf q with
    | some j =>
      have := h4 p q (by rw [ep]; rfl) (by rw [eq]; rfl)
      rw [ep, eq] at this
      exact this
    | none =>
      rw [ep] at hp; rw [eq] at hq
      cases ep' : fs'.inoOf p with
      | none => rw [ep'] at hp; cases hp
      | some i' =>
        cases eq' : fs'.inoOf q with
        | some _ => rw [eq'] at hq; cases hq
        | none => simp
  | none =>
    rw [ep] at hp
    cases ep' : fs'.inoOf p with
    | some _ => rw [ep'] at hp; cases hp
    | none =>
      cases eq : fs.inoOf q with
      | none =>
        rw [eq] at hq
        cases eq' : fs'.inoOf q with
        | none => simp
        | some _ => rw [eq'] at hq; cases hq
      | some j =>
        rw [eq] at hq
        cases eq' : fs'.inoOf q with
        | none => rw [eq'] at hq; cases hq
        | some _ => simp

/-- `look` respects `ObsEq`: a regular file is a regular file with the same bytes (the inode number may differ) -/
theorem C05_obsEq_look_file {fs fs' : Fs} (h : ObsEq fs fs') {p : Path} {i : Nat} (hl : fs.look p = .file i) :
    ∃ j, fs'.look p = .file j ∧ fs.content i = fs'.content j :=
  obsEq_look_file h hl

/-- `look` respects `ObsEq`: every other answer (ENOENT, ENOTDIR, directory) is the same -/
theorem C05_obsEq_look_other {fs fs' : Fs} (h : ObsEq fs fs') {p : Path} (hl : ∀ i, fs.look p ≠ .file i) :
    fs'.look p = fs.look p :=
  obsEq_look_other h hl

/-- a read through a path respects `ObsEq` -/
theorem C05_obsEq_readAt {fs fs' : Fs} (h : ObsEq fs fs') {p : Path} {i j : Nat}
    (hl : fs.look p = .file i) (hl' : fs'.look p = .file j) (off len : Nat) :
    fs.readAt i off len = fs'.readAt j off len := by
  obtain ⟨j', e, hc⟩ := obsEq_look_file h hl
  rw [hl'] at e
  cases e
  simp only [Fs.readAt, hc]

/-- the bytes of a segment at its export image respect `ObsEq` -/
theorem C05_obsEq_segBytesIn {fs fs' : Fs} (h : ObsEq fs fs') (s : WSeg) : segBytesIn fs s = segBytesIn fs' s :=
  obsEq_segBytesIn h s

/-- `VerE` respects `ObsEq`: a piece verifies in one tree iff it verifies in the other -/
theorem C05_obsEq_verE (H : Bytes → Bytes) {fs fs' : Fs} (h : ObsEq fs fs') (w : Work) :
    VerE H fs w ↔ VerE H fs' w := by
  have e : segBytesIn fs = segBytesIn fs' := funext (obsEq_segBytesIn h)
  unfold VerE
  rw [e]

/-! ### X1 — algebra of the byte operations

  Everything is stated content-wise (`content k` for every inode `k`): the `data` list of the two sides may list
  the inodes in a different order. -/

/-- positional writes to DISJOINT ranges of one inode commute. No in-range hypothesis is needed: a write past the
    end zero-fills the gap, and the zero-fill of the one is overwritten by, or agrees with, the other. -/
theorem C05_writeAt_commute (fs : Fs) (i o1 o2 : Nat) (d1 d2 : Bytes)
    (h : o1 + d1.length ≤ o2 ∨ o2 + d2.length ≤ o1) (k : Nat) :
    ((fs.writeAt i o1 d1).writeAt i o2 d2).content k = ((fs.writeAt i o2 d2).writeAt i o1 d1).content k := by
  simp only [writeAt_eq, content_setData]
  split
  · simp only [if_true]; exact wr_comm o2 o1 d2 d1 _ h.symm
  · rfl

/-- overlapping writes do not commute (the later one wins) -/
example : wr 0 [1] (wr 0 [2] []) ≠ wr 0 [2] (wr 0 [1] []) := by decide

/-- `set_len n` is idempotent -/
theorem C05_setLen_idem (fs : Fs) (i n k : Nat) :
    ((fs.setLen i n).setLen i n).content k = (fs.setLen i n).content k := by
  simp only [setLen_eq, content_setData]
  split
  · simp only [if_true]; exact sl_idem n _
  · rfl

/-- `set_len n` commutes with a positional write that ends at or before `n`. That is the exact side condition:
    NOTHING is assumed about the length of the content before (shorter than `off`, between, longer than `n`: the
    zero-fill of the write and the zero-extension or truncation of `set_len` agree), and without `off + |d| ≤ n` the
    statement is false (next example). -/
theorem C05_setLen_writeAt_commute (fs : Fs) (i n off : Nat) (d : Bytes) (h : off + d.length ≤ n) (k : Nat) :
    ((fs.writeAt i off d).setLen i n).content k = ((fs.setLen i n).writeAt i off d).content k := by
  simp only [setLen_eq, writeAt_eq, content_setData]
  split
  · simp only [if_true]; exact sl_wr_comm n off d _ h
  · rfl

/-- a write reaching beyond `n`: truncating afterwards cuts it, truncating before does not -/
example : sl 1 (wr 0 [1, 2] []) = [1] ∧ wr 0 [1, 2] (sl 1 []) = [1, 2] := by decide

/-- and a zero-length write beyond `n` still moves the end of the file -/
example : sl 1 (wr 2 [] []) = [0] ∧ wr 2 [] (sl 1 []) = [0, 0] := by decide

/-- `set_len` or a positional write -/
inductive ByteOp where
  | setLen (n : Nat)
  | writeAt (off : Nat) (d : Bytes)

def ByteOp.app (o : ByteOp) (fs : Fs) (i : Nat) : Fs :=
  match o with
  | .setLen n => fs.setLen i n
  | .writeAt off d => fs.writeAt i off d

/-- `set_len` / positional writes on DIFFERENT inodes commute -/
theorem C05_other_inode_commute (fs : Fs) (a b : ByteOp) (i j : Nat) (hij : i ≠ j) (k : Nat) :
    (b.app (a.app fs i) j).content k = (a.app (b.app fs j) i).content k := by
  have hji : j ≠ i := fun e => hij e.symm
  cases a <;> cases b <;>
    simp only [ByteOp.app, setLen_eq, writeAt_eq, content_setData, if_neg hij, if_neg hji] <;>
    (by_cases h1 : k = i <;> by_cases h2 : k = j <;> simp_all)

/-! ### X2 — two critical sections -/

/-- TWO CRITICAL SECTIONS COMMUTE. From a well-formed tree `fs` (`FsWF`), for two critical sections
    `(t1, L1, o1, d1)` and `(t2, L2, o2, d2)`:

    assumed
    * `hr1`, `hr2`: each write lies inside the declared length (`SegsInRange`: the layout puts a segment inside its
      file) — otherwise the `set_len` of the one cuts into the write of the other;
    * `hsame`: if the targets are the same path, the declared lengths are equal and the ranges are disjoint — for
      different lengths see `C05_sections_dup_path_cex` (finding D6), for overlapping ranges the later write wins;
    * `hna`: if the targets are different paths, they are not two names of one inode in `fs` (no hard link between
      the two images, a consequence of `NoAlias`) — see `C05_sections_alias_cex`. Other names may share an inode with
      either target: they see the same bytes in both orders.
    NOT assumed: that neither target is a proper prefix of the other. In that case both orders fail
    (`C05_sections_prefix_fail`), so the statement holds vacuously; the first conjunct covers it.

    proved
    * one order succeeds iff the other does (what "succeeds" means: `C05_sections_success`);
    * if both succeed, the resulting trees are observationally equivalent. They are in general NOT equal: when both
      targets are new, `t1` gets inode `next` in the one order and `next + 1` in the other. -/
theorem C05_sections_commute (fs : Fs) (hwf : FsWF fs) (t1 t2 : Path) (L1 L2 o1 o2 : Nat) (d1 d2 : Bytes)
    (hr1 : o1 + d1.length ≤ L1) (hr2 : o2 + d2.length ≤ L2)
    (hsame : t1 = t2 → L1 = L2 ∧ (o1 + d1.length ≤ o2 ∨ o2 + d2.length ≤ o1))
    (hna : t1 ≠ t2 → ∀ i j, fs.inoOf t1 = some i → fs.inoOf t2 = some j → i ≠ j) :
    (((fs.crit t1 L1 o1 d1).bind (fun f => f.crit t2 L2 o2 d2)).isSome
      = ((fs.crit t2 L2 o2 d2).bind (fun f => f.crit t1 L1 o1 d1)).isSome) ∧
    (∀ r r', (fs.crit t1 L1 o1 d1).bind (fun f => f.crit t2 L2 o2 d2) = some r →
      (fs.crit t2 L2 o2 d2).bind (fun f => f.crit t1 L1 o1 d1) = some r' → ObsEq r r') := by
  have hc : SecComp fs ⟨t1, L1, o1, d1⟩ ⟨t2, L2, o2, d2⟩ := ⟨hr1, hr2, hsame, hna⟩
  have key := crits_perm hwf (ls := [[⟨t1, L1, o1, d1⟩], [⟨t2, L2, o2, d2⟩]]) (List.Perm.swap _ _ _)
    (by
      simp only [List.pairwise_cons, List.mem_singleton, forall_eq, List.not_mem_nil, false_imp_iff, implies_true,
        List.Pairwise.nil, and_true]
      exact hc)
  simp only [List.flatten_cons, List.flatten_nil, List.append_nil, List.singleton_append, crits_pair] at key
  exact ⟨isSome_of_map_view key, fun r r' h1 h2 => obsEq_of_map_view key h1 h2⟩

/-- WHEN two critical sections succeed one after the other, from a well-formed tree: each of them succeeds on its
    own from `fs` — no name that `create_dir_all (parent t)` walks through (`RunX.mk t`: the proper prefixes of the
    parent, then the parent) is a regular file, and `t` is not a directory — and neither target is among the
    directories walked through for the other. The criterion is symmetric in the two sections, and it does not
    mention lengths, offsets or data. -/
theorem C05_sections_success (fs : Fs) (hwf : FsWF fs) (t1 t2 : Path) (L1 L2 o1 o2 : Nat) (d1 d2 : Bytes) :
    ((fs.crit t1 L1 o1 d1).bind (fun f => f.crit t2 L2 o2 d2)).isSome = true ↔
      CritOk fs t1 ∧ CritOk fs t2 ∧ t1 ∉ mk t2 ∧ t2 ∉ mk t1 :=
  crit_pair_isSome hwf ⟨t1, L1, o1, d1⟩ ⟨t2, L2, o2, d2⟩

/-- one critical section, from a well-formed tree: it succeeds iff `CritOk` -/
theorem C05_section_success (fs : Fs) (hwf : FsWF fs) (t : Path) (L off : Nat) (d : Bytes) :
    (fs.crit t L off d).isSome = true ↔ CritOk fs t := by
  rcases crit_spec hwf t L off d with ⟨h1, h2⟩ | ⟨h1, fs', i, h2, _⟩
  · rw [h2]; simp [h1]
  · rw [h2]; simp [h1]

/-- if one target is a proper prefix of the other, BOTH orders fail (in the one the file blocks `create_dir_all`, in
    the other the open finds a directory) -/
theorem C05_sections_prefix_fail (fs : Fs) (hwf : FsWF fs) (t1 t2 : Path) (L1 L2 o1 o2 : Nat) (d1 d2 : Bytes)
    (hp : Path.isProperPrefixOf t1 t2) :
    (fs.crit t1 L1 o1 d1).bind (fun f => f.crit t2 L2 o2 d2) = none ∧
    (fs.crit t2 L2 o2 d2).bind (fun f => f.crit t1 L1 o1 d1) = none := by
  constructor
  · cases h : (fs.crit t1 L1 o1 d1).bind (fun f => f.crit t2 L2 o2 d2) with
    | none => rfl
    | some r =>
      have := (C05_sections_success fs hwf t1 t2 L1 L2 o1 o2 d1 d2).1 (by rw [h]; rfl)
      exact absurd (mem_mk_of_isProperPrefix hp (critOk_ne_nil this.1)) this.2.2.1
  · cases h : (fs.crit t2 L2 o2 d2).bind (fun f => f.crit t1 L1 o1 d1) with
    | none => rfl
    | some r =>
      have := (C05_sections_success fs hwf t2 t1 L2 L1 o2 o1 d2 d1).1 (by rw [h]; rfl)
      exact absurd (mem_mk_of_isProperPrefix hp (critOk_ne_nil this.2.1)) this.2.2.2

/-! #### the tiny worlds -/

namespace C05w

/-- an empty tree -/
def fs0 : Fs := ⟨[], [], [], 0⟩
/-- the image `d/x`; the directory `d` does not exist yet -/
def tx : Path := [[100], [120]]

theorem wf0 : FsWF fs0 :=
  ⟨fun _ _ h => (by cases h), List.nodup_nil, fun _ _ h => (by cases h), fun _ _ h => (by cases h)⟩

/-- a tree with one file of two names `a`, `b` (a hard link), content `[9]` -/
def fsL : Fs := ⟨[([[97]], 0), ([[98]], 0)], [], [(0, [9])], 1⟩

theorem wfL : FsWF fsL := by
  refine ⟨?_, ?_, ?_, ?_⟩
  · have : ∀ e ∈ fsL.files, e.2 < fsL.next := by decide +kernel
    exact fun p i h => this (p, i) h
  · show (fsL.files.map (·.1)).Nodup
    decide +kernel
  · have : ∀ e ∈ fsL.files, fsL.isDir e.1 = false := by decide +kernel
    exact fun p i h => this (p, i) h
  · have : ∀ e ∈ fsL.files, ∀ q ∈ Fs.properPrefixes e.1, fsL.isDir q = true := by decide +kernel
    exact fun p i h => this (p, i) h

end C05w
open C05w

/-- NON-VACUITY of `C05_sections_commute`: the same target `d/x`, which does not exist yet (nor does `d`), declared
    length 2, the two disjoint ranges [0,1) and [1,2). Both orders succeed and the theorem applies. -/
example : ∃ r r',
    (fs0.crit tx 2 0 [5]).bind (fun f => f.crit tx 2 1 [7]) = some r ∧
    (fs0.crit tx 2 1 [7]).bind (fun f => f.crit tx 2 0 [5]) = some r' ∧
    r.look tx = .file 0 ∧ r.content 0 = [5, 7] ∧ ObsEq r r' := by
  have h12 : (fs0.crit tx 2 0 [5]).bind (fun f => f.crit tx 2 1 [7])
      = some ⟨[(tx, 0)], [[[100]]], [(0, [5, 7])], 1⟩ := by decide +kernel
  have h21 : ((fs0.crit tx 2 1 [7]).bind (fun f => f.crit tx 2 0 [5])).isSome = true := by decide +kernel
  obtain ⟨r', h21⟩ := Option.isSome_iff_exists.1 h21
  refine ⟨_, r', h12, h21, by decide +kernel, by decide +kernel, ?_⟩
  exact (C05_sections_commute fs0 wf0 tx tx 2 2 0 1 [5] [7] (by decide) (by decide)
    (fun _ => ⟨rfl, Or.inl (by decide)⟩) (fun h => absurd rfl h)).2 _ _ h12 h21

/-- NON-VACUITY, two different new targets `d/x` and `y`: the inode numbers differ between the two orders, the
    trees are not equal, and they are observationally equivalent -/
example : ∃ r r',
    (fs0.crit tx 1 0 [5]).bind (fun f => f.crit [[121]] 1 0 [7]) = some r ∧
    (fs0.crit [[121]] 1 0 [7]).bind (fun f => f.crit tx 1 0 [5]) = some r' ∧
    r.inoOf tx = some 0 ∧ r'.inoOf tx = some 1 ∧ r ≠ r' ∧ ObsEq r r' := by
  have h12 : ((fs0.crit tx 1 0 [5]).bind (fun f => f.crit [[121]] 1 0 [7])).isSome = true := by decide +kernel
  have h21 : ((fs0.crit [[121]] 1 0 [7]).bind (fun f => f.crit tx 1 0 [5])).isSome = true := by decide +kernel
  have i12 : (((fs0.crit tx 1 0 [5]).bind (fun f => f.crit [[121]] 1 0 [7])).map (·.inoOf tx)) = some (some 0) := by
    decide +kernel
  have i21 : (((fs0.crit [[121]] 1 0 [7]).bind (fun f => f.crit tx 1 0 [5])).map (·.inoOf tx)) = some (some 1) := by
    decide +kernel
  obtain ⟨r, h12⟩ := Option.isSome_iff_exists.1 h12
  obtain ⟨r', h21⟩ := Option.isSome_iff_exists.1 h21
  rw [h12] at i12
  rw [h21] at i21
  have e1 : r.inoOf tx = some 0 := Option.some.inj i12
  have e2 : r'.inoOf tx = some 1 := Option.some.inj i21
  refine ⟨r, r', h12, h21, e1, e2, ?_, ?_⟩
  · intro e
    rw [e, e2] at e1
    cases e1
  · exact (C05_sections_commute fs0 wf0 tx [[121]] 1 1 0 0 [5] [7] (by decide) (by decide)
      (fun h => absurd h (by decide)) (fun _ i j h => by cases h)).2 _ _ h12 h21

/-- THE DUPLICATE-PATH DEFECT (finding D6): the same target with two different declared lengths. All the other
    hypotheses of `C05_sections_commute` hold — well-formed (empty) tree, each write inside its declared length
    ([1,2) ⊆ [0,2) and [0,1) ⊆ [0,1)), disjoint ranges — both orders succeed, and the results differ: after
    "length 2 first" the file is `[5]` (the later `set_len 1` cut the byte written at offset 1), after "length 1 first"
    it is `[5, 7]`. -/
theorem C05_sections_dup_path_cex :
    ∃ r r',
      (fs0.crit tx 2 1 [7]).bind (fun f => f.crit tx 1 0 [5]) = some r ∧
      (fs0.crit tx 1 0 [5]).bind (fun f => f.crit tx 2 1 [7]) = some r' ∧
      r.look tx = .file 0 ∧ r'.look tx = .file 0 ∧ r.content 0 = [5] ∧ r'.content 0 = [5, 7] ∧ ¬ ObsEq r r' := by
  have h12 : (fs0.crit tx 2 1 [7]).bind (fun f => f.crit tx 1 0 [5])
      = some ⟨[(tx, 0)], [[[100]]], [(0, [5])], 1⟩ := by decide +kernel
  have h21 : (fs0.crit tx 1 0 [5]).bind (fun f => f.crit tx 2 1 [7])
      = some ⟨[(tx, 0)], [[[100]]], [(0, [5, 7])], 1⟩ := by decide +kernel
  refine ⟨_, _, h12, h21, by decide +kernel, by decide +kernel, by decide +kernel, by decide +kernel, ?_⟩
  intro h
  have := h.2.2.1 tx 0 0 (by decide +kernel) (by decide +kernel)
  exact absurd this (by decide +kernel)

/-- hence `hsame` cannot be dropped from `C05_sections_commute` -/
theorem C05_sections_commute_needs_hsame :
    ¬ (∀ (fs : Fs), FsWF fs → ∀ (t : Path) (L1 L2 o1 o2 : Nat) (d1 d2 : Bytes),
        o1 + d1.length ≤ L1 → o2 + d2.length ≤ L2 → (o1 + d1.length ≤ o2 ∨ o2 + d2.length ≤ o1) →
        ∀ r r', (fs.crit t L1 o1 d1).bind (fun f => f.crit t L2 o2 d2) = some r →
          (fs.crit t L2 o2 d2).bind (fun f => f.crit t L1 o1 d1) = some r' → ObsEq r r') := by
  intro h
  obtain ⟨r, r', h1, h2, _, _, _, _, hne⟩ := C05_sections_dup_path_cex
  exact hne (h fs0 wf0 tx 2 1 1 0 [7] [5] (by decide) (by decide) (Or.inr (by decide)) r r' h1 h2)

/-- THE HARD-LINK COUNTEREXAMPLE: two different targets `a`, `b` that are two names of one inode, same declared
    length, the same range. Both orders succeed and the later write wins: `hna` cannot be dropped. -/
theorem C05_sections_alias_cex :
    FsWF fsL ∧ ∃ r r',
      (fsL.crit [[97]] 1 0 [1]).bind (fun f => f.crit [[98]] 1 0 [2]) = some r ∧
      (fsL.crit [[98]] 1 0 [2]).bind (fun f => f.crit [[97]] 1 0 [1]) = some r' ∧
      r.content 0 = [2] ∧ r'.content 0 = [1] ∧ ¬ ObsEq r r' := by
  have h12 : (fsL.crit [[97]] 1 0 [1]).bind (fun f => f.crit [[98]] 1 0 [2])
      = some ⟨[([[97]], 0), ([[98]], 0)], [], [(0, [2])], 1⟩ := by decide +kernel
  have h21 : (fsL.crit [[98]] 1 0 [2]).bind (fun f => f.crit [[97]] 1 0 [1])
      = some ⟨[([[97]], 0), ([[98]], 0)], [], [(0, [1])], 1⟩ := by decide +kernel
  refine ⟨wfL, _, _, h12, h21, by decide +kernel, by decide +kernel, ?_⟩
  intro h
  have := h.2.2.1 [[97]] 0 0 (by decide +kernel) (by decide +kernel)
  exact absurd this (by decide +kernel)

/-! ### X3 — the writes of two pieces -/

/-- the hypotheses the run-level theorems make (`NoAlias`, `SegsInRange`, `hsame`, `RangesDisjoint` — only its first,
    cross-item clause is used) give `PiecesCompat` for two different work items whose entries are in the table -/
theorem C05_compat_of_layout (fs : Fs) (table : List TEntry) (work : List Work)
    (hna : NoAlias fs table) (hrange : ∀ w ∈ work, SegsInRange w)
    (hsame : ∀ e ∈ table, ∀ f ∈ table, e.isPad = false → f.isPad = false →
      e.fullTarget = f.fullTarget → e.fileLength = f.fileLength)
    (hdisj : RangesDisjoint work) (hent : ∀ w ∈ work, ∀ s ∈ w.segs, s.ent ∈ table)
    (a b : Nat) (w1 w2 : Work) (ha : work[a]? = some w1) (hb : work[b]? = some w2) (hab : a ≠ b) :
    PiecesCompat fs w1 w2 := by
  have m1 := List.mem_of_getElem? ha
  have m2 := List.mem_of_getElem? hb
  refine ⟨hrange _ m1, hrange _ m2, ?_, ?_, ?_⟩
  · intro s hs t ht sp tp e
    exact hdisj.1 a b w1 w2 ha hb hab s hs t ht sp tp e
  · intro s hs t ht sp tp e
    exact hsame _ (hent _ m1 _ hs) _ (hent _ m2 _ ht) sp tp e
  · intro s hs t ht sp tp e i j hi hj hij
    subst hij
    exact e (hna _ (hent _ m1 _ hs) sp _ _ hi hj).symm

/-- THE WRITES OF TWO PIECES COMMUTE. `w1`, `w2` are work items, `src1`, `src2` the sources of their segments (as
    `solvePiece` passes them: a segment matched from its own export image is skipped), `b1`, `b2` the buffers.

    assumed
    * `hf`: no fault points (`faults = []`): the statement is about the interleaving, not about I/O errors;
    * `hwf`: the tree is well-formed (`FsWF`);
    * `hc : PiecesCompat fs w1 w2`: `SegsInRange` for both; for a non-padding segment of `w1` and one of `w2` with
      the same image: disjoint ranges (the CROSS-ITEM clause of `RangesDisjoint`) and the same declared length
      (`hsame`; without it: `C05_sections_dup_path_cex`); with different images: no shared inode. NOTHING is assumed
      about two segments of the same piece (they keep their order), in particular not the second clause of
      `RangesDisjoint`;
    * all four calls answer `found`.
    NOT assumed: `|b_k| = Σ segment lengths`. It is not needed: `found` already says that the buffer reached the end
    of every written segment, and a slice is never longer than its segment.

    proved: the two final trees are observationally equivalent. The `ops` logs differ (order); only `.fs` is
    compared. -/
theorem C05_pieces_commute (st : St) (hf : st.faults = []) (hwf : FsWF st.fs)
    (w1 w2 : Work) (src1 src2 : List (Option Path)) (b1 b2 : Bytes) (hc : PiecesCompat st.fs w1 w2)
    (h1 : (writeSegs st (w1.segs.zip src1) b1 0).2 = .found)
    (h12 : (writeSegs (writeSegs st (w1.segs.zip src1) b1 0).1 (w2.segs.zip src2) b2 0).2 = .found)
    (h2 : (writeSegs st (w2.segs.zip src2) b2 0).2 = .found)
    (h21 : (writeSegs (writeSegs st (w2.segs.zip src2) b2 0).1 (w1.segs.zip src1) b1 0).2 = .found) :
    ObsEq (writeSegs (writeSegs st (w1.segs.zip src1) b1 0).1 (w2.segs.zip src2) b2 0).1.fs
      (writeSegs (writeSegs st (w2.segs.zip src2) b2 0).1 (w1.segs.zip src1) b1 0).1.fs := by
  obtain ⟨c1, f1, _⟩ := writeSegs_crits _ st _ b1 0 hf (Prod.ext rfl h1)
  obtain ⟨c12, _, _⟩ := writeSegs_crits _ _ _ b2 0 f1 (Prod.ext rfl h12)
  obtain ⟨c2, f2, _⟩ := writeSegs_crits _ st _ b2 0 hf (Prod.ext rfl h2)
  obtain ⟨c21, _, _⟩ := writeSegs_crits _ _ _ b1 0 f2 (Prod.ext rfl h21)
  let it1 : WItem := (w1, src1, b1)
  let it2 : WItem := (w2, src2, b2)
  have key := crits_perm hwf (ls := [it1.secs, it2.secs]) (List.Perm.swap _ _ _)
    (by
      simp only [List.pairwise_cons, List.mem_singleton, forall_eq, List.not_mem_nil, false_imp_iff, implies_true,
        List.Pairwise.nil, and_true]
      exact secComp_of_items (a := it1) (b := it2) hc)
  simp only [List.flatten_cons, List.flatten_nil, List.append_nil, crits_append] at key
  refine obsEq_of_map_view key ?_ ?_
  · show (st.fs.crits (secsOf (w1.segs.zip src1) b1 0)).bind _ = _
    rw [c1]; exact c12
  · show (st.fs.crits (secsOf (w2.segs.zip src2) b2 0)).bind _ = _
    rw [c2]; exact c21

/-- and the one order answers `found` twice iff the other does (same hypotheses, except that nothing is assumed
    about the answers) -/
theorem C05_pieces_commute_found (st : St) (hf : st.faults = []) (hwf : FsWF st.fs)
    (w1 w2 : Work) (src1 src2 : List (Option Path)) (b1 b2 : Bytes) (hc : PiecesCompat st.fs w1 w2) :
    (writeAll st [(w1, src1, b1), (w2, src2, b2)]).2 = (writeAll st [(w2, src2, b2), (w1, src1, b1)]).2 := by
  have one : ∀ (a b : WItem), PiecesCompat st.fs a.1 b.1 →
      (writeAll st [a, b]).2 = true → (writeAll st [b, a]).2 = true := by
    intro a b hab h
    obtain ⟨c, hb⟩ := writeAll_crits [a, b] st _ hf (Prod.ext rfl h)
    have key := crits_perm hwf (ls := [a.secs, b.secs]) (List.Perm.swap _ _ _)
      (by
        simp only [List.pairwise_cons, List.mem_singleton, forall_eq, List.not_mem_nil, false_imp_iff, implies_true,
          List.Pairwise.nil, and_true]
        exact secComp_of_items hab)
    have hs := isSome_of_map_view key
    simp only [List.map_cons, List.map_nil] at c
    rw [c] at hs
    obtain ⟨fs', e⟩ := Option.isSome_iff_exists.1 hs.symm
    exact writeAll_of_crits [b, a] st fs' hf e (fun x hx => hb x (by
      rcases List.mem_cons.1 hx with rfl | hx
      · exact List.mem_cons_of_mem _ List.mem_cons_self
      · rcases List.mem_cons.1 hx with rfl | hx
        · exact List.mem_cons_self
        · cases hx))
  rw [Bool.eq_iff_iff]
  exact ⟨one _ _ hc, one _ _ hc.symm⟩

/-! ### X4 — any order of a list of pieces -/

/-- ANY WRITE ORDER. `items` is a list of verified pieces (work item, sources, buffer) that are pairwise
    `PiecesCompat` from the initial tree (for work items of a run: `C05_compat_of_layout`), `items'` any permutation
    of it; no fault points; well-formed initial tree. Then

    * writing `items'` one after the other answers `found` every time iff writing `items` in list order does;
    * if so, the two final trees are observationally equivalent.

    `PiecesCompat` is only asked of DIFFERENT positions of the list (`List.Pairwise`); the segments of one piece are
    always written in their own order.

    Proof: on the observable part of the tree the critical sections of different items commute with equality
    (`RunX.vcrit_comm`), so blocks of sections commute (`RunX.vrun_block_swap`), so the sequence of blocks may be
    permuted (`RunX.vrun_perm`, induction on `List.Perm`: the adjacent transpositions). -/
theorem C05_any_write_order (st : St) (hf : st.faults = []) (hwf : FsWF st.fs) (items items' : List WItem)
    (hp : List.Perm items items') (hc : items.Pairwise (fun a b => PiecesCompat st.fs a.1 b.1)) :
    ((writeAll st items').2 = (writeAll st items).2) ∧
    ((writeAll st items).2 = true → (writeAll st items').2 = true →
      ObsEq (writeAll st items').1.fs (writeAll st items).1.fs) := by
  have hc' : items'.Pairwise (fun a b => PiecesCompat st.fs a.1 b.1) := hp.pairwise hc (fun h => h.symm)
  have key := crits_perm hwf (hp.map WItem.secs)
    (List.pairwise_map.2 (hc.imp (fun h => secComp_of_items h)))
  have dir : ∀ (l l' : List WItem), List.Perm l l' →
      (st.fs.crits (l.map WItem.secs).flatten).map view = (st.fs.crits (l'.map WItem.secs).flatten).map view →
      (writeAll st l).2 = true → (writeAll st l').2 = true := by
    intro l l' hp' k h
    obtain ⟨c, hb⟩ := writeAll_crits l st _ hf (Prod.ext rfl h)
    have hs := isSome_of_map_view k
    rw [c] at hs
    obtain ⟨fs', e⟩ := Option.isSome_iff_exists.1 hs.symm
    exact writeAll_of_crits l' st fs' hf e (fun x hx => hb x (hp'.symm.subset hx))
  refine ⟨?_, ?_⟩
  · rw [Bool.eq_iff_iff]
    exact ⟨dir _ _ hp.symm key.symm, dir _ _ hp key⟩
  · intro h h'
    obtain ⟨c, _⟩ := writeAll_crits items st _ hf (Prod.ext rfl h)
    obtain ⟨c', _⟩ := writeAll_crits items' st _ hf (Prod.ext rfl h')
    exact obsEq_of_map_view key.symm c' c

/-! #### non-vacuity of X3 / X4 -/

namespace C05w

/-- the entry of the image `d/x`, declared length 2 -/
def ex : TEntry := ⟨0, [], 0, 2, tx, [[120]], false, none⟩
/-- piece 1: the range [0,1) of `d/x` -/
def w1 : Work := ⟨[⟨1, 0, ex⟩], []⟩
/-- piece 2: the range [1,2) of `d/x` -/
def w2 : Work := ⟨[⟨1, 1, ex⟩], []⟩
def st0 : St := ⟨fs0, [], []⟩

theorem compat12 : PiecesCompat st0.fs w1 w2 := by
  refine ⟨?_, ?_, ?_, ?_, ?_⟩
  · intro s hs
    have : ∀ s ∈ w1.segs, s.off + s.len ≤ s.ent.fileLength := by decide +kernel
    exact this s hs
  · intro s hs
    have : ∀ s ∈ w2.segs, s.off + s.len ≤ s.ent.fileLength := by decide +kernel
    exact this s hs
  · intro s hs t ht _ _ _
    have : ∀ s ∈ w1.segs, ∀ t ∈ w2.segs, s.off + s.len ≤ t.off ∨ t.off + t.len ≤ s.off := by decide +kernel
    exact this s hs t ht
  · intro s hs t ht _ _ _
    have : ∀ s ∈ w1.segs, ∀ t ∈ w2.segs, s.ent.fileLength = t.ent.fileLength := by decide +kernel
    exact this s hs t ht
  · intro s hs t ht _ _ hne
    have : ∀ s ∈ w1.segs, ∀ t ∈ w2.segs, s.ent.fullTarget = t.ent.fullTarget := by decide +kernel
    exact absurd (this s hs t ht) hne

end C05w

/-- NON-VACUITY of `C05_pieces_commute`: two pieces writing the two halves of the image `d/x`, which does not exist
    yet; all four calls answer `found`; the image ends up as `[5, 7]` -/
example :
    ObsEq (writeSegs (writeSegs st0 (w1.segs.zip [none]) [5] 0).1 (w2.segs.zip [none]) [7] 0).1.fs
      (writeSegs (writeSegs st0 (w2.segs.zip [none]) [7] 0).1 (w1.segs.zip [none]) [5] 0).1.fs
    ∧ (writeSegs (writeSegs st0 (w1.segs.zip [none]) [5] 0).1 (w2.segs.zip [none]) [7] 0).1.fs.content 0 = [5, 7] :=
  ⟨C05_pieces_commute st0 rfl wf0 w1 w2 [none] [none] [5] [7] compat12
    (by decide +kernel) (by decide +kernel) (by decide +kernel) (by decide +kernel), by decide +kernel⟩

/-- NON-VACUITY of `C05_any_write_order`: the same two pieces, list order and the swapped order -/
example :
    (writeAll st0 [(w2, [none], [7]), (w1, [none], [5])]).2 = true ∧
    ObsEq (writeAll st0 [(w2, [none], [7]), (w1, [none], [5])]).1.fs
      (writeAll st0 [(w1, [none], [5]), (w2, [none], [7])]).1.fs := by
  have h := C05_any_write_order st0 rfl wf0 [(w1, [none], [5]), (w2, [none], [7])]
    [(w2, [none], [7]), (w1, [none], [5])] (List.Perm.swap _ _ _)
    (by
      simp only [List.pairwise_cons, List.mem_singleton, forall_eq, List.not_mem_nil, false_imp_iff, implies_true,
        List.Pairwise.nil, and_true]
      exact compat12)
  have hf : (writeAll st0 [(w1, [none], [5]), (w2, [none], [7])]).2 = true := by decide +kernel
  have hf' := h.1.trans hf
  exact ⟨hf', h.2 hf hf'⟩

end TB
