/-
  C11 — interrupting a run at any instant leaves a sound export tree.
  A crash is a prefix of the operation log (the last operation possibly cut short); the tree at that instant is
  the replay of that prefix. Soundness of every operation (C01, C03, C12) is per operation, hence holds for
  every prefix; `C11_replay` ties the log to the tree.
-/
import TB.Spec.ExportSpec
import TB.Lemmas.RunD
import TB.Props.C01
import TB.Props.C03
namespace TB
open TB.RD
/-- effect of one logged operation on the tree -/
def applyOp (fs : Fs) (o : Op) : Fs :=
  match o.kind with
  | .mkdirs => if o.ok then (fs.mkdirs o.path).1 else fs
  | .openc => if o.ok then (fs.openCreate o.path).1 else fs
  | .setlen n => if o.ok then (match fs.look o.path with | .file i => fs.setLen i n | _ => fs) else fs
  | .write off d => if o.ok then (match fs.look o.path with | .file i => fs.writeAt i off d | _ => fs) else fs
  | _ => fs

def replay (fs : Fs) (ops : List Op) : Fs := ops.foldl applyOp fs

/-- the tree after a run is the replay of its operation log on the initial tree -/
theorem C11_replay (H : Bytes → Bytes) (inp : RunIn) : (run H inp).fs = replay inp.fs (run H inp).ops := by
  have e : applyOp = applyOpD := by
    funext fs o
    unfold applyOp applyOpD
    cases o.kind <;> rfl
  unfold replay
  rw [e]
  exact run_replayD H inp

/-- non-mutating operations and failed injected operations do not change the tree -/
theorem C11_nonmutating_noop (fs : Fs) (o : Op) (h : o.kind.mutating = false) : applyOp fs o = fs := by
  unfold applyOp
  cases hk : o.kind <;> simp_all [OpKind.mutating]

/-- every prefix of a run's log consists of confined operations and sound writes only, so the tree at any
    interruption point is the initial tree changed by sound operations alone -/
theorem C11_prefix_sound (H : Bytes → Bytes) (inp : RunIn) (n : Nat) :
    ∀ o ∈ (run H inp).ops.take n,
      (∀ off data, o.kind = .write off data → ∃ w ∈ (run H inp).work, WriteSound H w o) ∧
      (o.kind.mutating = true ∨ o.kind = .openrw →
        ∃ t ∈ inp.torrents,
          if o.kind = .mkdirs then Path.isPrefixOf (inp.exportDir.path ++ [hex t.infoHash, sData]) o.path
          else Path.isProperPrefixOf (inp.exportDir.path ++ [hex t.infoHash, sData]) o.path) := by
  intro o ho
  have hm := List.mem_of_mem_take ho
  exact ⟨C01_run H inp o hm, C03_confined H inp o hm⟩

/-- a write cut after `j` bytes stores a prefix of sound data at the same offset: positional writes compose -/
theorem C11_write_split (fs : Fs) (i off : Nat) (d : Bytes) (j : Nat) (h : off ≤ (fs.content i).length) :
    ((fs.writeAt i off (d.take j)).writeAt i (off + min j d.length) (d.drop j)).content i = (fs.writeAt i off d).content i := by
  have key := list_write_split (fs.content i) (d.take j) (d.drop j) off h
  simp only [List.length_take, List.take_append_drop] at key
  obtain ⟨k1, k2⟩ := key
  have hc1 : (fs.writeAt i off (d.take j)).content i
      = (fs.content i).take off ++ d.take j ++ (fs.content i).drop (off + min j d.length) := by
    simp only [Fs.writeAt, Fs.content_setData, if_pos h, List.length_take]
  simp only [Fs.writeAt.eq_1 (fs.writeAt i off (d.take j)), Fs.content_setData, hc1, if_pos k1]
  rw [k2]
  simp only [Fs.writeAt, Fs.content_setData, if_pos h]

end TB
