/-
  C06 — the piece layout is an exact partition of the torrent's byte space onto files.
  Property theorems only; helper lemmas live in TB/Lemmas/Pieces.lean.
-/
import TB.Model.Pieces
import TB.Model.Torrent
import TB.Spec.LayoutSpec
import TB.Lemmas.Pieces
namespace TB

/-- what C06 says of piece `i` of a layout over file lengths `files` with piece length `L` -/
def PieceOk (L : Nat) (files : List Nat) (hashes : List Bytes) (i : Nat) (p : Piece) : Prop :=
  p.segs.flatMap (addr files) = List.range' (i * L) (min L (files.sum - i * L))
  ∧ some p.hash = hashes[i]? ∧ p.pos = i ∧ p.len = min L (files.sum - i * L)
  ∧ (∀ s ∈ p.segs, some s.flen = files[s.file]? ∧ s.off + s.len ≤ s.flen ∧ (s.len = 0 → s.flen = 0))
  ∧ (p.segs.map (·.file)).Pairwise (· < ·)

private theorem PieceOk_of_good (L : Nat) (files : List Nat) (hashes : List Bytes) (i : Nat) (p : Piece)
    (hi : i < hashes.length) (hg : PieceGood L files hashes[i] (0 + i) p) : PieceOk L files hashes i p := by
  rw [Nat.zero_add] at hg
  exact ⟨hg.flat, by rw [hg.hash]; simp [hi], hg.pos, hg.len, hg.segok, hg.incr⟩

/-- multi-file form: the cursor loop never panics and yields exactly the partition -/
theorem C06_partition_multi (L : Nat) (files : List Nat) (hashes : List Bytes)
    (hL : 0 < L) (hne : files ≠ []) (hcount : hashes.length = (files.sum + L - 1) / L) :
    ∃ ps, constructMulti L files hashes = some ps ∧ ps.length = hashes.length ∧
      ∀ i (hi : i < ps.length), PieceOk L files hashes i ps[i] := by
  obtain ⟨ps, hps, hlen, hgood, _⟩ := multi_top L files hashes hL hne hcount
  exact ⟨ps, hps, hlen, fun i hi =>
    PieceOk_of_good L files hashes i ps[i] (by omega) (hgood i hi (by omega))⟩

/-- single-file form -/
theorem C06_partition_single (L total : Nat) (hashes : List Bytes)
    (hL : 0 < L) (hcount : hashes.length = (total + L - 1) / L) :
    let ps := constructSingle L total hashes
    ps.length = hashes.length ∧ ∀ i (hi : i < ps.length), PieceOk L [total] hashes i ps[i] := by
  obtain ⟨hlen, hgood, _⟩ := single_top L total hashes hL hcount
  exact ⟨hlen, fun i hi =>
    PieceOk_of_good L [total] hashes i _ (by omega) (hgood i hi (by omega))⟩

/-- every byte of every file belongs to exactly one segment of exactly one piece, in order:
    the concatenation of all segments' address ranges is 0, 1, …, total-1 with no gap and no repeat -/
theorem C06_every_byte_multi (L : Nat) (files : List Nat) (hashes : List Bytes) (ps : List Piece)
    (hL : 0 < L) (hne : files ≠ []) (hcount : hashes.length = (files.sum + L - 1) / L)
    (h : constructMulti L files hashes = some ps) :
    ps.flatMap (fun p => p.segs.flatMap (addr files)) = List.range' 0 files.sum := by
  obtain ⟨ps', hps, _, _, hflat⟩ := multi_top L files hashes hL hne hcount
  rw [h] at hps
  cases hps
  exact hflat

theorem C06_every_byte_single (L total : Nat) (hashes : List Bytes)
    (hL : 0 < L) (hcount : hashes.length = (total + L - 1) / L) :
    (constructSingle L total hashes).flatMap (fun p => p.segs.flatMap (addr [total])) = List.range' 0 total := by
  exact (single_top L total hashes hL hcount).2.2

/-- closed form: the layout the code computes passes the interval-arithmetic checker used on the
    implementation's output (TB.Spec.LayoutSpec.checkLayout), i.e. its positive-length segments are exactly the
    non-empty intersections of the piece interval with the file intervals -/
theorem C06_closed_form_multi (L : Nat) (files : List Nat) (hashes : List Bytes) (ps : List Piece)
    (hL : 0 < L) (hne : files ≠ []) (hcount : hashes.length = (files.sum + L - 1) / L)
    (h : constructMulti L files hashes = some ps) :
    checkLayout L files hashes ps = true := by
  obtain ⟨ps', hps, hlen, hgood, _⟩ := multi_top L files hashes hL hne hcount
  rw [h] at hps
  cases hps
  exact checkLayout_of_good L files hashes ps hlen hgood

theorem C06_closed_form_single (L total : Nat) (hashes : List Bytes)
    (hL : 0 < L) (hcount : hashes.length = (total + L - 1) / L) :
    checkLayout L [total] hashes (constructSingle L total hashes) = true := by
  obtain ⟨hlen, hgood, _⟩ := single_top L total hashes hL hcount
  exact checkLayout_of_good L [total] hashes _ hlen hgood

/-- piece length 0 is loadable only with total 0 and no hash: no pieces, nothing panics -/
theorem C06_zero_piece_length (length : Option Nat) (files : List Nat) (hne : files ≠ []) :
    constructPieces 0 length (some files) [] = some [] := by
  cases length with
  | some total => rfl
  | none =>
    cases files with
    | nil => exact absurd rfl hne
    | cons f0 rest => rfl

/-- for every loadable torrent the layout exists (no panic) and passes the checker -/
theorem C06_loaded (H : Bytes → Bytes) (inp : Bytes) (T : Torrent) (h : load H inp = .ok T) :
    ∃ ps, constructPieces T.info.pieceLength T.info.length (T.info.files.map (·.map (·.length))) T.info.pieces = some ps
      ∧ ps.length = T.info.pieces.length
      ∧ (0 < T.info.pieceLength →
          checkLayout T.info.pieceLength
            (match T.info.length with | some l => [l] | none => (T.info.files.getD []).map (·.length))
            T.info.pieces ps = true) := by
  obtain ⟨ks, vs, hev⟩ := load_ok H inp T h
  rcases evaluateInfo_ok ks vs T.info hev with ⟨l, hl, hf, hpc⟩ | ⟨fs, hl, hf, hne, hpc⟩
  · rw [hl, hf]
    simp only [constructPieces]
    unfold pieceCountOk at hpc
    by_cases h0 : T.info.pieceLength = 0
    · simp only [h0, if_true, Bool.and_eq_true, decide_eq_true_eq] at hpc
      have hnil : T.info.pieces = [] := List.eq_nil_of_length_eq_zero hpc.2
      refine ⟨_, rfl, by rw [hnil]; rfl, fun hpos => by omega⟩
    · simp only [h0, if_false, decide_eq_true_eq] at hpc
      have hL : 0 < T.info.pieceLength := Nat.pos_of_ne_zero h0
      obtain ⟨hlen, hgood, _⟩ := single_top T.info.pieceLength l T.info.pieces hL hpc
      exact ⟨_, rfl, hlen, fun _ => checkLayout_of_good _ [l] _ _ hlen hgood⟩
  · rw [hl, hf]
    simp only [Option.map_some, constructPieces, Option.getD_some]
    have hne' : fs.map (·.length) ≠ [] := by simpa using hne
    unfold pieceCountOk at hpc
    by_cases h0 : T.info.pieceLength = 0
    · simp only [h0, if_true, Bool.and_eq_true, decide_eq_true_eq] at hpc
      have hnil : T.info.pieces = [] := List.eq_nil_of_length_eq_zero hpc.2
      rw [hnil, h0]
      refine ⟨[], ?_, rfl, fun hpos => by omega⟩
      have := C06_zero_piece_length none _ hne'
      simpa [constructPieces] using this
    · simp only [h0, if_false, decide_eq_true_eq] at hpc
      have hL : 0 < T.info.pieceLength := Nat.pos_of_ne_zero h0
      obtain ⟨ps, hps, hlen, hgood, _⟩ := multi_top T.info.pieceLength _ T.info.pieces hL hne' hpc
      exact ⟨ps, hps, hlen, fun _ => checkLayout_of_good _ _ _ _ hlen hgood⟩

-- non-vacuity: a concrete non-trivial layout meeting the hypotheses (3 files, one empty, L = 4, 3 pieces)
example : (([3, 0, 6] : List Nat) ≠ []) ∧ ([[1], [2], [3]] : List Bytes).length = (([3, 0, 6] : List Nat).sum + 4 - 1) / 4 := by
  decide

end TB
