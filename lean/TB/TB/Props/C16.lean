/-
  C16 — bad paths fail before any change; a run without torrents does nothing.
-/
import TB.Spec.ExportSpec
import TB.Lemmas.Run
namespace TB

/-- a path argument the tool must refuse -/
def BadArg (fs : Fs) (a : PathArg) : Prop := a.absolute = false ∨ fs.look a.path ≠ .dir

/-- no torrents: success, nothing touched, nothing even looked at -/
theorem C16_empty (H : Bytes → Bytes) (inp : RunIn) (h : inp.torrents = []) :
    (run H inp).result = .ok () ∧ (run H inp).ops = [] ∧ (run H inp).fs = inp.fs := by
  sorry

/-- validation only stats and never changes the tree -/
theorem C16_validate_readonly (st : St) (args : List PathArg) :
    (validateAll st args).1.fs = st.fs ∧
    ∃ new, (validateAll st args).1.ops = st.ops ++ new ∧ ∀ o ∈ new, o.kind = .stat := by
  sorry

/-- any bad scan or export path makes validation fail -/
theorem C16_validate_detects (st : St) (args : List PathArg)
    (h : ∃ a ∈ args, BadArg st.fs a) : (validateAll st args).2 = false := by
  sorry

/-- a run given a relative, missing or non-directory scan/export path fails before touching anything -/
theorem C16_validate (H : Bytes → Bytes) (inp : RunIn) (hne : inp.torrents ≠ [])
    (h : ∃ a ∈ inp.scan ++ [inp.exportDir], BadArg inp.fs a) :
    (run H inp).result = .err ∧ (run H inp).fs = inp.fs ∧ ∀ o ∈ (run H inp).ops, o.kind = .stat := by
  sorry

/-- evaluating a piece never reaches a panic branch when (a) any byte string hashing to the piece hash has the
    piece's length and (b) a piece with a single segment has positive length or is padding — (b) is a fact of
    the layout (C06), (a) is implied by collision-freeness of the hash against the true piece data -/
theorem C16_piece_total_partial (H : Bytes → Bytes) (st : St) (w : Work)
    (hlen : ∀ b, H b = w.hash → b.length = (w.segs.map (·.len)).sum)
    (hsingle : ∀ s, w.segs = [s] → s.len ≠ 0 ∨ s.ent.isPad = true) :
    (solvePiece H st w).2 ≠ .panic := by
  sorry

end TB
