/-
  C16 — bad paths fail before any change; a run without torrents does nothing.
-/
import TB.Spec.ExportSpec
import TB.Lemmas.Run
import TB.Lemmas.RunB
namespace TB
open TB.RB
/-- a path argument the tool must refuse -/
def BadArg (fs : Fs) (a : PathArg) : Prop := a.absolute = false ∨ fs.look a.path ≠ .dir

/-- no torrents: success, nothing touched, nothing even looked at -/
theorem C16_empty (H : Bytes → Bytes) (inp : RunIn) (h : inp.torrents = []) :
    (run H inp).result = .ok () ∧ (run H inp).ops = [] ∧ (run H inp).fs = inp.fs := by
  simp [run, h]

/-- validation only stats and never changes the tree -/
theorem C16_validate_readonly (st : St) (args : List PathArg) :
    (validateAll st args).1.fs = st.fs ∧
    ∃ new, (validateAll st args).1.ops = st.ops ++ new ∧ ∀ o ∈ new, o.kind = .stat := by
  exact ⟨(validateAll_spec st args).1, (validateAll_spec st args).2.2.1⟩

/-- any bad scan or export path makes validation fail -/
theorem C16_validate_detects (st : St) (args : List PathArg)
    (h : ∃ a ∈ args, BadArg st.fs a) : (validateAll st args).2 = false := by
  obtain ⟨a, ha, hb⟩ := h
  cases hv : (validateAll st args).2
  · rfl
  · obtain ⟨h1, h2⟩ := (validateAll_spec st args).2.2.2 hv a ha
    rcases hb with hb | hb
    · rw [h1] at hb; cases hb
    · exact absurd h2 hb

/-- a run given a relative, missing or non-directory scan/export path fails before touching anything -/
theorem C16_validate (H : Bytes → Bytes) (inp : RunIn) (hne : inp.torrents ≠ [])
    (h : ∃ a ∈ inp.scan ++ [inp.exportDir], BadArg inp.fs a) :
    (run H inp).result = .err ∧ (run H inp).fs = inp.fs ∧ ∀ o ∈ (run H inp).ops, o.kind = .stat := by
  have hd := C16_validate_detects ⟨inp.fs, [], inp.faults⟩ _ h
  obtain ⟨h1, n, h2, h3⟩ := C16_validate_readonly ⟨inp.fs, [], inp.faults⟩ (inp.scan ++ [inp.exportDir])
  unfold run
  have : inp.torrents.isEmpty = false := by cases ht : inp.torrents <;> simp_all
  simp only [this, Bool.false_eq_true, if_false]
  rcases hv : validateAll ⟨inp.fs, [], inp.faults⟩ (inp.scan ++ [inp.exportDir]) with ⟨st1, ok⟩
  rw [hv] at hd h1 h2
  simp only at hd h1 h2
  subst hd
  refine ⟨rfl, h1, ?_⟩
  show ∀ o ∈ st1.ops, _
  rw [h2]; simpa using h3

/-- evaluating a piece never reaches a panic branch when (a) any byte string hashing to the piece hash has the
    piece's length and (b) a piece with a single segment has positive length or is padding — (b) is a fact of
    the layout (C06), (a) is implied by collision-freeness of the hash against the true piece data -/
theorem C16_piece_total_partial (H : Bytes → Bytes) (st : St) (w : Work)
    (hlen : ∀ b, H b = w.hash → b.length = (w.segs.map (·.len)).sum)
    (hsingle : ∀ s, w.segs = [s] → s.len ≠ 0 ∨ s.ent.isPad = true) :
    (solvePiece H st w).2 ≠ .panic := by
  unfold solvePiece
  simp only
  split
  · simp
  · rename_i hrej
    split
    · rename_i seg hseg
      split
      · split <;> simp
      · rename_i hpad
        split
        · rename_i hnone
          exfalso
          rw [hseg] at hrej
          simp [hpad, hnone] at hrej
          rcases hsingle seg hseg with h | h
          · exact h hrej
          · exact hpad h
        · rename_i paths hs
          have hsc := scanSingle_spec H w.hash seg st paths
          split
          · rename_i st1 src bytes heq
            apply writeSegs_no_panic
            have := hlen bytes (hsc.2 src bytes (by rw [heq]))
            rw [hseg] at this
            simpa using Nat.le_of_eq this.symm
          · simp
          · simp
          · rename_i st1 heq; exact absurd (by rw [heq]) hsc.1
    · rename_i segs hns
      have hpl := preload_no_panic st w.segs
      split
      · rename_i st1 loaded heq
        split
        · rename_i chosen hc
          apply writeSegs_no_panic
          have := hlen _ (searchProduct_some _ _ _ _ _ hc)
          have h2 := zip_lens_le w.segs (chosen.map (·.1))
          omega
        · simp
      · simp
      · rename_i st1 heq; exact absurd (by rw [heq]) hpl

end TB
