/-
  C04 (clause c) / C15 (completeness of "succeeded" for already verified pieces), at run level:
  when every piece already verifies in the export tree (images of the declared length), a run performs no
  mutating operation at all, leaves the tree exactly as it was, and counts every piece as succeeded.
-/
import TB.Spec.ExportSpec
import TB.Props.C04
import TB.Props.C04a
import TB.Props.C02run
import TB.Lemmas.RunI
namespace TB

/-- piece `w` verifies strictly in `fs`: it verifies, and every non-padding segment's export image is a regular
    file of exactly the declared length -/
def StrictVer (H : Bytes → Bytes) (fs : Fs) (w : Work) : Prop :=
  VerE H fs w ∧ ∀ s ∈ w.segs, s.ent.isPad = false →
    ∃ i, fs.look s.ent.fullTarget = .file i ∧ (fs.content i).length = s.ent.fileLength

/-- the scan and export arguments are absolute paths of existing directories -/
def ArgsOk (fs : Fs) (inp : RunIn) : Prop :=
  ∀ a ∈ inp.scan ++ [inp.exportDir], a.absolute = true ∧ fs.look a.path = .dir

/-- idle run: no fault injected, flag off, every work item of the run verifies strictly in the initial tree ⇒
    the run succeeds, performs no mutating operation, leaves the tree untouched and reports every piece as
    succeeded (the final record is `total` successes, no failure, no fault) -/
theorem C04c_idle (H : Bytes → Bytes) (inp : RunIn)
    (hwf : FsWF inp.fs) (hargs : ArgsOk inp.fs inp) (hne : inp.torrents ≠ [])
    (hnofault : inp.faults = []) (hres : inp.resize = false)
    (hwork : ∃ ws, convertPiecesToWork (run H inp).table (dedupTorrents (sortTorrents inp.torrents)) = some ws)
    (hall : ∀ w ∈ (run H inp).work, StrictVer H inp.fs w) :
    (run H inp).result = .ok () ∧ (run H inp).fs = inp.fs ∧
    (∀ o ∈ (run H inp).ops, o.kind.mutating = false) ∧
    (∀ c ∈ (run H inp).counters.getLast?, c.success = (run H inp).work.length ∧ c.failed = 0 ∧ c.fault = 0) := by
  have hok := RunI.validateAll_ok ⟨inp.fs, [], inp.faults⟩ (inp.scan ++ [inp.exportDir]) hnofault hargs
  have e1 := RunI.validateAll_roext ⟨inp.fs, [], inp.faults⟩ (inp.scan ++ [inp.exportDir])
  rcases hv : validateAll ⟨inp.fs, [], inp.faults⟩ (inp.scan ++ [inp.exportDir]) with ⟨st1, ok⟩
  rw [hv] at hok e1
  simp only at hok e1
  subst hok
  exact RunI.idle_core H inp hwf hne hnofault st1 st1 hv (by rw [hres]; rfl) e1 hwork (fun w hw => hall w hw)

/-- the same with the flag on: the pre-flight finds nothing to extend and nothing over-long among the images the
    pieces use, provided no other export image of the loaded torrents is shorter or longer than declared -/
theorem C04c_idle_resize (H : Bytes → Bytes) (inp : RunIn)
    (hwf : FsWF inp.fs) (hargs : ArgsOk inp.fs inp) (hne : inp.torrents ≠ [])
    (hnofault : inp.faults = []) (hres : inp.resize = true)
    (hlens : ∀ e ∈ (run H inp).table, e.isPad = false → ∀ i, inp.fs.look e.fullTarget = .file i →
      (inp.fs.content i).length = e.fileLength)
    (hnotdir : ∀ e ∈ (run H inp).table, e.isPad = false → inp.fs.look e.fullTarget ≠ .notDir ∧ inp.fs.look e.fullTarget ≠ .dir)
    (hwork : ∃ ws, convertPiecesToWork (run H inp).table (dedupTorrents (sortTorrents inp.torrents)) = some ws)
    (hall : ∀ w ∈ (run H inp).work, StrictVer H inp.fs w) :
    (run H inp).result = .ok () ∧ (run H inp).fs = inp.fs ∧
    (∀ o ∈ (run H inp).ops, o.kind.mutating = false) := by
  have hok := RunI.validateAll_ok ⟨inp.fs, [], inp.faults⟩ (inp.scan ++ [inp.exportDir]) hnofault hargs
  have e1 := RunI.validateAll_roext ⟨inp.fs, [], inp.faults⟩ (inp.scan ++ [inp.exportDir])
  rcases hv : validateAll ⟨inp.fs, [], inp.faults⟩ (inp.scan ++ [inp.exportDir]) with ⟨st1, ok⟩
  rw [hv] at hok e1
  simp only at hok e1
  subst hok
  have hlo : RunI.LensOk inp.fs (buildTable inp.exportDir.path (dedupTorrents (sortTorrents inp.torrents)) 0) := by
    intro e he hpad
    obtain ⟨e', he', s, rfl⟩ := RunI.run_table_cover H inp hne st1 hv e he
    exact ⟨hlens { e with searches := s } he' hpad, hnotdir { e with searches := s } he' hpad⟩
  obtain ⟨f1, f2⟩ := RunI.fixExportFileLengths_idle inp.fs _ hlo st1 e1.fs (e1.faults.trans hnofault)
  rcases hf : fixExportFileLengths st1
    (buildTable inp.exportDir.path (dedupTorrents (sortTorrents inp.torrents)) 0) with ⟨st2, fl⟩
  rw [hf] at f1 f2
  simp only at f1 f2
  subst f1
  have key := RunI.idle_core H inp hwf hne hnofault st1 st2 hv (by rw [hres, if_pos rfl, hf]) (e1.trans f2) hwork
    (fun w hw => hall w hw)
  exact ⟨key.1, key.2.1, key.2.2.1⟩

end TB
