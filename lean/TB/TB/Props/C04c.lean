/-
  C04 (clause c) / C15 (completeness of "succeeded" for already verified pieces), at run level:
  when every piece already verifies in the export tree (images of the declared length), a run performs no
  mutating operation at all, leaves the tree exactly as it was, and counts every piece as succeeded.
-/
import TB.Spec.ExportSpec
import TB.Props.C04
import TB.Props.C04a
import TB.Props.C02run
import TB.Lemmas.RunI
namespace TB

/-- piece `w` verifies strictly in `fs`: it verifies, and every non-padding segment's export image is a regular
    file of exactly the declared length -/
def StrictVer (H : Bytes → Bytes) (fs : Fs) (w : Work) : Prop :=
  VerE H fs w ∧ ∀ s ∈ w.segs, s.ent.isPad = false →
    ∃ i, fs.look s.ent.fullTarget = .file i ∧ (fs.content i).length = s.ent.fileLength

/-- the scan and export arguments are absolute paths of existing directories -/
def ArgsOk (fs : Fs) (inp : RunIn) : Prop :=
  ∀ a ∈ inp.scan ++ [inp.exportDir], a.absolute = true ∧ fs.look a.path = .dir

/-- idle run: no fault injected, flag off, every work item of the run verifies strictly in the initial tree ⇒
    the run succeeds, performs no mutating operation, leaves the tree untouched and reports every piece as
    succeeded (the final record is `total` successes, no failure, no fault) -/
theorem C04c_idle (H : Bytes → Bytes) (inp : RunIn)
    (hwf : FsWF inp.fs) (hargs : ArgsOk inp.fs inp) (hne : inp.torrents ≠ [])
    (hnofault : inp.faults = []) (hres : inp.resize = false)
    (hwork : ∃ ws, convertPiecesToWork (run H inp).table (dedupTorrents (sortTorrents inp.torrents)) = some ws)
    (hall : ∀ w ∈ (run H inp).work, StrictVer H inp.fs w) :
    (run H inp).result = .ok () ∧ (run H inp).fs = inp.fs ∧
    (∀ o ∈ (run H inp).ops, o.kind.mutating = false) ∧
    (∀ c ∈ (run H inp).counters.getLast?, c.success = (run H inp).work.length ∧ c.failed = 0 ∧ c.fault = 0) := by
  sorry

/-- the same with the flag on: the pre-flight finds nothing to extend and nothing over-long among the images the
    pieces use, provided no other export image of the loaded torrents is shorter or longer than declared -/
theorem C04c_idle_resize (H : Bytes → Bytes) (inp : RunIn)
    (hwf : FsWF inp.fs) (hargs : ArgsOk inp.fs inp) (hne : inp.torrents ≠ [])
    (hnofault : inp.faults = []) (hres : inp.resize = true)
    (hlens : ∀ e ∈ (run H inp).table, e.isPad = false → ∀ i, inp.fs.look e.fullTarget = .file i →
      (inp.fs.content i).length = e.fileLength)
    (hnotdir : ∀ e ∈ (run H inp).table, e.isPad = false → inp.fs.look e.fullTarget ≠ .notDir ∧ inp.fs.look e.fullTarget ≠ .dir)
    (hwork : ∃ ws, convertPiecesToWork (run H inp).table (dedupTorrents (sortTorrents inp.torrents)) = some ws)
    (hall : ∀ w ∈ (run H inp).work, StrictVer H inp.fs w) :
    (run H inp).result = .ok () ∧ (run H inp).fs = inp.fs ∧
    (∀ o ∈ (run H inp).ops, o.kind.mutating = false) := by
  sorry

end TB
