/-
  C14 — resize pre-flight: short files zero-extended; any over-long file aborts first.
-/
import TB.Spec.ExportSpec
import TB.Lemmas.Run
import TB.Lemmas.RunB
namespace TB
open TB.RB
/-- an existing export image longer than declared -/
def Overlong (fs : Fs) (e : TEntry) : Prop :=
  e.isPad = false ∧ ∃ i, fs.look e.fullTarget = .file i ∧ (fs.content i).length > e.fileLength

/-- the first pass only opens files read-only and never changes the tree -/
theorem C14_pass1_readonly (st : St) (table : List TEntry) :
    (resizePass1 st table).1.fs = st.fs ∧
    ∃ new, (resizePass1 st table).1.ops = st.ops ++ new ∧ ∀ o ∈ new, o.kind = .openr := by
  induction table generalizing st with
  | nil => exact ⟨rfl, [], by simp [resizePass1], by simp⟩
  | cons e es ih =>
    have hopen : ∃ new, (st.openr e.fullTarget).1.ops = st.ops ++ new ∧ ∀ o ∈ new, o.kind = .openr :=
      ⟨_, St.openr_ops st _, by simp⟩
    rcases resizePass1_cases st e es with h | h | h <;> rw [h]
    · exact ih st
    · exact ⟨St.openr_fs st _, hopen⟩
    · obtain ⟨i1, n2, i2, i3⟩ := ih (st.openr e.fullTarget).1
      obtain ⟨n1, h1, h2⟩ := hopen
      refine ⟨i1.trans (St.openr_fs st _), n1 ++ n2, by rw [i2, h1, List.append_assoc], ?_⟩
      intro o ho
      rcases List.mem_append.1 ho with ho | ho
      · exact h2 o ho
      · exact i3 o ho

/-- if any existing export image is longer than declared, the first pass reports an error -/
theorem C14_pass1_detects (st : St) (table : List TEntry)
    (h : ∃ e ∈ table, Overlong st.fs e) : (resizePass1 st table).2 = .error := by
  induction table generalizing st with
  | nil => obtain ⟨e, he, _⟩ := h; cases he
  | cons e es ih =>
    obtain ⟨x, hx, hov⟩ := h
    rw [resizePass1_cons]
    rcases List.mem_cons.1 hx with rfl | hx
    · obtain ⟨hp, i, hl, hlen⟩ := hov
      rw [hp, hl, St.openr_fs]
      simp only [Bool.false_eq_true, if_false]
      split
      · simp
      · rfl
    · have ih1 := ih st ⟨x, hx, hov⟩
      have ih2 := ih (st.openr e.fullTarget).1 ⟨x, hx, by rw [St.openr_fs]; exact hov⟩
      split
      · exact ih1
      · split
        · split
          · exact ih2
          · rfl
        · split
          · split
            · rfl
            · exact ih2
          · exact ih2

/-- with the flag on and an over-long export image present, the run fails before modifying anything -/
theorem C14_abort (H : Bytes → Bytes) (inp : RunIn) (hres : inp.resize = true)
    (hover : ∃ e ∈ buildTable inp.exportDir.path (dedupTorrents (sortTorrents inp.torrents)) 0, Overlong inp.fs e)
    (hne : inp.torrents ≠ []) :
    (run H inp).result = .err ∧ (run H inp).fs = inp.fs ∧ ∀ o ∈ (run H inp).ops, o.kind.mutating = false := by
  obtain ⟨h1, _, ⟨n, h2, h3⟩, _⟩ := validateAll_spec ⟨inp.fs, [], inp.faults⟩ (inp.scan ++ [inp.exportDir])
  unfold run
  have : inp.torrents.isEmpty = false := by cases ht : inp.torrents <;> simp_all
  simp only [this, Bool.false_eq_true, if_false]
  rcases hv : validateAll ⟨inp.fs, [], inp.faults⟩ (inp.scan ++ [inp.exportDir]) with ⟨st1, ok⟩
  rw [hv] at h1 h2
  simp only at h1 h2
  cases ok
  · refine ⟨rfl, h1, ?_⟩
    show ∀ o ∈ st1.ops, _
    rw [h2]; intro o ho
    rw [h3 o (by simpa using ho)]; rfl
  · simp only [hres, if_true]
    have hd := C14_pass1_detects st1 _ (by rw [h1]; exact hover)
    obtain ⟨r1, n2, r2, r3⟩ := C14_pass1_readonly st1 (buildTable inp.exportDir.path (dedupTorrents (sortTorrents inp.torrents)) 0)
    rw [fixExportFileLengths_error _ _ hd]
    refine ⟨rfl, r1.trans h1, ?_⟩
    show ∀ o ∈ (resizePass1 st1 _).1.ops, _
    rw [r2, h2]; intro o ho
    simp only [List.nil_append, List.mem_append] at ho
    rcases ho with ho | ho
    · rw [h3 o ho]; rfl
    · rw [r3 o ho]; rfl

/-- the pre-flight never shrinks a file and never changes anything but the length of an export image:
    every operation of the second pass is a read+write open or a set_len to the declared length of a
    non-padding entry whose image is, at that moment, strictly shorter -/
theorem C14_pass2_ops (st : St) (table : List TEntry) :
    ∃ new, (resizePass2 st table).1.ops = st.ops ++ new ∧
      ∀ o ∈ new, ∃ e ∈ table, e.isPad = false ∧ o.path = e.fullTarget ∧
        (o.kind = .openrw ∨ o.kind = .setlen e.fileLength) := by
  induction table generalizing st with
  | nil => exact ⟨[], by simp [resizePass2], by simp⟩
  | cons e es ih =>
    rcases resizePass2_step st e es with h | ⟨st', n1, h, h1, h2⟩
    · rw [h]
      obtain ⟨n, i1, i2⟩ := ih st
      refine ⟨n, i1, fun o ho => ?_⟩
      obtain ⟨x, hx, hr⟩ := i2 o ho
      exact ⟨x, List.mem_cons_of_mem _ hx, hr⟩
    · rcases h with h | h <;> rw [h]
      · obtain ⟨n, i1, i2⟩ := ih st'
        refine ⟨n1 ++ n, by rw [i1, h1, List.append_assoc], fun o ho => ?_⟩
        rcases List.mem_append.1 ho with ho | ho
        · exact ⟨e, List.mem_cons_self, h2 o ho⟩
        · obtain ⟨x, hx, hr⟩ := i2 o ho
          exact ⟨x, List.mem_cons_of_mem _ hx, hr⟩
      · exact ⟨n1, h1, fun o ho => ⟨e, List.mem_cons_self, h2 o ho⟩⟩

/-- zero-extension keeps the existing bytes and appends zeros -/
theorem C14_setLen_extend (fs : Fs) (i n : Nat) (h : (fs.content i).length ≤ n) :
    (fs.setLen i n).content i = fs.content i ++ List.replicate (n - (fs.content i).length) 0
    ∧ ∀ j, j ≠ i → (fs.setLen i n).content j = fs.content j := by
  refine ⟨?_, fun j hj => Fs.content_setData_other _ _ _ _ hj⟩
  unfold Fs.setLen
  rw [Fs.content_setData_same]
  split
  · have : n = (fs.content i).length := by omega
    rw [this]; simp
  · rfl

/-- one step of the second pass on a shorter image (no fault at this point): the image is extended to exactly
    the declared length, old bytes kept, zeros appended -/
theorem C14_extend_step (st : St) (e : TEntry) (es : List TEntry) (i : Nat)
    (hp : e.isPad = false) (hl : st.fs.look e.fullTarget = .file i)
    (hs : (st.fs.content i).length < e.fileLength)
    (hf1 : st.faults.contains st.ops.length = false) (hf2 : st.faults.contains (st.ops.length + 1) = false) :
    ∃ st', resizePass2 st (e :: es) = resizePass2 st' es ∧
      st'.fs.content i = st.fs.content i ++ List.replicate (e.fileLength - (st.fs.content i).length) 0 := by
  have h1 : st.op .openrw e.fullTarget (natOpenrw e.fullTarget) =
      ({ st with ops := st.ops ++ [⟨.openrw, e.fullTarget, true⟩] }, true) := by
    rw [St.op_nofault _ _ _ _ hf1]
    simp [natOpenrw, hl]
  have h2 : ({ st with ops := st.ops ++ [⟨.openrw, e.fullTarget, true⟩] } : St).op (.setlen e.fileLength) e.fullTarget
      (fun fs => (fs.setLen i e.fileLength, true)) =
      ({ st with fs := st.fs.setLen i e.fileLength, ops := st.ops ++ [⟨.openrw, e.fullTarget, true⟩] ++ [⟨.setlen e.fileLength, e.fullTarget, true⟩] }, true) := by
    rw [St.op_nofault _ _ _ _ (by simpa using hf2)]
  refine ⟨{ st with fs := st.fs.setLen i e.fileLength, ops := st.ops ++ [⟨.openrw, e.fullTarget, true⟩] ++ [⟨.setlen e.fileLength, e.fullTarget, true⟩] }, ?_, (C14_setLen_extend st.fs i e.fileLength (Nat.le_of_lt hs)).1⟩
  rw [resizePass2_cons, hp, h1, hl]
  simp only [Bool.false_eq_true, if_false, Bool.not_true, hs, if_true, h2]

/-- without the flag a run changes no length outside a write group: every set_len in the log directly follows
    the successful create-open of the same export image -/
theorem C14_noflag (H : Bytes → Bytes) (inp : RunIn) (hres : inp.resize = false) :
    ∀ k n p ok, (run H inp).ops[k]? = some ⟨.setlen n, p, ok⟩ →
      k > 0 ∧ (run H inp).ops[k-1]? = some ⟨.openc, p, true⟩ := by
  show SetlenInv (run H inp).ops
  by_cases hne : inp.torrents = []
  · have : (run H inp).ops = [] := by simp [run, hne]
    rw [this]; exact SetlenInv.nil
  · have i1 : SetlenInv (runSt1 inp).ops :=
      SetlenInv.ext (st := ⟨inp.fs, [], inp.faults⟩) SetlenInv.nil (validateAll_nsext _ _)
    have e2 : runSt2 inp = runSt1 inp := by simp [runSt2, hres]
    have i3 : SetlenInv (runSt3 inp).ops := by
      have i2 : SetlenInv (runSt2 inp).ops := by rw [e2]; exact i1
      exact i2.ext (addExportPaths_nsext (runSt2 inp) [] (runTable0 inp))
    rcases run_shape H inp hne with ⟨_, h, _⟩ | ⟨_, h, _⟩ | ⟨_, h, _⟩ | ⟨ordered, _, _, _, h, _⟩ <;> rw [h]
    · exact i1
    · rw [e2]; exact i1
    · exact i3
    · exact solveAll_inv _ _ _ _ _ i3

end TB
