/-
  C14 — resize pre-flight: short files zero-extended; any over-long file aborts first.
-/
import TB.Spec.ExportSpec
import TB.Lemmas.Run
namespace TB

/-- an existing export image longer than declared -/
def Overlong (fs : Fs) (e : TEntry) : Prop :=
  e.isPad = false ∧ ∃ i, fs.look e.fullTarget = .file i ∧ (fs.content i).length > e.fileLength

/-- the first pass only opens files read-only and never changes the tree -/
theorem C14_pass1_readonly (st : St) (table : List TEntry) :
    (resizePass1 st table).1.fs = st.fs ∧
    ∃ new, (resizePass1 st table).1.ops = st.ops ++ new ∧ ∀ o ∈ new, o.kind = .openr := by
  sorry

/-- if any existing export image is longer than declared, the first pass reports an error -/
theorem C14_pass1_detects (st : St) (table : List TEntry)
    (h : ∃ e ∈ table, Overlong st.fs e) : (resizePass1 st table).2 = .error := by
  sorry

/-- with the flag on and an over-long export image present, the run fails before modifying anything -/
theorem C14_abort (H : Bytes → Bytes) (inp : RunIn) (hres : inp.resize = true)
    (hover : ∃ e ∈ buildTable inp.exportDir.path (dedupTorrents (sortTorrents inp.torrents)) 0, Overlong inp.fs e)
    (hne : inp.torrents ≠ []) :
    (run H inp).result = .err ∧ (run H inp).fs = inp.fs ∧ ∀ o ∈ (run H inp).ops, o.kind.mutating = false := by
  sorry

/-- the pre-flight never shrinks a file and never changes anything but the length of an export image:
    every operation of the second pass is a read+write open or a set_len to the declared length of a
    non-padding entry whose image is, at that moment, strictly shorter -/
theorem C14_pass2_ops (st : St) (table : List TEntry) :
    ∃ new, (resizePass2 st table).1.ops = st.ops ++ new ∧
      ∀ o ∈ new, ∃ e ∈ table, e.isPad = false ∧ o.path = e.fullTarget ∧
        (o.kind = .openrw ∨ o.kind = .setlen e.fileLength) := by
  sorry

/-- zero-extension keeps the existing bytes and appends zeros -/
theorem C14_setLen_extend (fs : Fs) (i n : Nat) (h : (fs.content i).length ≤ n) :
    (fs.setLen i n).content i = fs.content i ++ List.replicate (n - (fs.content i).length) 0
    ∧ ∀ j, j ≠ i → (fs.setLen i n).content j = fs.content j := by
  sorry

/-- one step of the second pass on a shorter image (no fault at this point): the image is extended to exactly
    the declared length, old bytes kept, zeros appended -/
theorem C14_extend_step (st : St) (e : TEntry) (es : List TEntry) (i : Nat)
    (hp : e.isPad = false) (hl : st.fs.look e.fullTarget = .file i)
    (hs : (st.fs.content i).length < e.fileLength)
    (hf1 : st.faults.contains st.ops.length = false) (hf2 : st.faults.contains (st.ops.length + 1) = false) :
    ∃ st', resizePass2 st (e :: es) = resizePass2 st' es ∧
      st'.fs.content i = st.fs.content i ++ List.replicate (e.fileLength - (st.fs.content i).length) 0 := by
  sorry

/-- without the flag a run changes no length outside a write group: every set_len in the log directly follows
    the successful create-open of the same export image -/
theorem C14_noflag (H : Bytes → Bytes) (inp : RunIn) (hres : inp.resize = false) :
    ∀ k n p ok, (run H inp).ops[k]? = some ⟨.setlen n, p, ok⟩ →
      k > 0 ∧ (run H inp).ops[k-1]? = some ⟨.openc, p, true⟩ := by
  sorry

end TB
