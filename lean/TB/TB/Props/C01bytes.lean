/-
  C01 (end state) — after any run every byte of every file is what it was before, a zero produced by extending a
  file, or the correct torrent byte: the byte that the layout assigns to that file offset inside a buffer whose
  hash is the piece hash.
-/
import TB.Spec.ExportSpec
import TB.Props.C01
import TB.Props.C11
import TB.Props.C04a
import TB.Lemmas.RunJ
import TB.Lemmas.RunJCex
namespace TB

/-- `x` is the correct torrent byte at offset `k` of the file `p`: some work item of the run has a non-padding
    segment whose export image is `p` and whose range contains `k`, and `x` is the byte which a buffer with the
    piece's hash holds at the position the layout assigns to that offset -/
def GoodByte (H : Bytes → Bytes) (work : List Work) (p : Path) (k : Nat) (x : UInt8) : Prop :=
  ∃ w ∈ work, ∃ (j : Nat) (seg : WSeg) (buf : Bytes),
    w.segs[j]? = some seg ∧ seg.ent.isPad = false ∧ seg.ent.fullTarget = p ∧
    seg.off ≤ k ∧ k < seg.off + seg.len ∧ H buf = w.hash ∧
    buf[segStart w.segs j + (k - seg.off)]? = some x

/-- no export image shares its inode with another name (DESIGN §8, NoAliasAcrossExport) -/
def NoAlias (fs : Fs) (table : List TEntry) : Prop :=
  ∀ e ∈ table, e.isPad = false → ∀ q i, fs.inoOf e.fullTarget = some i → fs.inoOf q = some i → q = e.fullTarget

/-- one logged operation keeps the byte invariant: bytes of `p` are old, zero-extension or good -/
def BytesOk (H : Bytes → Bytes) (work : List Work) (fs0 fs : Fs) : Prop :=
  ∀ p i, fs.inoOf p = some i → ∀ k x, (fs.content i)[k]? = some x →
    (∃ i0, fs0.inoOf p = some i0 ∧ (fs0.content i0)[k]? = some x)
    ∨ (x = 0 ∧ ∀ i0, fs0.inoOf p = some i0 → (fs0.content i0).length ≤ k)
    ∨ GoodByte H work p k x

/-- the end-state sentence of C01 for a whole run.

    `hsame` (non-padding table entries with the same export image declare the same length) is there because the
    statement is false without it; the world is the checked example `TB.Lemmas.RunJCex` (`H = id`): one torrent
    lists the path `x` twice (finding D6), once with length 2 and once with length 1, and the image exists with
    content `[5, 6]`. The piece of the length-1 entry is found first: `set_len 1` truncates the image to `[5]`; then
    a piece of the length-2 entry is found: `set_len 2` re-extends the image with a zero at offset 1, and only offset
    0 is written. Byte 1 is now `0`: it was `6`, it lies below the original length, and the piece covering it was
    never found. `FsWF`, `NoAlias` (which says nothing about two entries with the same image) and `SegsInRange` all
    hold in that world (`RunJ.Cex.wf`, `noAlias`, `segsInRange`, `not_sameLen`, `not_bytesOk`). With `hsame` a
    `set_len` extends an image only from its original length, so the zeros lie beyond it. -/
theorem C01_bytes (H : Bytes → Bytes) (inp : RunIn) (hwf : FsWF inp.fs)
    (hna : NoAlias inp.fs (run H inp).table) (hrange : ∀ w ∈ (run H inp).work, SegsInRange w)
    (hsame : ∀ e ∈ (run H inp).table, ∀ f ∈ (run H inp).table, e.isPad = false → f.isPad = false →
      e.fullTarget = f.fullTarget → e.fileLength = f.fileLength) :
    BytesOk H (run H inp).work inp.fs (run H inp).fs := by
  rw [C11_replay]
  exact (RunJ.inv_replay H inp hwf hna hsame hrange _ (fun _ h => h)).bytes

/-- and for every interruption point: the tree replayed from any prefix of the log satisfies the same
    (`hsame`: see `C01_bytes`) -/
theorem C01_bytes_prefix (H : Bytes → Bytes) (inp : RunIn) (hwf : FsWF inp.fs)
    (hna : NoAlias inp.fs (run H inp).table) (hrange : ∀ w ∈ (run H inp).work, SegsInRange w)
    (hsame : ∀ e ∈ (run H inp).table, ∀ f ∈ (run H inp).table, e.isPad = false → f.isPad = false →
      e.fullTarget = f.fullTarget → e.fileLength = f.fileLength) (n : Nat) :
    BytesOk H (run H inp).work inp.fs (replay inp.fs ((run H inp).ops.take n)) :=
  (RunJ.inv_replay H inp hwf hna hsame hrange _ (fun _ h => List.mem_of_mem_take h)).bytes

/-- the first formulation (without `hsame`) is refuted by the world of `TB.Lemmas.RunJCex` -/
theorem C01_bytes_needs_hsame :
    ¬ (∀ (H : Bytes → Bytes) (inp : RunIn), FsWF inp.fs → NoAlias inp.fs (run H inp).table →
        (∀ w ∈ (run H inp).work, SegsInRange w) → BytesOk H (run H inp).work inp.fs (run H inp).fs) :=
  fun h => RunJ.Cex.not_bytesOk (h id RunJ.Cex.inp RunJ.Cex.wf RunJ.Cex.noAlias RunJ.Cex.segsInRange)

end TB
