/-
  C01 (end state) — after any run every byte of every file is what it was before, a zero produced by extending a
  file, or the correct torrent byte: the byte that the layout assigns to that file offset inside a buffer whose
  hash is the piece hash.
-/
import TB.Spec.ExportSpec
import TB.Props.C01
import TB.Props.C11
import TB.Props.C04a
import TB.Lemmas.RunJ
namespace TB

/-- `x` is the correct torrent byte at offset `k` of the file `p`: some work item of the run has a non-padding
    segment whose export image is `p` and whose range contains `k`, and `x` is the byte which a buffer with the
    piece's hash holds at the position the layout assigns to that offset -/
def GoodByte (H : Bytes → Bytes) (work : List Work) (p : Path) (k : Nat) (x : UInt8) : Prop :=
  ∃ w ∈ work, ∃ (j : Nat) (seg : WSeg) (buf : Bytes),
    w.segs[j]? = some seg ∧ seg.ent.isPad = false ∧ seg.ent.fullTarget = p ∧
    seg.off ≤ k ∧ k < seg.off + seg.len ∧ H buf = w.hash ∧
    buf[segStart w.segs j + (k - seg.off)]? = some x

/-- no export image shares its inode with another name (DESIGN §8, NoAliasAcrossExport) -/
def NoAlias (fs : Fs) (table : List TEntry) : Prop :=
  ∀ e ∈ table, e.isPad = false → ∀ q i, fs.inoOf e.fullTarget = some i → fs.inoOf q = some i → q = e.fullTarget

/-- one logged operation keeps the byte invariant: bytes of `p` are old, zero-extension or good -/
def BytesOk (H : Bytes → Bytes) (work : List Work) (fs0 fs : Fs) : Prop :=
  ∀ p i, fs.inoOf p = some i → ∀ k x, (fs.content i)[k]? = some x →
    (∃ i0, fs0.inoOf p = some i0 ∧ (fs0.content i0)[k]? = some x)
    ∨ (x = 0 ∧ ∀ i0, fs0.inoOf p = some i0 → (fs0.content i0).length ≤ k)
    ∨ GoodByte H work p k x

/-- the end-state sentence of C01 for a whole run -/
theorem C01_bytes (H : Bytes → Bytes) (inp : RunIn) (hwf : FsWF inp.fs)
    (hna : NoAlias inp.fs (run H inp).table) (hrange : ∀ w ∈ (run H inp).work, SegsInRange w) :
    BytesOk H (run H inp).work inp.fs (run H inp).fs := by
  sorry

/-- and for every interruption point: the tree replayed from any prefix of the log satisfies the same -/
theorem C01_bytes_prefix (H : Bytes → Bytes) (inp : RunIn) (hwf : FsWF inp.fs)
    (hna : NoAlias inp.fs (run H inp).table) (hrange : ∀ w ∈ (run H inp).work, SegsInRange w) (n : Nat) :
    BytesOk H (run H inp).work inp.fs (replay inp.fs ((run H inp).ops.take n)) := by
  sorry

end TB
