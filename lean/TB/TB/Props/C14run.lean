/-
  C14 (tree level) — with the flag on, no over-long image and no fault, the pre-flight leaves every existing shorter
  export image zero-extended to exactly its declared length (old bytes kept), and touches nothing else.
-/
import TB.Spec.ExportSpec
import TB.Props.C14
import TB.Props.C04a
import TB.Props.C01bytes
import TB.Lemmas.RunN
namespace TB

/-- entries sharing an image declare one length, and distinct images are distinct inodes -/
def TableSane (fs : Fs) (table : List TEntry) : Prop :=
  (∀ e ∈ table, ∀ f ∈ table, e.isPad = false → f.isPad = false → e.fullTarget = f.fullTarget → e.fileLength = f.fileLength) ∧
  (∀ e ∈ table, ∀ f ∈ table, e.isPad = false → f.isPad = false → e.fullTarget ≠ f.fullTarget →
    ∀ i j, fs.inoOf e.fullTarget = some i → fs.inoOf f.fullTarget = some j → i ≠ j)

theorem C14_extend (st : St) (table : List TEntry)
    (hnf : st.faults = []) (hwf : FsWF st.fs) (hsane : TableSane st.fs table)
    (hnoover : ∀ e ∈ table, ¬ Overlong st.fs e)
    (hlook : ∀ e ∈ table, e.isPad = false → st.fs.look e.fullTarget ≠ .notDir ∧ st.fs.look e.fullTarget ≠ .dir) :
    (fixExportFileLengths st table).2 = .continue ∧
    (∀ e ∈ table, e.isPad = false → ∀ i, st.fs.look e.fullTarget = .file i →
      (fixExportFileLengths st table).1.fs.look e.fullTarget = .file i ∧
      (fixExportFileLengths st table).1.fs.content i =
        st.fs.content i ++ List.replicate (e.fileLength - (st.fs.content i).length) 0) ∧
    (∀ p i, st.fs.inoOf p = some i → (∀ e ∈ table, e.isPad = false → e.fullTarget ≠ p) →
      (∀ e ∈ table, e.isPad = false → st.fs.inoOf e.fullTarget ≠ some i) →
      (fixExportFileLengths st table).1.fs.inoOf p = some i ∧ (fixExportFileLengths st table).1.fs.content i = st.fs.content i) := by
  obtain ⟨hs1, hs2⟩ := hsane
  obtain ⟨p1, p2, p3⟩ := RunN.pass1_ok table st hnf (fun e he hp =>
    ⟨fun i hi => Nat.le_of_not_lt (fun hgt => hnoover e he ⟨hp, i, hi, hgt⟩), hlook e he hp⟩)
  have hfix : fixExportFileLengths st table = resizePass2 (resizePass1 st table).1 table := by
    unfold fixExportFileLengths
    rcases hp : resizePass1 st table with ⟨st1, fl⟩
    rw [hp] at p1
    simp only at p1
    subst p1
    rfl
  rw [hfix]
  obtain ⟨q1, ⟨qf, qd, qc⟩, _, q4⟩ := RunN.pass2_all st.fs table hs1 hs2 hlook table (resizePass1 st table).1 p3
    (by rw [p2]; exact RunN.Inv.refl _ _) (fun _ h => h)
  refine ⟨q1, fun e he hp i hi => ⟨?_, ?_⟩, fun p i hpi _ hno => ⟨?_, ?_⟩⟩
  · rw [RunN.look_congr qf qd]; exact hi
  · have hlen := q4 e he hp i hi
    have hnov : (st.fs.content i).length ≤ e.fileLength :=
      Nat.le_of_not_lt (fun hgt => hnoover e he ⟨hp, i, hi, hgt⟩)
    rcases qc i with h | ⟨e', he', hp', hl', hlt', hc'⟩
    · rw [h] at hlen ⊢
      have : e.fileLength - (st.fs.content i).length = 0 := by omega
      rw [this]; simp
    · have : e'.fileLength = e.fileLength := by
        by_cases hne : e'.fullTarget = e.fullTarget
        · exact hs1 e' he' e he hp' hp hne
        · exact absurd rfl (hs2 e' he' e he hp' hp hne i i (RunN.look_inoOf hl') (RunN.look_inoOf hi))
      rw [hc', this]
  · rw [RunN.inoOf_congr qf]; exact hpi
  · rcases qc i with h | ⟨e', he', hp', hl', _, _⟩
    · exact h
    · exact absurd (RunN.look_inoOf hl') (hno e' he' hp')

end TB
