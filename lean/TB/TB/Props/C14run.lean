/-
  C14 (tree level) — with the flag on, no over-long image and no fault, the pre-flight leaves every existing shorter
  export image zero-extended to exactly its declared length (old bytes kept), and touches nothing else.
-/
import TB.Spec.ExportSpec
import TB.Props.C14
import TB.Props.C04a
import TB.Props.C01bytes
import TB.Lemmas.RunN
namespace TB

/-- entries sharing an image declare one length, and distinct images are distinct inodes -/
def TableSane (fs : Fs) (table : List TEntry) : Prop :=
  (∀ e ∈ table, ∀ f ∈ table, e.isPad = false → f.isPad = false → e.fullTarget = f.fullTarget → e.fileLength = f.fileLength) ∧
  (∀ e ∈ table, ∀ f ∈ table, e.isPad = false → f.isPad = false → e.fullTarget ≠ f.fullTarget →
    ∀ i j, fs.inoOf e.fullTarget = some i → fs.inoOf f.fullTarget = some j → i ≠ j)

theorem C14_extend (st : St) (table : List TEntry)
    (hnf : st.faults = []) (hwf : FsWF st.fs) (hsane : TableSane st.fs table)
    (hnoover : ∀ e ∈ table, ¬ Overlong st.fs e)
    (hlook : ∀ e ∈ table, e.isPad = false → st.fs.look e.fullTarget ≠ .notDir ∧ st.fs.look e.fullTarget ≠ .dir) :
    (fixExportFileLengths st table).2 = .continue ∧
    (∀ e ∈ table, e.isPad = false → ∀ i, st.fs.look e.fullTarget = .file i →
      (fixExportFileLengths st table).1.fs.look e.fullTarget = .file i ∧
      (fixExportFileLengths st table).1.fs.content i =
        st.fs.content i ++ List.replicate (e.fileLength - (st.fs.content i).length) 0) ∧
    (∀ p i, st.fs.inoOf p = some i → (∀ e ∈ table, e.isPad = false → e.fullTarget ≠ p) →
      (∀ e ∈ table, e.isPad = false → st.fs.inoOf e.fullTarget ≠ some i) →
      (fixExportFileLengths st table).1.fs.inoOf p = some i ∧ (fixExportFileLengths st table).1.fs.content i = st.fs.content i) := by
  sorry

end TB
