/-
  C01 — only SHA-1-verified torrent bytes are written, at their own offset.
  `H` is a parameter; the state `st` (file system contents, earlier log, fault points) is arbitrary, so the
  theorems cover every interleaving with other workers and every external interference with the files read.
-/
import TB.Spec.ExportSpec
import TB.Lemmas.Run
import TB.Lemmas.RunARun
namespace TB

/-- the log only grows -/
theorem solvePiece_ops_extend (H : Bytes → Bytes) (st : St) (w : Work) :
    ∃ new, (solvePiece H st w).1.ops = st.ops ++ new :=
  (solvePiece_ext H st w).extends

/-- every write issued while evaluating a piece stores a slice of a buffer whose hash is the piece hash, cut
    at the segment's own position in the buffer, at the segment's file offset in the segment's export image -/
theorem C01_write_sound (H : Bytes → Bytes) (st : St) (w : Work) :
    ∀ o ∈ newOps st (solvePiece H st w).1, WriteSound H w o := by
  intro o ho
  exact PieceOp.writeSound ((solvePiece_ext H st w).newOps o ho)

/-- the hash comparison gates the first mutation: if evaluating a piece mutated anything, some buffer matched -/
theorem C01_gate (H : Bytes → Bytes) (st : St) (w : Work)
    (h : ∃ o ∈ newOps st (solvePiece H st w).1, o.kind.mutating = true) :
    ∃ buf, H buf = w.hash := by
  obtain ⟨o, ho, hm⟩ := h
  exact PieceOp.gate ((solvePiece_ext H st w).newOps o ho) hm

/-- the writer on its own: whatever sources and buffer it is given, segment `k` is cut at `segStart k` —
    skipped segments (padding, already exported) still advance the cursor -/
theorem C01_writer_cursor (st : St) (pairs : List (WSeg × Option Path)) (buf : Bytes) (start : Nat) :
    ∀ o ∈ newOps st (writeSegs st pairs buf start).1, ∀ off data, o.kind = .write off data →
      ∃ k seg, (pairs.map (·.1))[k]? = some seg ∧ o.path = seg.ent.fullTarget ∧ off = seg.off
        ∧ data = (buf.drop (start + segStart (pairs.map (·.1)) k)).take seg.len := by
  intro o ho off data hk
  obtain ⟨k, seg, hseg, _, hs⟩ := (writeSegs_ext st pairs buf start).newOps o ho
  obtain ⟨h1, h2, h3, _⟩ := SegOp.write hs hk
  exact ⟨k, seg, hseg, h1, h2, h3⟩

/-- run level: every write of a whole run belongs to some work item of that run and is sound for it -/
theorem C01_run (H : Bytes → Bytes) (inp : RunIn) :
    ∀ o ∈ (run H inp).ops, ∀ off data, o.kind = .write off data →
      ∃ w ∈ (run H inp).work, WriteSound H w o := by
  intro o ho off data hk
  rcases (run_inv H inp).2 o ho with (h | h | ⟨e, _, _, h | h, _⟩) | ⟨w, hw, h, _⟩
  · rw [h] at hk; cases hk
  · rw [h] at hk; cases hk
  · rw [h] at hk; cases hk
  · rw [h] at hk; cases hk
  · exact ⟨w, hw, h.writeSound⟩

end TB
