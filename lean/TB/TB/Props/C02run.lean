/-
  C02 (run level) — the index built by a run contains every same-length file below a scan directory and every
  export image of the declared length, up to (device, inode) identity.
-/
import TB.Spec.ExportSpec
import TB.Lemmas.RunG
namespace TB

/-- the candidate cache a run builds (no faults): export images first, then the scan directories in order -/
def runCache (fs : Fs) (table : List TEntry) (scan : List PathArg) : Cache :=
  let st : St := ⟨fs, [], []⟩
  let (st3, cache0) := addExportPaths st [] table
  scan.foldl (fun c d => addByDirectory st3.fs c d.path (uniqueLengths table)) cache0

/-- once registered under a length, a path stays registered under that length whatever is inserted later -/
theorem C02_cache_monotone (c : Cache) (len : Nat) (p : Path) (i : Nat) (len' : Nat) (q : Path) (j : Nat)
    (h : ∃ m, cacheGet c len = some m ∧ ∃ k, (p, k) ∈ m) :
    ∃ m, cacheGet (cacheInsert c len' q j) len = some m ∧ ∃ k, (p, k) ∈ m := by
  have _ := i
  exact TB.RC.reg_insert h len' q j

/-- scanning further directories never unregisters a path -/
theorem C02_scan_monotone (fs : Fs) (c : Cache) (dir : Path) (lengths : List Nat) (len : Nat) (p : Path)
    (h : ∃ m, cacheGet c len = some m ∧ ∃ k, (p, k) ∈ m) :
    ∃ m, cacheGet (addByDirectory fs c dir lengths) len = some m ∧ ∃ k, (p, k) ∈ m := by
  exact TB.RunG.reg_addByDirectory h fs dir lengths

/-- every regular file below one of the scan directories whose length is the declared length of some non-padding
    torrent file is registered in the run's cache under that length -/
theorem C02_run_scan_registered (fs : Fs) (table : List TEntry) (scan : List PathArg) (e : TEntry) (d : PathArg)
    (p : Path) (i : Nat)
    (he : e ∈ table) (hpad : e.isPad = false) (hd : d ∈ scan)
    (hmem : (p, i) ∈ fs.files) (hunder : d.path.length < p.length ∧ p.take d.path.length = d.path)
    (hlen : (fs.content i).length = e.fileLength) :
    ∃ m, cacheGet (runCache fs table scan) e.fileLength = some m ∧ ∃ k, (p, k) ∈ m := by
  have hc := TB.RunG.uniqueLengths_contains table e he hpad
  rw [← hlen] at hc ⊢
  unfold runCache
  simp only [TB.RunG.addExportPaths_fs]
  exact TB.RunG.scan_registers fs (uniqueLengths table) scan _ d p i hd hmem hunder hc

/-- an export image that exists as a regular file of exactly the declared length is registered under that length -/
theorem C02_run_export_registered (fs : Fs) (table : List TEntry) (scan : List PathArg) (e : TEntry) (i : Nat)
    (he : e ∈ table) (hpad : e.isPad = false)
    (hlook : fs.look e.fullTarget = .file i) (hlen : (fs.content i).length = e.fileLength) :
    ∃ m, cacheGet (runCache fs table scan) e.fileLength = some m ∧ ∃ k, (e.fullTarget, k) ∈ m := by
  unfold runCache
  simp only
  exact TB.RunG.reg_scan
    (TB.RunG.addExportPaths_registers ⟨fs, [], []⟩ rfl [] table e i he hpad hlook hlen) _ _ scan

/-- whatever admissible order is observed (or the canonical one), the candidate list of an entry names every
    inode registered under its length: `populateSearches` loses no file -/
theorem C02_populate_keeps (c : Cache) (obs : List (Nat × List Path)) (table : List TEntry) (e : TEntry)
    (m : List (Path × Nat)) (he : e ∈ table) (hpad : e.isPad = false) (hm : cacheGet c e.fileLength = some m) :
    ∃ e' ∈ (populateSearches c obs table).1, e'.id = e.id ∧ e'.fullTarget = e.fullTarget ∧
      ∃ paths, e'.searches = some paths ∧ ∀ x ∈ m, ∃ q ∈ paths, ∃ y ∈ m, y.1 = q ∧ y.2 = x.2 := by
  exact TB.RunG.populate_keeps c obs table e m he hpad hm

end TB
