/-
  C04 — already-verified export data is never rewritten, damaged or lost.
-/
import TB.Spec.ExportSpec
import TB.Lemmas.RunC
import TB.Props.C02
namespace TB

/-- the registered export image is the first candidate: it is the only path of similarity 0 -/
theorem C04_export_first (e : TEntry) (m : List (Path × Nat)) (obs : List Path) (i : Nat)
    (h : validSearches e m obs = true) (hm : (e.fullTarget, i) ∈ m)
    (huniq : ∀ x ∈ m, x.1 = e.fullTarget → x.2 = i) :
    obs.head? = some e.fullTarget := by
  sorry

/-- segments whose source is their own export image (and padding) are skipped: nothing is logged, nothing changes -/
theorem C04_skip (st : St) (pairs : List (WSeg × Option Path)) (buf : Bytes) (start : Nat)
    (h : ∀ x ∈ pairs, x.1.ent.isPad = true ∨ x.2 = some x.1.ent.fullTarget) :
    writeSegs st pairs buf start = (st, .found) := by
  sorry

/-- the all-first combination is tried first -/
theorem C04_first_combination (H : Bytes → Bytes) (hash : Bytes) (loaded : List (List (Option Path × Bytes)))
    (firsts : List (Option Path × Bytes)) (hlen : firsts.length = loaded.length)
    (hfirst : ∀ k (hk : k < firsts.length) (hl : k < loaded.length), loaded[k].head? = some firsts[k])
    (chosen : List (Option Path × Bytes))
    (hh : H ((chosen ++ firsts).flatMap (·.2)) = hash) :
    searchProduct H hash loaded chosen = some (chosen ++ firsts) := by
  sorry

/-- piece level (clause b): a piece that verifies in the export tree, with every non-padding segment's export
    image of the declared length and listed first among its candidates, is found and evaluating it performs no
    mutating operation and leaves the tree exactly as it was -/
theorem C04b_untouched (H : Bytes → Bytes) (st : St) (w : Work)
    (hnf : NoFutureFaults st)
    (hsegs : w.segs ≠ [])
    (hfirst : ∀ seg ∈ w.segs, seg.ent.isPad = false →
      ∃ rest i, seg.ent.searches = some (seg.ent.fullTarget :: rest) ∧ st.fs.look seg.ent.fullTarget = .file i
        ∧ seg.off + seg.len ≤ (st.fs.content i).length)
    (hreadable : ∀ seg ∈ w.segs, ∀ paths, seg.ent.searches = some paths → ∀ p ∈ paths, ∃ i, st.fs.look p = .file i)
    (hver : VerE H st.fs w) :
    (solvePiece H st w).2 = .found ∧ (solvePiece H st w).1.fs = st.fs ∧
    ∀ o ∈ newOps st (solvePiece H st w).1, o.kind.mutating = false := by
  sorry

/-- reads never change the tree -/
theorem C04_reads_pure (st : St) (p : Path) (len off : Nat) : (st.readBytes p len off).1.fs = st.fs := by
  sorry

end TB
