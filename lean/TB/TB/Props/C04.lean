/-
  C04 — already-verified export data is never rewritten, damaged or lost.
-/
import TB.Spec.ExportSpec
import TB.Lemmas.RunC
import TB.Props.C02
namespace TB
open TB.RC
/-- the registered export image is the first candidate: it is the only path of similarity 0 -/
theorem C04_export_first (e : TEntry) (m : List (Path × Nat)) (obs : List Path) (i : Nat)
    (h : validSearches e m obs = true) (hm : (e.fullTarget, i) ∈ m)
    (huniq : ∀ x ∈ m, x.1 = e.fullTarget → x.2 = i) :
    obs.head? = some e.fullTarget := by
  have _ := huniq
  obtain ⟨p, hp, _, hsim⟩ := validSearches_mem h _ hm
  have h0 : similarity e.fullTarget e.partialTarget e.fullTarget = 0 := similarity_eq_zero.2 rfl
  simp only [h0, Nat.le_zero_eq] at hsim
  have hpe : p = e.fullTarget := similarity_eq_zero.1 hsim
  subst hpe
  cases hobs : obs with
  | nil => rw [hobs] at hp; cases hp
  | cons a l =>
    have := validSearches_head h a l hobs _ hp
    rw [h0, Nat.le_zero_eq] at this
    rw [similarity_eq_zero.1 this]
    rfl

/-- segments whose source is their own export image (and padding) are skipped: nothing is logged, nothing changes -/
theorem C04_skip (st : St) (pairs : List (WSeg × Option Path)) (buf : Bytes) (start : Nat)
    (h : ∀ x ∈ pairs, x.1.ent.isPad = true ∨ x.2 = some x.1.ent.fullTarget) :
    writeSegs st pairs buf start = (st, .found) := by
  induction pairs generalizing start with
  | nil => rfl
  | cons x rest ih =>
    obtain ⟨seg, src⟩ := x
    have hrest : ∀ x ∈ rest, x.1.ent.isPad = true ∨ x.2 = some x.1.ent.fullTarget :=
      fun y hy => h y (List.mem_cons_of_mem _ hy)
    simp only [writeSegs]
    rcases h (seg, src) (by simp) with hp | hs
    · simp only at hp
      rw [if_pos hp]
      exact ih _ hrest
    · simp only at hs
      split
      · exact ih _ hrest
      · rw [if_pos (by simp [hs])]
        exact ih _ hrest

/-- the all-first combination is tried first -/
theorem C04_first_combination (H : Bytes → Bytes) (hash : Bytes) (loaded : List (List (Option Path × Bytes)))
    (firsts : List (Option Path × Bytes)) (hlen : firsts.length = loaded.length)
    (hfirst : ∀ k (hk : k < firsts.length) (hl : k < loaded.length), loaded[k].head? = some firsts[k])
    (chosen : List (Option Path × Bytes))
    (hh : H ((chosen ++ firsts).flatMap (·.2)) = hash) :
    searchProduct H hash loaded chosen = some (chosen ++ firsts) := by
  induction loaded generalizing chosen firsts with
  | nil =>
    have : firsts = [] := List.eq_nil_of_length_eq_zero hlen
    subst this
    simp only [List.append_nil] at hh ⊢
    simp [searchProduct, hh]
  | cons cands rest ih =>
    cases firsts with
    | nil => simp at hlen
    | cons c firsts =>
      simp only [searchProduct]
      have hc : cands.head? = some c := by
        have := hfirst 0 (by simp) (by simp)
        simpa using this
      refine firstM_option_head hc ?_
      have := ih firsts (by simpa using hlen) (fun k hk hl => by
        have := hfirst (k + 1) (by simpa using hk) (by simpa using hl)
        simpa using this) (chosen ++ [c]) (by simpa using hh)
      simpa using this

/-- piece level (clause b): a piece that verifies in the export tree, with every non-padding segment's export
    image of the declared length and listed first among its candidates, is found and evaluating it performs no
    mutating operation and leaves the tree exactly as it was -/
theorem C04b_untouched (H : Bytes → Bytes) (st : St) (w : Work)
    (hnf : NoFutureFaults st)
    (hsegs : w.segs ≠ [])
    (hfirst : ∀ seg ∈ w.segs, seg.ent.isPad = false →
      ∃ rest i, seg.ent.searches = some (seg.ent.fullTarget :: rest) ∧ st.fs.look seg.ent.fullTarget = .file i
        ∧ seg.off + seg.len ≤ (st.fs.content i).length)
    (hreadable : ∀ seg ∈ w.segs, ∀ paths, seg.ent.searches = some paths → ∀ p ∈ paths, ∃ i, st.fs.look p = .file i)
    (hver : VerE H st.fs w) :
    (solvePiece H st w).2 = .found ∧ (solvePiece H st w).1.fs = st.fs ∧
    ∀ o ∈ newOps st (solvePiece H st w).1, o.kind.mutating = false := by
  have _ := hsegs
  suffices hmain : ∃ st1, solvePiece H st w = (st1, .found) ∧ ROExt st st1 by
    obtain ⟨st1, heq, e⟩ := hmain
    rw [heq]
    exact ⟨rfl, e.fs, e.newOps⟩
  obtain ⟨parts, hparts, hphash⟩ := hver
  have hparts' := mapM_option_some hparts []
  -- no segment is rejected up front
  have hnorej : (w.segs.any (fun s => !s.ent.isPad && s.ent.searches.isNone && s.len != 0)) = false := by
    rw [Bool.eq_false_iff]
    intro hrej
    obtain ⟨s, hs, hcond⟩ := List.any_eq_true.1 hrej
    simp only [Bool.and_eq_true, Bool.not_eq_true', bne_iff_ne, ne_eq, Option.isNone_iff_eq_none] at hcond
    obtain ⟨_, _, hsome, _⟩ := hfirst s hs hcond.1.1
    rw [hcond.1.2] at hsome
    cases hsome
  unfold solvePiece
  simp only [hnorej, Bool.false_eq_true, if_false]
  split
  · -- a single segment
    rename_i seg hseg
    have hH : H ((segBytesIn st.fs seg).getD []) = w.hash := by
      rw [hparts', hseg] at hphash
      simpa using hphash
    have hmem : seg ∈ w.segs := by rw [hseg]; simp
    cases hpad : seg.ent.isPad with
    | true =>
      have : segBytesIn st.fs seg = some (List.replicate seg.len 0) := by simp [segBytesIn, hpad]
      rw [this] at hH
      simp only [Option.getD_some] at hH
      simp only [if_true]
      rw [if_pos (by simp [hH])]
      exact ⟨st, rfl, ROExt.refl st⟩
    | false =>
      obtain ⟨rest, i, hs, hi, hle⟩ := hfirst seg hmem hpad
      have : segBytesIn st.fs seg = some (st.fs.readAt i seg.off seg.len) := by simp [segBytesIn, hpad, hi, hle]
      rw [this] at hH
      simp only [Option.getD_some] at hH
      simp only [Bool.false_eq_true, if_false, hs, scanSingle]
      rw [readBytes_nff hnf hi]
      simp only
      rw [if_pos (by simp [hH])]
      simp only
      refine ⟨_, C04_skip _ _ _ _ ?_, readBytes_ext _ _ _ _⟩
      intro x hx
      rw [List.mem_singleton] at hx
      subst hx
      exact Or.inr rfl
  · -- several segments
    obtain ⟨loaded, hl⟩ := preload_ok hnf hreadable
    have e := preload_ext st w.segs
    have hpre : preload st w.segs = ((preload st w.segs).1, .ok loaded) := by rw [← hl]
    obtain ⟨hll, hcand⟩ := forall₂_getElem? (preload_spec hpre)
    have hfirsts : ∀ k (hk : k < (w.segs.map (firstOf st.fs)).length) (hl : k < loaded.length),
        loaded[k].head? = some (w.segs.map (firstOf st.fs))[k] := by
      intro k hk hl
      have hk' : k < w.segs.length := by omega
      rw [List.getElem_map]
      exact cand_head (hcand k _ _ (List.getElem?_eq_getElem hk') (List.getElem?_eq_getElem hl))
        (hfirst _ (List.getElem_mem hk'))
    have hflat : H ((([] : List (Option Path × Bytes)) ++ w.segs.map (firstOf st.fs)).flatMap (·.2)) = w.hash := by
      rw [← hphash, hparts', List.nil_append, List.flatMap_def, List.map_map]
      rfl
    have hsearch := C04_first_combination H w.hash loaded (w.segs.map (firstOf st.fs)) (by simp [hll]) hfirsts [] hflat
    rw [hpre]
    simp only [hsearch]
    refine ⟨_, C04_skip _ _ _ _ ?_, e⟩
    intro x hx
    rw [List.nil_append, List.map_map] at hx
    have := mem_zip_map_self _ _ x hx
    rw [this]
    simp only [Function.comp, firstOf]
    cases x.1.ent.isPad <;> simp

/-- reads never change the tree -/
theorem C04_reads_pure (st : St) (p : Path) (len off : Nat) : (st.readBytes p len off).1.fs = st.fs := by
  exact (readBytes_ext st p len off).fs

end TB
