import TB.Props.C05reads
namespace TB
open TB.RunX

/-- reading a range inside the old content, inside the declared length and disjoint from the written range -/
theorem upd_read (L off : Nat) (d c : Bytes) (so sl' : Nat) (h1 : so + sl' ≤ c.length) (h2 : so + sl' ≤ L)
    (h3 : so + sl' ≤ off ∨ off + d.length ≤ so) :
    so + sl' ≤ (upd L off d c).length ∧ ((upd L off d c).drop so).take sl' = (c.drop so).take sl' := by
  constructor
  · unfold upd; rw [wr_length, sl_length]; omega
  · apply List.ext_getElem?
    intro k
    simp only [List.getElem?_take, List.getElem?_drop]
    split
    · rename_i hk
      unfold upd
      rw [wr_get, sl_get]
      have hc : some (c[so + k]?.getD 0) = c[so + k]? := some_getD (by omega)
      by_cases a1 : so + k < off
      · rw [if_pos a1, if_pos (by omega)]; simp [hc]
      · rw [if_neg a1, if_neg (by omega), if_pos (by omega)]; exact hc
    · rfl

/-- the look of a regular file survives a critical section on any image (CritOk + well-formedness) -/
theorem look_file_crit {fs fs' : Fs} (hwf : FsWF fs) {t : Path} {L off : Nat} {d : Bytes} {i : Nat}
    (hok : CritOk fs t) (S : CritSpec fs t L off d fs' i) {p : Path} {i0 : Nat} (hl : fs.look p = .file i0) :
    fs'.look p = .file i0 := by
  obtain ⟨l1, l2, l3⟩ := RunF.look_file hl
  have hmem := RunF.inoOf_mem l3
  apply RunF.look_file_of
  · rw [List.any_eq_false]
    intro q hq
    by_cases hqt : q = t
    · subst hqt
      have hd : fs.isDir q = true := hwf.2.2.2 p i0 hmem q hq
      have := hok.2
      rw [hd] at this; simp at this
    · rw [S.ino_other q hqt]
      rw [List.any_eq_false] at l1
      exact l1 q hq
  · rw [S.dir p, l2, Bool.false_or]
    cases hc : (mk t).contains p with
    | false => rfl
    | true =>
      have hm : p ∈ mk t := by simpa using hc
      have := hok.1 p hm
      rw [l3] at this; cases this
  · by_cases hpt : p = t
    · subst hpt
      rw [S.ino_t]
      rcases S.origin with ⟨h1, _⟩ | ⟨h1, _⟩
      · rw [l3] at h1; exact h1.symm
      · rw [l3] at h1; cases h1
    · rw [S.ino_other p hpt]; exact l3

theorem segBytesIn_crit (fs fs' : Fs) (hwf : FsWF fs) (sec : Sec) (s : WSeg) (b : Bytes)
    (hc : fs.crit sec.t sec.L sec.off sec.d = some fs')
    (hsp : ¬ s.ent.isPad →
      (s.ent.fullTarget = sec.t → s.off + s.len ≤ sec.L ∧ (s.off + s.len ≤ sec.off ∨ sec.off + sec.d.length ≤ s.off)) ∧
      (s.ent.fullTarget ≠ sec.t → ∀ i j, fs.inoOf s.ent.fullTarget = some i → fs.inoOf sec.t = some j → i ≠ j))
    (hs : segBytesIn fs s = some b) : segBytesIn fs' s = some b := by
  unfold segBytesIn at hs ⊢
  by_cases hpad : s.ent.isPad
  · simp only [hpad, if_true] at hs ⊢; exact hs
  · simp only [hpad] at hs ⊢
    obtain ⟨hsame, hdiff⟩ := hsp hpad
    rcases crit_spec hwf sec.t sec.L sec.off sec.d with ⟨_, hn⟩ | ⟨hok, fs'', i, he, S⟩
    · rw [hn] at hc; cases hc
    · rw [he] at hc; cases hc
      cases hl : fs.look s.ent.fullTarget with
      | file i0 =>
        simp only [hl] at hs
        have hl' := look_file_crit hwf hok S hl
        simp only [hl']
        have l3 := RunF.look_file_inoOf hl
        by_cases hin : s.off + s.len ≤ (fs.content i0).length
        · simp only [if_pos hin] at hs
          by_cases hpt : s.ent.fullTarget = sec.t
          · obtain ⟨r1, r2⟩ := hsame hpt
            have hi : i = i0 := by
              rcases S.origin with ⟨h1, _⟩ | ⟨h1, _⟩
              · rw [← hpt, l3] at h1; exact (Option.some.inj h1).symm
              · rw [← hpt, l3] at h1; cases h1
            subst hi
            have hcont : fs'.content i = upd sec.L sec.off sec.d (fs.content i) := by
              rcases S.origin with ⟨_, h2⟩ | ⟨h1, _⟩
              · exact h2
              · rw [← hpt, l3] at h1; cases h1
            obtain ⟨u1, u2⟩ := upd_read sec.L sec.off sec.d (fs.content i) s.off s.len hin r1 r2
            unfold Fs.readAt at hs ⊢
            rw [hcont, if_pos u1, u2]; exact hs
          · have hne : i0 ≠ i := by
              rcases S.origin with ⟨h1, _⟩ | ⟨_, h2, _⟩
              · exact hdiff hpt i0 i l3 h1
              · have := RunF.inoOf_lt hwf l3
                omega
            have hcont : fs'.content i0 = fs.content i0 := S.content_other i0 hne
            unfold Fs.readAt at hs ⊢
            rw [hcont, if_pos hin]; exact hs
        · simp only [if_neg hin] at hs
          exact absurd hs (by simp)
      | notFound => simp only [hl] at hs; exact absurd hs (by simp)
      | dir => simp only [hl] at hs; exact absurd hs (by simp)
      | notDir => simp only [hl] at hs; exact absurd hs (by simp)

theorem mapM_segBytesIn_crit (fs fs' : Fs) (hwf : FsWF fs) (sec : Sec)
    (hc : fs.crit sec.t sec.L sec.off sec.d = some fs') (segs : List WSeg) (parts : List Bytes)
    (hsp : ∀ s ∈ segs, ¬ s.ent.isPad →
      (s.ent.fullTarget = sec.t → s.off + s.len ≤ sec.L ∧ (s.off + s.len ≤ sec.off ∨ sec.off + sec.d.length ≤ s.off)) ∧
      (s.ent.fullTarget ≠ sec.t → ∀ i j, fs.inoOf s.ent.fullTarget = some i → fs.inoOf sec.t = some j → i ≠ j))
    (h : segs.mapM (segBytesIn fs) = some parts) :
    segs.mapM (segBytesIn fs') = some parts := by
  induction segs generalizing parts with
  | nil => simpa using h
  | cons s rest ih =>
    rw [List.mapM_cons] at h ⊢
    cases hs : segBytesIn fs s with
    | none => rw [hs] at h; simp at h
    | some b =>
      rw [hs] at h
      cases hr : rest.mapM (segBytesIn fs) with
      | none => rw [hr] at h; simp at h
      | some ps =>
        rw [hr] at h
        have hs' : segBytesIn fs' s = some b :=
          segBytesIn_crit fs fs' hwf sec s b hc (hsp s List.mem_cons_self) hs
        rw [hs', ih ps (fun t ht => hsp t (List.mem_cons_of_mem _ ht)) hr]
        exact h

/-- R6: A WHOLE CRITICAL SECTION of another piece (`create_dir_all`, open-or-create, `set_len L`, positional write:
    `Fs.crit`) preserves the verification of a piece it spares: the segments of the piece on the section's own image lie
    inside the declared length and outside the written range, and its segments on other images are not hard links of
    the section's image. Unlike R5 this includes the path level: the directories and the file the section creates do
    not change where the piece's paths lead (`look_file_crit`). Nothing is assumed about the section's own range
    (a write reaching beyond `L` still spares the segments it does not touch). -/
theorem C05_section_preserves_verified (H : Bytes → Bytes) (fs fs' : Fs) (hwf : FsWF fs) (sec : Sec) (w : Work)
    (hc : fs.crit sec.t sec.L sec.off sec.d = some fs')
    (hsp : ∀ s ∈ w.segs, ¬ s.ent.isPad →
      (s.ent.fullTarget = sec.t → s.off + s.len ≤ sec.L ∧ (s.off + s.len ≤ sec.off ∨ sec.off + sec.d.length ≤ s.off)) ∧
      (s.ent.fullTarget ≠ sec.t → ∀ i j, fs.inoOf s.ent.fullTarget = some i → fs.inoOf sec.t = some j → i ≠ j))
    (h : VerE H fs w) : VerE H fs' w := by
  obtain ⟨parts, hm, hh⟩ := h
  exact ⟨parts, mapM_segBytesIn_crit fs fs' hwf sec hc w.segs parts hsp hm, hh⟩

/-! #### non-vacuity of R6: the image `d/x` holds `[7, 8]`, the piece on its first byte verifies; the section of the
    other piece (same image, declared length 2, second byte) runs and the piece still verifies -/
namespace C05r
open TB.C05w
theorem wfR : FsWF fsR := by
  refine ⟨?_, ?_, ?_, ?_⟩
  · have : ∀ e ∈ fsR.files, e.2 < fsR.next := by decide +kernel
    exact fun p i h => this (p, i) h
  · show (fsR.files.map (·.1)).Nodup
    decide +kernel
  · have : ∀ e ∈ fsR.files, fsR.isDir e.1 = false := by decide +kernel
    exact fun p i h => this (p, i) h
  · have : ∀ e ∈ fsR.files, ∀ q ∈ Fs.properPrefixes e.1, fsR.isDir q = true := by decide +kernel
    exact fun p i h => this (p, i) h

example : ∃ fs', fsR.crit tx 2 1 [9] = some fs' ∧ VerE id fs' wR := by
  cases hc : fsR.crit tx 2 1 [9] with
  | none => exact absurd hc (by decide)
  | some fs' =>
    refine ⟨fs', rfl, C05_section_preserves_verified id fsR fs' wfR ⟨tx, 2, 1, [9]⟩ wR hc ?_ verR⟩
    intro s hs _
    have : s = ⟨1, 0, ex⟩ := by simpa [wR] using hs
    subst this
    exact ⟨fun _ => ⟨by decide, Or.inl (by decide)⟩, fun h => absurd rfl h⟩
end C05r

end TB
