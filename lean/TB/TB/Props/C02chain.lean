/-
  C02 (chained, run level) — every piece whose data is present is recovered.

  The parts proved so far (`C02_piece`: completeness of the matchers for one piece; `C02run`: the index registers
  every same-length file; `C04a_found_verifies`: a found piece verifies afterwards; `C04_run_preserved`: a verifying
  piece keeps verifying) are chained here into statements about `run`:

    * `C02_run_eval`        what a run with a non-empty work list computes: `solveAll` started in the state
                            `RB.runSt3 inp` on the order `RunQ.evalOrder (run H inp).work inp.order`;
    * `C02_run_not_failed`  (T1) a piece whose data is available in scan-only files is never reported `notFound`
                            (`C02_run_none_failed`: the counters never count a failed piece);
                            `C02_run_not_failed_needs_wf`: false without `FsWF`;
    * `C02_run_recovered`   (T2) and, if its evaluation is not cut short by an I/O error, it verifies in the final tree
                            and at every interruption point after its evaluation;
                            `C02_run_recovered_needs_nofault`: false without that residual condition;
                            `C02_run_no_fault`, `C02_run_recovered_tree`: the residual condition derived, for fault-free
                            runs, from conditions on the initial tree and the table;
    * `C11_prefix_wf`       the tree at every interruption point of any run is well-formed;
    * `C11_resume_not_failed`, `C11_resume_recovers`, `C11_resume_recovers_tree`
                            (T3) a second run on the tree left by an interrupted or faulty first run recovers every
                            piece that was available in scan-only files before the first run.

  The worlds of the counterexamples and of the non-vacuity examples are in `TB.Lemmas.RunQCex`.
-/
import TB.Spec.ExportSpec
import TB.Lemmas.RunQ
import TB.Lemmas.RunQCex
namespace TB
open TB.RB

/-- the data of work item `w` is present, in tree `fs`, in files that a run with scan directories `scan` and metadata
    table `table` indexes but never modifies: there is one byte string per segment, the concatenation has the piece
    hash, the string of a padding segment is zeros, the string of a zero-length segment is empty, and the string of
    every other segment is what a read of `seg.len` bytes at offset `seg.off` returns from a regular file `(p, i)` of
    `fs` which
      * lies strictly below one of the scan directories (the condition of `C02_run_scan_registered`),
      * has exactly the declared length of the segment's torrent file, and
      * whose inode `i` is not the inode of the export image of any non-padding entry of `table`
        (in a tree with `FsWF` this implies that `p` itself is not such an image: `AvailScan_not_image`). -/
def AvailScan (H : Bytes → Bytes) (fs : Fs) (scan : List PathArg) (table : List TEntry) (w : Work) : Prop :=
  ∃ parts : List Bytes, parts.length = w.segs.length ∧ H parts.flatten = w.hash ∧
    ∀ (k : Nat) (seg : WSeg) (part : Bytes), w.segs[k]? = some seg → parts[k]? = some part →
      (seg.ent.isPad = true → part = List.replicate seg.len 0) ∧
      (seg.ent.isPad = false → seg.len = 0 → part = []) ∧
      (seg.ent.isPad = false → seg.len ≠ 0 →
        ∃ (p : Path) (i : Nat) (d : PathArg), (p, i) ∈ fs.files ∧ d ∈ scan ∧
          (d.path.length < p.length ∧ p.take d.path.length = d.path) ∧
          (fs.content i).length = seg.ent.fileLength ∧
          (∀ e ∈ table, e.isPad = false → fs.inoOf e.fullTarget ≠ some i) ∧
          part = fs.readAt i seg.off seg.len)

/-- in a well-formed tree, a name whose inode is not the inode of any export image is not an export image -/
theorem AvailScan_not_image (fs : Fs) (hwf : FsWF fs) (table : List TEntry) (p : Path) (i : Nat)
    (hmem : (p, i) ∈ fs.files) (hout : ∀ e ∈ table, e.isPad = false → fs.inoOf e.fullTarget ≠ some i) :
    ∀ e ∈ table, e.isPad = false → e.fullTarget ≠ p := by
  intro e he hpad heq
  apply hout e he hpad
  rw [heq]
  exact RunF.look_file_inoOf (RunI.look_of_mem hwf hmem)

/-- what a run with a non-empty work list computes: it went through validation, the resize pre-flight and the
    registration of the export images (the state then is `RB.runSt3 inp`; its tree differs from `inp.fs` at most in
    export images zero-extended by the pre-flight), built the work list from the populated table, and its log, tree,
    counters and result are those of `solveAll` started in that state on the work list in the order
    `RunQ.evalOrder (run H inp).work inp.order` (the observed order if it is a permutation of the work list, the
    default order otherwise). -/
theorem C02_run_eval (H : Bytes → Bytes) (inp : RunIn) (hw : (run H inp).work ≠ []) :
    convertPiecesToWork (run H inp).table (dedupTorrents (sortTorrents inp.torrents)) = some (run H inp).work ∧
    (RunQ.evalOrder (run H inp).work inp.order).Perm (run H inp).work ∧
    (run H inp).ops = (solveAll H (runSt3 inp) (RunQ.evalOrder (run H inp).work inp.order) ⟨0, 0, 0⟩ []).1.ops ∧
    (run H inp).fs = (solveAll H (runSt3 inp) (RunQ.evalOrder (run H inp).work inp.order) ⟨0, 0, 0⟩ []).1.fs ∧
    (run H inp).counters = (solveAll H (runSt3 inp) (RunQ.evalOrder (run H inp).work inp.order) ⟨0, 0, 0⟩ []).2.1 ∧
    (run H inp).result =
      (if (solveAll H (runSt3 inp) (RunQ.evalOrder (run H inp).work inp.order) ⟨0, 0, 0⟩ []).2.2 then .panic
       else .ok ()) := by
  rcases RunQ.run_eval_or H inp with ⟨h0, _⟩ | ⟨_, _, _, _, hconv, h1, h2, h3, h4⟩
  · exact absurd h0 hw
  · exact ⟨hconv, RunQ.evalOrder_perm _ _, h1, h2, h3, h4⟩

/-- T1. In a run on a well-formed tree, a work item whose data is available at the START of the run in scan-only
    files (`AvailScan` on `inp.fs`) is not answered `.notFound` by `solvePiece` when the run evaluates it — at
    whatever position `pre ++ w :: post` of the evaluation order, in the state
    `(solveAll H (runSt3 inp) pre ⟨0,0,0⟩ []).1` left by the pieces evaluated before it (see `C02_run_eval`).

    Assumptions, and why:
    * NO assumption on the fault points (the task asked for `inp.faults = []`; it is not needed): an injected I/O
      error of a candidate read or of the writer makes the answer `.fault`, never `.notFound`; a fault in the set-up
      either ends the run before any piece is evaluated or (a failed read-only open of an export image) only keeps
      that image out of the index, and the walk of the scan directories is not subject to faults in the model;
    * `hwf : FsWF inp.fs` — NOT in the first formulation; the statement is false without it
      (`C02_run_not_failed_needs_wf`): with a name bound twice, the index registers the last binding, reads resolve
      the first;
    * `havail` — availability in scan-only files. Nothing is assumed about `NoAlias`, the layout, the evaluation
      order, the candidate order, the resize flag, or the hash function.
    That `w` is a work item of the run (hence that the run reaches piece evaluation) follows from `hord`. -/
theorem C02_run_not_failed (H : Bytes → Bytes) (inp : RunIn) (hwf : FsWF inp.fs)
    (w : Work) (havail : AvailScan H inp.fs inp.scan (run H inp).table w)
    (pre post : List Work) (hord : RunQ.evalOrder (run H inp).work inp.order = pre ++ w :: post) :
    (solvePiece H (solveAll H (runSt3 inp) pre ⟨0, 0, 0⟩ []).1 w).2 ≠ .notFound := by
  have hmem : ∀ v ∈ pre ++ w :: post, v ∈ (run H inp).work := by
    intro v hv
    rw [← hord] at hv
    exact RunQ.mem_evalOrder.1 hv
  have hw : w ∈ (run H inp).work := hmem w (by simp)
  have F := RunQ.facts H inp (List.ne_nil_of_mem hw)
  exact RunQ.not_failed_at H inp hwf w hw havail _ (RunQ.solveAll_loc H _ pre
    (fun v hv => convertPiecesToWork_ent F.conv v (hmem v (List.mem_append_left _ hv))) _ _ _)

/-- the first formulation of T1 (without `FsWF`) is refuted by the world `TB.RunQ.Cex` (`H = id`): the name `s/f` is
    bound twice; the piece data is in the second binding (a regular file of the right length below the scan
    directory, sharing no inode with an export image), the index registers that binding, but every read of `s/f`
    resolves the first one. Both pieces are reported `notFound`. -/
theorem C02_run_not_failed_needs_wf :
    ¬ (∀ (H : Bytes → Bytes) (inp : RunIn), inp.faults = [] →
        ∀ (w : Work), AvailScan H inp.fs inp.scan (run H inp).table w →
        ∀ (pre post : List Work), RunQ.evalOrder (run H inp).work inp.order = pre ++ w :: post →
          (solvePiece H (solveAll H (runSt3 inp) pre ⟨0, 0, 0⟩ []).1 w).2 ≠ .notFound) := by
  intro h
  exact h id RunQ.Cex.inp rfl RunQ.Ex.w0 RunQ.Cex.avail0 [RunQ.Ex.w1] [] RunQ.Cex.ord RunQ.Cex.w0_notFound

/-- non-vacuity of T1: in the world `TB.RunQ.Ex` (one torrent, two pieces, one scan file, `H = id`) all hypotheses
    hold for both pieces -/
example : (solvePiece id (solveAll id (runSt3 RunQ.Ex.inp) [RunQ.Ex.w1] ⟨0, 0, 0⟩ []).1 RunQ.Ex.w0).2 ≠ .notFound :=
  C02_run_not_failed id RunQ.Ex.inp RunQ.Ex.wf RunQ.Ex.w0 RunQ.Ex.avail0 [RunQ.Ex.w1] [] RunQ.Ex.ord
example : (solvePiece id (solveAll id (runSt3 RunQ.Ex.inp) [] ⟨0, 0, 0⟩ []).1 RunQ.Ex.w1).2 ≠ .notFound :=
  C02_run_not_failed id RunQ.Ex.inp RunQ.Ex.wf RunQ.Ex.w1 RunQ.Ex.avail1 [] [RunQ.Ex.w0] RunQ.Ex.ord

/-- T1 at the level of the counters: if EVERY work item of a run (fault points anywhere) on a well-formed tree is
    available in scan-only files, no counter snapshot of the run counts a failed piece (the other three outcomes —
    found, I/O error, panic — do not touch `failed`). -/
theorem C02_run_none_failed (H : Bytes → Bytes) (inp : RunIn) (hwf : FsWF inp.fs)
    (hall : ∀ w ∈ (run H inp).work, AvailScan H inp.fs inp.scan (run H inp).table w) :
    ∀ c ∈ (run H inp).counters, c.failed = 0 :=
  RunQ.counters_failed_zero H inp hwf hall

/-- T2. Under the hypotheses of T1 and of `C04_run_preserved`, a work item available in scan-only files at the start of
    the run verifies in the FINAL tree of the run — and in the tree at every interruption point after its evaluation
    (every prefix of the log that contains the operations of that evaluation) — provided the run does not die of a panic
    and the one evaluation of `w` at position `pre ++ w :: post` does not end in an I/O error.

    Assumptions, and why:
    * `hwf`, `havail` — as in T1 (`C02_run_not_failed`), which gives "not `.notFound`"; again nothing is assumed of
      the fault points — an injected fault that hits the evaluation of `w` is excluded by `hnofault`, faults elsewhere
      do no harm (`C02_run_no_fault` derives `hnofault` for fault-free runs);
    * `hnopanic : (run H inp).result ≠ .panic` — a panic of an earlier piece ends the run before `w` is evaluated
      (`solveAll` stops); this is the conclusion of `C16_run_total` (it holds whenever all torrents are `Loadable`);
      it also excludes a panic of `w` itself;
    * `hnofault` — the residual condition. Even without fault points `.fault` arises in the writer: `create_dir_all`
      fails when a proper prefix of the target's parent is a regular file, the create-open fails when the target is a
      directory. (The other sources are excluded here: candidate reads do not fail because candidates are regular
      files of a well-formed tree and stay so; the matched bytes are not too short by `hinj`.) It is stated for this
      one evaluation of `w` only;
    * `hna`, `hsame`, `hdisj`, `hinj` — the hypotheses of `C04_run_preserved`, needed for the same reason: once `w`
      verifies, later pieces must not destroy it (`hsame`: `TB.Lemmas.RunKCex`); `hinj` also gives that every buffer
      with the hash of `w` has the length of `w`; `hna` and the second clause of `hdisj` give that the images of the
      segments of `w` are distinct files (`ImagesDistinct`, needed by `C04a_found_verifies`);
    * `hrange : SegsInRange w` — only for `w`;
    * `hzero` — a zero-length segment belongs to an empty file; inherited from `C04a_found_verifies`, where it is
      necessary at piece level (`TB.Lemmas.RunFCex`); a fact of the layout (C06). -/
theorem C02_run_recovered (H : Bytes → Bytes) (inp : RunIn) (hwf : FsWF inp.fs)
    (hna : NoAlias inp.fs (run H inp).table)
    (hsame : ∀ e ∈ (run H inp).table, ∀ f ∈ (run H inp).table, e.isPad = false → f.isPad = false →
      e.fullTarget = f.fullTarget → e.fileLength = f.fileLength)
    (hdisj : RangesDisjoint (run H inp).work) (hinj : HInjOn H (run H inp).work)
    (w : Work) (hrange : SegsInRange w) (hzero : ∀ s ∈ w.segs, s.len = 0 → s.ent.fileLength = 0)
    (havail : AvailScan H inp.fs inp.scan (run H inp).table w)
    (hnopanic : (run H inp).result ≠ .panic)
    (pre post : List Work) (hord : RunQ.evalOrder (run H inp).work inp.order = pre ++ w :: post)
    (hnofault : (solvePiece H (solveAll H (runSt3 inp) pre ⟨0, 0, 0⟩ []).1 w).2 ≠ .fault) :
    VerE H (run H inp).fs w ∧
    ∀ n, (solvePiece H (solveAll H (runSt3 inp) pre ⟨0, 0, 0⟩ []).1 w).1.ops.length ≤ n →
      VerE H (replay inp.fs ((run H inp).ops.take n)) w := by
  have hmem : ∀ v ∈ pre ++ w :: post, v ∈ (run H inp).work := by
    intro v hv
    rw [← hord] at hv
    exact RunQ.mem_evalOrder.1 hv
  have hw : w ∈ (run H inp).work := hmem w (by simp)
  have F := RunQ.facts H inp (List.ne_nil_of_mem hw)
  obtain ⟨_, _, hops, hfs, _, hres⟩ := C02_run_eval H inp (List.ne_nil_of_mem hw)
  -- the run does not panic: the evaluation can be cut at `w`
  have hflag : (solveAll H (runSt3 inp) (pre ++ w :: post) ⟨0, 0, 0⟩ []).2.2 = false := by
    rw [hord] at hres
    cases hb : (solveAll H (runSt3 inp) (pre ++ w :: post) ⟨0, 0, 0⟩ []).2.2 with
    | false => rfl
    | true => rw [hb] at hres; exact absurd hres hnopanic
  obtain ⟨hnp, c', acc', hcut⟩ := RunQ.solveAll_cut H pre w post (runSt3 inp) ⟨0, 0, 0⟩ [] hflag
  have hnf := C02_run_not_failed H inp hwf w havail pre post hord
  have hfound : (solvePiece H (solveAll H (runSt3 inp) pre ⟨0, 0, 0⟩ []).1 w).2 = .found := by
    cases hr : (solvePiece H (solveAll H (runSt3 inp) pre ⟨0, 0, 0⟩ []).1 w).2 with
    | found => rfl
    | notFound => exact absurd hr hnf
    | fault => exact absurd hr hnofault
    | panic => exact absurd hr hnp
  -- the state in which `w` is evaluated
  have hloc : RunF.Loc (RunQ.Timg (run H inp).table) (runSt3 inp).fs (solveAll H (runSt3 inp) pre ⟨0, 0, 0⟩ []).1.fs :=
    RunQ.solveAll_loc H _ pre
      (fun v hv => convertPiecesToWork_ent F.conv v (hmem v (List.mem_append_left _ hv))) _ _ _
  have hreach : RD.Reach ⟨inp.fs, [], inp.faults⟩ (solveAll H (runSt3 inp) pre ⟨0, 0, 0⟩ []).1 :=
    (RunQ.reach_st3 inp).trans (RD.solveAll_reach H pre _ _ _)
  -- every buffer with the hash of `w` has the length of `w`
  have hlen : ∀ b, H b = w.hash → b.length = (w.segs.map (·.len)).sum := by
    obtain ⟨parts, hl, hh, hp⟩ := havail
    intro b hb
    rw [hinj w hw b parts.flatten hb hh]
    exact RunQ.avail_length (H := H) hrange hl hp
  -- the rest of the run
  obtain ⟨_, new, hnew, hfsnew⟩ := RD.solveAll_reach H post
    (solvePiece H (solveAll H (runSt3 inp) pre ⟨0, 0, 0⟩ []).1 w).1 c' acc'
  rw [← hcut, ← hord, ← hops] at hnew
  rw [← hcut, ← hord, ← hfs, ← RunQ.replay_eq_replayD] at hfsnew
  have hinit := (hreach.trans (RD.solvePiece_reach H _ w)).replay_init
  rw [← RunQ.replay_eq_replayD] at hinit
  have key : ∀ ops : List Op, (∀ o ∈ ops, o ∈ new) →
      VerE H (replay (solvePiece H (solveAll H (runSt3 inp) pre ⟨0, 0, 0⟩ []).1 w).1.fs ops) w := by
    intro ops hsub
    refine RunQ.recovered_at H inp hwf hna hsame hdisj hinj w hw hrange hzero hlen _ hreach hloc hfound ops ?_
    intro o ho
    rw [hnew]
    exact List.mem_append_right _ (hsub o ho)
  refine ⟨by rw [hfsnew]; exact key new (fun _ h => h), ?_⟩
  intro n hn
  rw [hnew, List.take_append, List.take_of_length_le hn, RunQ.replay_append, ← hinit]
  exact key _ (fun _ h => List.mem_of_mem_take h)

/-- T2 without its residual condition `hnofault` is refuted by the world `TB.RunQ.Dir` (`H = id`): every other hypothesis
    holds, but the export image exists as a directory; both pieces are matched from the scan file, the create-open of
    the image fails, the pieces end in `.fault` and do not verify. -/
theorem C02_run_recovered_needs_nofault :
    ¬ (∀ (H : Bytes → Bytes) (inp : RunIn), inp.faults = [] → FsWF inp.fs → NoAlias inp.fs (run H inp).table →
        (∀ e ∈ (run H inp).table, ∀ f ∈ (run H inp).table, e.isPad = false → f.isPad = false →
          e.fullTarget = f.fullTarget → e.fileLength = f.fileLength) →
        RangesDisjoint (run H inp).work → HInjOn H (run H inp).work →
        ∀ (w : Work), SegsInRange w → (∀ s ∈ w.segs, s.len = 0 → s.ent.fileLength = 0) →
          AvailScan H inp.fs inp.scan (run H inp).table w → (run H inp).result ≠ .panic →
          ∀ (pre post : List Work), RunQ.evalOrder (run H inp).work inp.order = pre ++ w :: post →
            VerE H (run H inp).fs w) := by
  intro h
  exact RunQ.Dir.w0_not_ver (h id RunQ.Dir.inp rfl RunQ.Dir.wf RunQ.Dir.noAlias RunQ.Dir.sameLen RunQ.Dir.disj
    RunQ.Dir.hinj RunQ.Ex.w0 RunQ.Ex.range0 RunQ.Ex.zero0 RunQ.Dir.avail0 RunQ.Dir.nopanic [RunQ.Ex.w1] []
    RunQ.Dir.ord)

/-- the residual condition of T2 derived from conditions on the initial tree and the table. Without fault points the
    evaluation of an available work item does not end in `.fault` if
    * `hwr` — in the initial tree the export image of every non-padding segment of `w` is a regular file or absent
      with nothing in the way: `look` answers neither ENOTDIR (a proper prefix is a regular file: `create_dir_all`
      fails) nor "directory" (the create-open fails with EISDIR);
    * `hnest` — no export image of the run's table is a proper prefix of such an image or the other way round (a
      torrent that lists both `a` and `a/b` as files makes whichever is written second fail);
    * `hinjw`, `hrange`, `havail` — every buffer with the hash of `w` has the length of `w` (otherwise the writer
      reports the matched bytes as too short);
    * `hfa`, `hwf` — as in T1 (candidate reads do not fail: candidates are regular files and stay so). -/
theorem C02_run_no_fault (H : Bytes → Bytes) (inp : RunIn) (hfa : inp.faults = []) (hwf : FsWF inp.fs)
    (w : Work) (hinjw : ∀ b b', H b = w.hash → H b' = w.hash → b = b') (hrange : SegsInRange w)
    (havail : AvailScan H inp.fs inp.scan (run H inp).table w)
    (hwr : ∀ s ∈ w.segs, s.ent.isPad = false →
      inp.fs.look s.ent.fullTarget ≠ .notDir ∧ inp.fs.look s.ent.fullTarget ≠ .dir)
    (hnest : ∀ s ∈ w.segs, s.ent.isPad = false → ∀ e ∈ (run H inp).table, e.isPad = false →
      e.fullTarget ∉ Fs.properPrefixes s.ent.fullTarget ∧ s.ent.fullTarget ∉ Fs.properPrefixes e.fullTarget)
    (pre post : List Work) (hord : RunQ.evalOrder (run H inp).work inp.order = pre ++ w :: post) :
    (solvePiece H (solveAll H (runSt3 inp) pre ⟨0, 0, 0⟩ []).1 w).2 ≠ .fault := by
  have hmem : ∀ v ∈ pre ++ w :: post, v ∈ (run H inp).work := by
    intro v hv
    rw [← hord] at hv
    exact RunQ.mem_evalOrder.1 hv
  have hw : w ∈ (run H inp).work := hmem w (by simp)
  have F := RunQ.facts H inp (List.ne_nil_of_mem hw)
  have hent := convertPiecesToWork_ent F.conv w hw
  obtain ⟨_, _, hops, _⟩ := C02_run_eval H inp (List.ne_nil_of_mem hw)
  have hloc : RunF.Loc (RunQ.Timg (run H inp).table) (runSt3 inp).fs (solveAll H (runSt3 inp) pre ⟨0, 0, 0⟩ []).1.fs :=
    RunQ.solveAll_loc H _ pre
      (fun v hv => convertPiecesToWork_ent F.conv v (hmem v (List.mem_append_left _ hv))) _ _ _
  have hreach : RD.Reach ⟨inp.fs, [], inp.faults⟩ (solveAll H (runSt3 inp) pre ⟨0, 0, 0⟩ []).1 :=
    (RunQ.reach_st3 inp).trans (RD.solveAll_reach H pre _ _ _)
  have hst : (solveAll H (runSt3 inp) pre ⟨0, 0, 0⟩ []).1.faults = [] :=
    ((RD.solveAll_reach H pre _ _ _).faults.trans F.faults).trans hfa
  have hsub : ∀ o ∈ (solveAll H (runSt3 inp) pre ⟨0, 0, 0⟩ []).1.ops, o ∈ (run H inp).ops := by
    intro o ho
    rw [hops, hord]
    exact RunQ.solveAll_ops_prefix H pre _ _ _ _ o ho
  refine RunQ.solvePiece_no_fault H _ w hst ?_ ?_ ?_ ?_
  · exact fun s hs paths hps p hp => RunQ.candidates_files H inp F hwf _ hloc s.ent (hent s hs) paths hps p hp
  · obtain ⟨parts, hl, hh, hp⟩ := havail
    intro b hb
    rw [hinjw b parts.flatten hb hh]
    exact RunQ.avail_length (H := H) hrange hl hp
  · intro s hs hp
    exact RunQ.wr_at H inp _ hreach hsub _ (RunQ.Wr_iff_look.2 (hwr s hs hp)) (hnest s hs hp)
  · intro s hs t ht hps hpt
    exact (hnest t ht hpt s.ent (hent s hs) hps).1

/-- T2 with the residual condition stated on the initial tree and the table (`C02_run_recovered` and
    `C02_run_no_fault` combined): see there for the hypotheses. -/
theorem C02_run_recovered_tree (H : Bytes → Bytes) (inp : RunIn) (hfa : inp.faults = []) (hwf : FsWF inp.fs)
    (hna : NoAlias inp.fs (run H inp).table)
    (hsame : ∀ e ∈ (run H inp).table, ∀ f ∈ (run H inp).table, e.isPad = false → f.isPad = false →
      e.fullTarget = f.fullTarget → e.fileLength = f.fileLength)
    (hdisj : RangesDisjoint (run H inp).work) (hinj : HInjOn H (run H inp).work)
    (w : Work) (hrange : SegsInRange w) (hzero : ∀ s ∈ w.segs, s.len = 0 → s.ent.fileLength = 0)
    (havail : AvailScan H inp.fs inp.scan (run H inp).table w)
    (hnopanic : (run H inp).result ≠ .panic)
    (hwr : ∀ s ∈ w.segs, s.ent.isPad = false →
      inp.fs.look s.ent.fullTarget ≠ .notDir ∧ inp.fs.look s.ent.fullTarget ≠ .dir)
    (hnest : ∀ s ∈ w.segs, s.ent.isPad = false → ∀ e ∈ (run H inp).table, e.isPad = false →
      e.fullTarget ∉ Fs.properPrefixes s.ent.fullTarget ∧ s.ent.fullTarget ∉ Fs.properPrefixes e.fullTarget)
    (hw : w ∈ (run H inp).work) :
    VerE H (run H inp).fs w := by
  obtain ⟨pre, post, hord⟩ := List.append_of_mem (RunQ.mem_evalOrder.2 hw)
  exact (C02_run_recovered H inp hwf hna hsame hdisj hinj w hrange hzero havail hnopanic pre post hord
    (C02_run_no_fault H inp hfa hwf w (hinj w hw) hrange havail hwr hnest pre post hord)).1

/-- non-vacuity of T2: in the world `TB.RunQ.Ex` all hypotheses hold (for the piece evaluated second) -/
example : VerE id (run id RunQ.Ex.inp).fs RunQ.Ex.w0 :=
  (C02_run_recovered id RunQ.Ex.inp RunQ.Ex.wf RunQ.Ex.noAlias RunQ.Ex.sameLen RunQ.Ex.disj RunQ.Ex.hinj
    RunQ.Ex.w0 RunQ.Ex.range0 RunQ.Ex.zero0 RunQ.Ex.avail0 RunQ.Ex.nopanic [RunQ.Ex.w1] [] RunQ.Ex.ord
    RunQ.Ex.nofault0).1

/-- non-vacuity of `C02_run_recovered_tree`: the tree-level residual conditions hold in `TB.RunQ.Ex` as well -/
example : VerE id (run id RunQ.Ex.inp).fs RunQ.Ex.w1 :=
  C02_run_recovered_tree id RunQ.Ex.inp rfl RunQ.Ex.wf RunQ.Ex.noAlias RunQ.Ex.sameLen RunQ.Ex.disj RunQ.Ex.hinj
    RunQ.Ex.w1 RunQ.Ex.range1 RunQ.Ex.zero1 RunQ.Ex.avail1 RunQ.Ex.nopanic
    (by decide +kernel) (by rw [RunQ.Ex.run_table]; decide +kernel) (by rw [RunQ.Ex.run_work]; decide +kernel)

/-! ### resuming after an interrupted or faulty run -/

/-- the tree at every interruption point of any run (faults anywhere, any crash point `n`) on a well-formed tree is
    well-formed: directories are created before the files in them, at every instant -/
theorem C11_prefix_wf (H : Bytes → Bytes) (inp : RunIn) (hwf : FsWF inp.fs) (n : Nat) :
    FsWF (replay inp.fs ((run H inp).ops.take n)) :=
  RunQ.run_prefix_wf H inp hwf n

/-- the input of a second run on the tree an earlier run `inp` left when it was interrupted after `n` logged operations
    (`n ≥` the length of the log: the first run finished); the second run may observe another candidate order `obs'`
    and another evaluation order `ord'`, and has its own fault points `flts'` (`[]` for a fault-free second run) -/
def resumeIn (H : Bytes → Bytes) (inp : RunIn) (n : Nat) (obs' : List (Nat × List Path))
    (ord' : List (List (Nat × Nat × Nat) × Bytes)) (flts' : List Nat) : RunIn :=
  { inp with fs := replay inp.fs ((run H inp).ops.take n), faults := flts', searchObs := obs', order := ord' }

/-- T3, first half. Whatever the first run did (fault points anywhere, interrupted after any number `n` of logged
    operations), a second run `resumeIn H inp n obs' ord' flts'` (fault-free or not) does not report `.notFound` for any
    work item whose data was available in scan-only files at the start of the FIRST run.

    Availability refers to the table built from the torrents, `runTable0 inp` (both runs build it; the table in the
    output of the first run is empty if that run stopped early). Assumptions: `hwf` (as in T1; it carries over to the
    interruption point by `C11_prefix_wf`) and `hna : NoAlias inp.fs (runTable0 inp)` (needed by `C03_frame`: an export
    image hard-linked to a scan file would let the first run overwrite that file). -/
theorem C11_resume_not_failed (H : Bytes → Bytes) (inp : RunIn) (n : Nat) (obs' : List (Nat × List Path))
    (ord' : List (List (Nat × Nat × Nat) × Bytes)) (flts' : List Nat) (hwf : FsWF inp.fs)
    (hna : NoAlias inp.fs (runTable0 inp))
    (w : Work) (havail : AvailScan H inp.fs inp.scan (runTable0 inp) w) (pre post : List Work)
    (hord : RunQ.evalOrder (run H (resumeIn H inp n obs' ord' flts')).work ord' = pre ++ w :: post) :
    (solvePiece H (solveAll H (runSt3 (resumeIn H inp n obs' ord' flts')) pre ⟨0, 0, 0⟩ []).1 w).2 ≠ .notFound := by
  refine C02_run_not_failed H (resumeIn H inp n obs' ord' flts') (C11_prefix_wf H inp hwf n) w ?_ pre post hord
  exact RunQ.avail_transport H inp hwf hna n _ (RunQ.run_table_sub H (resumeIn H inp n obs' ord' flts')) w havail

/-- T3. ... and the second run recovers it: the piece verifies in the final tree of the second run, under the
    hypotheses of T2 for the second run. `FsWF` and `NoAlias` are assumed of the tree before the FIRST run only (they
    carry over to the interruption point); the layout facts (`hsame`, `hdisj`, `hinj`, `hrange`, `hzero`) do not depend
    on the tree and are stated for the second run's table and work list; `hnopanic` and `hnofault` are the residual
    conditions of T2 for the second run. -/
theorem C11_resume_recovers (H : Bytes → Bytes) (inp : RunIn) (n : Nat) (obs' : List (Nat × List Path))
    (ord' : List (List (Nat × Nat × Nat) × Bytes)) (flts' : List Nat) (hwf : FsWF inp.fs)
    (hna : NoAlias inp.fs (runTable0 inp))
    (hsame : ∀ e ∈ (run H (resumeIn H inp n obs' ord' flts')).table,
      ∀ f ∈ (run H (resumeIn H inp n obs' ord' flts')).table,
      e.isPad = false → f.isPad = false → e.fullTarget = f.fullTarget → e.fileLength = f.fileLength)
    (hdisj : RangesDisjoint (run H (resumeIn H inp n obs' ord' flts')).work)
    (hinj : HInjOn H (run H (resumeIn H inp n obs' ord' flts')).work)
    (w : Work) (hrange : SegsInRange w) (hzero : ∀ s ∈ w.segs, s.len = 0 → s.ent.fileLength = 0)
    (havail : AvailScan H inp.fs inp.scan (runTable0 inp) w)
    (hnopanic : (run H (resumeIn H inp n obs' ord' flts')).result ≠ .panic)
    (pre post : List Work)
    (hord : RunQ.evalOrder (run H (resumeIn H inp n obs' ord' flts')).work ord' = pre ++ w :: post)
    (hnofault :
      (solvePiece H (solveAll H (runSt3 (resumeIn H inp n obs' ord' flts')) pre ⟨0, 0, 0⟩ []).1 w).2 ≠ .fault) :
    VerE H (run H (resumeIn H inp n obs' ord' flts')).fs w := by
  have hsub := RunQ.run_table_sub H (resumeIn H inp n obs' ord' flts')
  have S := RunQ.sinv_replay (table := (run H (resumeIn H inp n obs' ord' flts')).table) hwf
    (RunQ.noAl_sub hna hsub) ((run H inp).ops.take n)
  exact (C02_run_recovered H (resumeIn H inp n obs' ord' flts') (C11_prefix_wf H inp hwf n) S.na hsame hdisj hinj w
    hrange hzero (RunQ.avail_transport H inp hwf hna n _ hsub w havail) hnopanic pre post hord hnofault).1

/-- T3 with the residual condition of the second run stated on the tree before the FIRST run and on the static table
    (`C11_resume_recovers` and `C02_run_no_fault` combined): the export images of the segments of `w` are regular files
    or absent with nothing in the way (`hwr`), and are not nested with any export image of the table (`hnest`). Both
    carry over to every interruption point of the first run, because a run creates nothing but export images and the
    directories above them. -/
theorem C11_resume_recovers_tree (H : Bytes → Bytes) (inp : RunIn) (n : Nat) (obs' : List (Nat × List Path))
    (ord' : List (List (Nat × Nat × Nat) × Bytes)) (hwf : FsWF inp.fs) (hna : NoAlias inp.fs (runTable0 inp))
    (hsame : ∀ e ∈ (run H (resumeIn H inp n obs' ord' [])).table, ∀ f ∈ (run H (resumeIn H inp n obs' ord' [])).table,
      e.isPad = false → f.isPad = false → e.fullTarget = f.fullTarget → e.fileLength = f.fileLength)
    (hdisj : RangesDisjoint (run H (resumeIn H inp n obs' ord' [])).work)
    (hinj : HInjOn H (run H (resumeIn H inp n obs' ord' [])).work)
    (w : Work) (hw : w ∈ (run H (resumeIn H inp n obs' ord' [])).work)
    (hrange : SegsInRange w) (hzero : ∀ s ∈ w.segs, s.len = 0 → s.ent.fileLength = 0)
    (havail : AvailScan H inp.fs inp.scan (runTable0 inp) w)
    (hnopanic : (run H (resumeIn H inp n obs' ord' [])).result ≠ .panic)
    (hwr : ∀ s ∈ w.segs, s.ent.isPad = false →
      inp.fs.look s.ent.fullTarget ≠ .notDir ∧ inp.fs.look s.ent.fullTarget ≠ .dir)
    (hnest : ∀ s ∈ w.segs, s.ent.isPad = false → ∀ e ∈ runTable0 inp, e.isPad = false →
      e.fullTarget ∉ Fs.properPrefixes s.ent.fullTarget ∧ s.ent.fullTarget ∉ Fs.properPrefixes e.fullTarget) :
    VerE H (run H (resumeIn H inp n obs' ord' [])).fs w := by
  have hsub := RunQ.run_table_sub H (resumeIn H inp n obs' ord' [])
  have S := RunQ.sinv_replay (table := (run H (resumeIn H inp n obs' ord' [])).table) hwf
    (RunQ.noAl_sub hna hsub) ((run H inp).ops.take n)
  refine C02_run_recovered_tree H (resumeIn H inp n obs' ord' []) rfl (C11_prefix_wf H inp hwf n) S.na hsame hdisj hinj
    w hrange hzero (RunQ.avail_transport H inp hwf hna n _ hsub w havail) hnopanic ?_ ?_ hw
  · intro s hs hp
    refine RunQ.Wr_iff_look.1 (RunQ.wr_replay H inp _ (fun _ h => List.mem_of_mem_take h) _
      (RunQ.Wr_iff_look.2 (hwr s hs hp)) ?_)
    intro e he hpe
    obtain ⟨e0, he0, x, rfl⟩ := RunQ.run_table_sub H inp e he
    exact hnest s hs hp e0 he0 hpe
  · intro s hs hp e he hpe
    obtain ⟨e0, he0, x, rfl⟩ := hsub e he
    exact hnest s hs hp e0 he0 hpe

/-- non-vacuity of T3: the world `TB.RunQ.Resume` — a first run with a fault point (one piece ends in `.fault`, its image
    is left as zeros), interrupted after 12 operations; the second run recovers the piece -/
example : VerE id (run id (resumeIn id RunQ.Resume.inpF 12 [] [] [])).fs RunQ.Resume.w0' :=
  C11_resume_recovers id RunQ.Resume.inpF 12 [] [] [] RunQ.Ex.wf RunQ.Resume.noAlias0 RunQ.Resume.sameLen
    RunQ.Resume.disj RunQ.Resume.hinj RunQ.Resume.w0' RunQ.Resume.range0 RunQ.Resume.zero0 RunQ.Resume.avail0
    RunQ.Resume.nopanic [RunQ.Resume.w1'] [] RunQ.Resume.ord RunQ.Resume.nofault0

end TB
