/-
  C09 (promptness) — decoding takes a number of elementary steps linear in the length of the input, whatever
  numbers the input contains: no length prefix, integer or nesting depth written in the input drives a loop.
-/
import TB.Spec.CostSpec
import TB.Lemmas.Cost
namespace TB.Cost
open TB

/-- the step-counting decoder computes exactly what the model decoder computes -/
theorem C09_cost_faithful (inp : Bytes) : (decodeC inp).1 = decode inp := by
  sorry

/-- and it never takes more than `8·|inp| + 8` steps -/
theorem C09_decode_cost_linear (inp : Bytes) : (decodeC inp).2 ≤ 8 * inp.length + 8 := by
  sorry

end TB.Cost
