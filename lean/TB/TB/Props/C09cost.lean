/-
  C09 (promptness) — decoding takes a number of elementary steps linear in the length of the input, whatever
  numbers the input contains: no length prefix, integer or nesting depth written in the input drives a loop.
-/
import TB.Spec.CostSpec
import TB.Lemmas.Cost
namespace TB
open TB.Cost

/-- the step-counting decoder computes exactly what the model decoder computes -/
theorem C09_cost_faithful (inp : Bytes) : (decodeC inp).1 = decode inp :=
  decodeC_fst inp

/-- and it never takes more than `2·|inp| + 2` steps (attained by the empty input) -/
theorem C09_decode_cost_linear (inp : Bytes) : (decodeC inp).2 ≤ 2 * inp.length + 2 :=
  decodeC_cost inp

end TB
