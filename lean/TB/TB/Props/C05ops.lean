/-
  TB.Props.C05ops — critical sections of different workers interleaved at the granularity of single file operations.

  `C05writes` treats a whole critical section (`Fs.crit`: create_dir_all; open; set_len; write) as ONE atomic step.
  In the tool only sections on the SAME file exclude one another (per-file lock); sections of different workers on
  DIFFERENT files interleave at the granularity of single file operations. Here: the op-level machine
  (`Thr.step`, `runSched`, TB.Lemmas.RunOps), and the theorems that this finer interleaving changes nothing:

  * `C05_ops_one_thread`       one worker stepped four times is `Fs.crit`;
  * `C05_ops_no_failure`       no schedule makes an operation fail;
  * `C05_ops_any_interleaving` every schedule that finishes all workers leaves a tree observationally equivalent to
                               the result of the sequential execution;
  * `C05_ops_completes`        a schedule that gives every worker at least four steps finishes all workers;
  * `C05_ops_same_target_cex`  without the per-file lock (same target, different declared lengths) an op-level
                               interleaving can differ from both sequential orders.

  Hypotheses of the three main theorems: the starting tree is well-formed; the sections have pairwise different
  targets and are pairwise `SecComp` (writes inside the declared length; existing targets do not share an inode);
  the sequential execution `fs.crits secs` succeeds.
  Proof: an invariant (`RunOps.Inv`) relating every reachable op-level state to the starting tree, kept by every
  single operation (`RunOps.inv_step`); two reachable states with all workers `.done` have the same `view`
  (`RunOps.view_eq_of_done`); the sequential execution is itself a schedule (`RunOps.run_seq`).
-/
import TB.Lemmas.RunOps
import TB.Props.C05writes
namespace TB
open TB.RunX TB.RunOps

/-- ONE worker, run four times from `.mk`, is exactly the atomic critical section `Fs.crit` -/
theorem C05_ops_one_thread (fs : Fs) (s : Sec) (r : Fs) :
    fs.crit s.t s.L s.off s.d = some r ↔ runSched fs [⟨s, .mk⟩] [0, 0, 0, 0] = (r, [⟨s, .done⟩]) :=
  one_thread fs s r

/-- WHY the per-file lock is needed: two sections on the SAME target with different declared lengths
    (`A = (tx, L 1, off 0, [5])`, `B = (tx, L 3, off 1, [7])`), interleaved at operation level
    (`B.set_len 3; A.set_len 1; B.write; A.write`), leave `[5, 7]` in the file, while `A; B` leaves `[5, 7, 0]` and
    `B; A` leaves `[5]`: the result of the interleaving differs from BOTH sequential orders.
    (For EQUAL `L` and both writes inside `L` there is no such counterexample: `set_len L` is idempotent and commutes
    with a write inside `L` (`C05_setLen_idem`, `C05_setLen_writeAt_commute`), so an interleaving leaves what the
    sequential order with the same order of the two writes leaves. This remark is not proved here.) -/
theorem C05_ops_same_target_cex :
    let fs0 : Fs := ⟨[], [], [], 0⟩
    let tx : Path := [[100], [120]]
    let A : Sec := ⟨tx, 1, 0, [5]⟩
    let B : Sec := ⟨tx, 3, 1, [7]⟩
    let fin := runSched fs0 (initThrs [A, B]) [0, 1, 0, 1, 1, 0, 1, 0]
    (∀ th ∈ fin.2, th.pc = .done) ∧
    fin.1.content 0 = [5, 7] ∧
    (∃ r, fs0.crits [A, B] = some r ∧ r.inoOf tx = some 0 ∧ r.content 0 = [5, 7, 0] ∧ ¬ ObsEq fin.1 r) ∧
    (∃ r, fs0.crits [B, A] = some r ∧ r.inoOf tx = some 0 ∧ r.content 0 = [5] ∧ ¬ ObsEq fin.1 r) := by
  intro fs0 tx A B fin
  have hfin : fin = (⟨[(tx, 0)], [[[100]]], [(0, [5, 7])], 1⟩, [⟨A, .done⟩, ⟨B, .done⟩]) := by decide +kernel
  have h1 : fs0.crits [A, B] = some ⟨[(tx, 0)], [[[100]]], [(0, [5, 7, 0])], 1⟩ := by decide +kernel
  have h2 : fs0.crits [B, A] = some ⟨[(tx, 0)], [[[100]]], [(0, [5])], 1⟩ := by decide +kernel
  rw [hfin]
  refine ⟨by decide +kernel, by decide +kernel, ⟨_, h1, by decide +kernel, by decide +kernel, ?_⟩,
    ⟨_, h2, by decide +kernel, by decide +kernel, ?_⟩⟩
  · intro h
    exact absurd (h.2.2.1 tx 0 0 (by decide +kernel) (by decide +kernel)) (by decide +kernel)
  · intro h
    exact absurd (h.2.2.1 tx 0 0 (by decide +kernel) (by decide +kernel)) (by decide +kernel)

/-- NO FAILURE: under the hypotheses, for every schedule, no worker is ever `.failed` — every `create_dir_all`
    and every open succeeds, whatever the other workers have done in between -/
theorem C05_ops_no_failure (fs : Fs) (hwf : FsWF fs) (secs : List Sec) (r : Fs)
    (hd : secs.Pairwise (fun a b => a.t ≠ b.t)) (hc : secs.Pairwise (SecComp fs))
    (hr : fs.crits secs = some r) (sched : List Nat) :
    ∀ th ∈ (runSched fs (initThrs secs) sched).2, th.pc ≠ .failed :=
  let H := hyp_of_seq hwf hd hc hr
  (inv_run H sched (inv_init H)).nofail

/-- ANY INTERLEAVING: every schedule after which every worker is `.done` leaves a tree observationally equivalent
    to the result `r` of the sequential execution. (Not equal in general: the inode numbers of created files depend
    on the order of the opens; see the example below.) -/
theorem C05_ops_any_interleaving (fs : Fs) (hwf : FsWF fs) (secs : List Sec) (r : Fs)
    (hd : secs.Pairwise (fun a b => a.t ≠ b.t)) (hc : secs.Pairwise (SecComp fs))
    (hr : fs.crits secs = some r) (sched : List Nat)
    (hdone : ∀ th ∈ (runSched fs (initThrs secs) sched).2, th.pc = .done) :
    ObsEq (runSched fs (initThrs secs) sched).1 r := by
  have H := hyp_of_seq hwf hd hc hr
  have I1 := inv_run H sched (inv_init H)
  have I2 := inv_run H (seqSched 0 secs.length) (inv_init H)
  have hs := run_seq secs fs r [] hr
  simp only [List.nil_append, List.length_nil] at hs
  rw [hs] at I2
  refine (obsEq_iff_view _ _).2 (view_eq_of_done H I1 I2 hdone ?_)
  intro th hth
  obtain ⟨s, _, rfl⟩ := List.mem_map.1 hth
  rfl

/-- the same, on the observable parts -/
theorem C05_ops_any_interleaving_view (fs : Fs) (hwf : FsWF fs) (secs : List Sec) (r : Fs)
    (hd : secs.Pairwise (fun a b => a.t ≠ b.t)) (hc : secs.Pairwise (SecComp fs))
    (hr : fs.crits secs = some r) (sched : List Nat)
    (hdone : ∀ th ∈ (runSched fs (initThrs secs) sched).2, th.pc = .done) :
    view (runSched fs (initThrs secs) sched).1 = view r :=
  (obsEq_iff_view _ _).1 (C05_ops_any_interleaving fs hwf secs r hd hc hr sched hdone)

/-- COMPLETION: a schedule in which every worker index occurs at least four times leaves every worker `.done`
    (so `C05_ops_any_interleaving` is not vacuous: every fair-enough schedule qualifies) -/
theorem C05_ops_completes (fs : Fs) (hwf : FsWF fs) (secs : List Sec) (r : Fs)
    (hd : secs.Pairwise (fun a b => a.t ≠ b.t)) (hc : secs.Pairwise (SecComp fs))
    (hr : fs.crits secs = some r) (sched : List Nat)
    (hfair : ∀ k, k < secs.length → 4 ≤ sched.count k) :
    ∀ th ∈ (runSched fs (initThrs secs) sched).2, th.pc = .done := by
  have H := hyp_of_seq hwf hd hc hr
  have I0 := inv_init H
  have I1 := inv_run H sched I0
  intro th hth
  obtain ⟨k, hk⟩ := List.getElem?_of_mem hth
  have hlen : (runSched fs (initThrs secs) sched).2.length = secs.length := by
    have := congrArg List.length I1.secs
    rw [List.length_map] at this
    exact this
  have hklt : k < secs.length := by
    rcases Nat.lt_or_ge k secs.length with h | h
    · exact h
    · rw [List.getElem?_eq_none (by omega)] at hk; cases hk
  have h0 : (initThrs secs)[k]? = some ⟨secs[k], .mk⟩ := by
    simp [initThrs, hklt]
  obtain ⟨th', e1, e2⟩ := run_progress H sched I0 k _ h0
  rw [hk] at e1; cases e1
  have h4 := hfair k hklt
  have hr4 : 4 ≤ rank th.pc := by
    have : rank SecPc.mk = 0 := rfl
    rw [this] at e2
    omega
  have hnf := I1.nofail th hth
  cases hp : th.pc <;> rw [hp] at hr4 hnf <;> simp [rank] at hr4 hnf ⊢

open C05w in
/-- the hypotheses are satisfiable and the conclusion is not an equality: two workers, targets `[[100],[120]]` and
    `[[100],[121]]` (both new, same new parent directory), empty tree, worker 1 opens first. All workers finish, the
    tree differs from the sequential result (the inode numbers are exchanged), and it is observationally
    equivalent to it. -/
example :
    let secs : List Sec := [⟨[[100], [120]], 2, 0, [5]⟩, ⟨[[100], [121]], 2, 1, [7]⟩]
    let sched : List Nat := [1, 0, 1, 0, 0, 1, 1, 0]
    let fin := runSched fs0 (initThrs secs) sched
    FsWF fs0 ∧ secs.Pairwise (fun a b => a.t ≠ b.t) ∧ secs.Pairwise (SecComp fs0) ∧
    (∀ k, k < secs.length → 4 ≤ sched.count k) ∧
    ∃ r, fs0.crits secs = some r ∧ (∀ th ∈ fin.2, th.pc = .done) ∧ fin.1 ≠ r ∧ ObsEq fin.1 r := by
  intro secs sched fin
  have hd : secs.Pairwise (fun a b => a.t ≠ b.t) := by decide
  have hc : secs.Pairwise (SecComp fs0) := by
    simp only [secs, List.pairwise_cons, List.mem_singleton, forall_eq, List.not_mem_nil, false_imp_iff,
      implies_true, List.Pairwise.nil, and_true]
    exact ⟨by decide, by decide, fun h => absurd h (by decide), fun _ i j h => by cases h⟩
  have hr : fs0.crits secs = some ⟨[([[100], [121]], 1), ([[100], [120]], 0)], [[[100]]],
      [(1, [0, 7]), (0, [5, 0])], 2⟩ := by decide +kernel
  have hfair : ∀ k, k < secs.length → 4 ≤ sched.count k := by decide
  refine ⟨wf0, hd, hc, hfair, _, hr, by decide +kernel, by decide +kernel, ?_⟩
  exact C05_ops_any_interleaving fs0 wf0 secs _ hd hc hr sched
    (C05_ops_completes fs0 wf0 secs _ hd hc hr sched hfair)

end TB
