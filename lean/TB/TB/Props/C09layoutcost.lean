/-
  C09 (promptness), layout part — computing the piece layout takes a number of elementary steps linear in
  (number of piece hashes + number of files), whatever the piece length and the declared file lengths are:
  the layout loops are driven by the hash list and by the file cursor, never by a length written in the input
  (piece length 1 with a declared length of 2^64 costs 8 steps per hash, like any other piece length).
  What a step is: see TB/Spec/LayoutCost.lean (loop tests, files visited, arithmetic of an iteration, segments and
  pieces produced, one step per segment for the piece-length sum).
  The bounds hold for every input of the layout functions, loadable or not, panicking or not; no hypothesis from the
  loader (`pieceCountOk`) is needed because the model's outer loop is `for hash in pieces`, not `0 .. ⌈total/L⌉`.
-/
import TB.Spec.LayoutCost
import TB.Lemmas.LCost
import TB.Props.C06
namespace TB
open TB.LCost TB.LCostL

/-- A1: every step-counting layout function computes exactly what the model function computes -/
theorem C09_layout_cost_faithful :
    (∀ L files fuel counted fi rem acc,
      (fillC L files fuel counted fi rem acc).1 = fill L files fuel counted fi rem acc) ∧
    (∀ L files hs pos fi rem, (multiLoopC L files hs pos fi rem).1 = multiLoop L files hs pos fi rem) ∧
    (∀ L files hashes, (constructMultiC L files hashes).1 = constructMulti L files hashes) ∧
    (∀ L total hs pos start rem,
      (singleLoopC L total hs pos start rem).1 = singleLoop L total hs pos start rem) ∧
    (∀ L total hashes, (constructSingleC L total hashes).1 = constructSingle L total hashes) ∧
    (∀ L length files hashes,
      (constructPiecesC L length files hashes).1 = constructPieces L length files hashes) :=
  ⟨fillC_fst, multiLoopC_fst, constructMultiC_fst, singleLoopC_fst, constructSingleC_fst, constructPiecesC_fst⟩

/-- A2, sharp form: the multi-file layout over a non-empty file list takes at most `8·#hashes + 6·#files - 4`
    steps (8 per piece: outer iteration, the iteration of the inner loop that completes the piece = 4, its failing
    loop test, the length-sum unit of its last segment, the push; 6 per file: the inner-loop iteration that leaves
    the file = 5 and the length-sum unit of its segment). `L` and the file lengths do not occur in the bound. -/
theorem C09_layout_cost_multi_sharp (L : Nat) (files : List Nat) (hashes : List Bytes) (hne : files ≠ []) :
    (constructMultiC L files hashes).2 + 4 ≤ 8 * hashes.length + 6 * files.length :=
  constructMultiC_cost L files hashes hne

/-- A2: the multi-file layout takes at most `8·(#hashes + #files) + 1` steps, for every piece length and all file
    lengths (the `+ 1` is attained by the empty file list: `files.first().unwrap()` panics after one step) -/
theorem C09_layout_cost_linear (L : Nat) (files : List Nat) (hashes : List Bytes) :
    (constructMultiC L files hashes).2 ≤ 8 * (hashes.length + files.length) + 1 := by
  rcases files with _ | ⟨f0, rest⟩
  · rw [constructMultiC_nil]; simp only []; omega
  · have := constructMultiC_cost L (f0 :: rest) hashes (by simp)
    omega

/-- A3: the single-file layout takes exactly `4·#hashes + 1` steps (iteration, arithmetic, segment, piece per hash;
    one final loop test), for every piece length and every declared total length -/
theorem C09_layout_cost_single (L total : Nat) (hashes : List Bytes) :
    (constructSingleC L total hashes).2 = 4 * hashes.length + 1 :=
  singleLoopC_cost L total hashes 0 0 total

/-- `Pieces::from_torrent` as a whole (one more step for the dispatch) -/
theorem C09_layout_cost_pieces (L : Nat) (length : Option Nat) (files : Option (List Nat)) (hashes : List Bytes) :
    (constructPiecesC L length files hashes).2 ≤ 8 * (hashes.length + (files.getD []).length) + 2 := by
  rcases length with _ | total
  · rcases files with _ | fs
    · simp only [constructPiecesC]; omega
    · have := C09_layout_cost_linear L fs hashes
      simp only [constructPiecesC, Option.getD_some]
      omega
  · have := C09_layout_cost_single L total hashes
    simp only [constructPiecesC]
    omega

/-- for every loadable torrent the layout is produced (no panic) within `8·(#hashes + #files) + 2` steps -/
theorem C09_layout_cost_loaded (H : Bytes → Bytes) (inp : Bytes) (T : Torrent) (h : load H inp = .ok T) :
    ∃ ps n, constructPiecesC T.info.pieceLength T.info.length (T.info.files.map (·.map (·.length))) T.info.pieces
        = (some ps, n)
      ∧ ps.length = T.info.pieces.length
      ∧ n ≤ 8 * (T.info.pieces.length + (T.info.files.getD []).length) + 2 := by
  obtain ⟨ps, hps, hlen, _⟩ := C06_loaded H inp T h
  have hf := constructPiecesC_fst T.info.pieceLength T.info.length (T.info.files.map (·.map (·.length))) T.info.pieces
  have hc := C09_layout_cost_pieces T.info.pieceLength T.info.length (T.info.files.map (·.map (·.length))) T.info.pieces
  rw [hps] at hf
  refine ⟨ps, _, Prod.ext hf rfl, hlen, ?_⟩
  have : ((T.info.files.map (·.map (·.length))).getD []).length = (T.info.files.getD []).length := by
    rcases T.info.files with _ | fs <;> simp
  rw [this] at hc
  exact hc

/-! non-vacuity and tightness -/

-- piece length 1, declared length 2^64, 3 hashes: 8 per hash + 2, nothing from the 2^64; the sharp bound is met
example : (constructMultiC 1 [2^64] [[1], [2], [3]]).2 = 26 ∧ 26 + 4 = 8 * 3 + 6 * 1 := by decide
-- 5 empty files and a 1-byte file inside one piece: the sharp bound is met (8·1 + 6·6 - 4 = 40)
example : (constructMultiC 4 [0, 0, 0, 0, 0, 1] [[1]]).2 = 40 := by decide
-- file ends on a piece boundary, last piece short, a panic on the surplus hash: below the bound
example : (constructMultiC 3 [3, 4] [[1], [2], [3], [4]]) = (none, 29) := by decide
-- the `+ 1` of the linear form
example : (constructMultiC 7 [] [[1]]).2 = 8 * (0 + 0) + 1 := by decide
-- single file: piece length 1, declared length 2^64
example : (constructSingleC 1 (2^64) [[1], [2], [3]]).2 = 13 := by decide

end TB
