/-
  C04 (clause a) / C15 (success is sound) — a piece reported as found verifies in the export tree afterwards.
  This is the statement about the tree (the operation-level statement is C01_write_sound).
-/
import TB.Spec.ExportSpec
import TB.Lemmas.RunF
namespace TB

/-- well-formed tree: every inode bound to a name is below `next` (so a created file gets a fresh inode),
    names are bound once, and no name is both a file and a directory -/
def FsWF (fs : Fs) : Prop :=
  (∀ p i, (p, i) ∈ fs.files → i < fs.next) ∧
  (fs.files.map (·.1)).Nodup ∧
  (∀ p i, (p, i) ∈ fs.files → fs.isDir p = false)

/-- the export images of the non-padding segments of one piece are pairwise distinct files: distinct paths, and
    distinct inodes where they already exist (no hard links between export images; DESIGN §8 NoAliasAcrossExport) -/
def ImagesDistinct (fs : Fs) (w : Work) : Prop :=
  ∀ (a b : Nat) (s t : WSeg), w.segs[a]? = some s → w.segs[b]? = some t → a ≠ b →
    s.ent.isPad = false → t.ent.isPad = false →
    s.ent.fullTarget ≠ t.ent.fullTarget ∧
    (∀ i j, fs.inoOf s.ent.fullTarget = some i → fs.inoOf t.ent.fullTarget = some j → i ≠ j)

/-- every segment lies inside its file (a fact of the layout, C06) -/
def SegsInRange (w : Work) : Prop := ∀ s ∈ w.segs, s.off + s.len ≤ s.ent.fileLength

/-- clause a of C04 for the piece itself, and soundness of "succeeded" (C15): if evaluating a piece ends in
    `found`, the piece verifies in the export tree afterwards — whether its segments were written, skipped because
    they were matched from their own export image, or are padding. `hlen` (a byte string with the piece's hash
    has the piece's length) rules out a short read that happens to hash correctly; `hfiles` says candidates are
    regular files (the index only registers regular files). -/
theorem C04a_found_verifies (H : Bytes → Bytes) (st : St) (w : Work)
    (hwf : FsWF st.fs) (hdist : ImagesDistinct st.fs w) (hrange : SegsInRange w)
    (hlen : ∀ b, H b = w.hash → b.length = (w.segs.map (·.len)).sum)
    (hfiles : ∀ s ∈ w.segs, ∀ paths, s.ent.searches = some paths → ∀ p ∈ paths, ∃ i, st.fs.look p = .file i)
    (hfound : (solvePiece H st w).2 = .found) :
    VerE H (solvePiece H st w).1.fs w := by
  sorry

/-- the tree stays well-formed under every operation of a piece evaluation -/
theorem C04a_wf_preserved (H : Bytes → Bytes) (st : St) (w : Work) (hwf : FsWF st.fs) :
    FsWF (solvePiece H st w).1.fs := by
  sorry

/-- frame: evaluating a piece changes no file other than the export images of its own non-padding segments —
    every inode that is not the image of such a segment (before or after) keeps its content, and every name other
    than those images keeps its binding -/
theorem C04a_frame (H : Bytes → Bytes) (st : St) (w : Work) (hwf : FsWF st.fs) (p : Path) (i : Nat)
    (hp : st.fs.inoOf p = some i)
    (hnot : ∀ s ∈ w.segs, s.ent.isPad = false → s.ent.fullTarget ≠ p ∧ st.fs.inoOf s.ent.fullTarget ≠ some i) :
    (solvePiece H st w).1.fs.inoOf p = some i ∧ (solvePiece H st w).1.fs.content i = st.fs.content i := by
  sorry

end TB
