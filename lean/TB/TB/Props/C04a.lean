/-
  C04 (clause a) / C15 (success is sound) — a piece reported as found verifies in the export tree afterwards.
  This is the statement about the tree (the operation-level statement is C01_write_sound).
-/
import TB.Spec.ExportSpec
import TB.Lemmas.RunF
import TB.Lemmas.RunFW
import TB.Lemmas.RunFV
import TB.Lemmas.RunFCex
namespace TB
open TB.RunF

/-- well-formed tree: every inode bound to a name is below `next` (so a created file gets a fresh inode),
    names are bound once, no name is both a file and a directory, and every proper prefix of a bound file name
    is a directory (without the last clause `openCreate` could create a regular file at `a` while `a/b` is bound,
    after which `look (a/b)` is ENOTDIR) -/
def FsWF (fs : Fs) : Prop :=
  (∀ p i, (p, i) ∈ fs.files → i < fs.next) ∧
  (fs.files.map (·.1)).Nodup ∧
  (∀ p i, (p, i) ∈ fs.files → fs.isDir p = false) ∧
  (∀ p i, (p, i) ∈ fs.files → ∀ q ∈ Fs.properPrefixes p, fs.isDir q = true)

/-- the export images of the non-padding segments of one piece are pairwise distinct files: distinct paths, and
    distinct inodes where they already exist (no hard links between export images; DESIGN §8 NoAliasAcrossExport) -/
def ImagesDistinct (fs : Fs) (w : Work) : Prop :=
  ∀ (a b : Nat) (s t : WSeg), w.segs[a]? = some s → w.segs[b]? = some t → a ≠ b →
    s.ent.isPad = false → t.ent.isPad = false →
    s.ent.fullTarget ≠ t.ent.fullTarget ∧
    (∀ i j, fs.inoOf s.ent.fullTarget = some i → fs.inoOf t.ent.fullTarget = some j → i ≠ j)

/-- every segment lies inside its file (a fact of the layout, C06) -/
def SegsInRange (w : Work) : Prop := ∀ s ∈ w.segs, s.off + s.len ≤ s.ent.fileLength

/-- clause a of C04 for the piece itself, and soundness of "succeeded" (C15): if evaluating a piece ends in
    `found`, the piece verifies in the export tree afterwards — whether its segments were written, skipped because
    they were matched from their own export image, or are padding. `hlen` (a byte string with the piece's hash
    has the piece's length) rules out a short read that happens to hash correctly; `hfiles` says candidates are
    regular files (the index only registers regular files).

    Two hypotheses are there because the statement is false without them (both worlds are checked examples in
    `TB.Lemmas.RunFCex`, with `H = id`):
    * the fourth clause of `FsWF` (proper prefixes of bound file names are directories): with `a/b` bound but `a`
      not a directory, a piece whose segment A (image `a/b`) is matched from its own image and whose segment B
      (image `a`) is written makes `openCreate a` create a regular file at `a`; afterwards `look (a/b) = notDir`
      and segment A cannot be read back;
    * `hzero` (a zero-length segment belongs to an empty file — the layout fact of C06; with `SegsInRange` it
      gives `off = 0`): a segment with `len = 0`, `off = 1` whose image exists and is empty is "read" without
      looking at the content (`take(0)`), matches `H []`, is skipped as its own source, and `segBytesIn` then
      fails on `off + len ≤ length`. -/
theorem C04a_found_verifies (H : Bytes → Bytes) (st : St) (w : Work)
    (hwf : FsWF st.fs) (hdist : ImagesDistinct st.fs w) (hrange : SegsInRange w)
    (hlen : ∀ b, H b = w.hash → b.length = (w.segs.map (·.len)).sum)
    (hzero : ∀ s ∈ w.segs, s.len = 0 → s.ent.fileLength = 0)
    (hfiles : ∀ s ∈ w.segs, ∀ paths, s.ent.searches = some paths → ∀ p ∈ paths, ∃ i, st.fs.look p = .file i)
    (hfound : (solvePiece H st w).2 = .found) :
    VerE H (solvePiece H st w).1.fs w := by
  have hpw : List.Pairwise (DistR st.fs) w.segs := by
    rw [List.pairwise_iff_getElem]
    intro a b ha hb hab hs ht
    exact hdist a b _ _ (List.getElem?_eq_getElem ha) (List.getElem?_eq_getElem hb) (by omega) hs ht
  rcases hsp : solvePiece H st w with ⟨st', r⟩
  rw [hsp] at hfound
  simp only at hfound ⊢
  subst hfound
  unfold solvePiece at hsp
  simp -iota only at hsp
  split at hsp
  · cases hsp
  split at hsp
  · rename_i seg hw
    split at hsp
    · -- a piece inside a padding file
      rename_i hpad
      split at hsp
      · rename_i hh
        cases hsp
        refine verifies_of_chosen H st st w [(none, List.replicate seg.len 0)] hwf hpw hrange hlen hzero hfiles
          (by rw [hw]; rfl) ?_ (by simpa using hh) ?_
        · intro x hx
          rw [hw] at hx
          simp only [List.zip_cons_cons, List.zip_nil_right, List.mem_singleton] at hx
          subst hx
          refine ⟨fun _ => rfl, ?_, ?_⟩ <;> (intro hp; rw [hpad] at hp; cases hp)
        · rw [hw]
          simp only [List.map_cons, List.map_nil, List.zip_cons_cons, List.zip_nil_right]
          rw [writeSegs_cons, if_pos hpad]
          rfl
      · cases hsp
    · rename_i hpad
      have hpad : seg.ent.isPad = false := by simpa using hpad
      split at hsp
      · cases hsp
      · rename_i paths hs
        have e := (RC.scanSingle_ext H w.hash seg st paths).fs
        split at hsp <;> rename_i h1 <;> rw [h1] at e
        · rename_i st1 src bytes
          simp only at e
          rw [← e] at hwf hpw hfiles
          obtain ⟨hsrc, hb⟩ := scanSingle_sound _ _ _ _ _ h1
          refine verifies_of_chosen H st1 st' w [(some src, bytes)] hwf hpw hrange hlen hzero hfiles
            (by rw [hw]; rfl) ?_ (by simpa using scanSingle_hash h1) ?_
          · intro x hx
            rw [hw] at hx
            simp only [List.zip_cons_cons, List.zip_nil_right, List.mem_singleton] at hx
            subst hx
            refine ⟨?_, ?_, ?_⟩
            · intro hp; rw [hpad] at hp; cases hp
            · intro _ hp; rw [hs] at hp; cases hp
            · intro _ paths' hp
              rw [hs] at hp; cases hp
              exact ⟨src, hsrc, rfl, by rw [e]; exact hb⟩
          · rw [hw]
            simpa using hsp
        · cases hsp
        · cases hsp
        · cases hsp
  · have e := (RC.preload_ext st w.segs).fs
    split at hsp <;> rename_i h1 <;> rw [h1] at e
    · rename_i st1 loaded
      simp only at e
      split at hsp
      · rename_i chosen hsearch
        obtain ⟨hl1, hz1⟩ := preload_sound _ _ _ _ h1
        obtain ⟨picks, hp1, hp2, hp3⟩ := searchProduct_picks _ _ _ hsearch
        rw [List.nil_append] at hp1
        subst hp1
        have hsel := zip_compose (P := Sel st.fs) w.segs loaded chosen hl1 hp2 hz1 hp3
        rw [← e] at hwf hpw hfiles hsel
        exact verifies_of_chosen H st1 st' w chosen hwf hpw hrange hlen hzero hfiles (by rw [hl1, hp2]) hsel
          (searchProduct_hash hsearch) hsp
      · cases hsp
    · cases hsp
    · cases hsp

/-- the tree stays well-formed under every operation of a piece evaluation -/
theorem C04a_wf_preserved (H : Bytes → Bytes) (st : St) (w : Work) (hwf : FsWF st.fs) :
    FsWF (solvePiece H st w).1.fs :=
  (solvePiece_loc H st w).wf hwf

/-- frame: evaluating a piece changes no file other than the export images of its own non-padding segments —
    every inode that is not the image of such a segment (before or after) keeps its content, and every name other
    than those images keeps its binding -/
theorem C04a_frame (H : Bytes → Bytes) (st : St) (w : Work) (hwf : FsWF st.fs) (p : Path) (i : Nat)
    (hp : st.fs.inoOf p = some i)
    (hnot : ∀ s ∈ w.segs, s.ent.isPad = false → s.ent.fullTarget ≠ p ∧ st.fs.inoOf s.ent.fullTarget ≠ some i) :
    (solvePiece H st w).1.fs.inoOf p = some i ∧ (solvePiece H st w).1.fs.content i = st.fs.content i := by
  have L := solvePiece_loc H st w
  refine ⟨L.ino_pres p i hp, L.content i (inoOf_lt hwf hp) ?_⟩
  rintro t ⟨s, hs, hpad, rfl⟩
  exact (hnot s hs hpad).2

end TB
