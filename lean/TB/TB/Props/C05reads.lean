/-
  C05 (reads against writes) — what a worker READS while another worker writes.

  TB.Props.C05writes and TB.Props.C05ops cover the writers against one another. A worker also reads: the candidate
  files (never written by the tool) and the export image of its own piece (`VerE`, the "already there" test), while
  other workers run `set_len` / positional writes on export images. This file states, at the level of the single
  byte operation (`ByteOp`, the unit of TB.Props.C05ops), that such a read returns the same bytes whether it happens
  before or after the other worker's operation:

    R1  `C05_read_other_inode`     an operation on a different inode (a candidate, another image) is invisible;
    R2  `C05_read_disjoint_write`  a positional write to a disjoint range of the SAME inode is invisible to a read
                                   that lies inside the file;
    R3  `C05_read_setLen`          `set_len n` is invisible to a read that lies inside the file and inside `n`
                                   (the layout puts every segment inside the declared length);
    R4  `C05_read_byteop_commutes` the three together: a read inside the file and inside the declared length, of a
                                   range the other piece does not write, commutes with any operation of that piece's
                                   critical section.

    R5  `C05_segment_stable`, `C05_verified_stable`  lifted to the "already there" test: a piece that VERIFIES in
                                   the export tree (`VerE`) still verifies after any single byte operation of another
                                   piece's section that spares its segments (`ByteOp.Spares`); a write that does not
                                   spare them breaks the verification (last example).

  The side conditions are exact: the examples after each theorem show the read changing when one is dropped.
-/
import TB.Props.C05writes
namespace TB
open TB.RunX

theorem readAt_get (fs : Fs) (i off len k : Nat) :
    (fs.readAt i off len)[k]? = if k < len then (fs.content i)[off + k]? else none := by
  simp only [Fs.readAt, List.getElem?_take, List.getElem?_drop]

/-- R1: a read of inode `i` does not see `set_len` / a positional write on another inode `j` -/
theorem C05_read_other_inode (fs : Fs) (a : ByteOp) (i j : Nat) (hij : i ≠ j) (off len : Nat) :
    (a.app fs j).readAt i off len = fs.readAt i off len := by
  cases a <;> simp only [ByteOp.app, setLen_eq, writeAt_eq, Fs.readAt, content_setData, if_neg hij]

/-- R2: a read that lies inside the file does not see a positional write to a disjoint range of the same inode -/
theorem C05_read_disjoint_write (fs : Fs) (i o off len : Nat) (d : Bytes)
    (hin : off + len ≤ (fs.content i).length)
    (h : off + len ≤ o ∨ o + d.length ≤ off) :
    (fs.writeAt i o d).readAt i off len = fs.readAt i off len := by
  apply List.ext_getElem?
  intro k
  simp only [readAt_get, writeAt_eq, content_setData, if_true, wr_get]
  by_cases hk : k < len
  · simp only [if_pos hk]
    rcases h with h | h
    · have h1 : off + k < o := by omega
      have h2 : off + k < (fs.content i).length := by omega
      simp only [if_pos h1, List.getElem?_eq_getElem h2, Option.getD_some]
    · have h1 : ¬ off + k < o := by omega
      have h2 : ¬ off + k < o + d.length := by omega
      simp only [if_neg h1, if_neg h2]
  · simp only [if_neg hk]

/-- without "inside the file": a read past the end sees the zero-fill of a later write -/
example : ((wr 2 [1] []).drop 0).take 1 = [0] ∧ (([] : Bytes).drop 0).take 1 = [] := by decide

/-- without "disjoint": the read sees the write -/
example : ((wr 0 [1] [7]).drop 0).take 1 = [1] := by decide

/-- R3: a read that lies inside the file and inside `n` does not see `set_len n` -/
theorem C05_read_setLen (fs : Fs) (i n off len : Nat)
    (hin : off + len ≤ (fs.content i).length) (hn : off + len ≤ n) :
    (fs.setLen i n).readAt i off len = fs.readAt i off len := by
  apply List.ext_getElem?
  intro k
  simp only [readAt_get, setLen_eq, content_setData, if_true, sl_get]
  by_cases hk : k < len
  · have h1 : off + k < n := by omega
    have h2 : off + k < (fs.content i).length := by omega
    simp only [if_pos hk, if_pos h1, List.getElem?_eq_getElem h2, Option.getD_some]
  · simp only [if_neg hk]

/-- without "inside `n`": the read is cut -/
example : ((sl 1 [7, 8]).drop 0).take 2 = [7] := by decide

/-- the operation `a` of another piece's critical section spares the range `[off, off+len)` of an image of declared
    length `L`: it is the section's `set_len L`, or its write of a range disjoint from `[off, off+len)` (the layout
    gives two pieces disjoint ranges of an image: `C05_compat_of_layout`) -/
def ByteOp.Spares (a : ByteOp) (L off len : Nat) : Prop :=
  match a with
  | .setLen n => n = L
  | .writeAt o d => off + len ≤ o ∨ o + d.length ≤ off

/-- R4: a read of `[off, off+len)` of inode `i`, inside the file and inside the declared length `L`, commutes with
    every byte operation of another piece's critical section on ANY inode `j`, provided that, when it acts on the
    same inode, it spares the range. -/
theorem C05_read_byteop_commutes (fs : Fs) (a : ByteOp) (i j L off len : Nat)
    (hin : off + len ≤ (fs.content i).length) (hL : off + len ≤ L)
    (ha : i = j → a.Spares L off len) :
    (a.app fs j).readAt i off len = fs.readAt i off len := by
  by_cases hij : i = j
  · subst hij
    cases a with
    | setLen n =>
      have e : n = L := ha rfl
      subst e
      exact C05_read_setLen fs i n off len hin hL
    | writeAt o d => exact C05_read_disjoint_write fs i o off len d hin (ha rfl)
  · exact C05_read_other_inode fs a i j hij off len

/-- non-vacuity: a two-byte image, a read of its first byte, a write of its second -/
example : (ByteOp.app (.writeAt 1 [9]) (⟨[], [], [(0, [7, 8])], 1⟩ : Fs) 0).readAt 0 0 1 = [7] := by decide

/-! ### R5 — the "already there" test of a piece against another piece's byte operations -/

theorem ByteOp.look_app (a : ByteOp) (fs : Fs) (j : Nat) (p : Path) : (a.app fs j).look p = fs.look p := by
  cases a <;> rfl

/-- the read of a full-length segment stays full-length: the operation of the other piece does not cut the file
    below the end of the segment -/
theorem ByteOp.length_app (a : ByteOp) (fs : Fs) (i j L e : Nat) (hin : e ≤ (fs.content i).length) (hL : e ≤ L)
    (ha : i = j → ∀ n, a = .setLen n → n = L) :
    e ≤ ((a.app fs j).content i).length := by
  by_cases hij : i = j
  · subst hij
    cases a with
    | setLen n =>
      have e' : n = L := ha rfl n rfl
      subst e'
      simp only [ByteOp.app, setLen_eq, content_setData, if_true, sl_length]; exact hL
    | writeAt o d =>
      simp only [ByteOp.app, writeAt_eq, content_setData, if_true, wr_length]; omega
  · cases a <;> simp only [ByteOp.app, setLen_eq, writeAt_eq, content_setData, if_neg hij] <;> exact hin

/-- R5a: the bytes of a segment found (full-length) at its export image are found again, the same, after any byte
    operation of another piece's critical section — on whichever inode `j` it acts: `set_len` to the declared
    length `L` of that image, or a write to a range disjoint from the segment. -/
theorem C05_segment_stable (fs : Fs) (a : ByteOp) (j L : Nat) (s : WSeg) (b : Bytes)
    (hs : segBytesIn fs s = some b) (hL : s.off + s.len ≤ L)
    (ha : fs.look s.ent.fullTarget = .file j → a.Spares L s.off s.len) :
    segBytesIn (a.app fs j) s = some b := by
  unfold segBytesIn at hs ⊢
  by_cases hp : s.ent.isPad
  · simpa only [if_pos hp] using hs
  · simp only [if_neg hp, ByteOp.look_app] at hs ⊢
    cases hl : fs.look s.ent.fullTarget with
    | file i =>
      simp only [hl] at hs ⊢
      by_cases hin : s.off + s.len ≤ (fs.content i).length
      · simp only [if_pos hin, Option.some.injEq] at hs
        have ha' : i = j → a.Spares L s.off s.len := fun e => ha (by rw [hl, e])
        have hlen : s.off + s.len ≤ ((a.app fs j).content i).length :=
          ByteOp.length_app a fs i j L _ hin hL (fun e n en => by
            have := ha' e
            subst en
            exact this)
        rw [if_pos hlen, C05_read_byteop_commutes fs a i j L s.off s.len hin hL ha', hs]
      · simp only [if_neg hin] at hs
        exact absurd hs (by simp)
    | notFound => simp only [hl] at hs; exact absurd hs (by simp)
    | dir => simp only [hl] at hs; exact absurd hs (by simp)
    | notDir => simp only [hl] at hs; exact absurd hs (by simp)

theorem mapM_segBytesIn_stable (fs : Fs) (a : ByteOp) (j L : Nat) (segs : List WSeg) (parts : List Bytes)
    (hL : ∀ s ∈ segs, fs.look s.ent.fullTarget = .file j → s.off + s.len ≤ L ∧ a.Spares L s.off s.len)
    (h : segs.mapM (segBytesIn fs) = some parts) :
    segs.mapM (segBytesIn (a.app fs j)) = some parts := by
  induction segs generalizing parts with
  | nil => simpa using h
  | cons s rest ih =>
    rw [List.mapM_cons] at h ⊢
    cases hs : segBytesIn fs s with
    | none => rw [hs] at h; simp at h
    | some b =>
      rw [hs] at h
      cases hr : rest.mapM (segBytesIn fs) with
      | none => rw [hr] at h; simp at h
      | some ps =>
        rw [hr] at h
        have hs' : segBytesIn (a.app fs j) s = some b := by
          by_cases hj : fs.look s.ent.fullTarget = .file j
          · have := hL s (List.mem_cons_self) hj
            exact C05_segment_stable fs a j L s b hs this.1 (fun _ => this.2)
          · -- the operation acts on another inode: take the segment's own end as "declared length"
            exact C05_segment_stable fs a j (s.off + s.len) s b hs (Nat.le_refl _) (fun e => absurd e hj)
        rw [hs', ih ps (fun t ht => hL t (List.mem_cons_of_mem _ ht)) hr]
        exact h

/-- R5: A PIECE THAT VERIFIES IN THE EXPORT TREE STILL VERIFIES after any single byte operation of another piece's
    critical section (acting on inode `j`, an image of declared length `L`), provided the operation spares the
    segments of the piece that lie on that image. So the "already there" test of one worker gives the same answer
    `true` whether it runs before or after the other worker's operation. -/
theorem C05_verified_stable (H : Bytes → Bytes) (fs : Fs) (a : ByteOp) (j L : Nat) (w : Work)
    (hL : ∀ s ∈ w.segs, fs.look s.ent.fullTarget = .file j → s.off + s.len ≤ L ∧ a.Spares L s.off s.len)
    (h : VerE H fs w) : VerE H (a.app fs j) w := by
  obtain ⟨parts, hm, hh⟩ := h
  exact ⟨parts, mapM_segBytesIn_stable fs a j L w.segs parts hL hm, hh⟩

/-- R5, any number of operations: a piece that verifies still verifies after ANY SEQUENCE of byte operations of other
    pieces (each `(a, j, L)`: operation `a` on inode `j`, an image of declared length `L`) that spare its segments —
    whatever the order in which the other workers' `set_len`s and writes reach the file system. The hypothesis is
    stated once, against the initial tree: byte operations do not change which inode a path leads to. -/
theorem C05_verified_stable_ops (H : Bytes → Bytes) (w : Work) (ops : List (ByteOp × Nat × Nat)) (fs : Fs)
    (hL : ∀ o ∈ ops, ∀ s ∈ w.segs, fs.look s.ent.fullTarget = .file o.2.1 →
      s.off + s.len ≤ o.2.2 ∧ o.1.Spares o.2.2 s.off s.len)
    (h : VerE H fs w) : VerE H (ops.foldl (fun f o => o.1.app f o.2.1) fs) w := by
  induction ops generalizing fs with
  | nil => exact h
  | cons o rest ih =>
    rw [List.foldl_cons]
    apply ih
    · intro o' ho' s hs hl
      rw [ByteOp.look_app] at hl
      exact hL o' (List.mem_cons_of_mem _ ho') s hs hl
    · exact C05_verified_stable H fs o.1 o.2.1 o.2.2 w (hL o List.mem_cons_self) h

/-! #### non-vacuity of R5: the image `d/x` holds `[7, 8]`; the piece on its first byte verifies (with `H = id`);
    the other piece's write of the second byte spares it -/
namespace C05r
open TB.C05w
def fsR : Fs := ⟨[(tx, 0)], [[[100]]], [(0, [7, 8])], 1⟩
def wR : Work := ⟨[⟨1, 0, ex⟩], [7]⟩
example : segBytesIn fsR ⟨1, 0, ex⟩ = some [7] := by decide
theorem verR : VerE id fsR wR := ⟨[[7]], by decide, by decide⟩
example : VerE id ((ByteOp.writeAt 1 [9]).app fsR 0) wR :=
  C05_verified_stable id fsR (.writeAt 1 [9]) 0 2 wR
    (by intro s hs _
        have : s = ⟨1, 0, ex⟩ := by simpa [wR] using hs
        subst this
        exact ⟨by decide, Or.inl (by decide)⟩) verR
/-- and a write that does NOT spare the segment breaks the verification: the hypothesis is needed -/
example : ¬ VerE id ((ByteOp.writeAt 0 [9]).app fsR 0) wR := by
  rintro ⟨parts, hm, hh⟩
  have : parts = [[9]] := by
    have e : wR.segs.mapM (segBytesIn ((ByteOp.writeAt 0 [9]).app fsR 0)) = some [[9]] := by decide
    rw [e] at hm; exact (Option.some.inj hm).symm
  subst this
  exact absurd hh (by decide)
end C05r

end TB
