/-
  C05 (reads against writes) — what a worker READS while another worker writes.

  TB.Props.C05writes and TB.Props.C05ops cover the writers against one another. A worker also reads: the candidate
  files (never written by the tool) and the export image of its own piece (`VerE`, the "already there" test), while
  other workers run `set_len` / positional writes on export images. This file states, at the level of the single
  byte operation (`ByteOp`, the unit of TB.Props.C05ops), that such a read returns the same bytes whether it happens
  before or after the other worker's operation:

    R1  `C05_read_other_inode`     an operation on a different inode (a candidate, another image) is invisible;
    R2  `C05_read_disjoint_write`  a positional write to a disjoint range of the SAME inode is invisible to a read
                                   that lies inside the file;
    R3  `C05_read_setLen`          `set_len n` is invisible to a read that lies inside the file and inside `n`
                                   (the layout puts every segment inside the declared length);
    R4  `C05_read_byteop_commutes` the three together: a read inside the file and inside the declared length, of a
                                   range the other piece does not write, commutes with any operation of that piece's
                                   critical section.

  The side conditions are exact: the examples after each theorem show the read changing when one is dropped.
-/
import TB.Props.C05writes
namespace TB
open TB.RunX

theorem readAt_get (fs : Fs) (i off len k : Nat) :
    (fs.readAt i off len)[k]? = if k < len then (fs.content i)[off + k]? else none := by
  simp only [Fs.readAt, List.getElem?_take, List.getElem?_drop]

/-- R1: a read of inode `i` does not see `set_len` / a positional write on another inode `j` -/
theorem C05_read_other_inode (fs : Fs) (a : ByteOp) (i j : Nat) (hij : i ≠ j) (off len : Nat) :
    (a.app fs j).readAt i off len = fs.readAt i off len := by
  cases a <;> simp only [ByteOp.app, setLen_eq, writeAt_eq, Fs.readAt, content_setData, if_neg hij]

/-- R2: a read that lies inside the file does not see a positional write to a disjoint range of the same inode -/
theorem C05_read_disjoint_write (fs : Fs) (i o off len : Nat) (d : Bytes)
    (hin : off + len ≤ (fs.content i).length)
    (h : off + len ≤ o ∨ o + d.length ≤ off) :
    (fs.writeAt i o d).readAt i off len = fs.readAt i off len := by
  apply List.ext_getElem?
  intro k
  simp only [readAt_get, writeAt_eq, content_setData, if_true, wr_get]
  by_cases hk : k < len
  · simp only [if_pos hk]
    rcases h with h | h
    · have h1 : off + k < o := by omega
      have h2 : off + k < (fs.content i).length := by omega
      simp only [if_pos h1, List.getElem?_eq_getElem h2, Option.getD_some]
    · have h1 : ¬ off + k < o := by omega
      have h2 : ¬ off + k < o + d.length := by omega
      simp only [if_neg h1, if_neg h2]
  · simp only [if_neg hk]

/-- without "inside the file": a read past the end sees the zero-fill of a later write -/
example : ((wr 2 [1] []).drop 0).take 1 = [0] ∧ (([] : Bytes).drop 0).take 1 = [] := by decide

/-- without "disjoint": the read sees the write -/
example : ((wr 0 [1] [7]).drop 0).take 1 = [1] := by decide

/-- R3: a read that lies inside the file and inside `n` does not see `set_len n` -/
theorem C05_read_setLen (fs : Fs) (i n off len : Nat)
    (hin : off + len ≤ (fs.content i).length) (hn : off + len ≤ n) :
    (fs.setLen i n).readAt i off len = fs.readAt i off len := by
  apply List.ext_getElem?
  intro k
  simp only [readAt_get, setLen_eq, content_setData, if_true, sl_get]
  by_cases hk : k < len
  · have h1 : off + k < n := by omega
    have h2 : off + k < (fs.content i).length := by omega
    simp only [if_pos hk, if_pos h1, List.getElem?_eq_getElem h2, Option.getD_some]
  · simp only [if_neg hk]

/-- without "inside `n`": the read is cut -/
example : ((sl 1 [7, 8]).drop 0).take 2 = [7] := by decide

/-- R4: a read of `[off, off+len)` of inode `i`, inside the file and inside the declared length `L`, commutes with
    every byte operation of another piece's critical section on ANY inode `j`: its `set_len L`, or its write of a
    range disjoint from the read (the layout gives two pieces disjoint ranges of an image: `C05_compat_of_layout`). -/
theorem C05_read_byteop_commutes (fs : Fs) (a : ByteOp) (i j L off len : Nat)
    (hin : off + len ≤ (fs.content i).length) (hL : off + len ≤ L)
    (ha : i = j → match a with
      | .setLen n => n = L
      | .writeAt o d => off + len ≤ o ∨ o + d.length ≤ off) :
    (a.app fs j).readAt i off len = fs.readAt i off len := by
  by_cases hij : i = j
  · subst hij
    cases a with
    | setLen n =>
      have e : n = L := ha rfl
      subst e
      exact C05_read_setLen fs i n off len hin hL
    | writeAt o d => exact C05_read_disjoint_write fs i o off len d hin (ha rfl)
  · exact C05_read_other_inode fs a i j hij off len

/-- non-vacuity: a two-byte image, a read of its first byte, a write of its second -/
example : (ByteOp.app (.writeAt 1 [9]) (⟨[], [], [(0, [7, 8])], 1⟩ : Fs) 0).readAt 0 0 1 = [7] := by decide

end TB
