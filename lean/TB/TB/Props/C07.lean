/-
  C07 — the info-hash is the hash of the exact bytes of the info value; the directory name is its 40-hex form.
  `H` (SHA-1) is a parameter: the theorems hold for every hash function.
-/
import TB.Props.C10
namespace TB

/-- the hashed bytes are a contiguous slice of the input, and that slice is exactly the encoding of the value
    of the top-level `info` key -/
theorem C07_span (H : Bytes → Bytes) (inp : Bytes) (T : Torrent) (h : load H inp = .ok T) :
    ∃ root info s c, canon (.dict root) = true ∧ encode (.dict root) = inp
      ∧ dictGet root kInfo = some (.dict info)
      ∧ s ≤ c ∧ c ≤ inp.length ∧ slice inp s c = encode (.dict info)
      ∧ T.infoHash = H (slice inp s c) := by
  obtain ⟨rks, rvs, s0, c0, iks, ivs, s, c, info, _, hcan, henc, hf, h1, h2, hsl, hs, rfl⟩ := load_ok_struct h
  refine ⟨eraseDict rks rvs, eraseDict iks ivs, s, c, hcan, henc, ?_, h1, h2, hsl, rfl⟩
  simp only [dictGet_eraseDict, hf, Option.map_some, erase]

/-- independence: two loadable documents whose top-level `info` values are equal have equal info-hashes,
    whatever other top-level keys (and values of whatever size) they carry, before or after `info` -/
theorem C07_indep (H : Bytes → Bytes) (root₁ root₂ : List (Bytes × BVal)) (T₁ T₂ : Torrent)
    (h₁ : load H (encode (.dict root₁)) = .ok T₁) (h₂ : load H (encode (.dict root₂)) = .ok T₂)
    (c₁ : canon (.dict root₁) = true) (c₂ : canon (.dict root₂) = true)
    (hinfo : dictGet root₁ kInfo = dictGet root₂ kInfo) : T₁.infoHash = T₂.infoHash ∧ T₁.info = T₂.info := by
  obtain ⟨v₁, hv₁, he₁, hs₁⟩ := (C10_iff H _ T₁).1 h₁
  obtain ⟨v₂, hv₂, he₂, hs₂⟩ := (C10_iff H _ T₂).1 h₂
  have e₁ := C08_encode_injective _ _ hv₁ c₁ he₁
  have e₂ := C08_encode_injective _ _ hv₂ c₂ he₂
  subst e₁ e₂
  have : specLoad H (.dict root₁) = specLoad H (.dict root₂) := by
    simp only [specLoad, hinfo]
  rw [hs₁, hs₂] at this
  cases this
  exact ⟨rfl, rfl⟩

/-- two-digit lowercase hexadecimal rendering: 2 characters per byte, alphabet 0-9a-f, injective -/
theorem C07_hex_length (bs : Bytes) : (hex bs).length = 2 * bs.length := by
  induction bs with
  | nil => rfl
  | cons b bs ih => simp only [hex, List.length_cons, ih]; omega
theorem C07_hex_alphabet (bs : Bytes) : ∀ c ∈ hex bs, (48 ≤ c ∧ c ≤ 57) ∨ (97 ≤ c ∧ c ≤ 102) := by
  induction bs with
  | nil => intro c hc; cases hc
  | cons b bs ih =>
    intro c hc
    simp only [hex, List.mem_cons] at hc
    have hb := UInt8.toNat_lt b
    rcases hc with rfl | rfl | hc
    · exact hexDigit_range _ (by omega)
    · exact hexDigit_range _ (by omega)
    · exact ih c hc
theorem C07_hex_injective (a b : Bytes) (h : hex a = hex b) : a = b := by
  induction a generalizing b with
  | nil =>
    cases b with
    | nil => rfl
    | cons y ys => simp [hex] at h
  | cons x xs ih =>
    cases b with
    | nil => simp [hex] at h
    | cons y ys =>
      simp only [hex, List.cons.injEq] at h
      obtain ⟨h1, h2, h3⟩ := h
      have hx := UInt8.toNat_lt x
      have hy := UInt8.toNat_lt y
      have e1 := hexDigit_inj _ (by omega) _ (by omega) h1
      have e2 := hexDigit_inj _ (by omega) _ (by omega) h2
      have : x = y := UInt8.toNat_inj.1 (by omega)
      rw [this, ih ys h3]

end TB
