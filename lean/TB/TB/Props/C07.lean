/-
  C07 — the info-hash is the hash of the exact bytes of the info value; the directory name is its 40-hex form.
  `H` (SHA-1) is a parameter: the theorems hold for every hash function.
-/
import TB.Props.C10
namespace TB

/-- the hashed bytes are a contiguous slice of the input, and that slice is exactly the encoding of the value
    of the top-level `info` key -/
theorem C07_span (H : Bytes → Bytes) (inp : Bytes) (T : Torrent) (h : load H inp = .ok T) :
    ∃ root info s c, canon (.dict root) = true ∧ encode (.dict root) = inp
      ∧ dictGet root kInfo = some (.dict info)
      ∧ s ≤ c ∧ c ≤ inp.length ∧ slice inp s c = encode (.dict info)
      ∧ T.infoHash = H (slice inp s c) := by
  sorry

/-- independence: two loadable documents whose top-level `info` values are equal have equal info-hashes,
    whatever other top-level keys (and values of whatever size) they carry, before or after `info` -/
theorem C07_indep (H : Bytes → Bytes) (root₁ root₂ : List (Bytes × BVal)) (T₁ T₂ : Torrent)
    (h₁ : load H (encode (.dict root₁)) = .ok T₁) (h₂ : load H (encode (.dict root₂)) = .ok T₂)
    (c₁ : canon (.dict root₁) = true) (c₂ : canon (.dict root₂) = true)
    (hinfo : dictGet root₁ kInfo = dictGet root₂ kInfo) : T₁.infoHash = T₂.infoHash ∧ T₁.info = T₂.info := by
  sorry

/-- two-digit lowercase hexadecimal rendering: 2 characters per byte, alphabet 0-9a-f, injective -/
theorem C07_hex_length (bs : Bytes) : (hex bs).length = 2 * bs.length := by
  sorry
theorem C07_hex_alphabet (bs : Bytes) : ∀ c ∈ hex bs, (48 ≤ c ∧ c ≤ 57) ∨ (97 ≤ c ∧ c ≤ 102) := by
  sorry
theorem C07_hex_injective (a b : Bytes) (h : hex a = hex b) : a = b := by
  sorry

end TB
