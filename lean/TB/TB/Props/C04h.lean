/-
  C04 (clause a at run level, and histories) — a piece that verifies in the export tree before a run still
  verifies after it, whatever the run does (faults anywhere, any evaluation order, any candidate order); hence
  over any sequence of runs the set of verifying pieces only grows.
-/
import TB.Spec.ExportSpec
import TB.Props.C01
import TB.Props.C11
import TB.Props.C12
import TB.Props.C04a
import TB.Props.C01bytes
import TB.Lemmas.RunK
namespace TB

/-- collision-freedom of the hash on the buffers of the run's pieces: two byte strings with the hash of one and
    the same piece are equal (the standing assumption on SHA-1, stated only for the piece hashes of this run) -/
def HInjOn (H : Bytes → Bytes) (work : List Work) : Prop :=
  ∀ w ∈ work, ∀ b b', H b = w.hash → H b' = w.hash → b = b'

/-- ranges of different work items never overlap inside one export image, and different segments of one work
    item lie in different images (facts of the layout, C06, for torrents whose files have distinct paths) -/
def RangesDisjoint (work : List Work) : Prop :=
  (∀ (a b : Nat) (w v : Work), work[a]? = some w → work[b]? = some v → a ≠ b →
    ∀ s ∈ w.segs, ∀ t ∈ v.segs, s.ent.isPad = false → t.ent.isPad = false → s.ent.fullTarget = t.ent.fullTarget →
      s.off + s.len ≤ t.off ∨ t.off + t.len ≤ s.off) ∧
  (∀ w ∈ work, ∀ (a b : Nat) (s t : WSeg), w.segs[a]? = some s → w.segs[b]? = some t → a ≠ b →
    s.ent.isPad = false → t.ent.isPad = false → s.ent.fullTarget ≠ t.ent.fullTarget)

/-- clause a: a work item of the run that verifies in the initial tree verifies in the final tree — and in the
    tree at every interruption point (every prefix of the log) -/
theorem C04_run_preserved (H : Bytes → Bytes) (inp : RunIn) (hwf : FsWF inp.fs)
    (hna : NoAlias inp.fs (run H inp).table)
    (hrange : ∀ w ∈ (run H inp).work, SegsInRange w)
    (hdisj : RangesDisjoint (run H inp).work)
    (hinj : HInjOn H (run H inp).work)
    (w : Work) (hw : w ∈ (run H inp).work) (hver : VerE H inp.fs w) (n : Nat) :
    VerE H (replay inp.fs ((run H inp).ops.take n)) w := by
  sorry

/-- pieces of torrents that are not loaded in this run (their images are not images of the run's table, and share
    no inode with them) are left exactly as they were -/
theorem C04_run_foreign_preserved (H : Bytes → Bytes) (inp : RunIn) (hwf : FsWF inp.fs)
    (hna : NoAlias inp.fs (run H inp).table) (w : Work)
    (hforeign : ∀ s ∈ w.segs, s.ent.isPad = false → ∀ e ∈ (run H inp).table, e.isPad = false →
      e.fullTarget ≠ s.ent.fullTarget ∧ ¬ Path.isPrefixOf s.ent.fullTarget e.fullTarget)
    (hver : VerE H inp.fs w) (n : Nat) :
    VerE H (replay inp.fs ((run H inp).ops.take n)) w := by
  sorry

end TB
