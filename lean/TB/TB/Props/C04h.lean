/-
  C04 (clause a at run level, and histories) — a piece that verifies in the export tree before a run still
  verifies after it, whatever the run does (faults anywhere, any evaluation order, any candidate order); hence
  over any sequence of runs the set of verifying pieces only grows.
-/
import TB.Spec.ExportSpec
import TB.Props.C01
import TB.Props.C11
import TB.Props.C12
import TB.Props.C04a
import TB.Props.C01bytes
import TB.Lemmas.RunK
import TB.Lemmas.RunKCex
namespace TB

/-- collision-freedom of the hash on the buffers of the run's pieces: two byte strings with the hash of one and
    the same piece are equal (the standing assumption on SHA-1, stated only for the piece hashes of this run) -/
def HInjOn (H : Bytes → Bytes) (work : List Work) : Prop :=
  ∀ w ∈ work, ∀ b b', H b = w.hash → H b' = w.hash → b = b'

/-- ranges of different work items never overlap inside one export image, and different segments of one work
    item lie in different images (facts of the layout, C06, for torrents whose files have distinct paths) -/
def RangesDisjoint (work : List Work) : Prop :=
  (∀ (a b : Nat) (w v : Work), work[a]? = some w → work[b]? = some v → a ≠ b →
    ∀ s ∈ w.segs, ∀ t ∈ v.segs, s.ent.isPad = false → t.ent.isPad = false → s.ent.fullTarget = t.ent.fullTarget →
      s.off + s.len ≤ t.off ∨ t.off + t.len ≤ s.off) ∧
  (∀ w ∈ work, ∀ (a b : Nat) (s t : WSeg), w.segs[a]? = some s → w.segs[b]? = some t → a ≠ b →
    s.ent.isPad = false → t.ent.isPad = false → s.ent.fullTarget ≠ t.ent.fullTarget)

/-- clause a: a work item of the run that verifies in the initial tree verifies in the final tree — and in the
    tree at every interruption point (every prefix of the log).

    STATEMENT CHANGE: the hypothesis `hsame` (non-padding table entries with the same export image declare the same
    length; the same hypothesis as in `C01_bytes`) was added because the first formulation is false without it, even
    for the final tree; the world is the checked example `TB.Lemmas.RunKCex` (`H = id`), see
    `C04_run_preserved_needs_hsame` below. One torrent lists the path `x` twice (finding D6): with length 2 and with
    length 0, followed by a file `y` of length 1; piece length 2. Piece 0 is `x[0,2)` and verifies in the initial
    tree. Piece 1 consists of a zero-length segment of the second `x` and of `y[0,1)`; it is found among the
    candidates, and writing its zero-length segment performs `set_len 0` on the image of `x`. Piece 0 does not
    verify any more (nor is it found again). `FsWF`, `NoAlias`, `SegsInRange`, `RangesDisjoint` (a zero-length range
    overlaps nothing) and `HInjOn` hold in that world. With `hsame`, a `set_len` on the image of a segment uses
    that segment's declared file length, which contains the segment (`SegsInRange`).

    Proof: along the replay, names keep their inodes, directories stay directories (so no proper prefix of an
    existing image can be created as a regular file) and export images share no inode (`RunK.SInv`); the byte
    window of every segment of `w` keeps its initial content (`RunK.Win`): a `set_len` does not cut into it, a write of
    another piece is disjoint from it (`RangesDisjoint`, first clause), and a write of `w` itself is the write of this
    very segment (second clause) cut from a buffer that, by `HInjOn`, is the concatenation of the parts read from
    the initial tree — it stores the bytes that are already there. -/
theorem C04_run_preserved (H : Bytes → Bytes) (inp : RunIn) (hwf : FsWF inp.fs)
    (hna : NoAlias inp.fs (run H inp).table)
    (hrange : ∀ w ∈ (run H inp).work, SegsInRange w)
    (hsame : ∀ e ∈ (run H inp).table, ∀ f ∈ (run H inp).table, e.isPad = false → f.isPad = false →
      e.fullTarget = f.fullTarget → e.fileLength = f.fileLength)
    (hdisj : RangesDisjoint (run H inp).work)
    (hinj : HInjOn H (run H inp).work)
    (w : Work) (hw : w ∈ (run H inp).work) (hver : VerE H inp.fs w) (n : Nat) :
    VerE H (replay inp.fs ((run H inp).ops.take n)) w :=
  RunK.run_preserved H inp hwf hna hrange hsame hdisj hinj w hw hver _ (fun _ h => List.mem_of_mem_take h)

/-- the first formulation (without `hsame`) is refuted by the world of `TB.Lemmas.RunKCex` -/
theorem C04_run_preserved_needs_hsame :
    ¬ (∀ (H : Bytes → Bytes) (inp : RunIn), FsWF inp.fs → NoAlias inp.fs (run H inp).table →
        (∀ w ∈ (run H inp).work, SegsInRange w) → RangesDisjoint (run H inp).work → HInjOn H (run H inp).work →
        ∀ w ∈ (run H inp).work, VerE H inp.fs w →
          ∀ n, VerE H (replay inp.fs ((run H inp).ops.take n)) w) := by
  intro h
  have := h id RunK.Cex.inp RunK.Cex.wf RunK.Cex.noAlias RunK.Cex.segsInRange RunK.Cex.disj RunK.Cex.hinj
    RunK.Cex.w0 RunK.Cex.w0_mem RunK.Cex.w0_ver (run id RunK.Cex.inp).ops.length
  rw [List.take_length, ← C11_replay] at this
  exact RunK.Cex.w0_not_ver this

/-- pieces of torrents that are not loaded in this run (their images are not images of the run's table, and share
    no inode with them) are left exactly as they were.
    (Only the first conjunct of `hforeign` is used: a proper prefix of an existing image is a directory of the
    well-formed initial tree, stays one, and so is never created as a regular file.) -/
theorem C04_run_foreign_preserved (H : Bytes → Bytes) (inp : RunIn) (hwf : FsWF inp.fs)
    (hna : NoAlias inp.fs (run H inp).table) (w : Work)
    (hforeign : ∀ s ∈ w.segs, s.ent.isPad = false → ∀ e ∈ (run H inp).table, e.isPad = false →
      e.fullTarget ≠ s.ent.fullTarget ∧ ¬ Path.isPrefixOf s.ent.fullTarget e.fullTarget)
    (hver : VerE H inp.fs w) (n : Nat) :
    VerE H (replay inp.fs ((run H inp).ops.take n)) w :=
  RunK.foreign_preserved H inp hwf hna w (fun s hs hp e he hpe => (hforeign s hs hp e he hpe).1) hver _
    (fun _ h => List.mem_of_mem_take h)

end TB
