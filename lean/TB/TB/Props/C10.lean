/-
  C10 — a torrent loads iff it is well-formed, and the loaded fields are faithful.
  Property theorems only; helper lemmas live in TB/Lemmas/Torrent.lean.
-/
import TB.Model.Torrent
import TB.Spec.MetainfoSpec
import TB.Props.C08
import TB.Lemmas.Torrent
namespace TB

/-- a byte string loads as a torrent iff it is the canonical encoding of a value that the declarative
    specification `specLoad` (TB.Spec.MetainfoSpec) accepts, and then the loaded record is exactly the
    record the specification reads off that value (name/lengths/paths/piece length/hashes; info-hash =
    hash of the canonical encoding of the info value) -/
theorem C10_iff (H : Bytes → Bytes) (inp : Bytes) (T : Torrent) :
    load H inp = .ok T ↔ ∃ v, canon v = true ∧ encode v = inp ∧ specLoad H v = some T := by
  constructor
  · intro h
    obtain ⟨rks, rvs, s0, c0, iks, ivs, s, c, info, _, hcan, henc, hf, _, _, hsl, hs, rfl⟩ := load_ok_struct h
    refine ⟨.dict (eraseDict rks rvs), hcan, henc, ?_⟩
    simp only [specLoad, dictGet_eraseDict, hf, Option.map_some, erase, hs, hsl]
  · rintro ⟨v, hc, rfl, hs⟩
    exact load_of_spec hc hs

/-- loading never yields anything but a record or an error for non-canonical input -/
theorem C10_rejects_noncanonical (H : Bytes → Bytes) (inp : Bytes)
    (h : ¬ ∃ v, canon v = true ∧ encode v = inp) : load H inp = .err := by
  have hno : ¬ ∃ t, decode inp = .ok t := fun ht => h ((C08_accepts_iff inp).1 ht)
  unfold load
  split
  · rfl
  · rename_i hp; exact absurd hp (C08_no_panic inp)
  · rename_i hd; exact absurd ⟨_, hd⟩ hno
  · rfl

/-- lookups are by exact key: the value returned for `key` is the value of the first entry whose key equals
    `key` byte for byte; entries with other keys (prefixes, extensions, neighbours in sort order) are inert -/
theorem C10_exactkey (ks : List StrTok) (vs : List Tok) (key : Bytes) (v : Tok)
    (h : findValue ks vs key = some v) :
    ∃ i, ∃ (hk : i < ks.length) (hv : i < vs.length), ks[i].val = key ∧ vs[i] = v ∧
      ∀ j (hj : j < i), (ks[j]'(by omega)).val ≠ key := by
  induction ks generalizing vs with
  | nil => simp [findValue] at h
  | cons k ks ih =>
    cases vs with
    | nil => simp [findValue] at h
    | cons w ws =>
      simp only [findValue] at h
      split at h
      · rename_i hk
        cases h
        exact ⟨0, by simp, by simp, hk, rfl, fun j hj => absurd hj (Nat.not_lt_zero j)⟩
      · rename_i hk
        obtain ⟨i, hi1, hi2, h1, h2, h3⟩ := ih ws h
        refine ⟨i + 1, by simp only [List.length_cons]; omega, by simp only [List.length_cons]; omega, ?_, ?_, ?_⟩
        · simpa using h1
        · simpa using h2
        · intro j hj
          cases j with
          | zero => simpa using hk
          | succ j => simpa using h3 j (by omega)

theorem C10_exactkey_none (ks : List StrTok) (vs : List Tok) (key : Bytes)
    (hlen : ks.length = vs.length) (h : findValue ks vs key = none) :
    ∀ k ∈ ks, k.val ≠ key := by
  induction ks generalizing vs with
  | nil => intro k hk; cases hk
  | cons k0 ks ih =>
    cases vs with
    | nil => simp at hlen
    | cons w ws =>
      simp only [findValue] at h
      split at h
      · cases h
      · rename_i hk0
        intro k hk
        rcases List.mem_cons.1 hk with rfl | hk
        · exact hk0
        · exact ih ws (by simpa using hlen) h k hk

/-- what a loaded record always satisfies (used by C06/C12/C03): the relation between total length, piece
    length and number of hashes; non-empty file list; plain names -/
theorem C10_loaded_wf (H : Bytes → Bytes) (inp : Bytes) (T : Torrent) (h : load H inp = .ok T) :
    utf8Valid T.info.name = true ∧ plainComponent T.info.name = true
    ∧ (∀ hsh ∈ T.info.pieces, hsh.length = 20)
    ∧ T.info.pieceLength ≤ u64Max
    ∧ ((∃ l, T.info.length = some l ∧ T.info.files = none ∧ l ≤ u64Max
          ∧ pieceCountOk l T.info.pieceLength T.info.pieces.length = true)
       ∨ (∃ fs, T.info.length = none ∧ T.info.files = some fs ∧ fs ≠ []
          ∧ (∀ f ∈ fs, f.length ≤ u64Max ∧ f.path ≠ [] ∧ ∀ c ∈ f.path, utf8Valid c = true ∧ plainComponent c = true)
          ∧ pieceCountOk ((fs.map (·.length)).sum) T.info.pieceLength T.info.pieces.length = true)) := by
  obtain ⟨_, _, _, _, iks, ivs, _, _, info, _, _, _, _, _, _, _, hs, rfl⟩ := load_ok_struct h
  exact specInfo_wf hs

end TB
