/-
  C10 — a torrent loads iff it is well-formed, and the loaded fields are faithful.
  Property theorems only; helper lemmas live in TB/Lemmas/Torrent.lean.
-/
import TB.Model.Torrent
import TB.Spec.MetainfoSpec
import TB.Props.C08
import TB.Lemmas.Torrent
namespace TB

/-- a byte string loads as a torrent iff it is the canonical encoding of a value that the declarative
    specification `specLoad` (TB.Spec.MetainfoSpec) accepts, and then the loaded record is exactly the
    record the specification reads off that value (name/lengths/paths/piece length/hashes; info-hash =
    hash of the canonical encoding of the info value) -/
theorem C10_iff (H : Bytes → Bytes) (inp : Bytes) (T : Torrent) :
    load H inp = .ok T ↔ ∃ v, canon v = true ∧ encode v = inp ∧ specLoad H v = some T := by
  sorry

/-- loading never yields anything but a record or an error for non-canonical input -/
theorem C10_rejects_noncanonical (H : Bytes → Bytes) (inp : Bytes)
    (h : ¬ ∃ v, canon v = true ∧ encode v = inp) : load H inp = .err := by
  sorry

/-- lookups are by exact key: the value returned for `key` is the value of the first entry whose key equals
    `key` byte for byte; entries with other keys (prefixes, extensions, neighbours in sort order) are inert -/
theorem C10_exactkey (ks : List StrTok) (vs : List Tok) (key : Bytes) (v : Tok)
    (h : findValue ks vs key = some v) :
    ∃ i, ∃ (hk : i < ks.length) (hv : i < vs.length), ks[i].val = key ∧ vs[i] = v ∧
      ∀ j (hj : j < i), (ks[j]'(by omega)).val ≠ key := by
  sorry

theorem C10_exactkey_none (ks : List StrTok) (vs : List Tok) (key : Bytes)
    (hlen : ks.length = vs.length) (h : findValue ks vs key = none) :
    ∀ k ∈ ks, k.val ≠ key := by
  sorry

/-- what a loaded record always satisfies (used by C06/C12/C03): the relation between total length, piece
    length and number of hashes; non-empty file list; plain names -/
theorem C10_loaded_wf (H : Bytes → Bytes) (inp : Bytes) (T : Torrent) (h : load H inp = .ok T) :
    utf8Valid T.info.name = true ∧ plainComponent T.info.name = true
    ∧ (∀ hsh ∈ T.info.pieces, hsh.length = 20)
    ∧ T.info.pieceLength ≤ u64Max
    ∧ ((∃ l, T.info.length = some l ∧ T.info.files = none ∧ l ≤ u64Max
          ∧ pieceCountOk l T.info.pieceLength T.info.pieces.length = true)
       ∨ (∃ fs, T.info.length = none ∧ T.info.files = some fs ∧ fs ≠ []
          ∧ (∀ f ∈ fs, f.length ≤ u64Max ∧ f.path ≠ [] ∧ ∀ c ∈ f.path, utf8Valid c = true ∧ plainComponent c = true)
          ∧ pieceCountOk ((fs.map (·.length)).sum) T.info.pieceLength T.info.pieces.length = true)) := by
  sorry

end TB
