/-
  C17 (order of evaluation) — when no candidate list reaches ANOTHER entry's export image, the order in which the
  pieces are evaluated does not matter.

  In the model the evaluation order is a parameter (`inp.order`; `RunQ.evalOrder work order` is the order actually
  used, a permutation of the work list: `C02_run_eval`). The real tool's order depends on hash-map iteration and
  thread interleaving, so final trees of different real runs may be compared only when the order provably does not
  matter. The rule used for that — "no torrent file's candidate list reaches another entry's export image" — is
  stated here (`NoCross`) and proved to be sufficient (`C17_order_independent`); `C17_cross_candidate_order_dependent`
  shows the phenomenon it excludes.

    Z4  `C17_cross_candidate_order_dependent`   a world WITH a cross-candidate where two orders give different trees
        and counters; `C17_cross_world_not_noCross`, `C17_order_independent_needs_noCross`.
    Z0  `NoCross` (`NoCross_of_names`: with `NoAlias` the name clause suffices).
    Z1  `C17_solvePiece_reads` (a piece reads only the ranges of its candidates), `C17_solvePiece_writes` (it writes
        only its own images inside its own ranges), `C17_solvePiece_obsEq` (it respects `ObsEq`),
        `C17_solvePiece_frame` (the evaluation of one piece leaves the reads of another as they were).
    Z2  `C17_two_pieces_commute`; `C17_own_image_short_cex` / `C17_two_pieces_commute_needs_ownLen` (why `OwnLen` is
        assumed: `set_len` of the other piece extends a short own image), `C17_nested_images_cex` (why "no I/O
        error" is assumed).
    Z3  `C17_order_independent` (any two orders of a run), `C17_own_length_of_run` (`OwnLen` holds in every run) and
        `C17_order_independent'` (Z3 without it), `C17_order_independent_observed` (in terms of result and counters),
        `C17_run_answers`, the non-vacuity example.

  Definitions made in TB.Lemmas.RunZ (namespace TB.RunZ): `pMatch` / `MRes` / `afterMatch` (the matcher of
  `solvePiece` as a pure function of the bytes behind the names), `ReadAgree`, `FilesOk`, `OwnLen`, `PC`, `IsSecOf`, `evalAll`,
  `countersOf`; the invariant `Good` of the observable part of a tree and the static facts `Stat`.

  `HInjOn` is NOT needed anywhere in this file: without cross-candidates a piece reads the same bytes in both orders,
  so its matched buffer is the same because the matcher is deterministic, not because the hash is collision-free.
-/
import TB.Lemmas.RunZ
import TB.Props.C05writes
import TB.Props.C02chain
import TB.Lemmas.RunQCex
namespace TB
open TB.RunX TB.RunZ TB.RB

/-! ### Z4 — the phenomenon: a cross-candidate makes the result depend on the order -/

namespace C17w

def ihA : Bytes := [0xAA]
def ihB : Bytes := [0xBB]
def na : Bytes := [97]
def nb : Bytes := [98]
def eDir : Path := [[101]]
def sDir : Path := [[115]]
def rootA : Path := eDir ++ [hex ihA, sData]
def rootB : Path := eDir ++ [hex ihB, sData]
/-- the export image of torrent A's file -/
def imgA : Path := rootA ++ [na]
/-- the export image of torrent B's file -/
def imgB : Path := rootB ++ [nb]
/-- a file below the scan directory -/
def src : Path := sDir ++ [[48]]

/-- torrent A: one file `a` of length 1, its piece is `[1]` (`H = id`) -/
def torA : Torrent := ⟨⟨na, some 1, none, 1, [[1]]⟩, ihA⟩
/-- torrent B: one file `b` of length 1, its piece is `[2]` -/
def torB : Torrent := ⟨⟨nb, some 1, none, 1, [[2]]⟩, ihB⟩

/-- the image of A exists, has the right length and holds `[2]` — the bytes B's piece needs; the scan directory
    holds `[1]` — the bytes A's piece needs; the image of B does not exist -/
def fs0 : Fs :=
  { files := [(imgA, 0), (src, 1)],
    dirs := [eDir, sDir, eDir ++ [hex ihA], rootA],
    data := [(0, [2]), (1, [1])],
    next := 2 }

def inp (order : List (List (Nat × Nat × Nat) × Bytes)) : RunIn :=
  { fs := fs0, torrents := [torA, torB], scan := [⟨true, sDir⟩], exportDir := ⟨true, eDir⟩, resize := false,
    searchObs := [], order := order, faults := [] }

/-- the observed order "A's piece, then B's piece" (the default order is the reverse of the work list: B, then A) -/
def ordAB : List (List (Nat × Nat × Nat) × Bytes) := [([(0, 0, 1)], [1]), ([(1, 0, 1)], [2])]

def eA : TEntry := ⟨0, ihA, 0, 1, imgA, [na], false, some [imgA, src]⟩
/-- the candidate list of B's file reaches the image of A: a cross-candidate -/
def eB : TEntry := ⟨1, ihB, 0, 1, imgB, [nb], false, some [imgA, src]⟩
def wA : Work := ⟨[⟨1, 0, eA⟩], [1]⟩
def wB : Work := ⟨[⟨1, 0, eB⟩], [2]⟩

theorem run_table : (run id (inp [])).table = [eA, eB] := by decide +kernel
theorem run_work : (run id (inp [])).work = [wA, wB] := by decide +kernel
theorem ord_BA : RunQ.evalOrder (run id (inp [])).work (inp []).order = [wB, wA] := by decide +kernel
theorem ord_AB : RunQ.evalOrder (run id (inp ordAB)).work (inp ordAB).order = [wA, wB] := by decide +kernel

end C17w

/-- Z4. THE PHENOMENON THE RULE EXISTS FOR. Two single-file torrents A and B (`H = id`); the export image of A exists
    with the right length and holds the bytes of B's piece (so it is a candidate for B's file: a CROSS-candidate),
    the bytes of A's piece lie in the scan directory. No fault points, both observed orders admissible
    (`resolutionOk`), the two inputs differ in `order` only.
    * B first (the default order): B's piece is matched from the image of A and written; then A's piece is matched
      from the scan directory and overwrites the image of A. Both pieces are recovered.
    * A first: A's piece overwrites the image of A — the only source of B's bytes; B's piece is not found, and the
      image of B is never created.
    The final counters and the final trees differ. -/
theorem C17_cross_candidate_order_dependent :
    (C17w.inp C17w.ordAB) = { C17w.inp [] with order := C17w.ordAB } ∧
    (run id (C17w.inp [])).resolutionOk = true ∧ (run id (C17w.inp C17w.ordAB)).resolutionOk = true ∧
    (run id (C17w.inp [])).result = .ok () ∧ (run id (C17w.inp C17w.ordAB)).result = .ok () ∧
    (run id (C17w.inp [])).counters.getLast? = some ⟨2, 0, 0⟩ ∧
    (run id (C17w.inp C17w.ordAB)).counters.getLast? = some ⟨1, 1, 0⟩ ∧
    (∃ i, (run id (C17w.inp [])).fs.look C17w.imgB = .file i ∧ (run id (C17w.inp [])).fs.content i = [2]) ∧
    (run id (C17w.inp C17w.ordAB)).fs.look C17w.imgB = .notFound ∧
    ¬ ObsEq (run id (C17w.inp [])).fs (run id (C17w.inp C17w.ordAB)).fs := by
  refine ⟨rfl, by decide +kernel, by decide +kernel, by decide +kernel, by decide +kernel, by decide +kernel,
    by decide +kernel, ⟨2, by decide +kernel, by decide +kernel⟩, by decide +kernel, ?_⟩
  intro h
  have := h.2.1 C17w.imgB
  revert this
  decide +kernel

/-! ### Z0 — no cross-candidates -/

/-- Z0. NO CROSS-CANDIDATES. For every work item and every non-padding segment with a candidate list, every
    candidate `p` is either the segment's OWN export image, or a name that is no export image of the table and (in
    `fs`) shares no inode with the export image of a non-padding table entry. Candidates are thus read-only sources
    for the whole run, except each segment's own image.

    (Under `NoAlias fs table` the inode clause follows from the name clause for non-padding entries:
    `NoCross_of_names`. The theorems below use only: "own image, or no image of a NON-PADDING entry" — images of
    padding entries are never written.) -/
def NoCross (fs : Fs) (table : List TEntry) (work : List Work) : Prop :=
  ∀ w ∈ work, ∀ s ∈ w.segs, s.ent.isPad = false → ∀ paths, s.ent.searches = some paths → ∀ p ∈ paths,
    p = s.ent.fullTarget ∨
    ((∀ e ∈ table, p ≠ e.fullTarget) ∧
     (∀ e ∈ table, e.isPad = false → ∀ i, fs.inoOf p = some i → fs.inoOf e.fullTarget ≠ some i))

/-- with `NoAlias`, the name clause of `NoCross` suffices -/
theorem NoCross_of_names (fs : Fs) (table : List TEntry) (work : List Work) (hna : NoAlias fs table)
    (h : ∀ w ∈ work, ∀ s ∈ w.segs, s.ent.isPad = false → ∀ paths, s.ent.searches = some paths → ∀ p ∈ paths,
      p = s.ent.fullTarget ∨ ∀ e ∈ table, p ≠ e.fullTarget) :
    NoCross fs table work := by
  intro w hw s hs sp paths hps p hp
  rcases h w hw s hs sp paths hps p hp with h1 | h1
  · exact Or.inl h1
  · exact Or.inr ⟨h1, fun e he ep i hi hj => h1 e he (hna e he ep p i hj hi)⟩

theorem NoCross.mono {fs : Fs} {table : List TEntry} {work work' : List Work} (h : NoCross fs table work)
    (hsub : ∀ w ∈ work', w ∈ work) : NoCross fs table work' :=
  fun w hw => h w (hsub w hw)

/-- the world of Z4 violates `NoCross` (and nothing else that `C17_order_independent'` assumes:
    `C17_order_independent_needs_noCross`) -/
theorem C17_cross_world_not_noCross :
    ¬ NoCross (C17w.inp []).fs (run id (C17w.inp [])).table (run id (C17w.inp [])).work := by
  rw [C17w.run_table, C17w.run_work]
  intro h
  rcases h C17w.wB (by simp) ⟨1, 0, C17w.eB⟩ (by simp [C17w.wB]) rfl [C17w.imgA, C17w.src] rfl C17w.imgA (by simp)
    with h1 | h1
  · revert h1; decide +kernel
  · exact h1.1 C17w.eA (by simp) rfl

/-- the static facts the lemmas of `TB.RunZ` use -/
theorem stat_of {fs : Fs} {table : List TEntry} {work : List Work}
    (hent : ∀ w ∈ work, ∀ s ∈ w.segs, s.ent ∈ table) (hrange : ∀ w ∈ work, SegsInRange w)
    (hsame : ∀ e ∈ table, ∀ f ∈ table, e.isPad = false → f.isPad = false →
      e.fullTarget = f.fullTarget → e.fileLength = f.fileLength)
    (hcross : NoCross fs table work) : Stat table work :=
  ⟨hent, hrange, hsame, fun w hw s hs sp paths hps p hp =>
    (hcross w hw s hs sp paths hps p hp).imp id (fun h e he _ => h.1 e he)⟩

/-! ### Z1 — what a piece reads and what it writes -/

/-- Z1 (reads). A piece evaluated without fault points, its candidates being regular files, READS ONLY THE RANGES
    `[seg.off, seg.off + seg.len)` OF ITS CANDIDATES: `solvePiece` is the pure matcher `pMatch` applied to the bytes
    behind the names (`(view fs).F`), followed — on a hit — by the writer (`afterMatch`), from a state `st1` whose tree
    is still `st.fs`; and `pMatch` gives the same decision (panic / not found / hit with the same sources and the same
    buffer) for two trees that agree on those ranges (`ReadAgree`). Nothing else is assumed about the two trees. -/
theorem C17_solvePiece_reads (H : Bytes → Bytes) (st st' : St) (w : Work)
    (hf : st.faults = []) (hf' : st'.faults = []) (hfiles : FilesOk st.fs w) (hfiles' : FilesOk st'.fs w)
    (hagree : ReadAgree (view st.fs).F (view st'.fs).F w) :
    ∃ m st1 st1', st1.fs = st.fs ∧ st1.faults = [] ∧ st1'.fs = st'.fs ∧ st1'.faults = [] ∧
      solvePiece H st w = afterMatch st1 m ∧ solvePiece H st' w = afterMatch st1' m := by
  obtain ⟨st1, e1, f1, h1⟩ := solvePiece_pure H st w hf hfiles
  obtain ⟨st1', e1', f1', h1'⟩ := solvePiece_pure H st' w hf' hfiles'
  rw [← pMatch_congr H hagree] at h1'
  exact ⟨_, st1, st1', e1, f1, e1', f1', h1, h1'⟩

/-- in particular the answers `notFound` and `panic` do not depend on anything but those ranges -/
theorem C17_solvePiece_reads_answer (H : Bytes → Bytes) (st st' : St) (w : Work)
    (hf : st.faults = []) (hf' : st'.faults = []) (hfiles : FilesOk st.fs w) (hfiles' : FilesOk st'.fs w)
    (hagree : ReadAgree (view st.fs).F (view st'.fs).F w) :
    ((solvePiece H st w).2 = .notFound ↔ (solvePiece H st' w).2 = .notFound) ∧
    ((solvePiece H st w).2 = .panic ↔ (solvePiece H st' w).2 = .panic) := by
  obtain ⟨m, st1, st1', _, _, _, _, h1, h1'⟩ := C17_solvePiece_reads H st st' w hf hf' hfiles hfiles' hagree
  rw [h1, h1']
  cases m with
  | panic => simp [afterMatch]
  | notFound => simp [afterMatch]
  | hit pairs buf =>
    simp only [afterMatch]
    have a := RC.writeSegs_ne_notFound st1 pairs buf 0
    have a' := RC.writeSegs_ne_notFound st1' pairs buf 0
    have b := writeSegs_found_or_fault st1 pairs buf 0
    have b' := writeSegs_found_or_fault st1' pairs buf 0
    refine ⟨⟨fun h => absurd h a, fun h => absurd h a'⟩, ⟨fun h => ?_, fun h => ?_⟩⟩
    · rcases b with b | b <;> rw [b] at h <;> cases h
    · rcases b' with b' | b' <;> rw [b'] at h <;> cases h

/-- Z1 (writes). A piece evaluated without fault points that answers `found` WRITES ONLY ITS OWN IMAGES, INSIDE ITS OWN
    SEGMENT RANGES: the final tree is the result of a sequence of critical sections (`Fs.crits`: `create_dir_all`,
    create-open, `set_len` to the declared length, positional write), each of which belongs to a non-padding segment
    of `w` — its target is that segment's export image, its length the declared file length, its offset the segment's
    offset, its data no longer than the segment. (For the inode-level frame — every other file keeps its content
    and every other name its binding, whatever the answer — see `C04a_frame`.) -/
theorem C17_solvePiece_writes (H : Bytes → Bytes) (st : St) (w : Work) (hf : st.faults = [])
    (hfiles : FilesOk st.fs w) (hfound : (solvePiece H st w).2 = .found) :
    ∃ secs, st.fs.crits secs = some (solvePiece H st w).1.fs ∧ ∀ a ∈ secs, IsSecOf w a := by
  obtain ⟨st1, e1, f1, h1⟩ := solvePiece_pure H st w hf hfiles
  rw [h1] at hfound ⊢
  cases hm : pMatch H (view st.fs).F w with
  | panic => rw [hm] at hfound; simp [afterMatch] at hfound
  | notFound => rw [hm] at hfound; simp [afterMatch] at hfound
  | hit pairs buf =>
    rw [hm] at hfound
    simp only [afterMatch] at hfound ⊢
    obtain ⟨c, _, _⟩ := writeSegs_crits pairs st1 _ buf 0 f1 (Prod.ext rfl hfound)
    rw [e1] at c
    refine ⟨_, c, fun a ha => ?_⟩
    obtain ⟨x, hx, xp, xt, xL, xo, xd⟩ := mem_secsOf _ _ _ _ ha
    exact ⟨x.1, pMatch_pairs_mem hm x hx, xp, xt, xL, xo, xd⟩

/-- Z1 (trees that cannot be told apart). Two well-formed, observationally equivalent trees, no fault points, the
    candidates of `w` regular files: if the evaluation of `w` on the first does not end in an I/O error, it gives the
    same answer on the second, and observationally equivalent trees. -/
theorem C17_solvePiece_obsEq (H : Bytes → Bytes) (st st' : St) (w : Work)
    (hf : st.faults = []) (hf' : st'.faults = []) (hwf : FsWF st.fs) (hwf' : FsWF st'.fs)
    (hfiles : FilesOk st.fs w) (hobs : ObsEq st.fs st'.fs) (hne : (solvePiece H st w).2 ≠ .fault) :
    (solvePiece H st' w).2 = (solvePiece H st w).2 ∧ ObsEq (solvePiece H st w).1.fs (solvePiece H st' w).1.fs := by
  have hfiles' : FilesOk st'.fs w := by
    intro s hs paths hps p hp
    obtain ⟨i, hi⟩ := hfiles s hs paths hps p hp
    obtain ⟨j, hj, _⟩ := obsEq_look_file hobs hi
    exact ⟨j, hj⟩
  obtain ⟨_, _, a, _⟩ := solvePiece_view H st w hf hwf hfiles
  obtain ⟨_, _, a', b'⟩ := solvePiece_view H st' w hf' hwf' hfiles'
  have hv := (obsEq_iff_view _ _).1 hobs
  have h1 := a hne
  rw [hv] at h1
  have h2 := a' (b' (by rw [h1]; intro h; cases h))
  rw [h1] at h2
  simp only [Option.some.injEq, Prod.mk.injEq] at h2
  exact ⟨h2.2.symm, (obsEq_iff_view _ _).2 h2.1⟩

/-- Z1 (the frame that makes the induction go through). `w1`, `w2` are two work items of `work` whose ranges inside a
    common export image are disjoint (`PC`, the cross-item clause of `RangesDisjoint`). From a state without fault
    points whose tree is well-formed, has no aliased export image, whose candidates are regular files, and in which
    own-image candidates have their declared length: if the evaluation of `w1` does not end in an I/O error, THE TREE
    AFTER IT AGREES WITH THE TREE BEFORE IT ON EVERYTHING `w2` READS (`ReadAgree`) — so by `C17_solvePiece_reads` the
    matcher of `w2` decides the same before and after `w1`. This is the relation used: finer than `ObsEq` (the trees
    do differ — in the images of `w1`, outside the ranges of `w2`), and exactly what the matcher depends on.
    Why: a candidate of `w2` that is no export image shares no file with an image `w1` writes (`NoCross`, `NoAlias`);
    the own image of a segment of `w2` has its declared length already, so the `set_len` of `w1` does nothing to it,
    and `w1` writes it outside that segment's range. -/
theorem C17_solvePiece_frame (H : Bytes → Bytes) (st : St) (table : List TEntry) (work : List Work) (w1 w2 : Work)
    (hf : st.faults = []) (hwf : FsWF st.fs) (hna : NoAlias st.fs table)
    (hcross : NoCross st.fs table work) (hent : ∀ w ∈ work, ∀ s ∈ w.segs, s.ent ∈ table)
    (hrange : ∀ w ∈ work, SegsInRange w)
    (hsame : ∀ e ∈ table, ∀ f ∈ table, e.isPad = false → f.isPad = false →
      e.fullTarget = f.fullTarget → e.fileLength = f.fileLength)
    (hfiles : ∀ w ∈ work, FilesOk st.fs w) (hown : ∀ w ∈ work, OwnLen st.fs w)
    (hw1 : w1 ∈ work) (hw2 : w2 ∈ work) (hpc : PC w1 w2) (h1 : (solvePiece H st w1).2 ≠ .fault) :
    ReadAgree (view st.fs).F (view (solvePiece H st w1).1.fs).F w2 ∧
    (solvePiece H st w1).1.faults = [] ∧ FsWF (solvePiece H st w1).1.fs ∧
    NoAlias (solvePiece H st w1).1.fs table ∧
    (∀ w ∈ work, FilesOk (solvePiece H st w1).1.fs w) ∧ (∀ w ∈ work, OwnLen (solvePiece H st w1).1.fs w) := by
  have S := stat_of hent hrange hsame hcross
  have G : Good table work (view st.fs) := good_of_fs hwf hna hfiles hown
  obtain ⟨f1, wf1, a, _⟩ := solvePiece_view H st w1 hf hwf (hfiles w1 hw1)
  have G1 := vstepP_good S G hw1 (a h1)
  refine ⟨vstepP_frame S G hw1 hw2 hpc (a h1), f1, wf1, ?_, fun w hw => filesOk_of_good G1 hw, ?_⟩
  · intro e he hp q i hi hq
    apply G1.alias e he hp q
    show (((solvePiece H st w1).1.fs.inoOf e.fullTarget).isSome
      && (solvePiece H st w1).1.fs.inoOf e.fullTarget == (solvePiece H st w1).1.fs.inoOf q) = true
    rw [hi, hq]
    simp
  · intro w hw s hs sp paths hps hmem i hi
    exact G1.ownLen w hw s hs sp paths hps hmem _ (by
      show ((solvePiece H st w1).1.fs.inoOf s.ent.fullTarget).map _ = _
      rw [hi]; rfl)

/-! ### Z2 — two pieces -/

/-- Z2. TWO PIECES COMMUTE. `w1`, `w2` are two pieces evaluated from the state `st`, in the two possible orders.

    assumed
    * `hf`: no fault points (`faults = []`) — the statement is about the order, not about injected I/O errors;
    * `hwf`: the tree is well-formed (`FsWF`);
    * `hna`: no export image of the table shares its inode with another name (`NoAlias`) — so that a write to an
      image shows through no candidate and no other image;
    * `hcross`: `NoCross` for the two pieces — every candidate is the segment's own image or no image at all;
    * `hent`: the entries of the segments are table entries (true for the work items of a run);
    * `hc : PiecesCompat st.fs w1 w2` — of which `SegsInRange` for both pieces and the cross-item clause of
      `RangesDisjoint` (segments of `w1` and `w2` in the same image occupy disjoint ranges) are used;
    * `hsame`: non-padding table entries with the same image declare the same length (finding D6 otherwise);
    * `hfiles`: the candidates are regular files, so that no candidate read fails (the index registers regular
      files only, and they stay regular files: `RunQ.candidates_files`; whether the statement survives without it
      has not been examined — a missing candidate makes the evaluation end in an I/O error in either order);
    * `hown` (`OwnLen`): a segment's OWN image, when it is among the segment's candidates, has its declared length.
      THIS HYPOTHESIS IS NECESSARY: `C17_own_image_short_cex`. With a shorter own image the `set_len` of the other
      piece (another range of the same file) extends it with zeros before it is read, and a piece of zeros that was
      not found in the short file is found in the extended one. In a run the index registers an export image as a
      candidate only under its actual length, so the hypothesis holds in the state in which a run starts to evaluate
      pieces (`C17_own_length_of_run`), and it is kept by every piece evaluation;
    * `h1`, `h12`: in the order `w1`, `w2` neither evaluation ends in an I/O error. Without fault points that can only
      come from the writer (a regular file where a directory is needed, a directory where the image is to be
      created, a matched buffer shorter than the piece). THIS HYPOTHESIS IS NECESSARY: `C17_nested_images_cex` (the
      image of the one piece is a proper prefix of the image of the other: whichever comes second fails).
    NOT assumed: `HInjOn` (the pieces read the same bytes in both orders, so they match the same buffers), anything
    about the answers being `found` (a piece may be `notFound` — in both orders — or the whole evaluation may panic),
    `w1 ≠ w2`.

    proved: `w2` gets the same answer before and after `w1`; `w1` gets the same answer after `w2` as before (so the
    other order meets no I/O error either); the two final trees are observationally equivalent (`ObsEq`; they are in
    general not equal: inode numbers of created files depend on the order). -/
theorem C17_two_pieces_commute (H : Bytes → Bytes) (st : St) (table : List TEntry) (w1 w2 : Work)
    (hf : st.faults = []) (hwf : FsWF st.fs) (hna : NoAlias st.fs table)
    (hcross : NoCross st.fs table [w1, w2])
    (hent : ∀ w ∈ [w1, w2], ∀ s ∈ w.segs, s.ent ∈ table)
    (hc : PiecesCompat st.fs w1 w2)
    (hsame : ∀ e ∈ table, ∀ f ∈ table, e.isPad = false → f.isPad = false →
      e.fullTarget = f.fullTarget → e.fileLength = f.fileLength)
    (hfiles : ∀ w ∈ [w1, w2], FilesOk st.fs w) (hown : ∀ w ∈ [w1, w2], OwnLen st.fs w)
    (h1 : (solvePiece H st w1).2 ≠ .fault) (h12 : (solvePiece H (solvePiece H st w1).1 w2).2 ≠ .fault) :
    (solvePiece H st w2).2 = (solvePiece H (solvePiece H st w1).1 w2).2 ∧
    (solvePiece H (solvePiece H st w2).1 w1).2 = (solvePiece H st w1).2 ∧
    ObsEq (solvePiece H (solvePiece H st w1).1 w2).1.fs (solvePiece H (solvePiece H st w2).1 w1).1.fs := by
  have hrange : ∀ w ∈ [w1, w2], SegsInRange w := by
    intro w hw
    rcases List.mem_cons.1 hw with rfl | hw
    · exact hc.r1
    · rcases List.mem_cons.1 hw with rfl | hw
      · exact hc.r2
      · cases hw
  have S := stat_of hent hrange hsame hcross
  have G : Good table [w1, w2] (view st.fs) := good_of_fs hwf hna hfiles hown
  exact two_pieces S H st hf hwf G List.mem_cons_self (List.mem_cons_of_mem _ List.mem_cons_self) hc.cross h1 h12

/-- a decidable form of `FilesOk` -/
theorem filesOk_of_dec {fs : Fs} {w : Work}
    (h : ∀ s ∈ w.segs, ∀ p ∈ s.ent.searches.getD [], (match fs.look p with | .file _ => true | _ => false) = true) :
    FilesOk fs w := by
  intro s hs paths hps p hp
  have := h s hs p (by rw [hps]; exact hp)
  cases hl : fs.look p with
  | file i => exact ⟨i, rfl⟩
  | notFound => rw [hl] at this; cases this
  | notDir => rw [hl] at this; cases this
  | dir => rw [hl] at this; cases this

/-- a checkable form of `NoAlias` -/
theorem noAlias_of_dec {fs : Fs} {table : List TEntry}
    (h : ∀ e ∈ table, ∀ f ∈ fs.files, ∀ g ∈ fs.files, f.1 = e.fullTarget → g.2 = f.2 → g.1 = e.fullTarget) :
    NoAlias fs table := by
  intro e he _ q i h1 h2
  exact h e he _ (RunF.inoOf_mem h1) _ (RunF.inoOf_mem h2) rfl rfl

/-- a checkable form of `FsWF` -/
theorem wf_of_dec {fs : Fs} (h1 : ∀ e ∈ fs.files, e.2 < fs.next) (h2 : (fs.files.map (·.1)).Nodup)
    (h3 : ∀ e ∈ fs.files, fs.isDir e.1 = false) (h4 : ∀ e ∈ fs.files, ∀ q ∈ Fs.properPrefixes e.1, fs.isDir q = true) :
    FsWF fs :=
  ⟨fun p i h => h1 (p, i) h, h2, fun p i h => h3 (p, i) h, fun p i h => h4 (p, i) h⟩

/-- a checkable form of `PiecesCompat` for two pieces none of whose images are hard-linked -/
theorem compat_of_dec {fs : Fs} {w1 w2 : Work}
    (h1 : ∀ s ∈ w1.segs, s.off + s.len ≤ s.ent.fileLength) (h2 : ∀ s ∈ w2.segs, s.off + s.len ≤ s.ent.fileLength)
    (h3 : ∀ s ∈ w1.segs, ∀ t ∈ w2.segs, s.ent.fullTarget = t.ent.fullTarget →
      (s.off + s.len ≤ t.off ∨ t.off + t.len ≤ s.off) ∧ s.ent.fileLength = t.ent.fileLength)
    (h4 : ∀ s ∈ w1.segs, ∀ t ∈ w2.segs, s.ent.fullTarget ≠ t.ent.fullTarget →
      ∀ f ∈ fs.files, ∀ g ∈ fs.files, f.1 = s.ent.fullTarget → g.1 = t.ent.fullTarget → f.2 ≠ g.2) :
    PiecesCompat fs w1 w2 :=
  ⟨h1, h2, fun s hs t ht _ _ e => (h3 s hs t ht e).1, fun s hs t ht _ _ e => (h3 s hs t ht e).2,
    fun s hs t ht _ _ e _ _ hi hj => h4 s hs t ht e _ (RunF.inoOf_mem hi) _ (RunF.inoOf_mem hj) rfl rfl⟩

namespace C17w

/-- the image `d/x` -/
def tx : Path := [[100], [120]]
/-- a source file `s` -/
def sx : Path := [[115]]
/-- the image `d/x` exists with ONE byte `[5]` (its declared length is 2); the source `s` holds `[7]` -/
def fsS : Fs := ⟨[(tx, 0), (sx, 1)], [[[100]]], [(0, [5]), (1, [7])], 2⟩
/-- the entry of `d/x`, declared length 2, candidates: its own image, then `s` -/
def eS : TEntry := ⟨0, [], 0, 2, tx, [[120]], false, some [tx, sx]⟩
/-- piece 1: the range [0,1) of `d/x`, bytes `[7]` -/
def v1 : Work := ⟨[⟨1, 0, eS⟩], [7]⟩
/-- piece 2: the range [1,2) of `d/x`, bytes `[0]` -/
def v2 : Work := ⟨[⟨1, 1, eS⟩], [0]⟩
def stS : St := ⟨fsS, [], []⟩

end C17w

/-- WHY `OwnLen` IS ASSUMED (`H = id`). One file `d/x` of declared length 2, two pieces: `v1` = range [0,1) with bytes
    `[7]`, `v2` = range [1,2) with bytes `[0]`. The image exists but is SHORT (one byte, `[5]`); the candidates of
    the file are its own image and a source `s = [7]`. There is no cross-candidate, and every hypothesis of
    `C17_two_pieces_commute` other than `OwnLen` holds. Yet:
    * `v2` first: it reads the range [1,2) of the short image and of `s` — nothing there — and is NOT FOUND;
    * `v1` first: it is found in `s`, and writing it performs `set_len 2` on the image, which becomes `[7, 0]`;
      then `v2` reads `[0]` at [1,2) of its own image and is FOUND.
    So the order changes an answer (and the counters) although no candidate list reaches another entry's image. -/
theorem C17_own_image_short_cex :
    C17w.stS.faults = [] ∧ FsWF C17w.stS.fs ∧ NoAlias C17w.stS.fs [C17w.eS] ∧
    NoCross C17w.stS.fs [C17w.eS] [C17w.v1, C17w.v2] ∧
    (∀ w ∈ [C17w.v1, C17w.v2], ∀ s ∈ w.segs, s.ent ∈ [C17w.eS]) ∧
    PiecesCompat C17w.stS.fs C17w.v1 C17w.v2 ∧
    (∀ e ∈ [C17w.eS], ∀ f ∈ [C17w.eS], e.isPad = false → f.isPad = false →
      e.fullTarget = f.fullTarget → e.fileLength = f.fileLength) ∧
    (∀ w ∈ [C17w.v1, C17w.v2], FilesOk C17w.stS.fs w) ∧
    (solvePiece id C17w.stS C17w.v1).2 = .found ∧
    (solvePiece id (solvePiece id C17w.stS C17w.v1).1 C17w.v2).2 = .found ∧
    (solvePiece id C17w.stS C17w.v2).2 = .notFound ∧
    ¬ OwnLen C17w.stS.fs C17w.v2 := by
  have hwf : FsWF C17w.stS.fs :=
    wf_of_dec (by decide +kernel) (by decide +kernel) (by decide +kernel) (by decide +kernel)
  have hna : NoAlias C17w.stS.fs [C17w.eS] := noAlias_of_dec (by decide +kernel)
  refine ⟨rfl, hwf, hna, ?_, by decide +kernel, ?_, by decide +kernel, ?_, by decide +kernel, by decide +kernel,
    by decide +kernel, ?_⟩
  · apply NoCross_of_names _ _ _ hna
    have key : ∀ w ∈ [C17w.v1, C17w.v2], ∀ s ∈ w.segs, ∀ p ∈ s.ent.searches.getD [],
        p = s.ent.fullTarget ∨ ∀ e ∈ [C17w.eS], p ≠ e.fullTarget := by decide +kernel
    intro w hw s hs _ paths hps p hp
    exact key w hw s hs p (by rw [hps]; exact hp)
  · exact compat_of_dec (by decide +kernel) (by decide +kernel) (by decide +kernel) (by decide +kernel)
  · have key : ∀ w ∈ [C17w.v1, C17w.v2], ∀ s ∈ w.segs, ∀ p ∈ s.ent.searches.getD [],
        (match C17w.stS.fs.look p with | .file _ => true | _ => false) = true := by decide +kernel
    exact fun w hw => filesOk_of_dec (key w hw)
  · intro h
    have := h ⟨1, 1, C17w.eS⟩ (by simp [C17w.v2]) rfl [C17w.tx, C17w.sx] rfl (by simp [C17w.eS]) 0 (by decide +kernel)
    revert this
    decide +kernel

/-- hence `hown` cannot be dropped from `C17_two_pieces_commute` -/
theorem C17_two_pieces_commute_needs_ownLen :
    ¬ (∀ (H : Bytes → Bytes) (st : St) (table : List TEntry) (w1 w2 : Work),
        st.faults = [] → FsWF st.fs → NoAlias st.fs table → NoCross st.fs table [w1, w2] →
        (∀ w ∈ [w1, w2], ∀ s ∈ w.segs, s.ent ∈ table) → PiecesCompat st.fs w1 w2 →
        (∀ e ∈ table, ∀ f ∈ table, e.isPad = false → f.isPad = false →
          e.fullTarget = f.fullTarget → e.fileLength = f.fileLength) →
        (∀ w ∈ [w1, w2], FilesOk st.fs w) →
        (solvePiece H st w1).2 ≠ .fault → (solvePiece H (solvePiece H st w1).1 w2).2 ≠ .fault →
        (solvePiece H st w2).2 = (solvePiece H (solvePiece H st w1).1 w2).2) := by
  intro h
  obtain ⟨a, b, c, d, e, f, g, i, j, k, l, _⟩ := C17_own_image_short_cex
  have := h id _ _ _ _ a b c d e f g i (by rw [j]; intro x; cases x) (by rw [k]; intro x; cases x)
  rw [k, l] at this
  cases this

/-- a checkable form of `OwnLen` -/
theorem ownLen_of_dec {fs : Fs} {w : Work}
    (h : ∀ s ∈ w.segs, ∀ f ∈ fs.files, f.1 = s.ent.fullTarget → (fs.content f.2).length = s.ent.fileLength) :
    OwnLen fs w :=
  fun s hs _ _ _ _ _ hi => h s hs _ (RunF.inoOf_mem hi) rfl

namespace C17w

/-- as `fsS`, but the image `d/x` has its declared length 2: `[5, 0]` -/
def fsS2 : Fs := ⟨[(tx, 0), (sx, 1)], [[[100]]], [(0, [5, 0]), (1, [7])], 2⟩
def stS2 : St := ⟨fsS2, [], []⟩

end C17w

/-- NON-VACUITY of `C17_two_pieces_commute`, with an OWN IMAGE AS CANDIDATE: the world of `C17_own_image_short_cex`
    with the image at its declared length (`[5, 0]`). All hypotheses hold. `v1` (range [0,1), bytes `[7]`) is found
    in the source and written into the image; `v2` (range [1,2), bytes `[0]`) is found in its own image — before and
    after `v1` has written the other range of the same file — and both orders leave `[7, 0]`. -/
example :
    (solvePiece id C17w.stS2 C17w.v2).2 = .found ∧
    (solvePiece id (solvePiece id C17w.stS2 C17w.v1).1 C17w.v2).2 = .found ∧
    (solvePiece id (solvePiece id C17w.stS2 C17w.v2).1 C17w.v1).2 = .found ∧
    (solvePiece id (solvePiece id C17w.stS2 C17w.v1).1 C17w.v2).1.fs.content 0 = [7, 0] ∧
    ObsEq (solvePiece id (solvePiece id C17w.stS2 C17w.v1).1 C17w.v2).1.fs
      (solvePiece id (solvePiece id C17w.stS2 C17w.v2).1 C17w.v1).1.fs := by
  have hwf : FsWF C17w.stS2.fs :=
    wf_of_dec (by decide +kernel) (by decide +kernel) (by decide +kernel) (by decide +kernel)
  have hna : NoAlias C17w.stS2.fs [C17w.eS] := noAlias_of_dec (by decide +kernel)
  have hcross : NoCross C17w.stS2.fs [C17w.eS] [C17w.v1, C17w.v2] := by
    apply NoCross_of_names _ _ _ hna
    have key : ∀ w ∈ [C17w.v1, C17w.v2], ∀ s ∈ w.segs, ∀ p ∈ s.ent.searches.getD [],
        p = s.ent.fullTarget ∨ ∀ e ∈ [C17w.eS], p ≠ e.fullTarget := by decide +kernel
    intro w hw s hs _ paths hps p hp
    exact key w hw s hs p (by rw [hps]; exact hp)
  have hfiles : ∀ w ∈ [C17w.v1, C17w.v2], FilesOk C17w.stS2.fs w := by
    have key : ∀ w ∈ [C17w.v1, C17w.v2], ∀ s ∈ w.segs, ∀ p ∈ s.ent.searches.getD [],
        (match C17w.stS2.fs.look p with | .file _ => true | _ => false) = true := by decide +kernel
    exact fun w hw => filesOk_of_dec (key w hw)
  have hown : ∀ w ∈ [C17w.v1, C17w.v2], OwnLen C17w.stS2.fs w := by
    have key : ∀ w ∈ [C17w.v1, C17w.v2], ∀ s ∈ w.segs, ∀ f ∈ C17w.stS2.fs.files, f.1 = s.ent.fullTarget →
        (C17w.stS2.fs.content f.2).length = s.ent.fileLength := by decide +kernel
    exact fun w hw => ownLen_of_dec (key w hw)
  have h1 : (solvePiece id C17w.stS2 C17w.v1).2 = .found := by decide +kernel
  have h12 : (solvePiece id (solvePiece id C17w.stS2 C17w.v1).1 C17w.v2).2 = .found := by decide +kernel
  obtain ⟨a, b, c⟩ := C17_two_pieces_commute id C17w.stS2 [C17w.eS] C17w.v1 C17w.v2 rfl hwf hna hcross
    (by decide +kernel)
    (compat_of_dec (by decide +kernel) (by decide +kernel) (by decide +kernel) (by decide +kernel))
    (by decide +kernel) hfiles hown (by rw [h1]; intro h; cases h) (by rw [h12]; intro h; cases h)
  exact ⟨a.trans h12, h12, b.trans h1, by decide +kernel, c⟩

namespace C17w

/-- the image `d/x/y`: the image `d/x` is a proper prefix of it -/
def ty : Path := [[100], [120], [121]]
def sa : Path := [[97]]
def sb : Path := [[98]]
/-- two source files `a = [1]`, `b = [2]`; no export image exists -/
def fsN : Fs := ⟨[(sa, 0), (sb, 1)], [], [(0, [1]), (1, [2])], 2⟩
def eN1 : TEntry := ⟨0, [], 0, 1, tx, [[120]], false, some [sa]⟩
def eN2 : TEntry := ⟨1, [], 1, 1, ty, [[121]], false, some [sb]⟩
def n1 : Work := ⟨[⟨1, 0, eN1⟩], [1]⟩
def n2 : Work := ⟨[⟨1, 0, eN2⟩], [2]⟩
def stN : St := ⟨fsN, [], []⟩

end C17w

/-- WHY "NO I/O ERROR" IS ASSUMED (`H = id`). Two pieces whose images are NESTED: `d/x` and `d/x/y` (a torrent that
    lists both `x` and `x/y` as files). Both are found in source files; no cross-candidate; every hypothesis of
    `C17_two_pieces_commute` other than `h12` holds. Whichever piece is written second fails — after `d/x` has become
    a regular file, `create_dir_all d/x` fails; after `d/x` has become a directory, the create-open of `d/x` fails
    — so the ANSWERS OF THE TWO PIECES ARE EXCHANGED between the two orders and the final trees differ (`d/x` is a
    regular file in the one and a directory in the other). -/
theorem C17_nested_images_cex :
    C17w.stN.faults = [] ∧ FsWF C17w.stN.fs ∧ NoAlias C17w.stN.fs [C17w.eN1, C17w.eN2] ∧
    NoCross C17w.stN.fs [C17w.eN1, C17w.eN2] [C17w.n1, C17w.n2] ∧
    (∀ w ∈ [C17w.n1, C17w.n2], ∀ s ∈ w.segs, s.ent ∈ [C17w.eN1, C17w.eN2]) ∧
    PiecesCompat C17w.stN.fs C17w.n1 C17w.n2 ∧
    (∀ e ∈ [C17w.eN1, C17w.eN2], ∀ f ∈ [C17w.eN1, C17w.eN2], e.isPad = false → f.isPad = false →
      e.fullTarget = f.fullTarget → e.fileLength = f.fileLength) ∧
    (∀ w ∈ [C17w.n1, C17w.n2], FilesOk C17w.stN.fs w) ∧ (∀ w ∈ [C17w.n1, C17w.n2], OwnLen C17w.stN.fs w) ∧
    (solvePiece id C17w.stN C17w.n1).2 = .found ∧
    (solvePiece id (solvePiece id C17w.stN C17w.n1).1 C17w.n2).2 = .fault ∧
    (solvePiece id C17w.stN C17w.n2).2 = .found ∧
    (solvePiece id (solvePiece id C17w.stN C17w.n2).1 C17w.n1).2 = .fault ∧
    ¬ ObsEq (solvePiece id (solvePiece id C17w.stN C17w.n1).1 C17w.n2).1.fs
        (solvePiece id (solvePiece id C17w.stN C17w.n2).1 C17w.n1).1.fs := by
  have hwf : FsWF C17w.stN.fs :=
    wf_of_dec (by decide +kernel) (by decide +kernel) (by decide +kernel) (by decide +kernel)
  have hna : NoAlias C17w.stN.fs [C17w.eN1, C17w.eN2] := noAlias_of_dec (by decide +kernel)
  refine ⟨rfl, hwf, hna, ?_, by decide +kernel, ?_, by decide +kernel, ?_, ?_, by decide +kernel, by decide +kernel,
    by decide +kernel, by decide +kernel, ?_⟩
  · apply NoCross_of_names _ _ _ hna
    have key : ∀ w ∈ [C17w.n1, C17w.n2], ∀ s ∈ w.segs, ∀ p ∈ s.ent.searches.getD [],
        p = s.ent.fullTarget ∨ ∀ e ∈ [C17w.eN1, C17w.eN2], p ≠ e.fullTarget := by decide +kernel
    intro w hw s hs _ paths hps p hp
    exact key w hw s hs p (by rw [hps]; exact hp)
  · exact compat_of_dec (by decide +kernel) (by decide +kernel) (by decide +kernel) (by decide +kernel)
  · have key : ∀ w ∈ [C17w.n1, C17w.n2], ∀ s ∈ w.segs, ∀ p ∈ s.ent.searches.getD [],
        (match C17w.stN.fs.look p with | .file _ => true | _ => false) = true := by decide +kernel
    exact fun w hw => filesOk_of_dec (key w hw)
  · have key : ∀ w ∈ [C17w.n1, C17w.n2], ∀ s ∈ w.segs, s.ent.fullTarget ∉ s.ent.searches.getD [] := by
      decide +kernel
    intro w hw s hs _ paths hps hmem
    exact absurd (by rw [hps]; exact hmem) (key w hw s hs)
  · intro h
    have := h.1 C17w.tx
    revert this
    decide +kernel

/-! ### Z3 — any two orders of a run -/

/-- the answers of the pieces of a run, in the order of their evaluation: `RunZ.evalAll` (evaluate one after the
    other, record every answer) started in the state `runSt3 inp` in which a run begins to evaluate pieces, on the
    order `RunQ.evalOrder (run H inp).work inp.order` the run uses (`C02_run_eval`). `C17_run_answers` ties it to `run`. -/
def C17_answers (H : Bytes → Bytes) (inp : RunIn) : List (Work × Solved) :=
  (evalAll H (runSt3 inp) (RunQ.evalOrder (run H inp).work inp.order)).2

/-- if no piece panics, the tree, the counters and the result of a run (with a non-empty work list) are those of
    `RunZ.evalAll`: the final tree is the tree after the last piece, the counters are the running totals of the
    answers (`RunZ.countersOf`), the result is `ok` -/
theorem C17_run_answers (H : Bytes → Bytes) (inp : RunIn) (hw : (run H inp).work ≠ [])
    (hnp : ∀ x ∈ C17_answers H inp, x.2 ≠ .panic) :
    (run H inp).fs = (evalAll H (runSt3 inp) (RunQ.evalOrder (run H inp).work inp.order)).1.fs ∧
    (run H inp).counters = countersOf ⟨0, 0, 0⟩ ((C17_answers H inp).map (·.2)) ∧
    (run H inp).result = .ok () := by
  obtain ⟨_, _, _, hfs, hcnt, hres⟩ := C02_run_eval H inp hw
  have e := solveAll_eq_evalAll H (RunQ.evalOrder (run H inp).work inp.order) (runSt3 inp) ⟨0, 0, 0⟩ [] hnp
  rw [e] at hfs hcnt hres
  exact ⟨hfs, by simpa [C17_answers] using hcnt, by simpa using hres⟩

theorem isEmpty_perm {α : Type} {l l' : List α} (h : l.Perm l') : l.isEmpty = l'.isEmpty := by
  cases l with
  | nil => rw [List.nil_perm.1 h]
  | cons a t =>
    cases l' with
    | nil => exact absurd (List.perm_nil.1 h) (by simp)
    | cons _ _ => rfl

/-- the cross-item clause of `RangesDisjoint`, as a pairwise relation on the work list -/
theorem pairwise_PC_of_disj {work : List Work} (h : RangesDisjoint work) : work.Pairwise PC := by
  rw [List.pairwise_iff_getElem]
  intro i j hi hj hij s hs t ht sp tp e
  exact h.1 i j _ _ (List.getElem?_eq_getElem hi) (List.getElem?_eq_getElem hj) (by omega) s hs t ht sp tp e

/-- Z3. THE ORDER OF EVALUATION DOES NOT MATTER WHEN THERE ARE NO CROSS-CANDIDATES. `inp` and
    `{ inp with order := order' }` are two runs that differ in the observed evaluation order only (any two orders:
    an observation that is no permutation of the work list is replaced by the default order, `RunQ.evalOrder`).

    assumed (all about `inp`; the table, the work list and the state `runSt3 inp` in which the evaluation of the pieces
    starts do not depend on `order`: `RunZ.run_order`)
    * `hfa`: no fault points;
    * `hwf`, `hna`: the initial tree is well-formed and no export image of the table shares its inode with another
      name (`NoAlias`);
    * `hcross`: `NoCross` — the rule under which final trees of different real runs are compared;
    * `hrange`, `hsame`, `hdisj`: the layout facts `SegsInRange`, same image ⇒ same declared length,
      `RangesDisjoint` (only its first, cross-item clause is used);
    * `hown` (`OwnLen`, on the tree of `runSt3 inp`): a segment's own image, when it is among its candidates, has the
      declared length. Necessary for two pieces in general (`C17_own_image_short_cex`); NOT an extra condition on a
      run: it holds for every run on a well-formed tree — `C17_own_length_of_run` — and
      `C17_order_independent'` is this theorem without it;
    * `hok`: in the order of `inp` every piece is answered `found` or `notFound` — no I/O error (without fault
      points: the writer hit a regular file where it needs a directory or a directory where it creates the image, or
      the matched buffer is too short; sufficient conditions on the initial tree: `C02_run_no_fault`) and no panic.
      Necessary: `C17_nested_images_cex`.
    NOT assumed: `HInjOn`; anything about which pieces are found.

    proved, for the other order
    * every piece is answered `found` or `notFound` as well;
    * the answers are the same up to their order: `(C17_answers H inp).Perm (C17_answers H inp')` — the same multiset
      of (piece, answer);
    * hence the same final counters, and both results are `ok`;
    * the final trees are observationally equivalent.

    Proof: on the observable part of the tree (`RunX.View`) the evaluation of a piece is a function `RunZ.vstepP` of
    the view (`RunZ.solvePiece_view`); the critical sections of one piece do not change what another piece reads
    (`RunZ.vrun_frame`), so two pieces commute with equality (`RunZ.two_comm`), and the adjacent transpositions generate
    every permutation (`RunZ.vsolveAll_perm`, induction on `List.Perm` as in `C05_any_write_order`). -/
theorem C17_order_independent (H : Bytes → Bytes) (inp : RunIn) (order' : List (List (Nat × Nat × Nat) × Bytes))
    (hfa : inp.faults = []) (hwf : FsWF inp.fs)
    (hna : NoAlias inp.fs (run H inp).table)
    (hcross : NoCross inp.fs (run H inp).table (run H inp).work)
    (hrange : ∀ w ∈ (run H inp).work, SegsInRange w)
    (hsame : ∀ e ∈ (run H inp).table, ∀ f ∈ (run H inp).table, e.isPad = false → f.isPad = false →
      e.fullTarget = f.fullTarget → e.fileLength = f.fileLength)
    (hdisj : RangesDisjoint (run H inp).work)
    (hown : ∀ w ∈ (run H inp).work, OwnLen (runSt3 inp).fs w)
    (hok : ∀ x ∈ C17_answers H inp, x.2 = .found ∨ x.2 = .notFound) :
    (∀ x ∈ C17_answers H { inp with order := order' }, x.2 = .found ∨ x.2 = .notFound) ∧
    (C17_answers H inp).Perm (C17_answers H { inp with order := order' }) ∧
    (run H { inp with order := order' }).counters.getLast? = (run H inp).counters.getLast? ∧
    (run H { inp with order := order' }).result = (run H inp).result ∧
    ObsEq (run H inp).fs (run H { inp with order := order' }).fs := by
  obtain ⟨htab, hwork, hempty⟩ := run_order H inp order'
  have hans' : C17_answers H { inp with order := order' }
      = (evalAll H (runSt3 inp) (RunQ.evalOrder (run H inp).work order')).2 := by
    unfold C17_answers
    rw [hwork]
    rfl
  by_cases hw : (run H inp).work = []
  · obtain ⟨e1, e2, e3⟩ := hempty hw
    have n1 : C17_answers H inp = [] := by
      unfold C17_answers
      have : RunQ.evalOrder (run H inp).work inp.order = [] := by
        rw [hw]; exact List.eq_nil_of_length_eq_zero (RunQ.evalOrder_perm [] inp.order).length_eq
      rw [this]; rfl
    have n2 : C17_answers H { inp with order := order' } = [] := by
      rw [hans']
      have : RunQ.evalOrder (run H inp).work order' = [] := by
        rw [hw]; exact List.eq_nil_of_length_eq_zero (RunQ.evalOrder_perm [] order').length_eq
      rw [this]; rfl
    rw [n1, n2, e1, e2, e3]
    exact ⟨fun x hx => (by cases hx), List.Perm.refl _, rfl, rfl, ObsEq.refl _⟩
  · have hw' : (run H { inp with order := order' }).work ≠ [] := by rw [hwork]; exact hw
    have F := RunQ.facts H inp hw
    have hent := convertPiecesToWork_ent F.conv
    have hf3 : (runSt3 inp).faults = [] := F.faults.trans hfa
    have hwf3 : FsWF (runSt3 inp).fs := F.loc.wf hwf
    have hna3 : NoAlias (runSt3 inp).fs (run H inp).table := (RunQ.sinv_of_reach hwf hna (RunQ.reach_st3 inp)).na
    have S := stat_of hent hrange hsame hcross
    have hfiles : ∀ w ∈ (run H inp).work, FilesOk (runSt3 inp).fs w := fun w hwm s hs paths hps p hp =>
      RunQ.candidates_files H inp F hwf _ (RunF.Loc.refl _ _) s.ent (hent w hwm s hs) paths hps p hp
    have G : Good (run H inp).table (run H inp).work (view (runSt3 inp).fs) := good_of_fs hwf3 hna3 hfiles hown
    have p1 := RunQ.evalOrder_perm (run H inp).work inp.order
    have p2 := RunQ.evalOrder_perm (run H inp).work order'
    have hpw : (RunQ.evalOrder (run H inp).work inp.order).Pairwise PC :=
      p1.symm.pairwise (pairwise_PC_of_disj hdisj) (fun h => h.symm)
    have hokf : ∀ x ∈ (evalAll H (runSt3 inp) (RunQ.evalOrder (run H inp).work inp.order)).2, x.2 ≠ .fault := by
      intro x hx h
      rcases hok x hx with h' | h' <;> rw [h'] at h <;> cases h
    obtain ⟨_, hperm, hobs⟩ := evalAll_perm S H (runSt3 inp) hf3 hwf3 G (p1.trans p2.symm) hpw
      (fun w hwm => RunQ.mem_evalOrder.1 hwm) hokf
    have hok' : ∀ x ∈ C17_answers H { inp with order := order' }, x.2 = .found ∨ x.2 = .notFound := by
      intro x hx
      rw [hans'] at hx
      exact hok x (hperm.symm.subset hx)
    have np : ∀ x ∈ C17_answers H inp, x.2 ≠ .panic := by
      intro x hx h
      rcases hok x hx with h' | h' <;> rw [h'] at h <;> cases h
    have np' : ∀ x ∈ C17_answers H { inp with order := order' }, x.2 ≠ .panic := by
      intro x hx h
      rcases hok' x hx with h' | h' <;> rw [h'] at h <;> cases h
    obtain ⟨a1, a2, a3⟩ := C17_run_answers H inp hw np
    obtain ⟨b1, b2, b3⟩ := C17_run_answers H { inp with order := order' } hw' np'
    have hb1 : (run H { inp with order := order' }).fs
        = (evalAll H (runSt3 inp) (RunQ.evalOrder (run H inp).work order')).1.fs := by
      rw [b1, hwork]; rfl
    refine ⟨hok', by rw [hans']; exact hperm, ?_, by rw [a3, b3], by rw [a1, hb1]; exact hobs⟩
    rw [a2, b2, countersOf_getLast?, countersOf_getLast?]
    have hpm : ((C17_answers H inp).map (·.2)).Perm ((C17_answers H { inp with order := order' }).map (·.2)) := by
      rw [hans']; exact hperm.map _
    rw [foldl_bump_perm hpm]
    rw [isEmpty_perm hpm]

/-- `OwnLen` IS NOT AN EXTRA CONDITION ON A RUN. In the state in which a run on a well-formed tree starts to evaluate
    pieces, EVERY candidate of every table entry is a regular file with the entry's declared length: the index
    (`addExportPaths`, `addByDirectory`) registers a name under the length its file has (`RunZ.cacheOf_cl`), and
    `populateSearches` gives an entry the names registered under its declared length (`RunZ.populate_len`). -/
theorem C17_candidates_length_of_run (H : Bytes → Bytes) (inp : RunIn) (hwf : FsWF inp.fs)
    (w : Work) (hw : w ∈ (run H inp).work) :
    ∀ s ∈ w.segs, ∀ paths, s.ent.searches = some paths → ∀ p ∈ paths,
      ∃ i, (runSt3 inp).fs.look p = .file i ∧ ((runSt3 inp).fs.content i).length = s.ent.fileLength := by
  have F := RunQ.facts H inp (List.ne_nil_of_mem hw)
  intro s hs paths hps p hp
  exact candidates_length H inp F hwf s.ent (convertPiecesToWork_ent F.conv w hw s hs) paths hps p hp

/-- in particular a segment's own image, when it is among its candidates, has the declared length -/
theorem C17_own_length_of_run (H : Bytes → Bytes) (inp : RunIn) (hwf : FsWF inp.fs) :
    ∀ w ∈ (run H inp).work, OwnLen (runSt3 inp).fs w := by
  intro w hw s hs _ paths hps hmem i hi
  obtain ⟨j, hj, hl⟩ := C17_candidates_length_of_run H inp hwf w hw s hs paths hps _ hmem
  rw [RunF.look_file_inoOf hj] at hi
  cases hi
  exact hl

/-- Z3, with `OwnLen` discharged: see `C17_order_independent` for the hypotheses and the conclusion. -/
theorem C17_order_independent' (H : Bytes → Bytes) (inp : RunIn) (order' : List (List (Nat × Nat × Nat) × Bytes))
    (hfa : inp.faults = []) (hwf : FsWF inp.fs)
    (hna : NoAlias inp.fs (run H inp).table)
    (hcross : NoCross inp.fs (run H inp).table (run H inp).work)
    (hrange : ∀ w ∈ (run H inp).work, SegsInRange w)
    (hsame : ∀ e ∈ (run H inp).table, ∀ f ∈ (run H inp).table, e.isPad = false → f.isPad = false →
      e.fullTarget = f.fullTarget → e.fileLength = f.fileLength)
    (hdisj : RangesDisjoint (run H inp).work)
    (hok : ∀ x ∈ C17_answers H inp, x.2 = .found ∨ x.2 = .notFound) :
    (∀ x ∈ C17_answers H { inp with order := order' }, x.2 = .found ∨ x.2 = .notFound) ∧
    (C17_answers H inp).Perm (C17_answers H { inp with order := order' }) ∧
    (run H { inp with order := order' }).counters.getLast? = (run H inp).counters.getLast? ∧
    (run H { inp with order := order' }).result = (run H inp).result ∧
    ObsEq (run H inp).fs (run H { inp with order := order' }).fs :=
  C17_order_independent H inp order' hfa hwf hna hcross hrange hsame hdisj (C17_own_length_of_run H inp hwf) hok

/-- the hypothesis `hok` of `C17_order_independent` in terms of what a run reports: the result is `ok` (no panic) and
    no running counter counts an I/O error -/
theorem C17_answers_of_observed (H : Bytes → Bytes) (inp : RunIn) (hres : (run H inp).result = .ok ())
    (hcnt : ∀ c ∈ (run H inp).counters, c.fault = 0) :
    ∀ x ∈ C17_answers H inp, x.2 = .found ∨ x.2 = .notFound := by
  by_cases hw : (run H inp).work = []
  · intro x hx
    unfold C17_answers at hx
    have : RunQ.evalOrder (run H inp).work inp.order = [] := by
      rw [hw]; exact List.eq_nil_of_length_eq_zero (RunQ.evalOrder_perm [] inp.order).length_eq
    rw [this] at hx
    cases hx
  · obtain ⟨_, _, _, _, _, hr⟩ := C02_run_eval H inp hw
    have hflag : (solveAll H (runSt3 inp) (RunQ.evalOrder (run H inp).work inp.order) ⟨0, 0, 0⟩ []).2.2 = false := by
      cases hf : (solveAll H (runSt3 inp) (RunQ.evalOrder (run H inp).work inp.order) ⟨0, 0, 0⟩ []).2.2 with
      | false => rfl
      | true => rw [hf, hres] at hr; cases hr
    have np := solveAll_flag H _ _ _ _ hflag
    obtain ⟨_, a2, _⟩ := C17_run_answers H inp hw np
    rw [a2] at hcnt
    have nf := countersOf_fault _ _ hcnt
    intro x hx
    have h1 := np x hx
    have h2 := nf x.2 (List.mem_map_of_mem hx)
    cases hx2 : x.2 with
    | found => exact Or.inl rfl
    | notFound => exact Or.inr rfl
    | fault => exact absurd hx2 h2
    | panic => exact absurd hx2 h1

/-- Z3 IN TERMS OF WHAT THE RUNS REPORT. Same hypotheses as `C17_order_independent'`, with "no I/O error, no panic"
    stated on the output of the run `inp`: its result is `ok` and none of its running counters counts an I/O error.
    Then the run in any other order also ends `ok`, with the same final counters and an observationally equivalent
    tree. -/
theorem C17_order_independent_observed (H : Bytes → Bytes) (inp : RunIn)
    (order' : List (List (Nat × Nat × Nat) × Bytes))
    (hfa : inp.faults = []) (hwf : FsWF inp.fs)
    (hna : NoAlias inp.fs (run H inp).table)
    (hcross : NoCross inp.fs (run H inp).table (run H inp).work)
    (hrange : ∀ w ∈ (run H inp).work, SegsInRange w)
    (hsame : ∀ e ∈ (run H inp).table, ∀ f ∈ (run H inp).table, e.isPad = false → f.isPad = false →
      e.fullTarget = f.fullTarget → e.fileLength = f.fileLength)
    (hdisj : RangesDisjoint (run H inp).work)
    (hres : (run H inp).result = .ok ()) (hcnt : ∀ c ∈ (run H inp).counters, c.fault = 0) :
    (run H { inp with order := order' }).result = .ok () ∧
    (run H { inp with order := order' }).counters.getLast? = (run H inp).counters.getLast? ∧
    ObsEq (run H inp).fs (run H { inp with order := order' }).fs := by
  obtain ⟨_, _, h3, h4, h5⟩ := C17_order_independent' H inp order' hfa hwf hna hcross hrange hsame hdisj
    (C17_answers_of_observed H inp hres hcnt)
  exact ⟨h4.trans hres, h3, h5⟩

/-- a checkable form of `RangesDisjoint` -/
theorem disj_of_dec {work : List Work}
    (h1 : ∀ a ∈ List.range work.length, ∀ b ∈ List.range work.length, a ≠ b →
      ∀ s ∈ (work[a]?.getD default).segs, ∀ t ∈ (work[b]?.getD default).segs,
        s.ent.fullTarget = t.ent.fullTarget → s.off + s.len ≤ t.off ∨ t.off + t.len ≤ s.off)
    (h2 : ∀ w ∈ work, ∀ a ∈ List.range w.segs.length, ∀ b ∈ List.range w.segs.length, a ≠ b →
      (w.segs[a]?.getD default).ent.fullTarget ≠ (w.segs[b]?.getD default).ent.fullTarget) :
    RangesDisjoint work := by
  constructor
  · intro a b w v ha hb hab s hs t ht _ _ heq
    obtain ⟨la, _⟩ := List.getElem?_eq_some_iff.1 ha
    obtain ⟨lb, _⟩ := List.getElem?_eq_some_iff.1 hb
    have := h1 a (List.mem_range.2 la) b (List.mem_range.2 lb) hab
    rw [ha, hb] at this
    exact this s hs t ht heq
  · intro w hw a b s t ha hb hab _ _
    obtain ⟨la, _⟩ := List.getElem?_eq_some_iff.1 ha
    obtain ⟨lb, _⟩ := List.getElem?_eq_some_iff.1 hb
    have := h2 w hw a (List.mem_range.2 la) b (List.mem_range.2 lb) hab
    rw [ha, hb] at this
    exact this

/-- `NoCross` CANNOT BE DROPPED from `C17_order_independent'`: the world of Z4 satisfies every other hypothesis — no
    fault points, well-formed tree, `NoAlias`, `SegsInRange`, same image ⇒ same length, `RangesDisjoint`, and in the
    default order both pieces are found — and the final counters of the two orders differ. -/
theorem C17_order_independent_needs_noCross :
    ¬ (∀ (H : Bytes → Bytes) (inp : RunIn) (order' : List (List (Nat × Nat × Nat) × Bytes)),
        inp.faults = [] → FsWF inp.fs → NoAlias inp.fs (run H inp).table →
        (∀ w ∈ (run H inp).work, SegsInRange w) →
        (∀ e ∈ (run H inp).table, ∀ f ∈ (run H inp).table, e.isPad = false → f.isPad = false →
          e.fullTarget = f.fullTarget → e.fileLength = f.fileLength) →
        RangesDisjoint (run H inp).work →
        (∀ x ∈ C17_answers H inp, x.2 = .found ∨ x.2 = .notFound) →
        (run H { inp with order := order' }).counters.getLast? = (run H inp).counters.getLast?) := by
  intro h
  have hwf : FsWF (C17w.inp []).fs :=
    wf_of_dec (by decide +kernel) (by decide +kernel) (by decide +kernel) (by decide +kernel)
  have hna : NoAlias (C17w.inp []).fs (run id (C17w.inp [])).table := by
    rw [C17w.run_table]; exact noAlias_of_dec (by decide +kernel)
  have hrange : ∀ w ∈ (run id (C17w.inp [])).work, SegsInRange w := by
    rw [C17w.run_work]
    have key : ∀ w ∈ [C17w.wA, C17w.wB], ∀ s ∈ w.segs, s.off + s.len ≤ s.ent.fileLength := by decide +kernel
    exact key
  have hsame : ∀ e ∈ (run id (C17w.inp [])).table, ∀ f ∈ (run id (C17w.inp [])).table, e.isPad = false →
      f.isPad = false → e.fullTarget = f.fullTarget → e.fileLength = f.fileLength := by
    rw [C17w.run_table]; decide +kernel
  have hdisj : RangesDisjoint (run id (C17w.inp [])).work := by
    rw [C17w.run_work]; exact disj_of_dec (by decide +kernel) (by decide +kernel)
  have hok : ∀ x ∈ C17_answers id (C17w.inp []), x.2 = .found ∨ x.2 = .notFound := by decide +kernel
  have := h id (C17w.inp []) C17w.ordAB rfl hwf hna hrange hsame hdisj hok
  obtain ⟨_, _, _, _, _, c1, c2, _⟩ := C17_cross_candidate_order_dependent
  have e : ({ C17w.inp [] with order := C17w.ordAB } : RunIn) = C17w.inp C17w.ordAB := rfl
  rw [e, c1, c2] at this
  cases this

/-! #### non-vacuity of Z3 -/

namespace C17w

/-- the observed order "piece 0, then piece 1" in the world `TB.RunQ.Ex` (one file of length 3, piece length 2: two
    pieces writing the ranges [0,2) and [2,3) of the same image, which does not exist yet; the default order
    evaluates piece 1 first) -/
def ord01 : List (List (Nat × Nat × Nat) × Bytes) := [([(0, 0, 2)], [1, 2]), ([(0, 2, 1)], [3])]

end C17w

/-- NON-VACUITY of `C17_order_independent'`: the world `TB.RunQ.Ex` satisfies every hypothesis; the two observed orders
    `[]` (default: piece 1, piece 0) and `ord01` (piece 0, piece 1) are really different evaluation orders; both
    pieces are found in both, and the final trees are observationally equivalent (both orders create the image and
    leave `[1, 2, 3]` in it). -/
example :
    RunQ.evalOrder (run id RunQ.Ex.inp).work RunQ.Ex.inp.order = [RunQ.Ex.w1, RunQ.Ex.w0] ∧
    RunQ.evalOrder (run id { RunQ.Ex.inp with order := C17w.ord01 }).work C17w.ord01 = [RunQ.Ex.w0, RunQ.Ex.w1] ∧
    (C17_answers id RunQ.Ex.inp).Perm (C17_answers id { RunQ.Ex.inp with order := C17w.ord01 }) ∧
    (run id { RunQ.Ex.inp with order := C17w.ord01 }).counters.getLast? = some ⟨2, 0, 0⟩ ∧
    ObsEq (run id RunQ.Ex.inp).fs (run id { RunQ.Ex.inp with order := C17w.ord01 }).fs := by
  have hna : NoAlias RunQ.Ex.inp.fs (run id RunQ.Ex.inp).table := RunQ.Ex.noAlias
  have hcross : NoCross RunQ.Ex.inp.fs (run id RunQ.Ex.inp).table (run id RunQ.Ex.inp).work := by
    apply NoCross_of_names _ _ _ hna
    rw [RunQ.Ex.run_table, RunQ.Ex.run_work]
    have key : ∀ w ∈ [RunQ.Ex.w0, RunQ.Ex.w1], ∀ s ∈ w.segs, ∀ p ∈ s.ent.searches.getD [],
        p = s.ent.fullTarget ∨ ∀ e ∈ [RunQ.Ex.e0], p ≠ e.fullTarget := by decide +kernel
    intro w hw s hs _ paths hps p hp
    exact key w hw s hs p (by rw [hps]; exact hp)
  have hrange : ∀ w ∈ (run id RunQ.Ex.inp).work, SegsInRange w := by
    rw [RunQ.Ex.run_work]
    intro w hw
    rcases List.mem_cons.1 hw with rfl | hw
    · exact RunQ.Ex.range0
    · rcases List.mem_cons.1 hw with rfl | hw
      · exact RunQ.Ex.range1
      · cases hw
  have hok : ∀ x ∈ C17_answers id RunQ.Ex.inp, x.2 = .found ∨ x.2 = .notFound := by decide +kernel
  obtain ⟨_, h2, h3, _, h5⟩ := C17_order_independent' id RunQ.Ex.inp C17w.ord01 rfl RunQ.Ex.wf hna hcross hrange
    RunQ.Ex.sameLen RunQ.Ex.disj hok
  refine ⟨by decide +kernel, by decide +kernel, h2, ?_, h5⟩
  rw [h3]
  decide +kernel

end TB
