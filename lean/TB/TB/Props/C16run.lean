/-
  C16 (run level) — for every set of loadable torrents a run returns a result rather than panicking: the work
  list can always be built (layout total, every segment's entry is in the table) and every work item meets the
  side conditions under which evaluating it cannot panic.
-/
import TB.Spec.ExportSpec
import TB.Props.C06
import TB.Props.C10
import TB.Props.C16
import TB.Lemmas.RunH
namespace TB

/-- a torrent as the loader produces them -/
def Loadable (H : Bytes → Bytes) (t : Torrent) : Prop := ∃ doc, load H doc = .ok t

/-- the table has an entry for every file of every torrent it was built from -/
theorem C16_table_complete (exportDir : Path) (ts : List Torrent) (id0 : Nat) (t : Torrent) (ht : t ∈ ts) :
    (∀ l, t.info.files = none → t.info.length = some l →
        ∃ e ∈ buildTable exportDir ts id0, e.infoHash = t.infoHash ∧ e.fileIndex = 0) ∧
    (∀ fs, t.info.files = some fs → ∀ k, k < fs.length →
        ∃ e ∈ buildTable exportDir ts id0, e.infoHash = t.infoHash ∧ e.fileIndex = k) := by
  exact RunH.buildTable_complete exportDir ts id0 t ht

/-- converting the pieces of loadable torrents to work never fails (`lookup.get(..).unwrap()` and the layout
    are total), provided the table was built from (a superset of) those torrents -/
theorem C16_work_total (H : Bytes → Bytes) (exportDir : Path) (all ts : List Torrent) (c : Cache) (obs : List (Nat × List Path))
    (hsub : ∀ t ∈ ts, t ∈ all) (hload : ∀ t ∈ ts, Loadable H t) :
    (convertPiecesToWork (populateSearches c obs (buildTable exportDir all 0)).1 ts).isSome = true := by
  exact RunH.convert_isSome H exportDir all ts c obs hsub hload

/-- every work item of a loadable torrent has positive length unless it is padding-only, and a single-segment
    item is never an empty non-padding segment (the side condition `hsingle` of C16_piece_total_partial) -/
theorem C16_work_single (H : Bytes → Bytes) (table : List TEntry) (t : Torrent) (ws : List Work)
    (hload : Loadable H t) (hw : workOfTorrent table t = some ws) :
    ∀ w ∈ ws, ∀ s, w.segs = [s] → s.len ≠ 0 := by
  exact RunH.workOfTorrent_single H table t ws hload hw

/-- run level: a run on loadable torrents never ends in `panic`, provided any byte string hashing to a piece
    hash has that piece's length -/
theorem C16_run_total_partial (H : Bytes → Bytes) (inp : RunIn)
    (hload : ∀ t ∈ inp.torrents, Loadable H t)
    (hlen : ∀ w ∈ (run H inp).work, ∀ b, H b = w.hash → b.length = (w.segs.map (·.len)).sum) :
    (run H inp).result ≠ .panic := by
  rcases RunH.run_cases H inp with h | h | ⟨c, hnone⟩ | ⟨c, st, ordered, hwork, hord, hres⟩
  · rw [h]; intro hc; cases hc
  · rw [h]; intro hc; cases hc
  · exfalso
    have hsome := C16_work_total H inp.exportDir.path _ (dedupTorrents (sortTorrents inp.torrents)) c inp.searchObs
      (fun t ht => ht)
      (fun t ht => hload t ((RB.mem_sortTorrents _ _).1 (RB.dedupTorrents_mem _ t ht)))
    rw [hnone] at hsome
    cases hsome
  · have hnp : ∀ w ∈ ordered, ∀ st, (solvePiece H st w).2 ≠ .panic := by
      intro w hw st'
      have hwm := hord w hw
      apply C16_piece_total_partial H st' w (hlen w hwm)
      intro s hs
      obtain ⟨t, ht, wt, hwt, hwin⟩ := RunH.convert_mem hwork w hwm
      exact .inl (C16_work_single H _ t wt
        (hload t ((RB.mem_sortTorrents _ _).1 (RB.dedupTorrents_mem _ t ht))) hwt w hwin s hs)
    rw [hres, RunH.solveAll_no_panic H ordered hnp]
    intro hc; cases hc

end TB
