/-
  C03 — nothing outside the loaded torrents' export subtrees is ever touched.
-/
import TB.Props.C12
import TB.Props.C10
namespace TB

/-- every mutating operation (and every open for writing) of a run is confined: file operations go strictly
    below <export>/<hex info-hash>/Data of a loaded torrent, create_dir_all stays at or below it -/
theorem C03_confined (H : Bytes → Bytes) (inp : RunIn) :
    ∀ o ∈ (run H inp).ops, o.kind.mutating = true ∨ o.kind = .openrw →
      ∃ t ∈ inp.torrents,
        if o.kind = .mkdirs then Path.isPrefixOf (inp.exportDir.path ++ [hex t.infoHash, sData]) o.path
        else Path.isProperPrefixOf (inp.exportDir.path ++ [hex t.infoHash, sData]) o.path := by
  intro o ho hk
  obtain ⟨e, he, _, hpath, _⟩ := C12_only_run H inp o ho hk
  obtain ⟨t, ht, htgt⟩ := C12_run_table H inp e he
  refine ⟨t, ht, ?_⟩
  split
  · rename_i hm
    rw [if_pos hm] at hpath
    rw [hpath]; exact htgt.prefix_dropLast
  · rename_i hm
    rw [if_neg hm] at hpath
    rw [hpath]; exact htgt.properPrefix

/-- everything else a run does to a path is read-only: stat, read-only open, seek, read -/
theorem C03_readonly (H : Bytes → Bytes) (inp : RunIn) :
    ∀ o ∈ (run H inp).ops,
      (¬ ∃ t ∈ inp.torrents, Path.isPrefixOf (inp.exportDir.path ++ [hex t.infoHash, sData]) o.path) →
      o.kind = .stat ∨ o.kind = .openr ∨ o.kind = .read ∨ ∃ n, o.kind = .seek n := by
  intro o ho hno
  have hc := C03_confined H inp o ho
  have hbad : (o.kind.mutating = true ∨ o.kind = .openrw) → False := by
    intro hk
    obtain ⟨t, ht, h⟩ := hc hk
    refine hno ⟨t, ht, ?_⟩
    split at h
    · exact h
    · obtain ⟨rest, _, hr⟩ := h
      exact ⟨rest, hr⟩
  cases hkind : o.kind with
  | stat => exact Or.inl rfl
  | openr => exact Or.inr (Or.inl rfl)
  | read => exact Or.inr (Or.inr (Or.inl rfl))
  | seek n => exact Or.inr (Or.inr (Or.inr ⟨n, rfl⟩))
  | openrw => exact (hbad (Or.inr hkind)).elim
  | openc => exact (hbad (Or.inl (by rw [hkind]; rfl))).elim
  | mkdirs => exact (hbad (Or.inl (by rw [hkind]; rfl))).elim
  | setlen n => exact (hbad (Or.inl (by rw [hkind]; rfl))).elim
  | write off data => exact (hbad (Or.inl (by rw [hkind]; rfl))).elim

/-- names a loadable torrent can declare are plain, so the image of a loaded torrent has exactly the
    components <export…>/<hex>/Data/<name>/<path…> — no component can be `..`, `.`, empty or contain `/` -/
theorem C03_plain (H : Bytes → Bytes) (doc : Bytes) (t : Torrent) (h : load H doc = .ok t)
    (exportDir : Path) (e : TEntry) (he : IsTargetOf exportDir t e) :
    ∀ c ∈ e.fullTarget.drop (exportDir.length + 2), plainComponent c = true := by
  obtain ⟨_, hname, _, _, hwf⟩ := C10_loaded_wf H doc t h
  obtain ⟨_, ⟨l, _, _, _, _, _, htgt⟩ | ⟨fs, f, hfs, hidx, _, _, htgt⟩⟩ := he
  · intro c hc
    have hdrop : e.fullTarget.drop (exportDir.length + 2) = [t.info.name] := by
      rw [htgt, List.drop_append]
      simp
    rw [hdrop, List.mem_singleton] at hc
    rw [hc]; exact hname
  · intro c hc
    have hdrop : e.fullTarget.drop (exportDir.length + 2) = t.info.name :: f.path := by
      rw [htgt, List.append_assoc, List.drop_append]
      simp
    rw [hdrop] at hc
    rcases List.mem_cons.1 hc with rfl | hc
    · exact hname
    · rcases hwf with ⟨l, _, hnone, _⟩ | ⟨fs', _, hfs', _, hall, _⟩
      · rw [hnone] at hfs; cases hfs
      · rw [hfs] at hfs'; cases hfs'
        exact ((hall f (List.mem_of_getElem? hidx)).2.2 c hc).2

end TB
