/-
  C03 — nothing outside the loaded torrents' export subtrees is ever touched.
-/
import TB.Props.C12
namespace TB

/-- every mutating operation (and every open for writing) of a run is confined: file operations go strictly
    below <export>/<hex info-hash>/Data of a loaded torrent, create_dir_all stays at or below it -/
theorem C03_confined (H : Bytes → Bytes) (inp : RunIn) :
    ∀ o ∈ (run H inp).ops, o.kind.mutating = true ∨ o.kind = .openrw →
      ∃ t ∈ inp.torrents,
        if o.kind = .mkdirs then Path.isPrefixOf (inp.exportDir.path ++ [hex t.infoHash, sData]) o.path
        else Path.isProperPrefixOf (inp.exportDir.path ++ [hex t.infoHash, sData]) o.path := by
  sorry

/-- everything else a run does to a path is read-only: stat, read-only open, seek, read -/
theorem C03_readonly (H : Bytes → Bytes) (inp : RunIn) :
    ∀ o ∈ (run H inp).ops,
      (¬ ∃ t ∈ inp.torrents, Path.isPrefixOf (inp.exportDir.path ++ [hex t.infoHash, sData]) o.path) →
      o.kind = .stat ∨ o.kind = .openr ∨ o.kind = .read ∨ ∃ n, o.kind = .seek n := by
  sorry

/-- names a loadable torrent can declare are plain, so the image of a loaded torrent has exactly the
    components <export…>/<hex>/Data/<name>/<path…> — no component can be `..`, `.`, empty or contain `/` -/
theorem C03_plain (H : Bytes → Bytes) (doc : Bytes) (t : Torrent) (h : load H doc = .ok t)
    (exportDir : Path) (e : TEntry) (he : IsTargetOf exportDir t e) :
    ∀ c ∈ e.fullTarget.drop (exportDir.length + 2), plainComponent c = true := by
  sorry

end TB
