/-
  C03 (tree level) — everything that is not an export image of a loaded torrent keeps its exact content, size and
  existence, at every instant of a run; nothing new appears outside the export subtrees.
-/
import TB.Spec.ExportSpec
import TB.Props.C11
import TB.Props.C12
import TB.Props.C04a
import TB.Props.C01bytes
import TB.Lemmas.RunM
namespace TB

/-- at every prefix of the log: a file that is not the export image of a non-padding table entry keeps its inode
    and its content, and every directory stays a directory -/
theorem C03_frame (H : Bytes → Bytes) (inp : RunIn) (hwf : FsWF inp.fs)
    (hna : NoAlias inp.fs (run H inp).table) (n : Nat) (p : Path) (i : Nat)
    (hp : inp.fs.inoOf p = some i)
    (hout : ∀ e ∈ (run H inp).table, e.isPad = false → e.fullTarget ≠ p) :
    (replay inp.fs ((run H inp).ops.take n)).inoOf p = some i ∧
    (replay inp.fs ((run H inp).ops.take n)).content i = inp.fs.content i := by
  exact RunM.frame H inp hwf hna p i hp hout _ (fun _ h => List.mem_of_mem_take h)

theorem C03_frame_dirs (H : Bytes → Bytes) (inp : RunIn) (n : Nat) (d : Path) (hd : inp.fs.isDir d = true) :
    (replay inp.fs ((run H inp).ops.take n)).isDir d = true := by
  exact RunM.replay_isDir _ _ hd

/-- nothing new appears elsewhere: a name bound at some instant of the run was bound before or is the export image
    of a non-padding table entry; a directory existing at some instant existed before or is a prefix of such an
    image -/
theorem C03_nothing_new (H : Bytes → Bytes) (inp : RunIn) (n : Nat) :
    (∀ q j, (replay inp.fs ((run H inp).ops.take n)).inoOf q = some j →
      inp.fs.inoOf q = some j ∨ ∃ e ∈ (run H inp).table, e.isPad = false ∧ e.fullTarget = q) ∧
    (∀ d, (replay inp.fs ((run H inp).ops.take n)).isDir d = true →
      inp.fs.isDir d = true ∨ ∃ e ∈ (run H inp).table, e.isPad = false ∧ Path.isPrefixOf d e.fullTarget.dropLast) := by
  have h := RunM.nothing_new H inp ((run H inp).ops.take n) (fun _ h => List.mem_of_mem_take h)
  exact ⟨h.f, h.d⟩

end TB
