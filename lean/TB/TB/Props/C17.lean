/-
  C17 — the outcome does not depend on how torrents are presented (list order, duplicates).
-/
import TB.Spec.ExportSpec
import TB.Lemmas.RunB
import TB.Props.C15
namespace TB
open TB.RB
/-- permuting the torrent list, or listing torrents twice, yields the same sorted list of distinct info-hashes -/
theorem C17_dedup_perm (ts ts' : List Torrent)
    (h : ∀ x, x ∈ ts.map (·.infoHash) ↔ x ∈ ts'.map (·.infoHash)) :
    (dedupTorrents (sortTorrents ts)).map (·.infoHash) = (dedupTorrents (sortTorrents ts')).map (·.infoHash) := by
  apply strict_sorted_ext _ _ (dedup_sort_strict ts) (dedup_sort_strict ts')
  intro x
  rw [mem_dedup_sort_hash, mem_dedup_sort_hash]
  exact h x

/-- the candidate map is keyed by path: registering a path again (a scan directory repeated, nested scan
    directories, the export directory among them) does not change which paths are registered -/
theorem C17_cache_idempotent (c : Cache) (len : Nat) (p : Path) (ino : Nat) :
    ∀ q, (∃ j, cacheGet (cacheInsert (cacheInsert c len p ino) len p ino) len = some j ∧ ∃ k, (q, k) ∈ j) ↔
         (∃ j, cacheGet (cacheInsert c len p ino) len = some j ∧ ∃ k, (q, k) ∈ j) := by
  intro q
  rw [cacheGet_cacheInsert, cacheGet_cacheInsert]
  generalize ((cacheGet c len).getD []).filter (fun e => e.1 != p) = m'
  simp only [Option.some.injEq, exists_eq_left', Option.getD_some]
  have hf : ((p, ino) :: m').filter (fun e => e.1 != p) = m'.filter (fun e => e.1 != p) := by
    simp
  rw [hf]
  constructor
  · rintro ⟨k, hk⟩
    rcases List.mem_cons.1 hk with e | hk
    · exact ⟨k, e ▸ List.mem_cons_self⟩
    · exact ⟨k, List.mem_cons_of_mem _ (List.mem_filter.1 hk).1⟩
  · rintro ⟨k, hk⟩
    by_cases hq : q = p
    · exact ⟨ino, hq ▸ List.mem_cons_self⟩
    · rcases List.mem_cons.1 hk with e | hk
      · exact ⟨k, e ▸ List.mem_cons_self⟩
      · exact ⟨k, List.mem_cons_of_mem _ (List.mem_filter.2 ⟨hk, by simpa using hq⟩)⟩

end TB
