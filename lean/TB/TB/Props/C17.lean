/-
  C17 — the outcome does not depend on how torrents are presented (list order, duplicates).
-/
import TB.Spec.ExportSpec
import TB.Lemmas.RunB
import TB.Props.C15
namespace TB

/-- permuting the torrent list, or listing torrents twice, yields the same sorted list of distinct info-hashes -/
theorem C17_dedup_perm (ts ts' : List Torrent)
    (h : ∀ x, x ∈ ts.map (·.infoHash) ↔ x ∈ ts'.map (·.infoHash)) :
    (dedupTorrents (sortTorrents ts)).map (·.infoHash) = (dedupTorrents (sortTorrents ts')).map (·.infoHash) := by
  sorry

/-- the candidate map is keyed by path: registering a path again (a scan directory repeated, nested scan
    directories, the export directory among them) does not change which paths are registered -/
theorem C17_cache_idempotent (c : Cache) (len : Nat) (p : Path) (ino : Nat) :
    ∀ q, (∃ j, cacheGet (cacheInsert (cacheInsert c len p ino) len p ino) len = some j ∧ ∃ k, (q, k) ∈ j) ↔
         (∃ j, cacheGet (cacheInsert c len p ino) len = some j ∧ ∃ k, (q, k) ∈ j) := by
  sorry

end TB
