/-
  C06 (layout facts of a run) — the side conditions `LayoutOk` of the preservation theorems (`C04_history`,
  `C04_run_preserved`, `C01_bytes`) DERIVED from the torrents themselves.

  `TB.Props.C04h` / `TB.Props.C04hist` assume of the run's table and work list
    * `SegsInRange`     every segment lies inside its file,
    * `RangesDisjoint`  segments of different work items never overlap inside one export image, and different
                        segments of one work item lie in different images,
    * `LayoutOk.same`   non-padding table entries with the same export image declare the same length,
    * `HInjOn`          collision-freedom of the hash on the buffers of the run's pieces.
  Here the first three are theorems about `table0 inp` / `work0 inp` (the table and work list of the run with input
  `inp`, before candidate lists are filled in — functions of the export directory and the torrents only):

    L1 `C06_segs_in_range`    from: every torrent of the input is `Loadable`;
    L2 `C06_ranges_disjoint`  from: `Loadable` and `DistinctPaths`;
    L3 `C06_same_length`      from: `DistinctPaths` alone;
    L4 `C06_layout_ok`        `Loadable → DistinctPaths → HInjOn → LayoutOk`;
    L5 `C04_history_loaded`   `C04_history` with `LayoutOk` replaced by `Loadable ∧ DistinctPaths ∧ HInjOn`.

  `HInjOn` stays assumed: it is the standing assumption on SHA-1.

  `DistinctPaths` cannot be dropped from L2 and L3: a loadable torrent may list one path twice (finding D6), and then
  both conclusions fail — `C06_ranges_disjoint_needs_distinct_paths`, `C06_same_length_needs_distinct_paths` below,
  on a checked one-torrent world. It is not needed for L1.

  That DISTINCT torrents of the run never share an image is not assumed: the run sorts the torrents by info-hash and
  drops repeats (`dedup_by`), so the torrents the table is built from have pairwise distinct info-hashes
  (`C06_hashes_distinct`), hence distinct export roots (`C12_disjoint`, `C07_hex_injective`).

  Helper lemmas: TB/Lemmas/RunT.lean.
-/
import TB.Spec.ExportSpec
import TB.Props.C06
import TB.Props.C10
import TB.Props.C12
import TB.Props.C16run
import TB.Props.C04h
import TB.Props.C04hist
import TB.Lemmas.RunT
namespace TB

/-- within every torrent of the list, two different NON-PADDING files have different paths.

    * Paths are compared as lists of components (`FileRec.path`); a path that is a proper prefix of another
      (`a` and `a/b`) is a different path and gives a different export image — allowed.
    * Padding files (`isPaddingPath`: `.pad/<digits>`) are exempt: the run never reads or writes them, `RangesDisjoint`
      and `LayoutOk.same` exempt them too, and real torrents repeat their names (`.pad/<length>`).
    * Nothing is required ACROSS torrents: see `C06_hashes_distinct`.
    * An empty file listed twice under one name is excluded like any other repeated path.
    * A single-file torrent (`files = none`) satisfies the condition vacuously. -/
def DistinctPaths (ts : List Torrent) : Prop :=
  ∀ t ∈ ts, ∀ fs, t.info.files = some fs → ∀ (i j : Nat) (f g : FileRec), fs[i]? = some f → fs[j]? = some g → i ≠ j →
    isPaddingPath f.path = false → isPaddingPath g.path = false → f.path ≠ g.path

/-- the plain condition "no path is listed twice" (padding files included) implies `DistinctPaths` -/
theorem DistinctPaths.of_nodup {ts : List Torrent}
    (h : ∀ t ∈ ts, ∀ fs, t.info.files = some fs → (fs.map (·.path)).Nodup) : DistinctPaths ts := by
  intro t ht fs hfs i j f g hi hj hij _ _ he
  have hn := h t ht fs hfs
  unfold List.Nodup at hn
  rw [List.pairwise_map, List.pairwise_iff_getElem] at hn
  obtain ⟨li, rfl⟩ := List.getElem?_eq_some_iff.1 hi
  obtain ⟨lj, rfl⟩ := List.getElem?_eq_some_iff.1 hj
  rcases Nat.lt_or_gt_of_ne hij with hlt | hlt
  · exact hn i j li lj hlt he
  · exact hn j i lj li hlt he.symm

theorem DistinctPaths.sub {ts us : List Torrent} (h : DistinctPaths ts) (hsub : ∀ t ∈ us, t ∈ ts) :
    DistinctPaths us := fun t ht => h t (hsub t ht)

/-- `DistinctPaths` in a form `decide` can check on a concrete torrent list (bounded indices) -/
theorem DistinctPaths.of_check {ts : List Torrent}
    (h : ∀ t ∈ ts, ∀ fs, t.info.files = some fs →
      ∀ i ∈ List.range fs.length, ∀ j ∈ List.range fs.length, i ≠ j →
        isPaddingPath (fs[i]?.getD default).path = false → isPaddingPath (fs[j]?.getD default).path = false →
        (fs[i]?.getD default).path ≠ (fs[j]?.getD default).path) : DistinctPaths ts := by
  intro t ht fs hfs i j f g hi hj hij n1 n2
  obtain ⟨li, _⟩ := List.getElem?_eq_some_iff.1 hi
  obtain ⟨lj, _⟩ := List.getElem?_eq_some_iff.1 hj
  have := h t ht fs hfs i (List.mem_range.2 li) j (List.mem_range.2 lj) hij
  rw [hi, hj] at this
  exact this n1 n2

/-- the torrents a run builds its table from (sorted by info-hash, repeats dropped) have pairwise distinct
    info-hashes — whatever the input list was. This is the cross-torrent half of "distinct files have distinct
    images"; it is a fact of the run, not a hypothesis. -/
theorem C06_hashes_distinct (ts : List Torrent) :
    (dedupTorrents (sortTorrents ts)).Pairwise (fun a b => a.infoHash ≠ b.infoHash) :=
  RunT.hashDistinct_dedup_sort ts

private theorem mem_run_torrents {ts : List Torrent} {t : Torrent} (h : t ∈ dedupTorrents (sortTorrents ts)) :
    t ∈ ts := (RB.mem_sortTorrents _ _).1 (RB.dedupTorrents_mem _ t h)

/-- L1: every segment of every work item lies inside its file.
    Assumed: every torrent of the input is a record the loader produces (`Loadable`: piece count = ⌈total/piece
    length⌉, non-empty file list — what makes the cursor loop of the layout the exact partition, `C06_partition_*`).
    No hypothesis on paths: a segment's entry is found by (info-hash, file index), and the torrents of the table have
    distinct info-hashes. -/
theorem C06_segs_in_range (H : Bytes → Bytes) (inp : RunIn) (hload : ∀ t ∈ inp.torrents, Loadable H t) :
    ∀ w ∈ work0 inp, SegsInRange w := by
  unfold work0
  cases h : convertPiecesToWork (table0 inp) (dedupTorrents (sortTorrents inp.torrents)) with
  | none => intro w hw; cases hw
  | some ws =>
    exact RunT.convert_range H (C06_hashes_distinct inp.torrents) (fun _ ht => ht)
      (fun t ht => hload t (mem_run_torrents ht)) h

/-- L2: ranges of different work items never overlap inside one export image, and different segments of one work
    item lie in different images (padding segments exempt, as in the definition of `RangesDisjoint`).
    Assumed: `Loadable` (as in L1) and `DistinctPaths` (without it both clauses fail:
    `C06_ranges_disjoint_needs_distinct_paths`).

    Why it holds. Different torrents: different info-hashes, different export roots. One torrent: two non-padding
    entries with the same image are entries of the same file (`DistinctPaths`; the image is
    `<root>/<name>/<path…>` and determines the path). Segments of one piece have strictly increasing file indices, so
    they are in different files (second clause) — this covers zero-length segments of empty files too, and a path
    that is a prefix of another path is a different path. Segments of different pieces in the same file: a
    positive-length segment lies inside its piece's window `[i·L, (i+1)·L)` of the torrent's byte space, and the
    windows are disjoint; a zero-length segment belongs to an empty file, where every segment is `[0,0)`. -/
theorem C06_ranges_disjoint (H : Bytes → Bytes) (inp : RunIn) (hload : ∀ t ∈ inp.torrents, Loadable H t)
    (hpaths : DistinctPaths inp.torrents) : RangesDisjoint (work0 inp) := by
  unfold work0
  cases h : convertPiecesToWork (table0 inp) (dedupTorrents (sortTorrents inp.torrents)) with
  | none => exact ⟨fun a b w v ha => by simp at ha, fun w hw => by cases hw⟩
  | some ws =>
    have hd := C06_hashes_distinct inp.torrents
    have hl : ∀ t ∈ dedupTorrents (sortTorrents inp.torrents), Loadable H t := fun t ht => hload t (mem_run_torrents ht)
    have hp : ∀ t ∈ dedupTorrents (sortTorrents inp.torrents), RunT.PathsDistinct t :=
      fun t ht => hpaths t (mem_run_torrents ht)
    exact RunT.rangesDisjoint_of (RunT.convert_apart H hd hd (fun _ ht => ht) hl hp h)
      (RunT.convert_images H hd (fun _ ht => ht) hl hp h)

/-- L3: non-padding table entries with the same export image declare the same length (they are the same file of
    the same torrent).
    Assumed: `DistinctPaths` only (no loadability). Without it the statement is false:
    `C06_same_length_needs_distinct_paths`. -/
theorem C06_same_length (inp : RunIn) (hpaths : DistinctPaths inp.torrents) :
    ∀ e ∈ table0 inp, ∀ f ∈ table0 inp, e.isPad = false → f.isPad = false →
      e.fullTarget = f.fullTarget → e.fileLength = f.fileLength :=
  RunT.table_same (C06_hashes_distinct inp.torrents) (fun t ht => hpaths t (mem_run_torrents ht))

/-- L4: the tree-independent side conditions of the preservation theorems hold for every run on loadable torrents
    without repeated paths, given collision-freedom of the hash on the run's pieces (`HInjOn`, the assumption on
    SHA-1, which stays a hypothesis). -/
theorem C06_layout_ok (H : Bytes → Bytes) (inp : RunIn) (hload : ∀ t ∈ inp.torrents, Loadable H t)
    (hpaths : DistinctPaths inp.torrents) (hinj : HInjOn H (work0 inp)) : LayoutOk H inp :=
  ⟨C06_segs_in_range H inp hload, C06_same_length inp hpaths, C06_ranges_disjoint H inp hload hpaths, hinj⟩

/-- L5: `C04_history` with the layout facts derived. A piece `w` that verifies in the initial tree verifies in the
    tree left by any history of runs, provided for every step: either `w` is one of the step's work items, and then
    the step's torrents are loadable, list no non-padding path twice, and the hash is collision-free on the step's
    pieces; or `w` is foreign to the step's table. `hwf`, `hna` as in `C04_history`. The three conditions are only
    required of the steps that have `w` among their work items. -/
theorem C04_history_loaded (H : Bytes → Bytes) (fs0 : Fs) (steps : List HStep) (w : Work)
    (hwf : FsWF fs0)
    (hna : ∀ s ∈ steps, NoAlias fs0 (table0 s.inp))
    (hdich : ∀ s ∈ steps,
      (IsWorkOf w s.inp ∧ (∀ t ∈ s.inp.torrents, Loadable H t) ∧ DistinctPaths s.inp.torrents
        ∧ HInjOn H (work0 s.inp))
      ∨ Foreign w (table0 s.inp))
    (hver : VerE H fs0 w) :
    VerE H (histTree H fs0 steps) w := by
  refine C04_history H fs0 steps w hwf hna ?_ hver
  intro s hs
  rcases hdich s hs with ⟨hw, hl, hp, hi⟩ | hf
  · exact .inl ⟨hw, C06_layout_ok H s.inp hl hp hi⟩
  · exact .inr hf

/-- the same for one run: between any two instants of a run the set of verifying pieces only grows -/
theorem C04_run_monotone_loaded (H : Bytes → Bytes) (inp : RunIn) (w : Work) (hwf : FsWF inp.fs)
    (hna : NoAlias inp.fs (table0 inp))
    (hdich : (IsWorkOf w inp ∧ (∀ t ∈ inp.torrents, Loadable H t) ∧ DistinctPaths inp.torrents
        ∧ HInjOn H (work0 inp)) ∨ Foreign w (table0 inp))
    (n₁ n₂ : Nat) (hle : n₁ ≤ n₂)
    (hver : VerE H (replay inp.fs ((run H inp).ops.take n₁)) w) :
    VerE H (replay inp.fs ((run H inp).ops.take n₂)) w := by
  refine C04_run_monotone H inp w hwf hna ?_ n₁ n₂ hle hver
  rcases hdich with ⟨hw, hl, hp, hi⟩ | hf
  · exact .inl ⟨hw, C06_layout_ok H inp hl hp hi⟩
  · exact .inr hf

/-! ### non-vacuity: a loadable multi-file torrent that meets `DistinctPaths`

  Five files, piece length 4, two pieces (`pieces` = 40 bytes):
    `a` (3 bytes), `a/b` (EMPTY, and its path extends the path of the first file), `.pad/1` (1 byte, padding),
    `c` (2 bytes), `.pad/1` (1 byte, padding — the same name again).
  `DistinctPaths` holds: the repeated name is a padding name, and `a` ≠ `a/b`. `H = id`, so the info-hash is the
  encoding of the info value and `HInjOn id` holds trivially. `Loadable` is proved through `C10_iff` by exhibiting the
  bencoded value; the document is `encode root`. -/

namespace C06Ex

def pad1 : List Bytes := [sPad, [49]]
def fileA : BVal := .dict [(kLength, .int 3), (kPath, .list [.str [97]])]
def fileAB : BVal := .dict [(kLength, .int 0), (kPath, .list [.str [97], .str [98]])]
def fileP : BVal := .dict [(kLength, .int 1), (kPath, .list [.str sPad, .str [49]])]
def fileC : BVal := .dict [(kLength, .int 2), (kPath, .list [.str [99]])]
def infod : List (Bytes × BVal) :=
  [(kFiles, .list [fileA, fileAB, fileP, fileC, fileP]), (kName, .str [110]), (kPieceLength, .int 4),
   (kPieces, .str (List.replicate 40 7))]
def root : BVal := .dict [(kInfo, .dict infod)]
def info : Info :=
  ⟨[110], none, some [⟨3, [[97]]⟩, ⟨0, [[97], [98]]⟩, ⟨1, pad1⟩, ⟨2, [[99]]⟩, ⟨1, pad1⟩], 4,
    [List.replicate 20 7, List.replicate 20 7]⟩
def tor : Torrent := ⟨info, encode (.dict infod)⟩

def inp : RunIn :=
  { fs := default, torrents := [tor], scan := [], exportDir := ⟨true, [[101]]⟩, resize := false,
    searchObs := [], order := [], faults := [] }

theorem canon_root : canon root = true := by decide +kernel
theorem spec_info : specInfo infod = some info := by decide +kernel

/-- the document `encode root` loads as `tor` -/
theorem loadable : Loadable id tor := by
  refine ⟨encode root, (C10_iff id _ _).2 ⟨root, canon_root, rfl, ?_⟩⟩
  show (match dictGet [(kInfo, BVal.dict infod)] kInfo with
    | some (.dict info) => (match specInfo info with | some i => some ⟨i, id (encode (.dict info))⟩ | none => none)
    | _ => none) = some tor
  have : dictGet [(kInfo, BVal.dict infod)] kInfo = some (.dict infod) := by simp [dictGet]
  rw [this]
  simp only [spec_info]
  rfl

theorem loadable_all : ∀ t ∈ inp.torrents, Loadable id t := by
  intro t ht
  simp only [inp, List.mem_singleton] at ht
  subst ht
  exact loadable

theorem distinct : DistinctPaths inp.torrents := by
  apply DistinctPaths.of_check
  intro t ht fs hfs
  simp only [inp, List.mem_singleton] at ht
  subst ht
  simp only [tor, info, Option.some.injEq] at hfs
  subst hfs
  decide +kernel

/-- the plain "no path twice" condition does NOT hold here (the padding name repeats): the exemption matters -/
example : ¬ ((info.files.getD []).map (·.path)).Nodup := by decide +kernel

theorem hinj : HInjOn id (work0 inp) := by
  intro w _ b b' h1 h2
  exact (show b = w.hash from h1).trans (show b' = w.hash from h2).symm

/-- the hypotheses of `C06_layout_ok` are jointly satisfiable, on a run whose work list is not empty: two pieces;
    the first has a segment of `a`, a zero-length segment of the empty file `a/b`, and a padding segment -/
example : LayoutOk id inp := C06_layout_ok id inp loadable_all distinct hinj
example : (work0 inp).map (fun w => w.segs.map (fun s => (s.ent.fileIndex, s.off, s.len, s.ent.isPad)))
    = [[(0, 0, 3, false), (1, 0, 0, false), (2, 0, 1, true)], [(3, 0, 2, false), (4, 0, 1, true)]] := by
  decide +kernel
example : (table0 inp).map (fun e => (e.fileIndex, e.fileLength, e.isPad))
    = [(0, 3, false), (1, 0, false), (2, 1, true), (3, 2, false), (4, 1, true)] := by
  decide +kernel

end C06Ex

/-! ### `DistinctPaths` cannot be dropped (finding D6)

  One loadable torrent that lists the path `x` twice, with lengths 1 and 2; piece length 4, one piece: its two
  segments `x[0,1)` and `x[0,2)` have the same export image. `H = id`. `SegsInRange` holds (L1 needs no hypothesis
  on paths); the second clause of `RangesDisjoint` and `LayoutOk.same` fail. -/

namespace C06Cex

def fileA : BVal := .dict [(kLength, .int 1), (kPath, .list [.str [120]])]
def fileB : BVal := .dict [(kLength, .int 2), (kPath, .list [.str [120]])]
def infod : List (Bytes × BVal) :=
  [(kFiles, .list [fileA, fileB]), (kName, .str [110]), (kPieceLength, .int 4), (kPieces, .str (List.replicate 20 7))]
def root : BVal := .dict [(kInfo, .dict infod)]
def info : Info := ⟨[110], none, some [⟨1, [[120]]⟩, ⟨2, [[120]]⟩], 4, [List.replicate 20 7]⟩
def tor : Torrent := ⟨info, encode (.dict infod)⟩

def inp : RunIn :=
  { fs := default, torrents := [tor], scan := [], exportDir := ⟨true, [[101]]⟩, resize := false,
    searchObs := [], order := [], faults := [] }

theorem canon_root : canon root = true := by decide +kernel
theorem spec_info : specInfo infod = some info := by decide +kernel

theorem loadable : Loadable id tor := by
  refine ⟨encode root, (C10_iff id _ _).2 ⟨root, canon_root, rfl, ?_⟩⟩
  show (match dictGet [(kInfo, BVal.dict infod)] kInfo with
    | some (.dict info) => (match specInfo info with | some i => some ⟨i, id (encode (.dict info))⟩ | none => none)
    | _ => none) = some tor
  have : dictGet [(kInfo, BVal.dict infod)] kInfo = some (.dict infod) := by simp [dictGet]
  rw [this]
  simp only [spec_info]
  rfl

theorem loadable_all : ∀ t ∈ inp.torrents, Loadable id t := by
  intro t ht
  simp only [inp, List.mem_singleton] at ht
  subst ht
  exact loadable

/-- the first two segments of a work item are non-padding and have the same image -/
def dupImage (w : Work) : Bool :=
  match w.segs with
  | s :: u :: _ => !s.ent.isPad && !u.ent.isPad && s.ent.fullTarget == u.ent.fullTarget
  | _ => false

theorem dupImage_spec {w : Work} (h : dupImage w = true) :
    ∃ s u, w.segs[0]? = some s ∧ w.segs[1]? = some u ∧ s.ent.isPad = false ∧ u.ent.isPad = false
      ∧ s.ent.fullTarget = u.ent.fullTarget := by
  unfold dupImage at h
  split at h
  · rename_i s u rest hw
    simp only [Bool.and_eq_true, Bool.not_eq_true', beq_iff_eq] at h
    exact ⟨s, u, by rw [hw]; rfl, by rw [hw]; rfl, h.1.1, h.1.2, h.2⟩
  · cases h

theorem work_dup : (work0 inp).any dupImage = true := by decide +kernel

/-- two non-padding entries with the same image and different declared lengths -/
def lenClash (T : List TEntry) : Bool :=
  T.any (fun e => T.any (fun f => !e.isPad && !f.isPad && e.fullTarget == f.fullTarget && e.fileLength != f.fileLength))

theorem table_clash : lenClash (table0 inp) = true := by decide +kernel

/-- the layout itself is fine: every segment lies inside its file -/
example : ∀ w ∈ work0 inp, SegsInRange w := C06_segs_in_range id inp loadable_all

theorem not_distinct : ¬ DistinctPaths inp.torrents := by
  intro h
  exact h tor (by simp [inp]) _ rfl 0 1 ⟨1, [[120]]⟩ ⟨2, [[120]]⟩ rfl rfl (by decide) (by decide) (by decide) rfl

end C06Cex

/-- L2 without `DistinctPaths` is false: in the world `C06Cex` (one loadable torrent listing `x` twice) the two
    segments of the only piece have the same export image -/
theorem C06_ranges_disjoint_needs_distinct_paths :
    ¬ (∀ (H : Bytes → Bytes) (inp : RunIn), (∀ t ∈ inp.torrents, Loadable H t) → RangesDisjoint (work0 inp)) := by
  intro h
  have hd := (h id C06Cex.inp C06Cex.loadable_all).2
  obtain ⟨w, hw, hdup⟩ := List.any_eq_true.1 C06Cex.work_dup
  obtain ⟨s, u, hs, hu, n1, n2, he⟩ := C06Cex.dupImage_spec hdup
  exact hd w hw 0 1 s u hs hu (by decide) n1 n2 he

/-- L3 without `DistinctPaths` is false: in the same world the two entries of `x` declare lengths 1 and 2 -/
theorem C06_same_length_needs_distinct_paths :
    ¬ (∀ (H : Bytes → Bytes) (inp : RunIn), (∀ t ∈ inp.torrents, Loadable H t) →
        ∀ e ∈ table0 inp, ∀ f ∈ table0 inp, e.isPad = false → f.isPad = false →
          e.fullTarget = f.fullTarget → e.fileLength = f.fileLength) := by
  intro h
  have hs := h id C06Cex.inp C06Cex.loadable_all
  have hc := C06Cex.table_clash
  unfold C06Cex.lenClash at hc
  obtain ⟨e, he, hc⟩ := List.any_eq_true.1 hc
  obtain ⟨f, hf, hc⟩ := List.any_eq_true.1 hc
  simp only [Bool.and_eq_true, Bool.not_eq_true', beq_iff_eq, bne_iff_ne] at hc
  exact hc.2 (hs e he f hf hc.1.1.1 hc.1.1.2 hc.1.2)

end TB
