/-
  C15 — the reported figures account for every piece exactly once.
  (Soundness of "succeeded" is C04/C01; this file is the bookkeeping.)
-/
import TB.Spec.ExportSpec
import TB.Lemmas.Run
namespace TB

/-- after evaluating a list of work items without a panic there is one progress record per item, and the
    k-th record's counters sum to k more than the start -/
theorem C15_sum (H : Bytes → Bytes) (st : St) (ws : List Work) (c : Counters) (acc : List Counters)
    (h : (solveAll H st ws c acc).2.2 = false) :
    ∃ recs, (solveAll H st ws c acc).2.1 = acc ++ recs ∧ recs.length = ws.length ∧
      ∀ k (hk : k < recs.length),
        recs[k].success + recs[k].failed + recs[k].fault = c.success + c.failed + c.fault + (k + 1) := by
  sorry

/-- run level: a run that returns normally printed exactly `total` records, `total` is the number of work
    items of the distinct torrents, and the last record sums to `total` -/
theorem C15_run (H : Bytes → Bytes) (inp : RunIn) (h : (run H inp).result = .ok ()) (hne : inp.torrents ≠ []) :
    (run H inp).counters.length = (run H inp).total ∧ (run H inp).total = (run H inp).work.length ∧
    ∀ k (hk : k < (run H inp).counters.length),
      ((run H inp).counters[k]).success + ((run H inp).counters[k]).failed + ((run H inp).counters[k]).fault = k + 1 := by
  sorry

/-- duplicates in the input list do not add pieces: sorting and de-duplicating by info-hash leaves pairwise
    distinct info-hashes, each of which was in the input -/
theorem C15_dedup (ts : List Torrent) :
    ((dedupTorrents (sortTorrents ts)).map (·.infoHash)).Nodup ∧
    (∀ t ∈ dedupTorrents (sortTorrents ts), t ∈ ts) ∧
    (∀ t ∈ ts, ∃ u ∈ dedupTorrents (sortTorrents ts), u.infoHash = t.infoHash) := by
  sorry

end TB
