/-
  C15 — the reported figures account for every piece exactly once.
  (Soundness of "succeeded" is C04/C01; this file is the bookkeeping.)
-/
import TB.Spec.ExportSpec
import TB.Lemmas.Run
import TB.Lemmas.RunB
namespace TB
open TB.RB
/-- after evaluating a list of work items without a panic there is one progress record per item, and the
    k-th record's counters sum to k more than the start -/
theorem C15_sum (H : Bytes → Bytes) (st : St) (ws : List Work) (c : Counters) (acc : List Counters)
    (h : (solveAll H st ws c acc).2.2 = false) :
    ∃ recs, (solveAll H st ws c acc).2.1 = acc ++ recs ∧ recs.length = ws.length ∧
      ∀ k (hk : k < recs.length),
        recs[k].success + recs[k].failed + recs[k].fault = c.success + c.failed + c.fault + (k + 1) := by
  induction ws generalizing st c acc with
  | nil => exact ⟨[], by simp [solveAll], rfl, by simp⟩
  | cons w ws ih =>
    rw [solveAll_cons] at h ⊢
    by_cases hp : (solvePiece H st w).2 = .panic
    · rw [if_pos hp] at h; cases h
    · rw [if_neg hp] at h ⊢
      obtain ⟨recs, h1, h2, h3⟩ := ih _ _ _ h
      refine ⟨c.bump (solvePiece H st w).2 :: recs, by rw [h1]; simp, by simp [h2], ?_⟩
      intro k hk
      cases k with
      | zero => simpa using Counters.bump_sum c _ hp
      | succ k =>
        have := h3 k (by simpa using hk)
        rw [Counters.bump_sum c _ hp] at this
        simp only [List.getElem_cons_succ]
        omega

/-- run level: a run that returns normally printed exactly `total` records, `total` is the number of work
    items of the distinct torrents, and the last record sums to `total` -/
theorem C15_run (H : Bytes → Bytes) (inp : RunIn) (h : (run H inp).result = .ok ()) (hne : inp.torrents ≠ []) :
    (run H inp).counters.length = (run H inp).total ∧ (run H inp).total = (run H inp).work.length ∧
    ∀ k (hk : k < (run H inp).counters.length),
      ((run H inp).counters[k]).success + ((run H inp).counters[k]).failed + ((run H inp).counters[k]).fault = k + 1 := by
  rcases run_shape H inp hne with ⟨h1, _⟩ | ⟨h1, _⟩ | ⟨h1, _⟩ | ⟨ordered, h1, h2, h3, _, _, h4⟩
  · rw [h1] at h; cases h
  · rw [h1] at h; cases h
  · rw [h1] at h; cases h
  · have hp : (solveAll H (runSt3 inp) ordered ⟨0, 0, 0⟩ []).2.2 = false := by
      cases hp : (solveAll H (runSt3 inp) ordered ⟨0, 0, 0⟩ []).2.2
      · rfl
      · rw [h3, hp] at h; cases h
    obtain ⟨recs, r1, r2, r3⟩ := C15_sum H _ _ _ _ hp
    rw [← h4, List.nil_append] at r1
    generalize (run H inp).counters = cs at *
    subst r1
    refine ⟨by omega, h2, ?_⟩
    intro k hk
    simpa using r3 k hk

/-- duplicates in the input list do not add pieces: sorting and de-duplicating by info-hash leaves pairwise
    distinct info-hashes, each of which was in the input -/
theorem C15_dedup (ts : List Torrent) :
    ((dedupTorrents (sortTorrents ts)).map (·.infoHash)).Nodup ∧
    (∀ t ∈ dedupTorrents (sortTorrents ts), t ∈ ts) ∧
    (∀ t ∈ ts, ∃ u ∈ dedupTorrents (sortTorrents ts), u.infoHash = t.infoHash) := by
  refine ⟨?_, ?_, ?_⟩
  · refine (dedup_sort_strict ts).imp ?_
    intro a b hab he
    subst he
    rw [bytesLt_irrefl] at hab; cases hab
  · intro t ht
    exact (mem_sortTorrents ts t).1 (dedupTorrents_mem _ t ht)
  · intro t ht
    exact dedupTorrents_cover _ t ((mem_sortTorrents ts t).2 ht)

end TB
