/-
  C04 over histories — "verified export data is never rewritten, damaged or lost" over ANY sequence of runs
  (different torrent subsets, scan directories, flags, fault points, interruptions at any point).

  `TB.Props.C04h` covers ONE run, and its side conditions speak of the tree the run starts from and of the run's
  table and work list, which depend on that tree through the candidate lists (`searches`). Here:

  1. the standing tree invariants (`FsWF`, `NoAlias` with respect to any table) are shown to hold at every prefix of
     a run's log, hence at every instant of every history;
  2. `C04_history`: a piece that verifies in the initial tree verifies after any history, with hypotheses only on
     the initial tree (`FsWF`, `NoAlias` for the tables of the steps) and on tree-independent data of each step
     (`table0`, `work0`: the table and work list before candidate lists are filled in);
  3. `C04_history_monotone`: over any history the set of verifying pieces only grows; `C04_run_monotone`: the same
     between any two instants of one run.
-/
import TB.Spec.ExportSpec
import TB.Props.C11
import TB.Props.C04a
import TB.Props.C01bytes
import TB.Props.C04h
import TB.Lemmas.RunR
namespace TB

/-! ### 1. the standing invariants at every prefix of a run's log -/

/-- a well-formed tree stays well-formed at every interruption point of a run (no hypothesis besides `FsWF` of
    the initial tree).

    This is a property of the run's LOG, not of single operations: an `openc` on its own can break the fourth clause
    of `FsWF` (`C04_openc_alone_breaks_wf` below). In a run's log every `openc p` directly follows a successful
    `mkdirs (parent p)` (the writer stops after a failed `create_dir_all`), and that pair keeps `FsWF`
    (`RunR.wf_mkdirs_openCreate`); every other kind of operation keeps it unconditionally (`RunR.wf_applyOp`). -/
theorem C04_wf_prefix (H : Bytes → Bytes) (inp : RunIn) (hwf : FsWF inp.fs) (n : Nat) :
    FsWF (replay inp.fs ((run H inp).ops.take n)) :=
  RunR.run_wflog H inp inp.fs hwf n

/-- the same, replaying the log on any well-formed tree (not necessarily the one the run started from) -/
theorem C04_wf_prefix_any (H : Bytes → Bytes) (inp : RunIn) (fs : Fs) (hwf : FsWF fs) (n : Nat) :
    FsWF (replay fs ((run H inp).ops.take n)) :=
  RunR.run_wflog H inp fs hwf n

/-- the operation-level statement "every logged operation keeps `FsWF`" is false: the tree has the directory `a/b`
    but not the directory `a` (`FsWF` does not ask directories to be prefix-closed); `openc a/b/c` finds the parent
    and creates the file, whose proper prefix `a` is not a directory -/
theorem C04_openc_alone_breaks_wf :
    ∃ (fs : Fs) (o : Op), FsWF fs ∧ o.kind = .openc ∧ ¬ FsWF (applyOp fs o) := by
  refine ⟨⟨[], [[[97], [98]]], [], 0⟩, ⟨.openc, [[97], [98], [99]], true⟩, ?_, rfl, ?_⟩
  · refine ⟨?_, ?_, ?_, ?_⟩
    · intro p i h; cases h
    · exact List.nodup_nil
    · intro p i h; cases h
    · intro p i h; cases h
  · intro h
    have := h.2.2.2 [[97], [98], [99]] 0 (by decide +kernel) [[97]] (by decide +kernel)
    revert this
    decide +kernel

/-- `NoAlias` with respect to ANY table `T` (the table of this run, of an earlier run, of a later run) holds at
    every interruption point of a run if it holds in the (well-formed) initial tree: no logged operation binds a
    second name to an inode, and a created file gets the fresh inode `next` (`RunK.SInv.step`, which assumes nothing
    of the operation). The same holds for the replay of any list of operations whatsoever (`RunR.noAl_replay`). -/
theorem C04_noAlias_prefix (H : Bytes → Bytes) (inp : RunIn) (T : List TEntry) (hwf : FsWF inp.fs)
    (hna : NoAlias inp.fs T) (n : Nat) :
    NoAlias (replay inp.fs ((run H inp).ops.take n)) T :=
  RunR.noAl_replay hwf hna _

/-! ### 2. histories -/

/-- one step of a history: the input of a run (its `fs` field is ignored: the run starts from the tree the
    previous step left) and a cut point: only the first `cut` operations of the run's log are applied (a crash
    after `cut` operations; `cut ≥` the length of the log means the run completed) -/
structure HStep where
  inp : RunIn
  cut : Nat

/-- the tree one step leaves when started on `fs` -/
def stepTree (H : Bytes → Bytes) (fs : Fs) (s : HStep) : Fs :=
  replay fs ((run H { s.inp with fs := fs }).ops.take s.cut)

/-- the tree a history leaves when started on `fs0` -/
def histTree (H : Bytes → Bytes) (fs0 : Fs) (steps : List HStep) : Fs := steps.foldl (stepTree H) fs0

/-- a step that is not cut short leaves the final tree of its run -/
theorem stepTree_complete (H : Bytes → Bytes) (fs : Fs) (s : HStep)
    (h : (run H { s.inp with fs := fs }).ops.length ≤ s.cut) :
    stepTree H fs s = (run H { s.inp with fs := fs }).fs := by
  unfold stepTree
  rw [List.take_of_length_le h, C11_replay]

theorem histTree_append (H : Bytes → Bytes) (fs0 : Fs) (a b : List HStep) :
    histTree H fs0 (a ++ b) = histTree H (histTree H fs0 a) b := by
  unfold histTree; rw [List.foldl_append]

/-- `w` is foreign to a table: no non-padding segment of `w` has the export image of a non-padding table entry -/
def Foreign (w : Work) (table : List TEntry) : Prop :=
  ∀ s ∈ w.segs, s.ent.isPad = false → ∀ e ∈ table, e.isPad = false → e.fullTarget ≠ s.ent.fullTarget

/-- `w` is one of the work items of the run with input `inp`, whatever tree that run starts from: some member of
    `work0 inp` has the same segment ranges, export images and piece hash (`Work.img`, exactly what `VerE` looks at).
    Entry ids (which depend on which other torrents are loaded in the same run) and candidate lists (which depend
    on the tree) are not compared, so one and the same piece of a torrent is a work item of every step that loads the
    torrent with the same export directory. -/
def IsWorkOf (w : Work) (inp : RunIn) : Prop := ∃ w' ∈ work0 inp, w'.img = w.img

/-- the tree-independent side conditions of `C04_run_preserved` for the run with input `inp`, stated for `table0`
    and `work0` (functions of the export directory and the torrents; `TB.Lemmas.RunR`): facts of the layout (C06)
    and of the hash.
    * `range`: every segment lies inside its file;
    * `same`:  non-padding entries with the same export image declare the same length (false for a torrent that
               lists a path twice with different lengths, finding D6; without it `C04_run_preserved` is false:
               `C04_run_preserved_needs_hsame`);
    * `disj`:  `RangesDisjoint`;
    * `inj`:   collision-freedom of `H` on the buffers of these pieces. -/
structure LayoutOk (H : Bytes → Bytes) (inp : RunIn) : Prop where
  range : ∀ w ∈ work0 inp, SegsInRange w
  same : ∀ e ∈ table0 inp, ∀ f ∈ table0 inp, e.isPad = false → f.isPad = false →
    e.fullTarget = f.fullTarget → e.fileLength = f.fileLength
  disj : RangesDisjoint (work0 inp)
  inj : HInjOn H (work0 inp)

/-- `LayoutOk` does not look at the tree -/
theorem LayoutOk.withFs {H : Bytes → Bytes} {inp : RunIn} (h : LayoutOk H inp) (fs : Fs) :
    LayoutOk H { inp with fs := fs } :=
  ⟨h.range, h.same, h.disj, h.inj⟩

/-- every work item of an actual run, on whatever tree, is a work item in the sense of `IsWorkOf` (it is, up to the
    candidate lists of its entries, a member of `work0`); every table entry of an actual run is, up to its candidate
    list, a member of `table0`; and whether a piece verifies depends on `Work.img` only. This ties the pieces
    `C04_history` speaks of to the work items of the runs. -/
theorem work0_covers (H : Bytes → Bytes) (inp : RunIn) :
    (∀ w ∈ (run H inp).work, IsWorkOf w inp) ∧
    (∀ e ∈ (run H inp).table, e.strip ∈ table0 inp) ∧
    (∀ fs w w', w'.img = w.img → (VerE H fs w' ↔ VerE H fs w)) :=
  ⟨fun w hw => ⟨w.strip, RunR.run_work_strip_mem H inp w hw, RunR.img_strip w⟩, RunR.run_table_strip H inp,
    fun fs _ _ h => RunR.verE_img H fs h⟩

theorem IsWorkOf.withFs {w : Work} {inp : RunIn} (h : IsWorkOf w inp) (fs : Fs) : IsWorkOf w { inp with fs := fs } := h

theorem histTree_wf (H : Bytes → Bytes) (steps : List HStep) :
    ∀ fs0, FsWF fs0 → FsWF (histTree H fs0 steps) := by
  induction steps with
  | nil => intro fs0 h; exact h
  | cons s rest ih =>
    intro fs0 h
    exact ih _ (RunR.run_wflog H _ fs0 h s.cut)

theorem histTree_noAlias (H : Bytes → Bytes) (T : List TEntry) (steps : List HStep) :
    ∀ fs0, FsWF fs0 → NoAlias fs0 T → NoAlias (histTree H fs0 steps) T := by
  induction steps with
  | nil => intro fs0 _ h; exact h
  | cons s rest ih =>
    intro fs0 hwf h
    exact ih _ (RunR.run_wflog H _ fs0 hwf s.cut) (RunR.noAl_replay hwf h _)

/-- one step: a verifying piece that is a work item of the step or foreign to its table still verifies in the tree
    the step leaves, wherever the step is cut -/
theorem C04_step (H : Bytes → Bytes) (fs : Fs) (s : HStep) (w : Work) (hwf : FsWF fs)
    (hna : NoAlias fs (table0 s.inp))
    (hdich : (IsWorkOf w s.inp ∧ LayoutOk H s.inp) ∨ Foreign w (table0 s.inp))
    (hver : VerE H fs w) : VerE H (stepTree H fs s) w := by
  rcases hdich with ⟨⟨w', hw', himg⟩, lay⟩ | hf
  · rw [← RunR.verE_img H _ himg] at hver ⊢
    exact RunR.step_own H { s.inp with fs := fs } fs hwf hna lay.same lay.disj lay.inj w' hw' (lay.range w' hw') hver _
      (fun _ h => List.mem_of_mem_take h)
  · exact RunR.step_foreign H { s.inp with fs := fs } fs hwf hna w hf hver _ (fun _ h => List.mem_of_mem_take h)

/-- C04 over a history: a piece `w` that verifies in the initial tree `fs0` verifies in the tree left by ANY
    history of runs started on `fs0` — any torrent subsets, scan directories, export directories, resize flags,
    candidate orders, evaluation orders and fault points (all fields of each step's `RunIn`), each run interrupted
    after any number of operations (`cut`).

    There is NO hypothesis about intermediate trees. Assumed:
    * `hwf`  — the initial tree is well-formed: a hypothesis of `C04_run_preserved` already (for its fourth clause
               see `RunFCex`); the intermediate trees are well-formed by `C04_wf_prefix`.
    * `hna`  — in the INITIAL tree no export image of any step's table shares its inode with another name (no hard
               links into the export trees; DESIGN §8). Needed by `C04_run_preserved`/`C04_run_foreign_preserved`
               for the tree each run starts from; derived for the intermediate trees by `C04_noAlias_prefix` (this
               is why it is stated for the tables of ALL steps on `fs0`: a link present from the start would be
               harmless until the step whose table contains the image).
               The tables are `table0` (before candidate lists are filled in), which has the same images as the
               run's table on whatever tree (`work0_covers`).
    * `hdich` — the DICHOTOMY, for every step: `w` is one of the step's own work items (`IsWorkOf`: a piece of a
               torrent loaded in that step with the same export directory; compared by ranges, images and hash,
               not by entry ids or candidate lists — every work item of an actual run qualifies, `work0_covers`)
               and then the layout/hash facts `LayoutOk` hold for that step; or `w` is foreign to the step's table
               (none of its images is an image of the step).
               The dichotomy cannot be dropped: a step whose table contains an image of `w` under a different
               piece layout or hash may overwrite it (`C04_history_needs_dichotomy` below).
    `LayoutOk` is tree-independent; it is only required of the steps that have `w` among their work items.

    Proof: induction on the history; `FsWF` and `NoAlias` are carried along by `RunR.run_wflog` and
    `RunR.noAl_replay`; each step is `C04_step`, i.e. the invariants `RunK.MInv` / `RunK.FInv` of `C04_run_preserved`
    / `C04_run_foreign_preserved` replayed with `table0`/`work0` in place of the run's table and work list
    (`RunR.run_opFact0`: every operation of a run satisfies `RunJ.OpFact` with respect to them). The two theorems
    of `TB.Props.C04h` are not applied literally because their hypotheses mention the run's own table and work
    list, which depend on the intermediate tree, and because a run that stops in the resize pre-flight has an empty
    work list but has already extended export files. -/
theorem C04_history (H : Bytes → Bytes) (fs0 : Fs) (steps : List HStep) (w : Work)
    (hwf : FsWF fs0)
    (hna : ∀ s ∈ steps, NoAlias fs0 (table0 s.inp))
    (hdich : ∀ s ∈ steps, (IsWorkOf w s.inp ∧ LayoutOk H s.inp) ∨ Foreign w (table0 s.inp))
    (hver : VerE H fs0 w) :
    VerE H (histTree H fs0 steps) w := by
  induction steps generalizing fs0 with
  | nil => exact hver
  | cons s rest ih =>
    have hwf1 : FsWF (stepTree H fs0 s) := RunR.run_wflog H _ fs0 hwf s.cut
    refine ih (stepTree H fs0 s) hwf1 ?_ (fun s' hs' => hdich s' (List.mem_cons_of_mem _ hs')) ?_
    · intro s' hs'
      exact RunR.noAl_replay hwf (hna s' (List.mem_cons_of_mem _ hs')) _
    · exact C04_step H fs0 s w hwf (hna s List.mem_cons_self) (hdich s List.mem_cons_self) hver

/-! ### 3. monotonicity -/

/-- inside one run: a piece (own or foreign) that verifies at some interruption point verifies at every later one.
    (`C04_run_preserved` is the case `n₁ = 0`; this also covers pieces the run itself has just completed.) -/
theorem C04_run_monotone (H : Bytes → Bytes) (inp : RunIn) (w : Work) (hwf : FsWF inp.fs)
    (hna : NoAlias inp.fs (table0 inp))
    (hdich : (IsWorkOf w inp ∧ LayoutOk H inp) ∨ Foreign w (table0 inp))
    (n₁ n₂ : Nat) (hle : n₁ ≤ n₂)
    (hver : VerE H (replay inp.fs ((run H inp).ops.take n₁)) w) :
    VerE H (replay inp.fs ((run H inp).ops.take n₂)) w := by
  have hsplit : (run H inp).ops.take n₂ = (run H inp).ops.take n₁ ++ ((run H inp).ops.take n₂).drop n₁ := by
    have := (List.take_append_drop n₁ ((run H inp).ops.take n₂)).symm
    rwa [List.take_take, Nat.min_eq_left hle] at this
  rw [hsplit, RunR.replay_append]
  have hwf1 := RunR.run_wflog H inp inp.fs hwf n₁
  have hna1 : NoAlias (replay inp.fs ((run H inp).ops.take n₁)) (table0 inp) := RunR.noAl_replay hwf hna _
  have hops : ∀ o ∈ ((run H inp).ops.take n₂).drop n₁, o ∈ (run H inp).ops :=
    fun _ h => List.mem_of_mem_take (List.mem_of_mem_drop h)
  rcases hdich with ⟨⟨w', hw', himg⟩, lay⟩ | hf
  · rw [← RunR.verE_img H _ himg] at hver ⊢
    exact RunR.step_own H inp _ hwf1 hna1 lay.same lay.disj lay.inj w' hw' (lay.range w' hw') hver _ hops
  · exact RunR.step_foreign H inp _ hwf1 hna1 w hf hver _ hops

/-- over any history the set of verifying pieces (among a list `ws` of pieces each of which satisfies the dichotomy
    at every step) only grows: what verifies after the first `j` steps verifies after the first `k ≥ j` steps.
    Hypotheses as in `C04_history`, on the initial tree and on tree-independent data only. Since every step carries
    its own cut point, "after `j` steps" ranges over all instants at which a run stops; for two instants inside
    one run see `C04_run_monotone`, and for an instant inside a step followed by the rest of the history
    `C04_history_monotone_cut`. -/
theorem C04_history_monotone (H : Bytes → Bytes) (fs0 : Fs) (steps : List HStep) (ws : List Work)
    (hwf : FsWF fs0)
    (hna : ∀ s ∈ steps, NoAlias fs0 (table0 s.inp))
    (hdich : ∀ w ∈ ws, ∀ s ∈ steps, (IsWorkOf w s.inp ∧ LayoutOk H s.inp) ∨ Foreign w (table0 s.inp))
    (j k : Nat) (hjk : j ≤ k) :
    ∀ w ∈ ws, VerE H (histTree H fs0 (steps.take j)) w → VerE H (histTree H fs0 (steps.take k)) w := by
  intro w hw hver
  have hsplit : steps.take k = steps.take j ++ (steps.take k).drop j := by
    have := (List.take_append_drop j (steps.take k)).symm
    rwa [List.take_take, Nat.min_eq_left hjk] at this
  have hsub : ∀ s ∈ (steps.take k).drop j, s ∈ steps := fun _ h => List.mem_of_mem_take (List.mem_of_mem_drop h)
  rw [hsplit, histTree_append]
  refine C04_history H _ _ w (histTree_wf H _ fs0 hwf) ?_ (fun s hs => hdich w hw s (hsub s hs)) hver
  intro s hs
  exact histTree_noAlias H _ _ fs0 hwf (hna s (hsub s hs))

/-- the finest form: the history `pre ++ s :: post`; a piece that verifies at the instant when step `s` has applied
    `n ≤ s.cut` operations verifies when the whole history is over -/
theorem C04_history_monotone_cut (H : Bytes → Bytes) (fs0 : Fs) (pre post : List HStep) (s : HStep) (w : Work)
    (hwf : FsWF fs0)
    (hna : ∀ s' ∈ pre ++ s :: post, NoAlias fs0 (table0 s'.inp))
    (hdich : ∀ s' ∈ s :: post, (IsWorkOf w s'.inp ∧ LayoutOk H s'.inp) ∨ Foreign w (table0 s'.inp))
    (n : Nat) (hn : n ≤ s.cut)
    (hver : VerE H (histTree H fs0 (pre ++ [⟨s.inp, n⟩])) w) :
    VerE H (histTree H fs0 (pre ++ s :: post)) w := by
  rw [histTree_append] at hver ⊢
  have hwfA := histTree_wf H pre fs0 hwf
  have hnaA : ∀ s' ∈ s :: post, NoAlias (histTree H fs0 pre) (table0 s'.inp) :=
    fun s' hs' => histTree_noAlias H _ pre fs0 hwf (hna s' (List.mem_append_right _ hs'))
  show VerE H (histTree H (stepTree H (histTree H fs0 pre) s) post) w
  have h1 : VerE H (stepTree H (histTree H fs0 pre) s) w :=
    C04_run_monotone H { s.inp with fs := histTree H fs0 pre } w hwfA (hnaA s List.mem_cons_self)
      ((hdich s List.mem_cons_self).imp (fun h => ⟨h.1.withFs _, h.2.withFs _⟩) id) n s.cut hn hver
  refine C04_history H _ post w (RunR.run_wflog H _ _ hwfA s.cut) ?_
    (fun s' hs' => hdich s' (List.mem_cons_of_mem _ hs')) h1
  intro s' hs'
  exact RunR.noAl_replay hwfA (hnaA s' (List.mem_cons_of_mem _ hs')) _

/-! ### 4. a concrete history satisfying all hypotheses (`H = id`) -/

namespace C04hist.Ex

def ihA : Bytes := [0xAB]
def ihB : Bytes := [0xCD]
def nmA : Bytes := [97]
def nmB : Bytes := [98]
def eDir : Path := [[101]]
def sDir : Path := [[115]]
def imgA : Path := eDir ++ [hex ihA, sData, nmA]
def imgB : Path := eDir ++ [hex ihB, sData, nmB]

/-- torrent A: one file `a` of length 2, one piece `[1, 2]`; torrent B: one file `b` of length 1, one piece `[3]` -/
def torA : Torrent := ⟨⟨nmA, some 2, none, 2, [[1, 2]]⟩, ihA⟩
def torB : Torrent := ⟨⟨nmB, some 1, none, 1, [[3]]⟩, ihB⟩

/-- the image of A exists and is complete; the scan directory holds `s/1 = [3]`, the content of B -/
def fs0 : Fs :=
  { files := [(imgA, 0), (sDir ++ [[49]], 1)],
    dirs := [eDir, sDir, eDir ++ [hex ihA], eDir ++ [hex ihA, sData]],
    data := [(0, [1, 2]), (1, [3])],
    next := 2 }

/-- step 1 loads B only and completes; step 2 loads A and B with the resize pre-flight and crashes after 4
    operations. The `fs` fields are ignored. -/
def inp1 : RunIn :=
  { fs := default, torrents := [torB], scan := [⟨true, sDir⟩], exportDir := ⟨true, eDir⟩, resize := false,
    searchObs := [], order := [], faults := [] }
def inp2 : RunIn :=
  { fs := default, torrents := [torA, torB], scan := [⟨true, sDir⟩], exportDir := ⟨true, eDir⟩, resize := true,
    searchObs := [], order := [], faults := [] }
def steps : List HStep := [⟨inp1, 1000⟩, ⟨inp2, 4⟩]

def eA : TEntry := ⟨0, ihA, 0, 2, imgA, [nmA], false, none⟩
def eB1 : TEntry := ⟨0, ihB, 0, 1, imgB, [nmB], false, none⟩
def eB2 : TEntry := ⟨1, ihB, 0, 1, imgB, [nmB], false, none⟩
def wA : Work := ⟨[⟨2, 0, eA⟩], [1, 2]⟩
def wB1 : Work := ⟨[⟨1, 0, eB1⟩], [3]⟩
def wB2 : Work := ⟨[⟨1, 0, eB2⟩], [3]⟩

theorem table1 : table0 inp1 = [eB1] := by decide +kernel
theorem work1 : work0 inp1 = [wB1] := by decide +kernel
theorem table2 : table0 inp2 = [eA, eB2] := by decide +kernel
theorem work2 : work0 inp2 = [wA, wB2] := by decide +kernel

/-- step 1 really writes (the image of B is created and filled), step 2 really is cut short -/
example : ((run id { inp1 with fs := fs0 }).ops.filter (fun o => o.kind.mutating)).map (fun o => (o.kind, o.path))
    = [(.mkdirs, eDir ++ [hex ihB, sData]), (.openc, imgB), (.setlen 1, imgB), (.write 0 [3], imgB)] := by
  decide +kernel
example : 4 < (run id { inp2 with fs := stepTree id fs0 ⟨inp1, 1000⟩ }).ops.length := by decide +kernel

theorem wf : FsWF fs0 := by
  refine ⟨?_, ?_, ?_, ?_⟩
  · have : ∀ e ∈ fs0.files, e.2 < fs0.next := by decide +kernel
    exact fun p i h => this (p, i) h
  · show (fs0.files.map (·.1)).Nodup
    decide +kernel
  · have : ∀ e ∈ fs0.files, fs0.isDir e.1 = false := by decide +kernel
    exact fun p i h => this (p, i) h
  · have : ∀ e ∈ fs0.files, ∀ q ∈ Fs.properPrefixes e.1, fs0.isDir q = true := by decide +kernel
    exact fun p i h => this (p, i) h

theorem noAlias_of (T : List TEntry)
    (key : ∀ e ∈ T, ∀ f ∈ fs0.files, ∀ g ∈ fs0.files, f.1 = e.fullTarget → g.2 = f.2 → g.1 = e.fullTarget) :
    NoAlias fs0 T := by
  intro e he _ q i h1 h2
  exact key e he _ (RunF.inoOf_mem h1) _ (RunF.inoOf_mem h2) rfl rfl

theorem hna : ∀ s ∈ steps, NoAlias fs0 (table0 s.inp) := by
  intro s hs
  simp only [steps, List.mem_cons, List.not_mem_nil, or_false] at hs
  rcases hs with rfl | rfl
  · rw [table1]; exact noAlias_of _ (by decide +kernel)
  · rw [table2]; exact noAlias_of _ (by decide +kernel)

theorem layout2 : LayoutOk id inp2 := by
  refine ⟨?_, ?_, ?_, ?_⟩
  · rw [work2]
    have key : ∀ w ∈ [wA, wB2], ∀ s ∈ w.segs, s.off + s.len ≤ s.ent.fileLength := by decide +kernel
    exact key
  · rw [table2]
    have key : ∀ e ∈ [eA, eB2], ∀ f ∈ [eA, eB2], e.isPad = false → f.isPad = false →
        e.fullTarget = f.fullTarget → e.fileLength = f.fileLength := by decide +kernel
    exact key
  · rw [work2]
    constructor
    · have key : ∀ a ∈ List.range 2, ∀ b ∈ List.range 2, a ≠ b →
          ∀ s ∈ ([wA, wB2][a]?.getD default).segs, ∀ t ∈ ([wA, wB2][b]?.getD default).segs,
          s.ent.fullTarget = t.ent.fullTarget → s.off + s.len ≤ t.off ∨ t.off + t.len ≤ s.off := by decide +kernel
      intro a b w v ha hb hab s hs t ht _ _ heq
      obtain ⟨la, _⟩ := List.getElem?_eq_some_iff.1 ha
      obtain ⟨lb, _⟩ := List.getElem?_eq_some_iff.1 hb
      have := key a (List.mem_range.2 la) b (List.mem_range.2 lb) hab
      rw [ha, hb] at this
      exact this s hs t ht heq
    · have key : ∀ w ∈ [wA, wB2], ∀ a ∈ List.range w.segs.length, ∀ b ∈ List.range w.segs.length, a ≠ b →
          (w.segs[a]?.getD default).ent.fullTarget ≠ (w.segs[b]?.getD default).ent.fullTarget := by decide +kernel
      intro w hw a b s t ha hb hab _ _
      obtain ⟨la, _⟩ := List.getElem?_eq_some_iff.1 ha
      obtain ⟨lb, _⟩ := List.getElem?_eq_some_iff.1 hb
      have := key w hw a (List.mem_range.2 la) b (List.mem_range.2 lb) hab
      rw [ha, hb] at this
      exact this
  · intro w _ b b' h1 h2
    exact (show b = w.hash from h1).trans (show b' = w.hash from h2).symm

theorem foreign1 : Foreign wA (table0 inp1) := by
  rw [table1]
  have key : ∀ s ∈ wA.segs, s.ent.isPad = false → ∀ e ∈ [eB1], e.isPad = false →
      e.fullTarget ≠ s.ent.fullTarget := by decide +kernel
  exact key

theorem layout1 : LayoutOk id inp1 := by
  refine ⟨?_, ?_, ?_, ?_⟩
  · rw [work1]
    have key : ∀ w ∈ [wB1], ∀ s ∈ w.segs, s.off + s.len ≤ s.ent.fileLength := by decide +kernel
    exact key
  · rw [table1]
    have key : ∀ e ∈ [eB1], ∀ f ∈ [eB1], e.isPad = false → f.isPad = false →
        e.fullTarget = f.fullTarget → e.fileLength = f.fileLength := by decide +kernel
    exact key
  · rw [work1]
    constructor
    · intro a b w v ha hb hab
      obtain ⟨la, _⟩ := List.getElem?_eq_some_iff.1 ha
      obtain ⟨lb, _⟩ := List.getElem?_eq_some_iff.1 hb
      simp only [List.length_cons, List.length_nil] at la lb
      omega
    · intro w hw a b s t ha hb hab
      rw [List.mem_singleton] at hw
      subst hw
      obtain ⟨la, _⟩ := List.getElem?_eq_some_iff.1 ha
      obtain ⟨lb, _⟩ := List.getElem?_eq_some_iff.1 hb
      simp only [wB1, List.length_cons, List.length_nil] at la lb
      omega
  · intro w _ b b' h1 h2
    exact (show b = w.hash from h1).trans (show b' = w.hash from h2).symm

/-- the piece of A: foreign to step 1, a work item of step 2 -/
theorem hdichA : ∀ s ∈ steps, (IsWorkOf wA s.inp ∧ LayoutOk id s.inp) ∨ Foreign wA (table0 s.inp) := by
  intro s hs
  simp only [steps, List.mem_cons, List.not_mem_nil, or_false] at hs
  rcases hs with rfl | rfl
  · exact Or.inr foreign1
  · exact Or.inl ⟨⟨wA, by rw [work2]; exact List.mem_cons_self, rfl⟩, layout2⟩

/-- the piece of B: a work item of both steps, although its entry has id 0 in step 1 and id 1 in step 2 -/
theorem hdichB : ∀ s ∈ steps, (IsWorkOf wB1 s.inp ∧ LayoutOk id s.inp) ∨ Foreign wB1 (table0 s.inp) := by
  intro s hs
  simp only [steps, List.mem_cons, List.not_mem_nil, or_false] at hs
  rcases hs with rfl | rfl
  · exact Or.inl ⟨⟨wB1, by rw [work1]; exact List.mem_cons_self, rfl⟩, layout1⟩
  · exact Or.inl ⟨⟨wB2, by rw [work2]; exact List.mem_cons_of_mem _ List.mem_cons_self, rfl⟩, layout2⟩

theorem wA_ver : VerE id fs0 wA := ⟨[[1, 2]], by decide +kernel, by decide +kernel⟩

/-- non-vacuity of `C04_history`: all hypotheses hold in this world -/
example : VerE id (histTree id fs0 steps) wA := C04_history id fs0 steps wA wf hna hdichA wA_ver

/-- non-vacuity of `C04_history_monotone`, with the set of verifying pieces really growing: the piece of B does not
    verify at the start, verifies after step 1 (the run found it), and therefore after step 2 -/
example : wB1.segs.mapM (segBytesIn fs0) = none := by decide +kernel
theorem wB1_ver1 : VerE id (histTree id fs0 (steps.take 1)) wB1 := ⟨[[3]], by decide +kernel, by decide +kernel⟩
example : VerE id (histTree id fs0 (steps.take 2)) wB1 :=
  C04_history_monotone id fs0 steps [wA, wB1] wf hna
    (by
      intro w hw
      simp only [List.mem_cons, List.not_mem_nil, or_false] at hw
      rcases hw with rfl | rfl
      · exact hdichA
      · exact hdichB)
    1 2 (by omega) wB1 (List.mem_cons_of_mem _ List.mem_cons_self) wB1_ver1

end C04hist.Ex

/-! ### 5. the hypotheses cannot be dropped (`H = id`) -/

namespace C04hist.Cex
open C04hist.Ex

/-- a torrent with the info-hash and the name of A, hence the same export image, but another piece hash -/
def torA' : Torrent := ⟨⟨nmA, some 2, none, 2, [[3, 4]]⟩, ihA⟩

def fsD : Fs :=
  { files := [(imgA, 0), (sDir ++ [[49]], 1)],
    dirs := [eDir, sDir, eDir ++ [hex ihA], eDir ++ [hex ihA, sData]],
    data := [(0, [1, 2]), (1, [3, 4])],
    next := 2 }
def inpD : RunIn :=
  { fs := default, torrents := [torA'], scan := [⟨true, sDir⟩], exportDir := ⟨true, eDir⟩, resize := false,
    searchObs := [], order := [], faults := [] }
def wA' : Work := ⟨[⟨2, 0, eA⟩], [3, 4]⟩

theorem tableD : table0 inpD = [eA] := by decide +kernel
theorem workD : work0 inpD = [wA'] := by decide +kernel

theorem wfD : FsWF fsD := by
  refine ⟨?_, ?_, ?_, ?_⟩
  · have : ∀ e ∈ fsD.files, e.2 < fsD.next := by decide +kernel
    exact fun p i h => this (p, i) h
  · show (fsD.files.map (·.1)).Nodup
    decide +kernel
  · have : ∀ e ∈ fsD.files, fsD.isDir e.1 = false := by decide +kernel
    exact fun p i h => this (p, i) h
  · have : ∀ e ∈ fsD.files, ∀ q ∈ Fs.properPrefixes e.1, fsD.isDir q = true := by decide +kernel
    exact fun p i h => this (p, i) h

theorem noAliasD : NoAlias fsD (table0 inpD) := by
  rw [tableD]
  have key : ∀ e ∈ [eA], ∀ f ∈ fsD.files, ∀ g ∈ fsD.files, f.1 = e.fullTarget → g.2 = f.2 → g.1 = e.fullTarget := by
    decide +kernel
  intro e he _ q i h1 h2
  exact key e he _ (RunF.inoOf_mem h1) _ (RunF.inoOf_mem h2) rfl rfl

theorem layoutD : LayoutOk id inpD := by
  refine ⟨?_, ?_, ?_, ?_⟩
  · rw [workD]
    have key : ∀ w ∈ [wA'], ∀ s ∈ w.segs, s.off + s.len ≤ s.ent.fileLength := by decide +kernel
    exact key
  · rw [tableD]
    have key : ∀ e ∈ [eA], ∀ f ∈ [eA], e.isPad = false → f.isPad = false →
        e.fullTarget = f.fullTarget → e.fileLength = f.fileLength := by decide +kernel
    exact key
  · rw [workD]
    constructor
    · intro a b w v ha hb hab
      obtain ⟨la, _⟩ := List.getElem?_eq_some_iff.1 ha
      obtain ⟨lb, _⟩ := List.getElem?_eq_some_iff.1 hb
      simp only [List.length_cons, List.length_nil] at la lb
      omega
    · intro w hw a b s t ha hb hab
      rw [List.mem_singleton] at hw
      subst hw
      obtain ⟨la, _⟩ := List.getElem?_eq_some_iff.1 ha
      obtain ⟨lb, _⟩ := List.getElem?_eq_some_iff.1 hb
      simp only [wA', List.length_cons, List.length_nil] at la lb
      omega
  · intro w _ b b' h1 h2
    exact (show b = w.hash from h1).trans (show b' = w.hash from h2).symm

theorem wA_verD : VerE id fsD wA := ⟨[[1, 2]], by decide +kernel, by decide +kernel⟩

theorem wA_not_verD : ¬ VerE id (histTree id fsD [⟨inpD, 1000⟩]) wA := by
  rintro ⟨ps, h1, h2⟩
  have e : wA.segs.mapM (segBytesIn (histTree id fsD [⟨inpD, 1000⟩])) = some [[3, 4]] := by decide +kernel
  rw [e] at h1
  cases h1
  revert h2
  decide +kernel

/-- the world of the second counterexample: the image of B is a hard link to the image of A -/
def fsL : Fs :=
  { files := [(imgA, 0), (imgB, 0), (sDir ++ [[49]], 1)],
    dirs := [eDir, sDir, eDir ++ [hex ihA], eDir ++ [hex ihA, sData], eDir ++ [hex ihB], eDir ++ [hex ihB, sData]],
    data := [(0, [1, 2]), (1, [3, 4])],
    next := 2 }
/-- a torrent whose only file `b` has length 2 and content `[3, 4]` -/
def torB' : Torrent := ⟨⟨nmB, some 2, none, 2, [[3, 4]]⟩, ihB⟩
def inpL : RunIn :=
  { fs := default, torrents := [torB'], scan := [⟨true, sDir⟩], exportDir := ⟨true, eDir⟩, resize := false,
    searchObs := [], order := [], faults := [] }
def eB' : TEntry := ⟨0, ihB, 0, 2, imgB, [nmB], false, none⟩

theorem tableL : table0 inpL = [eB'] := by decide +kernel

theorem wfL : FsWF fsL := by
  refine ⟨?_, ?_, ?_, ?_⟩
  · have : ∀ e ∈ fsL.files, e.2 < fsL.next := by decide +kernel
    exact fun p i h => this (p, i) h
  · show (fsL.files.map (·.1)).Nodup
    decide +kernel
  · have : ∀ e ∈ fsL.files, fsL.isDir e.1 = false := by decide +kernel
    exact fun p i h => this (p, i) h
  · have : ∀ e ∈ fsL.files, ∀ q ∈ Fs.properPrefixes e.1, fsL.isDir q = true := by decide +kernel
    exact fun p i h => this (p, i) h

theorem foreignL : Foreign wA (table0 inpL) := by
  rw [tableL]
  have key : ∀ s ∈ wA.segs, s.ent.isPad = false → ∀ e ∈ [eB'], e.isPad = false →
      e.fullTarget ≠ s.ent.fullTarget := by decide +kernel
  exact key

theorem wA_verL : VerE id fsL wA := ⟨[[1, 2]], by decide +kernel, by decide +kernel⟩

theorem wA_not_verL : ¬ VerE id (histTree id fsL [⟨inpL, 1000⟩]) wA := by
  rintro ⟨ps, h1, h2⟩
  have e : wA.segs.mapM (segBytesIn (histTree id fsL [⟨inpL, 1000⟩])) = some [[3, 4]] := by decide +kernel
  rw [e] at h1
  cases h1
  revert h2
  decide +kernel

end C04hist.Cex

/-- `C04_history` without the dichotomy is false, even with `LayoutOk` for every step. World (`H = id`): the image
    of torrent A holds `[1, 2]` and verifies; the one step loads only a torrent A′ with the info-hash and name of A — hence
    the same export image — whose piece hash is `[3, 4]`, and the scan directory holds `[3, 4]`. The run finds the
    piece of A′ and writes it over the image. The piece of A is neither a member of the step's `work0` (other hash)
    nor foreign to its table (same image). `FsWF`, `NoAlias` and `LayoutOk` hold. -/
theorem C04_history_needs_dichotomy :
    ¬ (∀ (H : Bytes → Bytes) (fs0 : Fs) (steps : List HStep) (w : Work), FsWF fs0 →
        (∀ s ∈ steps, NoAlias fs0 (table0 s.inp)) → (∀ s ∈ steps, LayoutOk H s.inp) →
        VerE H fs0 w → VerE H (histTree H fs0 steps) w) := by
  intro h
  refine C04hist.Cex.wA_not_verD (h id C04hist.Cex.fsD [⟨C04hist.Cex.inpD, 1000⟩] C04hist.Ex.wA C04hist.Cex.wfD ?_ ?_
    C04hist.Cex.wA_verD)
  · intro s hs
    rw [List.mem_singleton] at hs
    subst hs
    exact C04hist.Cex.noAliasD
  · intro s hs
    rw [List.mem_singleton] at hs
    subst hs
    exact C04hist.Cex.layoutD

/-- `C04_history` without `hna` is false. World (`H = id`): the export image of B is a hard link to the verifying
    image of A (`[1, 2]`); the one step loads only B (length 2, piece `[3, 4]`, found in the scan directory) and
    writes it to its image, that is, into the inode of A's image. The piece of A is foreign to the step (different
    paths), the tree is well-formed; `NoAlias` for the step's table fails in the initial tree. -/
theorem C04_history_needs_noAlias :
    ¬ (∀ (H : Bytes → Bytes) (fs0 : Fs) (steps : List HStep) (w : Work), FsWF fs0 →
        (∀ s ∈ steps, (IsWorkOf w s.inp ∧ LayoutOk H s.inp) ∨ Foreign w (table0 s.inp)) →
        VerE H fs0 w → VerE H (histTree H fs0 steps) w) := by
  intro h
  refine C04hist.Cex.wA_not_verL (h id C04hist.Cex.fsL [⟨C04hist.Cex.inpL, 1000⟩] C04hist.Ex.wA C04hist.Cex.wfL ?_
    C04hist.Cex.wA_verL)
  intro s hs
  rw [List.mem_singleton] at hs
  subst hs
  exact Or.inr C04hist.Cex.foreignL

end TB
