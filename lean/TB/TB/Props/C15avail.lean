/-
  C15 (available ⇒ succeeded) — the remaining direction of "the figures are truthful": if the data of every piece is
  present in scan-only files (`AvailScan`, the hypothesis of C02), the run ends `ok` and no evaluation ends in an I/O
  error, the final record reports EVERY piece as succeeded (`C15_available_all_succeeded`). Built from the exact
  accounting of TB.Props.C15exact and `C02_run_not_failed`; the last example instantiates every hypothesis on the
  two-piece world `TB.RunQ.Ex`.
-/
import TB.Props.C15exact
import TB.Props.C02chain
import TB.Lemmas.RunQCex
namespace TB
open TB.RB

/-- the state in which the piece after `pre` is evaluated -/
theorem solveAll_append_flag (H : Bytes → Bytes) (st : St) (pre post : List Work) (c : Counters) (acc : List Counters)
    (h : (solveAll H st (pre ++ post) c acc).2.2 = false) : (solveAll H st pre c acc).2.2 = false := by
  induction pre generalizing st c acc with
  | nil => rfl
  | cons v pre ih =>
    rw [List.cons_append, solveAll_cons] at h
    rw [solveAll_cons]
    by_cases hp : (solvePiece H st v).2 = .panic
    · rw [if_pos hp] at h; cases h
    · rw [if_neg hp] at h ⊢
      exact ih _ _ _ h

theorem outcomes_length (H : Bytes → Bytes) (st : St) (ws : List Work) : (outcomes H st ws).length = ws.length := by
  induction ws generalizing st with
  | nil => rfl
  | cons w ws ih => simp only [outcomes, List.length_cons, ih]

/-- the outcome list at position |pre| is the outcome of evaluating that piece in the state `solveAll` reaches after `pre`
    (the counters and the accumulator do not influence the state) -/
theorem outcomes_at (H : Bytes → Bytes) (st : St) (pre : List Work) (w : Work) (post : List Work) (c : Counters) (acc : List Counters)
    (h : (solveAll H st pre c acc).2.2 = false) :
    (outcomes H st (pre ++ w :: post))[pre.length]? = some (solvePiece H (solveAll H st pre c acc).1 w).2 := by
  induction pre generalizing st c acc with
  | nil => simp [outcomes, solveAll]
  | cons v pre ih =>
    rw [solveAll_cons] at h ⊢
    by_cases hp : (solvePiece H st v).2 = .panic
    · rw [if_pos hp] at h; cases h
    · rw [if_neg hp] at h ⊢
      simp only [List.cons_append, outcomes, List.length_cons, List.getElem?_cons_succ]
      exact ih _ _ _ h

/-- no panic flag ⇒ no `.panic` among the outcomes -/
theorem outcomes_no_panic (H : Bytes → Bytes) (st : St) (ws : List Work) (c : Counters) (acc : List Counters)
    (h : (solveAll H st ws c acc).2.2 = false) : Solved.panic ∉ outcomes H st ws := by
  induction ws generalizing st c acc with
  | nil => simp [outcomes]
  | cons v ws ih =>
    rw [solveAll_cons] at h
    by_cases hp : (solvePiece H st v).2 = .panic
    · rw [if_pos hp] at h; cases h
    · rw [if_neg hp] at h
      simp only [outcomes, List.mem_cons, not_or]
      exact ⟨fun e => hp e.symm, ih _ _ _ h⟩

/-- AVAILABLE ⇒ SUCCEEDED, for the whole run: on a well-formed tree, if every work item's data is present in scan-only
    files (`AvailScan`, as in C02), the run ends `ok`, and no evaluation ends in an I/O error, then the final record
    reports every piece as succeeded, none failed, none in error. -/
theorem C15_available_all_succeeded (H : Bytes → Bytes) (inp : RunIn) (hwf : FsWF inp.fs)
    (hok : (run H inp).result = .ok ())
    (hall : ∀ w ∈ (run H inp).work, AvailScan H inp.fs inp.scan (run H inp).table w)
    (hnofault : ∀ pre w post, RunQ.evalOrder (run H inp).work inp.order = pre ++ w :: post →
      (solvePiece H (solveAll H (runSt3 inp) pre ⟨0, 0, 0⟩ []).1 w).2 ≠ .fault)
    (last : Counters) (hl : (run H inp).counters.getLast? = some last) :
    last.success = (run H inp).work.length ∧ last.failed = 0 ∧ last.fault = 0 := by
  obtain ⟨h1, h2, h3⟩ := C15_run_final_figures H inp hok last hl
  have hp : (solveAll H (runSt3 inp) (RunQ.evalOrder (run H inp).work inp.order) ⟨0, 0, 0⟩ []).2.2 = false := by
    rcases RunQ.run_eval_or H inp with ⟨_, h0⟩ | ⟨_, _, _, _, _, _, _, _, hres⟩
    · rw [h0] at hl; cases hl
    · cases hp : (solveAll H (runSt3 inp) (RunQ.evalOrder (run H inp).work inp.order) ⟨0, 0, 0⟩ []).2.2
      · rfl
      · rw [hres, hp] at hok; cases hok
  have hfound : ∀ r ∈ outcomes H (runSt3 inp) (RunQ.evalOrder (run H inp).work inp.order), r = Solved.found := by
    intro r hr
    obtain ⟨k, hk, hkr⟩ := List.getElem_of_mem hr
    rw [outcomes_length] at hk
    have hsplit : RunQ.evalOrder (run H inp).work inp.order
        = (RunQ.evalOrder (run H inp).work inp.order).take k
          ++ (RunQ.evalOrder (run H inp).work inp.order)[k] :: (RunQ.evalOrder (run H inp).work inp.order).drop (k + 1) := by
      rw [List.getElem_cons_drop, List.take_append_drop]
    generalize hpre : (RunQ.evalOrder (run H inp).work inp.order).take k = pre at hsplit
    generalize (RunQ.evalOrder (run H inp).work inp.order)[k] = w at hsplit
    generalize (RunQ.evalOrder (run H inp).work inp.order).drop (k + 1) = post at hsplit
    have hlen : pre.length = k := by rw [← hpre, List.length_take]; omega
    have hpp : (solveAll H (runSt3 inp) pre ⟨0, 0, 0⟩ []).2.2 = false :=
      solveAll_append_flag H _ pre (w :: post) _ _ (hsplit ▸ hp)
    have hat := outcomes_at H (runSt3 inp) pre w post ⟨0, 0, 0⟩ [] hpp
    rw [← hsplit, hlen] at hat
    have hwmem : w ∈ (run H inp).work :=
      RunQ.mem_evalOrder.1 (by rw [hsplit]; simp)
    have hnf := C02_run_not_failed H inp hwf w (hall w hwmem) pre post hsplit
    have hnft := hnofault pre w post hsplit
    have hnp := outcomes_no_panic H _ _ _ _ hp
    have hre : r = (solvePiece H (solveAll H (runSt3 inp) pre ⟨0, 0, 0⟩ []).1 w).2 := by
      have : (outcomes H (runSt3 inp) (RunQ.evalOrder (run H inp).work inp.order))[k]? = some r := by
        rw [List.getElem?_eq_getElem (by rw [outcomes_length]; exact hk), hkr]
      rw [this] at hat
      exact Option.some.inj hat
    have hrp : r ≠ .panic := fun e => hnp (e ▸ hr)
    rw [← hre] at hnf hnft
    cases r
    · rfl
    all_goals first | exact absurd rfl hnf | exact absurd rfl hnft | exact absurd rfl hrp
  refine ⟨?_, ?_, ?_⟩
  · rw [h1, List.count_eq_length.2 (fun r hr => (hfound r hr).symm), outcomes_length]
    exact (RunQ.evalOrder_perm _ _).length_eq
  · rw [h2, List.count_eq_zero]
    intro hm; cases hfound _ hm
  · rw [h3, List.count_eq_zero]
    intro hm; cases hfound _ hm

/-! #### non-vacuity: the world `RunQ.Ex` (two pieces, both available) meets every hypothesis -/
section
open TB.RunQ TB.RunQ.Ex
example : ∃ last, (run id inp).counters.getLast? = some last ∧
    last.success = (run id inp).work.length ∧ last.failed = 0 ∧ last.fault = 0 := by
  have hw : (run id inp).work = [w0, w1] ∨ (run id inp).work = [w1, w0] := by decide +kernel
  cases hl : (run id inp).counters.getLast? with
  | none => exact absurd hl (by decide +kernel)
  | some last =>
    refine ⟨last, rfl, C15_available_all_succeeded id inp wf (by decide +kernel) ?_ ?_ last hl⟩
    · intro w hwm
      rcases hw with e | e <;> rw [e] at hwm <;> simp at hwm <;> rcases hwm with r | r <;> subst r
      all_goals first | exact avail0 | exact avail1
    · intro pre w post hord
      rw [ord] at hord
      match pre, hord with
      | [], h => 
        have : w = w1 := by simpa using (List.cons.inj h).1.symm
        subst this; decide +kernel
      | [x], h =>
        have h1 := (List.cons.inj h).1
        have h2 := (List.cons.inj (List.cons.inj h).2).1
        subst h1; subst h2; decide +kernel
      | _ :: _ :: _ :: _, h => simp at h
      | [_, _], h => simp at h
end

end TB
