/-
  C02 — every piece whose data is present on disk is recovered: completeness of the search.
-/
import TB.Spec.ExportSpec
import TB.Lemmas.RunC
namespace TB

/-- no fault point lies ahead of the current position in the log -/
def NoFutureFaults (st : St) : Prop := ∀ idx ∈ st.faults, idx < st.ops.length

/-- whatever the product search returns is a choice of one preloaded candidate per segment whose
    concatenation hashes to the piece hash -/
theorem C02_search_sound (H : Bytes → Bytes) (hash : Bytes) (loaded : List (List (Option Path × Bytes)))
    (chosen r : List (Option Path × Bytes)) (h : searchProduct H hash loaded chosen = some r) :
    ∃ picks, r = chosen ++ picks ∧ picks.length = loaded.length ∧
      (∀ k (hk : k < picks.length) (hl : k < loaded.length), picks[k] ∈ loaded[k]) ∧
      H (r.flatMap (·.2)) = hash := by
  sorry

/-- the product search is exhaustive: if any choice of one candidate per segment hashes to the piece hash,
    the search succeeds -/
theorem C02_search_complete (H : Bytes → Bytes) (hash : Bytes) (loaded : List (List (Option Path × Bytes)))
    (chosen picks : List (Option Path × Bytes)) (hlen : picks.length = loaded.length)
    (hmem : ∀ k (hk : k < picks.length) (hl : k < loaded.length), picks[k] ∈ loaded[k])
    (hhash : H ((chosen ++ picks).flatMap (·.2)) = hash) :
    (searchProduct H hash loaded chosen).isSome = true := by
  sorry

/-- the single-file scan gives up only after every candidate has been read and none hashed to the piece hash -/
theorem C02_single_complete (H : Bytes → Bytes) (hash : Bytes) (seg : WSeg) (st st' : St) (paths : List Path)
    (h : scanSingle H hash seg st paths = (st', .ok none)) :
    ∀ p ∈ paths, ∀ i, st.fs.look p = .file i → H (st.fs.readAt i seg.off seg.len) ≠ hash := by
  sorry

/-- preloading keeps every distinct byte string the candidates supply (first supplier wins) -/
theorem C02_preload_complete (seg : WSeg) (st st' : St) (paths : List Path)
    (acc r : List (Option Path × Bytes)) (h : preloadSeg seg st paths acc = (st', .ok r)) :
    (∀ x ∈ acc, x ∈ r) ∧
    ∀ p ∈ paths, ∀ i, st.fs.look p = .file i → ∃ x ∈ r, x.2 = st.fs.readAt i seg.off seg.len := by
  sorry

/-- the candidate index keeps one name of every file of the right length: an admissible candidate order names
    every inode of the candidate map -/
theorem C02_index_keeps_inodes (e : TEntry) (m : List (Path × Nat)) (obs : List Path)
    (h : validSearches e m obs = true) :
    ∀ x ∈ m, ∃ p ∈ obs, ∃ y ∈ m, y.1 = p ∧ y.2 = x.2 := by
  sorry

/-- every regular file below a scan directory whose length is one of the wanted lengths is in the cache
    under that length (possibly under another name of the same path key) -/
theorem C02_scan_registers (fs : Fs) (c : Cache) (dir : Path) (lengths : List Nat) (p : Path) (i : Nat)
    (hmem : (p, i) ∈ fs.files) (hdir : dir.length < p.length ∧ p.take dir.length = dir)
    (hlen : lengths.contains (fs.content i).length = true) :
    ∃ m, cacheGet (addByDirectory fs c dir lengths) (fs.content i).length = some m ∧ ∃ j, (p, j) ∈ m := by
  sorry

/-- piece level: if every candidate is a readable file, no fault lies ahead, and some choice of candidates
    (zeros for padding, nothing for empty files) assembles to a buffer with the piece hash, then the piece is
    not reported as failed -/
theorem C02_piece (H : Bytes → Bytes) (st : St) (w : Work)
    (hnf : NoFutureFaults st)
    (hreadable : ∀ seg ∈ w.segs, ∀ paths, seg.ent.searches = some paths → ∀ p ∈ paths, ∃ i, st.fs.look p = .file i)
    (hnonempty : ∀ seg ∈ w.segs, seg.ent.searches ≠ some [])
    (havail : ∃ parts : List Bytes, parts.length = w.segs.length ∧ H parts.flatten = w.hash ∧
      ∀ (k : Nat) (seg : WSeg) (part : Bytes), w.segs[k]? = some seg → parts[k]? = some part →
        (seg.ent.isPad = true → part = List.replicate seg.len 0) ∧
        (seg.ent.isPad = false → seg.len = 0 → part = []) ∧
        (seg.ent.isPad = false → seg.len ≠ 0 →
          ∃ paths p i, seg.ent.searches = some paths ∧ p ∈ paths ∧ st.fs.look p = .file i
            ∧ part = st.fs.readAt i seg.off seg.len)) :
    (solvePiece H st w).2 ≠ .notFound := by
  sorry

end TB
