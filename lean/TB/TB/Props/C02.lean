/-
  C02 — every piece whose data is present on disk is recovered: completeness of the search.
-/
import TB.Spec.ExportSpec
import TB.Lemmas.RunC
namespace TB
open TB.RC
/-- no fault point lies ahead of the current position in the log -/
def NoFutureFaults (st : St) : Prop := ∀ idx ∈ st.faults, idx < st.ops.length

/-- whatever the product search returns is a choice of one preloaded candidate per segment whose
    concatenation hashes to the piece hash -/
theorem C02_search_sound (H : Bytes → Bytes) (hash : Bytes) (loaded : List (List (Option Path × Bytes)))
    (chosen r : List (Option Path × Bytes)) (h : searchProduct H hash loaded chosen = some r) :
    ∃ picks, r = chosen ++ picks ∧ picks.length = loaded.length ∧
      (∀ k (hk : k < picks.length) (hl : k < loaded.length), picks[k] ∈ loaded[k]) ∧
      H (r.flatMap (·.2)) = hash := by
  induction loaded generalizing chosen with
  | nil =>
    simp only [searchProduct] at h
    split at h
    · rename_i hh
      cases h
      exact ⟨[], by simp, rfl, fun k hk => (by cases hk), by simpa using hh⟩
    · cases h
  | cons cands rest ih =>
    simp only [searchProduct] at h
    obtain ⟨c, hc, hfc⟩ := firstM_option_some h
    obtain ⟨picks, hr, hlen, hmem, hh⟩ := ih _ hfc
    refine ⟨c :: picks, by rw [hr]; simp, by simp [hlen], ?_, hh⟩
    intro k hk hl
    cases k with
    | zero => simpa using hc
    | succ k =>
      simp only [List.getElem_cons_succ]
      exact hmem k (by simpa using hk) (by simpa using hl)

/-- the product search is exhaustive: if any choice of one candidate per segment hashes to the piece hash,
    the search succeeds -/
theorem C02_search_complete (H : Bytes → Bytes) (hash : Bytes) (loaded : List (List (Option Path × Bytes)))
    (chosen picks : List (Option Path × Bytes)) (hlen : picks.length = loaded.length)
    (hmem : ∀ k (hk : k < picks.length) (hl : k < loaded.length), picks[k] ∈ loaded[k])
    (hhash : H ((chosen ++ picks).flatMap (·.2)) = hash) :
    (searchProduct H hash loaded chosen).isSome = true := by
  induction loaded generalizing chosen picks with
  | nil =>
    have : picks = [] := List.eq_nil_of_length_eq_zero hlen
    subst this
    simp only [List.append_nil] at hhash
    simp [searchProduct, hhash]
  | cons cands rest ih =>
    cases picks with
    | nil => simp at hlen
    | cons c picks =>
      simp only [searchProduct]
      have hc : c ∈ cands := by
        have := hmem 0 (by simp) (by simp)
        simpa using this
      refine firstM_option_isSome hc ?_
      apply ih (chosen ++ [c]) picks (by simpa using hlen)
      · intro k hk hl
        have := hmem (k + 1) (by simpa using hk) (by simpa using hl)
        simpa using this
      · simpa using hhash

/-- the single-file scan gives up only after every candidate has been read and none hashed to the piece hash -/
theorem C02_single_complete (H : Bytes → Bytes) (hash : Bytes) (seg : WSeg) (st st' : St) (paths : List Path)
    (h : scanSingle H hash seg st paths = (st', .ok none)) :
    ∀ p ∈ paths, ∀ i, st.fs.look p = .file i → H (st.fs.readAt i seg.off seg.len) ≠ hash := by
  exact scanSingle_none h

/-- preloading keeps every distinct byte string the candidates supply (first supplier wins) -/
theorem C02_preload_complete (seg : WSeg) (st st' : St) (paths : List Path)
    (acc r : List (Option Path × Bytes)) (h : preloadSeg seg st paths acc = (st', .ok r)) :
    (∀ x ∈ acc, x ∈ r) ∧
    ∀ p ∈ paths, ∀ i, st.fs.look p = .file i → ∃ x ∈ r, x.2 = st.fs.readAt i seg.off seg.len := by
  obtain ⟨⟨extra, hex⟩, hall⟩ := preloadSeg_spec h
  refine ⟨?_, hall⟩
  intro x hx
  rw [hex]
  exact List.mem_append_left _ hx

/-- the candidate index keeps one name of every file of the right length: an admissible candidate order names
    every inode of the candidate map -/
theorem C02_index_keeps_inodes (e : TEntry) (m : List (Path × Nat)) (obs : List Path)
    (h : validSearches e m obs = true) :
    ∀ x ∈ m, ∃ p ∈ obs, ∃ y ∈ m, y.1 = p ∧ y.2 = x.2 := by
  intro x hx
  obtain ⟨p, hp, hy, _⟩ := validSearches_mem h x hx
  exact ⟨p, hp, hy⟩

/-- every regular file below a scan directory whose length is one of the wanted lengths is in the cache
    under that length (possibly under another name of the same path key) -/
theorem C02_scan_registers (fs : Fs) (c : Cache) (dir : Path) (lengths : List Nat) (p : Path) (i : Nat)
    (hmem : (p, i) ∈ fs.files) (hdir : dir.length < p.length ∧ p.take dir.length = dir)
    (hlen : lengths.contains (fs.content i).length = true) :
    ∃ m, cacheGet (addByDirectory fs c dir lengths) (fs.content i).length = some m ∧ ∃ j, (p, j) ∈ m := by
  rw [addByDirectory_eq]
  exact foldl_registers fs dir lengths fs.files c p i hmem hdir hlen

/-- piece level: if every candidate is a readable file, no fault lies ahead, and some choice of candidates
    (zeros for padding, nothing for empty files) assembles to a buffer with the piece hash, then the piece is
    not reported as failed -/
theorem C02_piece (H : Bytes → Bytes) (st : St) (w : Work)
    (hnf : NoFutureFaults st)
    (hreadable : ∀ seg ∈ w.segs, ∀ paths, seg.ent.searches = some paths → ∀ p ∈ paths, ∃ i, st.fs.look p = .file i)
    (hnonempty : ∀ seg ∈ w.segs, seg.ent.searches ≠ some [])
    (havail : ∃ parts : List Bytes, parts.length = w.segs.length ∧ H parts.flatten = w.hash ∧
      ∀ (k : Nat) (seg : WSeg) (part : Bytes), w.segs[k]? = some seg → parts[k]? = some part →
        (seg.ent.isPad = true → part = List.replicate seg.len 0) ∧
        (seg.ent.isPad = false → seg.len = 0 → part = []) ∧
        (seg.ent.isPad = false → seg.len ≠ 0 →
          ∃ paths p i, seg.ent.searches = some paths ∧ p ∈ paths ∧ st.fs.look p = .file i
            ∧ part = st.fs.readAt i seg.off seg.len)) :
    (solvePiece H st w).2 ≠ .notFound := by
  have _ := hnf
  obtain ⟨parts, hplen, hphash, hparts⟩ := havail
  -- no segment is rejected up front
  have hnorej : (w.segs.any (fun s => !s.ent.isPad && s.ent.searches.isNone && s.len != 0)) = false := by
    rw [Bool.eq_false_iff]
    intro hrej
    obtain ⟨s, hs, hcond⟩ := List.any_eq_true.1 hrej
    obtain ⟨k, hk⟩ := List.getElem?_of_mem hs
    have hklt : k < w.segs.length := (List.getElem?_eq_some_iff.1 hk).1
    have hp : parts[k]? = some (parts[k]'(by omega)) := List.getElem?_eq_getElem _
    simp only [Bool.and_eq_true, Bool.not_eq_true', bne_iff_ne, ne_eq, Option.isNone_iff_eq_none] at hcond
    obtain ⟨paths, _, _, hsome, _⟩ := (hparts k s _ hk hp).2.2 hcond.1.1 hcond.2
    rw [hcond.1.2] at hsome
    cases hsome
  unfold solvePiece
  simp only [hnorej, Bool.false_eq_true, if_false]
  split
  · -- a single segment
    rename_i seg hseg
    have hpl : parts.length = 1 := by rw [hplen, hseg]; rfl
    obtain ⟨part, rfl⟩ := List.length_eq_one_iff.1 hpl
    have hpart := hparts 0 seg part (by rw [hseg]; rfl) rfl
    have hH : H part = w.hash := by simpa using hphash
    split
    · rename_i hpad
      rw [hpart.1 hpad] at hH
      rw [if_pos (by simp [hH])]
      simp
    · rename_i hpad
      have hpad : seg.ent.isPad = false := by simpa using hpad
      split
      · simp
      · rename_i paths hs
        split
        · exact writeSegs_ne_notFound _ _ _ _
        · rename_i st1 hscan
          exfalso
          have hnone := scanSingle_none hscan
          by_cases hl : seg.len = 0
          · cases paths with
            | nil => exact hnonempty seg (by rw [hseg]; simp) hs
            | cons p ps =>
              obtain ⟨i, hi⟩ := hreadable seg (by rw [hseg]; simp) _ hs p (by simp)
              have := hnone p (by simp) i hi
              rw [hl, readAt_zero] at this
              rw [hpart.2.1 hpad hl] at hH
              exact this hH
          · obtain ⟨paths', p, i, hs', hp, hi, hpp⟩ := hpart.2.2 hpad hl
            rw [hs] at hs'
            cases hs'
            exact hnone p hp i hi (by rw [← hpp]; exact hH)
        · simp
        · simp
  · -- several segments (or none)
    split
    · rename_i st1 loaded hpre
      obtain ⟨hll, hcand⟩ := forall₂_getElem? (preload_spec hpre)
      have hpick : ∀ (k : Nat) part cands, parts[k]? = some part → loaded[k]? = some cands →
          ∃ x ∈ cands, x.2 = part := by
        intro k part cands hp hc
        have hklt : k < loaded.length := (List.getElem?_eq_some_iff.1 hc).1
        have hs : w.segs[k]? = some (w.segs[k]'(by omega)) := List.getElem?_eq_getElem _
        have hmem : w.segs[k]'(by omega) ∈ w.segs := List.getElem_mem _
        exact cand_supplies (hcand k _ cands hs hc) (hreadable _ hmem) (hnonempty _ hmem) (hparts k _ part hs hp)
      obtain ⟨picks, hpl, hpm, hpf⟩ := picks_of_cands parts loaded (by omega) hpick
      have := C02_search_complete H w.hash loaded [] picks hpl hpm (by simpa [hpf] using hphash)
      split
      · exact writeSegs_ne_notFound _ _ _ _
      · rename_i hnone
        rw [hnone] at this
        cases this
    · simp
    · simp

end TB
