/-
  C16 — no panic, unconditionally: since the writer checks the length of the matched bytes
  (`result.bytes.get(start..end)`), evaluating a piece can reach a panic branch only through the single-segment
  matcher's `unwrap` of a candidate list that does not exist, which the layout excludes for loadable torrents.
-/
import TB.Spec.ExportSpec
import TB.Props.C16
import TB.Props.C16run
import TB.Lemmas.RunL
namespace TB

/-- the writer never panics: too-short matched bytes are an I/O error of the piece -/
theorem C16_writer_total (st : St) (pairs : List (WSeg × Option Path)) (buf : Bytes) (start : Nat) :
    (writeSegs st pairs buf start).2 ≠ .panic := by
  sorry

/-- evaluating a piece never panics, whatever the hash function, the tree, the candidates and the fault points,
    provided a single-segment piece is not an empty non-padding segment (a fact of the layout) -/
theorem C16_piece_total (H : Bytes → Bytes) (st : St) (w : Work)
    (hsingle : ∀ s, w.segs = [s] → s.len ≠ 0 ∨ s.ent.isPad = true) :
    (solvePiece H st w).2 ≠ .panic := by
  sorry

/-- run level, unconditional: a run on loadable torrents — any tree, any candidate order, any evaluation order,
    any fault points, any hash function — returns a result and never panics -/
theorem C16_run_total (H : Bytes → Bytes) (inp : RunIn) (hload : ∀ t ∈ inp.torrents, Loadable H t) :
    (run H inp).result ≠ .panic := by
  sorry

end TB
