/-
  C16 — no panic, unconditionally: since the writer checks the length of the matched bytes
  (`result.bytes.get(start..end)`), evaluating a piece can reach a panic branch only through the single-segment
  matcher's `unwrap` of a candidate list that does not exist, which the layout excludes for loadable torrents.
-/
import TB.Spec.ExportSpec
import TB.Props.C16
import TB.Props.C16run
import TB.Lemmas.RunL
namespace TB

/-- the writer never panics: too-short matched bytes are an I/O error of the piece -/
theorem C16_writer_total (st : St) (pairs : List (WSeg × Option Path)) (buf : Bytes) (start : Nat) :
    (writeSegs st pairs buf start).2 ≠ .panic := by
  exact RunL.writeSegs_total st pairs buf start

/-- evaluating a piece never panics, whatever the hash function, the tree, the candidates and the fault points,
    provided a single-segment piece is not an empty non-padding segment (a fact of the layout) -/
theorem C16_piece_total (H : Bytes → Bytes) (st : St) (w : Work)
    (hsingle : ∀ s, w.segs = [s] → s.len ≠ 0 ∨ s.ent.isPad = true) :
    (solvePiece H st w).2 ≠ .panic := by
  unfold solvePiece
  simp only
  split
  · simp
  · rename_i hrej
    split
    · rename_i seg hseg
      split
      · split <;> simp
      · rename_i hpad
        split
        · rename_i hnone
          exfalso
          rw [hseg] at hrej
          simp [hpad, hnone] at hrej
          rcases hsingle seg hseg with h | h
          · exact h hrej
          · exact hpad h
        · rename_i paths hs
          have hsc := RB.scanSingle_spec H w.hash seg st paths
          split
          · exact RunL.writeSegs_total _ _ _ _
          · simp
          · simp
          · rename_i st1 heq; exact absurd (by rw [heq]) hsc.1
    · rename_i segs hns
      have hpl := RB.preload_no_panic st w.segs
      split
      · split
        · exact RunL.writeSegs_total _ _ _ _
        · simp
      · simp
      · rename_i st1 heq; exact absurd (by rw [heq]) hpl

/-- run level, unconditional: a run on loadable torrents — any tree, any candidate order, any evaluation order,
    any fault points, any hash function — returns a result and never panics -/
theorem C16_run_total (H : Bytes → Bytes) (inp : RunIn) (hload : ∀ t ∈ inp.torrents, Loadable H t) :
    (run H inp).result ≠ .panic := by
  rcases RunH.run_cases H inp with h | h | ⟨c, hnone⟩ | ⟨c, st, ordered, hwork, hord, hres⟩
  · rw [h]; intro hc; cases hc
  · rw [h]; intro hc; cases hc
  · exfalso
    have hsome := C16_work_total H inp.exportDir.path _ (dedupTorrents (sortTorrents inp.torrents)) c inp.searchObs
      (fun t ht => ht)
      (fun t ht => hload t ((RB.mem_sortTorrents _ _).1 (RB.dedupTorrents_mem _ t ht)))
    rw [hnone] at hsome
    cases hsome
  · have hnp : ∀ w ∈ ordered, ∀ st, (solvePiece H st w).2 ≠ .panic := by
      intro w hw st'
      have hwm := hord w hw
      apply C16_piece_total H st' w
      intro s hs
      obtain ⟨t, ht, wt, hwt, hwin⟩ := RunH.convert_mem hwork w hwm
      exact .inl (C16_work_single H _ t wt
        (hload t ((RB.mem_sortTorrents _ _).1 (RB.dedupTorrents_mem _ t ht))) hwt w hwin s hs)
    rw [hres, RunH.solveAll_no_panic H ordered hnp]
    intro hc; cases hc

end TB
