/-
  C17 (scan directories) — permuting the scan directories, repeating one, or listing a directory together with
  one of its ancestors yields the identical result.

  What is proved (helpers in TB.Lemmas.RunS):
    S1  `C17_cache_cover`, `C17_cache_perm`, `C17_cache_nested`: the cache the scan list builds on top of any cache
        is the same RELATION (which lengths have a candidate map, which (path, inode) pairs are members) for two
        scan lists that cover the same file names. No hypothesis on the tree is needed.
    S2  `C17_pathLt_strict_total`, `C17_keyLt_strict_total`: the comparison of the canonical resolution is a strict
        total order on paths. `C17_canonical_set`: `canonicalSearches` sees a candidate map only as a set — no
        hypothesis. `C17_valid_set`, `C17_populate_set`: so do `validSearches` and `populateSearches` for an arbitrary
        observation, provided every path is bound at most once in a map (`CacheWF`; needed, `C17_valid_needs_nodup`),
        which `C17_cacheWF_run` proves of every cache a run builds — again no hypothesis on the tree.
    S3  `C17_run_scan`, `C17_run_scan_perm`: without fault points, two runs that differ in the scan list only agree
        on result, final tree, counters, total, resolutionOk, table (with candidate lists) and work list; their logs
        are equal after a prefix of `stat` operations, and `setupOps` differs by the difference of these prefixes.
        This holds for EVERY `searchObs` and `order` (the same in both runs), in particular for `[]`, `[]`.
    S4  `C17_run_scan_nested`: adding valid directories that lie at or below listed ones changes nothing (same sense).
        Listing the export directory as a scan directory is NOT neutral: `C17ExportCex` is a checked world in which it
        changes counters and tree. `C17FaultCex` shows why `faults = []` is assumed.
-/
import TB.Spec.ExportSpec
import TB.Lemmas.RunS
import TB.Props.C17run
namespace TB
open TB.RunS

/-! ### S1: the cache -/

/-- S1, general form. Two scan lists that cover the same names of regular files (`covered scan p`: some directory
    of the list is a proper prefix of `p`) build, on top of ANY cache `cache0`, caches that have a candidate map for
    the same lengths and whose candidate maps have the same members. Nothing is assumed of `fs` (a name bound to
    several inodes is resolved by the last binding in `fs.files` under every scan directory alike) nor of `cache0`. -/
theorem C17_cache_cover (fs : Fs) (lengths : List Nat) (cache0 : Cache) (scan scan' : List PathArg)
    (hcov : ∀ e ∈ fs.files, covered scan e.1 = covered scan' e.1) (len : Nat) :
    ((cacheGet (scan.foldl (fun c d => addByDirectory fs c d.path lengths) cache0) len).isSome =
     (cacheGet (scan'.foldl (fun c d => addByDirectory fs c d.path lengths) cache0) len).isSome) ∧
    ∀ p i, (∃ m, cacheGet (scan.foldl (fun c d => addByDirectory fs c d.path lengths) cache0) len = some m ∧ (p, i) ∈ m) ↔
           (∃ m, cacheGet (scan'.foldl (fun c d => addByDirectory fs c d.path lengths) cache0) len = some m ∧ (p, i) ∈ m) := by
  obtain ⟨h1, h2⟩ := scan_congr_files fs lengths scan scan' cache0 hcov
  refine ⟨?_, fun p i => h2 len p i⟩
  have := h1 len
  unfold CHas at this
  rw [Bool.eq_iff_iff]
  exact this

/-- S1 for permutation and repetition: scan lists with the same SET of directory paths. -/
theorem C17_cache_perm (fs : Fs) (lengths : List Nat) (cache0 : Cache) (scan scan' : List PathArg)
    (hset : ∀ p, p ∈ scan.map (·.path) ↔ p ∈ scan'.map (·.path)) (len : Nat) :
    ((cacheGet (scan.foldl (fun c d => addByDirectory fs c d.path lengths) cache0) len).isSome =
     (cacheGet (scan'.foldl (fun c d => addByDirectory fs c d.path lengths) cache0) len).isSome) ∧
    ∀ p i, (∃ m, cacheGet (scan.foldl (fun c d => addByDirectory fs c d.path lengths) cache0) len = some m ∧ (p, i) ∈ m) ↔
           (∃ m, cacheGet (scan'.foldl (fun c d => addByDirectory fs c d.path lengths) cache0) len = some m ∧ (p, i) ∈ m) := by
  apply C17_cache_cover
  intro e _
  exact covered_eq_of_below (below_of_paths (fun p => (hset p).1)) (below_of_paths (fun p => (hset p).2)) e.1

/-- S1 for nesting: directories `extra` that each lie at or below (`<+:` on component lists) a directory already in
    `scan` may be added anywhere — here in front and behind — without changing the cache relation. -/
theorem C17_cache_nested (fs : Fs) (lengths : List Nat) (cache0 : Cache) (scan extra extra' : List PathArg)
    (hbelow : ∀ d' ∈ extra ++ extra', ∃ d ∈ scan, d.path <+: d'.path) (len : Nat) :
    ((cacheGet (scan.foldl (fun c d => addByDirectory fs c d.path lengths) cache0) len).isSome =
     (cacheGet ((extra ++ scan ++ extra').foldl (fun c d => addByDirectory fs c d.path lengths) cache0) len).isSome) ∧
    ∀ p i, (∃ m, cacheGet (scan.foldl (fun c d => addByDirectory fs c d.path lengths) cache0) len = some m ∧ (p, i) ∈ m) ↔
           (∃ m, cacheGet ((extra ++ scan ++ extra').foldl (fun c d => addByDirectory fs c d.path lengths) cache0) len
              = some m ∧ (p, i) ∈ m) := by
  apply C17_cache_cover
  intro e _
  apply covered_eq_of_below
  · intro d hd
    exact ⟨d, by simp [hd], List.prefix_refl _⟩
  · intro d hd
    simp only [List.mem_append] at hd
    rcases hd with (hd | hd) | hd
    · exact hbelow d (by simp [hd])
    · exact ⟨d, hd, List.prefix_refl _⟩
    · exact hbelow d (by simp [hd])

/-! ### S2: the canonical resolution sees a candidate map as a set -/

/-- `pathLt` is a strict total order: irreflexive, transitive, and it decides every pair of distinct paths. -/
theorem C17_pathLt_strict_total :
    (∀ a, pathLt a a = false) ∧
    (∀ a b c, pathLt a b = true → pathLt b c = true → pathLt a c = true) ∧
    (∀ a b, a ≠ b → pathLt a b = true ∨ pathLt b a = true) := by
  refine ⟨pathLt_irrefl, fun a b c => pathLt_trans, fun a b hne => ?_⟩
  cases h : pathLt a b
  · cases h' : pathLt b a
    · exact absurd (pathLt_total h h') hne
    · exact .inr rfl
  · exact .inl rfl

/-- so is the comparison `canonicalSearches` sorts with — (similarity, path) lexicographically — on paths -/
theorem C17_keyLt_strict_total (e : TEntry) :
    let lt := fun (p q : Path) =>
      decide (similarity p e.partialTarget e.fullTarget < similarity q e.partialTarget e.fullTarget) ||
      (similarity p e.partialTarget e.fullTarget == similarity q e.partialTarget e.fullTarget && pathLt p q)
    (∀ a, lt a a = false) ∧ (∀ a b c, lt a b = true → lt b c = true → lt a c = true) ∧
    (∀ a b, a ≠ b → lt a b = true ∨ lt b a = true) := by
  intro lt
  have hlt : lt = keyLt (fun p => similarity p e.partialTarget e.fullTarget) := rfl
  rw [hlt]
  exact ⟨keyLt_irrefl _, fun _ _ _ => keyLt_trans _, fun _ _ => keyLt_total _⟩

/-- S2. The canonical candidate order of an entry depends only on the SET of members of the candidate map — no
    hypothesis at all: not on the tree, not on the map (a path may be bound to several inodes, a pair may occur
    several times). The sorted intermediate list does depend on the list order when a path is bound twice
    (`C17_sort_needs_nodup`: the comparison looks at paths only, so names of one path keep their relative order),
    but the sort keeps the names of one path together and `pruneLinks` turns such a group into as many copies of
    the path as the group has inodes not seen before, which is a function of the set
    (`RunS.pruneLinks_ws_ext`). -/
theorem C17_canonical_set (e : TEntry) (m m' : List (Path × Nat)) (h : ∀ x, x ∈ m ↔ x ∈ m') :
    canonicalSearches e m = canonicalSearches e m' :=
  canonical_ext_any e m m' h

/-- one path bound to two inodes, in the two list orders: the same set, different sorted lists -/
theorem C17_sort_needs_nodup :
    ∃ (m m' : List (Path × Nat)), (∀ x, x ∈ m ↔ x ∈ m') ∧
      sortBy (fun (a b : Path × Nat) => pathLt a.1 b.1) m ≠ sortBy (fun (a b : Path × Nat) => pathLt a.1 b.1) m' := by
  refine ⟨[([[1]], 0), ([[1]], 1)], [([[1]], 1), ([[1]], 0)], ?_, by decide⟩
  intro x; simp only [List.mem_cons, List.not_mem_nil, or_false]
  exact Or.comm

/-- admissibility of an observed candidate order depends only on the set of members as well — here under the
    hypothesis that in both maps every path occurs once (`Nodup` of the first components). The hypothesis is needed
    (`C17_valid_needs_nodup`: `validSearches` resolves a path to its FIRST binding) and it costs nothing: every
    candidate map of a cache built by `cacheInsert` has it (`C17_cacheWF_run`), whatever the tree looks like. -/
theorem C17_valid_set (e : TEntry) (m m' : List (Path × Nat))
    (hm : (m.map (·.1)).Nodup) (hm' : (m'.map (·.1)).Nodup) (h : ∀ x, x ∈ m ↔ x ∈ m') (obs : List Path) :
    validSearches e m obs = validSearches e m' obs :=
  valid_ext e m m' hm hm' h obs

/-- without `Nodup` this is false: `p` bound to inodes 0 and 1, `r` bound to 1; the observation `[p, r]` is
    admissible when `p` resolves to 0 (first binding) and not when it resolves to 1 -/
theorem C17_valid_needs_nodup :
    ∃ (e : TEntry) (m m' : List (Path × Nat)) (obs : List Path), (∀ x, x ∈ m ↔ x ∈ m') ∧
      validSearches e m obs = true ∧ validSearches e m' obs = false := by
  refine ⟨default, [([[1]], 0), ([[1]], 1), ([[3]], 1)], [([[1]], 1), ([[1]], 0), ([[3]], 1)], [[[1]], [[3]]],
    ?_, by decide, by decide⟩
  intro x; simp only [List.mem_cons, List.not_mem_nil, or_false]
  constructor <;> (rintro (h | h | h) <;> simp [h])

/-- hence `populateSearches` with nothing observed (`obs = []`, the canonical resolution) gives the same table for
    two caches that are the same relation — no further hypothesis -/
theorem C17_populate_set_canonical (c c' : Cache)
    (hhas : ∀ l, (cacheGet c l).isSome = true ↔ (cacheGet c' l).isSome = true)
    (hmem : ∀ l p i, (∃ m, cacheGet c l = some m ∧ (p, i) ∈ m) ↔ (∃ m, cacheGet c' l = some m ∧ (p, i) ∈ m))
    (table : List TEntry) :
    populateSearches c [] table = populateSearches c' [] table :=
  populate_congr_nil c c' hhas hmem table

/-- and for any observation `obs` it gives the same table and the same admissibility flag, when moreover both
    caches bind every path once per length (`CacheWF`; needed because of `validSearches`, see above) -/
theorem C17_populate_set (c c' : Cache) (hw : CacheWF c) (hw' : CacheWF c')
    (hhas : ∀ l, (cacheGet c l).isSome = true ↔ (cacheGet c' l).isSome = true)
    (hmem : ∀ l p i, (∃ m, cacheGet c l = some m ∧ (p, i) ∈ m) ↔ (∃ m, cacheGet c' l = some m ∧ (p, i) ∈ m))
    (obs : List (Nat × List Path)) (table : List TEntry) :
    populateSearches c obs table = populateSearches c' obs table :=
  populate_congr c c' hw hw' hhas hmem obs table

/-- the well-formedness `C17_valid_set`/`C17_populate_set` need holds of every cache a run builds: `addExportPaths` from the empty cache followed
    by any scan list, on any tree and any state -/
theorem C17_cacheWF_run (st : St) (table : List TEntry) (fs : Fs) (lengths : List Nat) (scan : List PathArg) :
    CacheWF (scan.foldl (fun c d => addByDirectory fs c d.path lengths) (addExportPaths st [] table).2) :=
  CacheWF_scan fs lengths scan (CacheWF_addExportPaths st CacheWF_nil table)

/-! ### S3: the run -/

/-- S3, general form. `inp` has no fault points (they are indexed by operation number, and the number of `stat`
    operations differs — `C17FaultCex` below); `scan'` is accepted by the validation iff `inp.scan` is (`argOk`: an
    absolute path that is a directory of `inp.fs`); the two lists cover the same names of regular files of the
    initial tree (`covered l p`: some directory of `l` is a proper prefix of `p`). Then the run with `scan'`
    agrees with the run with `inp.scan` on result, final tree, counters, total, admissibility of the resolution,
    table (with the candidate lists) and work list; the logs consist of a prefix of `stat` operations followed by
    the same operations, and `setupOps` counts the same number of operations after the prefix.
    `inp.searchObs` and `inp.order` are arbitrary (and the same in both runs); with `[]` and `[]` this is the
    canonical resolution and the default order. -/
theorem C17_run_scan (H : Bytes → Bytes) (inp : RunIn) (scan' : List PathArg) (hf : inp.faults = [])
    (hvalid : scan'.all (argOk inp.fs) = inp.scan.all (argOk inp.fs))
    (hcov : ∀ e ∈ inp.fs.files, covered inp.scan e.1 = covered scan' e.1) :
    (run H { inp with scan := scan' }).result = (run H inp).result ∧
    (run H { inp with scan := scan' }).fs = (run H inp).fs ∧
    (run H { inp with scan := scan' }).counters = (run H inp).counters ∧
    (run H { inp with scan := scan' }).total = (run H inp).total ∧
    (run H { inp with scan := scan' }).resolutionOk = (run H inp).resolutionOk ∧
    (run H { inp with scan := scan' }).table = (run H inp).table ∧
    (run H { inp with scan := scan' }).work = (run H inp).work ∧
    ∃ pre pre' rest k, (∀ o ∈ pre, o.kind = .stat) ∧ (∀ o ∈ pre', o.kind = .stat) ∧
      (run H inp).ops = pre ++ rest ∧ (run H { inp with scan := scan' }).ops = pre' ++ rest ∧
      (run H inp).setupOps = pre.length + k ∧ (run H { inp with scan := scan' }).setupOps = pre'.length + k := by
  obtain ⟨pre, pre', h1, h2, a1, a2, a3, a4, a5, a6, a7, rest, k, b1, b2, b3, b4⟩ :=
    run_scan_agree H inp scan' hf hvalid hcov
  exact ⟨a1, a2, a3, a4, a5, a6, a7, pre, pre', rest, k, h1, h2, b1, b2, b3, b4⟩

/-- S3 for permutation and repetition: `scan'` has the same SET of arguments as `inp.scan`. Validity of `scan'`
    need not be assumed: it follows from set equality (both are accepted or both rejected; if rejected both runs
    end in `.err` with the tree untouched). -/
theorem C17_run_scan_perm (H : Bytes → Bytes) (inp : RunIn) (scan' : List PathArg) (hf : inp.faults = [])
    (hset : ∀ a, a ∈ inp.scan ↔ a ∈ scan') :
    (run H { inp with scan := scan' }).result = (run H inp).result ∧
    (run H { inp with scan := scan' }).fs = (run H inp).fs ∧
    (run H { inp with scan := scan' }).counters = (run H inp).counters ∧
    (run H { inp with scan := scan' }).total = (run H inp).total ∧
    (run H { inp with scan := scan' }).resolutionOk = (run H inp).resolutionOk ∧
    (run H { inp with scan := scan' }).table = (run H inp).table ∧
    (run H { inp with scan := scan' }).work = (run H inp).work ∧
    ∃ pre pre' rest k, (∀ o ∈ pre, o.kind = .stat) ∧ (∀ o ∈ pre', o.kind = .stat) ∧
      (run H inp).ops = pre ++ rest ∧ (run H { inp with scan := scan' }).ops = pre' ++ rest ∧
      (run H inp).setupOps = pre.length + k ∧ (run H { inp with scan := scan' }).setupOps = pre'.length + k := by
  apply C17_run_scan H inp scan' hf
  · exact all_ext _ _ _ (fun a => (hset a).symm)
  · intro e _
    apply covered_eq_of_below
    · intro d hd; exact ⟨d, (hset d).1 hd, List.prefix_refl _⟩
    · intro d hd; exact ⟨d, (hset d).2 hd, List.prefix_refl _⟩

/-! ### S4: nesting -/

/-- S4, the true half. Directories `extra`, `extra'` that are themselves valid arguments (absolute, existing
    directories — otherwise the validation rejects the run) and lie at or below directories of `inp.scan` may be
    added in front of and behind the scan list: same conclusion as S3. -/
theorem C17_run_scan_nested (H : Bytes → Bytes) (inp : RunIn) (extra extra' : List PathArg) (hf : inp.faults = [])
    (hok : ∀ d' ∈ extra ++ extra', argOk inp.fs d' = true)
    (hbelow : ∀ d' ∈ extra ++ extra', ∃ d ∈ inp.scan, d.path <+: d'.path) :
    (run H { inp with scan := extra ++ inp.scan ++ extra' }).result = (run H inp).result ∧
    (run H { inp with scan := extra ++ inp.scan ++ extra' }).fs = (run H inp).fs ∧
    (run H { inp with scan := extra ++ inp.scan ++ extra' }).counters = (run H inp).counters ∧
    (run H { inp with scan := extra ++ inp.scan ++ extra' }).total = (run H inp).total ∧
    (run H { inp with scan := extra ++ inp.scan ++ extra' }).resolutionOk = (run H inp).resolutionOk ∧
    (run H { inp with scan := extra ++ inp.scan ++ extra' }).table = (run H inp).table ∧
    (run H { inp with scan := extra ++ inp.scan ++ extra' }).work = (run H inp).work ∧
    ∃ pre pre' rest k, (∀ o ∈ pre, o.kind = .stat) ∧ (∀ o ∈ pre', o.kind = .stat) ∧
      (run H inp).ops = pre ++ rest ∧ (run H { inp with scan := extra ++ inp.scan ++ extra' }).ops = pre' ++ rest ∧
      (run H inp).setupOps = pre.length + k ∧
      (run H { inp with scan := extra ++ inp.scan ++ extra' }).setupOps = pre'.length + k := by
  apply C17_run_scan H inp _ hf
  · have h1 : extra.all (argOk inp.fs) = true :=
      List.all_eq_true.2 (fun d hd => hok d (List.mem_append_left _ hd))
    have h2 : extra'.all (argOk inp.fs) = true :=
      List.all_eq_true.2 (fun d hd => hok d (List.mem_append_right _ hd))
    simp [List.all_append, h1, h2]
  · intro e _
    apply covered_eq_of_below
    · intro d hd
      exact ⟨d, by simp [hd], List.prefix_refl _⟩
    · intro d hd
      simp only [List.mem_append] at hd
      rcases hd with (hd | hd) | hd
      · exact hbelow d (by simp [hd])
      · exact ⟨d, hd, List.prefix_refl _⟩
      · exact hbelow d (by simp [hd])

/-! ### non-vacuity: two scan directories in both orders -/

namespace C17ScanEx

def ih : Bytes := [0xAB]
def nm : Bytes := [110]
def eDir : Path := [[101]]
def sA : Path := [[97]]
def sB : Path := [[98]]
def img : Path := eDir ++ [hex ih, sData, nm]

/-- one single-file torrent of length 2 = two pieces of length 1 with hashes `[1]`, `[2]` (`H` is the identity) -/
def tor : Torrent := ⟨⟨nm, some 2, none, 1, [[1], [2]]⟩, ih⟩

/-- `a/x = [1, 9]` supplies piece 0, `b/y = [8, 2]` supplies piece 1, `b/z` is a second name of `a/x` -/
def fs0 : Fs :=
  { files := [(sA ++ [[120]], 0), (sB ++ [[121]], 1), (sB ++ [[122]], 0)],
    dirs := [eDir, sA, sB],
    data := [(0, [1, 9]), (1, [8, 2])],
    next := 2 }

def inp : RunIn :=
  { fs := fs0, torrents := [tor], scan := [⟨true, sA⟩, ⟨true, sB⟩], exportDir := ⟨true, eDir⟩, resize := false,
    searchObs := [], order := [], faults := [] }

def scan' : List PathArg := [⟨true, sB⟩, ⟨true, sA⟩]

/-- the hypotheses of `C17_run_scan_perm` hold -/
example : inp.faults = [] ∧ ∀ a, a ∈ inp.scan ↔ a ∈ scan' := by
  refine ⟨rfl, fun a => ?_⟩
  simp only [inp, scan', List.mem_cons, List.not_mem_nil, or_false]
  exact Or.comm

/-- the theorem applies … -/
example : (run id { inp with scan := scan' }).fs = (run id inp).fs ∧
    (run id { inp with scan := scan' }).counters = (run id inp).counters ∧
    (run id { inp with scan := scan' }).table = (run id inp).table := by
  have h := C17_run_scan_perm id inp scan' rfl
    (fun a => by simp only [inp, scan', List.mem_cons, List.not_mem_nil, or_false]; exact Or.comm)
  exact ⟨h.2.1, h.2.2.1, h.2.2.2.2.2.1⟩

/-- … and the run is not a degenerate one: both pieces are found (one from each directory), the image is written,
    the candidate list has two entries (the hard link `b/z` is pruned), and the two logs really differ -/
example : (run id inp).result = .ok () ∧ (run id inp).counters = [⟨1, 0, 0⟩, ⟨2, 0, 0⟩] ∧
    (run id inp).fs.content 2 = [1, 2] ∧ (run id inp).fs.inoOf img = some 2 ∧
    (run id inp).table.map (·.searches) = [some [sA ++ [[120]], sB ++ [[121]]]] ∧
    (run id inp).ops ≠ (run id { inp with scan := scan' }).ops := by decide +kernel

/-- the same outcome computed directly for the other order, and for a list with a repetition -/
example : (run id { inp with scan := scan' }).fs = (run id inp).fs ∧
    (run id { inp with scan := scan' ++ scan' }).fs = (run id inp).fs ∧
    (run id { inp with scan := scan' ++ scan' }).table = (run id inp).table := by decide +kernel

end C17ScanEx

/-! ### S4, the false half: the export directory as a scan directory -/

namespace C17ExportCex

def ih : Bytes := [0xAB]
def nm : Bytes := [110]
def eDir : Path := [[101]]
def sDir : Path := [[115]]
def img : Path := eDir ++ [hex ih, sData, nm]

/-- one single-file torrent of length 1, one piece with hash `[7]` (`H` is the identity) -/
def tor : Torrent := ⟨⟨nm, some 1, none, 1, [[7]]⟩, ih⟩

/-- the only file is a stray `e/x = [7]` directly inside the export directory; the scan directory is empty -/
def fs0 : Fs :=
  { files := [(eDir ++ [[120]], 0)],
    dirs := [eDir, sDir],
    data := [(0, [7])],
    next := 1 }

def inp : RunIn :=
  { fs := fs0, torrents := [tor], scan := [⟨true, sDir⟩], exportDir := ⟨true, eDir⟩, resize := false,
    searchObs := [], order := [], faults := [] }

/-- Listing the export directory among the scan directories is NOT neutral in the model (nor in the tool:
    `add_export_paths` registers only the export images of the declared length, a scan of the export directory
    registers every file below it): without it the piece is not found and nothing is written, with it the stray
    file is a candidate, the piece is found and the image is created. Both runs succeed and both are admissible.
    For this case the property promises "the same guarantees", not the identical tree. -/
theorem C17_export_as_scan_differs :
    (run id inp).result = .ok () ∧ (run id { inp with scan := inp.scan ++ [inp.exportDir] }).result = .ok () ∧
    (run id inp).counters = [⟨0, 1, 0⟩] ∧
    (run id { inp with scan := inp.scan ++ [inp.exportDir] }).counters = [⟨1, 0, 0⟩] ∧
    (run id inp).fs = fs0 ∧
    (run id { inp with scan := inp.scan ++ [inp.exportDir] }).fs.inoOf img = some 1 ∧
    (run id { inp with scan := inp.scan ++ [inp.exportDir] }).fs ≠ (run id inp).fs := by decide +kernel

/-- the hypothesis of `C17_run_scan` that fails is the covering one: the regular file `e/x` is covered only when
    `e` is listed -/
example : (eDir ++ [[120]], 0) ∈ inp.fs.files ∧ covered inp.scan (eDir ++ [[120]]) = false ∧
    covered (inp.scan ++ [inp.exportDir]) (eDir ++ [[120]]) = true := by decide +kernel

end C17ExportCex

/-! ### why `faults = []` -/

namespace C17FaultCex
open C17ScanEx

/-- With a fault point the statement is false even for a mere repetition: fault points are indices into the log,
    and a repeated scan directory costs one more `stat`. With the fault at index 2, the run with `[a]` validates
    `a` and `e` (operations 0, 1) and takes the fault on a later, tolerated operation; the run with `[a, a]`
    takes it on the `stat` of the export directory and is rejected. -/
theorem C17_scan_repeat_with_fault_differs :
    (run id { inp with scan := [⟨true, sA⟩], faults := [2] }).result = .ok () ∧
    (run id { inp with scan := [⟨true, sA⟩, ⟨true, sA⟩], faults := [2] }).result = .err := by decide +kernel

end C17FaultCex

end TB
