/-
  C08 — the decoder accepts exactly canonical bencode and returns the value it denotes, with exact spans.
  Property theorems only; helper lemmas live in TB/Lemmas/Bencode.lean.
-/
import TB.Model.Bencode
import TB.Spec.BencodeSpec
import TB.Lemmas.Bencode
namespace TB

/-- soundness: whatever the decoder accepts is canonical, re-encodes to the input byte for byte, and every
    node's recorded span is exactly the encoding of the value that node denotes (root = whole input) -/
theorem C08_sound (inp : Bytes) (t : Tok) (h : decode inp = .ok t) :
    canon (erase t) = true ∧ encode (erase t) = inp ∧ spansExact inp t = true
      ∧ t.start = 0 ∧ t.cont = inp.length := by
  sorry

/-- completeness: the encoding of every canonical value is accepted and decodes to that value -/
theorem C08_complete (v : BVal) (h : canon v = true) :
    ∃ t, decode (encode v) = .ok t ∧ erase t = v := by
  sorry

/-- the decoder accepts a byte string iff it is exactly one canonical bencoded value -/
theorem C08_accepts_iff (inp : Bytes) :
    (∃ t, decode inp = .ok t) ↔ ∃ v, canon v = true ∧ encode v = inp := by
  sorry

/-- canonical encoding is injective (so "the value it denotes" is well defined) -/
theorem C08_encode_injective (v w : BVal) (hv : canon v = true) (hw : canon w = true)
    (h : encode v = encode w) : v = w := by
  sorry

/-- decoding never panics (no unchecked arithmetic, no out-of-range slice) -/
theorem C08_no_panic (inp : Bytes) : decode inp ≠ .panic := by
  sorry

-- non-vacuity: a nested canonical value with a dictionary, a negative integer and an empty string
example : canon (.dict [([97], .int (-5)), ([98], .list [.str [], .int 0])]) = true := by decide

end TB
