/-
  C08 — the decoder accepts exactly canonical bencode and returns the value it denotes, with exact spans.
  Property theorems only; helper lemmas live in TB/Lemmas/Bencode.lean.
-/
import TB.Model.Bencode
import TB.Spec.BencodeSpec
import TB.Lemmas.Bencode
namespace TB

/-- soundness: whatever the decoder accepts is canonical, re-encodes to the input byte for byte, and every
    node's recorded span is exactly the encoding of the value that node denotes (root = whole input) -/
theorem C08_sound (inp : Bytes) (t : Tok) (h : decode inp = .ok t) :
    canon (erase t) = true ∧ encode (erase t) = inp ∧ spansExact inp t = true
      ∧ t.start = 0 ∧ t.cont = inp.length := by
  unfold decode at h
  cases hd : decodeAny (2 * inp.length + 2) inp 0 with
  | err => simp [hd] at h
  | panic => simp [hd] at h
  | ok x =>
    obtain ⟨t', r⟩ := x
    cases r with
    | cons b r' => simp [hd] at h
    | nil =>
      simp only [hd, Res.ok.injEq] at h
      subst h
      obtain ⟨e1, e2, e3, e4, e5⟩ := decodeAny_sound hd
      rw [List.append_nil] at e1
      refine ⟨e4, e1.symm, e5 inp (At.zero inp), e2, ?_⟩
      rw [e3, ← e1, Nat.zero_add]

/-- completeness: the encoding of every canonical value is accepted and decodes to that value -/
theorem C08_complete (v : BVal) (h : canon v = true) :
    ∃ t, decode (encode v) = .ok t ∧ erase t = v := by
  obtain ⟨t, e1, e2, _⟩ := decodeAny_complete v [] 0 (2 * (encode v).length + 2) h (by omega)
  rw [List.append_nil] at e1
  exact ⟨t, by simp [decode, e1], e2⟩

/-- the decoder accepts a byte string iff it is exactly one canonical bencoded value -/
theorem C08_accepts_iff (inp : Bytes) :
    (∃ t, decode inp = .ok t) ↔ ∃ v, canon v = true ∧ encode v = inp := by
  constructor
  · rintro ⟨t, h⟩
    obtain ⟨h1, h2, _⟩ := C08_sound inp t h
    exact ⟨erase t, h1, h2⟩
  · rintro ⟨v, hc, rfl⟩
    obtain ⟨t, h, _⟩ := C08_complete v hc
    exact ⟨t, h⟩

/-- canonical encoding is injective (so "the value it denotes" is well defined) -/
theorem C08_encode_injective (v w : BVal) (hv : canon v = true) (hw : canon w = true)
    (h : encode v = encode w) : v = w := by
  obtain ⟨t1, d1, e1⟩ := C08_complete v hv
  obtain ⟨t2, d2, e2⟩ := C08_complete w hw
  rw [h, d2, Res.ok.injEq] at d1
  rw [← e1, ← e2, d1]

/-- decoding never panics (no unchecked arithmetic, no out-of-range slice) -/
theorem C08_no_panic (inp : Bytes) : decode inp ≠ .panic := by
  unfold decode
  have := decodeAny_no_panic (2 * inp.length + 2) inp 0
  cases hd : decodeAny (2 * inp.length + 2) inp 0 with
  | err => simp
  | panic => exact absurd hd this
  | ok x =>
    obtain ⟨t, r⟩ := x
    cases r <;> simp

-- non-vacuity: a nested canonical value with a dictionary, a negative integer and an empty string
example : canon (.dict [([97], .int (-5)), ([98], .list [.str [], .int 0])]) = true := by decide

end TB
