/-
  C09 (promptness), loader part — `Torrent::from_bytes` takes a number of elementary steps linear in the length
  of the input, whatever numbers the input contains, and so does loading followed by the piece layout.
  What a step is: see TB/Spec/LoadCost.lean (decoder steps; per key examined by a dictionary lookup the bytes its
  comparison can look at, plus one; per string check one per byte, plus one; per file record, per path component,
  per hash split one, plus the bytes copied; per byte of the info slice hashed).

  Findings.
  * No step of the loader is super-linear. A lookup is a linear search over the keys *of the input's dictionary*
    (their number is not fixed: unknown keys are allowed), but the number of lookups per dictionary is fixed
    (1 in the root, at most 6 in `info`, at most 3 in each file record), a comparison with a fixed key looks at
    no more bytes than the examined key has, and the file records are disjoint parts of the input; so all lookups
    together cost at most 6 × (weight of the info dictionary) + (weight of the root).
  * The constant 20 is an upper bound, not tight: every lookup and every sub-value (name, hash string, file list)
    is charged separately against the whole dictionary. Evaluating `loadC` on adversarial inputs (many short
    unknown keys in `info`) gives about 5.5 steps per byte (checked example below: 5.4).
-/
import TB.Spec.LoadCost
import TB.Lemmas.LoadCost
import TB.Props.C09layoutcost
namespace TB
open TB.Cost TB.LoadCost TB.LoadCostL TB.LCost

/-- the step-counting loader computes exactly what the model loader computes (and so do its parts) -/
theorem C09_load_cost_faithful :
    (∀ H inp, (loadC H inp).1 = load H inp) ∧
    (∀ ks vs, (evaluateInfoC ks vs).1 = evaluateInfo ks vs) ∧
    (∀ items, (evaluateFilesC items).1 = evaluateFiles items) ∧
    (∀ ks vs, (evaluateFileC ks vs).1 = evaluateFile ks vs) ∧
    (∀ items, (pathStringsC items).1 = pathStrings items) ∧
    (∀ n bs, (chunks20C n bs).1 = chunks20 n bs) ∧
    (∀ ks vs key, (findValueC ks vs key).1 = findValue ks vs key) :=
  ⟨loadC_fst, evaluateInfoC_fst, evaluateFilesC_fst, evaluateFileC_fst, pathStringsC_fst, chunks20C_fst,
    findValueC_fst⟩

/-- loading never takes more than `20·|inp| + 2` steps (the `+ 2` is attained by the empty input), whatever the
    outcome (accepted, refused, panic) and whatever lengths and counts the input declares -/
theorem C09_load_cost_linear (H : Bytes → Bytes) (inp : Bytes) : (loadC H inp).2 ≤ 20 * inp.length + 2 :=
  loadC_cost H inp

/-- an accepted torrent has at most `|inp| / 20` hashes and `|inp| / 2` files (jointly: `20·#hashes + 2·#files ≤
    2·|inp|`), so its layout is linear in the input length as well -/
theorem C09_loaded_counts (H : Bytes → Bytes) (inp : Bytes) (T : Torrent) (h : load H inp = .ok T) :
    20 * T.info.pieces.length + 2 * (T.info.files.getD []).length ≤ 2 * inp.length :=
  load_sizes h

/-- end to end: loading an accepted torrent and computing its piece layout takes at most `28·|inp| + 4` steps,
    and the layout is produced (no panic) -/
theorem C09_load_layout_cost_linear (H : Bytes → Bytes) (inp : Bytes) (T : Torrent) (h : load H inp = .ok T) :
    ∃ ps n, constructPiecesC T.info.pieceLength T.info.length (T.info.files.map (·.map (·.length))) T.info.pieces
        = (some ps, n)
      ∧ (loadC H inp).2 + n ≤ 28 * inp.length + 4 := by
  obtain ⟨ps, n, hps, _, hn⟩ := C09_layout_cost_loaded H inp T h
  have h1 := C09_load_cost_linear H inp
  have h2 := C09_loaded_counts H inp T h
  exact ⟨ps, n, hps, by omega⟩

/-! non-vacuity and tightness -/

-- the empty input meets the bound: the decoder's 2 steps
example : (loadC id []).2 = 20 * 0 + 2 := by decide +kernel

/-- `d4:infod6:lengthi5e4:name1:a12:piece lengthi4e6:pieces40:A…Aee` (single file, 2 hashes, 99 bytes) -/
def c09SampleSingle : Bytes :=
  [100, 52, 58, 105, 110, 102, 111, 100, 54, 58, 108, 101, 110, 103, 116, 104, 105, 53, 101, 52, 58, 110, 97, 109,
   101, 49, 58, 97, 49, 50, 58, 112, 105, 101, 99, 101, 32, 108, 101, 110, 103, 116, 104, 105, 52, 101, 54, 58, 112,
   105, 101, 99, 101, 115, 52, 48, 58] ++ List.replicate 40 65 ++ [101, 101]

/-- `d4:infod5:filesld6:lengthi3e4:pathl1:xeed6:lengthi2e4:pathl1:y1:zeee4:name1:a12:piece lengthi4e6:pieces40:A…Aee`
    (two files, 2 hashes, 148 bytes) -/
def c09SampleMulti : Bytes :=
  [100, 52, 58, 105, 110, 102, 111, 100, 53, 58, 102, 105, 108, 101, 115, 108, 100, 54, 58, 108, 101, 110, 103, 116,
   104, 105, 51, 101, 52, 58, 112, 97, 116, 104, 108, 49, 58, 120, 101, 101, 100, 54, 58, 108, 101, 110, 103, 116,
   104, 105, 50, 101, 52, 58, 112, 97, 116, 104, 108, 49, 58, 121, 49, 58, 122, 101, 101, 101, 52, 58, 110, 97, 109,
   101, 49, 58, 97, 49, 50, 58, 112, 105, 101, 99, 101, 32, 108, 101, 110, 103, 116, 104, 105, 52, 101, 54, 58, 112,
   105, 101, 99, 101, 115, 52, 48, 58] ++ List.replicate 40 65 ++ [101, 101]

-- accepted torrents: the hypotheses of the end-to-end theorem are satisfiable; about 4 steps per byte
example : c09SampleSingle.length = 99 ∧ (loadC id c09SampleSingle).1.isOk = true
    ∧ (loadC id c09SampleSingle).2 = 397 := by decide +kernel
example : c09SampleMulti.length = 148 ∧ (loadC id c09SampleMulti).1.isOk = true
    ∧ (loadC id c09SampleMulti).2 = 601 := by decide +kernel

/-- adversarial shape: `n ≤ 100` unknown two-byte keys (`2:000:`, `2:010:`, …) in front of the known keys of `info` -/
def c09SampleJunk (n : Nat) : Bytes :=
  [100, 52, 58, 105, 110, 102, 111, 100] ++
  (List.range n).flatMap (fun i => [50, 58, UInt8.ofNat (48 + i / 10), UInt8.ofNat (48 + i % 10), 48, 58]) ++
  [54, 58, 108, 101, 110, 103, 116, 104, 105, 53, 101, 52, 58, 110, 97, 109, 101, 49, 58, 97, 49, 50, 58, 112, 105,
   101, 99, 101, 32, 108, 101, 110, 103, 116, 104, 105, 52, 101, 54, 58, 112, 105, 101, 99, 101, 115, 52, 48, 58] ++
  List.replicate 40 65 ++ [101, 101]

-- every unknown key is walked over by each of the 6 lookups of `evaluate_info`: 5.4 steps per byte here,
-- still far below the proven 20
example : (c09SampleJunk 50).length = 399 ∧ (loadC id (c09SampleJunk 50)).1.isOk = true
    ∧ (loadC id (c09SampleJunk 50)).2 = 2147 := by decide +kernel

end TB
