/-
  C12 — export files sit at the documented location with exactly the declared length.
-/
import TB.Spec.ExportSpec
import TB.Lemmas.Run
import TB.Lemmas.RunATable
import TB.Lemmas.RunARun
namespace TB

/-- every entry of the metadata table is the export image of one torrent file, at
    <export>/<40-hex info-hash>/Data/<name>[/<path…>] -/
theorem C12_path (exportDir : Path) (ts : List Torrent) (id0 : Nat) :
    ∀ e ∈ buildTable exportDir ts id0, ∃ t ∈ ts, IsTargetOf exportDir t e :=
  buildTable_target exportDir ts id0

/-- evaluating a piece mutates only export images of its own non-padding segments -/
theorem C12_only_piece (H : Bytes → Bytes) (st : St) (w : Work) :
    ∀ o ∈ newOps st (solvePiece H st w).1, MutationConfined w o := by
  intro o ho
  exact PieceOp.confined ((solvePiece_ext H st w).newOps o ho)

/-- run level: every mutating operation of a run names the export image of a non-padding entry of the table
    (create_dir_all: its parent directory), and every set_len uses that entry's declared length -/
theorem C12_only_run (H : Bytes → Bytes) (inp : RunIn) :
    ∀ o ∈ (run H inp).ops, o.kind.mutating = true ∨ o.kind = .openrw →
      ∃ e ∈ (run H inp).table, e.isPad = false ∧
        (if o.kind = .mkdirs then o.path = e.fullTarget.dropLast else o.path = e.fullTarget) ∧
        (∀ n, o.kind = .setlen n → n = e.fileLength) := by
  intro o ho hk
  rcases (run_inv H inp).2 o ho with (h | h | ⟨e, he, hp, hkind, hpath⟩) | ⟨w, _, h, hent⟩
  · rw [h] at hk; simp [OpKind.mutating] at hk
  · rw [h] at hk; simp [OpKind.mutating] at hk
  · refine ⟨e, he, hp, ?_, ?_⟩
    · rcases hkind with h | h <;> rw [h] <;> simpa using hpath
    · rcases hkind with h | h <;> rw [h] <;> simp
  · rcases h with h | ⟨buf, _, k, seg, hseg, hp, hs⟩
    · rcases hk with hk | hk
      · rw [h.not_mutating] at hk; cases hk
      · rcases h with h | ⟨n, h⟩ | h <;> rw [h] at hk <;> cases hk
    · exact ⟨seg.ent, hent seg (List.mem_of_getElem? hseg), hp, hs.confined⟩

/-- the table a run works with is the table of its de-duplicated torrents (searches filled in) -/
theorem C12_run_table (H : Bytes → Bytes) (inp : RunIn) :
    ∀ e ∈ (run H inp).table, ∃ t ∈ inp.torrents, IsTargetOf inp.exportDir.path t e := by
  intro e he
  obtain ⟨e0, he0, hu⟩ := (run_inv H inp).1 e he
  obtain ⟨t, ht, h⟩ := buildTable_target _ _ _ e0 he0
  exact ⟨t, mem_sortTorrents (mem_dedupTorrents ht), hu.isTargetOf h⟩

/-- set_len then an in-range positional write leave the file at exactly the declared length -/
theorem C12_len (fs : Fs) (i n off : Nat) (data : Bytes) (h : off + data.length ≤ n) :
    (((fs.setLen i n).writeAt i off data).content i).length = n := by
  rw [Fs.content_writeAt_length _ _ _ _ (by rw [Fs.content_setLen_length]; exact h), Fs.content_setLen_length]

/-- distinct torrents never share an export file: their export subtrees differ in the info-hash component -/
theorem C12_disjoint (exportDir : Path) (t₁ t₂ : Torrent) (e₁ e₂ : TEntry)
    (h₁ : IsTargetOf exportDir t₁ e₁) (h₂ : IsTargetOf exportDir t₂ e₂)
    (hne : t₁.infoHash ≠ t₂.infoHash) : e₁.fullTarget ≠ e₂.fullTarget
      ∧ ¬ Path.isPrefixOf e₁.fullTarget e₂.fullTarget := by
  have hp := IsTargetOf.disjoint h₁ h₂ hne
  exact ⟨fun he => hp ⟨[], by simp [he]⟩, hp⟩

/-- within one multi-file torrent, distinct prefix-free paths give distinct images (the hypothesis is needed:
    a loadable torrent may list one path twice — known finding D6) -/
theorem C12_inj_partial (exportDir : Path) (t : Torrent) (e₁ e₂ : TEntry) (fs : List FileRec)
    (hfs : t.info.files = some fs)
    (h₁ : IsTargetOf exportDir t e₁) (h₂ : IsTargetOf exportDir t e₂)
    (hdistinct : ∀ (i j : Nat) (f g : FileRec), fs[i]? = some f → fs[j]? = some g → i ≠ j → f.path ≠ g.path)
    (hidx : e₁.fileIndex ≠ e₂.fileIndex) : e₁.fullTarget ≠ e₂.fullTarget := by
  obtain ⟨_, ⟨l, hn, _⟩ | ⟨fs₁, f, hf₁, hi₁, _, _, ht₁⟩⟩ := h₁
  · rw [hfs] at hn; cases hn
  obtain ⟨_, ⟨l, hn, _⟩ | ⟨fs₂, g, hf₂, hi₂, _, _, ht₂⟩⟩ := h₂
  · rw [hfs] at hn; cases hn
  rw [hfs] at hf₁ hf₂
  cases hf₁; cases hf₂
  rw [ht₁, ht₂]
  intro he
  exact hdistinct _ _ f g hi₁ hi₂ hidx (List.append_cancel_left he)

end TB
