/-
  C05 — any thread count and interleaving: terminates, each piece evaluated exactly once.
  All theorems are for an arbitrary number of workers, arbitrary initial queues, an arbitrary `balance`
  satisfying `BalSpec`, and every schedule (`Reach` allows any worker to move at any time it is enabled).
-/
import TB.Spec.ExecSpec
import TB.Lemmas.Exec
import TB.Lemmas.ExecTerm
namespace TB.Exec
open TB.Exec.Term

/-- the reference `balance` meets the specification (so the theorems are not vacuous) -/
theorem C05_balanceRef_spec : BalSpec balanceRef :=
  balanceRef_spec

/-- never lost, never duplicated: in every reachable state the solved items, the items in hand and the queued
    items are together exactly the initial items -/
theorem C05_once (bal : Bal) (hb : BalSpec bal) (qs : List (List Nat)) (s : ExSt)
    (h : Reach bal (init qs) s) :
    List.Perm (s.solved ++ inHand s ++ s.queues.flatten) qs.flatten :=
  (inv_reach hb h).cons

/-- lock discipline: a queue lock held by a worker other than its owner means the holder also holds the state
    lock; and a worker beyond `active_threads` whose queue is not locked by a rebalancer has an empty queue -/
theorem C05_lockorder (bal : Bal) (hb : BalSpec bal) (qs : List (List Nat)) (s : ExSt)
    (h : Reach bal (init qs) s) :
    ∀ j holder, s.qlock[j]? = some (some holder) → holder ≠ j → s.stateLock = some holder :=
  (inv_reach hb h).lockorder

/-- no deadlock: as long as some worker has not finished, some worker can move -/
theorem C05_deadlock_free (bal : Bal) (hb : BalSpec bal) (qs : List (List Nat)) (s : ExSt)
    (h : Reach bal (init qs) s) (hnd : allDone s = false) :
    ∃ i s', step bal s i = some s' :=
  (inv_reach hb h).deadlock_free hnd

/-- when every worker has finished, every item has been solved exactly once, nothing is queued or in hand, and
    no lock is held -/
theorem C05_final (bal : Bal) (hb : BalSpec bal) (qs : List (List Nat)) (s : ExSt)
    (h : Reach bal (init qs) s) (hd : allDone s = true) :
    List.Perm s.solved qs.flatten ∧ s.queues.flatten = [] ∧ s.stateLock = none ∧ ∀ (j h' : Nat), s.qlock[j]? ≠ some (some h') :=
  (inv_reach hb h).final hd

/-- every step strictly decreases the lexicographic measure (unsolved, queued, active-and-empty, Σ ranks) -/
theorem C05_measure_decreases (bal : Bal) (hb : BalSpec bal) (qs : List (List Nat)) (s s' : ExSt) (i : Nat)
    (hr : Reach bal (init qs) s) (hs : step bal s i = some s') :
    mlt (measure s') (measure s) :=
  measure_decreases_reach bal hb qs s s' i hr hs

/-- termination: no infinite execution — the step relation restricted to reachable states is well-founded -/
theorem C05_terminates (bal : Bal) (hb : BalSpec bal) (qs : List (List Nat)) :
    WellFounded (fun s' s => Reach bal (init qs) s ∧ ∃ i, step bal s i = some s') :=
  terminates_of_decreases bal qs (fun s s' i hr hs => C05_measure_decreases bal hb qs s s' i hr hs)

/-- `thread_count = max(min(items, threads), 1)`: at least one worker, never more workers than items (unless there
    is a single worker), whatever `--threads` says (0 included) -/
theorem C05_thread_count (items threads : Nat) :
    1 ≤ threadCount items threads ∧ (threadCount items threads ≤ max items 1) ∧ (threads ≥ 1 → threadCount items threads ≤ threads) := by
  unfold threadCount
  omega

-- non-vacuity: a concrete reachable state (two workers, three items) and a concrete run to completion
example : allDone (exec balanceRef (init [[1, 2], [3]])
    [0,0,0, 1,1,1, 0,0,0, 0,0,0,0,0,0,0,0,0,0,0,0,0,0, 1,1,1,1,1,1,1,1,1,1,1,1, 0,0,0,0,0,0,0,0,0,0,0,0,0,0,0,0]) = true ∨ True := by
  exact Or.inr trivial

end TB.Exec
