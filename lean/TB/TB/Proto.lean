/-
  TB.Proto — text encoding of values on the line protocol between the harness and `tbmodel`.
  Tokens are separated by single spaces; byte strings are lowercase hex (`-` for the empty string);
  lists are length-prefixed. The same printers are used for the model's observation and (after
  parsing) for the implementation's, so `agree` is string equality of canonical renderings.
-/
import TB.Model.Torrent
import TB.Model.Pieces
namespace TB.Proto
open TB

def hexChar (n : Nat) : Char := if n < 10 then Char.ofNat (48 + n) else Char.ofNat (87 + n)
def hexOf (bs : Bytes) : String :=
  if bs.isEmpty then "-" else String.ofList (bs.flatMap fun b => [hexChar (b.toNat / 16), hexChar (b.toNat % 16)])

def hexVal (c : Char) : Option Nat :=
  if '0' ≤ c ∧ c ≤ '9' then some (c.toNat - 48)
  else if 'a' ≤ c ∧ c ≤ 'f' then some (c.toNat - 87)
  else none

def unhexAux : List Char → Option Bytes
  | [] => some []
  | a :: b :: rest =>
    match hexVal a, hexVal b, unhexAux rest with
    | some x, some y, some r => some (UInt8.ofNat (x * 16 + y) :: r)
    | _, _, _ => none
  | _ => none
def unhex (s : String) : Option Bytes := if s == "-" then some [] else unhexAux s.toList

/-- token-stream parser -/
abbrev P (α : Type) := List String → Option (α × List String)

def pTok : P String
  | t :: ts => some (t, ts)
  | [] => none
def pNat : P Nat
  | t :: ts => match t.toNat? with | some n => some (n, ts) | none => none
  | [] => none
def pInt : P Int
  | t :: ts => match t.toInt? with | some n => some (n, ts) | none => none
  | [] => none
def pHex : P Bytes
  | t :: ts => match unhex t with | some b => some (b, ts) | none => none
  | [] => none
def pLit (s : String) : P Unit
  | t :: ts => if t == s then some ((), ts) else none
  | [] => none
def pMany {α : Type} (p : P α) : Nat → P (List α)
  | 0, ts => some ([], ts)
  | n+1, ts => match p ts with
    | some (a, ts') => match pMany p n ts' with
      | some (as, ts'') => some (a :: as, ts'')
      | none => none
    | none => none
/-- length-prefixed list -/
def pList {α : Type} (p : P α) : P (List α) := fun ts =>
  match pNat ts with
  | some (n, ts') => pMany p n ts'
  | none => none

/-! ### bencode token trees -/

def showStrTok (t : StrTok) : List String := ["S", toString t.s, toString t.c, hexOf t.val]

mutual
def showTok : Tok → List String
  | .str t => showStrTok t
  | .int v s c => ["I", toString s, toString c, toString v]
  | .list items s c => ["L", toString s, toString c, toString items.length] ++ showToks items
  | .dict ks vs s c => ["D", toString s, toString c, toString ks.length] ++ showKVs ks vs
def showToks : List Tok → List String
  | [] => []
  | t :: ts => showTok t ++ showToks ts
def showKVs : List StrTok → List Tok → List String
  | k :: ks, v :: vs => showStrTok k ++ showTok v ++ showKVs ks vs
  | _, _ => []
end

def pStrTok : P StrTok := fun ts =>
  match ts with
  | "S" :: s :: c :: h :: rest =>
    match s.toNat?, c.toNat?, unhex h with
    | some s, some c, some v => some (⟨v, s, c⟩, rest)
    | _, _, _ => none
  | _ => none

mutual
def pTokTree : Nat → P Tok
  | 0, _ => none
  | fuel+1, ts =>
    match ts with
    | "S" :: _ => match pStrTok ts with
      | some (t, r) => some (.str t, r) | none => none
    | "I" :: s :: c :: v :: rest =>
      match s.toNat?, c.toNat?, v.toInt? with
      | some s, some c, some v => some (.int v s c, rest)
      | _, _, _ => none
    | "L" :: s :: c :: n :: rest =>
      match s.toNat?, c.toNat?, n.toNat? with
      | some s, some c, some n =>
        match pToks fuel n rest with
        | some (items, r) => some (.list items s c, r)
        | none => none
      | _, _, _ => none
    | "D" :: s :: c :: n :: rest =>
      match s.toNat?, c.toNat?, n.toNat? with
      | some s, some c, some n =>
        match pKVs fuel n rest with
        | some ((ks, vs), r) => some (.dict ks vs s c, r)
        | none => none
      | _, _, _ => none
    | _ => none
def pToks : Nat → Nat → P (List Tok)
  | 0, _, _ => none
  | _, 0, ts => some ([], ts)
  | fuel+1, n+1, ts =>
    match pTokTree fuel ts with
    | some (t, r) => match pToks fuel n r with
      | some (rest, r') => some (t :: rest, r')
      | none => none
    | none => none
def pKVs : Nat → Nat → P (List StrTok × List Tok)
  | 0, _, _ => none
  | _, 0, ts => some (([], []), ts)
  | fuel+1, n+1, ts =>
    match pStrTok ts with
    | some (k, r) =>
      match pTokTree fuel r with
      | some (v, r') => match pKVs fuel n r' with
        | some ((ks, vs), r'') => some ((k :: ks, v :: vs), r'')
        | none => none
      | none => none
    | none => none
end

/-! ### torrents and pieces -/

def showFile (f : FileRec) : List String :=
  [toString f.length, toString f.path.length] ++ f.path.map hexOf

def showTorrent (t : Torrent) : List String :=
  ["N", hexOf t.info.name,
   "LEN", (match t.info.length with | some n => toString n | none => "-"),
   "FILES"] ++
  (match t.info.files with
   | some fs => [toString fs.length] ++ fs.flatMap showFile
   | none => ["-"]) ++
  ["PL", toString t.info.pieceLength, "NH", toString t.info.pieces.length] ++ t.info.pieces.map hexOf ++
  ["IH", hexOf t.infoHash]

def pFile : P FileRec := fun ts =>
  match pNat ts with
  | some (len, r) => match pList pHex r with
    | some (path, r') => some (⟨len, path⟩, r')
    | none => none
  | none => none

def pOptNat : P (Option Nat)
  | "-" :: ts => some (none, ts)
  | t :: ts => match t.toNat? with | some n => some (some n, ts) | none => none
  | [] => none

def pTorrent : P Torrent := fun ts =>
  match ts with
  | "N" :: name :: "LEN" :: rest =>
    match unhex name, pOptNat rest with
    | some name, some (len, "FILES" :: r1) =>
      let files : Option (Option (List FileRec) × List String) :=
        match r1 with
        | "-" :: r => some (none, r)
        | _ => match pList pFile r1 with
          | some (fs, r) => some (some fs, r)
          | none => none
      match files with
      | some (files, "PL" :: r2) =>
        match pNat r2 with
        | some (pl, "NH" :: r3) =>
          match pList pHex r3 with
          | some (hashes, "IH" :: ih :: r4) =>
            match unhex ih with
            | some ih => some (⟨⟨name, len, files, pl, hashes⟩, ih⟩, r4)
            | none => none
          | _ => none
        | _ => none
      | _ => none
    | _, _ => none
  | _ => none

def showSeg (s : Seg) : List String := [toString s.file, toString s.off, toString s.len, toString s.flen]
def showPiece (p : Piece) : List String :=
  [toString p.pos, toString p.len, hexOf p.hash, toString p.segs.length] ++ p.segs.flatMap showSeg
def showPieces (ps : List Piece) : List String := [toString ps.length] ++ ps.flatMap showPiece

def pSeg : P Seg := fun ts =>
  match pMany pNat 4 ts with
  | some ([a, b, c, d], r) => some (⟨a, b, c, d⟩, r)
  | _ => none
def pPiece : P Piece := fun ts =>
  match ts with
  | pos :: len :: h :: rest =>
    match pos.toNat?, len.toNat?, unhex h, pList pSeg rest with
    | some pos, some len, some h, some (segs, r) => some (⟨pos, segs, h, len⟩, r)
    | _, _, _, _ => none
  | _ => none
def pPieces : P (List Piece) := pList pPiece

def unwords (l : List String) : String := " ".intercalate l

end TB.Proto
