/-
  TB.ProtoRun — wire format of the `run` stream (whole-world runs).
  A path is one token: its components in hex joined by `/` (`.` for the empty path).
-/
import TB.Proto
import TB.Model.Run
namespace TB.Proto
open TB

def showPath (p : Path) : String := if p.isEmpty then "." else "/".intercalate (p.map hexOf)
def parsePath (s : String) : Option Path :=
  if s == "." then some [] else (s.splitOn "/").mapM unhex
def pPath : P Path
  | t :: ts => match parsePath t with | some p => some (p, ts) | none => none
  | [] => none

def pBool : P Bool
  | "1" :: ts => some (true, ts)
  | "0" :: ts => some (false, ts)
  | _ => none

def pPathArg : P PathArg := fun ts =>
  match pBool ts with
  | some (a, r) => match pPath r with
    | some (p, r') => some (⟨a, p⟩, r')
    | none => none
  | none => none

def pPair {α β : Type} (pa : P α) (pb : P β) : P (α × β) := fun ts =>
  match pa ts with
  | some (a, r) => match pb r with
    | some (b, r') => some ((a, b), r')
    | none => none
  | none => none

def pTriple : P (Nat × Nat × Nat) := fun ts =>
  match pMany pNat 3 ts with
  | some ([a, b, c], r) => some ((a, b, c), r)
  | _ => none

def showOp (o : Op) : List String :=
  let k := match o.kind with
    | .stat => ["stat", showPath o.path]
    | .openr => ["openr", showPath o.path]
    | .openrw => ["openrw", showPath o.path]
    | .openc => ["openc", showPath o.path]
    | .mkdirs => ["mkdirs", showPath o.path]
    | .setlen n => ["setlen", showPath o.path, toString n]
    | .seek n => ["seek", showPath o.path, toString n]
    | .read => ["read", showPath o.path]
    | .write off d => ["write", showPath o.path, toString off, hexOf d]
  k ++ [if o.ok then "ok" else "err"]

def pOk : P Bool
  | "ok" :: ts => some (true, ts)
  | "err" :: ts => some (false, ts)
  | _ => none

def pOp : P Op := fun ts =>
  match ts with
  | "stat" :: p :: r => (parsePath p).bind fun p => (pOk r).map fun (ok, r') => (⟨.stat, p, ok⟩, r')
  | "openr" :: p :: r => (parsePath p).bind fun p => (pOk r).map fun (ok, r') => (⟨.openr, p, ok⟩, r')
  | "openrw" :: p :: r => (parsePath p).bind fun p => (pOk r).map fun (ok, r') => (⟨.openrw, p, ok⟩, r')
  | "openc" :: p :: r => (parsePath p).bind fun p => (pOk r).map fun (ok, r') => (⟨.openc, p, ok⟩, r')
  | "mkdirs" :: p :: r => (parsePath p).bind fun p => (pOk r).map fun (ok, r') => (⟨.mkdirs, p, ok⟩, r')
  | "read" :: p :: r => (parsePath p).bind fun p => (pOk r).map fun (ok, r') => (⟨.read, p, ok⟩, r')
  | "setlen" :: p :: n :: r =>
    (parsePath p).bind fun p => n.toNat?.bind fun n => (pOk r).map fun (ok, r') => (⟨.setlen n, p, ok⟩, r')
  | "seek" :: p :: n :: r =>
    (parsePath p).bind fun p => n.toNat?.bind fun n => (pOk r).map fun (ok, r') => (⟨.seek n, p, ok⟩, r')
  | "write" :: p :: off :: d :: r =>
    (parsePath p).bind fun p => off.toNat?.bind fun off => (unhex d).bind fun d => (pOk r).map fun (ok, r') => (⟨.write off d, p, ok⟩, r')
  | _ => none

/-- request of the `run` stream; torrent documents are given as bytes and loaded by the model itself -/
structure RunReq where
  docs : List Bytes
  exportDir : PathArg
  scan : List PathArg
  resize : Bool
  threads : Nat
  dirs : List Path
  files : List (Path × Nat)
  inodes : List (Nat × Bytes)
  searchObs : List (Nat × List Path)
  order : List (List (Nat × Nat × Nat) × Bytes)
  faults : List Nat
  /-- ground truth: content of every torrent file, by metadata entry id (zeros for padding files) -/
  truth : List (Nat × Bytes)
  /-- observed outcome of each solved piece, in the order of `order` -/
  outcomes : List String
  /-- emulated crash: index of the mutating operation that was cut, and how much of it was applied -/
  crash : Option (Nat × Nat) := none
  /-- per observed piece (in the order of `order`): did any file operation logged during its evaluation fail? -/
  pieceFailedOp : List Bool := []
  /-- export images into which an injected partial write stored some bytes before failing -/
  partialPaths : List Path := []

def pSeq7 (ts : List String) : Option (RunReq × List String) :=
  match ts with
  | "H" :: r0 =>
    (pList pHex r0).bind fun (docs, r1) =>
    match r1 with
    | "E" :: r1 =>
      (pPathArg r1).bind fun (exp, r2) =>
      match r2 with
      | "S" :: r2 =>
        (pList pPathArg r2).bind fun (scan, r3) =>
        match r3 with
        | "R" :: r3 =>
          (pBool r3).bind fun (resize, r4) =>
          match r4 with
          | "T" :: r4 =>
            (pNat r4).bind fun (threads, r5) =>
            match r5 with
            | "F" :: r5 =>
              (pList pPath r5).bind fun (dirs, r6) =>
              (pList (pPair pPath pNat) r6).bind fun (files, r7) =>
              (pList (pPair pNat pHex) r7).bind fun (inodes, r8) =>
              match r8 with
              | "Q" :: r8 =>
                (pList (pPair pNat (pList pPath)) r8).bind fun (q, r9) =>
                match r9 with
                | "O" :: r9 =>
                  (pList (pPair (pList pTriple) pHex) r9).bind fun (o, r10) =>
                  match r10 with
                  | "X" :: r10 =>
                    (pList pNat r10).bind fun (x, r11) =>
                    match r11 with
                    | "G" :: r11 =>
                      (pList (pPair pNat pHex) r11).bind fun (g, r12) =>
                      match r12 with
                      | "U" :: r12 =>
                        (pList pTok r12).bind fun (u, r13) =>
                          let (v, r13) : List Bool × List String := match r13 with
                            | "V" :: rest => (match pList pBool rest with | some (v, r) => (v, r) | none => ([], rest))
                            | _ => ([], r13)
                          let (pw, r13) : List Path × List String := match r13 with
                            | "W" :: rest => (match pList pPath rest with | some (v, r) => (v, r) | none => ([], rest))
                            | _ => ([], r13)
                          match r13 with
                          | "K" :: k :: j :: r14 =>
                            match k.toNat?, j.toNat? with
                            | some k, some j => some (⟨docs, exp, scan, resize, threads, dirs, files, inodes, q, o, x, g, u, some (k, j), v, pw⟩, r14)
                            | _, _ => none
                          | _ => some (⟨docs, exp, scan, resize, threads, dirs, files, inodes, q, o, x, g, u, none, v, pw⟩, r13)
                      | _ => none
                    | _ => none
                  | _ => none
                | _ => none
              | _ => none
            | _ => none
          | _ => none
        | _ => none
      | _ => none
    | _ => none
  | _ => none

/-- the implementation's (or the model's) observation of a run -/
structure RunObs where
  result : String
  ops : List Op
  counters : List Counters
  total : Nat
  dirs : List Path
  files : List (Path × Bytes)

def pCounters : P Counters := fun ts =>
  match pTriple ts with
  | some ((a, b, c), r) => some (⟨a, b, c⟩, r)
  | none => none

def pRunObs (ts : List String) : Option RunObs :=
  match ts with
  | "RES" :: res :: "OPS" :: r0 =>
    (pList pOp r0).bind fun (ops, r1) =>
    match r1 with
    | "CNT" :: r1 =>
      (pList pCounters r1).bind fun (cnt, r2) =>
      match r2 with
      | "TOTAL" :: r2 =>
        (pNat r2).bind fun (total, r3) =>
        match r3 with
        | "FS" :: r3 =>
          (pList pPath r3).bind fun (dirs, r4) =>
          (pList (pPair pPath pHex) r4).bind fun (files, r5) =>
          if r5.isEmpty then some ⟨res, ops, cnt, total, dirs, files⟩ else none
        | _ => none
      | _ => none
    | _ => none
  | _ => none

def showRunObs (o : RunObs) : String :=
  unwords (["RES", o.result, "OPS", toString o.ops.length] ++ o.ops.flatMap showOp ++
    ["CNT", toString o.counters.length] ++ o.counters.flatMap (fun c => [toString c.success, toString c.failed, toString c.fault]) ++
    ["TOTAL", toString o.total, "FS", toString o.dirs.length] ++ o.dirs.map showPath ++
    [toString o.files.length] ++ o.files.flatMap (fun f => [showPath f.1, hexOf f.2]))

end TB.Proto
