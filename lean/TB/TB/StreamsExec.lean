/-
  TB.StreamsExec — the `exec` stream: a run of the real executor under the deterministic scheduler is replayed,
  decision by decision, on TB.Model.Exec. At every scheduling decision the model must (1) agree on the set of
  threads that can move, (2) agree on the operation the chosen worker performs and on its outcome; the observed
  results of `balance` must satisfy the specification the theorems assume (`balOk`); the order in which pieces
  reach `solve` must be the model's.
-/
import TB.Proto
import TB.Streams
import TB.Model.Exec
namespace TB.Streams
open TB TB.Proto TB.Exec

structure Ev where
  thread : Nat            -- scheduler id: 0 = main, worker i = i + 1
  kind : String
  lock : String
  outcome : String
  enabled : List Nat

def pEv : P Ev := fun ts =>
  match ts with
  | t :: kind :: lock :: outcome :: rest =>
    match t.toNat?, pList pNat rest with
    | some t, some (en, r) => some (⟨t, kind, lock, outcome, en⟩, r)
    | _, _ => none
  | _ => none

def pQueues : P (List (List Nat)) := pList (pList pNat)

/-- Bool version of `BalSpec` for one observed call -/
def balOk (active : Nat) (before after : List (List Nat)) : Bool :=
  let items := (before.take active).flatten
  let n := items.length
  after.length == before.length && after.drop active == before.drop active &&
  ((after.take active).flatten.mergeSort (· ≤ ·)) == (items.mergeSort (· ≤ ·)) &&
  (List.range active).all (fun j => ((after[j]?.getD []).length == n / active + (if j < n % active then 1 else 0)))

def lockName (j : Nat) : String := "q" ++ toString j

/-- the synchronisation operation worker `i` performs next: (kind, lock, outcome); `none` for internal steps / done -/
def visibleOp (s : ExSt) (i : Nat) : Option (String × String × String) :=
  match s.pcs[i]? with
  | some .top => some ("trylock", lockName i, if s.qlock[i]? == some none then "ok" else "fail")
  | some (.popped _) => some ("unlock", lockName i, "ok")
  | some .wantState => some ("lock", "S", "ok")
  | some .exiting => some ("unlock", "S", "ok")
  | some .wantLocal => some ("lock", lockName i, "ok")
  | some .cont1 => some ("unlock", lockName i, "ok")
  | some .cont2 => some ("unlock", "S", "ok")
  | some (.collect j) => (others i s.active)[j]?.map (fun t => ("lock", lockName t, "ok"))
  | some (.release j _) => if j < s.active then some ("unlock", lockName j, "ok") else none
  | some .unlockState => some ("unlock", "S", "ok")
  | _ => none

def isInternal (s : ExSt) (i : Nat) : Bool :=
  match s.pcs[i]? with
  | some (.solving _) | some .haveState | some .haveLocal | some .bal | some (.dec _) => true
  | some (.collect j) => ((others i s.active)[j]?).isNone
  | some (.release j _) => !(j < s.active)
  | _ => false

structure Replay where
  s : ExSt
  bals : List (List (List Nat))      -- observed results of balance still to be consumed
  exited : List Nat                  -- workers whose thread exit has been scheduled
  joined : Nat                       -- joins performed by the main thread
  problems : List String

/-- run worker `i` through its internal steps -/
def advance : Nat → Replay → Nat → Replay
  | 0, r, _ => r
  | fuel + 1, r, i =>
    if !isInternal r.s i then r else
    match r.s.pcs[i]? with
    | some .bal =>
      match r.bals with
      | [] => { r with problems := r.problems ++ ["balance-not-observed"] }
      | obs0 :: rest =>
        -- the observation covers the queues handed to `balance` (the first `active` ones)
        let obs := if obs0.length == r.s.active then obs0 ++ r.s.queues.drop r.s.active else obs0
        let ok := balOk r.s.active r.s.queues obs
        match step (fun _ _ => obs) r.s i with
        | some s' => advance fuel { r with s := s', bals := rest, problems := r.problems ++ (if ok then [] else ["balance-violates-spec"]) } i
        | none => { r with problems := r.problems ++ ["internal-step-blocked"] }
    | _ =>
      match step (fun _ qs => qs) r.s i with
      | some s' => advance fuel { r with s := s' } i
      | none => { r with problems := r.problems ++ ["internal-step-blocked"] }

def expectedEnabled (r : Replay) (n : Nat) : List Nat :=
  let workers := (List.range n).filter (fun w =>
    (visibleOp r.s w).isSome && (step (fun _ qs => qs) r.s w).isSome || (r.s.pcs[w]? == some .done && !r.exited.contains w))
  (if r.joined < n && r.exited.contains r.joined then [0] else []) ++ workers.map (· + 1)

def replayEv (n : Nat) (r : Replay) (e : Ev) (idx : Nat) : Replay :=
  let en := expectedEnabled r n
  let r := if en == e.enabled then r else { r with problems := r.problems ++ ["enabled-set@" ++ toString idx] }
  if e.thread == 0 then
    if e.kind == "join" then { r with joined := r.joined + 1 } else { r with problems := r.problems ++ ["main-op@" ++ toString idx] }
  else
    let w := e.thread - 1
    if e.kind == "exit" then
      if r.s.pcs[w]? == some .done then { r with exited := r.exited ++ [w] }
      else { r with problems := r.problems ++ ["exit-before-done@" ++ toString idx] }
    else
      match visibleOp r.s w with
      | some (k, l, o) =>
        let r := if k == e.kind && l == e.lock && o == e.outcome then r else { r with problems := r.problems ++ ["op@" ++ toString idx] }
        match step (fun _ qs => qs) r.s w with
        | some s' => advance 64 { r with s := s' } w
        | none => { r with problems := r.problems ++ ["blocked@" ++ toString idx] }
      | none => { r with problems := r.problems ++ ["no-visible-op@" ++ toString idx] }

def replayAll (n : Nat) : Replay → List Ev → Nat → Replay
  | r, [], _ => r
  | r, e :: es, idx => if r.problems.length > 5 then r else replayAll n (replayEv n r e idx) es (idx + 1)

def handleExec (req : List String) (obs : List String) : String :=
  match req with
  | "INIT" :: r0 =>
    match pQueues r0 with
    | some (qs, "EV" :: r1) =>
      match pList pEv r1 with
      | some (evs, "BAL" :: r2) =>
        match pList pQueues r2 with
        | some (bals, "SOLVE" :: r3) =>
          match pList pNat r3 with
          | some (solves, _) =>
            let n := qs.length
            let r0 : Replay := ⟨init qs, bals, [], 0, []⟩
            -- workers may start with internal work only after their first operation; nothing to advance initially
            let r := replayAll n r0 evs 0
            let items := qs.flatten
            let problems := r.problems ++
              (if r.s.solved == solves then [] else ["solve-order"]) ++
              (if allDone r.s then [] else ["model-not-finished"]) ++
              (if r.bals.isEmpty then [] else ["unused-balance-observations"])
            -- property C05 judged on the implementation's own trace
            let deadlock := evs.any (fun e => e.kind == "DEADLOCK")
            let fails :=
              (if solves.eraseDups.length == solves.length then [] else ["c05-solved-twice"]) ++
              (if (solves.mergeSort (· ≤ ·)) == (items.mergeSort (· ≤ ·)) then [] else ["c05-lost-or-extra"]) ++
              (if obs == ["RES", "ok"] then [] else ["c05-not-returned"]) ++
              (if deadlock then ["c05-deadlock"] else [])
            verdict problems.isEmpty fails ((if problems.isEmpty then "" else "DIFF:" ++ ",".intercalate problems ++ " ") ++
              "steps " ++ toString evs.length ++ " solved " ++ toString r.s.solved.length)
          | none => "bad-request"
        | _ => "bad-request"
      | _ => "bad-request"
    | _ => "bad-request"
  | _ => "bad-request"

end TB.Streams
