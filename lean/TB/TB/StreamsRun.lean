/-
  TB.StreamsRun — the `run` stream: a whole run of `start()` on a generated world.
-/
import TB.ProtoRun
import TB.Model.Sha1
import TB.Check.Run
import TB.Streams
namespace TB.Streams
open TB TB.Proto

def reqToRunIn (r : RunReq) : RunIn :=
  let torrents := r.docs.filterMap (fun d => (load Sha1.sha1 d).toOption)
  { fs := ⟨r.files, r.dirs, r.inodes, (r.inodes.foldl (fun m e => max m e.1) 0) + 1⟩,
    torrents := torrents, scan := r.scan, exportDir := r.exportDir, resize := r.resize,
    searchObs := r.searchObs, order := r.order, faults := r.faults }

def canonDirs (ds : List Path) : List Path := (sortBy pathLt ds).eraseDups
def canonFiles (fs : List (Path × Bytes)) : List (Path × Bytes) := sortBy (fun a b => pathLt a.1 b.1) fs

def modelObs (o : RunOut) : RunObs :=
  { result := o.result.cls, ops := o.ops, counters := o.counters, total := o.total,
    dirs := canonDirs (o.fs.dirs.filter (fun d => !d.isEmpty)),
    files := canonFiles (o.fs.files.map (fun f => (f.1, o.fs.content f.2))) }

def firstDiff {α : Type} [BEq α] : List α → List α → Nat → Option Nat
  | [], [], _ => none
  | a :: as, b :: bs, i => if a == b then firstDiff as bs (i + 1) else some i
  | _, _, i => some i

def handleRun (req : List String) (obs : List String) : String :=
  match pSeq7 req with
  | none => "bad-request"
  | some (r, _) =>
    let inp := reqToRunIn r
    let out0 := run Sha1.sha1 inp
    -- an emulated crash: the model's observation is the log prefix and the tree it replays to
    let out := match r.crash with
      | none => out0
      | some (k, j) =>
        let (fs', prefixOps) := TB.Check.crashState inp.fs out0.ops k j []
        { out0 with fs := fs', ops := prefixOps, result := .ok () }
    let m := modelObs out
    let m := if r.crash.isSome then { m with result := "crash" } else m
    match pRunObs obs with
    | none => verdict false ["run-unparsable-observation"] (showRunObs m)
    | some i =>
      let i := { i with dirs := canonDirs i.dirs, files := canonFiles i.files }
      let diffs : List String :=
        (if i.result == m.result then [] else ["result"]) ++
        (if r.threads ≤ 1 then
          (match firstDiff i.ops m.ops 0 with | none => [] | some k => ["ops@" ++ toString k]) ++
          (if r.crash.isSome then (if i.counters == m.counters.take i.counters.length then [] else ["counters"])
           else if i.counters == m.counters then [] else ["counters"])
         else []) ++
        (if r.crash.isSome || i.total == m.total then [] else ["total"]) ++
        -- with several workers the numbering of operations (hence which operation an injected fault hits)
        -- depends on the interleaving: the final tree is then judged by the property checkers only
        -- a partial write is a fault the model applies in full (nothing stored): the tree is judged by the checkers
        (if (r.threads > 1 && !r.faults.isEmpty) || !r.partialPaths.isEmpty then [] else
          (if i.dirs == m.dirs then [] else ["dirs"]) ++
          (if i.files == m.files then [] else ["files"])) ++
        (if out.resolutionOk then [] else ["resolution-not-admissible"])
      -- a run without faults, crash or partial writes that the model completes must not fail in the implementation:
      -- an error (or a refusal to start) without a cause in the arguments or the tree is a failure of C16's "a run
      -- with loadable torrents and valid directories returns normally"
      let spurious := if r.faults.isEmpty && r.crash.isNone && r.partialPaths.isEmpty && m.result == "ok" && i.result == "err"
        then ["c16-fails-without-cause"] else []
      let fails := TB.Check.checkRun Sha1.sha1 r inp out i ++ spurious
      verdict diffs.isEmpty fails ((if diffs.isEmpty then "" else "DIFF:" ++ ",".intercalate diffs ++ " ") ++ showRunObs m)

end TB.Streams
