/-
  TB.Spec.BencodeSpec — what bencode *is* (BEP 3), independent of the decoder's control flow:
  values, the encoder, canonicity, erasure of a token tree to the value it denotes, and exactness of spans.
-/
import TB.Model.Bencode
namespace TB

/-- bencoded values -/
inductive BVal where
  | int (v : Int)
  | str (s : Bytes)
  | list (xs : List BVal)
  | dict (kvs : List (Bytes × BVal))
deriving Repr, Inhabited

/-- decimal digits of a natural number, most significant first, no leading zero (`0` ↦ "0") -/
def natDigits (n : Nat) : Bytes :=
  if h : n < 10 then [UInt8.ofNat (48 + n)]
  else natDigits (n / 10) ++ [UInt8.ofNat (48 + n % 10)]
decreasing_by omega

def encodeStr (s : Bytes) : Bytes := natDigits s.length ++ [58] ++ s
def encodeInt (v : Int) : Bytes :=
  [105] ++ (if v < 0 then [45] ++ natDigits v.natAbs else natDigits v.natAbs) ++ [101]

mutual
/-- the BEP 3 encoder -/
def encode : BVal → Bytes
  | .int v => encodeInt v
  | .str s => encodeStr s
  | .list xs => [108] ++ encodeList xs ++ [101]
  | .dict kvs => [100] ++ encodeDict kvs ++ [101]
def encodeList : List BVal → Bytes
  | [] => []
  | x :: xs => encode x ++ encodeList xs
def encodeDict : List (Bytes × BVal) → Bytes
  | [] => []
  | (k, v) :: kvs => encodeStr k ++ encode v ++ encodeDict kvs
end

/-- keys strictly ascending in raw byte order -/
def keysAscending : List Bytes → Bool
  | [] => true
  | [_] => true
  | a :: b :: rest => bytesLt a b && keysAscending (b :: rest)

mutual
/-- canonical values: integers within the signed 128-bit range, string lengths representable,
    dictionary keys strictly ascending -/
def canon : BVal → Bool
  | .int v => inI128 v
  | .str s => decide (s.length ≤ usizeMax)
  | .list xs => canonList xs
  | .dict kvs => keysAscending (kvs.map (·.1)) && canonDict kvs
def canonList : List BVal → Bool
  | [] => true
  | x :: xs => canon x && canonList xs
def canonDict : List (Bytes × BVal) → Bool
  | [] => true
  | (k, v) :: kvs => decide (k.length ≤ usizeMax) && canon v && canonDict kvs
end

mutual
/-- the value a token tree denotes -/
def erase : Tok → BVal
  | .str t => .str t.val
  | .int v _ _ => .int v
  | .list items _ _ => .list (eraseList items)
  | .dict ks vs _ _ => .dict (eraseDict ks vs)
def eraseList : List Tok → List BVal
  | [] => []
  | t :: ts => erase t :: eraseList ts
def eraseDict : List StrTok → List Tok → List (Bytes × BVal)
  | k :: ks, v :: vs => (k.val, erase v) :: eraseDict ks vs
  | _, _ => []
end

/-- `inp[a..b]` -/
def slice (inp : Bytes) (a b : Nat) : Bytes := (inp.drop a).take (b - a)

def strSpanOk (inp : Bytes) (t : StrTok) : Bool :=
  decide (t.s ≤ t.c) && decide (t.c ≤ inp.length) && slice inp t.s t.c == encodeStr t.val

mutual
/-- every node's [start, continuation) is exactly the encoding of the value that node denotes -/
def spansExact (inp : Bytes) : Tok → Bool
  | .str t => strSpanOk inp t
  | .int v s c => decide (s ≤ c) && decide (c ≤ inp.length) && slice inp s c == encodeInt v
  | .list items s c =>
    decide (s ≤ c) && decide (c ≤ inp.length) && slice inp s c == encode (.list (eraseList items))
      && spansExactList inp items
  | .dict ks vs s c =>
    decide (s ≤ c) && decide (c ≤ inp.length) && decide (ks.length = vs.length)
      && slice inp s c == encode (.dict (eraseDict ks vs))
      && ks.all (strSpanOk inp) && spansExactList inp vs
def spansExactList (inp : Bytes) : List Tok → Bool
  | [] => true
  | t :: ts => spansExact inp t && spansExactList inp ts
end

/-- checker of C08 on an accepted tree (decoder-free): canonical, re-encodes to the input, spans exact,
    and the root spans the whole input -/
def checkAccepted (inp : Bytes) (t : Tok) : Bool :=
  canon (erase t) && encode (erase t) == inp && spansExact inp t && t.start == 0 && t.cont == inp.length

end TB
