/-
  TB.Spec.LoadCost — a step-counting copy of the loader model (TB.Model.Torrent: `load` and everything below it),
  on top of the step-counting decoder `TB.Cost.decodeC`.
  Every function returns, next to the result of the original, the number of elementary steps it took.
  What is one step:

  dictionary lookup `find_value` (linear search over the keys of the decoded dictionary)
    * per key examined: `eqCost k key = min |k| |key| + 1` — the bytes the equality test `k == key` can look at,
      plus one for the entry itself; a search that falls off the end pays 1 more.
    `findDict/findList/findInt/findStr` add nothing (the variant test is part of the lookup's last step).
  strings
    * `from_utf8 s` and `plainComponent s` are charged `compCost s = |s| + 1` each, in full, whether or not the
      check stops early (one unit per byte, one for the string itself).
  `evaluate_file` : its lookups (`length`, `path.utf-8`, and `path` only when the former is absent), 1 for
      `u64::try_from`, `pathStrings` (per component 1 + its bytes; 1 for the end of the list or for a non-string
      entry), 1 for the emptiness test, the plain-name pass (per component 1 + its bytes, stops at the first bad
      component; 1 for the end of the list).
  `evaluate_files` : 1 per file record (also for the end of the list / a non-dictionary entry) + `evaluate_file`.
  `chunks(20)` : per hash split 1 + the bytes copied into it; 1 for the end.
  `evaluate_info` : its lookups (`name.utf-8`, `name` only when the former is absent, `pieces`, `piece length`,
      `length`, `files`), the two checks of the name, 1 for `len % 20`, the hash split, 1 per `u64::try_from`,
      `evaluate_files`, 1 for the emptiness test, 1 per file for the sum of the lengths, 1 for the piece-count
      validation.
  `load` : the decoder's steps (`decodeC`), the lookup of `info` in the root, 1 for the bounds check of the slice
      `bytes[s..c]`, `evaluate_info`, and — only when the record was accepted — 1 per byte of the info slice
      handed to the hash function `H` (the slice itself is a borrow in the Rust code: no copy is charged).
  Fuel parameters (`chunks20`) are artefacts of the model: computing them is free.
-/
import TB.Model.Torrent
import TB.Spec.CostSpec
namespace TB.LoadCost
open TB TB.Cost

/-- cost of `a == b` on byte strings: the bytes it can look at, plus one -/
def eqCost (a b : Bytes) : Nat := min a.length b.length + 1

/-- cost charged for one pass over a string (UTF-8 validation, plain-name check): one per byte, plus one -/
def compCost (s : Bytes) : Nat := s.length + 1

/-- `find_value` with its step count -/
def findValueC : List StrTok → List Tok → Bytes → Option Tok × Nat
  | k :: ks, v :: vs, key =>
    if k.val = key then (some v, eqCost k.val key)
    else let r := findValueC ks vs key; (r.1, r.2 + eqCost k.val key)
  | _, _, _ => (none, 1)

def findDictC (ks : List StrTok) (vs : List Tok) (key : Bytes) :
    Option (List StrTok × List Tok × Nat × Nat) × Nat :=
  match findValueC ks vs key with
  | (some (.dict k v s c), n) => (some (k, v, s, c), n)
  | (_, n) => (none, n)
def findListC (ks : List StrTok) (vs : List Tok) (key : Bytes) : Option (List Tok) × Nat :=
  match findValueC ks vs key with
  | (some (.list items _ _), n) => (some items, n)
  | (_, n) => (none, n)
def findIntC (ks : List StrTok) (vs : List Tok) (key : Bytes) : Option Int × Nat :=
  match findValueC ks vs key with
  | (some (.int v _ _), n) => (some v, n)
  | (_, n) => (none, n)
def findStrC (ks : List StrTok) (vs : List Tok) (key : Bytes) : Option Bytes × Nat :=
  match findValueC ks vs key with
  | (some (.str t), n) => (some t.val, n)
  | (_, n) => (none, n)

/-- `chunks(20)` with its step count -/
def chunks20C : Nat → Bytes → List Bytes × Nat
  | 0, _ => ([], 1)
  | n+1, bs =>
    if bs.isEmpty then ([], 1)
    else let r := chunks20C n (bs.drop 20); (bs.take 20 :: r.1, r.2 + (bs.take 20).length + 1)

/-- `pathStrings` with its step count -/
def pathStringsC : List Tok → Option (List Bytes) × Nat
  | [] => (some [], 1)
  | .str t :: rest =>
    if utf8Valid t.val then
      match pathStringsC rest with
      | (some ps, n) => (some (t.val :: ps), n + compCost t.val)
      | (none, n) => (none, n + compCost t.val)
    else (none, compCost t.val)
  | _ :: _ => (none, 1)

/-- `ps.all plainComponent` with its step count -/
def allPlainC : List Bytes → Bool × Nat
  | [] => (true, 1)
  | s :: rest =>
    if plainComponent s then let r := allPlainC rest; (r.1, r.2 + compCost s)
    else (false, compCost s)

/-- `evaluate_file` with its step count -/
def evaluateFileC (ks : List StrTok) (vs : List Tok) : Res FileRec × Nat :=
  match findIntC ks vs kLength with
  | (none, n1) => (.err, n1)
  | (some lv, n1) =>
    match toU64 lv with
    | none => (.err, n1 + 1)
    | some length =>
      let paths := match findListC ks vs kPathUtf8 with
        | (some l, n2) => (some l, n2)
        | (none, n2) => let q := findListC ks vs kPath; (q.1, n2 + q.2)
      match paths with
      | (none, n2) => (.err, n1 + 1 + n2)
      | (some items, n2) =>
        match pathStringsC items with
        | (none, n3) => (.err, n1 + 1 + n2 + n3)
        | (some ps, n3) =>
          if ps.isEmpty then (.err, n1 + 1 + n2 + n3 + 1)
          else
            let a := allPlainC ps
            if !a.1 then (.err, n1 + 1 + n2 + n3 + 1 + a.2)
            else (.ok ⟨length, ps⟩, n1 + 1 + n2 + n3 + 1 + a.2)

/-- `evaluate_files` with its step count -/
def evaluateFilesC : List Tok → Res (List FileRec) × Nat
  | [] => (.ok [], 1)
  | .dict ks vs _ _ :: rest =>
    match evaluateFileC ks vs with
    | (.ok f, n) =>
      match evaluateFilesC rest with
      | (.ok fs, m) => (.ok (f :: fs), m + n + 1)
      | (.err, m) => (.err, m + n + 1)
      | (.panic, m) => (.panic, m + n + 1)
    | (.err, n) => (.err, n + 1)
    | (.panic, n) => (.panic, n + 1)
  | _ :: _ => (.err, 1)

/-- `evaluate_info` with its step count -/
def evaluateInfoC (ks : List StrTok) (vs : List Tok) : Res Info × Nat :=
  let name := match findStrC ks vs kNameUtf8 with
    | (some n, c) => (some n, c)
    | (none, c) => let q := findStrC ks vs kName; (q.1, c + q.2)
  match name with
  | (none, c0) => (.err, c0)
  | (some name, c0) =>
    if !utf8Valid name then (.err, c0 + compCost name)
    else if !plainComponent name then (.err, c0 + compCost name + compCost name)
    else
    let c1 := c0 + compCost name + compCost name
    match findStrC ks vs kPieces with
    | (none, c2) => (.err, c1 + c2)
    | (some pieces, c2) =>
      if pieces.length % 20 != 0 then (.err, c1 + c2 + 1) else
      let ch := chunks20C (pieces.length / 20 + 1) pieces
      let hashes := ch.1
      let c3 := c1 + c2 + 1 + ch.2
      match findIntC ks vs kPieceLength with
      | (none, c4) => (.err, c3 + c4)
      | (some plv, c4) =>
        match toU64 plv with
        | none => (.err, c3 + c4 + 1)
        | some pieceLength =>
          let lengthC := findIntC ks vs kLength
          let filesC := findListC ks vs kFiles
          let c5 := c3 + c4 + 1 + lengthC.2 + filesC.2
          match lengthC.1, filesC.1 with
          | some _, some _ => (.err, c5)
          | none, none => (.err, c5)
          | some lv, none =>
            match toU64 lv with
            | none => (.err, c5 + 1)
            | some l =>
              if pieceCountOk l pieceLength hashes.length
              then (.ok ⟨name, some l, none, pieceLength, hashes⟩, c5 + 2) else (.err, c5 + 2)
          | none, some items =>
            match evaluateFilesC items with
            | (.err, c6) => (.err, c5 + c6)
            | (.panic, c6) => (.panic, c5 + c6)
            | (.ok fs, c6) =>
              if fs.isEmpty then (.err, c5 + c6 + 1)
              else if pieceCountOk ((fs.map (·.length)).sum) pieceLength hashes.length
              then (.ok ⟨name, none, some fs, pieceLength, hashes⟩, c5 + c6 + 1 + fs.length + 1)
              else (.err, c5 + c6 + 1 + fs.length + 1)

/-- `Torrent::from_bytes` with its step count -/
def loadC (H : Bytes → Bytes) (inp : Bytes) : Res Torrent × Nat :=
  match decodeC inp with
  | (.err, n) => (.err, n)
  | (.panic, n) => (.panic, n)
  | (.ok (.dict rks rvs _ _), n) =>
    match findDictC rks rvs kInfo with
    | (none, m) => (.err, n + m)
    | (some (iks, ivs, s, c), m) =>
      match sliceRes inp s c with
      | .ok infoBytes =>
        match evaluateInfoC iks ivs with
        | (.ok info, k) => (.ok ⟨info, H infoBytes⟩, n + m + 1 + k + infoBytes.length)
        | (.err, k) => (.err, n + m + 1 + k)
        | (.panic, k) => (.panic, n + m + 1 + k)
      | .err => (.err, n + m + 1)
      | .panic => (.panic, n + m + 1)
  | (.ok _, n) => (.err, n)

end TB.LoadCost
