/-
  TB.Spec.CostSpec — a step-counting copy of the decoder model (TB.Model.Bencode).
  Every function returns, next to the result of the original, the number of elementary steps it took:
  one per byte inspected by a state of the automata, one per byte copied out of the input (`take n` costs n),
  one per byte compared by the key-order test, one per loop iteration of the list / dictionary loops.
  `C09cost` proves (1) the results are those of the original model and (2) the count is linear in the input length.
-/
import TB.Model.Bencode
namespace TB.Cost
open TB

def intDigitsC (neg : Bool) : Bytes → Int → Nat → Res (Int × Nat × Bytes) × Nat
  | [], _, _ => (.err, 1)
  | b :: rest, acc, pos =>
    if isDigit b then
      let m := acc * 10
      if !inI128 m then (.err, 1) else
      let a := if neg then m - (digitVal b : Int) else m + (digitVal b : Int)
      if !inI128 a then (.err, 1) else
      let r := intDigitsC neg rest a (pos + 1)
      (r.1, r.2 + 1)
    else if b == 101 then (.ok (acc, pos + 1, rest), 1)
    else (.err, 1)

def decodeIntC (inp : Bytes) (pos : Nat) : Res (Int × Nat × Bytes) × Nat :=
  match inp with
  | b :: rest =>
    if b == 105 then
      match rest with
      | b1 :: rest1 =>
        if isNonZeroDigit b1 then let r := intDigitsC false rest1 (digitVal b1 : Int) (pos + 2); (r.1, r.2 + 2)
        else if b1 == 48 then (intStop 0 rest1 (pos + 2), 3)
        else if b1 == 45 then
          match rest1 with
          | b2 :: rest2 =>
            if isNonZeroDigit b2 then let r := intDigitsC true rest2 (-(digitVal b2 : Int)) (pos + 3); (r.1, r.2 + 3)
            else (.err, 3)
          | [] => (.err, 3)
        else (.err, 2)
      | [] => (.err, 2)
    else (.err, 1)
  | [] => (.err, 1)

def strDigitsC : Bytes → Nat → Nat → Res (Bytes × Nat × Bytes) × Nat
  | [], _, _ => (.err, 1)
  | b :: rest, n, pos =>
    if isDigit b then
      let m := n * 10
      if m > usizeMax then (.err, 1) else
      let a := m + digitVal b
      if a > usizeMax then (.err, 1) else
      let r := strDigitsC rest a (pos + 1)
      (r.1, r.2 + 1)
    else if b == 58 then
      let r := strChars n rest (pos + 1)
      -- copying n bytes out of the input costs n (only when the copy happens)
      (r, 1 + (match r with | .ok _ => n | _ => 0))
    else (.err, 1)

def decodeStrC (inp : Bytes) (pos : Nat) : Res (Bytes × Nat × Bytes) × Nat :=
  match inp with
  | b :: rest =>
    if b == 48 then (strSep rest (pos + 1), 2)
    else if isNonZeroDigit b then let r := strDigitsC rest (digitVal b) (pos + 1); (r.1, r.2 + 1)
    else (.err, 1)
  | [] => (.err, 1)

def decodeStrTokC (inp : Bytes) (pos : Nat) : Res (StrTok × Bytes) × Nat :=
  match decodeStrC inp pos with
  | (.ok (v, c, r), n) => (.ok (⟨v, pos, c⟩, r), n)
  | (.err, n) => (.err, n)
  | (.panic, n) => (.panic, n)

/-- cost of `bytesLt a b`: the bytes it looks at -/
def bytesLtCost (a b : Bytes) : Nat := min a.length b.length + 1

mutual
def decodeAnyC : Nat → Bytes → Nat → Res (Tok × Bytes) × Nat
  | 0, _, _ => (.err, 1)
  | fuel+1, inp, pos =>
    match inp with
    | [] => (.err, 1)
    | b :: rest =>
      if isDigit b then
        match decodeStrTokC inp pos with
        | (.ok (t, r), n) => (.ok (.str t, r), n + 1) | (.err, n) => (.err, n + 1) | (.panic, n) => (.panic, n + 1)
      else if b == 105 then
        match decodeIntC inp pos with
        | (.ok (v, c, r), n) => (.ok (.int v pos c, r), n + 1) | (.err, n) => (.err, n + 1) | (.panic, n) => (.panic, n + 1)
      else if b == 108 then let r := decodeListLoopC fuel rest (pos+1) pos []; (r.1, r.2 + 1)
      else if b == 100 then let r := decodeDictLoopC fuel rest (pos+1) pos [] []; (r.1, r.2 + 1)
      else (.err, 1)
def decodeListLoopC : Nat → Bytes → Nat → Nat → List Tok → Res (Tok × Bytes) × Nat
  | 0, _, _, _, _ => (.err, 1)
  | fuel+1, inp, pos, start, acc =>
    match inp with
    | [] => (.err, 1)
    | b :: rest =>
      if isValueStart b then
        match decodeAnyC fuel inp pos with
        | (.ok (t, r), n) => let q := decodeListLoopC fuel r t.cont start (t :: acc); (q.1, q.2 + n + 1)
        | (.err, n) => (.err, n + 1) | (.panic, n) => (.panic, n + 1)
      else if b == 101 then (.ok (.list acc.reverse start (pos+1), rest), 1)
      else (.err, 1)
def decodeDictLoopC : Nat → Bytes → Nat → Nat → List StrTok → List Tok → Res (Tok × Bytes) × Nat
  | 0, _, _, _, _, _ => (.err, 1)
  | fuel+1, inp, pos, start, ks, vs =>
    match inp with
    | [] => (.err, 1)
    | b :: rest =>
      if isDigit b then
        match decodeStrTokC inp pos with
        | (.ok (k, r), n) =>
          let cmp := match ks with | [] => 0 | last :: _ => bytesLtCost last.val k.val
          let okOrder := match ks with
            | [] => true
            | last :: _ => bytesLt last.val k.val
          if okOrder then
            match r with
            | [] => (.err, n + cmp + 1)
            | b2 :: _ =>
              if isValueStart b2 then
                match decodeAnyC fuel r k.c with
                | (.ok (t, r2), m) => let q := decodeDictLoopC fuel r2 t.cont start (k :: ks) (t :: vs); (q.1, q.2 + n + cmp + m + 1)
                | (.err, m) => (.err, n + cmp + m + 1) | (.panic, m) => (.panic, n + cmp + m + 1)
              else (.err, n + cmp + 1)
          else (.err, n + cmp + 1)
        | (.err, n) => (.err, n + 1) | (.panic, n) => (.panic, n + 1)
      else if b == 101 then (.ok (.dict ks.reverse vs.reverse start (pos+1), rest), 1)
      else (.err, 1)
end

/-- `Parser::decode` with its step count -/
def decodeC (inp : Bytes) : Res Tok × Nat :=
  match decodeAnyC (2 * inp.length + 2) inp 0 with
  | (.ok (t, []), n) => (.ok t, n + 1)
  | (.ok (_, _ :: _), n) => (.err, n + 1)
  | (.err, n) => (.err, n + 1)
  | (.panic, n) => (.panic, n + 1)

end TB.Cost
