/-
  TB.Spec.ExecSpec — what the executor must guarantee, and what is assumed of `balance`.
-/
import TB.Model.Exec
namespace TB.Exec

abbrev Bal := Nat → List (List Nat) → List (List Nat)

/-- all that is used of `balance(&mut guards[0..active])`: queues beyond `active` are untouched, the items of the
    first `active` queues are kept (as a multiset), and they are spread evenly: queue j gets ⌈(n - j) / active⌉ -/
def BalSpec (bal : Bal) : Prop :=
  ∀ active qs, 0 < active → active ≤ qs.length →
    (bal active qs).length = qs.length ∧
    (bal active qs).drop active = qs.drop active ∧
    List.Perm ((bal active qs).take active).flatten (qs.take active).flatten ∧
    ∀ j, j < active →
      ((bal active qs)[j]?.getD []).length =
        (qs.take active).flatten.length / active + (if j < (qs.take active).flatten.length % active then 1 else 0)

/-- states reachable from `s0` by steps of arbitrary workers in arbitrary order -/
inductive Reach (bal : Bal) (s0 : ExSt) : ExSt → Prop where
  | refl : Reach bal s0 s0
  | step {s s' : ExSt} (i : Nat) : Reach bal s0 s → step bal s i = some s' → Reach bal s0 s'

/-- items a worker holds in hand (popped but not yet handed to `solve`, or being solved) -/
def inHand (s : ExSt) : List Nat :=
  s.pcs.filterMap (fun pc => match pc with | .popped (some x) => some x | .solving x => some x | _ => none)

/-- number of workers taking part when `run` starts: every queue of the initial state belongs to one worker -/
def WellFormedInit (qs : List (List Nat)) : Prop := 0 < qs.length

/-- `active_threads` as it will be once a pending deactivation has been applied -/
def effActive (s : ExSt) : Nat :=
  match s.pcs.find? (fun pc => match pc with | .release _ _ => true | .dec _ => true | _ => false) with
  | some (.release _ d) => s.active - d
  | some (.dec d) => s.active - d
  | _ => s.active

/-- rank of a worker's program counter in the termination measure -/
def rank (s : ExSt) (n : Nat) (i : Nat) (pc : Pc) : Nat :=
  let empt := (s.queues[i]?.getD []).isEmpty
  let heldByOther := match s.qlock[i]? with | some (some h) => h != i | _ => false
  let will := decide (i < effActive s) && empt
  let huge := 9 * (n + 1) + 60
  match pc with
  | .top => (if empt then 14 else if heldByOther then 12 else 5) + (if will then huge else 0)
  | .popped none => 13 + (if will then huge else 0)
  | .popped (some _) => 4 + (if will then huge else 0)
  | .solving _ => 3
  | .wantState => 11 + (if will then huge else 0)
  | .haveState => 10 + (if will then huge else 0)
  | .wantLocal => 9 + (if will then huge else 0)
  | .exiting => 9
  | .haveLocal => 8 + (if will then huge else 0)
  | .cont1 => 7
  | .cont2 => 6
  | .collect j => 8 * ((others i s.active).length - j) + 25 + n
  | .bal => 24 + n
  | .release j _ => 17 + (n - j)
  | .dec _ => 16
  | .unlockState => 15
  | .done => 0

/-- the termination measure: (unsolved items, queued items, active-and-empty queues, Σ ranks), ordered lexicographically -/
def measure (s : ExSt) : Nat × Nat × Nat × Nat :=
  let n := s.pcs.length
  let queued := s.queues.flatten.length
  let emptyActive := ((List.range n).filter (fun i => decide (i < effActive s) && (s.queues[i]?.getD []).isEmpty)).length
  let w := ((List.range n).map (fun i => rank s n i (s.pcs[i]?.getD .done))).sum
  (queued + (inHand s).length, queued, emptyActive, w)

/-- lexicographic order on the measure -/
def mlt (a b : Nat × Nat × Nat × Nat) : Prop :=
  a.1 < b.1 ∨ (a.1 = b.1 ∧ (a.2.1 < b.2.1 ∨ (a.2.1 = b.2.1 ∧ (a.2.2.1 < b.2.2.1 ∨ (a.2.2.1 = b.2.2.1 ∧ a.2.2.2 < b.2.2.2)))))

end TB.Exec
