/-
  TB.Spec.LayoutSpec — the piece layout as interval arithmetic (no cursor).
-/
import TB.Model.Pieces
namespace TB

/-- global offset of the first byte of file `i` -/
def base (files : List Nat) (i : Nat) : Nat := (files.take i).sum

/-- global byte addresses covered by a segment -/
def addr (files : List Nat) (s : Seg) : List Nat := List.range' (base files s.file + s.off) s.len

/-- the positive-length segments of piece `i`: non-empty intersections of
    [i·L, min((i+1)·L, total)) with each file's interval, in file order -/
def expectedSegsAux (lo hi : Nat) : List Nat → Nat → Nat → List Seg
  | [], _, _ => []
  | n :: rest, idx, b =>
    let a := max lo b
    let z := min hi (b + n)
    (if a < z then [⟨idx, a - b, z - a, n⟩] else []) ++ expectedSegsAux lo hi rest (idx + 1) (b + n)

def expectedSegs (L : Nat) (files : List Nat) (i : Nat) : List Seg :=
  expectedSegsAux (i * L) (min ((i + 1) * L) files.sum) files 0 0

def increasingFiles : List Seg → Bool
  | [] => true
  | [_] => true
  | a :: b :: rest => decide (a.file < b.file) && increasingFiles (b :: rest)

/-- checker of C06 for one piece of a multi-file layout -/
def checkPiece (L : Nat) (files : List Nat) (hashes : List Bytes) (i : Nat) (p : Piece) : Bool :=
  p.pos == i && some p.hash == hashes[i]? &&
  p.len == min L (files.sum - i * L) &&
  p.segs.filter (fun s => s.len > 0) == expectedSegs L files i &&
  p.segs.all (fun s => some s.flen == files[s.file]? && s.off + s.len ≤ s.flen && (s.len > 0 || s.flen == 0)) &&
  increasingFiles p.segs

def checkPiecesAux (L : Nat) (files : List Nat) (hashes : List Bytes) : Nat → List Piece → Bool
  | _, [] => true
  | i, p :: ps => checkPiece L files hashes i p && checkPiecesAux L files hashes (i + 1) ps

/-- checker of C06 for a whole layout (file lengths `files`; a single-file torrent is `[length]`) -/
def checkLayout (L : Nat) (files : List Nat) (hashes : List Bytes) (ps : List Piece) : Bool :=
  ps.length == hashes.length && checkPiecesAux L files hashes 0 ps

end TB
