/-
  TB.Spec.MetainfoSpec — what a well-formed metainfo document is and which fields it denotes,
  stated over bencoded *values* (dictionaries as key → value lookups; no spans, no scanning order).
  `specLoad H v = some T`  ⇔  `v` is well-formed and `T` holds its fields.
-/
import TB.Spec.BencodeSpec
import TB.Model.Torrent
namespace TB

def dictGet (kvs : List (Bytes × BVal)) (key : Bytes) : Option BVal :=
  match kvs.find? (fun kv => kv.1 == key) with
  | some kv => some kv.2
  | none => none

def BVal.asInt : BVal → Option Int | .int v => some v | _ => none
def BVal.asStr : BVal → Option Bytes | .str s => some s | _ => none
def BVal.asList : BVal → Option (List BVal) | .list l => some l | _ => none
def BVal.asDict : BVal → Option (List (Bytes × BVal)) | .dict d => some d | _ => none

/-- a key "is present as" a type iff it is present and its value has that type -/
def getInt (d : List (Bytes × BVal)) (k : Bytes) : Option Int := (dictGet d k).bind BVal.asInt
def getStr (d : List (Bytes × BVal)) (k : Bytes) : Option Bytes := (dictGet d k).bind BVal.asStr
def getList (d : List (Bytes × BVal)) (k : Bytes) : Option (List BVal) := (dictGet d k).bind BVal.asList
def getDict (d : List (Bytes × BVal)) (k : Bytes) : Option (List (Bytes × BVal)) := (dictGet d k).bind BVal.asDict

/-- all entries are UTF-8 strings -/
def specPath : List BVal → Option (List Bytes)
  | [] => some []
  | .str s :: rest => if utf8Valid s then (specPath rest).map (s :: ·) else none
  | _ :: _ => none

def specFile : BVal → Option FileRec
  | .dict d => do
    let length ← (getInt d kLength).bind toU64
    let items ← (getList d kPathUtf8).orElse (fun _ => getList d kPath)
    let path ← specPath items
    if path.isEmpty then none
    else if !path.all plainComponent then none
    else some ⟨length, path⟩
  | _ => none

def specFiles : List BVal → Option (List FileRec)
  | [] => some []
  | v :: rest => do
    let f ← specFile v
    let fs ← specFiles rest
    some (f :: fs)

/-- number of hashes = ⌈total / piece length⌉ (piece length 0 only with total 0) -/
def specPieceCount (total pieceLength nHashes : Nat) : Bool :=
  if pieceLength = 0 then total = 0 && nHashes = 0
  else decide (nHashes * pieceLength ≥ total ∧ (nHashes = 0 ∨ (nHashes - 1) * pieceLength < total))

def splitHashes : Nat → Bytes → List Bytes
  | 0, _ => []
  | n+1, bs => bs.take 20 :: splitHashes n (bs.drop 20)

def specInfo (d : List (Bytes × BVal)) : Option Info := do
  let name ← (getStr d kNameUtf8).orElse (fun _ => getStr d kName)
  if !utf8Valid name then none
  else if !plainComponent name then none
  else
  let pieces ← getStr d kPieces
  if pieces.length % 20 ≠ 0 then none else
  let hashes := splitHashes (pieces.length / 20) pieces
  let pieceLength ← (getInt d kPieceLength).bind toU64
  match getInt d kLength, getList d kFiles with
  | some lv, none => do
    let l ← toU64 lv
    if specPieceCount l pieceLength hashes.length then some ⟨name, some l, none, pieceLength, hashes⟩ else none
  | none, some items => do
    let fs ← specFiles items
    if fs.isEmpty then none
    else if specPieceCount ((fs.map (·.length)).sum) pieceLength hashes.length
    then some ⟨name, none, some fs, pieceLength, hashes⟩ else none
  | _, _ => none

/-- the torrent a root value denotes; the info-hash is the hash of the canonical encoding of the info value -/
def specLoad (H : Bytes → Bytes) : BVal → Option Torrent
  | .dict root =>
    match dictGet root kInfo with
    | some (.dict info) =>
      match specInfo info with
      | some i => some ⟨i, H (encode (.dict info))⟩
      | none => none
    | _ => none
  | _ => none

end TB
