/-
  TB.Spec.ExportSpec — vocabulary for the run-level properties: where export images live, what a sound
  operation is, when a piece verifies in a tree.
-/
import TB.Model.Run
namespace TB

/-- `a` is a (not necessarily proper) prefix of `b` -/
def Path.isPrefixOf (a b : Path) : Prop := ∃ rest, b = a ++ rest
def Path.isProperPrefixOf (a b : Path) : Prop := ∃ rest, rest ≠ [] ∧ b = a ++ rest

/-- offset of segment `k` inside the piece buffer: the lengths of all earlier segments, written or not -/
def segStart (segs : List WSeg) (k : Nat) : Nat := ((segs.take k).map (·.len)).sum

/-- the operations a step appended to the log -/
def newOps (st st' : St) : List Op := st'.ops.drop st.ops.length

/-- C01 for one write operation of the evaluation of work item `w`: it targets a non-padding segment's export
    image at that segment's file offset and carries exactly that segment's slice of a buffer whose hash is the
    piece hash -/
def WriteSound (H : Bytes → Bytes) (w : Work) (o : Op) : Prop :=
  ∀ off data, o.kind = .write off data →
    ∃ k seg buf, w.segs[k]? = some seg ∧ seg.ent.isPad = false ∧ o.path = seg.ent.fullTarget ∧ off = seg.off
      ∧ H buf = w.hash ∧ segStart w.segs k + seg.len ≤ buf.length
      ∧ data = (buf.drop (segStart w.segs k)).take seg.len

/-- C12/C03 for one operation of the evaluation of `w`: a mutating operation names the export image of a
    non-padding segment of `w` (create_dir_all: its parent), and set_len uses the declared length -/
def MutationConfined (w : Work) (o : Op) : Prop :=
  o.kind.mutating = true →
    ∃ seg ∈ w.segs, seg.ent.isPad = false ∧
      (if o.kind = .mkdirs then o.path = seg.ent.fullTarget.dropLast else o.path = seg.ent.fullTarget) ∧
      (∀ n, o.kind = .setlen n → n = seg.ent.fileLength)

/-- the export image of torrent file number `idx` of `t` -/
def IsTargetOf (exportDir : Path) (t : Torrent) (e : TEntry) : Prop :=
  e.infoHash = t.infoHash ∧
  ((∃ l, t.info.files = none ∧ t.info.length = some l ∧ e.fileIndex = 0 ∧ e.fileLength = l ∧ e.isPad = false
      ∧ e.fullTarget = exportDir ++ [hex t.infoHash, sData, t.info.name])
   ∨ (∃ fs f, t.info.files = some fs ∧ fs[e.fileIndex]? = some f ∧ e.fileLength = f.length
      ∧ e.isPad = isPaddingPath f.path
      ∧ e.fullTarget = exportDir ++ [hex t.infoHash, sData, t.info.name] ++ f.path))

/-- bytes of segment `s` as found in tree `fs` at its export image; `none` if the read would not be full-length -/
def segBytesIn (fs : Fs) (s : WSeg) : Option Bytes :=
  if s.ent.isPad then some (List.replicate s.len 0)
  else match fs.look s.ent.fullTarget with
    | .file i => if s.off + s.len ≤ (fs.content i).length then some (fs.readAt i s.off s.len) else none
    | _ => none

/-- piece `w` verifies in the export tree `fs` -/
def VerE (H : Bytes → Bytes) (fs : Fs) (w : Work) : Prop :=
  ∃ parts, w.segs.mapM (segBytesIn fs) = some parts ∧ H parts.flatten = w.hash

end TB
