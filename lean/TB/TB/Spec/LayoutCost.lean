/-
  TB.Spec.LayoutCost — a step-counting copy of the layout model (TB.Model.Pieces).
  Every function returns, next to the result of the original, the number of elementary steps it took.
  What is one step (nothing else is counted, nothing is counted twice):

  inner loop `fill` (`while piece_counted_length < piece_length`), per iteration
    * 1 for the loop test `counted < L` (also paid by the last, failing test, and by an exhausted fuel);
    * 1 for the file visited (`files[file_index]`, paid also when the index is out of bounds = panic);
    * 1 for the arithmetic of the iteration (`remainder`, the new remaining length, the new counted length),
      paid only when the underflow test `cl < rem` passed;
    * 1 for the segment produced (`piece_files.push`);
    * 1 for the move to the next file when the current one is used up (the `break` test
      `fi + 1 = files.length` and the fetch of the next file's length).
    So: a failing test costs 1, an iteration that stays on its file 4, one that leaves its file 5,
    a panic on the index or on the subtraction 2.
  outer loop `multiLoop` (`for hash in &torrent.info.pieces`)
    * 1 for every iteration (and 1 for the final test on the exhausted hash list);
    * the cost of the `fill` it runs;
    * 1 per segment of the piece for `piece_length = Σ read_length` (the model's `(segs.map (·.len)).sum`);
    * 1 for the piece produced (`pieces.push`).
  `constructMulti` : 1 for `files.first()`, plus the loop.
  single-file loop `singleLoop`, per hash : 1 for the iteration, 1 for the arithmetic (`min`, new start, new
    remaining length), 1 for the segment, 1 for the piece; 1 for the final test. `constructSingle` adds nothing.
  `constructPieces` : 1 for the dispatch on `info.length` / `info.files`.

  The fuel of `fill` (`files.length + 2`) is an artefact of the model, not of the Rust code: computing it is free.
  `C09layoutcost` proves (1) the results are those of the original model, (2) the count is linear in
  (number of hashes + number of files), whatever the piece length and the file lengths are.
-/
import TB.Model.Pieces
namespace TB.LCost
open TB

/-- `fill` with its step count (see the header for what a step is) -/
def fillC (L : Nat) (files : List Nat) :
    Nat → Nat → Nat → Nat → List Seg → Option (List Seg × Nat × Nat) × Nat
  | 0, _, _, _, _ => (none, 1)
  | fuel+1, counted, fi, rem, acc =>
    if counted < L then
      match files[fi]? with
      | none => (none, 2)
      | some cl =>
        if cl < rem then (none, 2) else
        let remainder := L - counted
        let curRem := if rem ≥ remainder then rem - remainder else 0
        let counted' := if rem ≥ remainder then L else counted + rem
        let acc' := acc ++ [⟨fi, cl - rem, rem - curRem, cl⟩]
        if curRem = 0 then
          if fi + 1 = files.length then (some (acc', fi + 1, 0), 5)
          else match files[fi+1]? with
            | some l' => let r := fillC L files fuel counted' (fi+1) l' acc'; (r.1, r.2 + 5)
            | none => (none, 5)
        else let r := fillC L files fuel counted' fi curRem acc'; (r.1, r.2 + 4)
    else (some (acc, fi, rem), 1)

/-- `multiLoop` with its step count -/
def multiLoopC (L : Nat) (files : List Nat) : List Bytes → Nat → Nat → Nat → Option (List Piece) × Nat
  | [], _, _, _ => (some [], 1)
  | h :: hs, pos, fi, rem =>
    match fillC L files (files.length + 2) 0 fi rem [] with
    | (none, n) => (none, n + 1)
    | (some (segs, fi', rem'), n) =>
      match multiLoopC L files hs (pos+1) fi' rem' with
      | (none, m) => (none, m + n + segs.length + 2)
      | (some ps, m) => (some (⟨pos, segs, h, (segs.map (·.len)).sum⟩ :: ps), m + n + segs.length + 2)

/-- `constructMulti` with its step count -/
def constructMultiC (L : Nat) (files : List Nat) (hashes : List Bytes) : Option (List Piece) × Nat :=
  match files with
  | [] => (none, 1)
  | f0 :: _ => let r := multiLoopC L files hashes 0 0 f0; (r.1, r.2 + 1)

/-- `singleLoop` with its step count -/
def singleLoopC (L total : Nat) : List Bytes → Nat → Nat → Nat → List Piece × Nat
  | [], _, _, _ => ([], 1)
  | h :: hs, pos, start, rem =>
    let rl := if rem < L then rem else L
    let r := singleLoopC L total hs (pos+1) (start + rl) (rem - rl)
    (⟨pos, [⟨0, start, rl, total⟩], h, rl⟩ :: r.1, r.2 + 4)

/-- `constructSingle` with its step count -/
def constructSingleC (L total : Nat) (hashes : List Bytes) : List Piece × Nat :=
  singleLoopC L total hashes 0 0 total

/-- `Pieces::from_torrent` with its step count -/
def constructPiecesC (L : Nat) (length : Option Nat) (files : Option (List Nat)) (hashes : List Bytes) :
    Option (List Piece) × Nat :=
  match length with
  | some total => let r := constructSingleC L total hashes; (some r.1, r.2 + 1)
  | none =>
    match files with
    | some fs => let r := constructMultiC L fs hashes; (r.1, r.2 + 1)
    | none => (none, 1)

end TB.LCost
