/-
  TB.Spec.MetainfoLax — `specLoad` without the plain-file-name requirement.
  C10 lets the loader refuse documents whose name or path components are not plain file names, but does not
  oblige it to; the checker of C10 therefore accepts a loaded record iff it equals `specLoadLax`, and a
  refusal iff `specLoad` (strict) refuses. A record loaded although `specLoad` refuses it is reported under
  C03 (clause `c03-nonplain-loaded`), not under C10.
-/
import TB.Spec.MetainfoSpec
namespace TB

def specFileLax : BVal → Option FileRec
  | .dict d => do
    let length ← (getInt d kLength).bind toU64
    let items ← (getList d kPathUtf8).orElse (fun _ => getList d kPath)
    let path ← specPath items
    if path.isEmpty then none else some ⟨length, path⟩
  | _ => none

def specFilesLax : List BVal → Option (List FileRec)
  | [] => some []
  | v :: rest => do
    let f ← specFileLax v
    let fs ← specFilesLax rest
    some (f :: fs)

def specInfoLax (d : List (Bytes × BVal)) : Option Info := do
  let name ← (getStr d kNameUtf8).orElse (fun _ => getStr d kName)
  if !utf8Valid name then none else
  let pieces ← getStr d kPieces
  if pieces.length % 20 ≠ 0 then none else
  let hashes := splitHashes (pieces.length / 20) pieces
  let pieceLength ← (getInt d kPieceLength).bind toU64
  match getInt d kLength, getList d kFiles with
  | some lv, none => do
    let l ← toU64 lv
    if specPieceCount l pieceLength hashes.length then some ⟨name, some l, none, pieceLength, hashes⟩ else none
  | none, some items => do
    let fs ← specFilesLax items
    if fs.isEmpty then none
    else if specPieceCount ((fs.map (·.length)).sum) pieceLength hashes.length
    then some ⟨name, none, some fs, pieceLength, hashes⟩ else none
  | _, _ => none

def specLoadLax (H : Bytes → Bytes) : BVal → Option Torrent
  | .dict root =>
    match dictGet root kInfo with
    | some (.dict info) =>
      match specInfoLax info with
      | some i => some ⟨i, H (encode (.dict info))⟩
      | none => none
    | _ => none
  | _ => none

end TB
