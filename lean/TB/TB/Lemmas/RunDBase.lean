/-
  Helper lemmas about TB.Model.Run (RunD): one logged operation, file-system algebra.
-/
import TB.Spec.ExportSpec
namespace TB.RD
/-! ### one logged operation -/

theorem St.op_fault {st : St} (kind : OpKind) (path : Path) (natural : Fs → Fs × Bool)
    (h : st.faults.contains st.ops.length = true) :
    st.op kind path natural = ({ st with ops := st.ops ++ [⟨kind, path, false⟩] }, false) := by
  unfold St.op; rw [if_pos h]

theorem St.op_nofault {st : St} (kind : OpKind) (path : Path) (natural : Fs → Fs × Bool)
    (h : st.faults.contains st.ops.length = false) :
    st.op kind path natural =
      ({ st with fs := (natural st.fs).1, ops := st.ops ++ [⟨kind, path, (natural st.fs).2⟩] }, (natural st.fs).2) := by
  unfold St.op; rw [if_neg (by rw [h]; exact Bool.false_ne_true)]

theorem St.op_ops {st st1 : St} {ok : Bool} {k : OpKind} {p : Path} {n : Fs → Fs × Bool}
    (h : st.op k p n = (st1, ok)) : st1.ops = st.ops ++ [⟨k, p, ok⟩] := by
  cases hc : st.faults.contains st.ops.length
  · rw [St.op_nofault _ _ _ hc] at h; cases h; rfl
  · rw [St.op_fault _ _ _ hc] at h; cases h; rfl

/-- where the tree of the state after one operation comes from -/
theorem St.op_fs {st st1 : St} {ok : Bool} {k : OpKind} {p : Path} {n : Fs → Fs × Bool}
    (h : st.op k p n = (st1, ok)) : (st1.fs = st.fs ∧ ok = false) ∨ (st1.fs = (n st.fs).1 ∧ ok = (n st.fs).2) := by
  cases hc : st.faults.contains st.ops.length
  · rw [St.op_nofault _ _ _ hc] at h
    cases h
    exact Or.inr ⟨rfl, rfl⟩
  · rw [St.op_fault _ _ _ hc] at h
    cases h
    exact Or.inl ⟨rfl, rfl⟩

theorem St.op_fs_same {st st1 : St} {ok : Bool} {k : OpKind} {p : Path} {n : Fs → Fs × Bool}
    (h : st.op k p n = (st1, ok)) (hn : (n st.fs).1 = st.fs) : st1.fs = st.fs := by
  rcases St.op_fs h with ⟨h1, _⟩ | ⟨h1, _⟩
  · exact h1
  · rw [h1, hn]

/-! ### file-system algebra -/

theorem Fs.look_setData (fs : Fs) (i : Nat) (bs : Bytes) (p : Path) : (fs.setData i bs).look p = fs.look p := rfl
theorem Fs.look_setLen (fs : Fs) (i n : Nat) (p : Path) : (fs.setLen i n).look p = fs.look p := rfl
theorem Fs.look_writeAt (fs : Fs) (i off : Nat) (d : Bytes) (p : Path) : (fs.writeAt i off d).look p = fs.look p := rfl

theorem Fs.content_setData (fs : Fs) (i : Nat) (bs : Bytes) : (fs.setData i bs).content i = bs := by
  simp [Fs.content, Fs.setData]

theorem list_write_split {α} (c a b : List α) (off : Nat) (h : off ≤ c.length) :
    let c1 := c.take off ++ a ++ c.drop (off + a.length)
    off + a.length ≤ c1.length ∧
    c1.take (off + a.length) ++ b ++ c1.drop (off + a.length + b.length)
      = c.take off ++ (a ++ b) ++ c.drop (off + (a ++ b).length) := by
  intro c1
  have hl : (c.take off ++ a).length = off + a.length := by
    simp [List.length_take, Nat.min_eq_left h]
  refine ⟨?_, ?_⟩
  · simp only [c1, List.length_append, List.length_take, List.length_drop]; omega
  · have h1 : c1.take (off + a.length) = c.take off ++ a := List.take_left' hl
    have h2 : c1.drop (off + a.length + b.length) = c.drop (off + a.length + b.length) := by
      show ((c.take off ++ a) ++ c.drop (off + a.length)).drop (off + a.length + b.length) = _
      have e : off + a.length + b.length = (c.take off ++ a).length + b.length := by rw [hl]
      rw [e, List.drop_length_add_append, List.drop_drop, hl]
    rw [h1, h2]
    simp [List.append_assoc, Nat.add_assoc]

end TB.RD