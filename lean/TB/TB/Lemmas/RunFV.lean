/-
  Helper lemmas (RunFV): what the matchers hand to the writer, and the tree after the writer is done (C04a).
-/
import TB.Lemmas.RunFW
import TB.Lemmas.Run
namespace TB.RunF
open TB

/-! ### what a chosen candidate entry is -/

/-- `c` is an entry the matchers may choose for segment `seg` when the tree is `fs` -/
def Sel (fs : Fs) (seg : WSeg) (c : Option Path × Bytes) : Prop :=
  (seg.ent.isPad = true → c = (none, List.replicate seg.len 0)) ∧
  (seg.ent.isPad = false → seg.ent.searches = none → c = (none, [])) ∧
  (seg.ent.isPad = false → ∀ paths, seg.ent.searches = some paths →
     ∃ p ∈ paths, c.1 = some p ∧ ∀ i, fs.look p = .file i → c.2 = fs.readAt i seg.off seg.len)

def FromPath (fs : Fs) (seg : WSeg) (paths : List Path) (c : Option Path × Bytes) : Prop :=
  ∃ p ∈ paths, c.1 = some p ∧ ∀ i, fs.look p = .file i → c.2 = fs.readAt i seg.off seg.len

theorem preloadSeg_sound {seg : WSeg} {all : List Path} {fs : Fs} : ∀ (paths : List Path) (st st' : St)
    (acc r : List (Option Path × Bytes)), st.fs = fs → (∀ p ∈ paths, p ∈ all) →
    (∀ c ∈ acc, FromPath fs seg all c) → preloadSeg seg st paths acc = (st', .ok r) →
    ∀ c ∈ r, FromPath fs seg all c := by
  intro paths
  induction paths with
  | nil =>
    intro st st' acc r _ _ hacc h
    simp only [preloadSeg] at h
    obtain ⟨_, h2⟩ := Prod.mk.inj h
    cases h2
    exact hacc
  | cons q ps ih =>
    intro st st' acc r hfs hsub hacc h
    simp only [preloadSeg] at h
    split at h
    · cases h
    · rename_i st1 bytes hr
      have e := RC.readBytes_ext st q seg.len seg.off
      rw [hr] at e
      have hfs1 : st1.fs = fs := by rw [← hfs]; exact e.fs
      have hsub' : ∀ p ∈ ps, p ∈ all := fun p hp => hsub p (List.mem_cons_of_mem _ hp)
      split at h
      · exact ih st1 st' acc r hfs1 hsub' hacc h
      · refine ih st1 st' _ r hfs1 hsub' ?_ h
        intro c hc
        rcases List.mem_append.1 hc with hc | hc
        · exact hacc c hc
        · rw [List.mem_singleton] at hc
          subst hc
          refine ⟨q, hsub q List.mem_cons_self, rfl, ?_⟩
          intro i hi
          rw [← hfs] at hi
          rw [← hfs]
          exact RC.readBytes_eq hr hi

theorem preload_sound : ∀ (segs : List WSeg) (st st' : St) (loaded : List (List (Option Path × Bytes))),
    preload st segs = (st', .ok loaded) →
    segs.length = loaded.length ∧ ∀ x ∈ List.zip segs loaded, ∀ c ∈ x.2, Sel st.fs x.1 c := by
  intro segs
  induction segs with
  | nil =>
    intro st st' loaded h
    simp only [preload] at h
    obtain ⟨_, h2⟩ := Prod.mk.inj h
    cases h2
    exact ⟨rfl, fun x hx => by cases hx⟩
  | cons seg rest ih =>
    intro st st' loaded h
    simp only [preload] at h
    split at h
    · rename_i hpad
      split at h
      · rename_i st1 r hr
        obtain ⟨_, h2⟩ := Prod.mk.inj h
        cases h2
        obtain ⟨hl, hz⟩ := ih _ _ _ hr
        refine ⟨by simp [hl], ?_⟩
        intro x hx
        rw [List.zip_cons_cons, List.mem_cons] at hx
        rcases hx with rfl | hx
        · intro c hc
          rw [List.mem_singleton] at hc
          subst hc
          refine ⟨fun _ => rfl, ?_, ?_⟩ <;> (intro hp; rw [hpad] at hp; cases hp)
        · exact hz x hx
      · cases h
      · cases h
    · rename_i hpad
      have hpad : seg.ent.isPad = false := by simpa using hpad
      split at h
      · rename_i hs
        split at h
        · rename_i st1 r hr
          obtain ⟨_, h2⟩ := Prod.mk.inj h
          cases h2
          obtain ⟨hl, hz⟩ := ih _ _ _ hr
          refine ⟨by simp [hl], ?_⟩
          intro x hx
          rw [List.zip_cons_cons, List.mem_cons] at hx
          rcases hx with rfl | hx
          · intro c hc
            rw [List.mem_singleton] at hc
            subst hc
            refine ⟨?_, fun _ _ => rfl, ?_⟩
            · intro hp; rw [hpad] at hp; cases hp
            · intro _ paths hp; rw [hs] at hp; cases hp
          · exact hz x hx
        · cases h
        · cases h
      · rename_i paths hs
        split at h
        · rename_i st1 r h1
          have e1 := RC.preloadSeg_ext seg st paths []
          rw [h1] at e1
          split at h
          · rename_i st2 rs hr
            obtain ⟨_, h2⟩ := Prod.mk.inj h
            cases h2
            obtain ⟨hl, hz⟩ := ih _ _ _ hr
            rw [e1.fs] at hz
            refine ⟨by simp [hl], ?_⟩
            intro x hx
            rw [List.zip_cons_cons, List.mem_cons] at hx
            rcases hx with rfl | hx
            · intro c hc
              have := preloadSeg_sound (all := paths) paths st st1 [] r rfl (fun _ h => h)
                (fun c hc => by cases hc) h1 c hc
              refine ⟨?_, ?_, ?_⟩
              · intro hp; rw [hpad] at hp; cases hp
              · intro _ hp; rw [hs] at hp; cases hp
              intro _ paths' hp
              rw [hs] at hp; cases hp
              exact this
            · exact hz x hx
          · cases h
          · cases h
        · cases h
        · cases h

theorem searchProduct_picks {H : Bytes → Bytes} {hash : Bytes} : ∀ (loaded : List (List (Option Path × Bytes)))
    (chosen0 res : List (Option Path × Bytes)), searchProduct H hash loaded chosen0 = some res →
    ∃ picks, res = chosen0 ++ picks ∧ picks.length = loaded.length ∧ ∀ x ∈ List.zip picks loaded, x.1 ∈ x.2 := by
  intro loaded
  induction loaded with
  | nil =>
    intro chosen0 res h
    simp only [searchProduct] at h
    split at h
    · cases h
      exact ⟨[], by simp, rfl, fun x hx => by cases hx⟩
    · cases h
  | cons cands rest ih =>
    intro chosen0 res h
    simp only [searchProduct] at h
    obtain ⟨a, ha, hr⟩ := RB.firstM_some _ _ _ h
    obtain ⟨picks, hp1, hp2, hp3⟩ := ih _ _ hr
    refine ⟨a :: picks, by rw [hp1]; simp, by simp [hp2], ?_⟩
    intro x hx
    rw [List.zip_cons_cons, List.mem_cons] at hx
    rcases hx with rfl | hx
    · exact ha
    · exact hp3 x hx

theorem zip_compose {α γ : Type} {P : α → γ → Prop} : ∀ (a : List α) (b : List (List γ)) (c : List γ),
    a.length = b.length → c.length = b.length →
    (∀ x ∈ List.zip a b, ∀ y ∈ x.2, P x.1 y) → (∀ x ∈ List.zip c b, x.1 ∈ x.2) →
    ∀ z ∈ List.zip a c, P z.1 z.2 := by
  intro a
  induction a with
  | nil => intro b c _ _ _ _ z hz; cases hz
  | cons a0 a ih =>
    intro b c hab hcb h1 h2 z hz
    cases c with
    | nil => cases hz
    | cons c0 c =>
      cases b with
      | nil => cases hab
      | cons b0 b =>
        rw [List.zip_cons_cons, List.mem_cons] at hz
        rcases hz with rfl | hz
        · exact h1 (a0, b0) (by simp) c0 (h2 (c0, b0) (by simp))
        · exact ih b c (by simpa using hab) (by simpa using hcb)
            (fun x hx => h1 x (by rw [List.zip_cons_cons]; exact List.mem_cons_of_mem _ hx))
            (fun x hx => h2 x (by rw [List.zip_cons_cons]; exact List.mem_cons_of_mem _ hx)) z hz

/-! ### every chosen entry has exactly the length of its segment -/

theorem readAt_length_le (fs : Fs) (i off len : Nat) : (fs.readAt i off len).length ≤ len := by
  unfold Fs.readAt
  rw [List.length_take]
  exact Nat.min_le_left _ _

theorem flatMap_length_le : ∀ (segs : List WSeg) (chosen : List (Option Path × Bytes)),
    (∀ x ∈ List.zip segs chosen, x.2.2.length ≤ x.1.len) → segs.length = chosen.length →
    (chosen.flatMap (·.2)).length ≤ (segs.map (·.len)).sum := by
  intro segs
  induction segs with
  | nil =>
    intro chosen _ hl
    cases chosen with
    | nil => simp
    | cons _ _ => cases hl
  | cons s segs ih =>
    intro chosen h hl
    cases chosen with
    | nil => cases hl
    | cons c cs =>
      have h0 := h (s, c) (by simp)
      have := ih cs (fun x hx => h x (by rw [List.zip_cons_cons]; exact List.mem_cons_of_mem _ hx))
        (by simpa using hl)
      simp only [List.flatMap_cons, List.length_append, List.map_cons, List.sum_cons]
      simp only at h0
      omega

theorem lengths_exact : ∀ (segs : List WSeg) (chosen : List (Option Path × Bytes)),
    (∀ x ∈ List.zip segs chosen, x.2.2.length ≤ x.1.len) → segs.length = chosen.length →
    (chosen.flatMap (·.2)).length = (segs.map (·.len)).sum →
    ∀ x ∈ List.zip segs chosen, x.2.2.length = x.1.len := by
  intro segs
  induction segs with
  | nil => intro chosen _ _ _ x hx; cases hx
  | cons s segs ih =>
    intro chosen h hl hsum x hx
    cases chosen with
    | nil => cases hl
    | cons c cs =>
      have h0 := h (s, c) (by simp)
      have htl : ∀ x ∈ List.zip segs cs, x.2.2.length ≤ x.1.len :=
        fun x hx => h x (by rw [List.zip_cons_cons]; exact List.mem_cons_of_mem _ hx)
      have hl' : segs.length = cs.length := by simpa using hl
      have hle := flatMap_length_le segs cs htl hl'
      simp only [List.flatMap_cons, List.length_append, List.map_cons, List.sum_cons] at hsum
      simp only at h0
      rw [List.zip_cons_cons, List.mem_cons] at hx
      rcases hx with rfl | hx
      · simp only; omega
      · exact ih cs htl hl' (by omega) x hx

/-! ### the induction over the writer -/

/-- what the writer needs to know about the entry chosen for a segment, relative to the current tree -/
def Good (fs : Fs) (seg : WSeg) (c : Option Path × Bytes) : Prop :=
  c.2.length = seg.len ∧
  (seg.ent.isPad = true → c.2 = List.replicate seg.len 0) ∧
  (seg.ent.isPad = false → c.1 = some seg.ent.fullTarget →
     ∃ i, fs.look seg.ent.fullTarget = .file i ∧ seg.off + seg.len ≤ (fs.content i).length
       ∧ fs.readAt i seg.off seg.len = c.2)

/-- distinct export images -/
def DistR (fs : Fs) (s t : WSeg) : Prop :=
  s.ent.isPad = false → t.ent.isPad = false →
    s.ent.fullTarget ≠ t.ent.fullTarget ∧
    (∀ i j, fs.inoOf s.ent.fullTarget = some i → fs.inoOf t.ent.fullTarget = some j → i ≠ j)

theorem frame_file {T : Path → Prop} {fs fs' : Fs} (L : Loc T fs fs') (hwf : WF fs) {p : Path} {i : Nat}
    (hl : fs.look p = .file i) (hT : ∀ t, T t → fs.inoOf t ≠ some i) :
    fs'.look p = .file i ∧ fs'.content i = fs.content i :=
  ⟨L.look_pres hwf p i hl, L.content i (inoOf_lt hwf (look_file_inoOf hl)) hT⟩

theorem segBytesIn_of {fs : Fs} {s : WSeg} {i : Nat} {b : Bytes} (hpad : s.ent.isPad = false)
    (hl : fs.look s.ent.fullTarget = .file i) (hle : s.off + s.len ≤ (fs.content i).length)
    (hrd : fs.readAt i s.off s.len = b) : segBytesIn fs s = some b := by
  unfold segBytesIn
  rw [if_neg (by rw [hpad]; exact Bool.false_ne_true), hl]
  simp only
  rw [if_pos hle, hrd]

theorem readAt_congr {fs fs' : Fs} {i : Nat} (h : fs'.content i = fs.content i) (off len : Nat) :
    fs'.readAt i off len = fs.readAt i off len := by
  unfold Fs.readAt; rw [h]

theorem Good.transport {T : Path → Prop} {fs fs' : Fs} (L : Loc T fs fs') (hwf : WF fs) {s : WSeg}
    {c : Option Path × Bytes} (hg : Good fs s c)
    (hT : s.ent.isPad = false → ∀ i, fs.inoOf s.ent.fullTarget = some i → ∀ t, T t → fs.inoOf t ≠ some i) :
    Good fs' s c := by
  refine ⟨hg.1, hg.2.1, ?_⟩
  intro hpad hsrc
  obtain ⟨i, hl, hle, hrd⟩ := hg.2.2 hpad hsrc
  obtain ⟨hl', hc'⟩ := frame_file L hwf hl (hT hpad i (look_file_inoOf hl))
  exact ⟨i, hl', by rw [hc']; exact hle, by rw [readAt_congr hc']; exact hrd⟩

theorem writeOne_ne_found (st : St) (seg : WSeg) (buf : Bytes) (start : Nat) :
    (writeOne st seg buf start).2 ≠ some .found := by
  unfold writeOne
  simp -iota only
  split
  split; · simp
  split
  split; · simp
  split
  · split
    split; · simp
    split
    split; · simp
    split; · simp
    split
    split <;> simp
  · simp

theorem drop_add_of {buf : Bytes} {start : Nat} {a b : Bytes} (h : buf.drop start = a ++ b) :
    buf.drop (start + a.length) = b ∧ (buf.drop start).take a.length = a := by
  constructor
  · rw [← List.drop_drop, h, List.drop_left]
  · rw [h, List.take_left]

theorem writeSegs_verifies : ∀ (segs : List WSeg) (chosen : List (Option Path × Bytes)) (st st' : St)
    (buf : Bytes) (start : Nat),
    segs.length = chosen.length →
    (∀ x ∈ List.zip segs chosen, Good st.fs x.1 x.2) →
    WF st.fs → List.Pairwise (DistR st.fs) segs →
    (∀ s ∈ segs, s.off + s.len ≤ s.ent.fileLength) →
    buf.drop start = chosen.flatMap (·.2) →
    writeSegs st (List.zip segs (chosen.map (·.1))) buf start = (st', .found) →
    ∀ x ∈ List.zip segs chosen, segBytesIn st'.fs x.1 = some x.2.2 := by
  intro segs
  induction segs with
  | nil => intro chosen st st' buf start _ _ _ _ _ _ _ x hx; cases hx
  | cons seg rest ih =>
    intro chosen st st' buf start hlen hgood hwf hdist hrange hbuf hfound
    cases chosen with
    | nil => cases hlen
    | cons c cs =>
    have hlen' : rest.length = cs.length := by simpa using hlen
    have hg0 : Good st.fs seg c := hgood (seg, c) (by simp)
    have hgt : ∀ x ∈ List.zip rest cs, Good st.fs x.1 x.2 :=
      fun x hx => hgood x (by rw [List.zip_cons_cons]; exact List.mem_cons_of_mem _ hx)
    obtain ⟨hd0, hdt⟩ := List.pairwise_cons.1 hdist
    have hranget : ∀ s ∈ rest, s.off + s.len ≤ s.ent.fileLength := fun s hs => hrange s (List.mem_cons_of_mem _ hs)
    rw [List.flatMap_cons] at hbuf
    obtain ⟨hbuf', hdata⟩ := drop_add_of hbuf
    rw [hg0.1] at hbuf' hdata
    rw [List.map_cons, List.zip_cons_cons, writeSegs_cons] at hfound
    -- the export images of the later segments are other files than this segment's
    have hother : seg.ent.isPad = false → ∀ i, st.fs.inoOf seg.ent.fullTarget = some i →
        ∀ t, Tof (List.zip rest (cs.map (·.1))) t → t ≠ seg.ent.fullTarget ∧ st.fs.inoOf t ≠ some i := by
      intro hpad i hi t ⟨x, hx, hxpad, _, hxt⟩
      have hxr : x.1 ∈ rest := (List.of_mem_zip hx).1
      obtain ⟨d1, d2⟩ := hd0 x.1 hxr hpad hxpad
      subst hxt
      exact ⟨fun e => d1 e.symm, fun hj => d2 i i hi hj rfl⟩
    intro x hx
    rw [List.zip_cons_cons, List.mem_cons] at hx
    split at hfound
    · -- padding
      rename_i hpad
      rcases hx with rfl | hx
      · unfold segBytesIn
        simp only
        rw [if_pos hpad, hg0.2.1 hpad]
      · exact ih cs st st' buf _ hlen' hgt hwf hdt hranget hbuf' hfound x hx
    rename_i hpad
    have hpad : seg.ent.isPad = false := by simpa using hpad
    split at hfound
    · -- matched from its own export image: not written
      rename_i hsrc
      have hsrc : c.1 = some seg.ent.fullTarget := by simpa using hsrc
      rcases hx with rfl | hx
      · obtain ⟨i, hl, hle, hrd⟩ := hg0.2.2 hpad hsrc
        have L := writeSegs_loc (List.zip rest (cs.map (·.1))) st buf (start + seg.len)
        rw [hfound] at L
        obtain ⟨hl', hc'⟩ := frame_file L hwf hl (fun t ht => (hother hpad i (look_file_inoOf hl) t ht).2)
        exact segBytesIn_of hpad hl' (by rw [hc']; exact hle) (by rw [readAt_congr hc']; exact hrd)
      · exact ih cs st st' buf _ hlen' hgt hwf hdt hranget hbuf' hfound x hx
    -- written
    split at hfound
    · rename_i st5 hw1
      obtain ⟨_, i, hl5, hle5, hrd5⟩ := writeOne_ok hw1 (hrange seg List.mem_cons_self)
      rw [hdata] at hrd5
      have L1 : Loc (fun p => p = seg.ent.fullTarget) st.fs st5.fs := by
        have := writeOne_loc (T := fun p => p = seg.ent.fullTarget) st seg buf start rfl
        rw [hw1] at this; exact this
      have hwf5 : WF st5.fs := L1.wf hwf
      -- names of later segments keep their binding (or lack of one)
      have hino : ∀ s ∈ rest, s.ent.isPad = false → ∀ j, st5.fs.inoOf s.ent.fullTarget = some j →
          st.fs.inoOf s.ent.fullTarget = some j := by
        intro s hs hspad j hj
        rcases L1.ino_new _ _ hj with h | ⟨h, _⟩
        · exact h
        · exact absurd h.symm (hd0 s hs hpad hspad).1
      have hdt5 : List.Pairwise (DistR st5.fs) rest := by
        refine List.Pairwise.imp_of_mem ?_ hdt
        intro a b ha hb hab hapad hbpad
        obtain ⟨d1, d2⟩ := hab hapad hbpad
        exact ⟨d1, fun i j hi hj => d2 i j (hino a ha hapad i hi) (hino b hb hbpad j hj)⟩
      have hgt5 : ∀ x ∈ List.zip rest cs, Good st5.fs x.1 x.2 := by
        intro x hx
        refine (hgt x hx).transport L1 hwf ?_
        intro hxpad j hj t ht hj'
        subst ht
        exact (hd0 x.1 (List.of_mem_zip hx).1 hpad hxpad).2 j j hj' hj rfl
      rcases hx with rfl | hx
      · have L2 := writeSegs_loc (List.zip rest (cs.map (·.1))) st5 buf (start + seg.len)
        rw [hfound] at L2
        have hi5 := look_file_inoOf hl5
        obtain ⟨hl', hc'⟩ := frame_file L2 hwf5 hl5 (by
          intro t ht hj
          obtain ⟨x, hx, hxpad, _, hxt⟩ := ht
          subst hxt
          have hxr : x.1 ∈ rest := (List.of_mem_zip hx).1
          have hj0 := hino x.1 hxr hxpad i hj
          rcases L1.ino_new _ _ hi5 with h | ⟨_, h⟩
          · exact (hd0 x.1 hxr hpad hxpad).2 i i h hj0 rfl
          · have := inoOf_lt hwf hj0
            omega)
        exact segBytesIn_of hpad hl' (by rw [hc']; exact hle5) (by rw [readAt_congr hc']; exact hrd5)
      · exact ih cs st5 st' buf _ hlen' hgt5 hwf5 hdt5 hranget hbuf' hfound x hx
    · rename_i stx r hw1
      have := writeOne_ne_found st seg buf start
      rw [hw1] at this
      simp only [Prod.mk.injEq] at hfound
      rw [hfound.2] at this
      exact absurd rfl this

/-! ### assembling `VerE` -/

theorem mapM_of_zip {α β : Type} (f : α → Option β) : ∀ (l : List α) (ys : List β), l.length = ys.length →
    (∀ x ∈ List.zip l ys, f x.1 = some x.2) → l.mapM f = some ys := by
  intro l
  induction l with
  | nil =>
    intro ys hl _
    cases ys with
    | nil => rfl
    | cons _ _ => cases hl
  | cons a l ih =>
    intro ys hl h
    cases ys with
    | nil => cases hl
    | cons y ys =>
      have h0 := h (a, y) (by simp)
      have := ih ys (by simpa using hl) (fun x hx => h x (by rw [List.zip_cons_cons]; exact List.mem_cons_of_mem _ hx))
      rw [List.mapM_cons, h0, this]
      rfl

theorem sel_length_le {fs : Fs} {s : WSeg} {c : Option Path × Bytes} (hsel : Sel fs s c)
    (hfiles : ∀ paths, s.ent.searches = some paths → ∀ p ∈ paths, ∃ i, fs.look p = .file i) :
    c.2.length ≤ s.len := by
  cases hpad : s.ent.isPad with
  | true => rw [hsel.1 hpad]; simp
  | false =>
    cases hs : s.ent.searches with
    | none => rw [hsel.2.1 hpad hs]; simp
    | some paths =>
      obtain ⟨p, hp, _, hb⟩ := hsel.2.2 hpad paths hs
      obtain ⟨i, hi⟩ := hfiles paths hs p hp
      rw [hb i hi]
      exact readAt_length_le _ _ _ _

theorem sel_good {fs : Fs} {s : WSeg} {c : Option Path × Bytes} (hsel : Sel fs s c)
    (hfiles : ∀ paths, s.ent.searches = some paths → ∀ p ∈ paths, ∃ i, fs.look p = .file i)
    (hrange : s.off + s.len ≤ s.ent.fileLength) (hzero : s.len = 0 → s.ent.fileLength = 0)
    (hex : c.2.length = s.len) : Good fs s c := by
  refine ⟨hex, ?_, ?_⟩
  · intro hpad; rw [hsel.1 hpad]
  · intro hpad hsrc
    cases hs : s.ent.searches with
    | none => rw [hsel.2.1 hpad hs] at hsrc; cases hsrc
    | some paths =>
      obtain ⟨p, hp, hc1, hb⟩ := hsel.2.2 hpad paths hs
      rw [hc1] at hsrc
      cases hsrc
      obtain ⟨i, hi⟩ := hfiles paths hs _ hp
      have hbi := hb i hi
      refine ⟨i, hi, ?_, hbi.symm⟩
      by_cases h0 : s.len = 0
      · have := hzero h0; omega
      · rw [hbi] at hex
        unfold Fs.readAt at hex
        rw [List.length_take, List.length_drop] at hex
        omega

theorem verifies_of_chosen (H : Bytes → Bytes) (st1 st' : St) (w : Work) (chosen : List (Option Path × Bytes))
    (hwf : WF st1.fs) (hdist : List.Pairwise (DistR st1.fs) w.segs)
    (hrange : ∀ s ∈ w.segs, s.off + s.len ≤ s.ent.fileLength)
    (hlen : ∀ b, H b = w.hash → b.length = (w.segs.map (·.len)).sum)
    (hzero : ∀ s ∈ w.segs, s.len = 0 → s.ent.fileLength = 0)
    (hfiles : ∀ s ∈ w.segs, ∀ paths, s.ent.searches = some paths → ∀ p ∈ paths, ∃ i, st1.fs.look p = .file i)
    (hl : w.segs.length = chosen.length)
    (hsel : ∀ x ∈ List.zip w.segs chosen, Sel st1.fs x.1 x.2)
    (hH : H (chosen.flatMap (·.2)) = w.hash)
    (hw : writeSegs st1 (List.zip w.segs (chosen.map (·.1))) (chosen.flatMap (·.2)) 0 = (st', .found)) :
    VerE H st'.fs w := by
  have hmem : ∀ x ∈ List.zip w.segs chosen, x.1 ∈ w.segs := fun x hx => (List.of_mem_zip hx).1
  have hle : ∀ x ∈ List.zip w.segs chosen, x.2.2.length ≤ x.1.len :=
    fun x hx => sel_length_le (hsel x hx) (hfiles x.1 (hmem x hx))
  have hex := lengths_exact w.segs chosen hle hl (hlen _ hH)
  have hgood : ∀ x ∈ List.zip w.segs chosen, Good st1.fs x.1 x.2 :=
    fun x hx => sel_good (hsel x hx) (hfiles x.1 (hmem x hx)) (hrange x.1 (hmem x hx)) (hzero x.1 (hmem x hx))
      (hex x hx)
  have hv := writeSegs_verifies w.segs chosen st1 st' (chosen.flatMap (·.2)) 0 hl hgood hwf hdist hrange
    (by simp) hw
  refine ⟨chosen.map (·.2), mapM_of_zip _ _ _ (by simp [hl]) ?_, ?_⟩
  · intro y hy
    rw [List.zip_map_right, List.mem_map] at hy
    obtain ⟨x, hx, rfl⟩ := hy
    exact hv x hx
  · rw [← List.flatMap_def]; exact hH

/-! ### the single-segment scanner -/

theorem scanSingle_sound {H : Bytes → Bytes} {hash : Bytes} {seg : WSeg} : ∀ (paths : List Path) (st st1 : St)
    (src : Path) (bytes : Bytes), scanSingle H hash seg st paths = (st1, .ok (some (src, bytes))) →
    src ∈ paths ∧ ∀ i, st.fs.look src = .file i → bytes = st.fs.readAt i seg.off seg.len := by
  intro paths
  induction paths with
  | nil => intro st st1 src bytes h; simp [scanSingle] at h
  | cons q ps ih =>
    intro st st1 src bytes h
    simp only [scanSingle] at h
    split at h
    · cases h
    · rename_i st2 b hr
      have e := RC.readBytes_ext st q seg.len seg.off
      rw [hr] at e
      split at h
      · simp only [Prod.mk.injEq, Res.ok.injEq, Option.some.injEq] at h
        obtain ⟨_, rfl, rfl⟩ := h
        exact ⟨List.mem_cons_self, fun i hi => RC.readBytes_eq hr hi⟩
      · obtain ⟨h1, h2⟩ := ih _ _ _ _ h
        rw [e.fs] at h2
        exact ⟨List.mem_cons_of_mem _ h1, h2⟩

end TB.RunF
