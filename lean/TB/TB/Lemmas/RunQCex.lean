/-
  RunQCex: two small worlds for `TB.Props.C02chain`, `H` the identity.

  `Ex`  — non-vacuity of T1/T2: one single-file torrent (`n`, length 3, piece length 2, "hashes" `[1,2]` and `[3]`), the
          scan directory `s` holds `s/f = [1,2,3]`, the export directory `e` is empty. No faults, default order
          (last piece first). Both pieces are available in the scan-only file `s/f`; the run finds both and the image
          `e/ab/Data/n` ends up as `[1,2,3]`.
  `Cex` — T1 is false without `FsWF`: the same world, except that the name `s/f` is bound twice, first to inode 0 with
          content `[9,9,9]`, then to inode 1 with content `[1,2,3]`. The data of both pieces is present in a regular
          file `(s/f, 1)` of the right length below the scan directory whose inode is not that of an export image; but
          the index registers the last binding of the name and reads resolve the first: both pieces are reported
          `notFound`.
  `Dir` — T2 is false without its residual condition (`hnofault`): the world `Ex`, except that the export image
          `e/ab/Data/n` exists as a DIRECTORY. Every other hypothesis of T2 holds; both pieces are matched from `s/f`,
          the create-open of the image fails (EISDIR), both pieces end in `.fault` and nothing verifies.
  `Resume` — non-vacuity of T3: the world `Ex` with a fault point at operation 9 (the seek before the write of the
          piece evaluated first: that piece ends in `.fault`, its image is left as three zeros), interrupted after 12
          logged operations (while the other piece is being read). The second run finds both pieces.
-/
import TB.Lemmas.RunQ
namespace TB.RunQ.Ex
open TB TB.RB

def ih : Bytes := [0xAB]
def nm : Bytes := [110]
def eDir : Path := [[101]]
def sDir : Path := [[115]]
def root : Path := eDir ++ [hex ih, sData]
def img : Path := root ++ [nm]
def sf : Path := sDir ++ [[102]]

def tor : Torrent := ⟨⟨nm, some 3, none, 2, [[1, 2], [3]]⟩, ih⟩

def fs0 : Fs :=
  { files := [(sf, 0)], dirs := [eDir, sDir], data := [(0, [1, 2, 3])], next := 1 }

def inp : RunIn :=
  { fs := fs0, torrents := [tor], scan := [⟨true, sDir⟩], exportDir := ⟨true, eDir⟩, resize := false,
    searchObs := [], order := [], faults := [] }

def e0 : TEntry := ⟨0, ih, 0, 3, img, [nm], false, some [sf]⟩
def w0 : Work := ⟨[⟨2, 0, e0⟩], [1, 2]⟩
def w1 : Work := ⟨[⟨1, 2, e0⟩], [3]⟩

theorem run_table : (run id inp).table = [e0] := by decide +kernel
theorem run_work : (run id inp).work = [w0, w1] := by decide +kernel
theorem run_data : (run id inp).fs.data = [(1, [1, 2, 3]), (0, [1, 2, 3])] := by decide +kernel
theorem run_counters : (run id inp).counters = [⟨1, 0, 0⟩, ⟨2, 0, 0⟩] := by decide +kernel
theorem ord : evalOrder (run id inp).work inp.order = [w1] ++ w0 :: [] := by decide +kernel

theorem wf : FsWF inp.fs := by
  refine ⟨?_, ?_, ?_, ?_⟩
  · have : ∀ e ∈ fs0.files, e.2 < fs0.next := by decide +kernel
    exact fun p i h => this (p, i) h
  · show (fs0.files.map (·.1)).Nodup
    decide +kernel
  · have : ∀ e ∈ fs0.files, fs0.isDir e.1 = false := by decide +kernel
    exact fun p i h => this (p, i) h
  · have : ∀ e ∈ fs0.files, ∀ q ∈ Fs.properPrefixes e.1, fs0.isDir q = true := by decide +kernel
    exact fun p i h => this (p, i) h

/-- availability (whatever the tree and the table, as long as `(sf, 0)` is a file of length 3 and no image has inode 0)
    of a one-segment piece whose segment is read from `(sf, 0)` -/
theorem avail_gen (fs : Fs) (hmem : (sf, 0) ∈ fs.files) (hl3 : (fs.content 0).length = 3)
    (table : List TEntry) (htab : ∀ e ∈ table, e.isPad = false → fs.inoOf e.fullTarget ≠ some 0)
    (seg : WSeg) (hash : Bytes) (hpad : seg.ent.isPad = false)
    (hlen : seg.ent.fileLength = 3) (hh : fs.readAt 0 seg.off seg.len = hash) :
    Avail id fs inp.scan table ⟨[seg], hash⟩ := by
  refine ⟨[fs.readAt 0 seg.off seg.len], rfl, by simpa using hh, ?_⟩
  intro k s part hk hpk
  cases k with
  | succ k => simp at hk
  | zero =>
    simp only [List.getElem?_cons_zero, Option.some.injEq] at hk hpk
    subst hk; subst hpk
    refine ⟨fun h => (by rw [hpad] at h; cases h), fun _ h0 => (by rw [h0]; exact RC.readAt_zero _ _ _), fun _ _ => ?_⟩
    exact ⟨sf, 0, ⟨true, sDir⟩, hmem, by decide +kernel, by decide +kernel, by rw [hlen]; exact hl3, htab, rfl⟩

theorem avail_of (seg : WSeg) (hash : Bytes) (hpad : seg.ent.isPad = false)
    (hlen : seg.ent.fileLength = 3) (hh : fs0.readAt 0 seg.off seg.len = hash) :
    Avail id inp.fs inp.scan (run id inp).table ⟨[seg], hash⟩ :=
  avail_gen fs0 (by decide +kernel) (by decide +kernel) _ (by rw [run_table]; decide +kernel) seg hash hpad hlen hh

theorem avail0 : Avail id inp.fs inp.scan (run id inp).table w0 := avail_of _ _ rfl rfl (by decide +kernel)
theorem avail1 : Avail id inp.fs inp.scan (run id inp).table w1 := avail_of _ _ rfl rfl (by decide +kernel)

theorem noAlias : RunJ.NoAl inp.fs (run id inp).table := by
  rw [run_table]
  have key : ∀ e ∈ [e0], ∀ f ∈ fs0.files, ∀ g ∈ fs0.files, f.1 = e.fullTarget → g.2 = f.2 → g.1 = e.fullTarget := by
    decide +kernel
  intro e he _ q i h1 h2
  exact key e he _ (RunF.inoOf_mem h1) _ (RunF.inoOf_mem h2) rfl rfl

theorem sameLen : RunJ.SameLen (run id inp).table := by
  rw [run_table]
  have key : ∀ e ∈ [e0], ∀ f ∈ [e0], e.isPad = false → f.isPad = false → e.fullTarget = f.fullTarget →
      e.fileLength = f.fileLength := by decide +kernel
  exact key

theorem disj_gen (a0 a1 : Work) (h0 : a0.segs.length = 1) (h1 : a1.segs.length = 1)
    (hd : ∀ s ∈ a0.segs, ∀ t ∈ a1.segs, s.off + s.len ≤ t.off ∨ t.off + t.len ≤ s.off) :
    RunK.Disj [a0, a1] := by
  constructor
  · intro a b w v ha hb hab s hs t ht _ _ _
    match a, b with
    | 0, 0 => exact absurd rfl hab
    | 0, 1 =>
      simp only [List.getElem?_cons_zero, List.getElem?_cons_succ, Option.some.injEq] at ha hb
      subst ha; subst hb
      exact hd s hs t ht
    | 1, 0 =>
      simp only [List.getElem?_cons_zero, List.getElem?_cons_succ, Option.some.injEq] at ha hb
      subst ha; subst hb
      rcases hd t ht s hs with h | h
      · exact Or.inr h
      · exact Or.inl h
    | 1, 1 => exact absurd rfl hab
    | a + 2, _ => simp at ha
    | _, b + 2 => simp at hb
  · intro w hw a b s t ha hb hab _ _
    have hl : w.segs.length = 1 := by
      rcases List.mem_cons.1 hw with rfl | hw
      · exact h0
      · rcases List.mem_cons.1 hw with rfl | hw
        · exact h1
        · cases hw
    have la := (List.getElem?_eq_some_iff.1 ha).1
    have lb := (List.getElem?_eq_some_iff.1 hb).1
    omega

theorem disj : RunK.Disj (run id inp).work := by
  rw [run_work]
  exact disj_gen w0 w1 rfl rfl (by decide +kernel)

theorem hinj : RunK.HInj id (run id inp).work := by
  intro w _ b b' h1 h2
  exact (show b = w.hash from h1).trans (show b' = w.hash from h2).symm

theorem range0 : SegsInRange w0 := by
  have : ∀ s ∈ w0.segs, s.off + s.len ≤ s.ent.fileLength := by decide +kernel
  exact this
theorem range1 : SegsInRange w1 := by
  have : ∀ s ∈ w1.segs, s.off + s.len ≤ s.ent.fileLength := by decide +kernel
  exact this
theorem zero0 : ∀ s ∈ w0.segs, s.len = 0 → s.ent.fileLength = 0 := by decide +kernel
theorem zero1 : ∀ s ∈ w1.segs, s.len = 0 → s.ent.fileLength = 0 := by decide +kernel
theorem nopanic : (run id inp).result ≠ .panic := by decide +kernel
theorem nofault0 : (solvePiece id (solveAll id (runSt3 inp) [w1] ⟨0, 0, 0⟩ []).1 w0).2 ≠ .fault := by decide +kernel

end TB.RunQ.Ex

namespace TB.RunQ.Cex
open TB TB.RB TB.RunQ.Ex

def fs1 : Fs :=
  { files := [(sf, 0), (sf, 1)], dirs := [eDir, sDir], data := [(0, [9, 9, 9]), (1, [1, 2, 3])], next := 2 }

def inp : RunIn := { Ex.inp with fs := fs1 }

theorem run_table : (run id inp).table = [e0] := by decide +kernel
theorem run_work : (run id inp).work = [w0, w1] := by decide +kernel
theorem run_counters : (run id inp).counters = [⟨0, 1, 0⟩, ⟨0, 2, 0⟩] := by decide +kernel
theorem ord : evalOrder (run id inp).work inp.order = [w1] ++ w0 :: [] := by decide +kernel

/-- what fails of `FsWF`: the name `s/f` is bound twice -/
theorem not_wf : ¬ FsWF inp.fs := by
  intro h
  exact absurd h.2.1 (by decide +kernel)

theorem avail0 : Avail id inp.fs inp.scan (run id inp).table w0 := by
  refine ⟨[[1, 2]], rfl, rfl, ?_⟩
  intro k s part hk hpk
  cases k with
  | succ k => simp [w0] at hk
  | zero =>
    simp only [w0, List.getElem?_cons_zero, Option.some.injEq] at hk hpk
    subst hk; subst hpk
    refine ⟨fun h => (by cases h), fun _ h0 => (by cases h0), fun _ _ => ?_⟩
    refine ⟨sf, 1, ⟨true, sDir⟩, by decide +kernel, by decide +kernel, by decide +kernel, by decide +kernel, ?_,
      by decide +kernel⟩
    rw [run_table]
    decide +kernel

theorem w0_notFound : (solvePiece id (solveAll id (runSt3 inp) [w1] ⟨0, 0, 0⟩ []).1 w0).2 = .notFound := by
  decide +kernel

end TB.RunQ.Cex

namespace TB.RunQ.Dir
open TB TB.RB TB.RunQ.Ex

def fsD : Fs := { fs0 with dirs := [eDir, sDir, eDir ++ [hex ih], root, img] }
def inp : RunIn := { Ex.inp with fs := fsD }

theorem run_table : (run id inp).table = [e0] := by decide +kernel
theorem run_work : (run id inp).work = [w0, w1] := by decide +kernel
theorem run_counters : (run id inp).counters = [⟨0, 0, 1⟩, ⟨0, 0, 2⟩] := by decide +kernel
theorem ord : evalOrder (run id inp).work inp.order = [w1] ++ w0 :: [] := by decide +kernel

theorem wf : FsWF inp.fs := by
  refine ⟨?_, ?_, ?_, ?_⟩
  · have : ∀ e ∈ fsD.files, e.2 < fsD.next := by decide +kernel
    exact fun p i h => this (p, i) h
  · show (fsD.files.map (·.1)).Nodup
    decide +kernel
  · have : ∀ e ∈ fsD.files, fsD.isDir e.1 = false := by decide +kernel
    exact fun p i h => this (p, i) h
  · have : ∀ e ∈ fsD.files, ∀ q ∈ Fs.properPrefixes e.1, fsD.isDir q = true := by decide +kernel
    exact fun p i h => this (p, i) h

theorem avail0 : Avail id inp.fs inp.scan (run id inp).table w0 :=
  avail_gen fsD (by decide +kernel) (by decide +kernel) _ (by rw [run_table]; decide +kernel) _ _ rfl rfl
    (by decide +kernel)

theorem noAlias : RunJ.NoAl inp.fs (run id inp).table := by
  rw [run_table]
  have key : ∀ e ∈ [e0], ∀ f ∈ fsD.files, ∀ g ∈ fsD.files, f.1 = e.fullTarget → g.2 = f.2 → g.1 = e.fullTarget := by
    decide +kernel
  intro e he _ q i h1 h2
  exact key e he _ (RunF.inoOf_mem h1) _ (RunF.inoOf_mem h2) rfl rfl

theorem sameLen : RunJ.SameLen (run id inp).table := by
  rw [run_table]
  have key : ∀ e ∈ [e0], ∀ f ∈ [e0], e.isPad = false → f.isPad = false → e.fullTarget = f.fullTarget →
      e.fileLength = f.fileLength := by decide +kernel
  exact key

theorem disj : RunK.Disj (run id inp).work := by
  rw [run_work]
  exact disj_gen w0 w1 rfl rfl (by decide +kernel)

theorem hinj : RunK.HInj id (run id inp).work := by
  intro w _ b b' h1 h2
  exact (show b = w.hash from h1).trans (show b' = w.hash from h2).symm

theorem nopanic : (run id inp).result ≠ .panic := by decide +kernel

/-- the residual condition fails: the create-open of the image meets a directory -/
theorem w0_fault : (solvePiece id (solveAll id (runSt3 inp) [w1] ⟨0, 0, 0⟩ []).1 w0).2 = .fault := by decide +kernel

theorem w0_not_ver : ¬ VerE id (run id inp).fs w0 := by
  rintro ⟨ps, h1, _⟩
  have : w0.segs.mapM (segBytesIn (run id inp).fs) = none := by decide +kernel
  rw [this] at h1
  cases h1

end TB.RunQ.Dir

namespace TB.RunQ.Resume
open TB TB.RB TB.RunQ.Ex

/-- the first run: a fault point at operation 9 -/
def inpF : RunIn := { Ex.inp with faults := [9] }
/-- the second run, on the tree left after 12 logged operations of the first (`resumeIn id inpF 12 [] [] []`) -/
def inp2 : RunIn :=
  { inpF with fs := replay inpF.fs ((run id inpF).ops.take 12), faults := [], searchObs := [], order := [] }

def e00 : TEntry := ⟨0, ih, 0, 3, img, [nm], false, none⟩
def e0' : TEntry := ⟨0, ih, 0, 3, img, [nm], false, some [img, sf]⟩
def w0' : Work := ⟨[⟨2, 0, e0'⟩], [1, 2]⟩
def w1' : Work := ⟨[⟨1, 2, e0'⟩], [3]⟩

theorem first_counters : (run id inpF).counters = [⟨0, 0, 1⟩, ⟨1, 0, 1⟩] := by decide +kernel
theorem first_data_at_12 : inp2.fs.data = [(1, [0, 0, 0]), (0, [1, 2, 3])] := by decide +kernel
theorem table0 : runTable0 inpF = [e00] := by decide +kernel
theorem run_table : (run id inp2).table = [e0'] := by decide +kernel
theorem run_work : (run id inp2).work = [w0', w1'] := by decide +kernel
theorem run_counters : (run id inp2).counters = [⟨1, 0, 0⟩, ⟨2, 0, 0⟩] := by decide +kernel
theorem ord : evalOrder (run id inp2).work [] = [w1'] ++ w0' :: [] := by decide +kernel

theorem noAlias0 : RunJ.NoAl inpF.fs (runTable0 inpF) := by
  rw [table0]
  have key : ∀ e ∈ [e00], ∀ f ∈ fs0.files, ∀ g ∈ fs0.files, f.1 = e.fullTarget → g.2 = f.2 → g.1 = e.fullTarget := by
    decide +kernel
  intro e he _ q i h1 h2
  exact key e he _ (RunF.inoOf_mem h1) _ (RunF.inoOf_mem h2) rfl rfl

theorem avail0 : Avail id inpF.fs inpF.scan (runTable0 inpF) w0' :=
  avail_gen fs0 (by decide +kernel) (by decide +kernel) _ (by rw [table0]; decide +kernel) _ _ rfl rfl
    (by decide +kernel)

theorem sameLen : RunJ.SameLen (run id inp2).table := by
  rw [run_table]
  have key : ∀ e ∈ [e0'], ∀ f ∈ [e0'], e.isPad = false → f.isPad = false → e.fullTarget = f.fullTarget →
      e.fileLength = f.fileLength := by decide +kernel
  exact key

theorem disj : RunK.Disj (run id inp2).work := by
  rw [run_work]
  exact disj_gen w0' w1' rfl rfl (by decide +kernel)

theorem hinj : RunK.HInj id (run id inp2).work := by
  intro w _ b b' h1 h2
  exact (show b = w.hash from h1).trans (show b' = w.hash from h2).symm

theorem range0 : SegsInRange w0' := by
  have : ∀ s ∈ w0'.segs, s.off + s.len ≤ s.ent.fileLength := by decide +kernel
  exact this
theorem zero0 : ∀ s ∈ w0'.segs, s.len = 0 → s.ent.fileLength = 0 := by decide +kernel
theorem nopanic : (run id inp2).result ≠ .panic := by decide +kernel
theorem nofault0 : (solvePiece id (solveAll id (runSt3 inp2) [w1'] ⟨0, 0, 0⟩ []).1 w0').2 ≠ .fault := by
  decide +kernel

end TB.RunQ.Resume
