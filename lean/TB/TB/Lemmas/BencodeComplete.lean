/-
  Helper lemmas for C08, part 3: completeness of `decodeAny` / `decodeListLoop` / `decodeDictLoop`
  on encodings of canonical values, by induction on the fuel (fuel `2 * |encode v|` suffices).
-/
import TB.Lemmas.BencodeSound
namespace TB

/-! ### first bytes of encodings -/

theorem encodeInt_head (v : Int) : ∃ tl, encodeInt v = 105 :: tl := ⟨_, rfl⟩

theorem encodeStr_head (s : Bytes) : ∃ b tl, encodeStr s = b :: tl ∧ isDigit b = true := by
  obtain ⟨b, tl, e, hb⟩ := natDigits_head s.length
  exact ⟨b, tl ++ [58] ++ s, by simp [encodeStr, e], hb⟩

theorem isValueStart_of_digit {b : UInt8} (h : isDigit b = true) : isValueStart b = true := by
  simp [isValueStart, h]

theorem encode_head (v : BVal) : ∃ b tl, encode v = b :: tl ∧ isValueStart b = true := by
  cases v with
  | int v => exact ⟨105, _, rfl, by decide⟩
  | str s =>
    obtain ⟨b, tl, e, hb⟩ := encodeStr_head s
    exact ⟨b, tl, by simpa [encode] using e, isValueStart_of_digit hb⟩
  | list xs => exact ⟨108, encodeList xs ++ [101], by simp [encode], by decide⟩
  | dict kvs => exact ⟨100, encodeDict kvs ++ [101], by simp [encode], by decide⟩

theorem encode_length_pos (v : BVal) : 0 < (encode v).length := by
  obtain ⟨b, tl, e, _⟩ := encode_head v
  rw [e]; simp

theorem decodeStrTok_complete (s rest : Bytes) (pos : Nat) (hs : s.length ≤ usizeMax) :
    decodeStrTok (encodeStr s ++ rest) pos = .ok (⟨s, pos, pos + (encodeStr s).length⟩, rest) := by
  simp [decodeStrTok, decodeStr_complete s rest pos hs]

theorem keysAscending_lastKey_cons {ks : List StrTok} {k : Bytes} {l : List Bytes}
    (h : keysAscending (lastKey ks ++ k :: l) = true) :
    ordOk ks k = true ∧ keysAscending (k :: l) = true := by
  cases ks with
  | nil => simpa [lastKey, ordOk] using h
  | cons last _ => simpa [lastKey, ordOk, keysAscending] using h

/-! ### completeness statements, indexed by fuel -/

def CompAny (fuel : Nat) : Prop :=
  ∀ (v : BVal) (rest : Bytes) (pos : Nat), canon v = true → 2 * (encode v).length ≤ fuel →
    ∃ t, decodeAny fuel (encode v ++ rest) pos = .ok (t, rest) ∧ erase t = v
      ∧ t.cont = pos + (encode v).length

def CompList (fuel : Nat) : Prop :=
  ∀ (xs : List BVal) (rest : Bytes) (pos start : Nat) (acc : List Tok), canonList xs = true →
    2 * (encodeList xs).length + 1 ≤ fuel →
    ∃ items, decodeListLoop fuel (encodeList xs ++ 101 :: rest) pos start acc
        = .ok (.list (acc.reverse ++ items) start (pos + (encodeList xs).length + 1), rest)
      ∧ eraseList items = xs

def CompDict (fuel : Nat) : Prop :=
  ∀ (kvs : List (Bytes × BVal)) (rest : Bytes) (pos start : Nat) (ks : List StrTok) (vs : List Tok),
    canonDict kvs = true → keysAscending (lastKey ks ++ kvs.map (·.1)) = true →
    2 * (encodeDict kvs).length + 1 ≤ fuel →
    ∃ ks' vs', decodeDictLoop fuel (encodeDict kvs ++ 101 :: rest) pos start ks vs
        = .ok (.dict (ks.reverse ++ ks') (vs.reverse ++ vs') start (pos + (encodeDict kvs).length + 1), rest)
      ∧ ks'.length = vs'.length ∧ eraseDict ks' vs' = kvs

theorem comp_any_step (fuel : Nat) (hL : CompList fuel) (hD : CompDict fuel) : CompAny (fuel + 1) := by
  intro v rest pos hc hf
  cases v with
  | int v =>
    simp only [canon] at hc
    have hdec := decodeInt_complete v rest pos hc
    have h105 : isDigit 105 = false := by decide
    simp only [encode] at hdec ⊢
    obtain ⟨tl, e⟩ := encodeInt_head v
    rw [e] at hdec ⊢
    simp only [List.cons_append] at hdec ⊢
    refine ⟨.int v pos (pos + (105 :: tl).length), ?_, rfl, rfl⟩
    simp only [decodeAny, h105, Bool.false_eq_true, if_false, beq_self_eq_true, if_true, hdec]
  | str s =>
    simp only [canon, decide_eq_true_eq] at hc
    have hdec := decodeStrTok_complete s rest pos hc
    simp only [encode] at hdec ⊢
    obtain ⟨b, tl, e, hb⟩ := encodeStr_head s
    rw [e] at hdec ⊢
    simp only [List.cons_append] at hdec ⊢
    refine ⟨.str ⟨s, pos, pos + (b :: tl).length⟩, ?_, rfl, rfl⟩
    simp only [decodeAny, hb, if_true, hdec]
  | list xs =>
    simp only [canon] at hc
    have hlen : (encode (.list xs)).length = (encodeList xs).length + 2 := by simp [encode]
    obtain ⟨items, e1, e2⟩ := hL xs rest (pos + 1) pos [] hc (by omega)
    refine ⟨.list items pos (pos + 1 + (encodeList xs).length + 1), ?_, by simp [erase, e2],
      by simp [Tok.cont, hlen]; omega⟩
    have h1 : isDigit 108 = false := by decide
    have h2 : ((108 : UInt8) == 105) = false := by decide
    simp only [encode, List.cons_append, List.nil_append, List.append_assoc, decodeAny, h1, h2,
      Bool.false_eq_true, if_false, beq_self_eq_true, if_true]
    simpa using e1
  | dict kvs =>
    simp only [canon, Bool.and_eq_true] at hc
    have hlen : (encode (.dict kvs)).length = (encodeDict kvs).length + 2 := by simp [encode]
    obtain ⟨ks', vs', e1, e2, e3⟩ := hD kvs rest (pos + 1) pos [] [] hc.2 (by simpa [lastKey] using hc.1)
      (by omega)
    refine ⟨.dict ks' vs' pos (pos + 1 + (encodeDict kvs).length + 1), ?_, by simp [erase, e3],
      by simp [Tok.cont, hlen]; omega⟩
    have h1 : isDigit 100 = false := by decide
    have h2 : ((100 : UInt8) == 105) = false := by decide
    have h3 : ((100 : UInt8) == 108) = false := by decide
    simp only [encode, List.cons_append, List.nil_append, List.append_assoc, decodeAny, h1, h2, h3,
      Bool.false_eq_true, if_false, beq_self_eq_true, if_true]
    simpa using e1

theorem comp_list_step (fuel : Nat) (hA : CompAny fuel) (hL : CompList fuel) : CompList (fuel + 1) := by
  intro xs rest pos start acc hc hf
  cases xs with
  | nil =>
    have h1 : isValueStart 101 = false := by decide
    exact ⟨[], by simp [encodeList, decodeListLoop, h1], rfl⟩
  | cons x xs' =>
    simp only [canonList, Bool.and_eq_true] at hc
    simp only [encodeList, List.length_append] at hf
    have hpos := encode_length_pos x
    obtain ⟨t1, a1, a2, a3⟩ := hA x (encodeList xs' ++ 101 :: rest) pos hc.1 (by omega)
    obtain ⟨items, e1, e2⟩ := hL xs' rest t1.cont start (t1 :: acc) hc.2 (by omega)
    refine ⟨t1 :: items, ?_, by simp [eraseList, a2, e2]⟩
    obtain ⟨b, tl, eb, hb⟩ := encode_head x
    simp only [encodeList, List.append_assoc]
    rw [eb] at a1 ⊢
    simp only [List.cons_append] at a1 ⊢
    simp only [decodeListLoop, hb, if_true, a1, e1]
    simp [a3, eb]; omega

theorem comp_dict_step (fuel : Nat) (hA : CompAny fuel) (hD : CompDict fuel) : CompDict (fuel + 1) := by
  intro kvs rest pos start ks vs hc hk hf
  cases kvs with
  | nil =>
    have h1 : isDigit 101 = false := by decide
    exact ⟨[], [], by simp [encodeDict, decodeDictLoop, h1], rfl, rfl⟩
  | cons kv kvs' =>
    obtain ⟨k, v⟩ := kv
    simp only [canonDict, Bool.and_eq_true, decide_eq_true_eq] at hc
    obtain ⟨⟨hc1, hc2⟩, hc3⟩ := hc
    simp only [encodeDict, List.length_append] at hf
    have hpos := encode_length_pos v
    simp only [List.map_cons] at hk
    obtain ⟨ho, hk'⟩ := keysAscending_lastKey_cons hk
    have hdec := decodeStrTok_complete k (encode v ++ (encodeDict kvs' ++ 101 :: rest)) pos hc1
    obtain ⟨t1, a1, a2, a3⟩ := hA v (encodeDict kvs' ++ 101 :: rest) (pos + (encodeStr k).length) hc2
      (by omega)
    obtain ⟨ks', vs', e1, e2, e3⟩ := hD kvs' rest t1.cont start
      (⟨k, pos, pos + (encodeStr k).length⟩ :: ks) (t1 :: vs) hc3 (by simpa [lastKey] using hk') (by omega)
    refine ⟨⟨k, pos, pos + (encodeStr k).length⟩ :: ks', t1 :: vs', ?_, by simp [e2],
      by simp [eraseDict, a2, e3]⟩
    obtain ⟨b, tl, eb, hb⟩ := encodeStr_head k
    obtain ⟨b2, tl2, eb2, hb2⟩ := encode_head v
    simp only [encodeDict, List.append_assoc]
    rw [eb] at hdec a1 a3 e1 ⊢
    rw [eb2] at hdec a1 a3 ⊢
    simp only [List.cons_append] at hdec a1 ⊢
    simp only [decodeDictLoop, hb, if_true, hdec, ordMatch_eq, ho, hb2, a1, e1]
    simp [a3]; omega

theorem comp_all : ∀ fuel, CompAny fuel ∧ CompList fuel ∧ CompDict fuel := by
  intro fuel
  induction fuel with
  | zero =>
    refine ⟨?_, ?_, ?_⟩
    · intro v rest pos _ hf
      have := encode_length_pos v
      omega
    · intro xs rest pos start acc _ hf; omega
    · intro kvs rest pos start ks vs _ _ hf; omega
  | succ n ih =>
    obtain ⟨hA, hL, hD⟩ := ih
    exact ⟨comp_any_step n hL hD, comp_list_step n hA hL, comp_dict_step n hA hD⟩

theorem decodeAny_complete (v : BVal) (rest : Bytes) (pos fuel : Nat) (hc : canon v = true)
    (hf : 2 * (encode v).length ≤ fuel) :
    ∃ t, decodeAny fuel (encode v ++ rest) pos = .ok (t, rest) ∧ erase t = v
      ∧ t.cont = pos + (encode v).length :=
  (comp_all fuel).1 v rest pos hc hf

end TB
