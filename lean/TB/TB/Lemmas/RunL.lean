/-
  Helper lemmas (RunL): unconditional no-panic.
-/
import TB.Spec.ExportSpec
import TB.Lemmas.RunB
import TB.Lemmas.RunH
namespace TB.RunL

/-- the writer has no panic branch -/
theorem writeSegs_total (st : St) (pairs : List (WSeg × Option Path)) (buf : Bytes) (start : Nat) :
    (writeSegs st pairs buf start).2 ≠ .panic := by
  fun_induction writeSegs st pairs buf start <;> simp_all

end TB.RunL
