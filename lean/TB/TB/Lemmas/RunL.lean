/-
  Helper lemmas (RunL): unconditional no-panic.
-/
import TB.Spec.ExportSpec
namespace TB.RunL

end TB.RunL
