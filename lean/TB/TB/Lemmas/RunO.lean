/-
  Helper lemmas (RunO).
-/
import TB.Spec.ExportSpec
namespace TB.RunO

end TB.RunO
