/-
  Helper lemmas (RunO).
-/
import TB.Spec.ExportSpec
import TB.Lemmas.RunB
import TB.Props.C17
namespace TB.RunO
open TB.RB

/-- two lists with the same image under `f`, on which `f` is injective across the two lists, are equal -/
theorem map_eq_inj {α β : Type} (f : α → β) (l₁ l₂ : List α)
    (hmap : l₁.map f = l₂.map f)
    (hinj : ∀ a ∈ l₁, ∀ b ∈ l₂, f a = f b → a = b) : l₁ = l₂ := by
  induction l₁ generalizing l₂ with
  | nil =>
    cases l₂ with
    | nil => rfl
    | cons b l₂ => simp at hmap
  | cons a l₁ ih =>
    cases l₂ with
    | nil => simp at hmap
    | cons b l₂ =>
      simp only [List.map_cons, List.cons.injEq] at hmap
      have hab : a = b := hinj a List.mem_cons_self b List.mem_cons_self hmap.1
      have ht : l₁ = l₂ := ih l₂ hmap.2 (fun x hx y hy =>
        hinj x (List.mem_cons_of_mem _ hx) y (List.mem_cons_of_mem _ hy))
      rw [hab, ht]

theorem dedup_sort_eq (ts ts' : List Torrent)
    (hinj : ∀ t ∈ ts ++ ts', ∀ u ∈ ts ++ ts', t.infoHash = u.infoHash → t = u)
    (hmem : ∀ t, t ∈ ts ↔ t ∈ ts') :
    dedupTorrents (sortTorrents ts) = dedupTorrents (sortTorrents ts') := by
  apply map_eq_inj (·.infoHash)
  · apply C17_dedup_perm
    intro x
    simp only [List.mem_map]
    constructor
    · rintro ⟨t, ht, rfl⟩; exact ⟨t, (hmem t).1 ht, rfl⟩
    · rintro ⟨t, ht, rfl⟩; exact ⟨t, (hmem t).2 ht, rfl⟩
  · intro a ha b hb hab
    have ha' : a ∈ ts := (mem_sortTorrents ts a).1 (dedupTorrents_mem _ a ha)
    have hb' : b ∈ ts' := (mem_sortTorrents ts' b).1 (dedupTorrents_mem _ b hb)
    exact hinj a (List.mem_append_left _ ha') b (List.mem_append_right _ hb') hab

theorem isEmpty_eq_of_mem {α : Type} (l l' : List α) (hmem : ∀ t, t ∈ l ↔ t ∈ l') :
    l'.isEmpty = l.isEmpty := by
  cases l with
  | nil =>
    cases l' with
    | nil => rfl
    | cons b l' => exact absurd ((hmem b).2 List.mem_cons_self) (by simp)
  | cons a l =>
    cases l' with
    | nil => exact absurd ((hmem a).1 List.mem_cons_self) (by simp)
    | cons b l' => rfl

/-- `run` depends on the torrent list only through its emptiness and its sorted, de-duplicated form -/
theorem run_torrents_congr (H : Bytes → Bytes) (inp : RunIn) (ts' : List Torrent)
    (he : ts'.isEmpty = inp.torrents.isEmpty)
    (hd : dedupTorrents (sortTorrents ts') = dedupTorrents (sortTorrents inp.torrents)) :
    run H { inp with torrents := ts' } = run H inp := by
  unfold run
  simp only [he, hd]

end TB.RunO
