/-
  Helper lemmas (RunH): the metadata table is complete, the work list of loadable torrents can always be built,
  single-segment work items are non-empty, and the shape of `run` needed for "no panic at run level" (C16run).
-/
import TB.Spec.ExportSpec
import TB.Props.C06
import TB.Props.C10
import TB.Props.C16
import TB.Lemmas.RunARun
namespace TB.RunH

/-! ### the table is complete -/

theorem entriesOfFiles_complete (exportDir : Path) (t : Torrent) (fs : List FileRec) (idx id k : Nat)
    (hk : k < fs.length) :
    ∃ e ∈ entriesOfFiles exportDir t fs idx id, e.infoHash = t.infoHash ∧ e.fileIndex = idx + k := by
  induction fs generalizing idx id k with
  | nil => simp at hk
  | cons f fs ih =>
    simp only [entriesOfFiles]
    cases k with
    | zero => exact ⟨_, List.mem_cons_self, rfl, rfl⟩
    | succ k =>
      obtain ⟨e, he, h1, h2⟩ := ih (idx + 1) (id + 1) k (by simpa using hk)
      exact ⟨e, List.mem_cons_of_mem _ he, h1, by omega⟩

theorem buildTable_cons_suffix (exportDir : Path) (u : Torrent) (us : List Torrent) (id0 : Nat) :
    ∃ pre id', buildTable exportDir (u :: us) id0 = pre ++ buildTable exportDir us id' := by
  simp only [buildTable]
  split
  · exact ⟨_, _, rfl⟩
  · exact ⟨[_], _, rfl⟩
  · exact ⟨[], _, rfl⟩

theorem buildTable_complete (exportDir : Path) (ts : List Torrent) (id0 : Nat) (t : Torrent) (ht : t ∈ ts) :
    (∀ l, t.info.files = none → t.info.length = some l →
        ∃ e ∈ buildTable exportDir ts id0, e.infoHash = t.infoHash ∧ e.fileIndex = 0) ∧
    (∀ fs, t.info.files = some fs → ∀ k, k < fs.length →
        ∃ e ∈ buildTable exportDir ts id0, e.infoHash = t.infoHash ∧ e.fileIndex = k) := by
  induction ts generalizing id0 with
  | nil => cases ht
  | cons u us ih =>
    rcases List.mem_cons.1 ht with rfl | ht
    · constructor
      · intro l hf hl
        simp only [buildTable, hf, hl]
        exact ⟨_, List.mem_cons_self, rfl, rfl⟩
      · intro fs hf k hk
        simp only [buildTable, hf]
        obtain ⟨e, he, h1, h2⟩ := entriesOfFiles_complete exportDir t fs 0 id0 k hk
        exact ⟨e, List.mem_append_left _ he, h1, by simpa using h2⟩
    · obtain ⟨pre, id', hpre⟩ := buildTable_cons_suffix exportDir u us id0
      rw [hpre]
      obtain ⟨i1, i2⟩ := ih id' ht
      constructor
      · intro l hf hl
        obtain ⟨e, he, h⟩ := i1 l hf hl
        exact ⟨e, List.mem_append_right _ he, h⟩
      · intro fs hf k hk
        obtain ⟨e, he, h⟩ := i2 fs hf k hk
        exact ⟨e, List.mem_append_right _ he, h⟩

/-! ### lookups succeed -/

theorem lookupEntry_isSome (table : List TEntry) (ih : Bytes) (k : Nat)
    (h : ∃ e ∈ table, e.infoHash = ih ∧ e.fileIndex = k) : (lookupEntry table ih k).isSome = true := by
  obtain ⟨e, he, h1, h2⟩ := h
  unfold lookupEntry
  rw [List.find?_isSome]
  exact ⟨e, he, by simp [h1, h2]⟩

theorem populate_entry (c : Cache) (obs : List (Nat × List Path)) (es : List TEntry) (ih : Bytes) (k : Nat)
    (h : ∃ e ∈ es, e.infoHash = ih ∧ e.fileIndex = k) :
    ∃ e ∈ (populateSearches c obs es).1, e.infoHash = ih ∧ e.fileIndex = k := by
  obtain ⟨e, he, h1, h2⟩ := h
  obtain ⟨e', he', s, rfl⟩ := (populateSearches_rel c obs es).1 e he
  exact ⟨_, he', h1, h2⟩

theorem mapM_isSome {α β : Type} (f : α → Option β) (l : List α) (h : ∀ a ∈ l, (f a).isSome = true) :
    (l.mapM f).isSome = true := by
  induction l with
  | nil => simp
  | cons a l ih =>
    rw [List.mapM_cons]
    have ha := h a List.mem_cons_self
    have hl := ih (fun x hx => h x (List.mem_cons_of_mem _ hx))
    rcases hfa : f a with _ | b
    · simp [hfa] at ha
    · rcases hm : l.mapM f with _ | bs
      · simp [hm] at hl
      · simp

theorem mapM_singleton {α β : Type} (f : α → Option β) (l : List α) (b : β) (h : l.mapM f = some [b]) :
    ∃ a, l = [a] ∧ f a = some b := by
  cases l with
  | nil => simp at h
  | cons a l =>
    rw [List.mapM_cons] at h
    rcases hfa : f a with _ | b0
    · simp [hfa] at h
    · rcases hm : l.mapM f with _ | bs
      · simp [hfa, hm] at h
      · simp [hfa, hm] at h
        obtain ⟨rfl, rfl⟩ := h
        cases l with
        | nil => exact ⟨a, rfl, hfa⟩
        | cons a2 l2 =>
          exfalso
          rw [List.mapM_cons] at hm
          rcases hfa2 : f a2 with _ | b2
          · simp [hfa2] at hm
          · rcases hm2 : l2.mapM f with _ | bs2
            · simp [hfa2, hm2] at hm
            · simp [hfa2, hm2] at hm

/-! ### the layout of a loadable torrent -/

/-- what the layout of a loadable torrent satisfies: empty, or the C06 partition over the file-length list -/
def LayoutOk (t : Torrent) (ps : List Piece) : Prop :=
  ps = [] ∨ ∃ fl : List Nat, 0 < t.info.pieceLength
    ∧ t.info.pieces.length = (fl.sum + t.info.pieceLength - 1) / t.info.pieceLength
    ∧ ps.length = t.info.pieces.length
    ∧ (∀ i (hi : i < ps.length), PieceOk t.info.pieceLength fl t.info.pieces i ps[i])
    ∧ ((∃ l, t.info.files = none ∧ t.info.length = some l ∧ fl = [l])
       ∨ (∃ fs, t.info.files = some fs ∧ fl = fs.map (·.length)))

theorem layout_of_load (H : Bytes → Bytes) (doc : Bytes) (t : Torrent) (h : load H doc = .ok t) :
    ∃ ps, constructPieces t.info.pieceLength t.info.length (t.info.files.map (·.map (·.length))) t.info.pieces
        = some ps ∧ LayoutOk t ps := by
  obtain ⟨_, _, _, _, hc⟩ := C10_loaded_wf H doc t h
  rcases hc with ⟨l, hl, hf, _, hpc⟩ | ⟨fs, hl, hf, hne, _, hpc⟩
  · rw [hl, hf]
    simp only [constructPieces]
    unfold pieceCountOk at hpc
    by_cases h0 : t.info.pieceLength = 0
    · simp only [h0, if_true, Bool.and_eq_true, decide_eq_true_eq] at hpc
      have hnil : t.info.pieces = [] := List.eq_nil_of_length_eq_zero hpc.2
      refine ⟨_, rfl, .inl ?_⟩
      rw [hnil]; rfl
    · simp only [h0, if_false, decide_eq_true_eq] at hpc
      have hL := Nat.pos_of_ne_zero h0
      obtain ⟨hlen, hok⟩ := C06_partition_single _ l _ hL hpc
      exact ⟨_, rfl, .inr ⟨[l], hL, by simpa using hpc, hlen, hok, .inl ⟨l, hf, hl, rfl⟩⟩⟩
  · rw [hl, hf]
    simp only [Option.map_some, constructPieces]
    have hne' : fs.map (·.length) ≠ [] := by simpa using hne
    unfold pieceCountOk at hpc
    by_cases h0 : t.info.pieceLength = 0
    · simp only [h0, if_true, Bool.and_eq_true, decide_eq_true_eq] at hpc
      have hnil : t.info.pieces = [] := List.eq_nil_of_length_eq_zero hpc.2
      rw [hnil, h0]
      refine ⟨[], ?_, .inl rfl⟩
      have := C06_zero_piece_length none _ hne'
      simpa [constructPieces] using this
    · simp only [h0, if_false, decide_eq_true_eq] at hpc
      have hL := Nat.pos_of_ne_zero h0
      obtain ⟨ps, hps, hlen, hok⟩ := C06_partition_multi _ _ _ hL hne' hpc
      exact ⟨ps, hps, .inr ⟨_, hL, hpc, hlen, hok, .inr ⟨fs, hf, rfl⟩⟩⟩

theorem LayoutOk.file_lt {t : Torrent} {ps : List Piece} (h : LayoutOk t ps) :
    ∀ p ∈ ps, ∀ s ∈ p.segs,
      (∃ l, t.info.files = none ∧ t.info.length = some l ∧ s.file = 0)
      ∨ (∃ fs, t.info.files = some fs ∧ s.file < fs.length) := by
  intro p hp s hs
  rcases h with rfl | ⟨fl, _, _, _, hok, hfl⟩
  · cases hp
  · obtain ⟨i, hi, rfl⟩ := List.mem_iff_getElem.1 hp
    have hseg := ((hok i hi).2.2.2.2.1 s hs).1
    have hlt : s.file < fl.length := by
      by_cases hlt : s.file < fl.length
      · exact hlt
      · rw [List.getElem?_eq_none (by omega)] at hseg
        cases hseg
    rcases hfl with ⟨l, hf, hl, rfl⟩ | ⟨fs, hf, rfl⟩
    · exact .inl ⟨l, hf, hl, by simpa using hlt⟩
    · exact .inr ⟨fs, hf, by simpa using hlt⟩

theorem LayoutOk.single_pos {t : Torrent} {ps : List Piece} (h : LayoutOk t ps) :
    ∀ p ∈ ps, ∀ s, p.segs = [s] → s.len ≠ 0 := by
  intro p hp s hs
  rcases h with rfl | ⟨fl, hL, hcount, hlen, hok, _⟩
  · cases hp
  · obtain ⟨i, hi, rfl⟩ := List.mem_iff_getElem.1 hp
    have hflat := (hok i hi).1
    rw [hs] at hflat
    have hl := congrArg List.length hflat
    simp [addr] at hl
    have hi' : i + 1 ≤ (fl.sum + t.info.pieceLength - 1) / t.info.pieceLength := by omega
    rw [Nat.le_div_iff_mul_le hL, Nat.add_mul] at hi'
    omega

/-! ### the work list can be built -/

theorem workOfTorrent_isSome (H : Bytes → Bytes) (table : List TEntry) (t : Torrent)
    (hload : ∃ doc, load H doc = .ok t)
    (htab : (∀ l, t.info.files = none → t.info.length = some l →
                ∃ e ∈ table, e.infoHash = t.infoHash ∧ e.fileIndex = 0) ∧
            (∀ fs, t.info.files = some fs → ∀ k, k < fs.length →
                ∃ e ∈ table, e.infoHash = t.infoHash ∧ e.fileIndex = k)) :
    (workOfTorrent table t).isSome = true := by
  obtain ⟨doc, hdoc⟩ := hload
  obtain ⟨ps, hps, hlay⟩ := layout_of_load H doc t hdoc
  unfold workOfTorrent
  rw [hps]
  simp only
  apply mapM_isSome
  intro p hp
  unfold workOfPiece
  have hsegs : (p.segs.mapM (fun s => (lookupEntry table t.infoHash s.file).map
      (fun e => (⟨s.len, s.off, e⟩ : WSeg)))).isSome = true := by
    apply mapM_isSome
    intro s hs
    rw [Option.isSome_map]
    apply lookupEntry_isSome
    rcases hlay.file_lt p hp s hs with ⟨l, hf, hl, h0⟩ | ⟨fs, hf, hlt⟩
    · rw [h0]; exact htab.1 l hf hl
    · exact htab.2 fs hf _ hlt
  rcases hm : p.segs.mapM (fun s => (lookupEntry table t.infoHash s.file).map
      (fun e => (⟨s.len, s.off, e⟩ : WSeg))) with _ | segs
  · rw [hm] at hsegs; cases hsegs
  · rw [hm]; rfl

theorem convert_isSome (H : Bytes → Bytes) (exportDir : Path) (all ts : List Torrent) (c : Cache)
    (obs : List (Nat × List Path))
    (hsub : ∀ t ∈ ts, t ∈ all) (hload : ∀ t ∈ ts, ∃ doc, load H doc = .ok t) :
    (convertPiecesToWork (populateSearches c obs (buildTable exportDir all 0)).1 ts).isSome = true := by
  induction ts with
  | nil => rfl
  | cons t ts ih =>
    have h1 : (workOfTorrent (populateSearches c obs (buildTable exportDir all 0)).1 t).isSome = true := by
      apply workOfTorrent_isSome H _ t (hload t List.mem_cons_self)
      obtain ⟨b1, b2⟩ := buildTable_complete exportDir all 0 t (hsub t List.mem_cons_self)
      exact ⟨fun l hf hl => populate_entry _ _ _ _ _ (b1 l hf hl),
             fun fs hf k hk => populate_entry _ _ _ _ _ (b2 fs hf k hk)⟩
    have h2 := ih (fun x hx => hsub x (List.mem_cons_of_mem _ hx)) (fun x hx => hload x (List.mem_cons_of_mem _ hx))
    unfold convertPiecesToWork
    rcases ha : workOfTorrent (populateSearches c obs (buildTable exportDir all 0)).1 t with _ | a
    · rw [ha] at h1; cases h1
    · rcases hb : convertPiecesToWork (populateSearches c obs (buildTable exportDir all 0)).1 ts with _ | b
      · rw [hb] at h2; cases h2
      · rfl

/-! ### single-segment work items -/

theorem workOfTorrent_single (H : Bytes → Bytes) (table : List TEntry) (t : Torrent) (ws : List Work)
    (hload : ∃ doc, load H doc = .ok t) (hw : workOfTorrent table t = some ws) :
    ∀ w ∈ ws, ∀ s, w.segs = [s] → s.len ≠ 0 := by
  obtain ⟨doc, hdoc⟩ := hload
  obtain ⟨ps, hps, hlay⟩ := layout_of_load H doc t hdoc
  unfold workOfTorrent at hw
  rw [hps] at hw
  simp only at hw
  intro w hwm s hs
  obtain ⟨p, hp, hpw⟩ := mapM_option_mem hw w hwm
  unfold workOfPiece at hpw
  split at hpw
  · rename_i segs hm
    cases hpw
    simp only at hs
    subst hs
    obtain ⟨s0, hs0, hf⟩ := mapM_singleton _ _ _ hm
    have := hlay.single_pos p hp s0 hs0
    simp only [Option.map_eq_some_iff] at hf
    obtain ⟨e, _, rfl⟩ := hf
    exact this
  · cases hpw

theorem convert_mem {table : List TEntry} {ts : List Torrent} {ws : List Work}
    (h : convertPiecesToWork table ts = some ws) :
    ∀ w ∈ ws, ∃ t ∈ ts, ∃ wt, workOfTorrent table t = some wt ∧ w ∈ wt := by
  induction ts generalizing ws with
  | nil => simp [convertPiecesToWork] at h; subst h; intro w hw; cases hw
  | cons t ts ih =>
    unfold convertPiecesToWork at h
    split at h
    · rename_i a b ha hb
      cases h
      intro w hw
      rcases List.mem_append.1 hw with hw | hw
      · exact ⟨t, List.mem_cons_self, a, ha, hw⟩
      · obtain ⟨t', ht', r⟩ := ih hb w hw
        exact ⟨t', List.mem_cons_of_mem _ ht', r⟩
    · cases h

/-! ### evaluation -/

theorem solveAll_no_panic (H : Bytes → Bytes) (ws : List Work)
    (h : ∀ w ∈ ws, ∀ st, (solvePiece H st w).2 ≠ .panic) (st : St) (c : Counters) (acc : List Counters) :
    (solveAll H st ws c acc).2.2 = false := by
  induction ws generalizing st c acc with
  | nil => rfl
  | cons w ws ih =>
    rw [TB.RB.solveAll_cons, if_neg (h w List.mem_cons_self st)]
    exact ih (fun x hx => h x (List.mem_cons_of_mem _ hx)) _ _ _

/-- the four ways a run can end, with what the panic cases depend on -/
theorem run_cases (H : Bytes → Bytes) (inp : RunIn) :
    (run H inp).result = .ok () ∨ (run H inp).result = .err ∨
    (∃ c, convertPiecesToWork
        (populateSearches c inp.searchObs
          (buildTable inp.exportDir.path (dedupTorrents (sortTorrents inp.torrents)) 0)).1
        (dedupTorrents (sortTorrents inp.torrents)) = none) ∨
    (∃ c st ordered, convertPiecesToWork
        (populateSearches c inp.searchObs
          (buildTable inp.exportDir.path (dedupTorrents (sortTorrents inp.torrents)) 0)).1
        (dedupTorrents (sortTorrents inp.torrents)) = some (run H inp).work
      ∧ (∀ w ∈ ordered, w ∈ (run H inp).work)
      ∧ (run H inp).result = (if (solveAll H st ordered ⟨0, 0, 0⟩ []).2.2 then .panic else .ok ())) := by
  unfold run
  simp only []
  split
  · exact .inl rfl
  split
  · exact .inr (.inl rfl)
  · split
    · exact .inr (.inl rfl)
    · split
      · rename_i hnone
        exact .inr (.inr (.inl ⟨_, hnone⟩))
      · rename_i work hwork
        refine .inr (.inr (.inr ⟨_, _, (match reorder work inp.order with
                          | some o => (o, true)
                          | none => (defaultOrder work, inp.order.isEmpty)).fst, hwork, ?_, rfl⟩))
        cases hr : reorder work inp.order with
        | some o => exact reorder_mem hr
        | none => intro w hw; exact List.mem_reverse.1 hw

end TB.RunH
