/-
  Helper lemmas (RunH).
-/
import TB.Spec.ExportSpec
namespace TB.RunH

end TB.RunH
