/-
  Helper lemmas for C10 / C07 / C09 (loader).
-/
import TB.Model.Torrent
import TB.Spec.MetainfoSpec
import TB.Props.C08
namespace TB

end TB
