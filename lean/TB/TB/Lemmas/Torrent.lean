/-
  Helper lemmas for C10 / C07 / C09 (loader).
-/
import TB.Model.Torrent
import TB.Spec.MetainfoSpec
import TB.Props.C08
namespace TB

/-! ### lookups: model (`findValue` on token lists) vs spec (`dictGet` on the erased dictionary) -/

theorem dictGet_eraseDict (ks : List StrTok) (vs : List Tok) (key : Bytes) :
    dictGet (eraseDict ks vs) key = (findValue ks vs key).map erase := by
  induction ks generalizing vs with
  | nil => simp [eraseDict, findValue, dictGet]
  | cons k ks ih =>
    cases vs with
    | nil => simp [eraseDict, findValue, dictGet]
    | cons v vs =>
      have ih' := ih vs
      simp only [dictGet] at ih' ⊢
      simp only [eraseDict, findValue, List.find?_cons]
      by_cases hk : k.val = key
      · simp [hk]
      · have hb : (k.val == key) = false := by simpa using hk
        simp only [hb, if_neg hk]
        exact ih'

theorem getInt_eraseDict (ks : List StrTok) (vs : List Tok) (key : Bytes) :
    getInt (eraseDict ks vs) key = findInt ks vs key := by
  simp only [getInt, findInt, dictGet_eraseDict]
  cases h : findValue ks vs key with
  | none => rfl
  | some t => cases t <;> simp [erase, BVal.asInt]

theorem getStr_eraseDict (ks : List StrTok) (vs : List Tok) (key : Bytes) :
    getStr (eraseDict ks vs) key = findStr ks vs key := by
  simp only [getStr, findStr, dictGet_eraseDict]
  cases h : findValue ks vs key with
  | none => rfl
  | some t => cases t <;> simp [erase, BVal.asStr]

theorem getList_eraseDict (ks : List StrTok) (vs : List Tok) (key : Bytes) :
    getList (eraseDict ks vs) key = (findList ks vs key).map eraseList := by
  simp only [getList, findList, dictGet_eraseDict]
  cases h : findValue ks vs key with
  | none => rfl
  | some t => cases t <;> simp [erase, BVal.asList]

theorem findValue_mem {ks : List StrTok} {vs : List Tok} {key : Bytes} {t : Tok}
    (h : findValue ks vs key = some t) : t ∈ vs := by
  induction ks generalizing vs with
  | nil => simp [findValue] at h
  | cons k ks ih =>
    cases vs with
    | nil => simp [findValue] at h
    | cons v vs =>
      simp only [findValue] at h
      split at h
      · simp_all
      · exact List.mem_cons_of_mem _ (ih h)

/-! ### file records -/

/-- `some ↦ ok`, `none ↦ err`: the shape of every total, panic-free loader step -/
def resOfOption {α : Type} : Option α → Res α
  | some a => .ok a
  | none => .err

@[simp] theorem resOfOption_some {α : Type} (a : α) : resOfOption (some a) = .ok a := rfl
@[simp] theorem resOfOption_none {α : Type} : resOfOption (none : Option α) = .err := rfl

theorem resOfOption_eq_ok {α : Type} {o : Option α} {a : α} : resOfOption o = .ok a ↔ o = some a := by
  cases o <;> simp [resOfOption]

theorem resOfOption_ne_panic {α : Type} (o : Option α) : resOfOption o ≠ .panic := by
  cases o <;> simp [resOfOption]

theorem specPath_eraseList (items : List Tok) : specPath (eraseList items) = pathStrings items := by
  induction items with
  | nil => simp [eraseList, specPath, pathStrings]
  | cons t ts ih =>
    cases t with
    | str t =>
      simp only [eraseList, erase, specPath, pathStrings, ih]
      split
      · cases pathStrings ts <;> rfl
      · rfl
    | int v s c => simp [eraseList, erase, specPath, pathStrings]
    | list l s c => simp [eraseList, erase, specPath, pathStrings]
    | dict k v s c => simp [eraseList, erase, specPath, pathStrings]

theorem evaluateFile_eq (ks : List StrTok) (vs : List Tok) :
    evaluateFile ks vs = resOfOption (specFile (.dict (eraseDict ks vs))) := by
  simp only [evaluateFile, specFile, getInt_eraseDict, getList_eraseDict, Option.bind_eq_bind]
  cases h0 : findInt ks vs kLength with
  | none => simp
  | some lv =>
    cases h0' : toU64 lv with
    | none => simp [h0']
    | some len =>
      have key : ∀ items, (match pathStrings items with
            | none => Res.err
            | some ps =>
              if ps.isEmpty then Res.err
              else if !ps.all plainComponent then Res.err else Res.ok (⟨len, ps⟩ : FileRec))
          = resOfOption ((specPath (eraseList items)).bind fun path =>
              if path.isEmpty then none
              else if !path.all plainComponent then none else some (⟨len, path⟩ : FileRec)) := by
        intro items
        rw [specPath_eraseList]
        cases pathStrings items with
        | none => rfl
        | some ps =>
          simp only [Option.bind_some]
          by_cases h3 : ps.isEmpty = true
          · simp only [if_pos h3]; rfl
          · simp only [if_neg h3]
            by_cases h4 : (!ps.all plainComponent) = true
            · simp only [if_pos h4]; rfl
            · simp only [if_neg h4]; rfl
      cases h1 : findList ks vs kPathUtf8 with
      | none =>
        cases h2 : findList ks vs kPath with
        | none => simp [h0']
        | some items =>
          simp only [h0', Option.bind_some, Option.map_none, Option.map_some, Option.orElse_none]
          exact key items
      | some items =>
        simp only [h0', Option.bind_some, Option.map_some, Option.orElse_some]
        exact key items

theorem evaluateFiles_eq (items : List Tok) :
    evaluateFiles items = resOfOption (specFiles (eraseList items)) := by
  induction items with
  | nil => rfl
  | cons t ts ih =>
    cases t with
    | dict ks vs s c =>
      simp only [evaluateFiles, eraseList, erase, specFiles, evaluateFile_eq, ih, Option.bind_eq_bind]
      cases specFile (.dict (eraseDict ks vs)) with
      | none => rfl
      | some f =>
        cases specFiles (eraseList ts) with
        | none => rfl
        | some fs => rfl
    | str t => simp [evaluateFiles, eraseList, erase, specFiles, specFile]
    | int v s c => simp [evaluateFiles, eraseList, erase, specFiles, specFile]
    | list l s c => simp [evaluateFiles, eraseList, erase, specFiles, specFile]

/-! ### hashes and the piece count -/

theorem chunks20_eq_splitHashes (n : Nat) (bs : Bytes) (h : bs.length = 20 * n) :
    chunks20 (n + 1) bs = splitHashes n bs := by
  induction n generalizing bs with
  | zero =>
    have : bs = [] := List.eq_nil_of_length_eq_zero (by omega)
    subst this; rfl
  | succ n ih =>
    have hne : bs.isEmpty = false := by
      cases bs with
      | nil => simp at h
      | cons b bs => rfl
    rw [chunks20, splitHashes]
    simp only [hne]
    rw [ih]
    · rfl
    · simp only [List.length_drop]; omega

theorem splitHashes_length (n : Nat) (bs : Bytes) : (splitHashes n bs).length = n := by
  induction n generalizing bs with
  | zero => rfl
  | succ n ih => simp [splitHashes, ih]

theorem splitHashes_mem_length (n : Nat) (bs : Bytes) (h : bs.length = 20 * n) :
    ∀ x ∈ splitHashes n bs, x.length = 20 := by
  induction n generalizing bs with
  | zero => intro x hx; simp [splitHashes] at hx
  | succ n ih =>
    intro x hx
    simp only [splitHashes, List.mem_cons] at hx
    rcases hx with rfl | hx
    · simp only [List.length_take]; omega
    · exact ih (bs.drop 20) (by simp only [List.length_drop]; omega) x hx

theorem pieceCountOk_eq_spec (total L n : Nat) : pieceCountOk total L n = specPieceCount total L n := by
  unfold pieceCountOk specPieceCount
  by_cases hL : L = 0
  · simp [hL]
  · simp only [if_neg hL]
    have hLpos : 0 < L := Nat.pos_of_ne_zero hL
    rw [Bool.eq_iff_iff]
    simp only [decide_eq_true_eq]
    constructor
    · intro h
      obtain ⟨h1, h2⟩ := (Nat.div_eq_iff hLpos).1 h.symm
      refine ⟨by omega, ?_⟩
      cases n with
      | zero => left; rfl
      | succ m =>
        right
        rw [Nat.succ_mul] at h1
        simp only [Nat.add_sub_cancel]
        omega
    · rintro ⟨h1, h2⟩
      symm
      rw [Nat.div_eq_iff hLpos]
      refine ⟨?_, by omega⟩
      rcases h2 with h2 | h2
      · subst h2; simp
      · cases n with
        | zero => simp
        | succ m =>
          simp only [Nat.add_sub_cancel] at h2
          rw [Nat.succ_mul]
          omega

/-! ### `evaluate_info` is the specification, step for step -/

set_option hygiene false in
/-- the part of `evaluateInfo_eq` below the choice of the name (used twice) -/
local macro "info_rest" : tactic => `(tactic| (
    simp only [Option.orElse_some, Option.orElse_none, Option.bind_some]
    by_cases hu : (!utf8Valid name) = true
    · simp only [if_pos hu]; rfl
    simp only [if_neg hu]
    by_cases hpc : (!plainComponent name) = true
    · simp only [if_pos hpc]; rfl
    simp only [if_neg hpc]
    cases findStr ks vs kPieces with
    | none => rfl
    | some pieces =>
    simp only [Option.bind_some]
    by_cases hm : pieces.length % 20 = 0
    case neg =>
      have hm' : (pieces.length % 20 != 0) = true := by simpa using hm
      simp only [if_pos hm', if_pos hm]; rfl
    have hm' : ¬ (pieces.length % 20 != 0) = true := by simpa using hm
    have hm'' : ¬ (pieces.length % 20 ≠ 0) := by simpa using hm
    simp only [if_neg hm', if_neg hm'', chunks20_eq_splitHashes (pieces.length / 20) pieces (by omega),
      pieceCountOk_eq_spec]
    cases findInt ks vs kPieceLength with
    | none => rfl
    | some plv =>
    simp only [Option.bind_some]
    cases toU64 plv with
    | none => rfl
    | some pieceLength =>
    simp only [Option.bind_some]
    cases findInt ks vs kLength with
    | none =>
      cases findList ks vs kFiles with
      | none => rfl
      | some items =>
        simp only [Option.map_some, evaluateFiles_eq]
        cases specFiles (eraseList items) with
        | none => rfl
        | some fs =>
          simp only [Option.bind_some, resOfOption_some]
          by_cases he : fs.isEmpty = true
          · simp only [if_pos he]; rfl
          simp only [if_neg he]
          split <;> rfl
    | some lv =>
      cases findList ks vs kFiles with
      | some items => rfl
      | none =>
        simp only [Option.map_none]
        cases toU64 lv with
        | none => rfl
        | some l =>
          simp only [Option.bind_some]
          split <;> rfl))

theorem evaluateInfo_eq (ks : List StrTok) (vs : List Tok) :
    evaluateInfo ks vs = resOfOption (specInfo (eraseDict ks vs)) := by
  simp only [evaluateInfo, specInfo, getStr_eraseDict, getInt_eraseDict, getList_eraseDict, Option.bind_eq_bind]
  generalize findStr ks vs kNameUtf8 = o1
  generalize findStr ks vs kName = o2
  rcases o1 with _ | name
  · rcases o2 with _ | name
    · rfl
    · info_rest
  · info_rest


theorem evaluateInfo_ne_panic (ks : List StrTok) (vs : List Tok) : evaluateInfo ks vs ≠ .panic := by
  rw [evaluateInfo_eq]; exact resOfOption_ne_panic _

theorem evaluateInfo_ok_iff (ks : List StrTok) (vs : List Tok) (i : Info) :
    evaluateInfo ks vs = .ok i ↔ specInfo (eraseDict ks vs) = some i := by
  rw [evaluateInfo_eq]; exact resOfOption_eq_ok

/-! ### spans -/

theorem spansExactList_mem {inp : Bytes} {ts : List Tok} (h : spansExactList inp ts = true) :
    ∀ t ∈ ts, spansExact inp t = true := by
  induction ts with
  | nil => intro t ht; cases ht
  | cons a as ih =>
    simp only [spansExactList, Bool.and_eq_true] at h
    intro t ht
    rcases List.mem_cons.1 ht with rfl | ht
    · exact h.1
    · exact ih h.2 t ht

theorem spansExact_dict {inp : Bytes} {ks : List StrTok} {vs : List Tok} {s c : Nat}
    (h : spansExact inp (.dict ks vs s c) = true) :
    s ≤ c ∧ c ≤ inp.length ∧ ks.length = vs.length ∧ slice inp s c = encode (.dict (eraseDict ks vs))
      ∧ spansExactList inp vs = true := by
  simp only [spansExact, Bool.and_eq_true, decide_eq_true_eq, beq_iff_eq] at h
  obtain ⟨⟨⟨⟨⟨h1, h2⟩, h3⟩, h4⟩, _⟩, h6⟩ := h
  exact ⟨h1, h2, h3, h4, h6⟩

/-! ### what an accepted info dictionary satisfies -/

theorem toU64_le {v : Int} {n : Nat} (h : toU64 v = some n) : n ≤ u64Max := by
  unfold toU64 at h
  split at h
  · cases h; omega
  · cases h

theorem specPath_utf8 {items : List BVal} {ps : List Bytes} (h : specPath items = some ps) :
    ∀ c ∈ ps, utf8Valid c = true := by
  induction items generalizing ps with
  | nil => simp only [specPath] at h; cases h; intro c hc; cases hc
  | cons v rest ih =>
    cases v with
    | str s =>
      simp only [specPath] at h
      split at h
      · rename_i hu
        cases hr : specPath rest with
        | none => rw [hr] at h; cases h
        | some qs =>
          rw [hr] at h; cases h
          intro c hc
          rcases List.mem_cons.1 hc with rfl | hc
          · exact hu
          · exact ih hr c hc
      · cases h
    | int v => simp [specPath] at h
    | list l => simp [specPath] at h
    | dict d => simp [specPath] at h

theorem specFile_wf {v : BVal} {f : FileRec} (h : specFile v = some f) :
    f.length ≤ u64Max ∧ f.path ≠ [] ∧ ∀ c ∈ f.path, utf8Valid c = true ∧ plainComponent c = true := by
  cases v with
  | dict d =>
    simp only [specFile, Option.bind_eq_bind, Option.bind_eq_some_iff] at h
    obtain ⟨len, ⟨lv, _, hlen⟩, items, _, path, hpath, h⟩ := h
    split at h
    · cases h
    · rename_i hne
      split at h
      · cases h
      · rename_i hall
        cases h
        refine ⟨toU64_le hlen, ?_, ?_⟩
        · intro he; apply hne; have he' : path = [] := he; simp [he']
        · intro c hc
          refine ⟨specPath_utf8 hpath c hc, ?_⟩
          simp only [Bool.not_eq_true', Bool.not_eq_false] at hall
          exact List.all_eq_true.1 hall c hc
  | int v => simp [specFile] at h
  | str l => simp [specFile] at h
  | list d => simp [specFile] at h

theorem specFiles_wf {items : List BVal} {fs : List FileRec} (h : specFiles items = some fs) :
    ∀ f ∈ fs, f.length ≤ u64Max ∧ f.path ≠ [] ∧ ∀ c ∈ f.path, utf8Valid c = true ∧ plainComponent c = true := by
  induction items generalizing fs with
  | nil => simp only [specFiles] at h; cases h; intro f hf; cases hf
  | cons v rest ih =>
    simp only [specFiles, Option.bind_eq_bind, Option.bind_eq_some_iff] at h
    obtain ⟨f0, hf0, fs0, hfs0, h⟩ := h
    cases h
    intro f hf
    rcases List.mem_cons.1 hf with rfl | hf
    · exact specFile_wf hf0
    · exact ih hfs0 f hf

theorem specInfo_wf {d : List (Bytes × BVal)} {i : Info} (h : specInfo d = some i) :
    utf8Valid i.name = true ∧ plainComponent i.name = true
    ∧ (∀ hsh ∈ i.pieces, hsh.length = 20)
    ∧ i.pieceLength ≤ u64Max
    ∧ ((∃ l, i.length = some l ∧ i.files = none ∧ l ≤ u64Max
          ∧ pieceCountOk l i.pieceLength i.pieces.length = true)
       ∨ (∃ fs, i.length = none ∧ i.files = some fs ∧ fs ≠ []
          ∧ (∀ f ∈ fs, f.length ≤ u64Max ∧ f.path ≠ [] ∧ ∀ c ∈ f.path, utf8Valid c = true ∧ plainComponent c = true)
          ∧ pieceCountOk ((fs.map (·.length)).sum) i.pieceLength i.pieces.length = true)) := by
  simp only [specInfo, Option.bind_eq_bind, Option.bind_eq_some_iff] at h
  obtain ⟨name, _, h⟩ := h
  split at h
  · cases h
  rename_i hu
  split at h
  · cases h
  rename_i hp
  simp only [Option.bind_eq_some_iff] at h
  obtain ⟨pieces, _, h⟩ := h
  split at h
  · cases h
  rename_i hm
  simp only [Option.bind_eq_some_iff] at h
  obtain ⟨pl, ⟨plv, _, hpl⟩, h⟩ := h
  have hm' : pieces.length = 20 * (pieces.length / 20) := by omega
  have hh := splitHashes_mem_length _ _ hm'
  simp only [Bool.not_eq_true', Bool.not_eq_false] at hu hp
  split at h
  · rename_i lv hlv hfl
    simp only [Option.bind_eq_some_iff] at h
    obtain ⟨l, hl, h⟩ := h
    split at h
    · rename_i hc
      cases h
      refine ⟨hu, hp, hh, toU64_le hpl, Or.inl ⟨l, rfl, rfl, toU64_le hl, ?_⟩⟩
      rw [pieceCountOk_eq_spec]; exact hc
    · cases h
  · rename_i items hlv hfl
    simp only [Option.bind_eq_some_iff] at h
    obtain ⟨fs, hfs, h⟩ := h
    split at h
    · cases h
    rename_i hne
    split at h
    · rename_i hc
      cases h
      refine ⟨hu, hp, hh, toU64_le hpl, Or.inr ⟨fs, rfl, rfl, ?_, specFiles_wf hfs, ?_⟩⟩
      · intro he; apply hne; simp [he]
      · rw [pieceCountOk_eq_spec]; exact hc
    · cases h
  · cases h


/-! ### `load` -/

theorem findDict_eq_some {ks : List StrTok} {vs : List Tok} {key : Bytes} {r : List StrTok × List Tok × Nat × Nat} :
    findDict ks vs key = some r ↔ findValue ks vs key = some (.dict r.1 r.2.1 r.2.2.1 r.2.2.2) := by
  obtain ⟨a, b, c, d⟩ := r
  unfold findDict
  cases findValue ks vs key with
  | none => simp
  | some t => cases t <;> simp

theorem findDict_eq_none {ks : List StrTok} {vs : List Tok} {key : Bytes} :
    findDict ks vs key = none ↔ ∀ a b c d, findValue ks vs key ≠ some (.dict a b c d) := by
  unfold findDict
  cases findValue ks vs key with
  | none => simp
  | some t => cases t <;> simp

theorem sliceRes_eq {inp : Bytes} {a b : Nat} (h1 : a ≤ b) (h2 : b ≤ inp.length) :
    sliceRes inp a b = .ok (slice inp a b) := by
  simp [sliceRes, slice, h1, h2]

/-- what `load` does once the decoder has accepted a dictionary whose `info` entry is a dictionary -/
theorem load_eq_of_info {H : Bytes → Bytes} {inp : Bytes} {rks iks : List StrTok} {rvs ivs : List Tok} {s0 c0 s c : Nat}
    (hd : decode inp = .ok (.dict rks rvs s0 c0))
    (hf : findValue rks rvs kInfo = some (.dict iks ivs s c)) (h1 : s ≤ c) (h2 : c ≤ inp.length) :
    load H inp = match specInfo (eraseDict iks ivs) with
      | some info => .ok ⟨info, H (slice inp s c)⟩
      | none => .err := by
  have hf' : findDict rks rvs kInfo = some (iks, ivs, s, c) := findDict_eq_some.2 hf
  simp only [load, hd, hf', sliceRes_eq h1 h2, evaluateInfo_eq]
  cases specInfo (eraseDict iks ivs) <;> rfl

theorem load_ok_inv {H : Bytes → Bytes} {inp : Bytes} {T : Torrent} (h : load H inp = .ok T) :
    ∃ rks rvs s0 c0 iks ivs s c, decode inp = .ok (.dict rks rvs s0 c0)
      ∧ findValue rks rvs kInfo = some (.dict iks ivs s c) := by
  unfold load at h
  split at h
  · cases h
  · cases h
  · rename_i rks rvs s0 c0 hd
    split at h
    · cases h
    · rename_i iks ivs s c hf
      exact ⟨rks, rvs, s0, c0, iks, ivs, s, c, hd, findDict_eq_some.1 hf⟩
  · cases h


/-- everything known about an accepted torrent: the decoded root, its `info` entry, the exact span of that
    entry, and the record the specification reads off the erased info dictionary -/
theorem load_ok_struct {H : Bytes → Bytes} {inp : Bytes} {T : Torrent} (h : load H inp = .ok T) :
    ∃ rks rvs s0 c0 iks ivs s c info,
      decode inp = .ok (.dict rks rvs s0 c0)
      ∧ canon (.dict (eraseDict rks rvs)) = true ∧ encode (.dict (eraseDict rks rvs)) = inp
      ∧ findValue rks rvs kInfo = some (.dict iks ivs s c)
      ∧ s ≤ c ∧ c ≤ inp.length ∧ slice inp s c = encode (.dict (eraseDict iks ivs))
      ∧ specInfo (eraseDict iks ivs) = some info ∧ T = ⟨info, H (slice inp s c)⟩ := by
  obtain ⟨rks, rvs, s0, c0, iks, ivs, s, c, hd, hf⟩ := load_ok_inv h
  obtain ⟨hcan, henc, hsp, _, _⟩ := C08_sound inp _ hd
  simp only [erase] at hcan henc
  obtain ⟨_, _, _, _, hsl⟩ := spansExact_dict hsp
  obtain ⟨h1, h2, _, h4, _⟩ := spansExact_dict (spansExactList_mem hsl _ (findValue_mem hf))
  rw [load_eq_of_info hd hf h1 h2] at h
  cases hs : specInfo (eraseDict iks ivs) with
  | none => rw [hs] at h; cases h
  | some info =>
    rw [hs] at h
    refine ⟨rks, rvs, s0, c0, iks, ivs, s, c, info, hd, hcan, henc, hf, h1, h2, h4, hs, ?_⟩
    cases h; rfl

/-- the converse: the canonical encoding of a value the specification accepts loads to that record -/
theorem load_of_spec {H : Bytes → Bytes} {v : BVal} {T : Torrent}
    (hc : canon v = true) (hs : specLoad H v = some T) : load H (encode v) = .ok T := by
  obtain ⟨t, hd, het⟩ := C08_complete v hc
  obtain ⟨_, _, hsp, _, _⟩ := C08_sound _ _ hd
  cases v with
  | int x => simp [specLoad] at hs
  | str x => simp [specLoad] at hs
  | list x => simp [specLoad] at hs
  | dict root =>
    cases t with
    | str x => simp [erase] at het
    | int x a b => simp [erase] at het
    | list x a b => simp [erase] at het
    | dict rks rvs s0 c0 =>
      simp only [erase, BVal.dict.injEq] at het
      subst het
      obtain ⟨_, _, _, _, hsl⟩ := spansExact_dict hsp
      simp only [specLoad, dictGet_eraseDict] at hs
      cases hf : findValue rks rvs kInfo with
      | none => simp [hf] at hs
      | some tok =>
        cases tok with
        | str x => simp [hf, erase] at hs
        | int x a b => simp [hf, erase] at hs
        | list x a b => simp [hf, erase] at hs
        | dict iks ivs s c =>
          obtain ⟨h1, h2, _, h4, _⟩ := spansExact_dict (spansExactList_mem hsl _ (findValue_mem hf))
          simp only [hf, Option.map_some, erase] at hs
          rw [load_eq_of_info hd hf h1 h2, h4]
          cases hsi : specInfo (eraseDict iks ivs) with
          | none => simp [hsi] at hs
          | some info =>
            simp only [hsi, Option.some.injEq] at hs
            rw [← hs]

/-! ### hexadecimal digits -/

theorem hexDigit_range : ∀ n, n < 16 → (48 ≤ hexDigit n ∧ hexDigit n ≤ 57) ∨ (97 ≤ hexDigit n ∧ hexDigit n ≤ 102) := by
  decide

theorem hexDigit_inj : ∀ a, a < 16 → ∀ b, b < 16 → hexDigit a = hexDigit b → a = b := by
  decide

end TB
