/-
  Helper lemmas (RunD): fault points outside the window of an evaluation do not change it (C13 locality).
  The functions of the model are read as compositions of `St.ret`/`St.bind`/`St.withFs`/`St.op`; the simulation
  property `SimF` is closed under these.
-/
import TB.Lemmas.RunDBase
namespace TB.RD
/-! ### simulation -/

structure Agree (a b : St) : Prop where
  fs : a.fs = b.fs
  ops : a.ops = b.ops
  nf : b.faults = []

def Clear (a : St) (n : Nat) : Prop := ∀ idx ∈ a.faults, idx < a.ops.length ∨ n ≤ idx

def SimF {α : Type} (f : St → St × α) : Prop :=
  (∀ st, st.ops.length ≤ (f st).1.ops.length) ∧
  ∀ a b, Agree a b → Clear a (f b).1.ops.length →
    (f a).2 = (f b).2 ∧ Agree (f a).1 (f b).1 ∧ (f a).1.faults = a.faults

def St.ret {α : Type} (x : α) : St → St × α := fun st => (st, x)
def St.bind {α β : Type} (g : St → St × β) (h : β → St → St × α) : St → St × α := fun st => h (g st).2 (g st).1
def St.withFs {α : Type} (k : Fs → St → St × α) : St → St × α := fun st => k st.fs st

theorem SimF.ret {α : Type} (x : α) : SimF (St.ret x) :=
  ⟨fun _ => Nat.le_refl _, fun _ _ hA _ => ⟨rfl, hA, rfl⟩⟩

theorem SimF.op (k : OpKind) (p : Path) (n : Fs → Fs × Bool) : SimF (fun st => st.op k p n) := by
  constructor
  · intro st
    show _ ≤ (st.op k p n).1.ops.length
    cases h : st.faults.contains st.ops.length
    · rw [St.op_nofault _ _ _ h]; simp
    · rw [St.op_fault _ _ _ h]; simp
  · intro a b hA hC
    replace hC : Clear a (b.op k p n).1.ops.length := hC
    show (a.op k p n).2 = (b.op k p n).2 ∧ Agree (a.op k p n).1 (b.op k p n).1 ∧ (a.op k p n).1.faults = a.faults
    have hb : b.faults.contains b.ops.length = false := by rw [hA.nf]; rfl
    rw [St.op_nofault _ _ _ hb] at hC
    have ha : a.faults.contains a.ops.length = false := by
      cases h : a.faults.contains a.ops.length
      · rfl
      · have := hC _ (by simpa using h)
        simp [hA.ops] at this
        omega
    rw [St.op_nofault _ _ _ hb, St.op_nofault _ _ _ ha, hA.fs, hA.ops]
    exact ⟨rfl, ⟨rfl, rfl, hA.nf⟩, rfl⟩

theorem SimF.bind {α β : Type} {g : St → St × β} {h : β → St → St × α}
    (hg : SimF g) (hh : ∀ r, SimF (h r)) : SimF (St.bind g h) := by
  constructor
  · intro st
    exact Nat.le_trans (hg.1 st) ((hh _).1 _)
  · intro a b hA hC
    have hm : (g b).1.ops.length ≤ (St.bind g h b).1.ops.length := (hh _).1 _
    have hC1 : Clear a (g b).1.ops.length := by
      intro idx hi
      rcases hC idx hi with h | h
      · exact Or.inl h
      · exact Or.inr (Nat.le_trans hm h)
    obtain ⟨e1, A1, F1⟩ := hg.2 a b hA hC1
    have hC2 : Clear (g a).1 (h (g b).2 (g b).1).1.ops.length := by
      intro idx hi
      rw [F1] at hi
      rcases hC idx hi with h | h
      · left
        have := hg.1 a
        omega
      · exact Or.inr h
    obtain ⟨e2, A2, F2⟩ := (hh (g b).2).2 _ _ A1 hC2
    simp only [St.bind, e1]
    exact ⟨e2, A2, F2.trans F1⟩

theorem SimF.withFs {α : Type} {k : Fs → St → St × α} (hk : ∀ fs, SimF (k fs)) : SimF (St.withFs k) := by
  constructor
  · intro st; exact (hk _).1 st
  · intro a b hA hC
    simp only [St.withFs, hA.fs] at hC ⊢
    exact (hk _).2 a b hA hC

theorem SimF.ite {α : Type} (c : Prop) [Decidable c] {f g : St → St × α} (hf : SimF f) (hg : SimF g) :
    SimF (fun st => if c then f st else g st) := by
  split
  · exact hf
  · exact hg

theorem SimF.congr {α : Type} {f g : St → St × α} (h : ∀ st, f st = g st) (hg : SimF g) : SimF f := by
  have : f = g := funext h
  rw [this]; exact hg

theorem readBytes_sim (p : Path) (len off : Nat) : SimF (fun st => st.readBytes p len off) := by
  show SimF (St.bind (fun st => st.op .openr p (fun fs => (fs, match fs.look p with | .file _ => true | .dir => true | _ => false))) fun ok1 st1 =>
    if !ok1 then St.ret none st1 else
    St.bind (fun st => st.op (.seek off) p (fun fs => (fs, true))) (fun ok2 st2 =>
      if !ok2 then St.ret none st2 else
      if len == 0 then St.ret (some []) st2 else
      St.bind (fun st => st.op .read p (fun fs => (fs, match fs.look p with | .file _ => true | _ => false))) (fun ok3 st3 =>
        if !ok3 then St.ret none st3 else
        St.withFs (fun fs st => match fs.look p with
          | .file i => St.ret (some (fs.readAt i off len)) st
          | _ => St.ret none st) st3) st2) st1)
  refine SimF.bind (SimF.op _ _ _) fun ok1 => ?_
  refine SimF.ite _ (SimF.ret _) ?_
  refine SimF.bind (SimF.op _ _ _) fun ok2 => ?_
  refine SimF.ite _ (SimF.ret _) ?_
  refine SimF.ite _ (SimF.ret _) ?_
  refine SimF.bind (SimF.op _ _ _) fun ok3 => ?_
  refine SimF.ite _ (SimF.ret _) ?_
  refine SimF.withFs fun fs => ?_
  split
  · exact SimF.ret _
  · exact SimF.ret _

theorem scanSingle_sim (H : Bytes → Bytes) (hash : Bytes) (seg : WSeg) (ps : List Path) :
    SimF (fun st => scanSingle H hash seg st ps) := by
  induction ps with
  | nil => exact SimF.ret _
  | cons p ps ih =>
    refine SimF.congr (g := St.bind (fun st => st.readBytes p seg.len seg.off) (fun r st1 =>
      match r with
      | none => St.ret .err st1
      | some bytes => if H bytes == hash then St.ret (.ok (some (p, bytes))) st1 else scanSingle H hash seg st1 ps))
      (fun st => ?_) ?_
    · simp only [scanSingle, St.bind]
      rcases st.readBytes p seg.len seg.off with ⟨a, _ | b⟩ <;> rfl
    refine SimF.bind (readBytes_sim _ _ _) fun r => ?_
    cases r with
    | none => exact SimF.ret _
    | some bytes => exact SimF.ite _ (SimF.ret _) ih

theorem preloadSeg_sim (seg : WSeg) (ps : List Path) :
    ∀ acc, SimF (fun st => preloadSeg seg st ps acc) := by
  induction ps with
  | nil => intro acc; exact SimF.ret _
  | cons p ps ih =>
    intro acc
    refine SimF.congr (g := St.bind (fun st => st.readBytes p seg.len seg.off) (fun r st1 =>
      match r with
      | none => St.ret .err st1
      | some bytes =>
        if acc.any (fun r => r.2 == bytes) then preloadSeg seg st1 ps acc
        else preloadSeg seg st1 ps (acc ++ [(some p, bytes)])))
      (fun st => ?_) ?_
    · simp only [preloadSeg, St.bind]
      rcases st.readBytes p seg.len seg.off with ⟨a, _ | b⟩ <;> rfl
    refine SimF.bind (readBytes_sim _ _ _) fun r => ?_
    cases r with
    | none => exact SimF.ret _
    | some bytes => exact SimF.ite _ (ih _) (ih _)

theorem SimF.mapRes {α β : Type} {g : St → St × Res α} (hg : SimF g) (f : α → β) :
    SimF (fun st => match g st with
      | (st1, .ok x) => (st1, Res.ok (f x))
      | (st1, .err) => (st1, Res.err)
      | (st1, .panic) => (st1, Res.panic)) := by
  refine SimF.congr (g := St.bind g (fun r st1 => match r with
      | .ok x => St.ret (Res.ok (f x)) st1
      | .err => St.ret Res.err st1
      | .panic => St.ret Res.panic st1)) (fun st => ?_) ?_
  · simp only [St.bind]
    rcases g st with ⟨a, _ | _ | _⟩ <;> rfl
  refine SimF.bind hg fun r => ?_
  cases r <;> exact SimF.ret _

theorem preload_sim (segs : List WSeg) : SimF (fun st => preload st segs) := by
  induction segs with
  | nil => exact SimF.ret _
  | cons seg rest ih =>
    simp only [preload]
    split
    · refine SimF.congr (fun st => ?_) (SimF.mapRes ih (fun r => [(none, List.replicate seg.len 0)] :: r))
      rcases preload st rest with ⟨a, _ | _ | _⟩ <;> rfl
    · split
      · refine SimF.congr (fun st => ?_) (SimF.mapRes ih (fun r => [(none, [])] :: r))
        rcases preload st rest with ⟨a, _ | _ | _⟩ <;> rfl
      · rename_i paths _
        refine SimF.congr (g := St.bind (fun st => preloadSeg seg st paths []) (fun r st1 =>
          match r with
          | .ok r => (match preload st1 rest with
            | (st2, .ok rs) => (st2, Res.ok (r :: rs))
            | (st2, .err) => (st2, Res.err)
            | (st2, .panic) => (st2, Res.panic))
          | .err => St.ret Res.err st1
          | .panic => St.ret Res.panic st1)) (fun st => ?_) ?_
        · simp only [St.bind]
          rcases preloadSeg seg st paths [] with ⟨a, _ | _ | _⟩ <;> rfl
        refine SimF.bind (preloadSeg_sim _ _ _) fun r => ?_
        cases r with
        | ok r =>
          refine SimF.congr (fun st => ?_) (SimF.mapRes ih (fun rs => r :: rs))
          simp only []
          rcases preload st rest with ⟨a, _ | _ | _⟩ <;> rfl
        | err => exact SimF.ret _
        | panic => exact SimF.ret _

theorem writeSegs_sim (pairs : List (WSeg × Option Path)) :
    ∀ buf start, SimF (fun st => writeSegs st pairs buf start) := by
  induction pairs with
  | nil => intro buf start; exact SimF.ret _
  | cons x rest ih =>
    obtain ⟨seg, src⟩ := x
    intro buf start
    show SimF (fun st =>
      if seg.ent.isPad then writeSegs st rest buf (start + seg.len)
      else if src == some seg.ent.fullTarget then writeSegs st rest buf (start + seg.len)
      else St.bind (fun st => st.op .mkdirs seg.ent.fullTarget.dropLast (fun fs => fs.mkdirs seg.ent.fullTarget.dropLast))
        (fun ok1 st1 =>
          if !ok1 then St.ret Solved.fault st1 else
          St.bind (fun st => st.op .openc seg.ent.fullTarget
              (fun fs => let r := fs.openCreate seg.ent.fullTarget; (r.1, r.2.isSome)))
            (fun ok2 st2 =>
              if !ok2 then St.ret Solved.fault st2 else
              St.withFs (fun fs st2 =>
                match fs.look seg.ent.fullTarget with
                | .file i =>
                  St.bind (fun st => st.op (.setlen seg.ent.fileLength) seg.ent.fullTarget
                      (fun fs => (fs.setLen i seg.ent.fileLength, true)))
                    (fun ok3 st3 =>
                      if !ok3 then St.ret Solved.fault st3 else
                      St.bind (fun st => st.op (.seek seg.off) seg.ent.fullTarget (fun fs => (fs, true)))
                        (fun ok4 st4 =>
                          if !ok4 then St.ret Solved.fault st4 else
                          if buf.length < start + seg.len then St.ret Solved.fault st4 else
                          St.bind (fun st => st.op (.write seg.off ((buf.drop start).take seg.len)) seg.ent.fullTarget
                              (fun fs => (fs.writeAt i seg.off ((buf.drop start).take seg.len), true)))
                            (fun ok5 st5 =>
                              if !ok5 then St.ret Solved.fault st5 else writeSegs st5 rest buf (start + seg.len)) st4) st3) st2
                | _ => St.ret Solved.fault st2) st2) st1) st)
    refine SimF.ite _ (ih _ _) ?_
    refine SimF.ite _ (ih _ _) ?_
    refine SimF.bind (SimF.op _ _ _) fun ok1 => ?_
    refine SimF.ite _ (SimF.ret _) ?_
    refine SimF.bind (SimF.op _ _ _) fun ok2 => ?_
    refine SimF.ite _ (SimF.ret _) ?_
    refine SimF.withFs fun fs => ?_
    split
    · refine SimF.bind (SimF.op _ _ _) fun ok3 => ?_
      refine SimF.ite _ (SimF.ret _) ?_
      refine SimF.bind (SimF.op _ _ _) fun ok4 => ?_
      refine SimF.ite _ (SimF.ret _) ?_
      refine SimF.ite _ (SimF.ret _) ?_
      refine SimF.bind (SimF.op _ _ _) fun ok5 => ?_
      exact SimF.ite _ (SimF.ret _) (ih _ _)
    · exact SimF.ret _

theorem solvePiece_sim (H : Bytes → Bytes) (w : Work) : SimF (fun st => solvePiece H st w) := by
  unfold solvePiece; simp -iota only
  split; · exact SimF.ret _
  split
  · rename_i seg _
    split
    · split <;> exact SimF.ret _
    · split
      · exact SimF.ret _
      · rename_i paths _
        refine SimF.congr (g := St.bind (fun st => scanSingle H w.hash seg st paths) (fun r st1 =>
          match r with
          | .ok (some (src, bytes)) => writeSegs st1 [(seg, some src)] bytes 0
          | .ok none => St.ret Solved.notFound st1
          | .err => St.ret Solved.fault st1
          | .panic => St.ret Solved.panic st1)) (fun st => ?_) ?_
        · simp only [St.bind]
          rcases scanSingle H w.hash seg st paths with ⟨a, (_ | ⟨src, bytes⟩) | _ | _⟩ <;> rfl
        refine SimF.bind (scanSingle_sim _ _ _ _) fun r => ?_
        rcases r with (_ | ⟨src, bytes⟩) | _ | _
        · exact SimF.ret _
        · exact writeSegs_sim _ _ _
        · exact SimF.ret _
        · exact SimF.ret _
  · refine SimF.congr (g := St.bind (fun st => preload st w.segs) (fun r st1 =>
      match r with
      | .ok loaded =>
        match searchProduct H w.hash loaded [] with
        | some chosen => writeSegs st1 (List.zip w.segs (chosen.map (·.1))) (chosen.flatMap (·.2)) 0
        | none => St.ret Solved.notFound st1
      | .err => St.ret Solved.fault st1
      | .panic => St.ret Solved.panic st1)) (fun st => ?_) ?_
    · simp only [St.bind]
      rcases preload st w.segs with ⟨a, _ | _ | _⟩ <;> rfl
    refine SimF.bind (preload_sim _) fun r => ?_
    cases r with
    | ok loaded =>
      show SimF (fun st1 => match searchProduct H w.hash loaded [] with
        | some chosen => writeSegs st1 (List.zip w.segs (chosen.map (·.1))) (chosen.flatMap (·.2)) 0
        | none => St.ret Solved.notFound st1)
      split
      · exact writeSegs_sim _ _ _
      · exact SimF.ret _
    | err => exact SimF.ret _
    | panic => exact SimF.ret _

end TB.RD