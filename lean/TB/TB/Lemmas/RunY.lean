/-
  Helper lemmas (RunY): the run-level OUTCOME of the model (`TB.Props.Outcome`).

  * Part A — the resize pre-flight as a function of the tree: `stop1` / `stop2` say at which entry the first / the
    second pass stops; without faults `resizePass1` stops exactly at the first `stop1` entry and changes nothing,
    `resizePass2` stops exactly at the first `stop2` entry and the tree it leaves is `RunN.step` folded over the entries
    before it. With ANY fault set a `stop1` entry makes the first pass fail and a `stop2` entry makes the second pass
    fail (a fault can only make either pass fail EARLIER).
  * Part B — `foldl RunN.step`: names, directories and the inode counter are kept, contents only grow by zeros.
  * Part C — the shape of `run` by the outcome of validation and of the pre-flight.
  * Part D — the progress records of `solveAll`, with or without a panic.
-/
import TB.Spec.ExportSpec
import TB.Props.C14
import TB.Props.C15
import TB.Props.C16
import TB.Lemmas.RunB
import TB.Lemmas.RunN
import TB.Lemmas.RunI
namespace TB.RunY
open TB TB.RB

/-! ## Part A: the two passes -/

/-- the first pass stops (with an error) at this entry: a non-padding entry whose image path has a regular file as a
    proper prefix (`ENOTDIR` on the read-only open), or whose image is a regular file longer than declared -/
def stop1 (fs : Fs) (e : TEntry) : Bool :=
  !e.isPad && (match fs.look e.fullTarget with
    | .notDir => true
    | .file i => decide ((fs.content i).length > e.fileLength)
    | _ => false)

/-- the second pass stops (with an error) at this entry: a non-padding entry whose image path has a regular file as a
    proper prefix (`ENOTDIR`) or IS A DIRECTORY (`EISDIR` on the read+write open) -/
def stop2 (fs : Fs) (e : TEntry) : Bool :=
  !e.isPad && (match fs.look e.fullTarget with | .notDir => true | .dir => true | _ => false)

theorem stop1_iff (fs : Fs) (e : TEntry) :
    stop1 fs e = true ↔ (Overlong fs e ∨ (e.isPad = false ∧ fs.look e.fullTarget = .notDir)) := by
  unfold stop1 Overlong
  cases hp : e.isPad
  · cases hl : fs.look e.fullTarget <;> simp
  · simp

theorem stop2_iff (fs : Fs) (e : TEntry) :
    stop2 fs e = true ↔ (e.isPad = false ∧ (fs.look e.fullTarget = .notDir ∨ fs.look e.fullTarget = .dir)) := by
  unfold stop2
  cases hp : e.isPad
  · cases hl : fs.look e.fullTarget <;> simp
  · simp

theorem stop2_congr {fs fs0 : Fs} (h1 : fs.files = fs0.files) (h2 : fs.dirs = fs0.dirs) (e : TEntry) :
    stop2 fs e = stop2 fs0 e := by
  unfold stop2
  rw [RunN.look_congr h1 h2]

/-! ### the first pass -/

theorem resizePass1_faults (st : St) (es : List TEntry) : (resizePass1 st es).1.faults = st.faults := by
  induction es generalizing st with
  | nil => rfl
  | cons e es ih =>
    rcases resizePass1_cases st e es with h | h | h <;> rw [h]
    · exact ih st
    · exact St.openr_faults st _
    · exact (ih _).trans (St.openr_faults st _)

/-- one step of the first pass without faults -/
theorem pass1_cons_nf (st : St) (hf : st.faults = []) (e : TEntry) (es : List TEntry) :
    resizePass1 st (e :: es) =
      if stop1 st.fs e then ((st.openr e.fullTarget).1, .error)
      else resizePass1 (if e.isPad then st else (st.openr e.fullTarget).1) es := by
  rw [resizePass1_cons]
  have hv := RunN.openr_val st hf e.fullTarget
  have hfs := St.openr_fs st e.fullTarget
  cases hp : e.isPad
  · cases hl : st.fs.look e.fullTarget <;> simp [stop1, hp, hl, hf, hfs] at hv ⊢ <;> simp [hv]
  · simp [stop1, hp]

/-- the first pass without faults: it fails iff some entry is a `stop1` entry -/
theorem pass1_error_iff (es : List TEntry) : ∀ st : St, st.faults = [] →
    ((resizePass1 st es).2 = .error ↔ ∃ e ∈ es, stop1 st.fs e = true) := by
  induction es with
  | nil => intro st _; simp [resizePass1]
  | cons e es ih =>
    intro st hf
    rw [pass1_cons_nf st hf]
    cases hs : stop1 st.fs e
    · simp only [Bool.false_eq_true, if_false]
      have hst : (if e.isPad then st else (st.openr e.fullTarget).1).faults = [] ∧
          (if e.isPad then st else (st.openr e.fullTarget).1).fs = st.fs := by
        split
        · exact ⟨hf, rfl⟩
        · exact ⟨(St.openr_faults st _).trans hf, St.openr_fs st _⟩
      rw [ih _ hst.1, hst.2]
      simp [hs]
    · simp [hs]

/-- ANY fault set: a `stop1` entry makes the first pass fail (at that entry or earlier) -/
theorem pass1_detects (st : St) (table : List TEntry)
    (h : ∃ e ∈ table, stop1 st.fs e = true) : (resizePass1 st table).2 = .error := by
  induction table generalizing st with
  | nil => obtain ⟨e, he, _⟩ := h; cases he
  | cons e es ih =>
    obtain ⟨x, hx, hov⟩ := h
    rcases List.mem_cons.1 hx with rfl | hx
    · rw [resizePass1_cons]
      unfold stop1 at hov
      cases hp : x.isPad
      · rw [hp] at hov
        simp only [Bool.false_eq_true, if_false]
        cases hok : (st.openr x.fullTarget).2
        · cases hl : st.fs.look x.fullTarget <;> rw [hl] at hov <;> simp at hov ⊢
        · obtain ⟨_, hn, _⟩ := St.op_ok st .openr x.fullTarget _ hok
          cases hl : st.fs.look x.fullTarget <;> rw [hl] at hov hn <;> simp at hov hn ⊢
          rw [St.openr_fs]
          simp [hov]
      · rw [hp] at hov; simp at hov
    · have ih1 := ih st ⟨x, hx, hov⟩
      have ih2 := ih (st.openr e.fullTarget).1 ⟨x, hx, by rw [St.openr_fs]; exact hov⟩
      rcases resizePass1_cases st e es with h | h | h <;> rw [h]
      · exact ih1
      · exact ih2

/-! ### the second pass -/

theorem setLen_files (fs : Fs) (i n : Nat) : (fs.setLen i n).files = fs.files := rfl
theorem setLen_dirs (fs : Fs) (i n : Nat) : (fs.setLen i n).dirs = fs.dirs := rfl
theorem setLen_next (fs : Fs) (i n : Nat) : (fs.setLen i n).next = fs.next := rfl

theorem step_files (fs : Fs) (e : TEntry) : (RunN.step fs e).files = fs.files := by
  unfold RunN.step; split
  · rfl
  · split
    · split <;> rfl
    · rfl
theorem step_dirs (fs : Fs) (e : TEntry) : (RunN.step fs e).dirs = fs.dirs := by
  unfold RunN.step; split
  · rfl
  · split
    · split <;> rfl
    · rfl
theorem step_next (fs : Fs) (e : TEntry) : (RunN.step fs e).next = fs.next := by
  unfold RunN.step; split
  · rfl
  · split
    · split <;> rfl
    · rfl

theorem op_setlen_frame (st : St) (p : Path) (i n : Nat) :
    (st.op (.setlen n) p (fun fs => (fs.setLen i n, true))).1.fs.files = st.fs.files ∧
    (st.op (.setlen n) p (fun fs => (fs.setLen i n, true))).1.fs.dirs = st.fs.dirs := by
  cases h : st.faults.contains st.ops.length
  · rw [St.op_nofault _ _ _ _ h]; exact ⟨rfl, rfl⟩
  · rw [St.op_fault _ _ _ _ h]; exact ⟨rfl, rfl⟩

/-- ANY fault set: one step of the second pass keeps names and directories; at a `stop2` entry it fails -/
theorem pass2_step_any (st : St) (e : TEntry) (es : List TEntry) :
    ∃ st', (resizePass2 st (e :: es) = resizePass2 st' es ∨ resizePass2 st (e :: es) = (st', .error)) ∧
      st'.fs.files = st.fs.files ∧ st'.fs.dirs = st.fs.dirs ∧
      (stop2 st.fs e = true → resizePass2 st (e :: es) = (st', .error)) := by
  rw [resizePass2_cons]
  have hfs := RunN.openrw_fs st e.fullTarget
  cases hp : e.isPad
  · simp only [Bool.false_eq_true, if_false]
    cases hok : (st.op .openrw e.fullTarget (natOpenrw e.fullTarget)).2
    · simp only [Bool.not_false, if_true]
      split
      · rename_i hc
        refine ⟨_, .inl rfl, by rw [hfs], by rw [hfs], fun hs => ?_⟩
        exfalso
        unfold stop2 at hs
        cases hl : st.fs.look e.fullTarget <;> rw [hl] at hs hc <;> simp [hp] at hs hc
      · exact ⟨_, .inr rfl, by rw [hfs], by rw [hfs], fun _ => rfl⟩
    · simp only [Bool.not_true, Bool.false_eq_true, if_false]
      obtain ⟨_, hn, _⟩ := St.op_ok st .openrw e.fullTarget _ hok
      cases hl : st.fs.look e.fullTarget with
      | file i =>
        simp only
        have hs2 : stop2 st.fs e = false := by simp [stop2, hl]
        obtain ⟨f1, f2⟩ := op_setlen_frame (st.op .openrw e.fullTarget (natOpenrw e.fullTarget)).1 e.fullTarget i e.fileLength
        rw [hfs] at f1 f2
        split
        · split
          · exact ⟨_, .inl rfl, f1, f2, fun h => by rw [hs2] at h; cases h⟩
          · exact ⟨_, .inr rfl, f1, f2, fun _ => rfl⟩
        · exact ⟨_, .inl rfl, by rw [hfs], by rw [hfs], fun h => by rw [hs2] at h; cases h⟩
      | notFound => simp [natOpenrw, hl] at hn
      | notDir => simp [natOpenrw, hl] at hn
      | dir => simp [natOpenrw, hl] at hn
  · refine ⟨st, .inl (by simp), rfl, rfl, fun h => ?_⟩
    simp [stop2, hp] at h

/-- ANY fault set: a `stop2` entry makes the second pass fail (at that entry or earlier) -/
theorem pass2_detects (table : List TEntry) : ∀ st : St,
    (∃ e ∈ table, stop2 st.fs e = true) → (resizePass2 st table).2 = .error := by
  induction table with
  | nil => intro st h; obtain ⟨e, he, _⟩ := h; cases he
  | cons e es ih =>
    intro st h
    obtain ⟨x, hx, hs⟩ := h
    obtain ⟨st', hor, hf, hd, hstop⟩ := pass2_step_any st e es
    rcases List.mem_cons.1 hx with rfl | hx
    · rw [hstop hs]
    · rcases hor with h | h <;> rw [h]
      exact ih st' ⟨x, hx, by rw [stop2_congr hf hd]; exact hs⟩

/-- what the second pass logs at one entry without faults -/
def Pass2Op (e : TEntry) (o : Op) : Prop :=
  e.isPad = false ∧ o.path = e.fullTarget ∧ (o.kind = .openrw ∨ (o.kind = .setlen e.fileLength ∧ o.ok = true))

/-- one step of the second pass without faults -/
theorem pass2_cons_nf (st : St) (hf : st.faults = []) (e : TEntry) (es : List TEntry) :
    ∃ st' new, st'.faults = [] ∧ st'.ops = st.ops ++ new ∧ (∀ o ∈ new, Pass2Op e o) ∧
      st'.fs = (if stop2 st.fs e then st.fs else RunN.step st.fs e) ∧
      (stop2 st.fs e = true → ∀ o ∈ new, o.kind = .openrw) ∧
      resizePass2 st (e :: es) = if stop2 st.fs e then (st', .error) else resizePass2 st' es := by
  rw [resizePass2_cons]
  have hv := RunN.openrw_val st hf e.fullTarget
  have hfs := RunN.openrw_fs st e.fullTarget
  have hfa1 := (St.op_faults st .openrw e.fullTarget (natOpenrw e.fullTarget)).trans hf
  have hops := St.op_ops st .openrw e.fullTarget (natOpenrw e.fullTarget)
  cases hp : e.isPad
  · simp only [Bool.false_eq_true, if_false]
    have hnew1 : ∀ o ∈ [(⟨.openrw, e.fullTarget, (st.op .openrw e.fullTarget (natOpenrw e.fullTarget)).2⟩ : Op)],
        Pass2Op e o := by
      intro o ho; rw [List.mem_singleton] at ho; subst ho; exact ⟨hp, rfl, .inl rfl⟩
    have hopen : stop2 st.fs e = true →
        ∀ o ∈ [(⟨.openrw, e.fullTarget, (st.op .openrw e.fullTarget (natOpenrw e.fullTarget)).2⟩ : Op)],
        o.kind = .openrw := by
      intro _ o ho; rw [List.mem_singleton] at ho; subst ho; rfl
    cases hl : st.fs.look e.fullTarget with
    | notFound =>
      rw [hl] at hv; simp only at hv
      refine ⟨_, _, hfa1, hops, hnew1, ?_, hopen, ?_⟩
      · rw [hfs]; simp [stop2, RunN.step, hp, hl]
      · simp [stop2, hp, hl, hv, hf]
    | notDir =>
      rw [hl] at hv; simp only at hv
      refine ⟨_, _, hfa1, hops, hnew1, ?_, hopen, ?_⟩
      · rw [hfs]; simp [stop2, hp, hl]
      · simp [stop2, hp, hl, hv]
    | dir =>
      rw [hl] at hv; simp only at hv
      refine ⟨_, _, hfa1, hops, hnew1, ?_, hopen, ?_⟩
      · rw [hfs]; simp [stop2, hp, hl]
      · simp [stop2, hp, hl, hv]
    | file i =>
      rw [hl] at hv; simp only at hv
      by_cases hlt : (st.fs.content i).length < e.fileLength
      · have h2 := St.op_nofault (st.op .openrw e.fullTarget (natOpenrw e.fullTarget)).1 (.setlen e.fileLength)
          e.fullTarget (fun fs => (fs.setLen i e.fileLength, true)) (by rw [hfa1]; rfl)
        refine ⟨((st.op .openrw e.fullTarget (natOpenrw e.fullTarget)).1.op (.setlen e.fileLength) e.fullTarget
            (fun fs => (fs.setLen i e.fileLength, true))).1,
          [⟨.openrw, e.fullTarget, true⟩, ⟨.setlen e.fileLength, e.fullTarget, true⟩], ?_, ?_, ?_, ?_, ?_, ?_⟩
        · rw [h2]; exact hfa1
        · rw [h2]; simp only [hops, hv]; simp
        · intro o ho
          simp only [List.mem_cons, List.not_mem_nil, or_false] at ho
          rcases ho with rfl | rfl
          · exact ⟨hp, rfl, .inl rfl⟩
          · exact ⟨hp, rfl, .inr ⟨rfl, rfl⟩⟩
        · rw [h2]; simp [stop2, RunN.step, hp, hl, hlt, hfs]
        · intro h; simp [stop2, hp, hl] at h
        · simp [stop2, hp, hl, hv, hfs, hlt, h2]
      · refine ⟨_, _, hfa1, hops, hnew1, ?_, hopen, ?_⟩
        · rw [hfs]; simp [stop2, RunN.step, hp, hl, hlt]
        · simp [stop2, hp, hl, hv, hfs, hlt]
  · exact ⟨st, [], hf, by simp, by simp, by simp [stop2, RunN.step, hp], by simp, by simp [stop2, hp]⟩

/-- the entries the second pass processes before it stops -/
def pre2 (fs : Fs) (es : List TEntry) : List TEntry := es.takeWhile (fun e => !stop2 fs e)

theorem pre2_congr {fs fs0 : Fs} (h1 : fs.files = fs0.files) (h2 : fs.dirs = fs0.dirs) (es : List TEntry) :
    pre2 fs es = pre2 fs0 es := by
  unfold pre2
  congr 1
  funext e
  rw [stop2_congr h1 h2]

theorem pre2_sub (fs : Fs) (es : List TEntry) : ∀ e ∈ pre2 fs es, e ∈ es :=
  fun _ h => (List.takeWhile_sublist _).subset h

theorem pre2_all (fs : Fs) (es : List TEntry) (h : ∀ e ∈ es, stop2 fs e = false) : pre2 fs es = es := by
  unfold pre2
  induction es with
  | nil => rfl
  | cons e es ih =>
    rw [List.takeWhile_cons, h e List.mem_cons_self]
    simp only [Bool.not_false, if_true]
    rw [ih (fun x hx => h x (List.mem_cons_of_mem _ hx))]

/-- the second pass without faults: it fails iff some entry is a `stop2` entry; the tree it leaves is `RunN.step` folded
    over the entries before the first such entry; every `set_len` it logs succeeded and belongs to such an entry -/
theorem pass2_spec (es : List TEntry) : ∀ st : St, st.faults = [] →
    ((resizePass2 st es).2 = .error ↔ ∃ e ∈ es, stop2 st.fs e = true) ∧
    (resizePass2 st es).1.faults = [] ∧
    (resizePass2 st es).1.fs = (pre2 st.fs es).foldl RunN.step st.fs ∧
    ∃ new, (resizePass2 st es).1.ops = st.ops ++ new ∧
      ∀ o ∈ new, ∃ e ∈ es, Pass2Op e o ∧ (o.kind = .openrw ∨ e ∈ pre2 st.fs es) := by
  induction es with
  | nil => intro st hf; exact ⟨by simp [resizePass2], hf, rfl, [], by simp [resizePass2], by simp⟩
  | cons e es ih =>
    intro st hf
    obtain ⟨st', new, h1, h2, h3, h4, h5, h6⟩ := pass2_cons_nf st hf e es
    rw [h6]
    cases hs : stop2 st.fs e
    · rw [hs] at h4
      simp only [Bool.false_eq_true, if_false] at h4 ⊢
      have hf' : st'.fs.files = st.fs.files := by rw [h4, step_files]
      have hd' : st'.fs.dirs = st.fs.dirs := by rw [h4, step_dirs]
      obtain ⟨i1, i2, i3, n2, i4, i5⟩ := ih st' h1
      have hpre : pre2 st.fs (e :: es) = e :: pre2 st.fs es := by simp [pre2, hs]
      refine ⟨?_, i2, ?_, new ++ n2, by rw [i4, h2, List.append_assoc], ?_⟩
      · rw [i1]
        constructor
        · rintro ⟨x, hx, hxs⟩
          exact ⟨x, List.mem_cons_of_mem _ hx, by rw [← stop2_congr hf' hd']; exact hxs⟩
        · rintro ⟨x, hx, hxs⟩
          rcases List.mem_cons.1 hx with rfl | hx
          · rw [hs] at hxs; cases hxs
          · exact ⟨x, hx, by rw [stop2_congr hf' hd']; exact hxs⟩
      · rw [i3, hpre, pre2_congr hf' hd', h4]; rfl
      · intro o ho
        rcases List.mem_append.1 ho with ho | ho
        · exact ⟨e, List.mem_cons_self, h3 o ho, .inr (by rw [hpre]; exact List.mem_cons_self)⟩
        · obtain ⟨x, hx, hp, hor⟩ := i5 o ho
          refine ⟨x, List.mem_cons_of_mem _ hx, hp, hor.imp id (fun h => ?_)⟩
          rw [hpre, ← pre2_congr hf' hd']
          exact List.mem_cons_of_mem _ h
    · rw [hs] at h4
      simp only [if_true] at h4 ⊢
      have hpre : pre2 st.fs (e :: es) = [] := by simp [pre2, hs]
      refine ⟨⟨fun _ => ⟨e, List.mem_cons_self, hs⟩, fun _ => trivial⟩, h1, by rw [hpre, h4]; rfl, new, h2, ?_⟩
      intro o ho
      exact ⟨e, List.mem_cons_self, h3 o ho, .inl (h5 hs o ho)⟩



/-! ### the pre-flight as a whole -/

theorem fix_continue (st : St) (table : List TEntry) (h : (resizePass1 st table).2 = .continue) :
    fixExportFileLengths st table = resizePass2 (resizePass1 st table).1 table := by
  unfold fixExportFileLengths
  rcases hp : resizePass1 st table with ⟨st1, fl⟩
  rw [hp] at h
  cases h
  rfl

theorem flow_cases (f : Flow) : f = .error ∨ f = .continue := by cases f <;> simp

/-- ANY fault set: a `stop1` entry makes the pre-flight fail in its first pass: only read-only opens were logged and
    the tree is untouched -/
theorem fix_stop1_any (st : St) (table : List TEntry) (h : ∃ e ∈ table, stop1 st.fs e = true) :
    (fixExportFileLengths st table).2 = .error ∧ (fixExportFileLengths st table).1.fs = st.fs ∧
    ∃ new, (fixExportFileLengths st table).1.ops = st.ops ++ new ∧ ∀ o ∈ new, o.kind = .openr := by
  rw [fixExportFileLengths_error _ _ (pass1_detects st table h)]
  exact ⟨rfl, C14_pass1_readonly st table⟩

/-- ANY fault set: a `stop1` or a `stop2` entry makes the pre-flight fail -/
theorem fix_detects (st : St) (table : List TEntry)
    (h : (∃ e ∈ table, stop1 st.fs e = true) ∨ (∃ e ∈ table, stop2 st.fs e = true)) :
    (fixExportFileLengths st table).2 = .error := by
  rcases flow_cases (resizePass1 st table).2 with h1 | h1
  · rw [fixExportFileLengths_error _ _ h1]
  · rw [fix_continue _ _ h1]
    rcases h with h | h
    · rw [pass1_detects st table h] at h1; cases h1
    · exact pass2_detects table _ (by rw [(C14_pass1_readonly st table).1]; exact h)

/-- what the pre-flight logs: read-only opens (first pass), read+write opens and successful `set_len`s of entries
    before the entry at which the second pass stops -/
def FixOp (fs : Fs) (table : List TEntry) (o : Op) : Prop :=
  o.kind = .openr ∨ ∃ e ∈ table, Pass2Op e o ∧ (o.kind = .openrw ∨ e ∈ pre2 fs table)

/-- the pre-flight without faults -/
theorem fix_spec (st : St) (hf : st.faults = []) (table : List TEntry) :
    ((fixExportFileLengths st table).2 = .error ↔
      (∃ e ∈ table, stop1 st.fs e = true) ∨ (∃ e ∈ table, stop2 st.fs e = true)) ∧
    ((¬ ∃ e ∈ table, stop1 st.fs e = true) →
      (fixExportFileLengths st table).1.fs = (pre2 st.fs table).foldl RunN.step st.fs ∧
      (fixExportFileLengths st table).1.faults = [] ∧
      ∃ new, (fixExportFileLengths st table).1.ops = st.ops ++ new ∧ ∀ o ∈ new, FixOp st.fs table o) := by
  have h1 := pass1_error_iff table st hf
  obtain ⟨r1, n1, r2, r3⟩ := C14_pass1_readonly st table
  have rf := (resizePass1_faults st table).trans hf
  obtain ⟨p1, p2, p3, n2, p4, p5⟩ := pass2_spec table (resizePass1 st table).1 rf
  rw [r1] at p1 p3 p5
  refine ⟨⟨fun h => ?_, fix_detects st table⟩, fun hno => ?_⟩
  · rcases flow_cases (resizePass1 st table).2 with h' | h'
    · exact .inl (h1.1 h')
    · rw [fix_continue _ _ h'] at h
      exact .inr (p1.1 h)
  · have hc : (resizePass1 st table).2 = .continue := by
      rcases flow_cases (resizePass1 st table).2 with h' | h'
      · exact absurd (h1.1 h') hno
      · exact h'
    rw [fix_continue _ _ hc]
    refine ⟨p3, p2, n1 ++ n2, by rw [p4, r2, List.append_assoc], fun o ho => ?_⟩
    rcases List.mem_append.1 ho with ho | ho
    · exact .inl (r3 o ho)
    · exact .inr (p5 o ho)

/-! ## Part B: `RunN.step` folded over a list of entries -/

/-- `fs'` is `fs` with the images of some non-padding entries of `es` zero-extended: same names, same directories,
    same inode counter; the content of every inode is the old content followed by `k` zeros, and where `k ≠ 0` the
    inode is the image of an entry of `es` that declared more than the old length, and the new length is the declared
    length of such an entry -/
def Grown (fs : Fs) (es : List TEntry) (fs' : Fs) : Prop :=
  fs'.files = fs.files ∧ fs'.dirs = fs.dirs ∧ fs'.next = fs.next ∧
  ∀ i, ∃ k, fs'.content i = fs.content i ++ List.replicate k 0 ∧
    (k ≠ 0 → ∃ e ∈ es, e.isPad = false ∧ fs.look e.fullTarget = .file i ∧
      (fs.content i).length < e.fileLength ∧ (fs'.content i).length = e.fileLength)

theorem step_content (fs : Fs) (e : TEntry) (j : Nat) :
    ∃ k, (RunN.step fs e).content j = fs.content j ++ List.replicate k 0 ∧
      (k ≠ 0 → e.isPad = false ∧ fs.look e.fullTarget = .file j ∧
        (fs.content j).length < e.fileLength ∧ ((RunN.step fs e).content j).length = e.fileLength) := by
  have triv : ∃ k, fs.content j = fs.content j ++ List.replicate k 0 ∧
      (k ≠ 0 → e.isPad = false ∧ fs.look e.fullTarget = .file j ∧
        (fs.content j).length < e.fileLength ∧ (fs.content j).length = e.fileLength) :=
    ⟨0, by simp, fun h => absurd rfl h⟩
  unfold RunN.step
  cases hp : e.isPad
  · simp only [Bool.false_eq_true, if_false]
    cases hl : fs.look e.fullTarget with
    | file i =>
      simp only
      by_cases hlt : (fs.content i).length < e.fileLength
      · rw [if_pos hlt]
        by_cases hji : j = i
        · subst hji
          refine ⟨e.fileLength - (fs.content j).length,
            RunN.setLen_content_same fs j e.fileLength (Nat.le_of_lt hlt), fun _ => ⟨trivial, rfl, hlt, ?_⟩⟩
          rw [RunN.setLen_content_same fs j e.fileLength (Nat.le_of_lt hlt)]
          simp; omega
        · rw [RunN.setLen_content_other _ _ _ _ hji]
          exact ⟨0, by simp, fun h => absurd rfl h⟩
      · rw [if_neg hlt]; exact ⟨0, by simp, fun h => absurd rfl h⟩
    | notFound => exact ⟨0, by simp, fun h => absurd rfl h⟩
    | notDir => exact ⟨0, by simp, fun h => absurd rfl h⟩
    | dir => exact ⟨0, by simp, fun h => absurd rfl h⟩
  · simp only [if_true]; exact ⟨0, by simp, fun h => absurd rfl h⟩

theorem foldl_step_grown (es : List TEntry) : ∀ fs : Fs, Grown fs es (es.foldl RunN.step fs) := by
  induction es with
  | nil => intro fs; exact ⟨rfl, rfl, rfl, fun i => ⟨0, by simp, fun h => absurd rfl h⟩⟩
  | cons e es ih =>
    intro fs
    obtain ⟨g1, g2, g3, g4⟩ := ih (RunN.step fs e)
    rw [List.foldl_cons]
    refine ⟨g1.trans (step_files fs e), g2.trans (step_dirs fs e), g3.trans (step_next fs e), fun i => ?_⟩
    obtain ⟨k2, c2, w2⟩ := g4 i
    obtain ⟨k1, c1, w1⟩ := step_content fs e i
    refine ⟨k1 + k2, by rw [c2, c1, List.append_assoc, List.replicate_append_replicate], fun hk => ?_⟩
    by_cases hk2 : k2 = 0
    · subst hk2
      have hk1 : k1 ≠ 0 := by omega
      obtain ⟨a1, a2, a3, a4⟩ := w1 hk1
      refine ⟨e, List.mem_cons_self, a1, a2, a3, ?_⟩
      rw [c2]; simpa using a4
    · obtain ⟨x, hx, b1, b2, b3, b4⟩ := w2 hk2
      refine ⟨x, List.mem_cons_of_mem _ hx, b1, ?_, ?_, b4⟩
      · rw [← RunN.look_congr (step_files fs e) (step_dirs fs e)]; exact b2
      · rw [c1] at b3; simp at b3; omega

theorem Grown.mono {fs fs' : Fs} {es es' : List TEntry} (h : Grown fs es fs') (hs : ∀ e ∈ es, e ∈ es') :
    Grown fs es' fs' := by
  obtain ⟨g1, g2, g3, g4⟩ := h
  refine ⟨g1, g2, g3, fun i => ?_⟩
  obtain ⟨k, c, w⟩ := g4 i
  exact ⟨k, c, fun hk => by obtain ⟨e, he, r⟩ := w hk; exact ⟨e, hs e he, r⟩⟩

theorem Grown.refl (fs : Fs) (es : List TEntry) : Grown fs es fs :=
  ⟨rfl, rfl, rfl, fun _ => ⟨0, by simp, fun h => absurd rfl h⟩⟩


/-! ## Part C: the shape of `run` by the outcome of validation and of the pre-flight -/

/-- did validation of the scan and export arguments succeed (under the faults of `inp`)? -/
def valOk (inp : RunIn) : Bool := (validateAll ⟨inp.fs, [], inp.faults⟩ (inp.scan ++ [inp.exportDir])).2

/-- the pre-flight of the run (meaningful when `valOk inp` and `inp.resize`) -/
def fixRes (inp : RunIn) : St × Flow := fixExportFileLengths (runSt1 inp) (runTable0 inp)

theorem isEmpty_false {inp : RunIn} (hne : inp.torrents ≠ []) : inp.torrents.isEmpty = false := by
  cases ht : inp.torrents <;> simp_all

theorem run_validate_false (H : Bytes → Bytes) (inp : RunIn) (hne : inp.torrents ≠ []) (hv : valOk inp = false) :
    run H inp = ⟨.err, (runSt1 inp).ops, (runSt1 inp).fs, [], 0, true, [], [], (runSt1 inp).ops.length⟩ := by
  unfold run
  simp only [isEmpty_false hne, Bool.false_eq_true, if_false]
  unfold valOk at hv
  unfold runSt1
  rcases hval : validateAll ⟨inp.fs, [], inp.faults⟩ (inp.scan ++ [inp.exportDir]) with ⟨st1, ok⟩
  rw [hval] at hv
  simp only at hv
  subst hv
  rfl

theorem run_fix_error (H : Bytes → Bytes) (inp : RunIn) (hne : inp.torrents ≠ []) (hv : valOk inp = true)
    (hr : inp.resize = true) (hf : (fixRes inp).2 = .error) :
    run H inp = ⟨.err, (fixRes inp).1.ops, (fixRes inp).1.fs, [], 0, true, runTable0 inp, [],
      (fixRes inp).1.ops.length⟩ := by
  unfold run
  simp only [isEmpty_false hne, Bool.false_eq_true, if_false]
  unfold valOk at hv
  unfold fixRes runSt1 runTable0 at *
  rcases hval : validateAll ⟨inp.fs, [], inp.faults⟩ (inp.scan ++ [inp.exportDir]) with ⟨st1, ok⟩
  rw [hval] at hv hf
  simp only at hv hf
  subst hv
  simp only [hr, if_true]
  rcases hfix : fixExportFileLengths st1 (buildTable inp.exportDir.path (dedupTorrents (sortTorrents inp.torrents)) 0)
    with ⟨st2, fl⟩
  rw [hfix] at hf
  simp only at hf
  subst hf
  rfl

theorem ite_ne_err (b : Bool) : (if b = true then (Res.panic : Res Unit) else Res.ok ()) ≠ .err := by
  cases b <;> simp

theorem run_past_preflight (H : Bytes → Bytes) (inp : RunIn) (hne : inp.torrents ≠ []) (hv : valOk inp = true)
    (h : inp.resize = true → (fixRes inp).2 = .continue) : (run H inp).result ≠ .err := by
  unfold run
  simp only [isEmpty_false hne, Bool.false_eq_true, if_false]
  unfold valOk at hv
  unfold fixRes runSt1 runTable0 at *
  rcases hval : validateAll ⟨inp.fs, [], inp.faults⟩ (inp.scan ++ [inp.exportDir]) with ⟨st1, ok⟩
  rw [hval] at hv h
  simp only at hv h
  subst hv
  simp only
  have hflow : (if inp.resize = true then fixExportFileLengths st1
      (buildTable inp.exportDir.path (dedupTorrents (sortTorrents inp.torrents)) 0) else (st1, Flow.continue)).2
      = .continue := by
    split
    · rename_i hr; exact h hr
    · rfl
  rcases hfix : (if inp.resize = true then fixExportFileLengths st1
      (buildTable inp.exportDir.path (dedupTorrents (sortTorrents inp.torrents)) 0) else (st1, Flow.continue))
    with ⟨st2, fl⟩
  rw [hfix] at hflow
  simp only at hflow
  subst hflow
  simp only
  split
  · intro hc; cases hc
  · exact ite_ne_err _


/-! ## Part D: the progress records, with or without a panic -/

/-- evaluating a list of work items appends one record per evaluated item; the `k`-th new record sums to `k + 1` more
    than the start; all items were evaluated iff there was no panic -/
theorem solveAll_records (H : Bytes → Bytes) (st : St) (ws : List Work) (c : Counters) (acc : List Counters) :
    ∃ recs, (solveAll H st ws c acc).2.1 = acc ++ recs ∧
      ((solveAll H st ws c acc).2.2 = false → recs.length = ws.length) ∧
      ((solveAll H st ws c acc).2.2 = true → recs.length < ws.length) ∧
      ∀ k (hk : k < recs.length),
        recs[k].success + recs[k].failed + recs[k].fault = c.success + c.failed + c.fault + (k + 1) := by
  induction ws generalizing st c acc with
  | nil => exact ⟨[], by simp [solveAll], by simp [solveAll], by simp [solveAll], by simp⟩
  | cons w ws ih =>
    rw [solveAll_cons]
    by_cases hp : (solvePiece H st w).2 = .panic
    · rw [if_pos hp]
      exact ⟨[], by simp, by simp, by simp, by simp⟩
    · rw [if_neg hp]
      obtain ⟨recs, h1, h2, h2', h3⟩ := ih (solvePiece H st w).1 (c.bump (solvePiece H st w).2)
        (acc ++ [c.bump (solvePiece H st w).2])
      refine ⟨c.bump (solvePiece H st w).2 :: recs, by rw [h1]; simp,
        fun h => by simp [h2 h], fun h => by have := h2' h; simp; omega, ?_⟩
      intro k hk
      cases k with
      | zero => simpa using Counters.bump_sum c _ hp
      | succ k =>
        have := h3 k (by simpa using hk)
        rw [Counters.bump_sum c _ hp] at this
        simp only [List.getElem_cons_succ]
        omega


/-- the bookkeeping fields of a run: either nothing was evaluated (`total = 0`, no record, empty work list: no torrents,
    an error, or the panic of `convert_pieces_to_work`), or the records are those of `solveAll` on a permutation-length
    list of the work items -/
theorem run_book (H : Bytes → Bytes) (inp : RunIn) :
    ((run H inp).total = 0 ∧ (run H inp).counters = [] ∧ (run H inp).work = []) ∨
    ∃ st ordered, ordered.length = (run H inp).work.length ∧ (run H inp).total = (run H inp).work.length ∧
      (run H inp).result = (if (solveAll H st ordered ⟨0, 0, 0⟩ []).2.2 then .panic else .ok ()) ∧
      (run H inp).counters = (solveAll H st ordered ⟨0, 0, 0⟩ []).2.1 := by
  unfold run
  simp only []
  split
  · exact .inl ⟨rfl, rfl, rfl⟩
  split
  · exact .inl ⟨rfl, rfl, rfl⟩
  · split
    · exact .inl ⟨rfl, rfl, rfl⟩
    · split
      · exact .inl ⟨rfl, rfl, rfl⟩
      · rename_i work hwork
        refine .inr ⟨_, (match reorder work inp.order with
                          | some o => (o, true)
                          | none => (defaultOrder work, inp.order.isEmpty)).fst, ?_, rfl, rfl, rfl⟩
        simp only
        cases hr : reorder work inp.order with
        | some o => exact reorder_length _ _ _ hr
        | none => simp [defaultOrder]

end TB.RunY
