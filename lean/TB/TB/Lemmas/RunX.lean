/-
  Helper lemmas (RunX): the critical sections of `FileWriter::write` commute.

  A critical section is what one worker does under the per-file lock for one segment of a verified piece:
  `create_dir_all(parent)`, open(write, create, no truncate), `set_len(declared length)`, seek, `write_all`.
  The executor model treats a whole piece evaluation as one atomic step; here the sections of different pieces
  are exchanged one by one.

  Route. Inode numbers of freshly created files depend on the order of creation, so two orders are compared through
  the observable part of the tree (`View`: which paths are directories, the bytes behind every bound name, which
  names share a file). On a well-formed tree a critical section is a function `vcrit` of the view alone
  (`crit_view`), and on views two compatible sections commute with EQUALITY (`vcrit_comm`). Lists of sections, blocks
  of sections and permutations of blocks are then handled on views (`vrun_perm`), and carried back to trees by
  `crits_view`.
-/
import TB.Props.C04a
import TB.Lemmas.RunR
import TB.Lemmas.RunK
namespace TB.RunX
open TB

/-! ### X1: `set_len` and positional writes on byte strings -/

/-- `set_len` on a byte string -/
def sl (n : Nat) (c : Bytes) : Bytes := if n ≤ c.length then c.take n else c ++ List.replicate (n - c.length) 0
/-- positional write on a byte string -/
def wr (off : Nat) (bs : Bytes) (c : Bytes) : Bytes :=
  let c' := if off ≤ c.length then c else c ++ List.replicate (off - c.length) 0
  c'.take off ++ bs ++ c'.drop (off + bs.length)

theorem setLen_eq (fs : Fs) (i n : Nat) : fs.setLen i n = fs.setData i (sl n (fs.content i)) := rfl
theorem writeAt_eq (fs : Fs) (i off : Nat) (d : Bytes) : fs.writeAt i off d = fs.setData i (wr off d (fs.content i)) := rfl

theorem sl_length (n : Nat) (c : Bytes) : (sl n c).length = n := by
  unfold sl; split <;> simp <;> omega

theorem sl_get (n : Nat) (c : Bytes) (k : Nat) : (sl n c)[k]? = if k < n then some (c[k]?.getD 0) else none := by
  unfold sl
  split
  · rw [List.getElem?_take]
    split
    · have : k < c.length := by omega
      simp [this]
    · rfl
  · rw [List.getElem?_append]
    split
    · rename_i h; simp [h]; omega
    · rename_i h'
      have hn : c[k]? = none := List.getElem?_eq_none (by omega)
      rw [List.getElem?_replicate, hn]
      split <;> split <;> first | omega | rfl

theorem wr_length (off : Nat) (d c : Bytes) : (wr off d c).length = max c.length (off + d.length) := by
  unfold wr; simp only; split <;> simp <;> omega

theorem wr_get (off : Nat) (d c : Bytes) (k : Nat) :
    (wr off d c)[k]? = if k < off then some (c[k]?.getD 0) else if k < off + d.length then d[k - off]? else c[k]? := by
  unfold wr
  simp only
  split
  · rename_i h
    rw [RunJ.getElem?_write _ _ _ h]
    split
    · have : k < c.length := by omega
      simp [this]
    · rfl
  · rename_i h
    rw [RunJ.getElem?_write _ _ _ (by simp; omega)]
    split
    · rw [List.getElem?_append]
      split
      · rename_i h'; simp [h']
      · rename_i h'
        have hn : c[k]? = none := List.getElem?_eq_none (by omega)
        rw [List.getElem?_replicate, hn, if_pos (by omega)]; rfl
    · split
      · rfl
      · have hn : c[k]? = none := List.getElem?_eq_none (by omega)
        rw [hn]
        apply List.getElem?_eq_none
        simp; omega

theorem some_getD {d : Bytes} {j : Nat} (h : j < d.length) : some (d[j]?.getD 0) = d[j]? := by
  rw [List.getElem?_eq_getElem h]; rfl

theorem sl_of_length (n : Nat) (c : Bytes) (h : c.length = n) : sl n c = c := by
  unfold sl; rw [if_pos (by omega), ← h, List.take_length]

theorem sl_idem (n : Nat) (c : Bytes) : sl n (sl n c) = sl n c := sl_of_length _ _ (sl_length n c)

theorem wr_comm (o1 o2 : Nat) (d1 d2 c : Bytes) (h : o1 + d1.length ≤ o2 ∨ o2 + d2.length ≤ o1) :
    wr o1 d1 (wr o2 d2 c) = wr o2 d2 (wr o1 d1 c) := by
  apply List.ext_getElem?
  intro k
  simp only [wr_get]
  by_cases h1 : k < o1 <;> by_cases h2 : k < o2 <;> by_cases h3 : k < o1 + d1.length <;>
    by_cases h4 : k < o2 + d2.length <;> simp [h1, h2, h3, h4] <;> (try omega) <;>
    first | exact some_getD (by omega) | exact (some_getD (by omega)).symm

theorem sl_wr_comm (n off : Nat) (d c : Bytes) (h : off + d.length ≤ n) :
    sl n (wr off d c) = wr off d (sl n c) := by
  apply List.ext_getElem?
  intro k
  simp only [wr_get, sl_get]
  by_cases h1 : k < off <;> by_cases h2 : k < n <;> by_cases h3 : k < off + d.length <;>
    simp [h1, h2, h3] <;> (try omega) <;>
    first | exact some_getD (by omega) | exact (some_getD (by omega)).symm

/-! ### `create_dir_all`, exactly -/

/-- the directories `create_dir_all (parent t)` walks through -/
def mk (t : Path) : List Path := Fs.properPrefixes t.dropLast ++ [t.dropLast]

theorem mkdirsAux_exact (l : List Path) : ∀ (fs fs' : Fs), Fs.mkdirsAux fs l = some fs' →
    fs'.files = fs.files ∧ fs'.data = fs.data ∧ fs'.next = fs.next ∧
    ∀ p, fs'.isDir p = (fs.isDir p || l.contains p) := by
  induction l with
  | nil =>
    intro fs fs' h
    simp only [Fs.mkdirsAux, Option.some.injEq] at h
    subst h
    exact ⟨rfl, rfl, rfl, fun p => by simp⟩
  | cons q rest ih =>
    intro fs fs' h
    simp only [Fs.mkdirsAux] at h
    split at h
    · rename_i hq
      obtain ⟨h1, h2, h3, h4⟩ := ih _ _ h
      refine ⟨h1, h2, h3, fun p => ?_⟩
      rw [h4, List.contains_cons]
      by_cases hp : p = q
      · subst hp; simp [hq]
      · have : (p == q) = false := by simpa using hp
        simp [this]
    · split at h
      · cases h
      · obtain ⟨h1, h2, h3, h4⟩ := ih _ _ h
        refine ⟨h1, h2, h3, fun p => ?_⟩
        rw [h4, RunF.isDir_cons, List.contains_cons, Bool.or_assoc]

theorem mkdirsAux_isSome_iff (l : List Path) : ∀ (fs : Fs),
    (Fs.mkdirsAux fs l).isSome = true ↔ ∀ q ∈ l, fs.isDir q = true ∨ fs.inoOf q = none := by
  induction l with
  | nil => intro fs; simp [Fs.mkdirsAux]
  | cons q rest ih =>
    intro fs
    simp only [Fs.mkdirsAux]
    split
    · rename_i hq
      rw [ih]
      simp [hq]
    · rename_i hq
      split
      · rename_i hs
        simp only [Option.isSome_none, Bool.false_eq_true, List.mem_cons, forall_eq_or_imp, false_iff]
        intro ⟨h, _⟩
        rcases h with h | h
        · exact hq h
        · rw [h] at hs; cases hs
      · rename_i hs
        have hn : fs.inoOf q = none := by
          cases hh : fs.inoOf q with
          | none => rfl
          | some _ => rw [hh] at hs; simp at hs
        rw [ih]
        simp only [List.mem_cons, forall_eq_or_imp, hn, or_true, true_and]
        constructor
        · intro h x hx
          rcases h x hx with h | h
          · rw [RunF.isDir_cons, Bool.or_eq_true] at h
            rcases h with h | h
            · exact Or.inl h
            · right
              have : x = q := by simpa using h
              rw [this]; exact hn
          · exact Or.inr h
        · intro h x hx
          rcases h x hx with h | h
          · left; rw [RunF.isDir_cons, h]; rfl
          · exact Or.inr h

/-- in a well-formed tree a directory is not a regular file -/
theorem wf_dir_not_file {fs : Fs} (hwf : FsWF fs) {q : Path} (h : fs.isDir q = true) : fs.inoOf q = none := by
  cases hq : fs.inoOf q with
  | none => rfl
  | some i =>
    have := hwf.2.2.1 q i (RunF.inoOf_mem hq)
    rw [h] at this; cases this

theorem mkdirs_ok_iff {fs : Fs} (hwf : FsWF fs) (d : Path) :
    (fs.mkdirs d).2 = true ↔ ∀ q ∈ Fs.properPrefixes d ++ [d], fs.inoOf q = none := by
  have key := mkdirsAux_isSome_iff (Fs.properPrefixes d ++ [d]) fs
  have e : (fs.mkdirs d).2 = (Fs.mkdirsAux fs (Fs.properPrefixes d ++ [d])).isSome := by
    unfold Fs.mkdirs
    split <;> rename_i h <;> rw [h] <;> rfl
  rw [e, key]
  constructor
  · intro h q hq
    rcases h q hq with h | h
    · exact wf_dir_not_file hwf h
    · exact h
  · intro h q hq; exact Or.inr (h q hq)

theorem mkdirs_exact {fs : Fs} (d : Path) (h : (fs.mkdirs d).2 = true) :
    (fs.mkdirs d).1.files = fs.files ∧ (fs.mkdirs d).1.data = fs.data ∧ (fs.mkdirs d).1.next = fs.next ∧
    ∀ p, (fs.mkdirs d).1.isDir p = (fs.isDir p || (Fs.properPrefixes d ++ [d]).contains p) := by
  unfold Fs.mkdirs at h ⊢
  split at h
  · rename_i fs' e
    exact mkdirsAux_exact _ _ _ e
  · cases h
end TB.RunX

namespace TB

/-! ### the critical section -/

/-- the parameters of one critical section of `FileWriter::write`: target path, declared file length, offset and
    bytes of the segment -/
structure Sec where
  t : Path
  L : Nat
  off : Nat
  d : Bytes
deriving Repr, DecidableEq

/-- one critical section, as `writeSegs` (TB.Model.Run) performs it for one segment when no operation faults:
    `create_dir_all (parent t)`; open(write, create, no truncate) `t`; the handle is the inode `look t` now gives;
    `set_len L`; positional write of `d` at `off`. `none` = one of the steps fails (the writer answers `fault`);
    `RunX.writeOne_nil` / `RunX.writeOne_nil_conv` tie it to the model. -/
def Fs.crit (fs : Fs) (t : Path) (L off : Nat) (d : Bytes) : Option Fs :=
  let r1 := fs.mkdirs t.dropLast
  if !r1.2 then none else
  let r2 := r1.1.openCreate t
  if !r2.2.isSome then none else
  match r2.1.look t with
  | .file i => some ((r2.1.setLen i L).writeAt i off d)
  | _ => none

end TB
namespace TB.RunX
open TB

def upd (L off : Nat) (d : Bytes) (c : Bytes) : Bytes := wr off d (sl L c)

/-- what a successful critical section did, in terms of names, inodes and contents -/
structure CritSpec (fs : Fs) (t : Path) (L off : Nat) (d : Bytes) (fs' : Fs) (i : Nat) : Prop where
  wf : FsWF fs'
  dir : ∀ p, fs'.isDir p = (fs.isDir p || (mk t).contains p)
  ino_t : fs'.inoOf t = some i
  ino_other : ∀ p, p ≠ t → fs'.inoOf p = fs.inoOf p
  origin : (fs.inoOf t = some i ∧ fs'.content i = upd L off d (fs.content i)) ∨
           (fs.inoOf t = none ∧ i = fs.next ∧ fs'.content i = upd L off d [])
  content_other : ∀ j, j ≠ i → fs'.content j = fs.content j

theorem content_setData_ne (fs : Fs) (i j : Nat) (bs : Bytes) (h : j ≠ i) : (fs.setData i bs).content j = fs.content j :=
  RB.Fs.content_setData_other fs i j bs h

theorem look_of_prefixes_free {fs : Fs} {t : Path} (h : ∀ q ∈ Fs.properPrefixes t, fs.inoOf q = none) :
    fs.look t = if fs.isDir t then .dir else match fs.inoOf t with | some i => .file i | none => .notFound := by
  unfold Fs.look
  have : (Fs.properPrefixes t).any (fun q => (fs.inoOf q).isSome) = false := by
    rw [List.any_eq_false]
    intro q hq
    rw [h q hq]; simp
  rw [this]
  simp only [Bool.false_eq_true, if_false]
  split
  · rfl
  · cases fs.inoOf t with
    | some i => rfl
    | none => simp

theorem crit_none_of_blocked {fs : Fs} (hwf : FsWF fs) (t : Path) (L off : Nat) (d : Bytes)
    (h : ¬ ∀ q ∈ mk t, fs.inoOf q = none) : fs.crit t L off d = none := by
  have : (fs.mkdirs t.dropLast).2 = false := by
    cases hh : (fs.mkdirs t.dropLast).2 with
    | false => rfl
    | true => exact absurd ((mkdirs_ok_iff hwf _).1 hh) h
  unfold Fs.crit
  simp [this]


theorem mem_mk_of_properPrefix {t q : Path} (h : q ∈ Fs.properPrefixes t) : q ∈ mk t :=
  RunF.properPrefixes_sub_dropLast h

/-- the part of a critical section after `create_dir_all` -/
def critOpen (fs1 : Fs) (t : Path) (L off : Nat) (d : Bytes) : Option Fs :=
  let r2 := fs1.openCreate t
  if !r2.2.isSome then none else
  match r2.1.look t with
  | .file i => some ((r2.1.setLen i L).writeAt i off d)
  | _ => none

theorem crit_eq (fs : Fs) (t : Path) (L off : Nat) (d : Bytes) :
    fs.crit t L off d = if (fs.mkdirs t.dropLast).2 then critOpen (fs.mkdirs t.dropLast).1 t L off d else none := by
  simp only [Fs.crit, critOpen]
  cases h : (fs.mkdirs t.dropLast).2 <;> simp

theorem critOpen_dir {fs1 : Fs} {t : Path} (L off : Nat) (d : Bytes) (hl : fs1.look t = .dir) :
    critOpen fs1 t L off d = none := by
  unfold critOpen Fs.openCreate
  rw [hl]; rfl

theorem critOpen_file {fs1 : Fs} {t : Path} (L off : Nat) (d : Bytes) {i : Nat} (hl : fs1.look t = .file i) :
    critOpen fs1 t L off d = some ((fs1.setLen i L).writeAt i off d) := by
  unfold critOpen Fs.openCreate
  rw [hl]
  simp only [Option.isSome_some, Bool.not_true, Bool.false_eq_true, if_false, hl]

theorem critOpen_new {fs1 : Fs} {t : Path} (L off : Nat) (d : Bytes) (hl : fs1.look t = .notFound)
    (hpar : fs1.isDir t.dropLast = true) (hl2 : (RunF.addFile fs1 t).look t = .file fs1.next) :
    critOpen fs1 t L off d = some (((RunF.addFile fs1 t).setLen fs1.next L).writeAt fs1.next off d) := by
  have e : fs1.openCreate t = (RunF.addFile fs1 t, some fs1.next) := by
    unfold Fs.openCreate
    rw [hl]
    simp only [hpar, if_true]
    rfl
  unfold critOpen
  rw [e]
  simp only [Option.isSome_some, Bool.not_true, Bool.false_eq_true, if_false, hl2]

theorem crit_eval {fs : Fs} (hwf : FsWF fs) (t : Path) (L off : Nat) (d : Bytes)
    (hok : ∀ q ∈ mk t, fs.inoOf q = none) :
    ((fs.mkdirs t.dropLast).1.isDir t = true → fs.crit t L off d = none) ∧
    ((fs.mkdirs t.dropLast).1.isDir t = false → ∀ i, fs.inoOf t = some i →
      fs.crit t L off d = some (((fs.mkdirs t.dropLast).1.setLen i L).writeAt i off d)) ∧
    ((fs.mkdirs t.dropLast).1.isDir t = false → fs.inoOf t = none →
      fs.crit t L off d
        = some (((RunF.addFile (fs.mkdirs t.dropLast).1 t).setLen fs.next L).writeAt fs.next off d)
      ∧ FsWF (RunF.addFile (fs.mkdirs t.dropLast).1 t)) := by
  have hwf1 : FsWF (fs.mkdirs t.dropLast).1 := (RunF.loc_mkdirs (fun _ => True) fs _).wf hwf
  have hm : (fs.mkdirs t.dropLast).2 = true := (mkdirs_ok_iff hwf _).2 hok
  obtain ⟨e1, e2, e3, e4⟩ := mkdirs_exact _ hm
  rw [crit_eq, hm, if_pos rfl]
  generalize (fs.mkdirs t.dropLast).1 = fs1 at *
  have hino : ∀ p, fs1.inoOf p = fs.inoOf p := RunF.inoOf_congr e1
  have hfree : ∀ q ∈ Fs.properPrefixes t, fs1.inoOf q = none := fun q hq => by
    rw [hino]; exact hok q (mem_mk_of_properPrefix hq)
  have hl := look_of_prefixes_free hfree
  refine ⟨?_, ?_, ?_⟩
  · intro hd
    rw [hd] at hl
    exact critOpen_dir L off d hl
  · intro hd i hi
    rw [hd, hino, hi] at hl
    exact critOpen_file L off d hl
  · intro hd hi
    rw [hd, hino, hi] at hl
    have hpar : fs1.isDir t.dropLast = true := by
      rw [e4]
      simp
    have hl2 : (RunF.addFile fs1 t).look t = .file fs1.next := by
      apply RunF.look_file_of
      · rw [List.any_eq_false]
        intro q hq
        rw [RunF.inoOf_addFile, if_neg (fun e => RunF.properPrefix_ne hq e.symm), hfree q hq]
        simp
      · rw [RunF.isDir_addFile]; exact hd
      · rw [RunF.inoOf_addFile, if_pos rfl]
    rw [← e3]
    refine ⟨critOpen_new L off d hl hpar hl2, (RunF.loc_addFile (T := fun _ => True) trivial hl ?_).wf hwf1⟩
    intro q hq
    rw [e4]
    have := mem_mk_of_properPrefix hq
    unfold mk at this
    simp [this]

theorem wf_setData {fs : Fs} (hwf : FsWF fs) (i : Nat) (bs : Bytes) : FsWF (fs.setData i bs) :=
  RunR.wf_congr (fs := fs) rfl rfl rfl hwf

theorem content_setData (fs : Fs) (i j : Nat) (bs : Bytes) :
    (fs.setData i bs).content j = if j = i then bs else fs.content j := by
  split
  · rename_i h; subst h; exact RD.Fs.content_setData _ _ _
  · rename_i h; exact content_setData_ne _ _ _ _ h

/-- success of a critical section from a well-formed tree -/
def CritOk (fs : Fs) (t : Path) : Prop :=
  (∀ q ∈ mk t, fs.inoOf q = none) ∧ (fs.isDir t || (mk t).contains t) = false

theorem crit_spec {fs : Fs} (hwf : FsWF fs) (t : Path) (L off : Nat) (d : Bytes) :
    (¬ CritOk fs t ∧ fs.crit t L off d = none) ∨
    (CritOk fs t ∧ ∃ fs' i, fs.crit t L off d = some fs' ∧ CritSpec fs t L off d fs' i) := by
  by_cases hok : ∀ q ∈ mk t, fs.inoOf q = none
  · obtain ⟨c1, c2, c3⟩ := crit_eval hwf t L off d hok
    have hm : (fs.mkdirs t.dropLast).2 = true := (mkdirs_ok_iff hwf _).2 hok
    obtain ⟨e1, e2, e3, e4⟩ := mkdirs_exact _ hm
    have hwf1 : FsWF (fs.mkdirs t.dropLast).1 := (RunF.loc_mkdirs (fun _ => True) fs _).wf hwf
    generalize (fs.mkdirs t.dropLast).1 = fs1 at *
    have hino : ∀ p, fs1.inoOf p = fs.inoOf p := RunF.inoOf_congr e1
    have hcon : ∀ j, fs1.content j = fs.content j := RunF.content_congr e2
    cases hd : fs1.isDir t with
    | true =>
      left
      refine ⟨fun h => ?_, c1 hd⟩
      have := h.2
      rw [e4] at hd
      unfold mk at this
      rw [hd] at this; cases this
    | false =>
      right
      have hd' : (fs.isDir t || (mk t).contains t) = false := by rw [← hd, e4]; rfl
      refine ⟨⟨hok, hd'⟩, ?_⟩
      cases hi : fs.inoOf t with
      | some i =>
        refine ⟨_, i, c2 hd i hi, ?_⟩
        rw [setLen_eq, writeAt_eq]
        refine ⟨wf_setData (wf_setData hwf1 _ _) _ _, fun p => e4 p, (hino t).trans hi,
          fun p _ => hino p, Or.inl ⟨hi, ?_⟩, ?_⟩
        · simp only [content_setData, if_true, hcon]; rfl
        · intro j hj
          simp only [content_setData, if_neg hj, hcon]
      | none =>
        obtain ⟨c3, hwf2⟩ := c3 hd hi
        refine ⟨_, fs.next, c3, ?_⟩
        rw [setLen_eq, writeAt_eq]
        refine ⟨wf_setData (wf_setData hwf2 _ _) _ _, fun p => e4 p, ?_, ?_, Or.inr ⟨hi, rfl, ?_⟩, ?_⟩
        · show (RunF.addFile fs1 t).inoOf t = _
          rw [RunF.inoOf_addFile, if_pos rfl, e3]
        · intro p hp
          show (RunF.addFile fs1 t).inoOf p = _
          rw [RunF.inoOf_addFile, if_neg (fun e => hp e.symm), hino]
        · simp only [content_setData, if_true]
          rw [← e3, RunJ.content_addFile_new]; rfl
        · intro j hj
          simp only [content_setData, if_neg hj]
          rw [RunF.content_addFile _ _ _ (by rw [e3]; exact hj), hcon]
  · left
    exact ⟨fun h => hok h.1, crit_none_of_blocked hwf t L off d hok⟩
end TB.RunX

namespace TB

/-! ### observational equivalence and the observable part of a tree -/

/-- observational equivalence of two trees — what a tool that opens paths can tell apart: the same directories;
    the same bound names; behind every bound name the same bytes (the inode NUMBERS may differ: a created file gets
    the next free number, which depends on the order of creation); and the same pairs of bound names share a file
    (so that a later write through one name shows through the other in both trees or in neither).
    `dirs`/`files`/`data` as lists, `next`, and the content of unbound inodes are not observable. -/
def ObsEq (fs fs' : Fs) : Prop :=
  (∀ p, fs.isDir p = fs'.isDir p) ∧
  (∀ p, (fs.inoOf p).isSome = (fs'.inoOf p).isSome) ∧
  (∀ p i j, fs.inoOf p = some i → fs'.inoOf p = some j → fs.content i = fs'.content j) ∧
  (∀ p q, (fs.inoOf p).isSome = true → (fs.inoOf q).isSome = true →
    (fs.inoOf p = fs.inoOf q ↔ fs'.inoOf p = fs'.inoOf q))

end TB
namespace TB.RunX
open TB

/-- the observable part of a tree: `D p` — `p` is a directory; `F p` — the bytes behind the name `p`, if bound;
    `A p q` — `p` and `q` are bound to the same inode -/
structure View where
  D : Path → Bool
  F : Path → Option Bytes
  A : Path → Path → Bool

theorem View.ext' {v w : View} (hD : ∀ p, v.D p = w.D p) (hF : ∀ p, v.F p = w.F p) (hA : ∀ p q, v.A p q = w.A p q) :
    v = w := by
  cases v; cases w
  simp only [View.mk.injEq]
  exact ⟨funext hD, funext hF, funext fun p => funext fun q => hA p q⟩

def view (fs : Fs) : View :=
  ⟨fs.isDir, fun p => (fs.inoOf p).map fs.content, fun p q => (fs.inoOf p).isSome && fs.inoOf p == fs.inoOf q⟩

theorem obsEq_iff_view (fs fs' : Fs) : ObsEq fs fs' ↔ view fs = view fs' := by
  constructor
  · rintro ⟨h1, h2, h3, h4⟩
    apply View.ext'
    · exact h1
    · intro p
      show (fs.inoOf p).map fs.content = (fs'.inoOf p).map fs'.content
      have := h2 p
      cases hp : fs.inoOf p with
      | none =>
        rw [hp] at this
        cases hp' : fs'.inoOf p with
        | none => rfl
        | some j => rw [hp'] at this; cases this
      | some i =>
        rw [hp] at this
        cases hp' : fs'.inoOf p with
        | none => rw [hp'] at this; cases this
        | some j => simp [h3 p i j hp hp']
    · intro p q
      show ((fs.inoOf p).isSome && fs.inoOf p == fs.inoOf q) = ((fs'.inoOf p).isSome && fs'.inoOf p == fs'.inoOf q)
      have h2p := h2 p
      have h2q := h2 q
      cases hp : fs.inoOf p with
      | none =>
        rw [hp] at h2p
        cases hp' : fs'.inoOf p with
        | none => rfl
        | some j => rw [hp'] at h2p; cases h2p
      | some i =>
        rw [hp] at h2p
        cases hp' : fs'.inoOf p with
        | none => rw [hp'] at h2p; cases h2p
        | some j =>
          cases hq : fs.inoOf q with
          | none =>
            rw [hq] at h2q
            cases hq' : fs'.inoOf q with
            | none => rfl
            | some j => rw [hq'] at h2q; cases h2q
          | some i' =>
            have := h4 p q (by rw [hp]; rfl) (by rw [hq]; rfl)
            rw [hp, hq, hp'] at this
            simp only [Option.isSome_some, Bool.true_and]
            rw [Bool.eq_iff_iff]
            simpa using this
  · intro h
    have hD : ∀ p, fs.isDir p = fs'.isDir p := fun p => congrFun (congrArg View.D h) p
    have hF : ∀ p, (fs.inoOf p).map fs.content = (fs'.inoOf p).map fs'.content :=
      fun p => congrFun (congrArg View.F h) p
    have hA : ∀ p q, ((fs.inoOf p).isSome && fs.inoOf p == fs.inoOf q)
        = ((fs'.inoOf p).isSome && fs'.inoOf p == fs'.inoOf q) :=
      fun p q => congrFun (congrFun (congrArg View.A h) p) q
    have h2 : ∀ p, (fs.inoOf p).isSome = (fs'.inoOf p).isSome := by
      intro p
      have := congrArg Option.isSome (hF p)
      simpa using this
    refine ⟨hD, h2, ?_, ?_⟩
    · intro p i j hi hj
      have := hF p
      rw [hi, hj] at this
      simpa using this
    · intro p q hp _
      have := hA p q
      rw [← h2 p, hp, Bool.true_and, Bool.true_and, Bool.eq_iff_iff] at this
      simpa using this


/-- a critical section on the observable part of a tree: it succeeds when none of the names `create_dir_all` walks
    through is a regular file and the target is not a directory; then the walked names are directories, the target
    and every name sharing its inode show `set_len L; write off d` applied to the old bytes (`[]` for a new file),
    and a new target shares its file with nobody -/
def vcrit (v : View) (s : Sec) : Option View :=
  if (mk s.t).all (fun q => (v.F q).isNone) && !(v.D s.t || (mk s.t).contains s.t) then
    some ⟨fun p => v.D p || (mk s.t).contains p,
          fun p => if p = s.t ∨ v.A p s.t = true then some (upd s.L s.off s.d ((v.F s.t).getD [])) else v.F p,
          fun p q => v.A p q || (p == s.t && q == s.t)⟩
  else none

theorem vcrit_cond_iff (fs : Fs) (t : Path) :
    ((mk t).all (fun q => ((view fs).F q).isNone) && !((view fs).D t || (mk t).contains t)) = true ↔ CritOk fs t := by
  unfold CritOk view
  simp only [Bool.and_eq_true, List.all_eq_true, Bool.not_eq_true', Option.isNone_iff_eq_none, Option.map_eq_none_iff]

/-- HOMOMORPHISM: on a well-formed tree, the observable part of the result of a critical section (and whether there
    is a result) is `vcrit` of the observable part of the tree. `FsWF` is used for: a directory is not a regular
    file (so `create_dir_all` fails exactly at regular files), bound inodes are below `next` (so the created inode
    is shared with nobody). -/
theorem crit_view {fs : Fs} (hwf : FsWF fs) (s : Sec) :
    (fs.crit s.t s.L s.off s.d).map view = vcrit (view fs) s := by
  obtain ⟨t, L, off, d⟩ := s
  simp only
  rcases crit_spec hwf t L off d with ⟨hno, hc⟩ | ⟨hok, fs', i, hc, sp⟩
  · rw [hc]
    unfold vcrit
    rw [if_neg (fun h => hno ((vcrit_cond_iff fs t).1 h))]
    rfl
  · rw [hc]
    unfold vcrit
    rw [if_pos ((vcrit_cond_iff fs t).2 hok)]
    simp only [Option.map_some, Option.some.injEq]
    have hlt : ∀ p j, fs.inoOf p = some j → j < fs.next := fun p j h => RunF.inoOf_lt hwf h
    apply View.ext'
    · exact sp.dir
    · intro p
      show (fs'.inoOf p).map fs'.content = if p = t ∨ ((fs.inoOf p).isSome && fs.inoOf p == fs.inoOf t) = true
        then some (upd L off d (((fs.inoOf t).map fs.content).getD [])) else (fs.inoOf p).map fs.content
      by_cases hp : p = t
      · subst hp
        rw [if_pos (Or.inl rfl), sp.ino_t]
        rcases sp.origin with ⟨h1, h2⟩ | ⟨h1, _, h2⟩
        · rw [h1]; simp [h2]
        · rw [h1]; simp [h2]
      · rw [sp.ino_other p hp]
        cases hj : fs.inoOf p with
        | none => simp [hp]
        | some j =>
          rcases sp.origin with ⟨h1, h2⟩ | ⟨h1, h3, h2⟩
          · rw [h1]
            by_cases hji : j = i
            · subst hji; simp [h2]
            · have : ¬ (some j = some i) := fun e => hji (Option.some.inj e)
              simp [hp, hji, sp.content_other j hji]
          · have hji : j ≠ i := by have := hlt p j hj; omega
            rw [h1]
            simp [hp, sp.content_other j hji]
    · intro p q
      show ((fs'.inoOf p).isSome && fs'.inoOf p == fs'.inoOf q)
        = (((fs.inoOf p).isSome && fs.inoOf p == fs.inoOf q) || (p == t && q == t))
      by_cases hp : p = t <;> by_cases hq : q = t
      · subst hp; subst hq; simp [sp.ino_t]
      · subst hp
        rw [sp.ino_t, sp.ino_other q hq]
        rcases sp.origin with ⟨h1, _⟩ | ⟨h1, h3, _⟩
        · simp [h1, hq]
        · rw [h1]
          have hne : (q == p) = false := by simpa using hq
          cases hj : fs.inoOf q with
          | none => simp [hne]
          | some j =>
            have : i ≠ j := by have := hlt q j hj; omega
            simp [hne, this]
      · subst hq
        rw [sp.ino_t, sp.ino_other p hp]
        rcases sp.origin with ⟨h1, _⟩ | ⟨h1, h3, _⟩
        · simp [h1, hp]
        · rw [h1]
          have hne : (p == q) = false := by simpa using hp
          cases hj : fs.inoOf p with
          | none => simp [hne]
          | some j =>
            have : j ≠ i := by have := hlt p j hj; omega
            simp [hne, this]
      · rw [sp.ino_other p hp, sp.ino_other q hq]
        simp [hp, hq]

theorem crit_wf {fs fs' : Fs} (hwf : FsWF fs) {t : Path} {L off : Nat} {d : Bytes}
    (h : fs.crit t L off d = some fs') : FsWF fs' := by
  rcases crit_spec hwf t L off d with ⟨_, hc⟩ | ⟨_, fs'', i, hc, sp⟩
  · rw [hc] at h; cases h
  · rw [hc] at h; cases h; exact sp.wf


/-! ### two critical sections on a view commute -/

theorem upd_comm (L o1 o2 : Nat) (d1 d2 c : Bytes) (h1 : o1 + d1.length ≤ L) (h2 : o2 + d2.length ≤ L)
    (h : o1 + d1.length ≤ o2 ∨ o2 + d2.length ≤ o1) :
    upd L o2 d2 (upd L o1 d1 c) = upd L o1 d1 (upd L o2 d2 c) := by
  unfold upd
  rw [sl_wr_comm L o1 d1 _ h1, sl_wr_comm L o2 d2 _ h2, sl_idem, wr_comm o2 o1 d2 d1 _ h.symm]

/-- the alias relation of a view is a partial equivalence whose domain lies inside the bound names -/
structure VInv (v : View) : Prop where
  sym : ∀ p q, v.A p q = true → v.A q p = true
  trans : ∀ p q r, v.A p q = true → v.A q r = true → v.A p r = true
  dom : ∀ p q, v.A p q = true → (v.F p).isSome = true

theorem vinv_view (fs : Fs) : VInv (view fs) := by
  refine ⟨?_, ?_, ?_⟩
  · intro p q h
    simp only [view, Bool.and_eq_true, beq_iff_eq] at h ⊢
    exact ⟨by rw [← h.2]; exact h.1, h.2.symm⟩
  · intro p q r h1 h2
    simp only [view, Bool.and_eq_true, beq_iff_eq] at h1 h2 ⊢
    exact ⟨h1.1, h1.2.trans h2.2⟩
  · intro p q h
    simp only [view, Bool.and_eq_true, beq_iff_eq] at h ⊢
    simpa using h.1

def vok (v : View) (s : Sec) : Bool :=
  (mk s.t).all (fun q => (v.F q).isNone) && !(v.D s.t || (mk s.t).contains s.t)

def vstep (v : View) (s : Sec) : View :=
  ⟨fun p => v.D p || (mk s.t).contains p,
   fun p => if p = s.t ∨ v.A p s.t = true then some (upd s.L s.off s.d ((v.F s.t).getD [])) else v.F p,
   fun p q => v.A p q || (p == s.t && q == s.t)⟩

theorem vcrit_eq (v : View) (s : Sec) : vcrit v s = if vok v s then some (vstep v s) else none := rfl

theorem vinv_step {v : View} (hv : VInv v) (s : Sec) : VInv (vstep v s) := by
  refine ⟨?_, ?_, ?_⟩
  · intro p q h
    simp only [vstep, Bool.or_eq_true, Bool.and_eq_true, beq_iff_eq] at h ⊢
    rcases h with h | ⟨h1, h2⟩
    · exact Or.inl (hv.sym _ _ h)
    · exact Or.inr ⟨h2, h1⟩
  · intro p q r h1 h2
    simp only [vstep, Bool.or_eq_true, Bool.and_eq_true, beq_iff_eq] at h1 h2 ⊢
    rcases h1 with h1 | ⟨h1, h1'⟩ <;> rcases h2 with h2 | ⟨h2, h2'⟩
    · exact Or.inl (hv.trans _ _ _ h1 h2)
    · subst h2'; subst h2; exact Or.inl h1
    · subst h1'; subst h1; exact Or.inl h2
    · exact Or.inr ⟨h1, h2'⟩
  · intro p q h
    simp only [vstep, Bool.or_eq_true, Bool.and_eq_true, beq_iff_eq] at h ⊢
    rcases h with h | ⟨h1, _⟩
    · have := hv.dom _ _ h
      split
      · rfl
      · exact this
    · rw [if_pos (Or.inl h1)]; rfl

/-- two critical sections may be exchanged: both write inside the declared length; on the same image they
    declare the same length and write disjoint ranges; different images do not share an inode -/
structure Comp (v : View) (a b : Sec) : Prop where
  ra : a.off + a.d.length ≤ a.L
  rb : b.off + b.d.length ≤ b.L
  same : a.t = b.t → a.L = b.L ∧ (a.off + a.d.length ≤ b.off ∨ b.off + b.d.length ≤ a.off)
  diff : a.t ≠ b.t → v.A a.t b.t = false ∧ v.A b.t a.t = false

theorem Comp.symm {v : View} {a b : Sec} (h : Comp v a b) : Comp v b a :=
  ⟨h.rb, h.ra, fun e => ⟨((h.same e.symm).1).symm, (h.same e.symm).2.symm⟩, fun e => ((h.diff (Ne.symm e))).symm⟩

theorem Comp.step {v : View} {a b : Sec} (h : Comp v a b) (s : Sec) : Comp (vstep v s) a b := by
  refine ⟨h.ra, h.rb, h.same, fun e => ?_⟩
  obtain ⟨h1, h2⟩ := h.diff e
  simp only [vstep, h1, h2, Bool.false_or, Bool.and_eq_false_imp, beq_iff_eq]
  constructor
  · intro e1; simpa using fun e2 : b.t = s.t => e (e1.trans e2.symm)
  · intro e1; simpa using fun e2 : a.t = s.t => e (e2.trans e1.symm)

/-- success of the second section after the first: success from the start, and neither target is a directory
    walked through for the other -/
theorem vok_step {v : View} (hv : VInv v) (s1 s2 : Sec) :
    vok (vstep v s1) s2 = (vok v s2 && !(mk s2.t).contains s1.t && !(mk s1.t).contains s2.t) := by
  have hF : ∀ q, ((vstep v s1).F q).isNone = ((v.F q).isNone && !(q == s1.t)) := by
    intro q
    simp only [vstep]
    by_cases hq : q = s1.t
    · simp [hq]
    · by_cases hA : v.A q s1.t = true
      · have := hv.dom _ _ hA
        rw [Option.isSome_iff_ne_none] at this
        simp [hA, this]
      · simp [hq, hA]
  unfold vok
  simp only [hF]
  rw [Bool.eq_iff_iff]
  simp only [vstep, Bool.and_eq_true, List.all_eq_true, Bool.or_eq_false_iff,
    List.contains_eq_mem, decide_eq_false_iff_not, Bool.not_eq_eq_eq_not, Bool.not_true, beq_eq_false_iff_ne]
  constructor
  · rintro ⟨h1, ⟨h2, h3⟩, h4⟩
    exact ⟨⟨⟨fun q hq => (h1 q hq).1, h2, h4⟩, fun hm => (h1 _ hm).2 rfl⟩, h3⟩
  · rintro ⟨⟨⟨h1, h2, h4⟩, h5⟩, h3⟩
    exact ⟨fun q hq => ⟨h1 q hq, fun e => h5 (e ▸ hq)⟩, ⟨h2, h3⟩, h4⟩


theorem vstep_comm {v : View} (hv : VInv v) {s1 s2 : Sec} (hc : Comp v s1 s2) :
    vstep (vstep v s1) s2 = vstep (vstep v s2) s1 := by
  apply View.ext'
  · intro p
    simp only [vstep, Bool.or_assoc]
    rw [Bool.or_comm ((mk s1.t).contains p)]
  · intro p
    by_cases ht : s1.t = s2.t
    · obtain ⟨hL, hd⟩ := hc.same ht
      obtain ⟨t, L1, o1, d1⟩ := s1
      obtain ⟨t2, L2, o2, d2⟩ := s2
      simp only at ht hL hd
      subst ht; subst hL
      have h1 := hc.ra
      have h2 := hc.rb
      simp only at h1 h2
      simp only [vstep]
      by_cases hp : p = t
      · simp [hp, upd_comm L1 o1 o2 d1 d2 _ h1 h2 hd]
      · by_cases hA : v.A p t = true
        · simp [hA, upd_comm L1 o1 o2 d1 d2 _ h1 h2 hd]
        · simp [hp, hA]
    · obtain ⟨h12, h21⟩ := hc.diff ht
      have ht' : ¬ s2.t = s1.t := fun e => ht e.symm
      simp only [vstep, ht, ht', h12, h21, Bool.false_eq_true, or_self, if_false]
      by_cases hp1 : p = s1.t
      · have hp2 : ¬ p = s2.t := fun e => ht (hp1.symm.trans e)
        have hA2 : ¬ v.A p s2.t = true := by rw [hp1, h12]; simp
        simp [hp1, ht, h12]
        intro e; exact absurd e ht'
      · by_cases hp2 : p = s2.t
        · simp [hp2, ht', h21]
          intro e; exact absurd e ht
        · by_cases hA1 : v.A p s1.t = true
          · have hA2 : ¬ v.A p s2.t = true := by
              intro hA2
              have := hv.trans _ _ _ (hv.sym _ _ hA1) hA2
              rw [h12] at this; cases this
            simp [hp1, hp2, hA1, hA2]
          · simp [hp1, hp2, hA1]
  · intro p q
    simp only [vstep, Bool.or_assoc]
    rw [Bool.or_comm (p == s1.t && q == s1.t)]

/-- two compatible critical sections commute on views, WITH EQUALITY, success included -/
theorem vcrit_comm {v : View} (hv : VInv v) {s1 s2 : Sec} (hc : Comp v s1 s2) :
    (vcrit v s1).bind (vcrit · s2) = (vcrit v s2).bind (vcrit · s1) := by
  simp only [vcrit_eq]
  have e1 := vok_step hv s1 s2
  have e2 := vok_step hv s2 s1
  cases h1 : vok v s1 <;> cases h2 : vok v s2 <;>
    simp only [Bool.false_eq_true, if_false, if_true, Option.bind_none, Option.bind_some, e1, e2, h1, h2,
      Bool.false_and, Bool.true_and]
  · rw [vstep_comm hv hc, Bool.and_comm]
end TB.RunX

namespace TB

/-! ### sequences, blocks, permutations of blocks -/

/-- a sequence of critical sections, each on the tree the previous one left; `none` as soon as one fails -/
def Fs.crits (fs : Fs) : List Sec → Option Fs
  | [] => some fs
  | s :: l => (fs.crit s.t s.L s.off s.d).bind (fun fs' => Fs.crits fs' l)

end TB
namespace TB.RunX
open TB

def vrun (v : View) : List Sec → Option View
  | [] => some v
  | s :: l => (vcrit v s).bind (fun v' => vrun v' l)

theorem vrun_append (v : View) (a b : List Sec) : vrun v (a ++ b) = (vrun v a).bind (fun v' => vrun v' b) := by
  induction a generalizing v with
  | nil => rfl
  | cons s a ih =>
    simp only [List.cons_append, vrun, Option.bind_assoc]
    congr 1
    funext v'
    exact ih v'

theorem crits_append (fs : Fs) (a b : List Sec) : fs.crits (a ++ b) = (fs.crits a).bind (fun fs' => fs'.crits b) := by
  induction a generalizing fs with
  | nil => rfl
  | cons s a ih =>
    simp only [List.cons_append, Fs.crits, Option.bind_assoc]
    congr 1
    funext v'
    exact ih v'

theorem vinv_vcrit {v v' : View} (hv : VInv v) {s : Sec} (h : vcrit v s = some v') : VInv v' := by
  rw [vcrit_eq] at h
  split at h
  · cases h; exact vinv_step hv s
  · cases h

theorem Comp.vcrit {v v' : View} {a b : Sec} (hc : Comp v a b) {s : Sec} (h : vcrit v s = some v') : Comp v' a b := by
  rw [vcrit_eq] at h
  split at h
  · cases h; exact hc.step s
  · cases h

theorem vinv_vrun {v v' : View} (hv : VInv v) {l : List Sec} (h : vrun v l = some v') : VInv v' := by
  induction l generalizing v with
  | nil => cases h; exact hv
  | cons s l ih =>
    simp only [vrun] at h
    cases h1 : RunX.vcrit v s with
    | none => rw [h1] at h; cases h
    | some v1 => rw [h1] at h; exact ih (vinv_vcrit hv h1) h

theorem Comp.vrun {v v' : View} {a b : Sec} (hc : Comp v a b) {l : List Sec} (h : vrun v l = some v') :
    Comp v' a b := by
  induction l generalizing v with
  | nil => cases h; exact hc
  | cons s l ih =>
    simp only [RunX.vrun] at h
    cases h1 : RunX.vcrit v s with
    | none => rw [h1] at h; cases h
    | some v1 => rw [h1] at h; exact ih (hc.vcrit h1) h

/-- binding with two continuations that agree on the value -/
theorem bind_congr' {α β : Type} {x : Option α} {f g : α → Option β} (h : ∀ a, x = some a → f a = g a) :
    x.bind f = x.bind g := by
  cases x with
  | none => rfl
  | some a => exact h a rfl

theorem vrun_swap {v : View} (hv : VInv v) {a b : Sec} (hc : Comp v a b) (l : List Sec) :
    vrun v (a :: b :: l) = vrun v (b :: a :: l) := by
  simp only [vrun, ← Option.bind_assoc]
  rw [vcrit_comm hv hc]

theorem vrun_move {v : View} (hv : VInv v) (a : Sec) (B l : List Sec) (hc : ∀ b ∈ B, Comp v a b) :
    vrun v (a :: (B ++ l)) = vrun v (B ++ a :: l) := by
  induction B generalizing v with
  | nil => rfl
  | cons b B ih =>
    rw [List.cons_append, vrun_swap hv (hc b List.mem_cons_self)]
    simp only [List.cons_append, vrun]
    apply bind_congr'
    intro v1 h1
    exact ih (vinv_vcrit hv h1) (fun x hx => (hc x (List.mem_cons_of_mem _ hx)).vcrit h1)

theorem vrun_block_swap {v : View} (hv : VInv v) (A B l : List Sec) (hc : ∀ a ∈ A, ∀ b ∈ B, Comp v a b) :
    vrun v (A ++ (B ++ l)) = vrun v (B ++ (A ++ l)) := by
  induction A generalizing v with
  | nil => rfl
  | cons a A ih =>
    rw [List.cons_append, List.cons_append, ← vrun_move hv a B (A ++ l) (hc a List.mem_cons_self)]
    simp only [vrun]
    apply bind_congr'
    intro v1 h1
    exact ih (vinv_vcrit hv h1) (fun x hx y hy => (hc x (List.mem_cons_of_mem _ hx) y hy).vcrit h1)

/-- every section of one block may be exchanged with every section of the other -/
def BComp (v : View) (A B : List Sec) : Prop := ∀ a ∈ A, ∀ b ∈ B, Comp v a b

theorem BComp.symm {v : View} {A B : List Sec} (h : BComp v A B) : BComp v B A :=
  fun b hb a ha => (h a ha b hb).symm

/-- a list of blocks of sections, blocks pairwise compatible (nothing is asked inside a block): the blocks may be
    permuted. Induction on `List.Perm` — `swap` is `vrun_block_swap`, `cons` uses that compatibility persists along
    a run (`Comp.vrun`: a created file shares its inode with nobody), `trans` that compatibility is symmetric. -/
theorem vrun_perm {ls ls' : List (List Sec)} (hp : List.Perm ls ls') :
    ∀ v, VInv v → ls.Pairwise (BComp v) → vrun v ls.flatten = vrun v ls'.flatten := by
  induction hp with
  | nil => intro v _ _; rfl
  | cons x _ ih =>
    intro v hv hpw
    rw [List.flatten_cons, List.flatten_cons, vrun_append, vrun_append]
    apply bind_congr'
    intro v1 h1
    apply ih v1 (vinv_vrun hv h1)
    exact (List.pairwise_cons.1 hpw).2.imp (fun hab a ha b hb => (hab a ha b hb).vrun h1)
  | swap x y l =>
    intro v hv hpw
    simp only [List.flatten_cons]
    apply vrun_block_swap hv
    have := (List.pairwise_cons.1 hpw).1 x List.mem_cons_self
    exact this
  | trans h1 _ ih1 ih2 =>
    intro v hv hpw
    rw [ih1 v hv hpw]
    apply ih2 v hv
    exact h1.pairwise hpw (fun h => h.symm)

/-- the homomorphism for sequences, and well-formedness of the result -/
theorem crits_view {fs : Fs} (hwf : FsWF fs) (l : List Sec) :
    (fs.crits l).map view = vrun (view fs) l ∧ ∀ fs', fs.crits l = some fs' → FsWF fs' := by
  induction l generalizing fs with
  | nil =>
    refine ⟨rfl, ?_⟩
    intro fs' h; cases h; exact hwf
  | cons s l ih =>
    have hv := crit_view hwf s
    simp only [Fs.crits, vrun]
    cases h : fs.crit s.t s.L s.off s.d with
    | none =>
      rw [h] at hv
      rw [← hv]
      exact ⟨rfl, fun _ h' => by cases h'⟩
    | some fs1 =>
      rw [h] at hv
      rw [← hv]
      exact ih (crit_wf hwf h)

end TB.RunX

namespace TB

/-- two critical sections that may be exchanged, from tree `fs`: both write inside the declared length; on the same
    image they declare the same length and write disjoint ranges; different images do not share an inode in `fs` -/
structure SecComp (fs : Fs) (a b : Sec) : Prop where
  ra : a.off + a.d.length ≤ a.L
  rb : b.off + b.d.length ≤ b.L
  same : a.t = b.t → a.L = b.L ∧ (a.off + a.d.length ≤ b.off ∨ b.off + b.d.length ≤ a.off)
  diff : a.t ≠ b.t → ∀ i j, fs.inoOf a.t = some i → fs.inoOf b.t = some j → i ≠ j

end TB
namespace TB.RunX
open TB

theorem view_A_false {fs : Fs} {p q : Path} (h : ∀ i j, fs.inoOf p = some i → fs.inoOf q = some j → i ≠ j) :
    (view fs).A p q = false := by
  show ((fs.inoOf p).isSome && fs.inoOf p == fs.inoOf q) = false
  cases hp : fs.inoOf p with
  | none => rfl
  | some i =>
    cases hq : fs.inoOf q with
    | none => simp
    | some j => simpa using h i j hp hq

theorem comp_of_secComp {fs : Fs} {a b : Sec} (h : SecComp fs a b) : Comp (view fs) a b :=
  ⟨h.ra, h.rb, h.same, fun e => ⟨view_A_false (h.diff e),
    view_A_false (fun i j hi hj => (h.diff e j i hj hi).symm)⟩⟩

/-- back on trees: blocks of critical sections that are pairwise compatible from the well-formed tree `fs` may be
    permuted; the two results have the same observable part, and there is a result in the one order iff in the other -/
theorem crits_perm {fs : Fs} (hwf : FsWF fs) {ls ls' : List (List Sec)} (hp : List.Perm ls ls')
    (hpw : ls.Pairwise (fun A B => ∀ a ∈ A, ∀ b ∈ B, SecComp fs a b)) :
    (fs.crits ls.flatten).map view = (fs.crits ls'.flatten).map view := by
  rw [(crits_view hwf _).1, (crits_view hwf _).1]
  exact vrun_perm hp _ (vinv_view fs) (hpw.imp (fun h a ha b hb => comp_of_secComp (h a ha b hb)))

theorem obsEq_of_map_view {x y : Option Fs} (h : x.map view = y.map view) {r r' : Fs} (hx : x = some r) (hy : y = some r') :
    ObsEq r r' := by
  subst hx; subst hy
  exact (obsEq_iff_view _ _).2 (Option.some.inj h)

theorem isSome_of_map_view {x y : Option Fs} (h : x.map view = y.map view) : x.isSome = y.isSome := by
  have := congrArg Option.isSome h
  simpa using this

end TB.RunX

namespace TB

/-! ### the writer of the model as a sequence of critical sections -/

/-- the critical sections `FileWriter::write` runs for a piece: one per segment that is neither padding nor
    matched from its own export image, carrying that segment's slice of the verified buffer -/
def secsOf : List (WSeg × Option Path) → Bytes → Nat → List Sec
  | [], _, _ => []
  | (seg, src) :: rest, buf, start =>
    if seg.ent.isPad then secsOf rest buf (start + seg.len)
    else if src == some seg.ent.fullTarget then secsOf rest buf (start + seg.len)
    else ⟨seg.ent.fullTarget, seg.ent.fileLength, seg.off, (buf.drop start).take seg.len⟩
      :: secsOf rest buf (start + seg.len)

/-- the verified buffer reaches the end of every segment that is written (`result.bytes.get(start..end)` is `Some`) -/
def bufOk : List (WSeg × Option Path) → Bytes → Nat → Prop
  | [], _, _ => True
  | (seg, src) :: rest, buf, start =>
    (seg.ent.isPad = false → src ≠ some seg.ent.fullTarget → start + seg.len ≤ buf.length)
      ∧ bufOk rest buf (start + seg.len)

end TB
namespace TB.RunX
open TB

theorem op_nil (fs : Fs) (ops : List Op) (k : OpKind) (p : Path) (n : Fs → Fs × Bool) :
    (⟨fs, ops, []⟩ : St).op k p n = (⟨(n fs).1, ops ++ [⟨k, p, (n fs).2⟩], []⟩, (n fs).2) := by
  unfold St.op
  simp

/-- without fault points, the writer's operations for one segment are one critical section -/
theorem writeOne_nil (fs : Fs) (ops : List Op) (seg : WSeg) (buf : Bytes) (start : Nat) {st5 : St}
    (h : RunF.writeOne ⟨fs, ops, []⟩ seg buf start = (st5, none)) :
    fs.crit seg.ent.fullTarget seg.ent.fileLength seg.off ((buf.drop start).take seg.len) = some st5.fs
      ∧ st5.faults = [] := by
  unfold RunF.writeOne at h
  simp only [op_nil] at h
  unfold Fs.crit
  simp only
  split at h
  · cases h
  rename_i h1
  rw [if_neg h1]
  split at h
  · cases h
  rename_i h2
  rw [if_neg h2]
  split at h
  · rename_i i hl
    rw [hl]
    simp only [Bool.not_true, Bool.false_eq_true, if_false] at h
    split at h
    · cases h
    · cases h
      exact ⟨rfl, rfl⟩
  · cases h

/-- and conversely: the critical section succeeds and the buffer reaches the end of the segment -/
theorem writeOne_nil_conv (fs : Fs) (ops : List Op) (seg : WSeg) (buf : Bytes) (start : Nat) {fs' : Fs}
    (h : fs.crit seg.ent.fullTarget seg.ent.fileLength seg.off ((buf.drop start).take seg.len) = some fs')
    (hb : start + seg.len ≤ buf.length) :
    (RunF.writeOne ⟨fs, ops, []⟩ seg buf start).2 = none := by
  unfold RunF.writeOne
  simp only [op_nil]
  unfold Fs.crit at h
  simp only at h
  split at h
  · cases h
  rename_i h1
  rw [if_neg h1]
  split at h
  · cases h
  rename_i h2
  rw [if_neg h2]
  split at h
  · rename_i i hl
    rw [hl]
    simp only [Bool.not_true, Bool.false_eq_true, if_false]
    rw [if_neg (by omega)]
  · cases h


/-- without fault points, a writer call that answers `found` is the sequence of critical sections `secsOf`, it
    leaves no fault points, and the buffer reached the end of every written segment -/
theorem writeSegs_crits (ps : List (WSeg × Option Path)) : ∀ (st st' : St) (buf : Bytes) (start : Nat),
    st.faults = [] → writeSegs st ps buf start = (st', .found) →
    st.fs.crits (secsOf ps buf start) = some st'.fs ∧ st'.faults = [] ∧ bufOk ps buf start := by
  induction ps with
  | nil =>
    intro st st' buf start hf h
    simp only [writeSegs, Prod.mk.injEq, and_true] at h
    subst h
    exact ⟨rfl, hf, trivial⟩
  | cons x rest ih =>
    obtain ⟨seg, src⟩ := x
    intro st st' buf start hf h
    rw [RunF.writeSegs_cons] at h
    simp only [secsOf, bufOk]
    split at h
    · rename_i hp
      obtain ⟨a, b, c⟩ := ih _ _ _ _ hf h
      rw [if_pos hp]
      exact ⟨a, b, fun hp' => (by rw [hp] at hp'; cases hp'), c⟩
    · rename_i hp
      rw [if_neg hp]
      split at h
      · rename_i hs
        obtain ⟨a, b, c⟩ := ih _ _ _ _ hf h
        rw [if_pos hs]
        exact ⟨a, b, fun _ hne => absurd (by simpa using hs) hne, c⟩
      · rename_i hs
        rw [if_neg hs]
        obtain ⟨fs, ops, faults⟩ := st
        simp only at hf
        subst hf
        split at h
        · rename_i st5 h1
          obtain ⟨e1, e2⟩ := writeOne_nil fs ops seg buf start h1
          obtain ⟨a, b, c⟩ := ih _ _ _ _ e2 h
          simp only [Fs.crits, e1, Option.bind_some]
          refine ⟨a, b, fun _ _ => ?_, c⟩
          -- the buffer check of this segment passed
          unfold RunF.writeOne at h1
          simp only [op_nil] at h1
          split at h1
          · cases h1
          split at h1
          · cases h1
          split at h1
          · simp only [Bool.not_true, Bool.false_eq_true, if_false] at h1
            split at h1
            · cases h1
            · omega
          · cases h1
        · rename_i stx r h1
          simp only [Prod.mk.injEq] at h
          obtain ⟨_, hr⟩ := h
          subst hr
          -- the writer never answers `found` for a single segment
          exfalso
          unfold RunF.writeOne at h1
          simp only [op_nil] at h1
          split at h1
          · cases h1
          split at h1
          · cases h1
          split at h1
          · simp only [Bool.not_true, Bool.false_eq_true, if_false] at h1
            split at h1
            · cases h1
            · cases h1
          · cases h1

/-- conversely: if the critical sections succeed and the buffer reaches the end of every written segment, the
    writer answers `found` -/
theorem writeSegs_found_of_crits (ps : List (WSeg × Option Path)) : ∀ (st : St) (fs' : Fs) (buf : Bytes) (start : Nat),
    st.faults = [] → st.fs.crits (secsOf ps buf start) = some fs' → bufOk ps buf start →
    (writeSegs st ps buf start).2 = .found := by
  induction ps with
  | nil => intro st fs' buf start _ _ _; rfl
  | cons x rest ih =>
    obtain ⟨seg, src⟩ := x
    intro st fs' buf start hf h hb
    rw [RunF.writeSegs_cons]
    simp only [secsOf, bufOk] at h hb
    split
    · rename_i hp
      rw [if_pos hp] at h
      exact ih _ _ _ _ hf h hb.2
    · rename_i hp
      rw [if_neg hp] at h
      split
      · rename_i hs
        rw [if_pos hs] at h
        exact ih _ _ _ _ hf h hb.2
      · rename_i hs
        rw [if_neg hs] at h
        obtain ⟨fs, ops, faults⟩ := st
        simp only at hf
        subst hf
        simp only [Fs.crits] at h
        cases hc : fs.crit seg.ent.fullTarget seg.ent.fileLength seg.off ((buf.drop start).take seg.len) with
        | none => rw [hc] at h; cases h
        | some fs1 =>
          rw [hc] at h
          simp only [Option.bind_some] at h
          have hlen := hb.1 (by simpa using hp) (by simpa using hs)
          have h2 := writeOne_nil_conv fs ops seg buf start hc hlen
          split
          · rename_i st5 h1
            obtain ⟨e1, e2⟩ := writeOne_nil fs ops seg buf start h1
            rw [hc] at e1
            cases e1
            exact ih _ _ _ _ e2 h hb.2
          · rename_i stx r h1
            rw [h1] at h2
            cases h2

/-! ### X0: `look` and segment reads respect `ObsEq` -/

theorem look_eq (fs : Fs) (p : Path) :
    fs.look p = if (Fs.properPrefixes p).any (fun q => (fs.inoOf q).isSome) then .notDir
      else if fs.isDir p then .dir
      else match fs.inoOf p with | some i => .file i | none => .notFound := by
  unfold Fs.look
  split
  · rfl
  · split
    · rfl
    · cases fs.inoOf p with
      | some i => rfl
      | none => simp

theorem obsEq_look_file {fs fs' : Fs} (h : ObsEq fs fs') {p : Path} {i : Nat} (hl : fs.look p = .file i) :
    ∃ j, fs'.look p = .file j ∧ fs.content i = fs'.content j := by
  obtain ⟨h1, h2, h3, _⟩ := h
  have hany : (Fs.properPrefixes p).any (fun q => (fs'.inoOf q).isSome)
      = (Fs.properPrefixes p).any (fun q => (fs.inoOf q).isSome) := by
    congr 1; funext q; exact (h2 q).symm
  obtain ⟨l1, l2, l3⟩ := RunF.look_file hl
  have hs := h2 p
  rw [l3] at hs
  cases hj : fs'.inoOf p with
  | none => rw [hj] at hs; cases hs
  | some j =>
    refine ⟨j, ?_, h3 p i j l3 hj⟩
    exact RunF.look_file_of (by rw [hany]; exact l1) (by rw [← h1]; exact l2) hj

theorem obsEq_look_other {fs fs' : Fs} (h : ObsEq fs fs') {p : Path} (hl : ∀ i, fs.look p ≠ .file i) :
    fs'.look p = fs.look p := by
  obtain ⟨h1, h2, _, _⟩ := h
  have hany : (Fs.properPrefixes p).any (fun q => (fs'.inoOf q).isSome)
      = (Fs.properPrefixes p).any (fun q => (fs.inoOf q).isSome) := by
    congr 1; funext q; exact (h2 q).symm
  rw [look_eq fs p] at hl ⊢
  rw [look_eq fs' p, hany, ← h1]
  split
  · rfl
  · rename_i c1
    rw [if_neg c1] at hl
    split
    · rfl
    · rename_i c2
      rw [if_neg c2] at hl
      have hs := h2 p
      cases hi : fs.inoOf p with
      | some i => rw [hi] at hl; exact absurd rfl (hl i)
      | none =>
        rw [hi] at hs
        cases hj : fs'.inoOf p with
        | none => rfl
        | some j => rw [hj] at hs; cases hs

theorem obsEq_segBytesIn {fs fs' : Fs} (h : ObsEq fs fs') (s : WSeg) : segBytesIn fs s = segBytesIn fs' s := by
  unfold segBytesIn
  split
  · rfl
  · cases hl : fs.look s.ent.fullTarget with
    | file i =>
      obtain ⟨j, hj, hc⟩ := obsEq_look_file h hl
      rw [hj]
      simp only [Fs.readAt, hc]
    | notFound => rw [obsEq_look_other h (by rw [hl]; intro i e; cases e), hl]
    | notDir => rw [obsEq_look_other h (by rw [hl]; intro i e; cases e), hl]
    | dir => rw [obsEq_look_other h (by rw [hl]; intro i e; cases e), hl]


/-! ### two sections: when both succeed -/

theorem crits_pair (fs : Fs) (a b : Sec) :
    fs.crits [a, b] = (fs.crit a.t a.L a.off a.d).bind (fun f => f.crit b.t b.L b.off b.d) := by
  simp only [Fs.crits]
  cases fs.crit a.t a.L a.off a.d with
  | none => rfl
  | some f =>
    simp only [Option.bind_some]
    cases f.crit b.t b.L b.off b.d <;> rfl

theorem vok_view (fs : Fs) (s : Sec) : vok (view fs) s = true ↔ CritOk fs s.t := vcrit_cond_iff fs s.t

/-- when two sections succeed one after the other, from a well-formed tree: each succeeds alone, and neither target
    is one of the directories `create_dir_all` walks through for the other -/
theorem crit_pair_isSome {fs : Fs} (hwf : FsWF fs) (a b : Sec) :
    ((fs.crit a.t a.L a.off a.d).bind (fun f => f.crit b.t b.L b.off b.d)).isSome = true ↔
      CritOk fs a.t ∧ CritOk fs b.t ∧ a.t ∉ mk b.t ∧ b.t ∉ mk a.t := by
  rw [← crits_pair]
  have h := (crits_view hwf [a, b]).1
  have e : (fs.crits [a, b]).isSome = (vrun (view fs) [a, b]).isSome := by
    rw [← h]; simp
  rw [e]
  simp only [vrun, vcrit_eq]
  have hs := vok_step (vinv_view fs) a b
  by_cases h1 : vok (view fs) a = true
  · simp only [h1, if_true, Option.bind_some, hs]
    by_cases h2 : vok (view fs) b = true
    · simp only [h2, Bool.true_and]
      rw [← vok_view, ← vok_view]
      by_cases h3 : (mk b.t).contains a.t = true <;> by_cases h4 : (mk a.t).contains b.t = true <;>
        simp_all
    · rw [← vok_view, ← vok_view]
      simp [h2]
  · rw [← vok_view]
    simp [h1]

theorem mem_mk_of_isProperPrefix {t1 t2 : Path} (h : Path.isProperPrefixOf t1 t2) (hne : t1 ≠ []) : t1 ∈ mk t2 := by
  obtain ⟨rest, hr, e⟩ := h
  apply mem_mk_of_properPrefix
  rw [RunF.mem_properPrefixes]
  refine ⟨t1.length, ?_, ?_, ?_⟩
  · cases t1 with
    | nil => exact absurd rfl hne
    | cons _ _ => simp
  · rw [e, List.length_append]
    have : 0 < rest.length := List.length_pos_iff.2 hr
    omega
  · rw [e, List.take_left']
    rfl

theorem critOk_ne_nil {fs : Fs} {t : Path} (h : CritOk fs t) : t ≠ [] := by
  intro e
  subst e
  have := h.2
  simp [Fs.isDir] at this


/-! ### pieces and lists of pieces -/

theorem mem_secsOf (ps : List (WSeg × Option Path)) : ∀ (buf : Bytes) (start : Nat) (a : Sec), a ∈ secsOf ps buf start →
    ∃ x ∈ ps, x.1.ent.isPad = false ∧ a.t = x.1.ent.fullTarget ∧ a.L = x.1.ent.fileLength ∧ a.off = x.1.off
      ∧ a.d.length ≤ x.1.len := by
  induction ps with
  | nil => intro buf start a h; cases h
  | cons x rest ih =>
    obtain ⟨seg, src⟩ := x
    intro buf start a h
    simp only [secsOf] at h
    split at h
    · obtain ⟨y, hy, r⟩ := ih _ _ _ h
      exact ⟨y, List.mem_cons_of_mem _ hy, r⟩
    · rename_i hp
      split at h
      · obtain ⟨y, hy, r⟩ := ih _ _ _ h
        exact ⟨y, List.mem_cons_of_mem _ hy, r⟩
      · rcases List.mem_cons.1 h with h | h
        · subst h
          refine ⟨(seg, src), List.mem_cons_self, by simpa using hp, rfl, rfl, rfl, ?_⟩
          simp only [List.length_take]
          omega
        · obtain ⟨y, hy, r⟩ := ih _ _ _ h
          exact ⟨y, List.mem_cons_of_mem _ hy, r⟩


end TB.RunX
namespace TB

/-- two pieces whose writes may be exchanged, from tree `fs`: every segment lies inside its file (`SegsInRange`);
    a non-padding segment of the one and a non-padding segment of the other that have the same export image occupy
    disjoint ranges of it (the cross-item clause of `RangesDisjoint`) and declare the same file length (`hsame` of
    `C01_bytes` / `C04_run_preserved`); with different images they do not share an inode in `fs` (no hard link
    between export images, a consequence of `NoAlias`). Nothing is asked about two segments of the same piece. -/
structure PiecesCompat (fs : Fs) (w1 w2 : Work) : Prop where
  r1 : SegsInRange w1
  r2 : SegsInRange w2
  cross : ∀ s ∈ w1.segs, ∀ t ∈ w2.segs, s.ent.isPad = false → t.ent.isPad = false →
    s.ent.fullTarget = t.ent.fullTarget → s.off + s.len ≤ t.off ∨ t.off + t.len ≤ s.off
  same : ∀ s ∈ w1.segs, ∀ t ∈ w2.segs, s.ent.isPad = false → t.ent.isPad = false →
    s.ent.fullTarget = t.ent.fullTarget → s.ent.fileLength = t.ent.fileLength
  noalias : ∀ s ∈ w1.segs, ∀ t ∈ w2.segs, s.ent.isPad = false → t.ent.isPad = false →
    s.ent.fullTarget ≠ t.ent.fullTarget →
    ∀ i j, fs.inoOf s.ent.fullTarget = some i → fs.inoOf t.ent.fullTarget = some j → i ≠ j

/-- a verified piece waiting to be written: the work item, the sources of its segments (a segment matched from its
    own export image is not written) and the verified buffer -/
abbrev WItem := Work × List (Option Path) × Bytes

/-- the argument list `solvePiece` hands to `writeSegs` -/
def WItem.pairs (it : WItem) : List (WSeg × Option Path) := it.1.segs.zip it.2.1

/-- the critical sections of one item -/
def WItem.secs (it : WItem) : List Sec := secsOf it.pairs it.2.2 0

/-- write the items one after the other; the flag says whether every call answered `found` -/
def writeAll (st : St) : List WItem → St × Bool
  | [] => (st, true)
  | it :: rest =>
    match writeSegs st it.pairs it.2.2 0 with
    | (st1, .found) => writeAll st1 rest
    | (st1, _) => (st1, false)

theorem PiecesCompat.symm {fs : Fs} {w1 w2 : Work} (h : PiecesCompat fs w1 w2) : PiecesCompat fs w2 w1 :=
  ⟨h.r2, h.r1, fun s hs t ht sp tp e => (h.cross t ht s hs tp sp e.symm).symm,
    fun s hs t ht sp tp e => (h.same t ht s hs tp sp e.symm).symm,
    fun s hs t ht sp tp e i j hi hj => (h.noalias t ht s hs tp sp (Ne.symm e) j i hj hi).symm⟩

end TB
namespace TB.RunX
open TB

theorem secComp_of_pieces {fs : Fs} {w1 w2 : Work} (h : PiecesCompat fs w1 w2)
    {ps1 ps2 : List (WSeg × Option Path)} (h1 : ∀ x ∈ ps1, x.1 ∈ w1.segs) (h2 : ∀ x ∈ ps2, x.1 ∈ w2.segs)
    (b1 b2 : Bytes) (n1 n2 : Nat) :
    ∀ a ∈ secsOf ps1 b1 n1, ∀ b ∈ secsOf ps2 b2 n2, SecComp fs a b := by
  intro a ha b hb
  obtain ⟨x, hx, xp, xt, xL, xo, xd⟩ := mem_secsOf _ _ _ _ ha
  obtain ⟨y, hy, yp, yt, yL, yo, yd⟩ := mem_secsOf _ _ _ _ hb
  have hx' := h1 x hx
  have hy' := h2 y hy
  have rx := h.r1 _ hx'
  have ry := h.r2 _ hy'
  refine ⟨by omega, by omega, ?_, ?_⟩
  · intro e
    have e' : x.1.ent.fullTarget = y.1.ent.fullTarget := by rw [← xt, ← yt]; exact e
    have hc := h.cross _ hx' _ hy' xp yp e'
    have hs := h.same _ hx' _ hy' xp yp e'
    exact ⟨by omega, by omega⟩
  · intro e
    rw [xt, yt] at e ⊢
    exact h.noalias _ hx' _ hy' xp yp e

theorem mem_pairs {it : WItem} {x : WSeg × Option Path} (h : x ∈ it.pairs) : x.1 ∈ it.1.segs :=
  (List.of_mem_zip h).1

theorem secComp_of_items {fs : Fs} {a b : WItem} (h : PiecesCompat fs a.1 b.1) :
    ∀ x ∈ a.secs, ∀ y ∈ b.secs, SecComp fs x y :=
  secComp_of_pieces h (fun _ => mem_pairs) (fun _ => mem_pairs) _ _ _ _

/-- `writeSegs_crits` for a list of pieces -/
theorem writeAll_crits (items : List WItem) : ∀ (st st' : St), st.faults = [] → writeAll st items = (st', true) →
    st.fs.crits (items.map WItem.secs).flatten = some st'.fs ∧ ∀ it ∈ items, bufOk it.pairs it.2.2 0 := by
  induction items with
  | nil =>
    intro st st' _ h
    simp only [writeAll, Prod.mk.injEq, and_true] at h
    subst h
    exact ⟨rfl, fun _ h => by cases h⟩
  | cons it rest ih =>
    intro st st' hf h
    simp only [writeAll] at h
    split at h
    · rename_i st1 h1
      obtain ⟨a, b, c⟩ := writeSegs_crits _ _ _ _ _ hf h1
      obtain ⟨a', c'⟩ := ih _ _ b h
      rw [List.map_cons, List.flatten_cons, crits_append]
      refine ⟨?_, ?_⟩
      · show (st.fs.crits (secsOf it.pairs it.2.2 0)).bind _ = _
        rw [a]; exact a'
      · intro x hx
        rcases List.mem_cons.1 hx with rfl | hx
        · exact c
        · exact c' x hx
    · simp only [Prod.mk.injEq, Bool.false_eq_true, and_false] at h

/-- `writeSegs_found_of_crits` for a list of pieces -/
theorem writeAll_of_crits (items : List WItem) : ∀ (st : St) (fs' : Fs), st.faults = [] →
    st.fs.crits (items.map WItem.secs).flatten = some fs' → (∀ it ∈ items, bufOk it.pairs it.2.2 0) →
    (writeAll st items).2 = true := by
  induction items with
  | nil => intro st fs' _ _ _; rfl
  | cons it rest ih =>
    intro st fs' hf h hb
    rw [List.map_cons, List.flatten_cons, crits_append] at h
    cases h1 : st.fs.crits it.secs with
    | none => rw [h1] at h; cases h
    | some fs1 =>
      rw [h1] at h
      simp only [Option.bind_some] at h
      have hfound := writeSegs_found_of_crits _ _ _ _ _ hf h1 (hb it List.mem_cons_self)
      simp only [writeAll]
      split
      · rename_i st1 h2
        obtain ⟨a, b, _⟩ := writeSegs_crits _ _ _ _ _ hf h2
        have : fs1 = st1.fs := by
          have a' : st.fs.crits it.secs = some st1.fs := a
          rw [h1] at a'; exact Option.some.inj a'
        subst this
        exact ih _ _ b h (fun x hx => hb x (List.mem_cons_of_mem _ hx))
      · rename_i st1 r hne h2
        rw [h2] at hfound
        exact absurd hfound (fun e => hne (by simpa using e))
end TB.RunX
