/-
  Helper lemmas for C05: invariants of the executor transition system (safety part).
  Definitions and generic lemmas: TB.Lemmas.ExecBase; preservation: TB.Lemmas.ExecInv;
  `balanceRef`: TB.Lemmas.ExecBal. This file derives the consequences used by TB.Props.C05.
-/
import TB.Spec.ExecSpec
import TB.Lemmas.ExecBase
import TB.Lemmas.ExecInv
import TB.Lemmas.ExecBal
namespace TB.Exec

variable {bal : Bal} {qs0 : List (List Nat)} {s : ExSt}

theorem holdsS_of_mayHold_ne {a h j : Nat} {pc : Pc} (hm : mayHold a h pc j) (hne : h ≠ j) :
    holdsS pc = true := by
  cases pc <;> first | rfl | exact hm.elim | exact absurd hm.symm hne

theorem popped_of_mayHold_not_holdsS {a h j : Nat} {pc : Pc} (hm : mayHold a h pc j)
    (hn : holdsS pc = false) : ∃ item, pc = .popped item := by
  cases pc <;> first | exact ⟨_, rfl⟩ | exact hm.elim | cases hn

/-- lock discipline -/
theorem Inv.lockorder (hinv : Inv qs0 s) (j holder : Nat) (hj : s.qlock[j]? = some (some holder))
    (hne : holder ≠ j) : s.stateLock = some holder := by
  obtain ⟨pc, hpc, hm⟩ := hinv.qHold j holder hj
  exact (hinv.wrk holder pc hpc).hs (holdsS_of_mayHold_ne hm hne)

theorem allDone_iff : allDone s = true ↔ ∀ (i : Nat) (pc : Pc), s.pcs[i]? = some pc → pc = Pc.done := by
  simp only [allDone, List.all_eq_true, beq_iff_eq]
  constructor
  · intro h i pc hi
    exact h pc (List.mem_of_getElem? hi)
  · intro h pc hpc
    obtain ⟨i, hi, rfl⟩ := List.getElem_of_mem hpc
    exact h i _ (List.getElem?_eq_getElem hi)

/-- the final state -/
theorem Inv.final (hinv : Inv qs0 s) (hd : allDone s = true) :
    List.Perm s.solved qs0.flatten ∧ s.queues.flatten = [] ∧ s.stateLock = none ∧
      ∀ (j h' : Nat), s.qlock[j]? ≠ some (some h') := by
  rw [allDone_iff] at hd
  have hact : s.active = 0 := by
    cases h0 : s.pcs[0]? with
    | none =>
      have := hinv.actLe
      have hl : s.pcs.length ≤ 0 := List.getElem?_eq_none_iff.1 h0
      omega
    | some pc =>
      have := hd 0 pc h0
      subst this
      have := (hinv.wrk 0 _ h0).ex rfl
      omega
  have hq : s.queues.flatten = [] :=
    flatten_eq_nil_of_forall _ (fun j => hinv.tail j (by omega))
  have hh : inHand s = [] := by
    rw [inHand_eq, List.filterMap_eq_nil_iff]
    intro a ha
    obtain ⟨i, hi, rfl⟩ := List.getElem_of_mem ha
    rw [hd i _ (List.getElem?_eq_getElem hi)]; rfl
  refine ⟨?_, hq, ?_, ?_⟩
  · have := hinv.cons
    rw [hq, hh] at this
    simpa using this
  · cases hst : s.stateLock with
    | none => rfl
    | some h =>
      obtain ⟨pc, hpc, hh⟩ := hinv.sHeld h hst
      rw [hd h pc hpc] at hh
      cases hh
  · intro j h' hj
    obtain ⟨pc, hpc, hm⟩ := hinv.qHold j h' hj
    rw [hd h' pc hpc] at hm
    exact hm

/-! ### deadlock freedom -/

theorem step_exists {i : Nat} (h : (step bal s i).isSome = true) : ∃ i s', step bal s i = some s' :=
  ⟨i, Option.isSome_iff_exists.1 h⟩

theorem step_of_qlock_free {i : Nat} (hpc : s.pcs[i]? = some .wantLocal) (hq : s.qlock[i]? = some none) :
    (step bal s i).isSome = true := by
  simp [step, hpc, hq]

theorem not_mem_take_of_nodup {l : List Nat} (hnd : l.Nodup) {k t : Nat} (hk : l[k]? = some t) :
    t ∉ l.take k := by
  intro hmem
  obtain ⟨m, hm, hmt⟩ := List.getElem_of_mem hmem
  rw [List.length_take] at hm
  rw [List.getElem_take] at hmt
  have hml : m < l.length := by omega
  have : l[m]? = l[k]? := by rw [hk, List.getElem?_eq_getElem hml, hmt]
  have := (List.getElem?_inj hml hnd).1 this
  omega

theorem others_nodup (i a : Nat) : (others i a).Nodup :=
  List.Nodup.sublist List.filter_sublist List.nodup_range

theorem mem_others_ne {i a j : Nat} (h : j ∈ others i a) : j ≠ i := by
  simp only [others, List.mem_filter, List.mem_range] at h
  simpa using h.2

/-- a worker holding the state lock can move, or it waits for a queue owner that can -/
theorem Inv.progress_of_holdsS (hinv : Inv qs0 s) {h : Nat} {pc : Pc} (hpc : s.pcs[h]? = some pc)
    (hh : holdsS pc = true) : ∃ i s', step bal s i = some s' := by
  have hst : s.stateLock = some h := (hinv.wrk h pc hpc).hs hh
  cases pc with
  | top => cases hh
  | popped item => cases hh
  | solving x => cases hh
  | wantState => cases hh
  | done => cases hh
  | haveState => exact step_exists (i := h) (by simp only [step, hpc]; first | rfl | (split <;> rfl))
  | exiting => exact step_exists (i := h) (by simp only [step, hpc]; first | rfl | (split <;> rfl))
  | haveLocal => exact step_exists (i := h) (by simp only [step, hpc]; first | rfl | (split <;> rfl))
  | cont1 => exact step_exists (i := h) (by simp only [step, hpc]; first | rfl | (split <;> rfl))
  | cont2 => exact step_exists (i := h) (by simp only [step, hpc]; first | rfl | (split <;> rfl))
  | bal => exact step_exists (i := h) (by simp only [step, hpc]; first | rfl | (split <;> rfl))
  | dec d => exact step_exists (i := h) (by simp only [step, hpc]; first | rfl | (split <;> rfl))
  | unlockState => exact step_exists (i := h) (by simp only [step, hpc]; first | rfl | (split <;> rfl))
  | release k d =>
    by_cases hk : k < s.active
    · exact step_exists (i := h) (by simp only [step, hpc, hk, if_true]; first | rfl | (split <;> rfl))
    · exact step_exists (i := h) (by simp only [step, hpc, hk, if_false]; first | rfl | (split <;> rfl))
  | wantLocal =>
    refine step_exists (i := h) ?_
    have hl : h < s.qlock.length := by rw [hinv.lenL]; exact lt_of_getElem?_eq_some hpc
    cases hv : s.qlock[h] with
    | none => exact step_of_qlock_free hpc (by rw [List.getElem?_eq_getElem hl, hv])
    | some x =>
      exfalso
      have hq : s.qlock[h]? = some (some x) := by rw [List.getElem?_eq_getElem hl, hv]
      obtain ⟨pcx, hpcx, hm⟩ := hinv.qHold h x hq
      by_cases hx : x = h
      · subst hx
        rw [hpc] at hpcx; cases hpcx
        exact hm
      · have := hinv.lockorder h x hq hx
        rw [hst] at this
        exact hx (Option.some.inj this).symm
  | collect k =>
    have hw := hinv.wrk h _ hpc
    cases ht : (others h s.active)[k]? with
    | none => exact step_exists (i := h) (by simp only [step, hpc, ht]; first | rfl | (split <;> rfl))
    | some t =>
      have htm : t ∈ others h s.active := List.mem_of_getElem? ht
      have hta : t < s.active := mem_others_lt htm
      have hl : t < s.qlock.length := by rw [hinv.lenL]; exact Nat.lt_of_lt_of_le hta hinv.actLe
      cases hv : s.qlock[t] with
      | none =>
        have hq : s.qlock[t]? = some none := by rw [List.getElem?_eq_getElem hl, hv]
        exact step_exists (i := h) (by simp only [step, hpc, ht, hq, beq_self_eq_true, if_true]; first | rfl | (split <;> rfl))
      | some x =>
        have hq : s.qlock[t]? = some (some x) := by rw [List.getElem?_eq_getElem hl, hv]
        obtain ⟨pcx, hpcx, hm⟩ := hinv.qHold t x hq
        by_cases hx : x = h
        · exfalso
          subst hx
          rw [hpc] at hpcx; cases hpcx
          rcases hm with hm | hm
          · exact mem_others_ne htm hm
          · exact not_mem_take_of_nodup (others_nodup _ _) ht hm
        · obtain ⟨item, rfl⟩ := popped_of_mayHold_not_holdsS hm (hinv.other_not_holdsS hst hx hpcx)
          exact step_exists (i := x) (by simp only [step, hpcx]; first | rfl | (split <;> rfl))

/-- no deadlock -/
theorem Inv.deadlock_free (hinv : Inv qs0 s) (hnd : allDone s = false) :
    ∃ i s', step bal s i = some s' := by
  have : ∃ (i : Nat) (pc : Pc), s.pcs[i]? = some pc ∧ pc ≠ Pc.done := by
    apply Classical.byContradiction
    intro hc
    have : allDone s = true := by
      rw [allDone_iff]
      intro i pc hi
      apply Classical.byContradiction
      intro hne
      exact hc ⟨i, pc, hi, hne⟩
    rw [this] at hnd; cases hnd
  obtain ⟨i, pc, hpc, hne⟩ := this
  cases hh : holdsS pc with
  | true => exact hinv.progress_of_holdsS hpc hh
  | false =>
    cases pc with
    | top =>
      exact step_exists (i := i) (by simp only [step, hpc]; split <;> rfl)
    | popped item => exact step_exists (i := i) (by simp only [step, hpc]; first | rfl | (split <;> rfl))
    | solving x => exact step_exists (i := i) (by simp only [step, hpc]; first | rfl | (split <;> rfl))
    | done => exact absurd rfl hne
    | wantState =>
      cases hst : s.stateLock with
      | none => exact step_exists (i := i) (by simp only [step, hpc, hst, Option.isNone_none, if_true]; first | rfl | (split <;> rfl))
      | some h =>
        obtain ⟨pch, hpch, hhh⟩ := hinv.sHeld h hst
        exact hinv.progress_of_holdsS hpch hhh
    | haveState => cases hh
    | exiting => cases hh
    | wantLocal => cases hh
    | haveLocal => cases hh
    | cont1 => cases hh
    | cont2 => cases hh
    | collect k => cases hh
    | bal => cases hh
    | release k d => cases hh
    | dec d => cases hh
    | unlockState => cases hh

end TB.Exec
