/-
  Helper lemmas for C05: invariants of the executor transition system (safety part).
-/
import TB.Spec.ExecSpec
namespace TB.Exec

end TB.Exec
