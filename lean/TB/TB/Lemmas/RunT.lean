/-
  Helper lemmas (RunT): the layout facts that the run-level preservation theorems assume (`SegsInRange`,
  `RangesDisjoint`, "same image, same length") derived from the torrents themselves.

  * Part A — generic list facts (`mapM` on `Option` by index).
  * Part B — lookups in a table built from torrents with pairwise distinct info-hashes find the entry of the right
    torrent; the work items of a torrent are its pieces segment by segment (`SegRel`, `WorkRel`).
  * Part C — the C06 partition (`PieceOk`) in the form needed here: a positive-length segment lies inside the
    window of its piece, so segments of different pieces in one file do not overlap.
  * Part D — images: two non-padding entries of one torrent with the same image are the same file
    (`PathsDistinct`).
  * Part E — the three layout facts for `convertPiecesToWork (buildTable dir all id0) ts`.
-/
import TB.Spec.ExportSpec
import TB.Props.C06
import TB.Props.C10
import TB.Props.C12
import TB.Props.C16run
import TB.Props.C04h
import TB.Lemmas.RunH
import TB.Lemmas.RunB
namespace TB.RunT
open TB

/-! ## Part A: lists -/

theorem mapM_index {α β : Type} {f : α → Option β} {l : List α} {r : List β} (h : l.mapM f = some r) :
    r.length = l.length ∧ ∀ (i : Nat) b, r[i]? = some b → ∃ a, l[i]? = some a ∧ f a = some b := by
  induction l generalizing r with
  | nil =>
    simp at h
    subst h
    exact ⟨rfl, fun i b hb => by simp at hb⟩
  | cons a l ih =>
    rw [List.mapM_cons] at h
    cases ha : f a with
    | none => simp [ha] at h
    | some b0 =>
      cases hl : l.mapM f with
      | none => simp [ha, hl] at h
      | some r0 =>
        simp [ha, hl] at h
        subst h
        obtain ⟨h1, h2⟩ := ih hl
        refine ⟨by simp [h1], ?_⟩
        intro i b hb
        cases i with
        | zero =>
          simp at hb
          subst hb
          exact ⟨a, by simp, ha⟩
        | succ i =>
          simp at hb
          obtain ⟨a', h3, h4⟩ := h2 i b hb
          exact ⟨a', by simpa using h3, h4⟩

theorem mem_index {α : Type} {l : List α} {a : α} (h : a ∈ l) : ∃ i : Nat, l[i]? = some a := by
  obtain ⟨i, hi, rfl⟩ := List.mem_iff_getElem.1 h
  exact ⟨i, List.getElem?_eq_getElem hi⟩

/-! ## Part B: lookups and the shape of work items -/

/-- pairwise distinct info-hashes (what sorting and `dedup_by` leave) -/
def HashDistinct (ts : List Torrent) : Prop := ts.Pairwise (fun a b => a.infoHash ≠ b.infoHash)

theorem HashDistinct.eq {ts : List Torrent} (h : HashDistinct ts) {a b : Torrent} (ha : a ∈ ts) (hb : b ∈ ts)
    (he : a.infoHash = b.infoHash) : a = b := by
  induction ts with
  | nil => cases ha
  | cons t ts ih =>
    unfold HashDistinct at h
    rw [List.pairwise_cons] at h
    rcases List.mem_cons.1 ha with rfl | ha'
    · rcases List.mem_cons.1 hb with rfl | hb'
      · rfl
      · exact absurd he (h.1 b hb')
    · rcases List.mem_cons.1 hb with rfl | hb'
      · exact absurd he.symm (h.1 a ha')
      · exact ih h.2 ha' hb'

theorem hashDistinct_dedup_sort (ts : List Torrent) : HashDistinct (dedupTorrents (sortTorrents ts)) := by
  have := RB.dedupTorrents_strict _ (RB.sortTorrents_sorted ts)
  unfold RB.TStrict at this
  refine List.Pairwise.imp ?_ this
  intro a b hlt he
  rw [he, RB.bytesLt_irrefl] at hlt
  cases hlt

/-- a lookup by (info-hash of `t`, index) in the table of torrents with distinct info-hashes finds the entry of
    file `k` of `t` itself -/
theorem lookup_target {dir : Path} {all : List Torrent} {id0 : Nat} {t : Torrent} (hd : HashDistinct all)
    (ht : t ∈ all) {k : Nat} {e : TEntry} (h : lookupEntry (buildTable dir all id0) t.infoHash k = some e) :
    e.fileIndex = k ∧ IsTargetOf dir t e := by
  unfold lookupEntry at h
  have hp := List.find?_some h
  have hm := List.mem_of_find?_eq_some h
  simp only [Bool.and_eq_true, beq_iff_eq] at hp
  obtain ⟨t', ht', htar⟩ := buildTable_target dir all id0 e hm
  have : t' = t := hd.eq ht' ht (htar.1.symm.trans hp.1)
  subst this
  exact ⟨hp.2, htar⟩

/-- work segment `x` is layout segment `s` of torrent `t`: same range, and its entry is the table entry of file
    `s.file` of `t` -/
def SegRel (dir : Path) (t : Torrent) (s : Seg) (x : WSeg) : Prop :=
  x.len = s.len ∧ x.off = s.off ∧ x.ent.fileIndex = s.file ∧ IsTargetOf dir t x.ent

/-- work item `w` is piece `p` of torrent `t`, segment by segment -/
def WorkRel (dir : Path) (t : Torrent) (p : Piece) (w : Work) : Prop :=
  w.segs.length = p.segs.length ∧ ∀ (i : Nat) x, w.segs[i]? = some x → ∃ s, p.segs[i]? = some s ∧ SegRel dir t s x

theorem WorkRel.mem {dir : Path} {t : Torrent} {p : Piece} {w : Work} (h : WorkRel dir t p w) {x : WSeg}
    (hx : x ∈ w.segs) : ∃ s ∈ p.segs, SegRel dir t s x := by
  obtain ⟨i, hi⟩ := mem_index hx
  obtain ⟨s, hs, hr⟩ := h.2 i x hi
  exact ⟨s, List.mem_of_getElem? hs, hr⟩

theorem workOfPiece_rel {dir : Path} {all : List Torrent} {id0 : Nat} {t : Torrent} (hd : HashDistinct all)
    (ht : t ∈ all) {p : Piece} {w : Work} (h : workOfPiece (buildTable dir all id0) t p = some w) :
    WorkRel dir t p w := by
  unfold workOfPiece at h
  split at h
  · rename_i segs hm
    cases h
    obtain ⟨h1, h2⟩ := mapM_index hm
    refine ⟨h1, ?_⟩
    intro i x hx
    obtain ⟨s, hs, hf⟩ := h2 i x hx
    simp only [Option.map_eq_some_iff] at hf
    obtain ⟨e, he, rfl⟩ := hf
    obtain ⟨hk, htar⟩ := lookup_target hd ht he
    exact ⟨s, hs, rfl, rfl, hk, htar⟩
  · cases h

/-- the work items of a loadable torrent are its pieces, one by one, and the pieces satisfy the C06 partition -/
theorem workOfTorrent_rel (H : Bytes → Bytes) {dir : Path} {all : List Torrent} {id0 : Nat} {t : Torrent}
    (hd : HashDistinct all) (ht : t ∈ all) (hload : Loadable H t) {wt : List Work}
    (h : workOfTorrent (buildTable dir all id0) t = some wt) :
    ∃ ps, RunH.LayoutOk t ps ∧ wt.length = ps.length ∧
      ∀ (i : Nat) w, wt[i]? = some w → ∃ p, ps[i]? = some p ∧ WorkRel dir t p w := by
  obtain ⟨doc, hdoc⟩ := hload
  obtain ⟨ps, hps, hlay⟩ := RunH.layout_of_load H doc t hdoc
  unfold workOfTorrent at h
  rw [hps] at h
  simp only at h
  obtain ⟨h1, h2⟩ := mapM_index h
  refine ⟨ps, hlay, h1, ?_⟩
  intro i w hw
  obtain ⟨p, hp, hf⟩ := h2 i w hw
  exact ⟨p, hp, workOfPiece_rel hd ht hf⟩

/-- every segment of a work item of `t` has an entry of `t` (no loadability needed) -/
theorem workOfTorrent_owned {dir : Path} {all : List Torrent} {id0 : Nat} {t : Torrent}
    (hd : HashDistinct all) (ht : t ∈ all) {wt : List Work}
    (h : workOfTorrent (buildTable dir all id0) t = some wt) :
    ∀ w ∈ wt, ∀ x ∈ w.segs, IsTargetOf dir t x.ent := by
  unfold workOfTorrent at h
  split at h
  · cases h
  · rename_i ps _
    intro w hw x hx
    obtain ⟨p, _, hf⟩ := mapM_option_mem h w hw
    obtain ⟨s, _, hr⟩ := (workOfPiece_rel hd ht hf).mem hx
    exact hr.2.2.2

/-! ## Part C: the partition -/

/-- a positive-length segment of piece `i` lies inside the window `[i·L, i·L + L)` of the torrent's byte space -/
theorem seg_window {L : Nat} {fl : List Nat} {hashes : List Bytes} {i : Nat} {p : Piece}
    (hok : PieceOk L fl hashes i p) {s : Seg} (hs : s ∈ p.segs) (hpos : 0 < s.len) :
    i * L ≤ base fl s.file + s.off ∧ base fl s.file + s.off + s.len ≤ i * L + L := by
  have hflat := hok.1
  have hsub : ∀ a ∈ addr fl s, a ∈ List.range' (i * L) (min L (fl.sum - i * L)) := by
    intro a ha
    rw [← hflat]
    exact List.mem_flatMap.2 ⟨s, hs, ha⟩
  have h1 := hsub (base fl s.file + s.off) (by unfold addr; rw [List.mem_range'_1]; omega)
  have h2 := hsub (base fl s.file + s.off + s.len - 1) (by unfold addr; rw [List.mem_range'_1]; omega)
  rw [List.mem_range'_1] at h1 h2
  omega

/-- segments of different pieces inside one file do not overlap: the one of the earlier piece ends before the one
    of the later piece starts (zero-length segments belong to empty files, where everything is at offset 0) -/
theorem segs_disjoint {L : Nat} {fl : List Nat} {hashes : List Bytes} {i j : Nat} {p q : Piece}
    (hp : PieceOk L fl hashes i p) (hq : PieceOk L fl hashes j q) (hij : i < j)
    {s u : Seg} (hs : s ∈ p.segs) (hu : u ∈ q.segs) (hf : s.file = u.file) : s.off + s.len ≤ u.off := by
  obtain ⟨hs1, hs2, hs3⟩ := hp.2.2.2.2.1 s hs
  obtain ⟨hu1, hu2, hu3⟩ := hq.2.2.2.2.1 u hu
  have hfl : s.flen = u.flen := by
    rw [hf, ← hu1] at hs1
    exact Option.some.inj hs1
  by_cases h0 : s.len = 0
  · have := hs3 h0; omega
  by_cases h1 : u.len = 0
  · have := hu3 h1; omega
  have w1 := seg_window hp hs (by omega)
  have w2 := seg_window hq hu (by omega)
  have : (i + 1) * L ≤ j * L := Nat.mul_le_mul_right L hij
  rw [Nat.add_mul, Nat.one_mul] at this
  rw [hf] at w1
  omega

/-- the file indices of the segments of one piece are pairwise different -/
theorem seg_files_ne {L : Nat} {fl : List Nat} {hashes : List Bytes} {i : Nat} {p : Piece}
    (hok : PieceOk L fl hashes i p) {a b : Nat} {s u : Seg} (hs : p.segs[a]? = some s) (hu : p.segs[b]? = some u)
    (hab : a ≠ b) : s.file ≠ u.file := by
  have hincr := hok.2.2.2.2.2
  rw [List.pairwise_map, List.pairwise_iff_getElem] at hincr
  obtain ⟨ha, rfl⟩ := List.getElem?_eq_some_iff.1 hs
  obtain ⟨hb, rfl⟩ := List.getElem?_eq_some_iff.1 hu
  rcases Nat.lt_or_gt_of_ne hab with h | h
  · have := hincr a b ha hb h; omega
  · have := hincr b a hb ha h; omega

/-! ## Part D: images -/

/-- within torrent `t`, two different non-padding files have different paths. (Padding files — `.pad/<digits>` —
    are exempt: they are never read or written, and real torrents repeat their names.) -/
def PathsDistinct (t : Torrent) : Prop :=
  ∀ fs, t.info.files = some fs → ∀ (i j : Nat) (f g : FileRec), fs[i]? = some f → fs[j]? = some g → i ≠ j →
    isPaddingPath f.path = false → isPaddingPath g.path = false → f.path ≠ g.path

/-- two non-padding entries of one torrent with the same export image are entries of the same file -/
theorem target_index {dir : Path} {t : Torrent} {e₁ e₂ : TEntry} (hp : PathsDistinct t)
    (h₁ : IsTargetOf dir t e₁) (h₂ : IsTargetOf dir t e₂) (n₁ : e₁.isPad = false) (n₂ : e₂.isPad = false)
    (he : e₁.fullTarget = e₂.fullTarget) : e₁.fileIndex = e₂.fileIndex := by
  obtain ⟨_, ⟨l₁, hn₁, _, hi₁, _⟩ | ⟨fs₁, f, hf₁, hi₁, _, hp₁, ht₁⟩⟩ := h₁
  · obtain ⟨_, ⟨l₂, _, _, hi₂, _⟩ | ⟨fs₂, g, hf₂, _⟩⟩ := h₂
    · rw [hi₁, hi₂]
    · rw [hn₁] at hf₂; cases hf₂
  · obtain ⟨_, ⟨l₂, hn₂, _⟩ | ⟨fs₂, g, hf₂, hi₂, _, hp₂, ht₂⟩⟩ := h₂
    · rw [hn₂] at hf₁; cases hf₁
    · rw [hf₁] at hf₂
      cases hf₂
      apply Classical.byContradiction
      intro hne
      rw [ht₁, ht₂] at he
      exact hp fs₁ hf₁ _ _ f g hi₁ hi₂ hne (by rw [← hp₁]; exact n₁) (by rw [← hp₂]; exact n₂)
        (List.append_cancel_left he)

/-- entries of the same file of one torrent declare the same length -/
theorem target_length {dir : Path} {t : Torrent} {e₁ e₂ : TEntry}
    (h₁ : IsTargetOf dir t e₁) (h₂ : IsTargetOf dir t e₂) (hidx : e₁.fileIndex = e₂.fileIndex) :
    e₁.fileLength = e₂.fileLength := by
  obtain ⟨_, ⟨l₁, hn₁, hl₁, _, hlen₁, _⟩ | ⟨fs₁, f, hf₁, hi₁, hlen₁, _⟩⟩ := h₁
  · obtain ⟨_, ⟨l₂, _, hl₂, _, hlen₂, _⟩ | ⟨fs₂, g, hf₂, _⟩⟩ := h₂
    · rw [hl₁] at hl₂; cases hl₂; rw [hlen₁, hlen₂]
    · rw [hn₁] at hf₂; cases hf₂
  · obtain ⟨_, ⟨l₂, hn₂, _⟩ | ⟨fs₂, g, hf₂, hi₂, hlen₂, _⟩⟩ := h₂
    · rw [hn₂] at hf₁; cases hf₁
    · rw [hf₁] at hf₂
      cases hf₂
      rw [hidx, hi₂] at hi₁
      cases hi₁
      rw [hlen₁, hlen₂]

/-- the declared length of the entry of a layout segment is the file length the layout recorded -/
theorem segRel_flen {dir : Path} {t : Torrent} {fl : List Nat} {s : Seg} {x : WSeg}
    (hfl : (∃ l, t.info.files = none ∧ t.info.length = some l ∧ fl = [l])
       ∨ (∃ fs, t.info.files = some fs ∧ fl = fs.map (·.length)))
    (hs : some s.flen = fl[s.file]?) (hr : SegRel dir t s x) : x.ent.fileLength = s.flen := by
  obtain ⟨_, _, hidx, _, htar⟩ := hr
  rcases hfl with ⟨l, hf, hl, rfl⟩ | ⟨fs, hf, rfl⟩
  · rcases htar with ⟨l', _, hl', hi, hlen, _⟩ | ⟨fs', g, hf', _⟩
    · rw [hl] at hl'; cases hl'
      rw [← hidx, hi] at hs
      simp at hs
      rw [hlen, hs]
    · rw [hf] at hf'; cases hf'
  · rcases htar with ⟨l', hn, _⟩ | ⟨fs', g, hf', hi, hlen, _⟩
    · rw [hf] at hn; cases hn
    · rw [hf] at hf'; cases hf'
      rw [← hidx, List.getElem?_map, hi] at hs
      simp at hs
      rw [hlen, hs]

/-! ## Part E: the layout facts for a work list -/

/-- the relation of the first clause of `RangesDisjoint` -/
def Apart (w v : Work) : Prop :=
  ∀ s ∈ w.segs, ∀ u ∈ v.segs, s.ent.isPad = false → u.ent.isPad = false → s.ent.fullTarget = u.ent.fullTarget →
    s.off + s.len ≤ u.off ∨ u.off + u.len ≤ s.off

theorem Apart.symm {w v : Work} (h : Apart w v) : Apart v w := by
  intro s hs u hu n1 n2 he
  exact (h u hu s hs n2 n1 he.symm).symm

/-- work items owned by torrents with different info-hashes share no image -/
theorem apart_of_owned {dir : Path} {t₁ t₂ : Torrent} {w v : Work} (hne : t₁.infoHash ≠ t₂.infoHash)
    (h₁ : ∀ x ∈ w.segs, IsTargetOf dir t₁ x.ent) (h₂ : ∀ x ∈ v.segs, IsTargetOf dir t₂ x.ent) : Apart w v := by
  intro s hs u hu _ _ he
  exact absurd he (C12_disjoint dir t₁ t₂ _ _ (h₁ s hs) (h₂ u hu) hne).1

/-- `SegsInRange` for the work items of one loadable torrent -/
theorem workOfTorrent_range (H : Bytes → Bytes) {dir : Path} {all : List Torrent} {id0 : Nat} {t : Torrent}
    (hd : HashDistinct all) (ht : t ∈ all) (hload : Loadable H t) {wt : List Work}
    (h : workOfTorrent (buildTable dir all id0) t = some wt) : ∀ w ∈ wt, SegsInRange w := by
  obtain ⟨ps, hlay, _, hrel⟩ := workOfTorrent_rel H hd ht hload h
  intro w hw x hx
  obtain ⟨i, hi⟩ := mem_index hw
  obtain ⟨p, hp, hwr⟩ := hrel i w hi
  obtain ⟨s, hs, hr⟩ := hwr.mem hx
  rcases hlay with rfl | ⟨fl, _, _, _, hok, hfl⟩
  · simp at hp
  · obtain ⟨hi', rfl⟩ := List.getElem?_eq_some_iff.1 hp
    obtain ⟨hs1, hs2, _⟩ := (hok i hi').2.2.2.2.1 s hs
    rw [segRel_flen hfl hs1 hr, hr.1, hr.2.1]
    exact hs2

/-- first clause of `RangesDisjoint` inside one loadable torrent with distinct paths -/
theorem workOfTorrent_apart (H : Bytes → Bytes) {dir : Path} {all : List Torrent} {id0 : Nat} {t : Torrent}
    (hd : HashDistinct all) (ht : t ∈ all) (hload : Loadable H t) (hpd : PathsDistinct t) {wt : List Work}
    (h : workOfTorrent (buildTable dir all id0) t = some wt) : wt.Pairwise Apart := by
  obtain ⟨ps, hlay, hlen, hrel⟩ := workOfTorrent_rel H hd ht hload h
  rw [List.pairwise_iff_getElem]
  intro i j hi hj hij
  obtain ⟨p, hp, hwp⟩ := hrel i _ (List.getElem?_eq_getElem hi)
  obtain ⟨q, hq, hwq⟩ := hrel j _ (List.getElem?_eq_getElem hj)
  rcases hlay with rfl | ⟨fl, hL, _, _, hok, _⟩
  · simp at hp
  · obtain ⟨hi', rfl⟩ := List.getElem?_eq_some_iff.1 hp
    obtain ⟨hj', rfl⟩ := List.getElem?_eq_some_iff.1 hq
    intro x hx y hy n1 n2 he
    obtain ⟨s, hs, hrs⟩ := hwp.mem hx
    obtain ⟨u, hu, hru⟩ := hwq.mem hy
    have hidx := target_index hpd hrs.2.2.2 hru.2.2.2 n1 n2 he
    rw [hrs.2.2.1, hru.2.2.1] at hidx
    have := segs_disjoint (hok i hi') (hok j hj') hij hs hu hidx
    rw [hrs.1, hrs.2.1, hru.2.1]
    exact .inl this

/-- second clause of `RangesDisjoint` for the work items of one loadable torrent with distinct paths -/
theorem workOfTorrent_images (H : Bytes → Bytes) {dir : Path} {all : List Torrent} {id0 : Nat} {t : Torrent}
    (hd : HashDistinct all) (ht : t ∈ all) (hload : Loadable H t) (hpd : PathsDistinct t) {wt : List Work}
    (h : workOfTorrent (buildTable dir all id0) t = some wt) :
    ∀ w ∈ wt, ∀ (a b : Nat) (x y : WSeg), w.segs[a]? = some x → w.segs[b]? = some y → a ≠ b →
      x.ent.isPad = false → y.ent.isPad = false → x.ent.fullTarget ≠ y.ent.fullTarget := by
  obtain ⟨ps, hlay, _, hrel⟩ := workOfTorrent_rel H hd ht hload h
  intro w hw a b x y hx hy hab n1 n2 he
  obtain ⟨i, hi⟩ := mem_index hw
  obtain ⟨p, hp, hwr⟩ := hrel i w hi
  rcases hlay with rfl | ⟨fl, _, _, _, hok, _⟩
  · simp at hp
  · obtain ⟨hi', rfl⟩ := List.getElem?_eq_some_iff.1 hp
    obtain ⟨s, hs, hrs⟩ := hwr.2 a x hx
    obtain ⟨u, hu, hru⟩ := hwr.2 b y hy
    have hidx := target_index hpd hrs.2.2.2 hru.2.2.2 n1 n2 he
    rw [hrs.2.2.1, hru.2.2.1] at hidx
    exact seg_files_ne (hok i hi') hs hu hab hidx

/-- every work item of the list is a work item of one of the torrents -/
theorem convert_owned {dir : Path} {all : List Torrent} {id0 : Nat} (hd : HashDistinct all) {ts : List Torrent}
    (hsub : ∀ t ∈ ts, t ∈ all) {ws : List Work} (h : convertPiecesToWork (buildTable dir all id0) ts = some ws) :
    ∀ w ∈ ws, ∃ t ∈ ts, ∀ x ∈ w.segs, IsTargetOf dir t x.ent := by
  intro w hw
  obtain ⟨t, ht, wt, hwt, hwin⟩ := RunH.convert_mem h w hw
  exact ⟨t, ht, workOfTorrent_owned hd (hsub t ht) hwt w hwin⟩

theorem convert_range (H : Bytes → Bytes) {dir : Path} {all : List Torrent} {id0 : Nat} (hd : HashDistinct all)
    {ts : List Torrent} (hsub : ∀ t ∈ ts, t ∈ all) (hload : ∀ t ∈ ts, Loadable H t) {ws : List Work}
    (h : convertPiecesToWork (buildTable dir all id0) ts = some ws) : ∀ w ∈ ws, SegsInRange w := by
  intro w hw
  obtain ⟨t, ht, wt, hwt, hwin⟩ := RunH.convert_mem h w hw
  exact workOfTorrent_range H hd (hsub t ht) (hload t ht) hwt w hwin

theorem convert_images (H : Bytes → Bytes) {dir : Path} {all : List Torrent} {id0 : Nat} (hd : HashDistinct all)
    {ts : List Torrent} (hsub : ∀ t ∈ ts, t ∈ all) (hload : ∀ t ∈ ts, Loadable H t)
    (hpd : ∀ t ∈ ts, PathsDistinct t) {ws : List Work}
    (h : convertPiecesToWork (buildTable dir all id0) ts = some ws) :
    ∀ w ∈ ws, ∀ (a b : Nat) (x y : WSeg), w.segs[a]? = some x → w.segs[b]? = some y → a ≠ b →
      x.ent.isPad = false → y.ent.isPad = false → x.ent.fullTarget ≠ y.ent.fullTarget := by
  intro w hw
  obtain ⟨t, ht, wt, hwt, hwin⟩ := RunH.convert_mem h w hw
  exact workOfTorrent_images H hd (hsub t ht) (hload t ht) (hpd t ht) hwt w hwin

theorem convert_apart (H : Bytes → Bytes) {dir : Path} {all : List Torrent} {id0 : Nat} (hd : HashDistinct all)
    {ts : List Torrent} (hts : HashDistinct ts) (hsub : ∀ t ∈ ts, t ∈ all) (hload : ∀ t ∈ ts, Loadable H t)
    (hpd : ∀ t ∈ ts, PathsDistinct t) {ws : List Work}
    (h : convertPiecesToWork (buildTable dir all id0) ts = some ws) : ws.Pairwise Apart := by
  induction ts generalizing ws with
  | nil => simp [convertPiecesToWork] at h; subst h; exact List.Pairwise.nil
  | cons t ts ih =>
    unfold convertPiecesToWork at h
    split at h
    · rename_i a b ha hb
      cases h
      unfold HashDistinct at hts
      rw [List.pairwise_cons] at hts
      have hsub' : ∀ x ∈ ts, x ∈ all := fun x hx => hsub x (List.mem_cons_of_mem _ hx)
      rw [List.pairwise_append]
      refine ⟨workOfTorrent_apart H hd (hsub t List.mem_cons_self) (hload t List.mem_cons_self)
          (hpd t List.mem_cons_self) ha,
        ih hts.2 hsub' (fun x hx => hload x (List.mem_cons_of_mem _ hx))
          (fun x hx => hpd x (List.mem_cons_of_mem _ hx)) hb, ?_⟩
      intro w hw v hv
      obtain ⟨t', ht', hown⟩ := convert_owned hd hsub' hb v hv
      exact apart_of_owned (hts.1 t' ht') (workOfTorrent_owned hd (hsub t List.mem_cons_self) ha w hw) hown
    · cases h

/-- `RangesDisjoint` from its two clauses in list form -/
theorem rangesDisjoint_of {ws : List Work} (h1 : ws.Pairwise Apart)
    (h2 : ∀ w ∈ ws, ∀ (a b : Nat) (x y : WSeg), w.segs[a]? = some x → w.segs[b]? = some y → a ≠ b →
      x.ent.isPad = false → y.ent.isPad = false → x.ent.fullTarget ≠ y.ent.fullTarget) :
    RangesDisjoint ws := by
  refine ⟨?_, h2⟩
  rw [List.pairwise_iff_getElem] at h1
  intro a b w v hw hv hab
  obtain ⟨ha, rfl⟩ := List.getElem?_eq_some_iff.1 hw
  obtain ⟨hb, rfl⟩ := List.getElem?_eq_some_iff.1 hv
  rcases Nat.lt_or_gt_of_ne hab with h | h
  · exact h1 a b ha hb h
  · exact (h1 b a hb ha h).symm

/-- "same image, same length" for a table of torrents with distinct info-hashes and distinct paths -/
theorem table_same {dir : Path} {all : List Torrent} {id0 : Nat} (hd : HashDistinct all)
    (hpd : ∀ t ∈ all, PathsDistinct t) :
    ∀ e ∈ buildTable dir all id0, ∀ f ∈ buildTable dir all id0, e.isPad = false → f.isPad = false →
      e.fullTarget = f.fullTarget → e.fileLength = f.fileLength := by
  intro e he f hf n1 n2 heq
  obtain ⟨t₁, ht₁, h₁⟩ := buildTable_target dir all id0 e he
  obtain ⟨t₂, ht₂, h₂⟩ := buildTable_target dir all id0 f hf
  by_cases hh : t₁.infoHash = t₂.infoHash
  · have := hd.eq ht₁ ht₂ hh
    subst this
    exact target_length h₁ h₂ (target_index (hpd t₁ ht₁) h₁ h₂ n1 n2 heq)
  · exact absurd heq (C12_disjoint dir t₁ t₂ e f h₁ h₂ hh).1

end TB.RunT
