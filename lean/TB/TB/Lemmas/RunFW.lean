/-
  Helper lemmas (RunFW): the writer and a whole piece evaluation as local changes of the tree.
-/
import TB.Lemmas.RunF
import TB.Lemmas.RunC
namespace TB.RunF
open TB

/-! ### the writer, one segment at a time -/

/-- the operations `writeSegs` issues for one segment that is neither padding nor skipped;
    `none` = all succeeded, go on with the next segment -/
def writeOne (st : St) (seg : WSeg) (buf : Bytes) (start : Nat) : St × Option Solved :=
  let target := seg.ent.fullTarget
  let (st1, ok1) := st.op .mkdirs target.dropLast (fun fs => fs.mkdirs target.dropLast)
  if !ok1 then (st1, some .fault) else
  let (st2, ok2) := st1.op .openc target (fun fs => let r := fs.openCreate target; (r.1, r.2.isSome))
  if !ok2 then (st2, some .fault) else
  match st2.fs.look target with
  | .file i =>
    let (st3, ok3) := st2.op (.setlen seg.ent.fileLength) target (fun fs => (fs.setLen i seg.ent.fileLength, true))
    if !ok3 then (st3, some .fault) else
    let (st4, ok4) := st3.op (.seek seg.off) target (fun fs => (fs, true))
    if !ok4 then (st4, some .fault) else
    if buf.length < start + seg.len then (st4, some .fault) else
    let data := (buf.drop start).take seg.len
    let (st5, ok5) := st4.op (.write seg.off data) target (fun fs => (fs.writeAt i seg.off data, true))
    if !ok5 then (st5, some .fault) else (st5, none)
  | _ => (st2, some .fault)

theorem writeSegs_cons (st : St) (seg : WSeg) (src : Option Path) (rest : List (WSeg × Option Path))
    (buf : Bytes) (start : Nat) :
    writeSegs st ((seg, src) :: rest) buf start =
      if seg.ent.isPad then writeSegs st rest buf (start + seg.len)
      else if src == some seg.ent.fullTarget then writeSegs st rest buf (start + seg.len)
      else match writeOne st seg buf start with
        | (st5, none) => writeSegs st5 rest buf (start + seg.len)
        | (stx, some r) => (stx, r) := by
  rw [writeSegs]
  unfold writeOne
  simp -iota only
  split; · rfl
  split; · rfl
  rcases st.op .mkdirs seg.ent.fullTarget.dropLast (fun fs => fs.mkdirs seg.ent.fullTarget.dropLast) with ⟨st1, ok1⟩
  cases ok1
  · rfl
  simp only [Bool.not_true, Bool.false_eq_true, if_false]
  rcases st1.op .openc seg.ent.fullTarget
    (fun fs => ((fs.openCreate seg.ent.fullTarget).1, (fs.openCreate seg.ent.fullTarget).2.isSome)) with ⟨st2, ok2⟩
  cases ok2
  · rfl
  simp only [Bool.not_true, Bool.false_eq_true, if_false]
  generalize st2.fs.look seg.ent.fullTarget = lk
  cases lk with
  | file i =>
    simp only []
    rcases st2.op (.setlen seg.ent.fileLength) seg.ent.fullTarget (fun fs => (fs.setLen i seg.ent.fileLength, true))
      with ⟨st3, ok3⟩
    cases ok3
    · rfl
    simp only [Bool.not_true, Bool.false_eq_true, if_false]
    rcases st3.op (.seek seg.off) seg.ent.fullTarget (fun fs => (fs, true)) with ⟨st4, ok4⟩
    cases ok4
    · rfl
    simp only [Bool.not_true, Bool.false_eq_true, if_false]
    split
    · rfl
    rcases st4.op (.write seg.off ((buf.drop start).take seg.len)) seg.ent.fullTarget
      (fun fs => (fs.writeAt i seg.off ((buf.drop start).take seg.len), true)) with ⟨st5, ok5⟩
    cases ok5 <;> rfl
  | _ => rfl

theorem content_setLen_length (fs : Fs) (i n : Nat) : ((fs.setLen i n).content i).length = n := by
  simp only [Fs.setLen, RD.Fs.content_setData]
  split
  · simp; omega
  · simp; omega

theorem readAt_writeAt (fs : Fs) (i off : Nat) (d : Bytes) (h : off ≤ (fs.content i).length) :
    (fs.writeAt i off d).readAt i off d.length = d ∧ off + d.length ≤ ((fs.writeAt i off d).content i).length := by
  simp only [Fs.readAt, Fs.writeAt, RD.Fs.content_setData]
  rw [if_pos h]
  have hl : ((fs.content i).take off).length = off := by simp [List.length_take, Nat.min_eq_left h]
  constructor
  · rw [List.append_assoc, List.drop_left' hl, List.take_left' rfl]
  · simp only [List.length_append, hl]; omega

theorem writeOne_loc {T : Path → Prop} (st : St) (seg : WSeg) (buf : Bytes) (start : Nat)
    (hT : T seg.ent.fullTarget) : Loc T st.fs (writeOne st seg buf start).1.fs := by
  unfold writeOne
  simp -iota only
  split; rename_i st1 ok1 h1
  have L1 : Loc T st.fs st1.fs := loc_op h1 (loc_mkdirs T _ _)
  split; · exact L1
  rename_i hok1
  have hok1 : ok1 = true := by simpa using hok1
  subst hok1
  obtain ⟨e1, s1⟩ := op_ok h1
  have hpre : ∀ q ∈ Fs.properPrefixes seg.ent.fullTarget, st1.fs.isDir q = true := by
    intro q hq
    rw [e1]
    exact (mkdirs_spec st.fs _).2.2.2.2.2 s1 q (properPrefixes_sub_dropLast hq)
  split; rename_i st2 ok2 h2
  have L2 : Loc T st.fs st2.fs := L1.trans (loc_op h2 (loc_openCreate hT hpre))
  split; · exact L2
  split
  · rename_i i hl
    have hi := look_file_inoOf hl
    split; rename_i st3 ok3 h3
    have L3' : Loc T st2.fs st3.fs := loc_op h3 (loc_setLen hT hi _)
    have L3 := L2.trans L3'
    split; · exact L3
    split; rename_i st4 ok4 h4
    have e4 : st4.fs = st3.fs := RD.St.op_fs_same h4 rfl
    have L4 : Loc T st.fs st4.fs := by rw [e4]; exact L3
    split; · exact L4
    split; · exact L4
    split; rename_i st5 ok5 h5
    have hi4 : st4.fs.inoOf seg.ent.fullTarget = some i := by rw [e4]; exact L3'.ino_pres _ _ hi
    have L5 := L4.trans (loc_op h5 (loc_writeAt hT hi4 _ _))
    split <;> exact L5
  · exact L2

theorem writeOne_ok {st st5 : St} {seg : WSeg} {buf : Bytes} {start : Nat}
    (h : writeOne st seg buf start = (st5, none)) (hr : seg.off + seg.len ≤ seg.ent.fileLength) :
    start + seg.len ≤ buf.length ∧
    ∃ i, st5.fs.look seg.ent.fullTarget = .file i ∧ seg.off + seg.len ≤ (st5.fs.content i).length ∧
      st5.fs.readAt i seg.off seg.len = (buf.drop start).take seg.len := by
  unfold writeOne at h
  simp -iota only at h
  split at h; rename_i st1 ok1 h1
  split at h; · cases h
  split at h; rename_i st2 ok2 h2
  split at h; · cases h
  split at h
  · rename_i i hl
    split at h; rename_i st3 ok3 h3
    split at h; · cases h
    rename_i hok3
    have hok3 : ok3 = true := by simpa using hok3
    subst hok3
    split at h; rename_i st4 ok4 h4
    split at h; · cases h
    split at h; · cases h
    rename_i hlen
    split at h; rename_i st5' ok5 h5
    split at h; · cases h
    rename_i hok5
    have hok5 : ok5 = true := by simpa using hok5
    subst hok5
    cases h
    have e3 := (op_ok h3).1
    have e4 : st4.fs = st3.fs := RD.St.op_fs_same h4 rfl
    have e5 := (op_ok h5).1
    simp only at e3 e5
    have hdl : ((buf.drop start).take seg.len).length = seg.len := by
      simp only [List.length_take, List.length_drop]; omega
    have hc3 : seg.off ≤ (st4.fs.content i).length := by
      rw [e4, e3, content_setLen_length]; omega
    obtain ⟨r1, r2⟩ := readAt_writeAt st4.fs i seg.off ((buf.drop start).take seg.len) hc3
    rw [hdl] at r1 r2
    refine ⟨by omega, i, ?_, ?_, ?_⟩
    · rw [e5, RD.Fs.look_writeAt, e4, e3, RD.Fs.look_setLen]; exact hl
    · rw [e5]; exact r2
    · rw [e5]; exact r1
  · cases h

/-! ### the writer, all segments -/

/-- the export images the writer touches: non-padding segments not matched from their own image -/
def Tof (pairs : List (WSeg × Option Path)) (p : Path) : Prop :=
  ∃ x ∈ pairs, x.1.ent.isPad = false ∧ x.2 ≠ some x.1.ent.fullTarget ∧ p = x.1.ent.fullTarget

theorem Tof.tail {x : WSeg × Option Path} {rest : List (WSeg × Option Path)} (p : Path) (h : Tof rest p) :
    Tof (x :: rest) p := by
  obtain ⟨y, hy, h1, h2, h3⟩ := h
  exact ⟨y, List.mem_cons_of_mem _ hy, h1, h2, h3⟩

theorem writeSegs_loc (pairs : List (WSeg × Option Path)) :
    ∀ (st : St) (buf : Bytes) (start : Nat), Loc (Tof pairs) st.fs (writeSegs st pairs buf start).1.fs := by
  induction pairs with
  | nil => intro st buf start; exact Loc.refl _ _
  | cons x rest ih =>
    obtain ⟨seg, src⟩ := x
    intro st buf start
    rw [writeSegs_cons]
    split; · exact (ih _ _ _).mono Tof.tail
    rename_i hpad
    split; · exact (ih _ _ _).mono Tof.tail
    rename_i hsrc
    have hT : Tof ((seg, src) :: rest) seg.ent.fullTarget :=
      ⟨(seg, src), List.mem_cons_self, by simpa using hpad, by simpa using hsrc, rfl⟩
    have L := writeOne_loc st seg buf start hT
    split <;> rename_i h <;> rw [h] at L
    · exact L.trans ((ih _ _ _).mono Tof.tail)
    · exact L

/-! ### one piece -/

/-- the export images of the non-padding segments of a piece -/
def Tw (w : Work) (p : Path) : Prop := ∃ s ∈ w.segs, s.ent.isPad = false ∧ p = s.ent.fullTarget

theorem Tof_zip_sub {segs : List WSeg} {srcs : List (Option Path)} {w : Work} (hs : ∀ s ∈ segs, s ∈ w.segs)
    (p : Path) (h : Tof (List.zip segs srcs) p) : Tw w p := by
  obtain ⟨x, hx, h1, _, h3⟩ := h
  exact ⟨x.1, hs _ (List.of_mem_zip hx).1, h1, h3⟩

theorem solvePiece_loc (H : Bytes → Bytes) (st : St) (w : Work) : Loc (Tw w) st.fs (solvePiece H st w).1.fs := by
  unfold solvePiece; simp -iota only
  split; · exact Loc.refl _ _
  split
  · rename_i seg hw
    split
    · split <;> exact Loc.refl _ _
    · split
      · exact Loc.refl _ _
      · rename_i paths _
        have r := (RC.scanSingle_ext H w.hash seg st paths).fs
        split <;> rename_i h1 <;> rw [h1] at r
        · rename_i st1 src bytes
          have L := writeSegs_loc [(seg, some src)] st1 bytes 0
          simp only at r
          rw [r] at L
          refine L.mono ?_
          intro p hp
          have := Tof_zip_sub (segs := [seg]) (srcs := [some src]) (w := w) (by intro s hs; rw [hw]; exact hs) p
            (by simpa using hp)
          exact this
        · exact Loc.of_eq r
        · exact Loc.of_eq r
        · exact Loc.of_eq r
  · have r := (RC.preload_ext st w.segs).fs
    split <;> rename_i h1 <;> rw [h1] at r
    · split
      · rename_i st1 loaded _ chosen _
        have L := writeSegs_loc (List.zip w.segs (chosen.map (·.1))) st1 (chosen.flatMap (·.2)) 0
        simp only at r
        rw [r] at L
        exact L.mono (Tof_zip_sub (fun s hs => hs))
      · exact Loc.of_eq r
    · exact Loc.of_eq r
    · exact Loc.of_eq r
