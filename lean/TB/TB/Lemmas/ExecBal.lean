/-
  Helper lemmas for C05: the reference `balance` (`balanceRef`, round-robin dealing) meets `BalSpec`.
-/
import TB.Spec.ExecSpec
namespace TB.Exec

/-- number of items queue `j` has received after `k` deals (round-robin over `a` queues) -/
def dealt (a k j : Nat) : Nat := k / a + (if j < k % a then 1 else 0)

theorem dealt_zero (a j : Nat) : dealt a 0 j = 0 := by
  simp [dealt]

theorem dealt_succ (a k j : Nat) (ha : 0 < a) (hj : j < a) :
    dealt a (k + 1) j = dealt a k j + (if j = k % a then 1 else 0) := by
  unfold dealt
  have hr : k % a < a := Nat.mod_lt _ ha
  have hk : k % a + a * (k / a) = k := Nat.mod_add_div k a
  by_cases hlt : k % a + 1 < a
  · have h := (Nat.div_mod_unique (a := k + 1) (d := k / a) (c := k % a + 1) ha).2 ⟨by omega, hlt⟩
    rw [h.1, h.2]
    by_cases h1 : j < k % a
    · have h2 : j < k % a + 1 := by omega
      have h3 : ¬ j = k % a := by omega
      simp [h1, h2, h3]
    · by_cases h3 : j = k % a
      · have h2 : j < k % a + 1 := by omega
        simp [← h3]
      · have h2 : ¬ j < k % a + 1 := by omega
        simp [h1, h2, h3]
  · have hmul : a * (k / a + 1) = a * (k / a) + a := by rw [Nat.mul_add, Nat.mul_one]
    have h := (Nat.div_mod_unique (a := k + 1) (d := k / a + 1) (c := 0) ha).2 ⟨by omega, ha⟩
    rw [h.1, h.2]
    by_cases h3 : j = k % a
    · have h1 : ¬ j < k % a := by omega
      simp [← h3]
    · have h1 : j < k % a := by omega
      simp [h1, h3]

theorem dealAux_length (a : Nat) (xs : List Nat) (k : Nat) (qs : List (List Nat)) :
    (dealAux a xs k qs).length = qs.length := by
  induction xs generalizing k qs with
  | nil => rfl
  | cons x xs ih => simp [dealAux, ih]

theorem dealAux_drop (a : Nat) (ha : 0 < a) (xs : List Nat) (k : Nat) (qs : List (List Nat)) :
    (dealAux a xs k qs).drop a = qs.drop a := by
  induction xs generalizing k qs with
  | nil => rfl
  | cons x xs ih =>
    simp only [dealAux]
    rw [ih]
    have hr : k % a < a := Nat.mod_lt _ ha
    rw [List.drop_set]
    simp [hr]

theorem flatten_set_append (l : List (List Nat)) (m : Nat) (x : Nat) (hm : m < l.length) :
    List.Perm (l.set m (l[m]?.getD [] ++ [x])).flatten (l.flatten ++ [x]) := by
  induction l generalizing m with
  | nil => simp at hm
  | cons q l ih =>
    cases m with
    | zero =>
      simp only [List.set_cons_zero, List.flatten_cons, List.getElem?_cons_zero, Option.getD_some,
        List.append_assoc]
      exact List.Perm.append_left q List.perm_append_comm
    | succ m =>
      simp only [List.set_cons_succ, List.flatten_cons, List.getElem?_cons_succ, List.append_assoc]
      exact List.Perm.append_left q (ih m (by simpa using hm))

theorem dealAux_perm (a : Nat) (ha : 0 < a) (xs : List Nat) (k : Nat) (qs : List (List Nat))
    (hlen : a ≤ qs.length) :
    List.Perm ((dealAux a xs k qs).take a).flatten ((qs.take a).flatten ++ xs) := by
  induction xs generalizing k qs with
  | nil => simp [dealAux]
  | cons x xs ih =>
    simp only [dealAux]
    have hr : k % a < a := Nat.mod_lt _ ha
    refine (ih (k + 1) _ (by simpa using hlen)).trans ?_
    rw [List.take_set]
    have h1 : qs[k % a]? = (qs.take a)[k % a]? := by
      rw [List.getElem?_take]; simp [hr]
    rw [h1]
    have h2 := flatten_set_append (qs.take a) (k % a) x (by rw [List.length_take]; omega)
    have h3 : List.Perm (((qs.take a).set (k % a) ((qs.take a)[k % a]?.getD [] ++ [x])).flatten ++ xs)
        (((qs.take a).flatten ++ [x]) ++ xs) := List.Perm.append_right xs h2
    simpa using h3

theorem dealAux_sizes (a : Nat) (ha : 0 < a) (xs : List Nat) (k : Nat) (qs : List (List Nat))
    (hlen : a ≤ qs.length) (h : ∀ j, j < a → (qs[j]?.getD []).length = dealt a k j) :
    ∀ j, j < a → ((dealAux a xs k qs)[j]?.getD []).length = dealt a (k + xs.length) j := by
  induction xs generalizing k qs with
  | nil => simpa [dealAux] using h
  | cons x xs ih =>
    intro j hj
    simp only [dealAux, List.length_cons]
    have hr : k % a < a := Nat.mod_lt _ ha
    have := ih (k + 1) (qs.set (k % a) (qs[k % a]?.getD [] ++ [x])) (by simpa using hlen) ?_ j hj
    · rw [this]; congr 1; omega
    · intro j' hj'
      rw [dealt_succ a k j' ha hj', List.getElem?_set]
      by_cases hjk : k % a = j'
      · subst hjk
        have hlt : k % a < qs.length := by omega
        have := h _ hj'
        simp only [List.getElem?_eq_getElem hlt, Option.getD_some] at this
        simp [hlt, this]
      · have : ¬ j' = k % a := fun e => hjk e.symm
        simp [hjk, this, h _ hj']

theorem balanceRef_spec : BalSpec balanceRef := by
  intro a qs ha hlen
  have hne : ¬ a = 0 := by omega
  have hmin : min a qs.length = a := by omega
  simp only [balanceRef, hne, if_false, hmin]
  have hclen : a ≤ (List.replicate a ([] : List Nat) ++ qs.drop a).length := by simp
  have htake : (List.replicate a ([] : List Nat) ++ qs.drop a).take a = List.replicate a [] := by
    rw [List.take_append_of_le_length (by simp)]
    simp
  refine ⟨?_, ?_, ?_, ?_⟩
  · rw [dealAux_length]; simp; omega
  · rw [dealAux_drop a ha]
    rw [List.drop_append_of_le_length (by simp)]
    simp
  · have := dealAux_perm a ha (qs.take a).flatten 0 _ hclen
    rw [htake] at this
    simpa using this
  · intro j hj
    have := dealAux_sizes a ha (qs.take a).flatten 0 _ hclen ?_ j hj
    · rw [this]; simp [dealt]
    · intro j' hj'
      rw [dealt_zero]
      rw [List.getElem?_append_left (by simpa using hj')]
      simp [hj']

end TB.Exec
