/-
  Helper lemmas for C09layoutcost.
  Part 1 (`*_fst`): the first component of every step-counting layout function is the original model function.
  Part 2 (`*_cost`): amortised (potential) argument. The file cursor `fi` only moves forward and never beyond
    `files.length`; an iteration of the inner loop either moves the cursor (5 steps, paid by the file left behind)
    or completes the piece (4 steps + 1 failing test, paid by the piece). Hence for one run of `fill` from cursor
    `fi` to cursor `fi'`: cost ≤ 5·(fi' - fi) + 5 and segments ≤ (fi' - fi) + 1; and when the run ends on the
    `break` (cursor reaches `files.length`) the `+ 5` and the `+ 1` are not spent.
    Summing over the outer loop: cost of `multiLoop` from cursor `fi` ≤ 8·|hashes| + 1 + 6·(|files| - fi - 1).
-/
import TB.Spec.LayoutCost
namespace TB.LCostL
open TB TB.LCost

/-! ### Part 1: faithfulness -/

theorem fillC_fst (L : Nat) (files : List Nat) : ∀ (fuel counted fi rem : Nat) (acc : List Seg),
    (fillC L files fuel counted fi rem acc).1 = fill L files fuel counted fi rem acc := by
  intro fuel
  induction fuel with
  | zero => intros; rfl
  | succ fuel ih =>
    intro counted fi rem acc
    simp only [fillC, fill]
    rcases files[fi]? with _ | cl <;> rcases files[fi+1]? with _ | l' <;>
      simp only [apply_ite Prod.fst, ih]

theorem multiLoopC_fst (L : Nat) (files : List Nat) : ∀ (hs : List Bytes) (pos fi rem : Nat),
    (multiLoopC L files hs pos fi rem).1 = multiLoop L files hs pos fi rem := by
  intro hs
  induction hs with
  | nil => intros; rfl
  | cons h hs ih =>
    intro pos fi rem
    simp only [multiLoopC, multiLoop, ← fillC_fst]
    rcases fillC L files (files.length + 2) 0 fi rem [] with ⟨res, n⟩
    rcases res with _ | ⟨segs, fi', rem'⟩
    · rfl
    · simp only [← ih]
      rcases multiLoopC L files hs (pos + 1) fi' rem' with ⟨res2, m⟩
      rcases res2 with _ | ps <;> rfl

theorem constructMultiC_fst (L : Nat) (files : List Nat) (hashes : List Bytes) :
    (constructMultiC L files hashes).1 = constructMulti L files hashes := by
  rcases files with _ | ⟨f0, rest⟩
  · rfl
  · exact multiLoopC_fst L _ hashes 0 0 f0

theorem singleLoopC_fst (L total : Nat) : ∀ (hs : List Bytes) (pos start rem : Nat),
    (singleLoopC L total hs pos start rem).1 = singleLoop L total hs pos start rem := by
  intro hs
  induction hs with
  | nil => intros; rfl
  | cons h hs ih =>
    intro pos start rem
    simp only [singleLoopC, singleLoop, ih]

theorem constructSingleC_fst (L total : Nat) (hashes : List Bytes) :
    (constructSingleC L total hashes).1 = constructSingle L total hashes :=
  singleLoopC_fst L total hashes 0 0 total

theorem constructPiecesC_fst (L : Nat) (length : Option Nat) (files : Option (List Nat)) (hashes : List Bytes) :
    (constructPiecesC L length files hashes).1 = constructPieces L length files hashes := by
  rcases length with _ | total
  · rcases files with _ | fs
    · rfl
    · exact constructMultiC_fst L fs hashes
  · simp only [constructPiecesC, constructPieces, constructSingleC_fst]

/-! ### Part 2: cost -/

/-- the amortised bound for one run `X` of the inner loop started at cursor `fi ≤ F` with `accLen` segments:
    on success the cursor ends at `fi' ∈ [fi, F]`, at most `fi' - fi + 1` segments were added and at most
    `5·(fi' - fi) + 5` steps taken — exactly `fi' - fi` segments and `5·(fi' - fi)` steps when the run ended on the
    `break` (moved, and reached `F`); on a panic at most `5·(F - fi) + 2` steps were taken -/
def FillBound (F fi accLen : Nat) (X : Option (List Seg × Nat × Nat) × Nat) : Prop :=
  (∀ segs fi' rem', X.1 = some (segs, fi', rem') →
      fi ≤ fi' ∧ fi' ≤ F ∧ segs.length + fi ≤ accLen + fi' + 1 ∧ X.2 + 5 * fi ≤ 5 * fi' + 5 ∧
      (fi < fi' → fi' = F → X.2 + 5 * fi = 5 * fi' ∧ segs.length + fi = accLen + fi')) ∧
  (X.1 = none → X.2 + 5 * fi ≤ 5 * F + 2)

theorem FillBound_none {F fi accLen n : Nat} (h : n + 5 * fi ≤ 5 * F + 2) : FillBound F fi accLen (none, n) :=
  ⟨fun _ _ _ hs => (by cases hs), fun _ => h⟩

theorem FillBound_adv {F fi accLen : Nat} {r : Option (List Seg × Nat × Nat) × Nat}
    (h : FillBound F (fi + 1) (accLen + 1) r) (hne : fi + 1 ≠ F) : FillBound F fi accLen (r.1, r.2 + 5) := by
  refine ⟨?_, ?_⟩
  · intro segs fi' rem' hs
    obtain ⟨h1, h2, h3, h4, h5⟩ := h.1 segs fi' rem' hs
    refine ⟨by omega, h2, by omega, by simp only []; omega, ?_⟩
    intro _ hF
    have := h5 (by omega) hF
    simp only []; omega
  · intro hn
    have := h.2 hn
    simp only []; omega

theorem fillC_zero (L : Nat) (files : List Nat) (counted fi rem : Nat) (acc : List Seg) :
    fillC L files 0 counted fi rem acc = (none, 1) := rfl

theorem fillC_done (L : Nat) (files : List Nat) (fuel counted fi rem : Nat) (acc : List Seg)
    (h : ¬ counted < L) : fillC L files (fuel + 1) counted fi rem acc = (some (acc, fi, rem), 1) := by
  simp only [fillC, if_neg h]

/-- the part of an iteration after the segment push when the current file is used up (`curRem = 0`) -/
theorem fillC_adv_bound (L : Nat) (files : List Nat) (fuel counted' fi : Nat) (acc' : List Seg) (accLen : Nat)
    (hacc : acc'.length = accLen + 1) (hlt : fi < files.length)
    (ih : ∀ (counted fi rem : Nat) (acc : List Seg), fi ≤ files.length →
      FillBound files.length fi acc.length (fillC L files fuel counted fi rem acc)) :
    FillBound files.length fi accLen
      (if fi + 1 = files.length then (some (acc', fi + 1, 0), 5)
       else match files[fi+1]? with
        | some l' => ((fillC L files fuel counted' (fi+1) l' acc').1, (fillC L files fuel counted' (fi+1) l' acc').2 + 5)
        | none => (none, 5)) := by
  by_cases hb : fi + 1 = files.length
  · rw [if_pos hb]
    refine ⟨?_, (by intro hn; cases hn)⟩
    intro segs fi' rem' hs
    simp only [Option.some.injEq, Prod.mk.injEq] at hs
    obtain ⟨rfl, rfl, rfl⟩ := hs
    simp only []
    omega
  · rw [if_neg hb]
    rcases files[fi+1]? with _ | l'
    · exact FillBound_none (by omega)
    · have := ih counted' (fi + 1) l' acc' (by omega)
      rw [hacc] at this
      exact FillBound_adv this hb

theorem fillC_cost (L : Nat) (files : List Nat) : ∀ (fuel counted fi rem : Nat) (acc : List Seg),
    fi ≤ files.length → FillBound files.length fi acc.length (fillC L files fuel counted fi rem acc) := by
  intro fuel
  induction fuel with
  | zero =>
    intro counted fi rem acc hfi
    rw [fillC_zero]
    exact FillBound_none (by omega)
  | succ fuel ih =>
    intro counted fi rem acc hfi
    by_cases hc : counted < L
    · simp only [fillC, if_pos hc]
      rcases hget : files[fi]? with _ | cl
      · exact FillBound_none (by omega)
      · have hlt : fi < files.length := (List.getElem?_eq_some_iff.1 hget).1
        simp only []
        by_cases hr : cl < rem
        · rw [if_pos hr]
          exact FillBound_none (by omega)
        · rw [if_neg hr]
          by_cases hg : rem ≥ L - counted
          · simp only [if_pos hg]
            by_cases h0 : rem - (L - counted) = 0
            · rw [if_pos h0]
              exact fillC_adv_bound L files fuel _ fi _ acc.length (by simp) hlt ih
            · rw [if_neg h0]
              rcases fuel with _ | fuel
              · rw [fillC_zero]
                exact FillBound_none (by omega)
              · rw [fillC_done _ _ _ _ _ _ _ (Nat.lt_irrefl L)]
                refine ⟨?_, (by intro hn; cases hn)⟩
                intro segs fi' rem' hs
                simp only [Option.some.injEq, Prod.mk.injEq] at hs
                obtain ⟨rfl, rfl, rfl⟩ := hs
                simp only [List.length_append, List.length_cons, List.length_nil]
                omega
          · simp only [if_neg hg]
            exact fillC_adv_bound L files fuel _ fi _ acc.length (by simp) hlt ih
    · rw [fillC_done _ _ _ _ _ _ _ hc]
      refine ⟨?_, (by intro hn; cases hn)⟩
      intro segs fi' rem' hs
      simp only [Option.some.injEq, Prod.mk.injEq] at hs
      obtain ⟨rfl, rfl, rfl⟩ := hs
      simp only []
      omega

/-- outer loop, amortised: from cursor `fi` the remaining files pay 6 each except the last one, every hash pays 8 -/
theorem multiLoopC_cost (L : Nat) (files : List Nat) : ∀ (hs : List Bytes) (pos fi rem : Nat),
    fi ≤ files.length →
    (multiLoopC L files hs pos fi rem).2 ≤ 8 * hs.length + 1 + 6 * (files.length - fi - 1) := by
  intro hs
  induction hs with
  | nil => intro pos fi rem _; simp only [multiLoopC, List.length_nil]; omega
  | cons h hs ih =>
    intro pos fi rem hfi
    have hb := fillC_cost L files (files.length + 2) 0 fi rem [] hfi
    simp only [multiLoopC, List.length_cons]
    rcases hf : fillC L files (files.length + 2) 0 fi rem [] with ⟨res, n⟩
    rw [hf] at hb
    rcases res with _ | ⟨segs, fi', rem'⟩
    · have := hb.2 rfl
      simp only [] at this ⊢
      omega
    · obtain ⟨h1, h2, h3, h4, h5⟩ := hb.1 segs fi' rem' rfl
      have hm := ih (pos + 1) fi' rem' h2
      simp only [List.length_nil] at h3 h4 h5
      have hgoal : (multiLoopC L files hs (pos + 1) fi' rem').2 + n + segs.length + 2
          ≤ 8 * (hs.length + 1) + 1 + 6 * (files.length - fi - 1) := by
        by_cases hlast : fi < fi' ∧ fi' = files.length
        · have := h5 hlast.1 hlast.2
          omega
        · omega
      simp only []
      rcases hq : multiLoopC L files hs (pos + 1) fi' rem' with ⟨res2, m⟩
      rw [hq] at hgoal
      rcases res2 with _ | ps <;> exact hgoal

theorem constructMultiC_cost (L : Nat) (files : List Nat) (hashes : List Bytes) (hne : files ≠ []) :
    (constructMultiC L files hashes).2 + 4 ≤ 8 * hashes.length + 6 * files.length := by
  rcases files with _ | ⟨f0, rest⟩
  · exact absurd rfl hne
  · have := multiLoopC_cost L (f0 :: rest) hashes 0 0 f0 (Nat.zero_le _)
    simp only [constructMultiC, List.length_cons] at this ⊢
    omega

theorem constructMultiC_nil (L : Nat) (hashes : List Bytes) : constructMultiC L [] hashes = (none, 1) := rfl

theorem singleLoopC_cost (L total : Nat) : ∀ (hs : List Bytes) (pos start rem : Nat),
    (singleLoopC L total hs pos start rem).2 = 4 * hs.length + 1 := by
  intro hs
  induction hs with
  | nil => intros; rfl
  | cons h hs ih =>
    intro pos start rem
    simp only [singleLoopC, ih, List.length_cons]
    omega

end TB.LCostL
