/-
  RunJCex: the world that refutes the first formulation of `C01_bytes` (TB.Props.C01bytes), kept as a checked
  example. It explains the hypothesis `hsame`. `H` is the identity.

  One multi-file torrent lists the same path `x` twice with different lengths (finding D6): file 0 has length 2,
  file 1 has length 1; piece length 1, piece hashes `[1]`, `[2]`, `[3]`. Both table entries have the same export
  image `img`, which exists with content `[5, 6]`. The scan directory holds `s/1 = [3]` (candidate for file 1) and
  `s/2 = [1, 9]` (candidate for file 0). No faults, no resize pass, default order (last piece first):
    * piece 2 (file 1, bytes [0,1)) is found in `s/1`: `set_len 1` truncates the image to `[5]`, the write makes `[3]`;
    * piece 1 (file 0, bytes [1,2)) is not found;
    * piece 0 (file 0, bytes [0,1)) is found in `s/2`: `set_len 2` re-extends the image to `[3, 0]`, the write makes
      `[1, 0]`.
  Byte 1 of the image is now `0`: it was `6`, it lies below the original length `2`, and the correct torrent byte
  there is `2`. `FsWF`, `NoAlias` and `SegsInRange` hold; what fails is that entries with the same export image
  declare the same length.
-/
import TB.Lemmas.RunJ
namespace TB.RunJ.Cex
open TB

def ih : Bytes := [0xAB]
def nm : Bytes := [110]
def x : Bytes := [120]
def eDir : Path := [[101]]
def sDir : Path := [[115]]
def root : Path := eDir ++ [hex ih, sData]
def img : Path := root ++ [nm, x]

def tor : Torrent := ⟨⟨nm, none, some [⟨2, [x]⟩, ⟨1, [x]⟩], 1, [[1], [2], [3]]⟩, ih⟩

def fs0 : Fs :=
  { files := [(img, 0), (sDir ++ [[49]], 1), (sDir ++ [[50]], 2)],
    dirs := [eDir, sDir, eDir ++ [hex ih], root, root ++ [nm]],
    data := [(0, [5, 6]), (1, [3]), (2, [1, 9])],
    next := 3 }

def inp : RunIn :=
  { fs := fs0, torrents := [tor], scan := [⟨true, sDir⟩], exportDir := ⟨true, eDir⟩, resize := false,
    searchObs := [], order := [], faults := [] }

/-! the run -/

def e0 : TEntry := ⟨0, ih, 0, 2, img, [x], false, some [img, sDir ++ [[50]]]⟩
def e1 : TEntry := ⟨1, ih, 1, 1, img, [x], false, some [sDir ++ [[49]]]⟩
def w0 : Work := ⟨[⟨1, 0, e0⟩], [1]⟩
def w1 : Work := ⟨[⟨1, 1, e0⟩], [2]⟩
def w2 : Work := ⟨[⟨1, 0, e1⟩], [3]⟩

theorem run_table : (run id inp).table = [e0, e1] := by decide +kernel
theorem run_work : (run id inp).work = [w0, w1, w2] := by decide +kernel
theorem run_files : (run id inp).fs.files = fs0.files := by decide +kernel
theorem run_data : (run id inp).fs.data = [(0, [1, 0]), (1, [3]), (2, [1, 9])] := by decide +kernel
/-- the three mutations of the image: truncate to 1, (write), re-extend to 2, (write) -/
example : ((run id inp).ops.filter (fun o => o.kind.mutating)).map (·.kind)
    = [.mkdirs, .openc, .setlen 1, .write 0 [3], .mkdirs, .openc, .setlen 2, .write 0 [1]] := by decide +kernel
example : (run id inp).ops.all (·.ok) = true := by decide +kernel

/-! the hypotheses of the first formulation hold -/

theorem wf : FsWF inp.fs := by
  refine ⟨?_, ?_, ?_, ?_⟩
  · have : ∀ e ∈ fs0.files, e.2 < fs0.next := by decide +kernel
    exact fun p i h => this (p, i) h
  · show (fs0.files.map (·.1)).Nodup
    decide +kernel
  · have : ∀ e ∈ fs0.files, fs0.isDir e.1 = false := by decide +kernel
    exact fun p i h => this (p, i) h
  · have : ∀ e ∈ fs0.files, ∀ q ∈ Fs.properPrefixes e.1, fs0.isDir q = true := by decide +kernel
    exact fun p i h => this (p, i) h

theorem noAlias : NoAl inp.fs (run id inp).table := by
  rw [run_table]
  have key : ∀ e ∈ [e0, e1], ∀ f ∈ fs0.files, ∀ g ∈ fs0.files, f.1 = e.fullTarget → g.2 = f.2 → g.1 = e.fullTarget := by
    decide +kernel
  intro e he _ q i h1 h2
  exact key e he _ (RunF.inoOf_mem h1) _ (RunF.inoOf_mem h2) rfl rfl

theorem segsInRange : ∀ w ∈ (run id inp).work, SegsInRange w := by
  rw [run_work]
  have key : ∀ w ∈ [w0, w1, w2], ∀ s ∈ w.segs, s.off + s.len ≤ s.ent.fileLength := by decide +kernel
  exact key

/-! the conclusion fails, and so does `hsame` -/

theorem not_sameLen : ¬ SameLen (run id inp).table := by
  rw [run_table]
  intro h
  exact absurd (h e0 (by simp) e1 (by simp) rfl rfl rfl) (by decide)

theorem not_bytesOk : ¬ BOk id (run id inp).work inp.fs (run id inp).fs := by
  intro h
  have hino : (run id inp).fs.inoOf img = some 0 := by decide +kernel
  have hx : ((run id inp).fs.content 0)[1]? = some 0 := by decide +kernel
  have h0 : inp.fs.inoOf img = some 0 := by decide +kernel
  rcases h img 0 hino 1 0 hx with ⟨i0, h1, h2⟩ | ⟨_, h1⟩ | ⟨w, hw, j, seg, buf, hseg, _, _, hle, hlt, hH, hb⟩
  · rw [h0] at h1; cases h1
    exact absurd h2 (by decide +kernel)
  · exact absurd (h1 0 h0) (by decide +kernel)
  · rw [run_work] at hw
    have hbuf : buf = w.hash := hH
    subst hbuf
    simp only [List.mem_cons, List.not_mem_nil, or_false] at hw
    rcases hw with rfl | rfl | rfl
    · cases j with
      | zero => simp [w0] at hseg; subst hseg; simp at hlt
      | succ j => simp [w0] at hseg
    · cases j with
      | zero =>
        simp [w1] at hseg; subst hseg
        simp [w1, segStart] at hb
      | succ j => simp [w1] at hseg
    · cases j with
      | zero => simp [w2] at hseg; subst hseg; simp at hlt
      | succ j => simp [w2] at hseg

end TB.RunJ.Cex
