/-
  Helper lemmas (RunF).
-/
import TB.Spec.ExportSpec
namespace TB.RunF

end TB.RunF
