/-
  Helper lemmas (RunF): the file-system algebra behind C04a — names and inodes, `look`, the effect of
  `mkdirs` / `openCreate` / `setData` on a well-formed tree, and the local-change relation `Loc`.
-/
import TB.Spec.ExportSpec
import TB.Lemmas.RunB
import TB.Lemmas.RunDBase
namespace TB.RunF
open TB

/-! ### well-formed trees (same body as `TB.FsWF` in `TB.Props.C04a`) -/

def WF (fs : Fs) : Prop :=
  (∀ p i, (p, i) ∈ fs.files → i < fs.next) ∧
  (fs.files.map (·.1)).Nodup ∧
  (∀ p i, (p, i) ∈ fs.files → fs.isDir p = false) ∧
  (∀ p i, (p, i) ∈ fs.files → ∀ q ∈ Fs.properPrefixes p, fs.isDir q = true)

/-! ### names and inodes -/

theorem inoOf_mem {fs : Fs} {p : Path} {i : Nat} (h : fs.inoOf p = some i) : (p, i) ∈ fs.files := by
  unfold Fs.inoOf at h
  cases hf : fs.files.find? (fun e => e.1 == p) with
  | none => rw [hf] at h; cases h
  | some e =>
    rw [hf] at h
    have h1 := List.find?_some hf
    have h2 := List.mem_of_find?_eq_some hf
    obtain ⟨a, b⟩ := e
    simp at h1 h
    subst h1; subst h; exact h2

theorem inoOf_none {fs : Fs} {p : Path} (h : fs.inoOf p = none) : ∀ e ∈ fs.files, e.1 ≠ p := by
  unfold Fs.inoOf at h
  simp only [Option.map_eq_none_iff, List.find?_eq_none] at h
  intro e he hp
  exact h e he (by simp [hp])

theorem inoOf_lt {fs : Fs} (hwf : WF fs) {p : Path} {i : Nat} (h : fs.inoOf p = some i) : i < fs.next :=
  hwf.1 p i (inoOf_mem h)

theorem inoOf_notDir {fs : Fs} (hwf : WF fs) {p : Path} {i : Nat} (h : fs.inoOf p = some i) : fs.isDir p = false :=
  hwf.2.2.1 p i (inoOf_mem h)

/-! ### `look` -/

theorem look_file {fs : Fs} {p : Path} {i : Nat} (h : fs.look p = .file i) :
    (Fs.properPrefixes p).any (fun q => (fs.inoOf q).isSome) = false ∧ fs.isDir p = false ∧ fs.inoOf p = some i := by
  unfold Fs.look at h
  split at h
  · cases h
  · rename_i h1
    split at h
    · cases h
    · rename_i h2
      split at h
      · rename_i j hj
        cases h
        exact ⟨by simpa using h1, by simpa using h2, hj⟩
      · split at h <;> cases h

theorem look_file_of {fs : Fs} {p : Path} {i : Nat}
    (h1 : (Fs.properPrefixes p).any (fun q => (fs.inoOf q).isSome) = false) (h2 : fs.isDir p = false)
    (h3 : fs.inoOf p = some i) : fs.look p = .file i := by
  unfold Fs.look
  rw [if_neg (by rw [h1]; exact Bool.false_ne_true), if_neg (by rw [h2]; exact Bool.false_ne_true), h3]

theorem look_notFound {fs : Fs} {p : Path} (h : fs.look p = .notFound) :
    fs.isDir p = false ∧ fs.inoOf p = none := by
  unfold Fs.look at h
  split at h
  · cases h
  · split at h
    · cases h
    · rename_i h2
      split at h
      · cases h
      · rename_i hn
        exact ⟨by simpa using h2, hn⟩

theorem look_file_inoOf {fs : Fs} {p : Path} {i : Nat} (h : fs.look p = .file i) : fs.inoOf p = some i :=
  (look_file h).2.2

/-- `look` depends only on the names and the directories -/
theorem look_congr {fs fs' : Fs} (hf : fs'.files = fs.files) (hd : fs'.dirs = fs.dirs) (p : Path) :
    fs'.look p = fs.look p := by
  unfold Fs.look Fs.inoOf Fs.isDir
  rw [hf, hd]

/-! ### proper prefixes -/

theorem mem_properPrefixes {p q : Path} : q ∈ Fs.properPrefixes p ↔ ∃ n, 1 ≤ n ∧ n < p.length ∧ q = p.take n := by
  unfold Fs.properPrefixes
  simp only [List.mem_map, List.mem_drop_iff_getElem, List.getElem_range]
  constructor
  · rintro ⟨n, ⟨k, hk, rfl⟩, rfl⟩
    simp at hk
    exact ⟨1 + k, by omega, by omega, rfl⟩
  · rintro ⟨n, h1, h2, rfl⟩
    refine ⟨n, ⟨n - 1, by simp; omega, by omega⟩, rfl⟩

theorem properPrefix_ne {p q : Path} (h : q ∈ Fs.properPrefixes p) : q ≠ p := by
  obtain ⟨n, _, h2, rfl⟩ := mem_properPrefixes.1 h
  intro e
  have := congrArg List.length e
  simp at this
  omega

/-- the proper prefixes of `p` are among the directories `create_dir_all(parent(p))` makes -/
theorem properPrefixes_sub_dropLast {p q : Path} (h : q ∈ Fs.properPrefixes p) :
    q ∈ Fs.properPrefixes p.dropLast ++ [p.dropLast] := by
  obtain ⟨n, h1, h2, rfl⟩ := mem_properPrefixes.1 h
  rw [List.mem_append, List.mem_singleton]
  by_cases hn : n = p.length - 1
  · right
    rw [List.dropLast_eq_take, hn]
  · left
    refine mem_properPrefixes.2 ⟨n, h1, by simp; omega, ?_⟩
    rw [List.dropLast_eq_take, List.take_take, Nat.min_eq_left (by omega)]

/-! ### `create_dir_all` -/

theorem isDir_cons (fs : Fs) (q p : Path) :
    ({ fs with dirs := q :: fs.dirs } : Fs).isDir p = (fs.isDir p || p == q) := by
  unfold Fs.isDir
  simp only [List.contains_cons]
  cases p.isEmpty <;> cases (p == q) <;> cases fs.dirs.contains p <;> rfl

theorem mkdirsAux_spec (l : List Path) : ∀ (fs fs' : Fs), Fs.mkdirsAux fs l = some fs' →
    fs'.files = fs.files ∧ fs'.data = fs.data ∧ fs'.next = fs.next ∧
    (∀ q, fs.isDir q = true → fs'.isDir q = true) ∧
    (∀ q, fs'.isDir q = true → fs.isDir q = true ∨ fs.inoOf q = none) ∧
    (∀ q ∈ l, fs'.isDir q = true) := by
  induction l with
  | nil =>
    intro fs fs' h
    simp only [Fs.mkdirsAux, Option.some.injEq] at h
    subst h
    exact ⟨rfl, rfl, rfl, fun _ h => h, fun _ h => Or.inl h, fun _ h => by cases h⟩
  | cons q rest ih =>
    intro fs fs' h
    simp only [Fs.mkdirsAux] at h
    split at h
    · rename_i hq
      obtain ⟨h1, h2, h3, h4, h5, h6⟩ := ih _ _ h
      refine ⟨h1, h2, h3, h4, h5, ?_⟩
      intro x hx
      rcases List.mem_cons.1 hx with rfl | hx
      · exact h4 _ hq
      · exact h6 x hx
    · rename_i hq
      split at h
      · cases h
      · rename_i hino
        have hino : fs.inoOf q = none := by
          cases hh : fs.inoOf q with
          | none => rfl
          | some _ => rw [hh] at hino; simp at hino
        obtain ⟨h1, h2, h3, h4, h5, h6⟩ := ih _ _ h
        refine ⟨h1, h2, h3, ?_, ?_, ?_⟩
        · intro x hx
          apply h4
          rw [isDir_cons, hx]; rfl
        · intro x hx
          rcases h5 x hx with h | h
          · rw [isDir_cons, Bool.or_eq_true] at h
            rcases h with h | h
            · exact Or.inl h
            · right
              have : x = q := by simpa using h
              rw [this]; exact hino
          · exact Or.inr h
        · intro x hx
          rcases List.mem_cons.1 hx with rfl | hx
          · apply h4
            rw [isDir_cons]; simp
          · exact h6 x hx

theorem mkdirs_spec (fs : Fs) (d : Path) :
    (fs.mkdirs d).1.files = fs.files ∧ (fs.mkdirs d).1.data = fs.data ∧ (fs.mkdirs d).1.next = fs.next ∧
    (∀ q, fs.isDir q = true → (fs.mkdirs d).1.isDir q = true) ∧
    (∀ q, (fs.mkdirs d).1.isDir q = true → fs.isDir q = true ∨ fs.inoOf q = none) ∧
    ((fs.mkdirs d).2 = true → ∀ q ∈ Fs.properPrefixes d ++ [d], (fs.mkdirs d).1.isDir q = true) := by
  unfold Fs.mkdirs
  split
  · rename_i fs' h
    obtain ⟨h1, h2, h3, h4, h5, h6⟩ := mkdirsAux_spec _ _ _ h
    exact ⟨h1, h2, h3, h4, h5, fun _ => h6⟩
  · exact ⟨rfl, rfl, rfl, fun _ h => h, fun _ h => Or.inl h, fun h => by cases h⟩

theorem inoOf_congr {fs fs' : Fs} (hf : fs'.files = fs.files) (p : Path) : fs'.inoOf p = fs.inoOf p := by
  unfold Fs.inoOf; rw [hf]

theorem content_congr {fs fs' : Fs} (hf : fs'.data = fs.data) (i : Nat) : fs'.content i = fs.content i := by
  unfold Fs.content; rw [hf]

/-! ### creating a file -/

/-- what `openCreate` does when the name is free and the parent is a directory -/
def addFile (fs : Fs) (t : Path) : Fs :=
  { fs with files := (t, fs.next) :: fs.files, data := (fs.next, []) :: fs.data, next := fs.next + 1 }

theorem openCreate_cases (fs : Fs) (t : Path) :
    (fs.openCreate t).1 = fs ∨ (fs.look t = .notFound ∧ (fs.openCreate t).1 = addFile fs t) := by
  unfold Fs.openCreate
  split
  · left; rfl
  · split
    · right; exact ⟨by assumption, rfl⟩
    · left; rfl
  · left; rfl

theorem inoOf_addFile (fs : Fs) (t p : Path) :
    (addFile fs t).inoOf p = if t = p then some fs.next else fs.inoOf p := by
  unfold addFile Fs.inoOf
  simp only [List.find?_cons]
  by_cases h : t = p
  · simp [h]
  · have : (t == p) = false := by simpa using h
    simp [this, h]

theorem isDir_addFile (fs : Fs) (t p : Path) : (addFile fs t).isDir p = fs.isDir p := rfl

theorem content_addFile (fs : Fs) (t : Path) (i : Nat) (h : i ≠ fs.next) :
    (addFile fs t).content i = fs.content i := by
  unfold addFile Fs.content
  have : (fs.next == i) = false := by simpa using fun e => h e.symm
  simp only [List.find?_cons, this]

/-! ### local changes -/

/-- `fs'` arises from the well-formed tree `fs` by creating directories, creating files named in `T`, and
    rewriting the content of files named in `T` -/
structure Loc (T : Path → Prop) (fs fs' : Fs) : Prop where
  next_le : fs.next ≤ fs'.next
  ino_pres : ∀ p i, fs.inoOf p = some i → fs'.inoOf p = some i
  ino_new : ∀ p i, fs'.inoOf p = some i → fs.inoOf p = some i ∨ (T p ∧ fs.next ≤ i)
  wf : WF fs → WF fs'
  look_pres : WF fs → ∀ p i, fs.look p = .file i → fs'.look p = .file i
  content : ∀ i, i < fs.next → (∀ t, T t → fs.inoOf t ≠ some i) → fs'.content i = fs.content i

theorem Loc.refl (T : Path → Prop) (fs : Fs) : Loc T fs fs :=
  ⟨Nat.le_refl _, fun _ _ h => h, fun _ _ h => Or.inl h, fun h => h, fun _ _ _ h => h, fun _ _ _ => rfl⟩

theorem Loc.trans {T : Path → Prop} {a b c : Fs} (h1 : Loc T a b) (h2 : Loc T b c) : Loc T a c := by
  refine ⟨Nat.le_trans h1.next_le h2.next_le, fun p i h => h2.ino_pres p i (h1.ino_pres p i h), ?_,
    fun h => h2.wf (h1.wf h), fun hwf p i h => h2.look_pres (h1.wf hwf) p i (h1.look_pres hwf p i h), ?_⟩
  · intro p i h
    rcases h2.ino_new p i h with h | ⟨ht, hle⟩
    · exact h1.ino_new p i h
    · exact Or.inr ⟨ht, Nat.le_trans h1.next_le hle⟩
  · intro i hi hT
    rw [h2.content i (Nat.lt_of_lt_of_le hi h1.next_le) ?_, h1.content i hi hT]
    intro t ht h
    rcases h1.ino_new t i h with h | ⟨_, hle⟩
    · exact hT t ht h
    · omega

theorem Loc.mono {T T' : Path → Prop} {a b : Fs} (h : Loc T a b) (hTT : ∀ p, T p → T' p) : Loc T' a b := by
  refine ⟨h.next_le, h.ino_pres, ?_, h.wf, h.look_pres, ?_⟩
  · intro p i hp
    rcases h.ino_new p i hp with h | ⟨ht, hle⟩
    · exact Or.inl h
    · exact Or.inr ⟨hTT p ht, hle⟩
  · intro i hi hT
    exact h.content i hi (fun t ht => hT t (hTT t ht))

theorem Loc.of_eq {T : Path → Prop} {a b : Fs} (h : b = a) : Loc T a b := by
  subst h; exact Loc.refl T _

theorem loc_mkdirs (T : Path → Prop) (fs : Fs) (d : Path) : Loc T fs (fs.mkdirs d).1 := by
  obtain ⟨h1, h2, h3, h4, h5, _⟩ := mkdirs_spec fs d
  have hino : ∀ p, (fs.mkdirs d).1.inoOf p = fs.inoOf p := inoOf_congr h1
  refine ⟨by rw [h3]; exact Nat.le_refl _, fun p i h => by rw [hino]; exact h,
    fun p i h => Or.inl (by rw [← hino]; exact h), ?_, ?_, fun i _ _ => content_congr h2 i⟩
  · intro ⟨w1, w2, w3, w4⟩
    refine ⟨by rw [h1, h3]; exact w1, by rw [h1]; exact w2, ?_, ?_⟩
    · intro p i hp
      rw [h1] at hp
      cases hd : (fs.mkdirs d).1.isDir p with
      | false => rfl
      | true =>
        rcases h5 p hd with h | h
        · rw [w3 p i hp] at h; cases h
        · exact absurd rfl (inoOf_none h _ hp)
    · intro p i hp q hq
      rw [h1] at hp
      exact h4 q (w4 p i hp q hq)
  · intro hwf p i hl
    obtain ⟨l1, l2, l3⟩ := look_file hl
    apply look_file_of
    · simp only [hino]; exact l1
    · cases hd : (fs.mkdirs d).1.isDir p with
      | false => rfl
      | true =>
        rcases h5 p hd with h | h
        · rw [l2] at h; cases h
        · rw [l3] at h; cases h
    · rw [hino]; exact l3

theorem loc_addFile {T : Path → Prop} {fs : Fs} {t : Path} (hT : T t) (hl : fs.look t = .notFound)
    (hpre : ∀ q ∈ Fs.properPrefixes t, fs.isDir q = true) : Loc T fs (addFile fs t) := by
  obtain ⟨hnd, hnone⟩ := look_notFound hl
  refine ⟨Nat.le_succ _, ?_, ?_, ?_, ?_, ?_⟩
  · intro p i h
    rw [inoOf_addFile]
    split
    · rename_i e; subst e; rw [hnone] at h; cases h
    · exact h
  · intro p i h
    rw [inoOf_addFile] at h
    split at h
    · rename_i e; subst e
      cases h
      exact Or.inr ⟨hT, Nat.le_refl _⟩
    · exact Or.inl h
  · intro ⟨w1, w2, w3, w4⟩
    refine ⟨?_, ?_, ?_, ?_⟩
    · intro p i hp
      show i < fs.next + 1
      rcases List.mem_cons.1 hp with h | h
      · cases h; exact Nat.lt_succ_self _
      · exact Nat.lt_succ_of_lt (w1 p i h)
    · show ((t, fs.next) :: fs.files |>.map (·.1)).Nodup
      rw [List.map_cons, List.nodup_cons]
      refine ⟨?_, w2⟩
      intro hmem
      obtain ⟨e, he, het⟩ := List.mem_map.1 hmem
      exact inoOf_none hnone e he het
    · intro p i hp
      rw [isDir_addFile]
      rcases List.mem_cons.1 hp with h | h
      · cases h; exact hnd
      · exact w3 p i h
    · intro p i hp q hq
      rw [isDir_addFile]
      rcases List.mem_cons.1 hp with h | h
      · cases h; exact hpre q hq
      · exact w4 p i h q hq
  · intro hwf p i hlp
    obtain ⟨l1, l2, l3⟩ := look_file hlp
    have hne : t ≠ p := by
      intro e; subst e; rw [hnone] at l3; cases l3
    apply look_file_of
    · rw [List.any_eq_false] at l1 ⊢
      intro q hq
      rw [inoOf_addFile]
      split
      · rename_i e; subst e
        -- the new file would be a proper prefix of an existing file: but then it is a directory
        have := hwf.2.2.2 p i (inoOf_mem l3) t hq
        rw [hnd] at this; cases this
      · exact l1 q hq
    · rw [isDir_addFile]; exact l2
    · rw [inoOf_addFile, if_neg hne]; exact l3
  · intro i hi _
    exact content_addFile fs t i (Nat.ne_of_lt hi)

theorem loc_openCreate {T : Path → Prop} {fs : Fs} {t : Path} (hT : T t)
    (hpre : ∀ q ∈ Fs.properPrefixes t, fs.isDir q = true) : Loc T fs (fs.openCreate t).1 := by
  rcases openCreate_cases fs t with h | ⟨hl, h⟩
  · exact Loc.of_eq h
  · rw [h]; exact loc_addFile hT hl hpre

theorem loc_setData {T : Path → Prop} {fs : Fs} {t : Path} {i : Nat} (hT : T t) (hi : fs.inoOf t = some i)
    (bs : Bytes) : Loc T fs (fs.setData i bs) := by
  refine ⟨Nat.le_refl _, fun _ _ h => h, fun _ _ h => Or.inl h, fun h => h, fun _ _ _ h => h, ?_⟩
  intro j _ hj
  apply RB.Fs.content_setData_other
  intro e; subst e
  exact hj t hT hi

theorem loc_setLen {T : Path → Prop} {fs : Fs} {t : Path} {i : Nat} (hT : T t) (hi : fs.inoOf t = some i)
    (n : Nat) : Loc T fs (fs.setLen i n) := loc_setData hT hi _

theorem loc_writeAt {T : Path → Prop} {fs : Fs} {t : Path} {i : Nat} (hT : T t) (hi : fs.inoOf t = some i)
    (off : Nat) (d : Bytes) : Loc T fs (fs.writeAt i off d) := loc_setData hT hi _

/-- lifting to one logged operation (which may also fail at a fault point and leave the tree alone) -/
theorem loc_op {T : Path → Prop} {st st1 : St} {ok : Bool} {k : OpKind} {p : Path} {n : Fs → Fs × Bool}
    (h : st.op k p n = (st1, ok)) (hn : Loc T st.fs (n st.fs).1) : Loc T st.fs st1.fs := by
  rcases RD.St.op_fs h with ⟨e, _⟩ | ⟨e, _⟩
  · exact Loc.of_eq e
  · rw [e]; exact hn

/-- a successful operation was not a fault: its natural effect happened and said yes -/
theorem op_ok {st st1 : St} {k : OpKind} {p : Path} {n : Fs → Fs × Bool}
    (h : st.op k p n = (st1, true)) : st1.fs = (n st.fs).1 ∧ (n st.fs).2 = true := by
  rcases RD.St.op_fs h with ⟨_, e⟩ | ⟨e1, e2⟩
  · cases e
  · exact ⟨e1, e2.symm⟩

end TB.RunF
