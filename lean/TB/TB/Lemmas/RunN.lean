/-
  Helper lemmas (RunN): the resize pre-flight without faults, as a function on trees.
-/
import TB.Spec.ExportSpec
import TB.Lemmas.RunB
namespace TB.RunN
open TB.RB

/-! ### names and inodes -/

theorem look_inoOf {fs : Fs} {p : Path} {i : Nat} (h : fs.look p = .file i) : fs.inoOf p = some i := by
  unfold Fs.look at h
  split at h
  · cases h
  · split at h
    · cases h
    · split at h
      · rename_i j hj
        cases h
        exact hj
      · split at h <;> cases h

theorem look_congr {fs fs0 : Fs} (h1 : fs.files = fs0.files) (h2 : fs.dirs = fs0.dirs) (p : Path) :
    fs.look p = fs0.look p := by
  simp only [Fs.look, Fs.inoOf, Fs.isDir, h1, h2, ite_self]

theorem inoOf_congr {fs fs0 : Fs} (h1 : fs.files = fs0.files) (p : Path) :
    fs.inoOf p = fs0.inoOf p := by
  simp only [Fs.inoOf, h1]

/-! ### the first pass -/

theorem openr_val (st : St) (hf : st.faults = []) (p : Path) :
    (st.openr p).2 = (match st.fs.look p with | .file _ => true | .dir => true | _ => false) := by
  unfold St.openr
  rw [St.op_nofault _ _ _ _ (by rw [hf]; rfl)]
  rfl

theorem openrw_val (st : St) (hf : st.faults = []) (p : Path) :
    (st.op .openrw p (natOpenrw p)).2 = (match st.fs.look p with | .file _ => true | _ => false) := by
  rw [St.op_nofault _ _ _ _ (by rw [hf]; rfl)]
  rfl

theorem openrw_fs (st : St) (p : Path) : (st.op .openrw p (natOpenrw p)).1.fs = st.fs :=
  St.op_fs_ro _ _ _ _ (fun _ => rfl)

/-- no fault, no over-long image, no directory or file-below-file: the first pass goes through -/
theorem pass1_ok (es : List TEntry) :
    ∀ st : St, st.faults = [] →
      (∀ e ∈ es, e.isPad = false →
        (∀ i, st.fs.look e.fullTarget = .file i → (st.fs.content i).length ≤ e.fileLength) ∧
        st.fs.look e.fullTarget ≠ .notDir ∧ st.fs.look e.fullTarget ≠ .dir) →
      (resizePass1 st es).2 = .continue ∧ (resizePass1 st es).1.fs = st.fs ∧
        (resizePass1 st es).1.faults = [] := by
  induction es with
  | nil => intro st hfa _; exact ⟨rfl, rfl, hfa⟩
  | cons e es ih =>
    intro st hfa h
    have hfs1 := St.openr_fs st e.fullTarget
    have hfa1 := (St.openr_faults st e.fullTarget).trans hfa
    have tl := ih (st.openr e.fullTarget).1 hfa1
      (fun x hx hp => by rw [hfs1]; exact h x (List.mem_cons_of_mem _ hx) hp)
    have tl' : (resizePass1 (st.openr e.fullTarget).1 es).2 = .continue ∧
        (resizePass1 (st.openr e.fullTarget).1 es).1.fs = st.fs ∧
        (resizePass1 (st.openr e.fullTarget).1 es).1.faults = [] := ⟨tl.1, tl.2.1.trans hfs1, tl.2.2⟩
    rw [resizePass1_cons]
    cases hp : e.isPad
    · obtain ⟨hl, hnd, hd⟩ := h e List.mem_cons_self hp
      have hv := openr_val st hfa e.fullTarget
      simp only [Bool.false_eq_true, if_false]
      cases hlook : st.fs.look e.fullTarget with
      | notDir => exact absurd hlook hnd
      | dir => exact absurd hlook hd
      | notFound =>
        rw [hlook] at hv
        simp only at hv
        rw [hv, hfa]
        simpa using tl'
      | file i =>
        rw [hlook] at hv
        simp only at hv
        have := hl i hlook
        rw [← hfs1] at this
        rw [hv]
        simp only [Bool.not_true, Bool.false_eq_true, if_false]
        rw [if_neg (by omega)]
        exact tl'
    · simp only [if_true]
      exact ih st hfa (fun x hx hp => h x (List.mem_cons_of_mem _ hx) hp)

/-! ### the second pass, one entry -/

/-- the tree after the second pass has processed one entry (no fault) -/
def step (fs : Fs) (e : TEntry) : Fs :=
  if e.isPad then fs else
  match fs.look e.fullTarget with
  | .file i => if (fs.content i).length < e.fileLength then fs.setLen i e.fileLength else fs
  | _ => fs

theorem pass2_step (st : St) (e : TEntry) (es : List TEntry) (hfa : st.faults = [])
    (hl : e.isPad = false → st.fs.look e.fullTarget ≠ .notDir ∧ st.fs.look e.fullTarget ≠ .dir) :
    ∃ st', resizePass2 st (e :: es) = resizePass2 st' es ∧ st'.fs = step st.fs e ∧ st'.faults = [] := by
  rw [resizePass2_cons]
  cases hp : e.isPad
  · obtain ⟨hnd, hd⟩ := hl hp
    have hv := openrw_val st hfa e.fullTarget
    have hfs1 := openrw_fs st e.fullTarget
    have hfa1 := (St.op_faults st .openrw e.fullTarget (natOpenrw e.fullTarget)).trans hfa
    simp only [Bool.false_eq_true, if_false]
    cases hlook : st.fs.look e.fullTarget with
    | notDir => exact absurd hlook hnd
    | dir => exact absurd hlook hd
    | notFound =>
      rw [hlook] at hv
      simp only at hv
      rw [hv, hfa]
      refine ⟨(st.op .openrw e.fullTarget (natOpenrw e.fullTarget)).1, by simp, ?_, hfa1⟩
      rw [hfs1]
      simp [step, hp, hlook]
    | file i =>
      rw [hlook] at hv
      simp only at hv
      rw [hv]
      simp only [Bool.not_true, Bool.false_eq_true, if_false]
      by_cases hlt : ((st.op .openrw e.fullTarget (natOpenrw e.fullTarget)).1.fs.content i).length < e.fileLength
      · rw [if_pos hlt]
        have h2 := St.op_nofault (st.op .openrw e.fullTarget (natOpenrw e.fullTarget)).1 (.setlen e.fileLength)
          e.fullTarget (fun fs => (fs.setLen i e.fileLength, true)) (by rw [hfa1]; rfl)
        rw [h2]
        simp only [if_true]
        refine ⟨_, rfl, ?_, hfa1⟩
        rw [hfs1] at hlt ⊢
        simp [step, hp, hlook, hlt]
      · rw [if_neg hlt]
        refine ⟨_, rfl, ?_, hfa1⟩
        rw [hfs1] at hlt ⊢
        simp [step, hp, hlook, hlt]
  · exact ⟨st, by simp, by simp [step, hp], hfa⟩

/-! ### the invariant of the second pass -/

/-- `fs` is `fs0` with some images of the table zero-extended to their declared length -/
def Inv (fs0 : Fs) (table : List TEntry) (fs : Fs) : Prop :=
  fs.files = fs0.files ∧ fs.dirs = fs0.dirs ∧
  ∀ i, fs.content i = fs0.content i ∨
    ∃ e ∈ table, e.isPad = false ∧ fs0.look e.fullTarget = .file i ∧ (fs0.content i).length < e.fileLength ∧
      fs.content i = fs0.content i ++ List.replicate (e.fileLength - (fs0.content i).length) 0

theorem Inv.refl (fs0 : Fs) (table : List TEntry) : Inv fs0 table fs0 :=
  ⟨rfl, rfl, fun _ => Or.inl rfl⟩

theorem setLen_content_same (fs : Fs) (i n : Nat) (h : (fs.content i).length ≤ n) :
    (fs.setLen i n).content i = fs.content i ++ List.replicate (n - (fs.content i).length) 0 := by
  unfold Fs.setLen
  rw [Fs.content_setData_same]
  split
  · have : n = (fs.content i).length := by omega
    rw [this]; simp
  · rfl

theorem setLen_content_other (fs : Fs) (i j n : Nat) (h : j ≠ i) :
    (fs.setLen i n).content j = fs.content j :=
  Fs.content_setData_other _ _ _ _ h

theorem step_inv (fs0 : Fs) (table : List TEntry)
    (hs1 : ∀ e ∈ table, ∀ f ∈ table, e.isPad = false → f.isPad = false → e.fullTarget = f.fullTarget →
      e.fileLength = f.fileLength)
    (hs2 : ∀ e ∈ table, ∀ f ∈ table, e.isPad = false → f.isPad = false → e.fullTarget ≠ f.fullTarget →
      ∀ i j, fs0.inoOf e.fullTarget = some i → fs0.inoOf f.fullTarget = some j → i ≠ j)
    (fs : Fs) (e : TEntry) (he : e ∈ table) (hinv : Inv fs0 table fs) :
    Inv fs0 table (step fs e) ∧
    (∀ j, (fs.content j).length ≤ ((step fs e).content j).length) ∧
    (e.isPad = false → ∀ i, fs0.look e.fullTarget = .file i → e.fileLength ≤ ((step fs e).content i).length) := by
  obtain ⟨hf, hd, hc⟩ := hinv
  have hlk := look_congr hf hd e.fullTarget
  unfold step
  cases hp : e.isPad
  · simp only [Bool.false_eq_true, if_false]
    rw [hlk]
    cases hlook : fs0.look e.fullTarget with
    | notDir => exact ⟨⟨hf, hd, hc⟩, fun _ => Nat.le_refl _, fun _ i h => by cases h⟩
    | dir => exact ⟨⟨hf, hd, hc⟩, fun _ => Nat.le_refl _, fun _ i h => by cases h⟩
    | notFound => exact ⟨⟨hf, hd, hc⟩, fun _ => Nat.le_refl _, fun _ i h => by cases h⟩
    | file i =>
      simp only
      by_cases hlt : (fs.content i).length < e.fileLength
      · rw [if_pos hlt]
        have hsame := setLen_content_same fs i e.fileLength (Nat.le_of_lt hlt)
        -- the image has not been extended yet
        have hinit : fs.content i = fs0.content i := by
          rcases hc i with h | ⟨e', he', hp', hl', hlt', hc'⟩
          · exact h
          · exfalso
            have hlen : (fs.content i).length = e'.fileLength := by
              rw [hc']; simp; omega
            by_cases hne : e'.fullTarget = e.fullTarget
            · have := hs1 e' he' e he hp' hp hne
              omega
            · exact hs2 e' he' e he hp' hp hne i i (look_inoOf hl') (look_inoOf hlook) rfl
        refine ⟨⟨hf, hd, fun j => ?_⟩, fun j => ?_, fun _ j hj => ?_⟩
        · by_cases hji : j = i
          · subst hji
            right
            refine ⟨e, he, hp, hlook, by rw [← hinit]; exact hlt, ?_⟩
            rw [hsame, hinit]
          · rw [setLen_content_other _ _ _ _ hji]
            exact hc j
        · by_cases hji : j = i
          · subst hji
            rw [hsame]; simp
          · rw [setLen_content_other _ _ _ _ hji]
            exact Nat.le_refl _
        · cases hj
          rw [hsame]; simp; omega
      · rw [if_neg hlt]
        exact ⟨⟨hf, hd, hc⟩, fun _ => Nat.le_refl _, fun _ j hj => by cases hj; omega⟩
  · simp only [if_true]
    exact ⟨⟨hf, hd, hc⟩, fun _ => Nat.le_refl _, fun h => by cases h⟩

/-- the second pass without faults: it goes through, keeps the invariant, never shrinks a file, and every
    existing image of an entry it has seen is at least as long as declared -/
theorem pass2_all (fs0 : Fs) (table : List TEntry)
    (hs1 : ∀ e ∈ table, ∀ f ∈ table, e.isPad = false → f.isPad = false → e.fullTarget = f.fullTarget →
      e.fileLength = f.fileLength)
    (hs2 : ∀ e ∈ table, ∀ f ∈ table, e.isPad = false → f.isPad = false → e.fullTarget ≠ f.fullTarget →
      ∀ i j, fs0.inoOf e.fullTarget = some i → fs0.inoOf f.fullTarget = some j → i ≠ j)
    (hlook : ∀ e ∈ table, e.isPad = false → fs0.look e.fullTarget ≠ .notDir ∧ fs0.look e.fullTarget ≠ .dir)
    (es : List TEntry) :
    ∀ st : St, st.faults = [] → Inv fs0 table st.fs → (∀ e ∈ es, e ∈ table) →
      (resizePass2 st es).2 = .continue ∧ Inv fs0 table (resizePass2 st es).1.fs ∧
      (∀ j, (st.fs.content j).length ≤ ((resizePass2 st es).1.fs.content j).length) ∧
      (∀ e ∈ es, e.isPad = false → ∀ i, fs0.look e.fullTarget = .file i →
        e.fileLength ≤ ((resizePass2 st es).1.fs.content i).length) := by
  induction es with
  | nil => intro st _ hinv _; exact ⟨rfl, hinv, fun _ => Nat.le_refl _, fun e he => by cases he⟩
  | cons e es ih =>
    intro st hfa hinv hsub
    have he := hsub e List.mem_cons_self
    obtain ⟨st', hst, hfs', hfa'⟩ := pass2_step st e es hfa (fun hp => by
      rw [look_congr hinv.1 hinv.2.1]; exact hlook e he hp)
    obtain ⟨s1, s2, s3⟩ := step_inv fs0 table hs1 hs2 st.fs e he hinv
    rw [← hfs'] at s1 s2 s3
    obtain ⟨i1, i2, i3, i4⟩ := ih st' hfa' s1 (fun x hx => hsub x (List.mem_cons_of_mem _ hx))
    rw [hst]
    refine ⟨i1, i2, fun j => Nat.le_trans (s2 j) (i3 j), fun x hx hp i hi => ?_⟩
    rcases List.mem_cons.1 hx with rfl | hx
    · exact Nat.le_trans (s3 hp i hi) (i3 i)
    · exact i4 x hx hp i hi

end TB.RunN
