/-
  Helper lemmas (RunN).
-/
import TB.Spec.ExportSpec
namespace TB.RunN

end TB.RunN
