/-
  RunKCex: the world that refutes `C04_run_preserved` (TB.Props.C04h) without the hypothesis `hsame`, kept as a
  checked example. `H` is the identity.

  One multi-file torrent lists the path `x` twice (finding D6): file 0 = `x` with length 2, file 1 = `x` with
  length 0, file 2 = `y` with length 1; piece length 2, piece hashes `[1, 2]` and `[3]`. The layout gives piece 0
  the range [0,2) of file 0 and piece 1 a zero-length segment of file 1 followed by the range [0,1) of file 2. The
  image of `x` exists with content `[1, 2]`, so piece 0 verifies in the initial tree. The scan directory holds the
  empty file `s/0` (candidate for file 1) and `s/1 = [3]` (candidate for file 2). No faults, no resize pass, default
  order (last piece first):
    * piece 1 is found; its zero-length segment is written to the image of `x`: `set_len 0` empties the image;
    * piece 0 is then looked for in its own image, which is empty: not found.
  After the run (and at every interruption point after that `set_len`) piece 0 no longer verifies. `FsWF`, `NoAlias`,
  `SegsInRange`, `RangesDisjoint` (a zero-length range overlaps nothing) and `HInjOn` all hold; what fails is that
  entries with the same export image declare the same length.
-/
import TB.Lemmas.RunK
namespace TB.RunK.Cex
open TB

def ih : Bytes := [0xAB]
def nm : Bytes := [110]
def x : Bytes := [120]
def y : Bytes := [121]
def eDir : Path := [[101]]
def sDir : Path := [[115]]
def root : Path := eDir ++ [hex ih, sData]
def imgx : Path := root ++ [nm, x]
def imgy : Path := root ++ [nm, y]

def tor : Torrent := ⟨⟨nm, none, some [⟨2, [x]⟩, ⟨0, [x]⟩, ⟨1, [y]⟩], 2, [[1, 2], [3]]⟩, ih⟩

def fs0 : Fs :=
  { files := [(imgx, 0), (sDir ++ [[49]], 1), (sDir ++ [[48]], 2)],
    dirs := [eDir, sDir, eDir ++ [hex ih], root, root ++ [nm]],
    data := [(0, [1, 2]), (1, [3]), (2, [])],
    next := 3 }

def inp : RunIn :=
  { fs := fs0, torrents := [tor], scan := [⟨true, sDir⟩], exportDir := ⟨true, eDir⟩, resize := false,
    searchObs := [], order := [], faults := [] }

/-! the run -/

def e0 : TEntry := ⟨0, ih, 0, 2, imgx, [x], false, some [imgx]⟩
def e1 : TEntry := ⟨1, ih, 1, 0, imgx, [x], false, some [sDir ++ [[48]]]⟩
def e2 : TEntry := ⟨2, ih, 2, 1, imgy, [y], false, some [sDir ++ [[49]]]⟩
def w0 : Work := ⟨[⟨2, 0, e0⟩], [1, 2]⟩
def w1 : Work := ⟨[⟨0, 0, e1⟩, ⟨1, 0, e2⟩], [3]⟩

theorem run_table : (run id inp).table = [e0, e1, e2] := by decide +kernel
theorem run_work : (run id inp).work = [w0, w1] := by decide +kernel
theorem run_data : (run id inp).fs.data = [(3, [3]), (0, []), (1, [3]), (2, [])] := by decide +kernel
/-- the mutations: the image of `x` is emptied by the zero-length segment of piece 1 -/
example : ((run id inp).ops.filter (fun o => o.kind.mutating)).map (fun o => (o.kind, o.path))
    = [(.mkdirs, root ++ [nm]), (.openc, imgx), (.setlen 0, imgx), (.write 0 [], imgx),
       (.mkdirs, root ++ [nm]), (.openc, imgy), (.setlen 1, imgy), (.write 0 [3], imgy)] := by decide +kernel
example : inp.faults = [] := rfl
example : (run id inp).result = .ok () ∧ (run id inp).resolutionOk = true := by decide +kernel

/-! the other hypotheses of `C04_run_preserved` hold -/

theorem wf : FsWF inp.fs := by
  refine ⟨?_, ?_, ?_, ?_⟩
  · have : ∀ e ∈ fs0.files, e.2 < fs0.next := by decide +kernel
    exact fun p i h => this (p, i) h
  · show (fs0.files.map (·.1)).Nodup
    decide +kernel
  · have : ∀ e ∈ fs0.files, fs0.isDir e.1 = false := by decide +kernel
    exact fun p i h => this (p, i) h
  · have : ∀ e ∈ fs0.files, ∀ q ∈ Fs.properPrefixes e.1, fs0.isDir q = true := by decide +kernel
    exact fun p i h => this (p, i) h

theorem noAlias : RunJ.NoAl inp.fs (run id inp).table := by
  rw [run_table]
  have key : ∀ e ∈ [e0, e1, e2], ∀ f ∈ fs0.files, ∀ g ∈ fs0.files, f.1 = e.fullTarget → g.2 = f.2 → g.1 = e.fullTarget := by
    decide +kernel
  intro e he _ q i h1 h2
  exact key e he _ (RunF.inoOf_mem h1) _ (RunF.inoOf_mem h2) rfl rfl

theorem segsInRange : ∀ w ∈ (run id inp).work, SegsInRange w := by
  rw [run_work]
  have key : ∀ w ∈ [w0, w1], ∀ s ∈ w.segs, s.off + s.len ≤ s.ent.fileLength := by decide +kernel
  exact key

theorem disj : Disj (run id inp).work := by
  rw [run_work]
  constructor
  · have key : ∀ a ∈ List.range 2, ∀ b ∈ List.range 2, a ≠ b →
        ∀ s ∈ ([w0, w1][a]?.getD default).segs, ∀ t ∈ ([w0, w1][b]?.getD default).segs,
        s.ent.fullTarget = t.ent.fullTarget → s.off + s.len ≤ t.off ∨ t.off + t.len ≤ s.off := by decide +kernel
    intro a b w v ha hb hab s hs t ht _ _ heq
    obtain ⟨la, _⟩ := List.getElem?_eq_some_iff.1 ha
    obtain ⟨lb, _⟩ := List.getElem?_eq_some_iff.1 hb
    have := key a (List.mem_range.2 la) b (List.mem_range.2 lb) hab
    rw [ha, hb] at this
    exact this s hs t ht heq
  · have key : ∀ w ∈ [w0, w1], ∀ a ∈ List.range w.segs.length, ∀ b ∈ List.range w.segs.length, a ≠ b →
        (w.segs[a]?.getD default).ent.fullTarget ≠ (w.segs[b]?.getD default).ent.fullTarget := by decide +kernel
    intro w hw a b s t ha hb hab _ _
    obtain ⟨la, _⟩ := List.getElem?_eq_some_iff.1 ha
    obtain ⟨lb, _⟩ := List.getElem?_eq_some_iff.1 hb
    have := key w hw a (List.mem_range.2 la) b (List.mem_range.2 lb) hab
    rw [ha, hb] at this
    exact this

theorem hinj : HInj id (run id inp).work := by
  intro w _ b b' h1 h2
  exact (show b = w.hash from h1).trans (show b' = w.hash from h2).symm

theorem w0_mem : w0 ∈ (run id inp).work := by rw [run_work]; exact List.mem_cons_self

theorem w0_ver : VerE id inp.fs w0 := ⟨[[1, 2]], by decide +kernel, by decide +kernel⟩

/-! the conclusion fails, and so does `hsame` -/

theorem not_sameLen : ¬ RunJ.SameLen (run id inp).table := by
  rw [run_table]
  intro h
  exact absurd (h e0 (by simp) e1 (by simp) rfl rfl rfl) (by decide)

theorem w0_not_ver : ¬ VerE id (run id inp).fs w0 := by
  rintro ⟨ps, h1, _⟩
  have : w0.segs.mapM (segBytesIn (run id inp).fs) = none := by decide +kernel
  rw [this] at h1
  cases h1

end TB.RunK.Cex
