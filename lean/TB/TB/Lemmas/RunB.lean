/-
  Helper lemmas about TB.Model.Run (RunB).
-/
import TB.Spec.ExportSpec
namespace TB.RB
/-! ### `St.op` -/

theorem St.op_fault (st : St) (kind : OpKind) (path : Path) (natural : Fs → Fs × Bool)
    (h : st.faults.contains st.ops.length = true) :
    st.op kind path natural = ({ st with ops := st.ops ++ [⟨kind, path, false⟩] }, false) := by
  unfold St.op; rw [if_pos h]

theorem St.op_nofault (st : St) (kind : OpKind) (path : Path) (natural : Fs → Fs × Bool)
    (h : st.faults.contains st.ops.length = false) :
    st.op kind path natural =
      ({ st with fs := (natural st.fs).1, ops := st.ops ++ [⟨kind, path, (natural st.fs).2⟩] }, (natural st.fs).2) := by
  unfold St.op; rw [if_neg (by rw [h]; exact Bool.false_ne_true)]

theorem St.op_ops (st : St) (kind : OpKind) (path : Path) (natural : Fs → Fs × Bool) :
    (st.op kind path natural).1.ops = st.ops ++ [⟨kind, path, (st.op kind path natural).2⟩] := by
  cases h : st.faults.contains st.ops.length
  · rw [St.op_nofault _ _ _ _ h]
  · rw [St.op_fault _ _ _ _ h]

theorem St.op_faults (st : St) (kind : OpKind) (path : Path) (natural : Fs → Fs × Bool) :
    (st.op kind path natural).1.faults = st.faults := by
  cases h : st.faults.contains st.ops.length
  · rw [St.op_nofault _ _ _ _ h]
  · rw [St.op_fault _ _ _ _ h]

theorem St.op_fs_ro (st : St) (kind : OpKind) (path : Path) (natural : Fs → Fs × Bool)
    (hn : ∀ fs, (natural fs).1 = fs) : (st.op kind path natural).1.fs = st.fs := by
  cases h : st.faults.contains st.ops.length
  · rw [St.op_nofault _ _ _ _ h]; exact hn _
  · rw [St.op_fault _ _ _ _ h]

/-- on success there was no fault and `natural` said yes -/
theorem St.op_ok (st : St) (kind : OpKind) (path : Path) (natural : Fs → Fs × Bool)
    (hok : (st.op kind path natural).2 = true) :
    st.faults.contains st.ops.length = false ∧ (natural st.fs).2 = true ∧
      (st.op kind path natural).1.fs = (natural st.fs).1 := by
  cases h : st.faults.contains st.ops.length
  · rw [St.op_nofault _ _ _ _ h] at hok ⊢; exact ⟨rfl, hok, rfl⟩
  · rw [St.op_fault _ _ _ _ h] at hok; cases hok

theorem St.openr_fs (st : St) (p : Path) : (st.openr p).1.fs = st.fs :=
  St.op_fs_ro _ _ _ _ (fun _ => rfl)

theorem St.openr_ops (st : St) (p : Path) :
    (st.openr p).1.ops = st.ops ++ [⟨.openr, p, (st.openr p).2⟩] := St.op_ops _ _ _ _

theorem St.openr_faults (st : St) (p : Path) : (st.openr p).1.faults = st.faults := St.op_faults _ _ _ _

/-! ### validation -/

theorem validatePath_spec (st : St) (a : PathArg) :
    (validatePath st a).1.fs = st.fs ∧ (validatePath st a).1.faults = st.faults ∧
    (∃ new, (validatePath st a).1.ops = st.ops ++ new ∧ ∀ o ∈ new, o.kind = .stat) ∧
    ((validatePath st a).2 = true → a.absolute = true ∧ st.fs.look a.path = .dir) := by
  unfold validatePath
  cases ha : a.absolute
  · exact ⟨rfl, rfl, ⟨[], by simp, by simp⟩, by simp⟩
  · have hfs := St.op_fs_ro st .stat a.path (fun fs => (fs, match fs.look a.path with | .file _ => true | .dir => true | _ => false)) (fun _ => rfl)
    have hops := St.op_ops st .stat a.path (fun fs => (fs, match fs.look a.path with | .file _ => true | .dir => true | _ => false))
    have hfl := St.op_faults st .stat a.path (fun fs => (fs, match fs.look a.path with | .file _ => true | .dir => true | _ => false))
    generalize st.op .stat a.path (fun fs => (fs, match fs.look a.path with | .file _ => true | .dir => true | _ => false)) = r at hfs hops hfl
    rcases r with ⟨st1, ok⟩
    simp only at hfs hops hfl
    have hnew : ∃ new, st1.ops = st.ops ++ new ∧ ∀ o ∈ new, o.kind = .stat :=
      ⟨_, hops, by simp⟩
    cases ok
    · exact ⟨hfs, hfl, hnew, by simp⟩
    · simp only [Bool.not_true, Bool.false_eq_true, if_false]
      rw [hfs]
      cases hl : st.fs.look a.path <;> simp [hfs, hfl, hnew]

theorem validateAll_spec (st : St) (args : List PathArg) :
    (validateAll st args).1.fs = st.fs ∧ (validateAll st args).1.faults = st.faults ∧
    (∃ new, (validateAll st args).1.ops = st.ops ++ new ∧ ∀ o ∈ new, o.kind = .stat) ∧
    ((validateAll st args).2 = true → ∀ a ∈ args, a.absolute = true ∧ st.fs.look a.path = .dir) := by
  induction args generalizing st with
  | nil => exact ⟨rfl, rfl, ⟨[], by simp [validateAll], by simp⟩, by simp⟩
  | cons a as ih =>
    unfold validateAll
    obtain ⟨h1, h2, ⟨n1, h3, h3'⟩, h4⟩ := validatePath_spec st a
    rcases hv : validatePath st a with ⟨st1, ok⟩
    rw [hv] at h1 h2 h3 h4
    simp only at h1 h2 h3 h4
    cases ok
    · exact ⟨h1, h2, ⟨n1, h3, h3'⟩, by simp⟩
    · obtain ⟨i1, i2, ⟨n2, i3, i3'⟩, i4⟩ := ih st1
      simp only
      refine ⟨i1.trans h1, i2.trans h2, ⟨n1 ++ n2, by rw [i3, h3, List.append_assoc], ?_⟩, ?_⟩
      · intro o ho
        rcases List.mem_append.1 ho with ho | ho
        · exact h3' o ho
        · exact i3' o ho
      · intro hr b hb
        rcases List.mem_cons.1 hb with rfl | hb
        · exact h4 rfl
        · have := i4 hr b hb
          rwa [h1] at this

theorem Counters.bump_sum (c : Counters) (r : Solved) (hr : r ≠ .panic) :
    (c.bump r).success + (c.bump r).failed + (c.bump r).fault = c.success + c.failed + c.fault + 1 := by
  cases r <;> simp [Counters.bump] at * <;> omega

theorem solveAll_cons (H : Bytes → Bytes) (st : St) (w : Work) (ws : List Work) (c : Counters) (acc : List Counters) :
    solveAll H st (w :: ws) c acc =
      if (solvePiece H st w).2 = .panic then ((solvePiece H st w).1, acc, true)
      else solveAll H (solvePiece H st w).1 ws (c.bump (solvePiece H st w).2) (acc ++ [c.bump (solvePiece H st w).2]) := by
  rw [solveAll]
  rcases solvePiece H st w with ⟨st1, r⟩
  cases r <;> simp

theorem resizePass1_cons (st : St) (e : TEntry) (es : List TEntry) :
    resizePass1 st (e :: es) =
      if e.isPad then resizePass1 st es else
      if !(st.openr e.fullTarget).2 then
        if st.fs.look e.fullTarget == .notFound && !(st.faults.contains st.ops.length)
        then resizePass1 (st.openr e.fullTarget).1 es else ((st.openr e.fullTarget).1, .error)
      else
        match st.fs.look e.fullTarget with
        | .file i => if ((st.openr e.fullTarget).1.fs.content i).length > e.fileLength
            then ((st.openr e.fullTarget).1, .error) else resizePass1 (st.openr e.fullTarget).1 es
        | _ => resizePass1 (st.openr e.fullTarget).1 es := by
  rw [resizePass1]
  rcases st.openr e.fullTarget with ⟨st1, ok⟩
  rfl

theorem resizePass1_cases (st : St) (e : TEntry) (es : List TEntry) :
    resizePass1 st (e :: es) = resizePass1 st es ∨
    resizePass1 st (e :: es) = ((st.openr e.fullTarget).1, .error) ∨
    resizePass1 st (e :: es) = resizePass1 (st.openr e.fullTarget).1 es := by
  rw [resizePass1_cons]
  split
  · exact .inl rfl
  · split
    · split
      · exact .inr (.inr rfl)
      · exact .inr (.inl rfl)
    · split
      · split
        · exact .inr (.inl rfl)
        · exact .inr (.inr rfl)
      · exact .inr (.inr rfl)

theorem fixExportFileLengths_error (st : St) (table : List TEntry)
    (h : (resizePass1 st table).2 = .error) :
    fixExportFileLengths st table = ((resizePass1 st table).1, .error) := by
  unfold fixExportFileLengths
  rcases hp : resizePass1 st table with ⟨st1, fl⟩
  rw [hp] at h
  cases h
  rfl

theorem Fs.content_setData_same (fs : Fs) (i : Nat) (bs : Bytes) : (fs.setData i bs).content i = bs := by
  simp [Fs.content, Fs.setData]

theorem find?_filter_ne {α : Type} (l : List (Nat × α)) (i j : Nat) (h : j ≠ i) :
    (l.filter (fun e => e.1 != i)).find? (fun e => e.1 == j) = l.find? (fun e => e.1 == j) := by
  induction l with
  | nil => rfl
  | cons a l ih =>
    cases h1 : (a.1 != i) <;> cases h2 : (a.1 == j)
    · rw [List.filter_cons, h1, List.find?_cons, h2]; exact ih
    · exfalso; simp at h1 h2; exact h (h2 ▸ h1)
    · rw [List.filter_cons, h1, List.find?_cons, h2]
      simp only [if_true]
      rw [List.find?_cons, h2]; exact ih
    · rw [List.filter_cons, h1, List.find?_cons, h2]
      simp only [if_true]
      rw [List.find?_cons, h2]

theorem Fs.content_setData_other (fs : Fs) (i j : Nat) (bs : Bytes) (h : j ≠ i) :
    (fs.setData i bs).content j = fs.content j := by
  have : (i == j) = false := by simp; exact fun e => h e.symm
  simp only [Fs.content, Fs.setData, List.find?, this, find?_filter_ne _ _ _ h]

/-- `natural` of the read+write open in the second resize pass -/
def natOpenrw (p : Path) : Fs → Fs × Bool :=
  fun fs => (fs, match fs.look p with | .file _ => true | _ => false)

theorem resizePass2_cons (st : St) (e : TEntry) (es : List TEntry) :
    resizePass2 st (e :: es) =
      if e.isPad then resizePass2 st es else
      if !(st.op .openrw e.fullTarget (natOpenrw e.fullTarget)).2 then
        if st.fs.look e.fullTarget == .notFound && !(st.faults.contains st.ops.length)
        then resizePass2 (st.op .openrw e.fullTarget (natOpenrw e.fullTarget)).1 es
        else ((st.op .openrw e.fullTarget (natOpenrw e.fullTarget)).1, .error)
      else
        match st.fs.look e.fullTarget with
        | .file i =>
          if ((st.op .openrw e.fullTarget (natOpenrw e.fullTarget)).1.fs.content i).length < e.fileLength then
            if ((st.op .openrw e.fullTarget (natOpenrw e.fullTarget)).1.op (.setlen e.fileLength) e.fullTarget
                  (fun fs => (fs.setLen i e.fileLength, true))).2
            then resizePass2 ((st.op .openrw e.fullTarget (natOpenrw e.fullTarget)).1.op (.setlen e.fileLength) e.fullTarget
                  (fun fs => (fs.setLen i e.fileLength, true))).1 es
            else (((st.op .openrw e.fullTarget (natOpenrw e.fullTarget)).1.op (.setlen e.fileLength) e.fullTarget
                  (fun fs => (fs.setLen i e.fileLength, true))).1, .error)
          else resizePass2 (st.op .openrw e.fullTarget (natOpenrw e.fullTarget)).1 es
        | _ => resizePass2 (st.op .openrw e.fullTarget (natOpenrw e.fullTarget)).1 es := by
  rw [resizePass2]
  unfold natOpenrw
  split
  · rfl
  · generalize st.op .openrw e.fullTarget _ = r
    rcases r with ⟨st1, ok⟩
    cases ok
    · rfl
    · cases hl : st.fs.look e.fullTarget <;> rfl

theorem resizePass2_step (st : St) (e : TEntry) (es : List TEntry) :
    resizePass2 st (e :: es) = resizePass2 st es ∨
    ∃ st' new, (resizePass2 st (e :: es) = resizePass2 st' es ∨ resizePass2 st (e :: es) = (st', .error)) ∧
      st'.ops = st.ops ++ new ∧
      ∀ o ∈ new, e.isPad = false ∧ o.path = e.fullTarget ∧ (o.kind = .openrw ∨ o.kind = .setlen e.fileLength) := by
  rw [resizePass2_cons]
  cases hp : e.isPad
  · right
    simp only [Bool.false_eq_true, if_false]
    have h1 : ∃ new, (st.op .openrw e.fullTarget (natOpenrw e.fullTarget)).1.ops = st.ops ++ new ∧
        ∀ o ∈ new, True ∧ o.path = e.fullTarget ∧ (o.kind = .openrw ∨ o.kind = .setlen e.fileLength) :=
      ⟨_, St.op_ops _ _ _ _, by simp⟩
    obtain ⟨n1, h1a, h1b⟩ := h1
    split
    · split
      · exact ⟨_, n1, .inl rfl, h1a, h1b⟩
      · exact ⟨_, n1, .inr rfl, h1a, h1b⟩
    · split
      · split
        · rename_i i _ _
          have h2 := St.op_ops (st.op .openrw e.fullTarget (natOpenrw e.fullTarget)).1 (.setlen e.fileLength) e.fullTarget
            (fun fs => (fs.setLen i e.fileLength, true))
          rw [h1a, List.append_assoc] at h2
          have h2b : ∀ o ∈ n1 ++ [⟨.setlen e.fileLength, e.fullTarget, ((st.op .openrw e.fullTarget (natOpenrw e.fullTarget)).1.op (.setlen e.fileLength) e.fullTarget
            (fun fs => (fs.setLen i e.fileLength, true))).2⟩],
              True ∧ o.path = e.fullTarget ∧ (o.kind = .openrw ∨ o.kind = .setlen e.fileLength) := by
            intro o ho
            rcases List.mem_append.1 ho with ho | ho
            · exact h1b o ho
            · simp at ho; subst ho; simp
          split
          · exact ⟨_, _, .inl rfl, h2, h2b⟩
          · exact ⟨_, _, .inr rfl, h2, h2b⟩
        · exact ⟨_, n1, .inl rfl, h1a, h1b⟩
      · exact ⟨_, n1, .inl rfl, h1a, h1b⟩
  · left; simp

theorem reorder_length (ws : List Work) (os : List (List (Nat × Nat × Nat) × Bytes)) (r : List Work)
    (h : reorder ws os = some r) : r.length = ws.length := by
  induction os generalizing ws r with
  | nil =>
    cases ws with
    | nil => simp [reorder] at h; subst h; rfl
    | cons w ws => simp [reorder] at h; subst h; simp
  | cons o os ih =>
    rw [reorder] at h
    · split at h
      · cases h
      · rename_i w hw
        cases hr : reorder (ws.erase w) os with
        | none => rw [hr] at h; cases h
        | some r' =>
          rw [hr] at h; simp at h; subst h
          have hm : w ∈ ws := List.mem_of_find?_eq_some hw
          have := ih _ _ hr
          rw [List.length_erase_of_mem hm] at this
          have : ws.length > 0 := List.length_pos_of_mem hm
          simp; omega


/-! ### shape of `run` -/

def runSt1 (inp : RunIn) : St := (validateAll ⟨inp.fs, [], inp.faults⟩ (inp.scan ++ [inp.exportDir])).1
def runTable0 (inp : RunIn) : List TEntry := buildTable inp.exportDir.path (dedupTorrents (sortTorrents inp.torrents)) 0
def runSt2 (inp : RunIn) : St :=
  (if inp.resize then fixExportFileLengths (runSt1 inp) (runTable0 inp) else (runSt1 inp, .continue)).1
def runSt3 (inp : RunIn) : St := (addExportPaths (runSt2 inp) [] (runTable0 inp)).1

theorem run_shape (H : Bytes → Bytes) (inp : RunIn) (hne : inp.torrents ≠ []) :
    ((run H inp).result = .err ∧ (run H inp).ops = (runSt1 inp).ops ∧ (run H inp).fs = (runSt1 inp).fs) ∨
    ((run H inp).result = .err ∧ (run H inp).ops = (runSt2 inp).ops ∧ (run H inp).fs = (runSt2 inp).fs) ∨
    ((run H inp).result = .panic ∧ (run H inp).ops = (runSt3 inp).ops ∧ (run H inp).fs = (runSt3 inp).fs) ∨
    ∃ ordered, ordered.length = (run H inp).work.length ∧ (run H inp).total = (run H inp).work.length ∧
      (run H inp).result = (if (solveAll H (runSt3 inp) ordered ⟨0, 0, 0⟩ []).2.2 then .panic else .ok ()) ∧
      (run H inp).ops = (solveAll H (runSt3 inp) ordered ⟨0, 0, 0⟩ []).1.ops ∧
      (run H inp).fs = (solveAll H (runSt3 inp) ordered ⟨0, 0, 0⟩ []).1.fs ∧
      (run H inp).counters = (solveAll H (runSt3 inp) ordered ⟨0, 0, 0⟩ []).2.1 := by
  unfold run
  have : inp.torrents.isEmpty = false := by cases ht : inp.torrents <;> simp_all
  simp only [this, Bool.false_eq_true, if_false]
  split
  · rename_i _ st1 h1
    exact .inl ⟨rfl, by simp only [runSt1, h1], by simp only [runSt1, h1]⟩
  · rename_i _ st1 h1
    split
    · exact .inr (.inl ⟨rfl, by simp only [runSt2, runSt1, runTable0, h1], by simp only [runSt2, runSt1, runTable0, h1]⟩)
    · split
      · exact .inr (.inr (.inl ⟨rfl, by simp only [runSt3, runSt2, runSt1, runTable0, h1], by simp only [runSt3, runSt2, runSt1, runTable0, h1]⟩))
      · rename_i _ work hw
        refine .inr (.inr (.inr ⟨(match reorder work inp.order with
                          | some o => (o, true)
                          | none => (defaultOrder work, inp.order.isEmpty)).fst, ?_, rfl, ?_, ?_, ?_, ?_⟩))
        · simp only
          cases hr : reorder work inp.order with
          | some o => exact reorder_length _ _ _ hr
          | none => simp [defaultOrder]
        all_goals (simp only [runSt3, runSt2, runSt1, runTable0, h1] <;> rfl)

theorem scanSingle_spec (H : Bytes → Bytes) (hash : Bytes) (seg : WSeg) (st : St) (ps : List Path) :
    (scanSingle H hash seg st ps).2 ≠ .panic ∧
    ∀ src bytes, (scanSingle H hash seg st ps).2 = .ok (some (src, bytes)) → H bytes = hash := by
  fun_induction scanSingle H hash seg st ps with
  | case1 st => simp
  | case2 st p ps st1 h => simp
  | case3 st p ps st1 bytes h hh => 
    refine ⟨by simp, ?_⟩
    intro src b hb
    simp at hb
    rw [← hb.2]; simpa using hh
  | case4 st p ps st1 bytes h hh ih => exact ih

theorem preloadSeg_no_panic (seg : WSeg) (st : St) (ps : List Path) (acc : List (Option Path × Bytes)) :
    (preloadSeg seg st ps acc).2 ≠ .panic := by
  fun_induction preloadSeg seg st ps acc <;> simp_all

theorem preload_no_panic (st : St) (segs : List WSeg) : (preload st segs).2 ≠ .panic := by
  fun_induction preload st segs <;> simp_all
  · rename_i st seg rest paths st1 _ _ h
    have := preloadSeg_no_panic seg st paths []
    rw [h] at this; simp at this

theorem zip_lens_le (segs : List WSeg) (l : List (Option Path)) :
    ((List.zip segs l).map (·.1.len)).sum ≤ (segs.map (·.len)).sum := by
  induction segs generalizing l with
  | nil => simp
  | cons s segs ih =>
    cases l with
    | nil => simp
    | cons x l => simp only [List.zip_cons_cons, List.map_cons, List.sum_cons]; have := ih l; omega

theorem writeSegs_no_panic (st : St) (pairs : List (WSeg × Option Path)) (buf : Bytes) (start : Nat)
    (h : start + (pairs.map (·.1.len)).sum ≤ buf.length) : (writeSegs st pairs buf start).2 ≠ .panic := by
  fun_induction writeSegs st pairs buf start <;> simp_all
  all_goals first | omega | (rename_i ih; apply ih; omega)

theorem firstM_some {α β : Type} (f : α → Option β) (l : List α) (r : β) (h : l.firstM f = some r) :
    ∃ a ∈ l, f a = some r := by
  induction l with
  | nil => simp [List.firstM] at h
  | cons a l ih =>
    simp only [List.firstM] at h
    cases ha : f a with
    | some b => rw [ha] at h; simp at h; subst h; exact ⟨a, List.mem_cons_self, ha⟩
    | none =>
      rw [ha] at h; simp at h
      obtain ⟨x, hx, hr⟩ := ih h
      exact ⟨x, List.mem_cons_of_mem _ hx, hr⟩

theorem searchProduct_some (H : Bytes → Bytes) (hash : Bytes) (cands : List (List (Option Path × Bytes)))
    (chosen r : List (Option Path × Bytes)) (h : searchProduct H hash cands chosen = some r) :
    H (r.flatMap (·.2)) = hash := by
  induction cands generalizing chosen with
  | nil =>
    simp only [searchProduct] at h
    split at h
    · rename_i hh; simp at h; subst h; simpa using hh
    · cases h
  | cons c cs ih =>
    simp only [searchProduct] at h
    obtain ⟨a, _, ha⟩ := firstM_some _ _ _ h
    exact ih _ ha

/-! ### the "set_len directly follows create-open" invariant of the log -/

def SetlenInv (ops : List Op) : Prop :=
  ∀ k n p ok, ops[k]? = some ⟨.setlen n, p, ok⟩ → k > 0 ∧ ops[k-1]? = some ⟨.openc, p, true⟩

theorem SetlenInv.nil : SetlenInv [] := by
  intro k n p ok h; simp at h

theorem SetlenInv.snoc {ops : List Op} (o : Op) (h : SetlenInv ops)
    (ho : ∀ n, o.kind = .setlen n → ops.getLast? = some ⟨.openc, o.path, true⟩) : SetlenInv (ops ++ [o]) := by
  intro k n p ok hk
  by_cases hlt : k < ops.length
  · rw [List.getElem?_append_left hlt] at hk
    obtain ⟨h1, h2⟩ := h k n p ok hk
    exact ⟨h1, by rw [List.getElem?_append_left (by omega)]; exact h2⟩
  · rw [List.getElem?_append_right (by omega)] at hk
    have hk0 : k - ops.length = 0 := by
      cases hd : k - ops.length with
      | zero => rfl
      | succ m => rw [hd] at hk; simp at hk
    rw [hk0] at hk
    simp at hk
    have hl := ho n (by rw [hk])
    have hkl : k = ops.length := by omega
    subst hkl
    rw [List.getLast?_eq_getElem?] at hl
    have hpos : ops.length > 0 := by
      cases ops with
      | nil => simp at hl
      | cons a l => simp
    refine ⟨hpos, ?_⟩
    rw [List.getElem?_append_left (by omega), hl, hk]

def NSExt (st st' : St) : Prop := ∃ new, st'.ops = st.ops ++ new ∧ ∀ o ∈ new, ∀ n, o.kind ≠ .setlen n

theorem NSExt.refl (st : St) : NSExt st st := ⟨[], by simp, by simp⟩

theorem NSExt.trans {a b c : St} (h1 : NSExt a b) (h2 : NSExt b c) : NSExt a c := by
  obtain ⟨n1, e1, p1⟩ := h1
  obtain ⟨n2, e2, p2⟩ := h2
  refine ⟨n1 ++ n2, by rw [e2, e1, List.append_assoc], ?_⟩
  intro o ho
  rcases List.mem_append.1 ho with ho | ho
  · exact p1 o ho
  · exact p2 o ho

theorem NSExt.op (st : St) (kind : OpKind) (path : Path) (natural : Fs → Fs × Bool)
    (hk : ∀ n, kind ≠ .setlen n) : NSExt st (st.op kind path natural).1 :=
  ⟨_, St.op_ops _ _ _ _, by simpa using hk⟩

theorem SetlenInv.ext {st st' : St} (h : SetlenInv st.ops) (he : NSExt st st') : SetlenInv st'.ops := by
  obtain ⟨new, e, p⟩ := he
  rw [e]; clear e
  generalize st.ops = ops at h
  induction new generalizing ops with
  | nil => simpa using h
  | cons o l ih =>
    have : ops ++ o :: l = (ops ++ [o]) ++ l := by simp
    rw [this]
    refine ih (fun o' ho' => p o' (List.mem_cons_of_mem _ ho')) _ (SetlenInv.snoc o h ?_)
    intro n hn
    exact absurd hn (p o List.mem_cons_self n)

theorem St.op_eq_ops {st st' : St} {kind : OpKind} {path : Path} {natural : Fs → Fs × Bool} {ok : Bool}
    (h : st.op kind path natural = (st', ok)) : st'.ops = st.ops ++ [⟨kind, path, ok⟩] := by
  have := St.op_ops st kind path natural
  rw [h] at this; exact this

theorem NSExt.op_eq {st st' : St} {kind : OpKind} {path : Path} {natural : Fs → Fs × Bool} {ok : Bool}
    (h : st.op kind path natural = (st', ok)) (hk : ∀ n, kind ≠ .setlen n) : NSExt st st' := by
  have := NSExt.op st kind path natural hk
  rw [h] at this; exact this

theorem readBytes_nsext (st : St) (p : Path) (len off : Nat) : NSExt st (st.readBytes p len off).1 := by
  unfold St.readBytes
  rcases h1 : st.op .openr p _ with ⟨st1, ok1⟩
  have e1 := NSExt.op_eq h1 (by simp)
  simp only
  split
  · exact e1
  · rcases h2 : st1.op (.seek off) p _ with ⟨st2, ok2⟩
    have e2 := e1.trans (NSExt.op_eq h2 (by simp))
    simp only
    split
    · exact e2
    · split
      · exact e2
      · rcases h3 : st2.op .read p _ with ⟨st3, ok3⟩
        have e3 := e2.trans (NSExt.op_eq h3 (by simp))
        simp only
        split
        · exact e3
        · split <;> exact e3

theorem scanSingle_nsext (H : Bytes → Bytes) (hash : Bytes) (seg : WSeg) (st : St) (ps : List Path) :
    NSExt st (scanSingle H hash seg st ps).1 := by
  fun_induction scanSingle H hash seg st ps with
  | case1 st => exact NSExt.refl _
  | case2 st p ps st1 h => have := readBytes_nsext st p seg.len seg.off; rw [h] at this; exact this
  | case3 st p ps st1 bytes h hh => have := readBytes_nsext st p seg.len seg.off; rw [h] at this; exact this
  | case4 st p ps st1 bytes h hh ih =>
    have := readBytes_nsext st p seg.len seg.off; rw [h] at this; exact this.trans ih

theorem preloadSeg_nsext (seg : WSeg) (st : St) (ps : List Path) (acc : List (Option Path × Bytes)) :
    NSExt st (preloadSeg seg st ps acc).1 := by
  fun_induction preloadSeg seg st ps acc with
  | case1 st acc => exact NSExt.refl _
  | case2 st p ps acc st1 h => have := readBytes_nsext st p seg.len seg.off; rw [h] at this; exact this
  | case3 st p ps acc st1 bytes h hh ih =>
    have := readBytes_nsext st p seg.len seg.off; rw [h] at this; exact this.trans ih
  | case4 st p ps acc st1 bytes h hh ih =>
    have := readBytes_nsext st p seg.len seg.off; rw [h] at this; exact this.trans ih

theorem preload_nsext (st : St) (segs : List WSeg) : NSExt st (preload st segs).1 := by
  fun_induction preload st segs <;> simp_all
  · exact NSExt.refl _
  · rename_i st seg rest paths st1 _ _ _ _ _ x1 _ ih
    have := preloadSeg_nsext seg st paths []; rw [x1] at this; exact this.trans ih
  · rename_i st seg rest paths st1 _ _ _ _ x1 _ ih
    have := preloadSeg_nsext seg st paths []; rw [x1] at this; exact this.trans ih
  · rename_i st seg rest paths st1 _ _ _ _ x1 _ ih
    have := preloadSeg_nsext seg st paths []; rw [x1] at this; exact this.trans ih
  · rename_i st seg rest paths st1 _ _ x1
    have := preloadSeg_nsext seg st paths []; rw [x1] at this; exact this
  · rename_i st seg rest paths st1 _ _ x1
    have := preloadSeg_nsext seg st paths []; rw [x1] at this; exact this

theorem addExportPaths_nsext (st : St) (c : Cache) (table : List TEntry) :
    NSExt st (addExportPaths st c table).1 := by
  induction table generalizing st c with
  | nil => exact NSExt.refl _
  | cons e es ih =>
    rw [addExportPaths]
    split
    · exact ih _ _
    · have h1 : NSExt st (st.openr e.fullTarget).1 := NSExt.op _ _ _ _ (by simp)
      rcases hop : st.openr e.fullTarget with ⟨st1, ok⟩
      rw [hop] at h1
      simp only at h1 ⊢
      split
      · exact h1.trans (ih _ _)
      · split
        · split <;> exact h1.trans (ih _ _)
        · exact h1.trans (ih _ _)

theorem validateAll_nsext (st : St) (args : List PathArg) : NSExt st (validateAll st args).1 := by
  obtain ⟨_, _, ⟨new, h1, h2⟩, _⟩ := validateAll_spec st args
  exact ⟨new, h1, fun o ho n => by rw [h2 o ho]; simp⟩

theorem writeSegs_inv (st : St) (pairs : List (WSeg × Option Path)) (buf : Bytes) (start : Nat)
    (h : SetlenInv st.ops) : SetlenInv (writeSegs st pairs buf start).1.ops := by
  induction pairs generalizing st start with
  | nil => exact h
  | cons pr rest ih =>
    obtain ⟨seg, src⟩ := pr
    rw [writeSegs]
    simp only
    split
    · exact ih _ _ h
    · split
      · exact ih _ _ h
      · rcases h1 : st.op .mkdirs seg.ent.fullTarget.dropLast _ with ⟨st1, ok1⟩
        have i1 : SetlenInv st1.ops := h.ext (NSExt.op_eq h1 (by simp))
        simp only
        split
        · exact i1
        · rcases h2 : st1.op .openc seg.ent.fullTarget _ with ⟨st2, ok2⟩
          have i2 : SetlenInv st2.ops := i1.ext (NSExt.op_eq h2 (by simp))
          simp only
          split
          · exact i2
          · rename_i hok2
            split
            · rename_i i hl
              rcases h3 : st2.op (.setlen seg.ent.fileLength) seg.ent.fullTarget _ with ⟨st3, ok3⟩
              have i3 : SetlenInv st3.ops := by
                rw [St.op_eq_ops h3]
                refine SetlenInv.snoc _ i2 ?_
                intro n _
                rw [St.op_eq_ops h2]
                simp at hok2
                simp [hok2]
              simp only
              split
              · exact i3
              · rcases h4 : st3.op (.seek seg.off) seg.ent.fullTarget _ with ⟨st4, ok4⟩
                have i4 : SetlenInv st4.ops := i3.ext (NSExt.op_eq h4 (by simp))
                simp only
                split
                · exact i4
                · split
                  · exact i4
                  · rcases h5 : st4.op (.write seg.off ((buf.drop start).take seg.len)) seg.ent.fullTarget _ with ⟨st5, ok5⟩
                    have i5 : SetlenInv st5.ops := i4.ext (NSExt.op_eq h5 (by simp))
                    simp only
                    split
                    · exact i5
                    · exact ih _ _ i5
            · exact i2

theorem solvePiece_inv (H : Bytes → Bytes) (st : St) (w : Work) (h : SetlenInv st.ops) :
    SetlenInv (solvePiece H st w).1.ops := by
  unfold solvePiece
  simp only
  split
  · exact h
  · split
    · rename_i seg hseg
      split
      · split <;> exact h
      · split
        · exact h
        · rename_i paths hs
          have hsc := h.ext (scanSingle_nsext H w.hash seg st paths)
          split
          · rename_i st1 src bytes heq
            rw [heq] at hsc
            exact writeSegs_inv _ _ _ _ hsc
          all_goals (rename_i heq; rw [heq] at hsc; exact hsc)
    · have hpl := h.ext (preload_nsext st w.segs)
      split
      · rename_i st1 loaded heq
        rw [heq] at hpl
        split
        · exact writeSegs_inv _ _ _ _ hpl
        · exact hpl
      all_goals (rename_i heq; rw [heq] at hpl; exact hpl)

theorem solveAll_inv (H : Bytes → Bytes) (st : St) (ws : List Work) (c : Counters) (acc : List Counters)
    (h : SetlenInv st.ops) : SetlenInv (solveAll H st ws c acc).1.ops := by
  induction ws generalizing st c acc with
  | nil => exact h
  | cons w ws ih =>
    rw [solveAll_cons]
    split
    · exact solvePiece_inv H st w h
    · exact ih _ _ _ (solvePiece_inv H st w h)

/-! ### `bytesLt` is a strict total order -/

theorem bytesLt_irrefl (a : Bytes) : bytesLt a a = false := by
  induction a with
  | nil => rfl
  | cons x xs ih => simp [bytesLt, ih, UInt8.lt_irrefl]

theorem bytesLt_cons (a b : UInt8) (as bs : Bytes) :
    bytesLt (a :: as) (b :: bs) = true ↔ a < b ∨ (a = b ∧ bytesLt as bs = true) := by
  simp only [bytesLt]
  by_cases h1 : a < b
  · simp [h1]
  · by_cases h2 : a = b
    · simp [h2, UInt8.lt_irrefl]
    · simp [h1, h2]

theorem bytesLt_trans {a b c : Bytes} (h1 : bytesLt a b = true) (h2 : bytesLt b c = true) : bytesLt a c = true := by
  induction a generalizing b c with
  | nil =>
    cases c with
    | nil => cases b <;> simp [bytesLt] at h1 h2
    | cons z zs => rfl
  | cons x xs ih =>
    cases b with
    | nil => simp [bytesLt] at h1
    | cons y ys =>
      cases c with
      | nil => simp [bytesLt] at h2
      | cons z zs =>
        rw [bytesLt_cons] at h1 h2 ⊢
        rcases h1 with h1 | ⟨rfl, h1⟩
        · rcases h2 with h2 | ⟨rfl, h2⟩
          · exact .inl (UInt8.lt_trans h1 h2)
          · exact .inl h1
        · rcases h2 with h2 | ⟨rfl, h2⟩
          · exact .inl h2
          · exact .inr ⟨rfl, ih h1 h2⟩

theorem bytesLt_asymm {a b : Bytes} (h : bytesLt a b = true) : bytesLt b a = false := by
  cases h' : bytesLt b a
  · rfl
  · have := bytesLt_trans h h'
    rw [bytesLt_irrefl] at this; cases this

theorem bytesLt_total {a b : Bytes} (h1 : bytesLt a b = false) (h2 : bytesLt b a = false) : a = b := by
  induction a generalizing b with
  | nil =>
    cases b with
    | nil => rfl
    | cons y ys => simp [bytesLt] at h1
  | cons x xs ih =>
    cases b with
    | nil => simp [bytesLt] at h2
    | cons y ys =>
      have n1 : ¬ (bytesLt (x :: xs) (y :: ys) = true) := by rw [h1]; simp
      have n2 : ¬ (bytesLt (y :: ys) (x :: xs) = true) := by rw [h2]; simp
      rw [bytesLt_cons] at n1 n2
      have hxy : x = y := by
        apply Classical.byContradiction
        intro hne
        rcases UInt8.lt_or_lt_of_ne hne with h | h
        · exact n1 (.inl h)
        · exact n2 (.inl h)
      subst hxy
      have e1 : bytesLt xs ys = false := by
        cases h : bytesLt xs ys
        · rfl
        · exact absurd (.inr ⟨rfl, h⟩) n1
      have e2 : bytesLt ys xs = false := by
        cases h : bytesLt ys xs
        · rfl
        · exact absurd (.inr ⟨rfl, h⟩) n2
      rw [ih e1 e2]

/-- `a < b`, `b ≤ c` → `a < c` -/
theorem bytesLt_of_lt_of_le {a b c : Bytes} (h1 : bytesLt a b = true) (h2 : bytesLt c b = false) : bytesLt a c = true := by
  cases h : bytesLt a c
  · cases h' : bytesLt c a
    · have := bytesLt_total h h'
      subst this
      rw [h1] at h2; cases h2
    · have := bytesLt_trans h' h1
      rw [this] at h2; cases h2
  · rfl

/-- `a ≤ b`, `b ≤ c` → `a ≤ c` -/
theorem bytesLe_trans {a b c : Bytes} (h1 : bytesLt b a = false) (h2 : bytesLt c b = false) : bytesLt c a = false := by
  cases h : bytesLt c a
  · rfl
  · have := bytesLt_of_lt_of_le h h1
    rw [this] at h2; cases h2

/-! ### sorting and de-duplicating the torrent list -/

/-- non-decreasing info-hashes -/
def TSorted (l : List Torrent) : Prop := l.Pairwise (fun a b => bytesLt b.infoHash a.infoHash = false)
/-- strictly increasing info-hashes -/
def TStrict (l : List Torrent) : Prop := l.Pairwise (fun a b => bytesLt a.infoHash b.infoHash = true)

theorem mem_insertTorrent (t x : Torrent) (l : List Torrent) : x ∈ insertTorrent t l ↔ x = t ∨ x ∈ l := by
  induction l with
  | nil => simp [insertTorrent]
  | cons u us ih =>
    rw [insertTorrent]
    split
    · simp
    · simp only [List.mem_cons, ih]
      constructor
      · rintro (h | h | h)
        · exact .inr (.inl h)
        · exact .inl h
        · exact .inr (.inr h)
      · rintro (h | h | h)
        · exact .inr (.inl h)
        · exact .inl h
        · exact .inr (.inr h)

theorem insertTorrent_sorted (t : Torrent) (l : List Torrent) (h : TSorted l) : TSorted (insertTorrent t l) := by
  induction l with
  | nil => simp [insertTorrent, TSorted]
  | cons u us ih =>
    unfold TSorted at h
    rw [List.pairwise_cons] at h
    rw [insertTorrent]
    split
    · rename_i hlt
      unfold TSorted
      rw [List.pairwise_cons]
      refine ⟨?_, List.pairwise_cons.2 h⟩
      intro x hx
      rcases List.mem_cons.1 hx with rfl | hx
      · exact bytesLt_asymm hlt
      · exact bytesLt_asymm (bytesLt_of_lt_of_le hlt (h.1 x hx))
    · rename_i hlt
      unfold TSorted
      rw [List.pairwise_cons]
      refine ⟨?_, ih h.2⟩
      intro x hx
      rcases (mem_insertTorrent t x us).1 hx with rfl | hx
      · simpa using hlt
      · exact h.1 x hx

theorem foldl_insert_spec (ts acc : List Torrent) (h : TSorted acc) :
    TSorted (ts.foldl (fun acc t => insertTorrent t acc) acc) ∧
    ∀ x, x ∈ ts.foldl (fun acc t => insertTorrent t acc) acc ↔ x ∈ acc ∨ x ∈ ts := by
  induction ts generalizing acc with
  | nil => simp [h]
  | cons t ts ih =>
    simp only [List.foldl_cons]
    obtain ⟨h1, h2⟩ := ih (insertTorrent t acc) (insertTorrent_sorted t acc h)
    refine ⟨h1, fun x => ?_⟩
    rw [h2, mem_insertTorrent, List.mem_cons]
    constructor
    · rintro ((h | h) | h)
      · exact .inr (.inl h)
      · exact .inl h
      · exact .inr (.inr h)
    · rintro (h | h | h)
      · exact .inl (.inr h)
      · exact .inl (.inl h)
      · exact .inr h

theorem sortTorrents_sorted (ts : List Torrent) : TSorted (sortTorrents ts) :=
  (foldl_insert_spec ts [] List.Pairwise.nil).1

theorem mem_sortTorrents (ts : List Torrent) (x : Torrent) : x ∈ sortTorrents ts ↔ x ∈ ts := by
  have := (foldl_insert_spec ts [] List.Pairwise.nil).2 x
  simpa [sortTorrents] using this

theorem dedupTorrents_mem (l : List Torrent) : ∀ x ∈ dedupTorrents l, x ∈ l := by
  fun_induction dedupTorrents l with
  | case1 => simp
  | case2 t => simp
  | case3 t u rest h ih =>
    intro x hx
    have := ih x hx
    rcases List.mem_cons.1 this with h | h
    · exact h ▸ List.mem_cons_self
    · exact List.mem_cons_of_mem _ (List.mem_cons_of_mem _ h)
  | case4 t u rest h ih =>
    intro x hx
    rcases List.mem_cons.1 hx with h | h
    · exact h ▸ List.mem_cons_self
    · exact List.mem_cons_of_mem _ (ih x h)

theorem dedupTorrents_cover (l : List Torrent) : ∀ x ∈ l, ∃ u ∈ dedupTorrents l, u.infoHash = x.infoHash := by
  fun_induction dedupTorrents l with
  | case1 => simp
  | case2 t => simp
  | case3 t u rest h ih =>
    intro x hx
    have hh : t.infoHash = u.infoHash := by simpa using h
    rcases List.mem_cons.1 hx with rfl | hx
    · exact ih x List.mem_cons_self
    · rcases List.mem_cons.1 hx with rfl | hx
      · obtain ⟨v, hv, he⟩ := ih t List.mem_cons_self
        exact ⟨v, hv, he.trans hh⟩
      · exact ih x (List.mem_cons_of_mem _ hx)
  | case4 t u rest h ih =>
    intro x hx
    rcases List.mem_cons.1 hx with rfl | hx
    · exact ⟨x, List.mem_cons_self, rfl⟩
    · obtain ⟨v, hv, he⟩ := ih x hx
      exact ⟨v, List.mem_cons_of_mem _ hv, he⟩

theorem dedupTorrents_strict (l : List Torrent) (hs : TSorted l) : TStrict (dedupTorrents l) := by
  fun_induction dedupTorrents l with
  | case1 => exact List.Pairwise.nil
  | case2 t => simp [TStrict]
  | case3 t u rest h ih =>
    apply ih
    unfold TSorted at hs ⊢
    rw [List.pairwise_cons] at hs
    rw [List.pairwise_cons]
    exact ⟨fun x hx => hs.1 x (List.mem_cons_of_mem _ hx), (List.pairwise_cons.1 hs.2).2⟩
  | case4 t u rest h ih =>
    unfold TSorted at hs
    rw [List.pairwise_cons] at hs
    unfold TStrict
    rw [List.pairwise_cons]
    refine ⟨?_, ih hs.2⟩
    have htu : bytesLt t.infoHash u.infoHash = true := by
      cases hlt : bytesLt t.infoHash u.infoHash
      · exfalso
        have := bytesLt_total hlt (hs.1 u List.mem_cons_self)
        exact h (by simpa using this)
      · rfl
    intro x hx
    have hx' := dedupTorrents_mem _ x hx
    rcases List.mem_cons.1 hx' with rfl | hx'
    · exact htu
    · exact bytesLt_of_lt_of_le htu ((List.pairwise_cons.1 hs.2).1 x hx')

theorem dedup_sort_strict (ts : List Torrent) :
    ((dedupTorrents (sortTorrents ts)).map (·.infoHash)).Pairwise (fun a b => bytesLt a b = true) := by
  rw [List.pairwise_map]
  exact dedupTorrents_strict _ (sortTorrents_sorted ts)

theorem strict_sorted_ext (l1 l2 : List Bytes)
    (h1 : l1.Pairwise (fun a b => bytesLt a b = true)) (h2 : l2.Pairwise (fun a b => bytesLt a b = true))
    (h : ∀ x, x ∈ l1 ↔ x ∈ l2) : l1 = l2 := by
  induction l1 generalizing l2 with
  | nil =>
    cases l2 with
    | nil => rfl
    | cons b l2 => exact absurd ((h b).2 List.mem_cons_self) (by simp)
  | cons a l1 ih =>
    cases l2 with
    | nil => exact absurd ((h a).1 List.mem_cons_self) (by simp)
    | cons b l2 =>
      rw [List.pairwise_cons] at h1 h2
      have hab : a = b := by
        rcases List.mem_cons.1 ((h a).1 List.mem_cons_self) with e | ha
        · exact e
        · rcases List.mem_cons.1 ((h b).2 List.mem_cons_self) with e | hb
          · exact e.symm
          · have x1 := h2.1 a ha
            have x2 := h1.1 b hb
            rw [bytesLt_asymm x1] at x2; cases x2
      subst hab
      congr 1
      apply ih l2 h1.2 h2.2
      intro x
      constructor
      · intro hx
        rcases List.mem_cons.1 ((h x).1 (List.mem_cons_of_mem _ hx)) with e | hx'
        · subst e
          have := h1.1 x hx
          rw [bytesLt_irrefl] at this; cases this
        · exact hx'
      · intro hx
        rcases List.mem_cons.1 ((h x).2 (List.mem_cons_of_mem _ hx)) with e | hx'
        · subst e
          have := h2.1 x hx
          rw [bytesLt_irrefl] at this; cases this
        · exact hx'

theorem mem_dedup_sort_hash (ts : List Torrent) (x : Bytes) :
    x ∈ (dedupTorrents (sortTorrents ts)).map (·.infoHash) ↔ x ∈ ts.map (·.infoHash) := by
  simp only [List.mem_map]
  constructor
  · rintro ⟨t, ht, rfl⟩
    exact ⟨t, (mem_sortTorrents ts t).1 (dedupTorrents_mem _ t ht), rfl⟩
  · rintro ⟨t, ht, rfl⟩
    obtain ⟨u, hu, he⟩ := dedupTorrents_cover _ t ((mem_sortTorrents ts t).2 ht)
    exact ⟨u, hu, he⟩

theorem cacheGet_cacheInsert (c : Cache) (len : Nat) (p : Path) (ino : Nat) :
    cacheGet (cacheInsert c len p ino) len =
      some ((p, ino) :: ((cacheGet c len).getD []).filter (fun e => e.1 != p)) := by
  unfold cacheInsert
  cases h : cacheGet c len with
  | none => simp [cacheGet]
  | some m => simp [cacheGet]

end TB.RB