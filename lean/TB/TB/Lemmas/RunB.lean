/-
  Helper lemmas about TB.Model.Run (RunB).
-/
import TB.Spec.ExportSpec
namespace TB

end TB
