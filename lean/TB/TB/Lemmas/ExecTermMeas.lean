/-
  Helper lemmas for C05 (termination part): how the components of `measure` change in a step.
-/
import TB.Lemmas.ExecTermInv
namespace TB.Exec.Term
/-! ### sums over `List.range` -/

theorem sum_range_le {n : Nat} {f g : Nat → Nat} (h : ∀ k, k < n → f k ≤ g k) :
    ((List.range n).map f).sum ≤ ((List.range n).map g).sum := by
  induction n with
  | zero => simp
  | succ n ih =>
    simp only [List.range_succ, List.map_append, List.sum_append, List.map_cons, List.map_nil, List.sum_cons,
      List.sum_nil, Nat.add_zero]
    have := ih (fun k hk => h k (by omega))
    have := h n (by omega)
    omega

theorem sum_range_add {n : Nat} {f g : Nat → Nat} :
    ((List.range n).map (fun k => f k + g k)).sum = ((List.range n).map f).sum + ((List.range n).map g).sum := by
  induction n with
  | zero => simp
  | succ n ih =>
    simp only [List.range_succ, List.map_append, List.sum_append, List.map_cons, List.map_nil, List.sum_cons,
      List.sum_nil, Nat.add_zero, ih]
    omega

theorem sum_range_ite_zero {n i c : Nat} (h : n ≤ i) : ((List.range n).map (fun k => if k = i then c else 0)).sum = 0 := by
  induction n with
  | zero => simp
  | succ n ih =>
    simp only [List.range_succ, List.map_append, List.sum_append, List.map_cons, List.map_nil, List.sum_cons,
      List.sum_nil, Nat.add_zero]
    rw [ih (by omega), if_neg (by omega)]

theorem sum_range_ite_le {n i c : Nat} : ((List.range n).map (fun k => if k = i then c else 0)).sum ≤ c := by
  induction n with
  | zero => simp
  | succ n ih =>
    simp only [List.range_succ, List.map_append, List.sum_append, List.map_cons, List.map_nil, List.sum_cons,
      List.sum_nil, Nat.add_zero]
    by_cases h : n = i
    · rw [sum_range_ite_zero (by omega), if_pos h]; omega
    · rw [if_neg h]; exact ih

theorem sum_range_ite_eq {n i c : Nat} (hi : i < n) : ((List.range n).map (fun k => if k = i then c else 0)).sum = c := by
  induction n with
  | zero => omega
  | succ n ih =>
    simp only [List.range_succ, List.map_append, List.sum_append, List.map_cons, List.map_nil, List.sum_cons,
      List.sum_nil, Nat.add_zero]
    by_cases h : n = i
    · rw [sum_range_ite_zero (by omega), if_pos h]; omega
    · rw [if_neg h, ih (by omega)]; rfl

/-- the sum drops when one summand drops by `a` and at most one other rises by `b < a` -/
theorem sum_range_lt {n i t a b : Nat} {f f' : Nat → Nat} (hi : i < n) (hab : b < a)
    (h : ∀ k, k < n → f' k + (if k = i then a else 0) ≤ f k + (if k = t then b else 0)) :
    ((List.range n).map f').sum < ((List.range n).map f).sum := by
  have h1 := sum_range_le h
  rw [sum_range_add, sum_range_add, sum_range_ite_eq hi] at h1
  have h2 := sum_range_ite_le (n := n) (i := t) (c := b)
  omega

/-! ### lists: `set` and `filterMap`, `flatten`, `find?` -/

theorem filterMap_set_length {α β : Type} (f : α → Option β) (l : List α) (i : Nat) (x y : α) (h : l[i]? = some x) :
    ((l.set i y).filterMap f).length + (if (f x).isSome then 1 else 0)
      = (l.filterMap f).length + (if (f y).isSome then 1 else 0) := by
  induction l generalizing i with
  | nil => simp at h
  | cons a l ih =>
    cases i with
    | zero =>
      simp at h; subst h
      simp only [List.set_cons_zero, List.filterMap_cons]
      cases f a <;> cases f y <;> simp
    | succ i =>
      simp at h
      have := ih i h
      simp only [List.set_cons_succ, List.filterMap_cons]
      cases f a <;> simp <;> omega

theorem flatten_set_length {α : Type} (l : List (List α)) (i : Nat) (q q' : List α) (h : l[i]? = some q) :
    (l.set i q').flatten.length + q.length = l.flatten.length + q'.length := by
  induction l generalizing i with
  | nil => simp at h
  | cons a l ih =>
    cases i with
    | zero => simp at h; subst h; simp; omega
    | succ i =>
      simp at h
      have := ih i h
      simp only [List.set_cons_succ, List.flatten_cons, List.length_append]; omega

theorem find?_set_of_false {α : Type} (p : α → Bool) (l : List α) (i : Nat) (x y : α) (h : l[i]? = some x)
    (hx : p x = false) (hy : p y = false) : (l.set i y).find? p = l.find? p := by
  induction l generalizing i with
  | nil => simp at h
  | cons a l ih =>
    cases i with
    | zero => simp at h; subst h; simp [hx, hy]
    | succ i =>
      simp at h
      simp only [List.set_cons_succ, List.find?_cons]
      rw [ih i h]

/-! ### `effActive` -/

/-- the pending deactivation recorded in a program counter -/
def pend : Pc → Nat
  | .release _ d => d
  | .dec d => d
  | _ => 0

def isRel : Pc → Bool
  | .release _ _ => true
  | .dec _ => true
  | _ => false

theorem effActive_eq (s : ExSt) : effActive s =
    match s.pcs.find? isRel with
    | some pc => s.active - pend pc
    | none => s.active := by
  have key : ∀ p : Pc → Bool, p = isRel →
      (match s.pcs.find? p with
        | some (.release _ d) => s.active - d
        | some (.dec d) => s.active - d
        | _ => s.active) =
      (match s.pcs.find? isRel with
        | some pc => s.active - pend pc
        | none => s.active) := by
    intro p hp; subst hp
    cases h : s.pcs.find? isRel with
    | none => rfl
    | some pc =>
      have := List.find?_some h
      cases pc <;> simp [isRel] at this <;> rfl
  exact key _ (funext fun pc => by cases pc <;> rfl)

theorem isRel_holdsS {pc : Pc} (h : isRel pc = true) : holdsS pc = true := by
  cases pc <;> simp [isRel] at h <;> rfl

theorem pend_of_not_isRel {pc : Pc} (h : isRel pc = false) : pend pc = 0 := by
  cases pc <;> simp [isRel] at h <;> rfl

/-- a step between program counters that carry no pending deactivation leaves `effActive` alone -/
theorem effActive_frame {s s' : ExSt} {i : Nat} {pc pc' : Pc} (hpc : s.pcs[i]? = some pc)
    (hpcs : s'.pcs = s.pcs.set i pc') (hA : s'.active = s.active) (h1 : isRel pc = false) (h2 : isRel pc' = false) :
    effActive s' = effActive s := by
  rw [effActive_eq, effActive_eq, hpcs, find?_set_of_false isRel _ _ _ _ hpc h1 h2, hA]

/-- when worker `i` holds `S`, `effActive` is determined by its program counter -/
theorem effActive_of_holder {s : ExSt} (hI : Inv s) {i : Nat} {pc : Pc} (hpc : s.pcs[i]? = some pc)
    (hS : holdsS pc = true) : effActive s = s.active - pend pc := by
  rw [effActive_eq]
  cases h : s.pcs.find? isRel with
  | none =>
    simp only
    have : isRel pc = false := by
      cases hr : isRel pc
      · rfl
      · have := List.find?_eq_none.1 h pc (List.mem_of_getElem? hpc); simp [hr] at this
    rw [pend_of_not_isRel this]; rfl
  | some x =>
    simp only
    have hx := List.find?_some h
    have hm := List.mem_of_find?_eq_some h
    obtain ⟨k, hk⟩ := List.getElem?_of_mem hm
    have := hI.holder_unique hpc hk hS (isRel_holdsS hx)
    subst this
    rw [hpc] at hk; injection hk with hk; rw [hk]

/-! ### `rank` -/

def emptOf (s : ExSt) (k : Nat) : Bool := (s.queues[k]?.getD []).isEmpty
def heldOf (s : ExSt) (k : Nat) : Bool := match s.qlock[k]? with | some (some h) => h != k | _ => false

/-- `rank` as a function of the flags it reads -/
def rankC (empt heldByOther will : Bool) (m n : Nat) (pc : Pc) : Nat :=
  let huge := 9 * (n + 1) + 60
  match pc with
  | .top => (if empt then 14 else if heldByOther then 12 else 5) + (if will then huge else 0)
  | .popped none => 13 + (if will then huge else 0)
  | .popped (some _) => 4 + (if will then huge else 0)
  | .solving _ => 3
  | .wantState => 11 + (if will then huge else 0)
  | .haveState => 10 + (if will then huge else 0)
  | .wantLocal => 9 + (if will then huge else 0)
  | .exiting => 9
  | .haveLocal => 8 + (if will then huge else 0)
  | .cont1 => 7
  | .cont2 => 6
  | .collect j => 8 * (m - j) + 25 + n
  | .bal => 24 + n
  | .release j _ => 17 + (n - j)
  | .dec _ => 16
  | .unlockState => 15
  | .done => 0

theorem rank_eq (s : ExSt) (n k : Nat) (pc : Pc) :
    rank s n k pc = rankC (emptOf s k) (heldOf s k) (decide (k < effActive s) && emptOf s k)
      (others k s.active).length n pc := by
  cases pc with
  | popped item => cases item <;> rfl
  | _ => rfl

theorem rankC_held (e h w : Bool) (m n : Nat) (pc : Pc) :
    rankC e false w m n pc ≤ rankC e h w m n pc ∧ rankC e h w m n pc ≤ rankC e false w m n pc + 7 := by
  cases pc with
  | popped item => cases item <;> simp [rankC]
  | top => cases e <;> cases h <;> cases w <;> simp [rankC] <;> omega
  | _ => simp [rankC]

theorem rankC_m {e h w : Bool} {m m' n : Nat} {pc : Pc} (hS : holdsS pc = false) :
    rankC e h w m n pc = rankC e h w m' n pc := by
  cases pc with
  | popped item => cases item <;> rfl
  | collect j => simp [holdsS] at hS
  | _ => rfl


theorem heldOf_congr {s s' : ExSt} {k : Nat} (h : s'.qlock[k]? = s.qlock[k]?) : heldOf s' k = heldOf s k := by
  unfold heldOf; rw [h]

theorem heldOf_unlocked {s' : ExSt} {k : Nat} (h : s'.qlock[k]? = some none) : heldOf s' k = false := by
  unfold heldOf; rw [h]

theorem emptOf_congr {s s' : ExSt} {k : Nat} (h : s'.queues[k]? = s.queues[k]?) : emptOf s' k = emptOf s k := by
  unfold emptOf; rw [h]

/-- the rank of a worker `k` other than the one that moves: unchanged flags give an unchanged rank, except that a
    lock newly held by another worker costs at most 7 and a released lock costs nothing -/
theorem rank_other {s s' : ExSt} (hI : Inv s) {i k n : Nat} {pc pck : Pc} (hpc : s.pcs[i]? = some pc)
    (hk : s.pcs[k]? = some pck) (hki : k ≠ i)
    (hQ : s'.queues[k]? = s.queues[k]?) (hE : effActive s' = effActive s)
    (hA : holdsS pc = false → s'.active = s.active) :
    rank s' n k pck ≤ rank s n k pck + 7 ∧
    ((s'.qlock[k]? = s.qlock[k]? ∨ s'.qlock[k]? = some none) → rank s' n k pck ≤ rank s n k pck) := by
  rw [rank_eq, rank_eq, emptOf_congr hQ, hE]
  have hm : rankC (emptOf s k) (heldOf s' k) (decide (k < effActive s) && emptOf s k) (others k s'.active).length n pck
      = rankC (emptOf s k) (heldOf s' k) (decide (k < effActive s) && emptOf s k) (others k s.active).length n pck := by
    cases h2 : holdsS pc
    · rw [hA h2]
    · have : holdsS pck = false := by
        cases h3 : holdsS pck
        · rfl
        · exact absurd (hI.holder_unique hpc hk h2 h3) hki
      exact rankC_m this
  rw [hm]
  have h1 := rankC_held (emptOf s k) (heldOf s' k) (decide (k < effActive s) && emptOf s k) (others k s.active).length n pck
  have h2 := rankC_held (emptOf s k) (heldOf s k) (decide (k < effActive s) && emptOf s k) (others k s.active).length n pck
  refine ⟨by omega, ?_⟩
  intro h
  rcases h with h | h
  · rw [heldOf_congr h]; omega
  · rw [heldOf_unlocked h]; omega

/-! ### the components of the measure -/

def m1 (s : ExSt) : Nat := s.queues.flatten.length + (inHand s).length
def m2 (s : ExSt) : Nat := s.queues.flatten.length
def m3 (s : ExSt) : Nat :=
  ((List.range s.pcs.length).filter (fun i => decide (i < effActive s) && (s.queues[i]?.getD []).isEmpty)).length
def m4 (s : ExSt) : Nat :=
  ((List.range s.pcs.length).map (fun i => rank s s.pcs.length i (s.pcs[i]?.getD .done))).sum

theorem measure_eq (s : ExSt) : measure s = (m1 s, m2 s, m3 s, m4 s) := rfl

theorem mlt_of_m1 {s s' : ExSt} (h : m1 s' < m1 s) : mlt (measure s') (measure s) := by
  rw [measure_eq, measure_eq]; exact Or.inl h

theorem mlt_of_m2 {s s' : ExSt} (h1 : m1 s' = m1 s) (h : m2 s' < m2 s) : mlt (measure s') (measure s) := by
  rw [measure_eq, measure_eq]; exact Or.inr ⟨h1, Or.inl h⟩

theorem mlt_of_m3 {s s' : ExSt} (h1 : m1 s' = m1 s) (h2 : m2 s' = m2 s) (h : m3 s' < m3 s) :
    mlt (measure s') (measure s) := by
  rw [measure_eq, measure_eq]; exact Or.inr ⟨h1, Or.inr ⟨h2, Or.inl h⟩⟩

theorem mlt_of_m4 {s s' : ExSt} (h1 : m1 s' = m1 s) (h2 : m2 s' = m2 s) (h3 : m3 s' = m3 s) (h : m4 s' < m4 s) :
    mlt (measure s') (measure s) := by
  rw [measure_eq, measure_eq]; exact Or.inr ⟨h1, Or.inr ⟨h2, Or.inr ⟨h3, h⟩⟩⟩

/-- program counters at which the worker has an item in hand -/
def isHand : Pc → Bool
  | .popped (some _) => true
  | .solving _ => true
  | _ => false

theorem inHand_set {s s' : ExSt} {i : Nat} {pc pc' : Pc} (hpc : s.pcs[i]? = some pc) (hpcs : s'.pcs = s.pcs.set i pc') :
    (inHand s').length + (if isHand pc then 1 else 0) = (inHand s).length + (if isHand pc' then 1 else 0) := by
  have key : ∀ f : Pc → Option Nat, (∀ x, (f x).isSome = isHand x) →
      ((s.pcs.set i pc').filterMap f).length + (if isHand pc then 1 else 0)
        = (s.pcs.filterMap f).length + (if isHand pc' then 1 else 0) := by
    intro f hf
    have := filterMap_set_length f s.pcs i pc pc' hpc
    rw [hf, hf] at this; exact this
  unfold inHand
  rw [hpcs]
  exact key _ (fun x => by
    cases x with
    | popped item => cases item <;> rfl
    | _ => rfl)

theorem set_eq_self {α : Type} (l : List α) (i : Nat) (x : α) (h : l[i]? = some x) : l.set i x = l := by
  induction l generalizing i with
  | nil => rfl
  | cons a l ih =>
    cases i with
    | zero => simp at h; subst h; rfl
    | succ i => simp at h; simp [ih i h]

/-- Σ ranks drops when the moving worker's rank drops by `a` and at most one other worker's rises by `b < a` -/
theorem m4_lt {s s' : ExSt} {i : Nat} {pc pc' : Pc} (hpc : s.pcs[i]? = some pc)
    (hpcs : s'.pcs = s.pcs.set i pc') (t a b : Nat) (hab : b < a) (hti : t ≠ i)
    (hi : rank s' s.pcs.length i pc' + a ≤ rank s s.pcs.length i pc)
    (hk : ∀ k pck, k ≠ i → s.pcs[k]? = some pck →
      rank s' s.pcs.length k pck ≤ rank s s.pcs.length k pck + (if k = t then b else 0)) : m4 s' < m4 s := by
  have hin := lt_of_getElem?_eq_some hpc
  unfold m4
  rw [hpcs, List.length_set]
  refine sum_range_lt (i := i) (t := t) hin hab ?_
  intro k hkn
  by_cases hki : k = i
  · subst hki
    rw [List.getElem?_set_self hin, hpc, if_pos rfl, if_neg (Ne.symm hti)]
    simpa using hi
  · rw [List.getElem?_set_ne (Ne.symm hki), if_neg hki, List.getElem?_eq_getElem hkn]
    simpa using hk k _ hki (List.getElem?_eq_getElem hkn)

/-- the common case: queues, `effActive` and the items in hand are unchanged, the moving worker's rank drops and
    no other worker's rank rises -/
theorem dec_simple {s s' : ExSt} {i : Nat} {pc pc' : Pc} (hI : Inv s) (hpc : s.pcs[i]? = some pc)
    (hpcs : s'.pcs = s.pcs.set i pc') (hQ : s'.queues = s.queues) (hE : effActive s' = effActive s)
    (hH : isHand pc = isHand pc')
    (hA : holdsS pc = false → s'.active = s.active)
    (hLk : ∀ k, k ≠ i → s'.qlock[k]? = s.qlock[k]? ∨ s'.qlock[k]? = some none)
    (hi : rank s' s.pcs.length i pc' + 1 ≤ rank s s.pcs.length i pc) : mlt (measure s') (measure s) := by
  have hh := inHand_set hpc hpcs
  rw [hH] at hh
  refine mlt_of_m4 ?_ ?_ ?_ ?_
  · unfold m1; rw [hQ]; omega
  · unfold m2; rw [hQ]
  · unfold m3; rw [hQ, hE, hpcs, List.length_set]
  · refine m4_lt hpc hpcs (i + 1) 1 0 (by omega) (by omega) hi ?_
    intro k pck hki hk
    have := (rank_other (n := s.pcs.length) hI hpc hk hki (by rw [hQ]) hE hA).2 (hLk k hki)
    omega

theorem rank_self {s s' : ExSt} {i n : Nat} (hE : effActive s' = effActive s) (pc' : Pc) (hQ : s'.queues = s.queues) :
    rank s' n i pc' = rankC (emptOf s i) (heldOf s' i) (decide (i < effActive s) && emptOf s i)
      (others i s'.active).length n pc' := by
  rw [rank_eq, emptOf_congr (s' := s') (s := s) (k := i) (by rw [hQ]), hE]

theorem qlock_set_none_cases (L : List (Option Nat)) (t0 k : Nat) :
    (L.set t0 none)[k]? = L[k]? ∨ (L.set t0 none)[k]? = some none := by
  rw [List.getElem?_set]
  by_cases h : t0 = k
  · subst h
    by_cases h2 : t0 < L.length
    · right; simp [h2]
    · left; simp [h2]
  · left; simp [h]

end TB.Exec.Term