/-
  Helper lemmas about TB.Model.Run (state threading, operation log, writer, solver).
-/
import TB.Spec.ExportSpec
namespace TB

end TB
