/-
  Helper lemmas about TB.Model.Run (state threading, operation log, writer, solver).
-/
import TB.Spec.ExportSpec
namespace TB

/-! ### log extension -/

/-- `st'` extends the log of `st` by operations all satisfying `P` -/
def Ext (P : Op → Prop) (st st' : St) : Prop := ∃ new, st'.ops = st.ops ++ new ∧ ∀ o ∈ new, P o

theorem Ext.refl {P : Op → Prop} (st : St) : Ext P st st := ⟨[], by simp, by simp⟩

theorem Ext.trans {P : Op → Prop} {a b c : St} (h₁ : Ext P a b) (h₂ : Ext P b c) : Ext P a c := by
  obtain ⟨n₁, e₁, p₁⟩ := h₁
  obtain ⟨n₂, e₂, p₂⟩ := h₂
  refine ⟨n₁ ++ n₂, by rw [e₂, e₁, List.append_assoc], ?_⟩
  intro o ho
  rcases List.mem_append.1 ho with h | h
  · exact p₁ o h
  · exact p₂ o h

theorem Ext.mono {P Q : Op → Prop} {a b : St} (h : Ext P a b) (hpq : ∀ o, P o → Q o) : Ext Q a b := by
  obtain ⟨n, e, p⟩ := h
  exact ⟨n, e, fun o ho => hpq o (p o ho)⟩

theorem newOps_of_eq {st st' : St} {new : List Op} (h : st'.ops = st.ops ++ new) : newOps st st' = new := by
  simp [newOps, h]

theorem Ext.newOps {P : Op → Prop} {a b : St} (h : Ext P a b) : ∀ o ∈ newOps a b, P o := by
  obtain ⟨n, e, p⟩ := h
  rw [newOps_of_eq e]; exact p

theorem Ext.mem_ops {P : Op → Prop} {a b : St} (h : Ext P a b) : ∀ o ∈ b.ops, o ∈ a.ops ∨ P o := by
  obtain ⟨n, e, p⟩ := h
  intro o ho
  rw [e] at ho
  rcases List.mem_append.1 ho with h | h
  · exact Or.inl h
  · exact Or.inr (p o h)

theorem Ext.extends {P : Op → Prop} {a b : St} (h : Ext P a b) : ∃ new, b.ops = a.ops ++ new := by
  obtain ⟨n, e, _⟩ := h
  exact ⟨n, e⟩

theorem Ext.of_newOps {P : Op → Prop} {a b : St} (h : ∃ new, b.ops = a.ops ++ new)
    (hp : ∀ o ∈ TB.newOps a b, P o) : Ext P a b := by
  obtain ⟨n, e⟩ := h
  rw [newOps_of_eq e] at hp
  exact ⟨n, e, hp⟩

/-! ### `St.op` -/

theorem St.op_ops (st : St) (k : OpKind) (p : Path) (nat : Fs → Fs × Bool) :
    (st.op k p nat).1.ops = st.ops ++ [⟨k, p, (st.op k p nat).2⟩] := by
  simp only [St.op]
  split
  · rfl
  · rfl

theorem St.op_faults (st : St) (k : OpKind) (p : Path) (nat : Fs → Fs × Bool) :
    (st.op k p nat).1.faults = st.faults := by
  simp only [St.op]
  split
  · rfl
  · rfl

theorem St.op_ext {P : Op → Prop} (st : St) (k : OpKind) (p : Path) (nat : Fs → Fs × Bool)
    (h : ∀ ok, P ⟨k, p, ok⟩) : Ext P st (st.op k p nat).1 :=
  ⟨_, St.op_ops st k p nat, by simp only [List.mem_singleton]; rintro o rfl; exact h _⟩

theorem St.op_ext' {P : Op → Prop} {st st' : St} {ok : Bool} {k : OpKind} {p : Path} {nat : Fs → Fs × Bool}
    (e : st.op k p nat = (st', ok)) (h : ∀ ok, P ⟨k, p, ok⟩) : Ext P st st' := by
  have := St.op_ext st k p nat h
  rwa [e] at this

/-- kinds of operations issued when reading: open read-only, seek, read -/
def ReadOp (o : Op) : Prop := o.kind = .openr ∨ (∃ n, o.kind = .seek n) ∨ o.kind = .read

theorem St.openr_ext (st : St) (p : Path) : Ext (fun o => o.kind = .openr ∧ o.path = p) st (st.openr p).1 :=
  St.op_ext _ _ _ _ (fun _ => ⟨rfl, rfl⟩)

theorem St.readBytes_ext (st : St) (p : Path) (len off : Nat) : Ext ReadOp st (st.readBytes p len off).1 := by
  unfold St.readBytes
  rcases h1 : st.op .openr p _ with ⟨st1, ok1⟩
  have e1 : Ext ReadOp st st1 := St.op_ext' h1 (fun _ => Or.inl rfl)
  simp only []
  split
  · exact e1
  rcases h2 : st1.op (.seek off) p _ with ⟨st2, ok2⟩
  have e2 : Ext ReadOp st st2 := e1.trans (St.op_ext' h2 (fun _ => Or.inr (Or.inl ⟨_, rfl⟩)))
  simp only []
  split
  · exact e2
  split
  · exact e2
  rcases h3 : st2.op .read p _ with ⟨st3, ok3⟩
  have e3 : Ext ReadOp st st3 := e2.trans (St.op_ext' h3 (fun _ => Or.inr (Or.inr rfl)))
  simp only []
  split
  · exact e3
  split <;> exact e3

/-! ### solver: reads -/

theorem scanSingle_ext (H : Bytes → Bytes) (hash : Bytes) (seg : WSeg) (st : St) (ps : List Path) :
    Ext ReadOp st (scanSingle H hash seg st ps).1 := by
  induction ps generalizing st with
  | nil => exact Ext.refl _
  | cons p ps ih =>
    unfold scanSingle
    have e1 := St.readBytes_ext st p seg.len seg.off
    rcases h : st.readBytes p seg.len seg.off with ⟨st1, _ | bytes⟩
    · rw [h] at e1; exact e1
    · rw [h] at e1
      simp only []
      split
      · exact e1
      · exact e1.trans (ih st1)

theorem scanSingle_hash {H : Bytes → Bytes} {hash : Bytes} {seg : WSeg} {st st1 : St} {ps : List Path}
    {src : Path} {bytes : Bytes} (h : scanSingle H hash seg st ps = (st1, .ok (some (src, bytes)))) :
    H bytes = hash := by
  induction ps generalizing st with
  | nil => simp [scanSingle] at h
  | cons p ps ih =>
    unfold scanSingle at h
    rcases h' : st.readBytes p seg.len seg.off with ⟨st', _ | b⟩
    · simp [h'] at h
    · simp only [h'] at h
      split at h
      · rename_i hb
        simp only [Prod.mk.injEq, Res.ok.injEq, Option.some.injEq] at h
        obtain ⟨_, _, rfl⟩ := h
        exact eq_of_beq hb
      · exact ih h

theorem preloadSeg_ext (seg : WSeg) (st : St) (ps : List Path) (acc : List (Option Path × Bytes)) :
    Ext ReadOp st (preloadSeg seg st ps acc).1 := by
  induction ps generalizing st acc with
  | nil => exact Ext.refl _
  | cons p ps ih =>
    unfold preloadSeg
    have e1 := St.readBytes_ext st p seg.len seg.off
    rcases h : st.readBytes p seg.len seg.off with ⟨st1, _ | bytes⟩
    · rw [h] at e1; exact e1
    · rw [h] at e1
      simp only []
      split
      · exact e1.trans (ih st1 _)
      · exact e1.trans (ih st1 _)

theorem preload_ext (st : St) (segs : List WSeg) : Ext ReadOp st (preload st segs).1 := by
  induction segs generalizing st with
  | nil => exact Ext.refl _
  | cons seg rest ih =>
    unfold preload
    split
    · have := ih st
      split <;> rename_i h <;> (rw [h] at this; exact this)
    · split
      · have := ih st
        split <;> rename_i h <;> (rw [h] at this; exact this)
      · rename_i paths _
        have e1 := preloadSeg_ext seg st paths []
        split
        · rename_i st1 r h1
          rw [h1] at e1
          have := ih st1
          split <;> rename_i h <;> (rw [h] at this; exact e1.trans this)
        · rename_i h1; rw [h1] at e1; exact e1
        · rename_i h1; rw [h1] at e1; exact e1

theorem searchProduct_hash {H : Bytes → Bytes} {hash : Bytes} {cands : List (List (Option Path × Bytes))}
    {chosen res : List (Option Path × Bytes)} (h : searchProduct H hash cands chosen = some res) :
    H (res.flatMap (·.2)) = hash := by
  induction cands generalizing chosen with
  | nil =>
    simp only [searchProduct] at h
    split at h
    · rename_i hb
      cases h
      exact eq_of_beq hb
    · cases h
  | cons c rest ih =>
    simp only [searchProduct] at h
    generalize c = l at h
    induction l with
    | nil => simp [List.firstM] at h
    | cons x xs ihx =>
      simp only [List.firstM] at h
      cases hx : searchProduct H hash rest (chosen ++ [x]) with
      | some r =>
        rw [hx] at h
        simp at h
        subst h
        exact ih hx
      | none =>
        rw [hx] at h
        simp at h
        exact ihx h

/-! ### the writer -/

/-- an operation the writer issues for segment `seg`, cut from `buf` at cursor `s` -/
def SegOp (seg : WSeg) (buf : Bytes) (s : Nat) (o : Op) : Prop :=
  (o.kind = .mkdirs ∧ o.path = seg.ent.fullTarget.dropLast)
  ∨ (o.kind = .openc ∧ o.path = seg.ent.fullTarget)
  ∨ (o.kind = .setlen seg.ent.fileLength ∧ o.path = seg.ent.fullTarget)
  ∨ (o.kind = .seek seg.off ∧ o.path = seg.ent.fullTarget)
  ∨ (o.kind = .write seg.off ((buf.drop s).take seg.len) ∧ o.path = seg.ent.fullTarget ∧ s + seg.len ≤ buf.length)

/-- an operation the writer issues for the list `pairs`, the cursor starting at `start` -/
def WOp (pairs : List (WSeg × Option Path)) (buf : Bytes) (start : Nat) (o : Op) : Prop :=
  ∃ k seg, (pairs.map (·.1))[k]? = some seg ∧ seg.ent.isPad = false
    ∧ SegOp seg buf (start + segStart (pairs.map (·.1)) k) o

theorem WOp.head {seg : WSeg} {src : Option Path} {rest : List (WSeg × Option Path)} {buf : Bytes} {start : Nat}
    {o : Op} (hp : seg.ent.isPad = false) (h : SegOp seg buf start o) : WOp ((seg, src) :: rest) buf start o :=
  ⟨0, seg, by simp, hp, by simpa [segStart] using h⟩

theorem WOp.tail {seg : WSeg} {src : Option Path} {rest : List (WSeg × Option Path)} {buf : Bytes} {start : Nat}
    {o : Op} (h : WOp rest buf (start + seg.len) o) : WOp ((seg, src) :: rest) buf start o := by
  obtain ⟨k, sg, hk, hp, hs⟩ := h
  refine ⟨k + 1, sg, by simpa using hk, hp, ?_⟩
  have : start + segStart (List.map (·.1) ((seg, src) :: rest)) (k + 1)
      = start + seg.len + segStart (List.map (·.1) rest) k := by
    simp [segStart]; omega
  rw [this]; exact hs

theorem writeSegs_ext (st : St) (pairs : List (WSeg × Option Path)) (buf : Bytes) (start : Nat) :
    Ext (WOp pairs buf start) st (writeSegs st pairs buf start).1 := by
  induction pairs generalizing st start with
  | nil => exact Ext.refl _
  | cons pr rest ih =>
    obtain ⟨seg, src⟩ := pr
    have tl : ∀ st', Ext (WOp ((seg, src) :: rest) buf start) st' (writeSegs st' rest buf (start + seg.len)).1 :=
      fun st' => (ih st' (start + seg.len)).mono (fun o h => WOp.tail h)
    unfold writeSegs
    simp only []
    split
    · exact tl st
    rename_i hpad
    have hpad : seg.ent.isPad = false := by simpa using hpad
    split
    · exact tl st
    rcases h1 : st.op .mkdirs seg.ent.fullTarget.dropLast _ with ⟨st1, ok1⟩
    have e1 : Ext (WOp ((seg, src) :: rest) buf start) st st1 :=
      St.op_ext' h1 (fun _ => WOp.head hpad (Or.inl ⟨rfl, rfl⟩))
    simp only []
    split
    · exact e1
    rcases h2 : st1.op .openc seg.ent.fullTarget _ with ⟨st2, ok2⟩
    have e2 : Ext (WOp ((seg, src) :: rest) buf start) st st2 :=
      e1.trans (St.op_ext' h2 (fun _ => WOp.head hpad (Or.inr (Or.inl ⟨rfl, rfl⟩))))
    simp only []
    split
    · exact e2
    split
    · rename_i i _
      rcases h3 : st2.op (.setlen seg.ent.fileLength) seg.ent.fullTarget _ with ⟨st3, ok3⟩
      have e3 : Ext (WOp ((seg, src) :: rest) buf start) st st3 :=
        e2.trans (St.op_ext' h3 (fun _ => WOp.head hpad (Or.inr (Or.inr (Or.inl ⟨rfl, rfl⟩)))))
      simp only []
      split
      · exact e3
      rcases h4 : st3.op (.seek seg.off) seg.ent.fullTarget _ with ⟨st4, ok4⟩
      have e4 : Ext (WOp ((seg, src) :: rest) buf start) st st4 :=
        e3.trans (St.op_ext' h4 (fun _ => WOp.head hpad (Or.inr (Or.inr (Or.inr (Or.inl ⟨rfl, rfl⟩))))))
      simp only []
      split
      · exact e4
      split
      · exact e4
      rename_i hlen
      rcases h5 : st4.op (.write seg.off ((buf.drop start).take seg.len)) seg.ent.fullTarget _ with ⟨st5, ok5⟩
      have e5 : Ext (WOp ((seg, src) :: rest) buf start) st st5 :=
        e4.trans (St.op_ext' h5 (fun _ => WOp.head hpad
          (Or.inr (Or.inr (Or.inr (Or.inr ⟨rfl, rfl, by omega⟩))))))
      simp only []
      split
      · exact e5
      · exact e5.trans (tl st5)
    · exact e2

/-! ### one piece -/

theorem zip_fst_prefix {α β : Type} (a : List α) (b : List β) : ∃ r, a = (List.zip a b).map (·.1) ++ r := by
  induction a generalizing b with
  | nil => exact ⟨[], by simp⟩
  | cons x xs ih =>
    cases b with
    | nil => exact ⟨x :: xs, by simp⟩
    | cons y ys =>
      obtain ⟨r, hr⟩ := ih ys
      exact ⟨r, by simp only [List.zip_cons_cons, List.map_cons, List.cons_append, ← hr]⟩

theorem prefix_getElem?_segStart {l r : List WSeg} {k : Nat} {x : WSeg} (h : l[k]? = some x) :
    (l ++ r)[k]? = some x ∧ segStart (l ++ r) k = segStart l k := by
  obtain ⟨hk, _⟩ := List.getElem?_eq_some_iff.1 h
  refine ⟨by rw [List.getElem?_append_left hk]; exact h, ?_⟩
  simp only [segStart]
  rw [List.take_append_of_le_length (by omega)]

/-- an operation of the evaluation of piece `w`: a read, or a writer operation for one of its non-padding
    segments with a buffer that hashes to the piece hash -/
def PieceOp (H : Bytes → Bytes) (w : Work) (o : Op) : Prop :=
  ReadOp o ∨ ∃ buf, H buf = w.hash ∧ ∃ k seg, w.segs[k]? = some seg ∧ seg.ent.isPad = false
    ∧ SegOp seg buf (segStart w.segs k) o

theorem solvePiece_ext (H : Bytes → Bytes) (st : St) (w : Work) : Ext (PieceOp H w) st (solvePiece H st w).1 := by
  unfold solvePiece
  simp only []
  split
  · exact Ext.refl _
  split
  · rename_i seg hsegs
    split
    · split <;> exact Ext.refl _
    · split
      · exact Ext.refl _
      · rename_i paths _
        have e1 : Ext (PieceOp H w) st (scanSingle H w.hash seg st paths).1 :=
          (scanSingle_ext H w.hash seg st paths).mono (fun o h => Or.inl h)
        split
        · rename_i st1 src bytes hscan
          rw [hscan] at e1
          refine e1.trans ((writeSegs_ext st1 [(seg, some src)] bytes 0).mono ?_)
          rintro o ⟨k, sg, hk, hp, hs⟩
          refine Or.inr ⟨bytes, scanSingle_hash hscan, k, sg, by rw [hsegs]; simpa using hk, hp, ?_⟩
          rw [hsegs]; simpa using hs
        · rename_i h; rw [h] at e1; exact e1
        · rename_i h; rw [h] at e1; exact e1
        · rename_i h; rw [h] at e1; exact e1
  · have e1 : Ext (PieceOp H w) st (preload st w.segs).1 :=
      (preload_ext st w.segs).mono (fun o h => Or.inl h)
    split
    · rename_i st1 loaded hpre
      rw [hpre] at e1
      split
      · rename_i chosen hsearch
        refine e1.trans ((writeSegs_ext st1 _ _ 0).mono ?_)
        rintro o ⟨k, sg, hk, hp, hs⟩
        obtain ⟨r, hr⟩ := zip_fst_prefix w.segs (chosen.map (·.1))
        obtain ⟨h1, h2⟩ := prefix_getElem?_segStart (r := r) hk
        rw [← hr] at h1 h2
        refine Or.inr ⟨_, searchProduct_hash hsearch, k, sg, h1, hp, ?_⟩
        rw [h2]; simpa using hs
      · exact e1
    · rename_i h; rw [h] at e1; exact e1
    · rename_i h; rw [h] at e1; exact e1

theorem ReadOp.not_mutating {o : Op} (h : ReadOp o) : o.kind.mutating = false := by
  rcases h with h | ⟨n, h⟩ | h <;> rw [h] <;> rfl

theorem ReadOp.not_write {o : Op} (h : ReadOp o) (off : Nat) (data : Bytes) : o.kind ≠ .write off data := by
  rcases h with h | ⟨n, h⟩ | h <;> rw [h] <;> simp

theorem SegOp.write {seg : WSeg} {buf : Bytes} {s : Nat} {o : Op} (h : SegOp seg buf s o) {off : Nat}
    {data : Bytes} (hk : o.kind = .write off data) :
    o.path = seg.ent.fullTarget ∧ off = seg.off ∧ data = (buf.drop s).take seg.len ∧ s + seg.len ≤ buf.length := by
  rcases h with ⟨h, _⟩ | ⟨h, _⟩ | ⟨h, _⟩ | ⟨h, _⟩ | ⟨h, hp, hl⟩
  · rw [h] at hk; cases hk
  · rw [h] at hk; cases hk
  · rw [h] at hk; cases hk
  · rw [h] at hk; cases hk
  · rw [h] at hk; cases hk; exact ⟨hp, rfl, rfl, hl⟩

theorem SegOp.confined {seg : WSeg} {buf : Bytes} {s : Nat} {o : Op} (h : SegOp seg buf s o) :
    (if o.kind = .mkdirs then o.path = seg.ent.fullTarget.dropLast else o.path = seg.ent.fullTarget) ∧
      (∀ n, o.kind = .setlen n → n = seg.ent.fileLength) := by
  rcases h with ⟨h, hp⟩ | ⟨h, hp⟩ | ⟨h, hp⟩ | ⟨h, hp⟩ | ⟨h, hp, _⟩ <;> rw [h] <;> simp [hp]

theorem PieceOp.writeSound {H : Bytes → Bytes} {w : Work} {o : Op} (h : PieceOp H w o) : WriteSound H w o := by
  intro off data hk
  rcases h with h | ⟨buf, hb, k, seg, hseg, hp, hs⟩
  · exact absurd hk (h.not_write off data)
  · obtain ⟨h1, h2, h3, h4⟩ := hs.write hk
    exact ⟨k, seg, buf, hseg, hp, h1, h2, hb, h4, h3⟩

theorem PieceOp.gate {H : Bytes → Bytes} {w : Work} {o : Op} (h : PieceOp H w o) (hm : o.kind.mutating = true) :
    ∃ buf, H buf = w.hash := by
  rcases h with h | ⟨buf, hb, _⟩
  · rw [h.not_mutating] at hm; cases hm
  · exact ⟨buf, hb⟩

theorem PieceOp.confined {H : Bytes → Bytes} {w : Work} {o : Op} (h : PieceOp H w o) : MutationConfined w o := by
  intro hm
  rcases h with h | ⟨buf, hb, k, seg, hseg, hp, hs⟩
  · rw [h.not_mutating] at hm; cases hm
  · exact ⟨seg, List.mem_of_getElem? hseg, hp, hs.confined⟩

end TB
