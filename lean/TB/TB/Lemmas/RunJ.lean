/-
  Helper lemmas (RunJ): byte-level end-state invariant.
-/
import TB.Spec.ExportSpec
namespace TB.RunJ

end TB.RunJ
