/-
  Helper lemmas (RunJ): byte-level end-state invariant (C01_bytes).

  `Good`, `NoAl`, `BOk` have the same bodies as `GoodByte`, `NoAlias`, `BytesOk` of `TB.Props.C01bytes` (which
  imports this file). The invariant `Inv` is carried along the replay of the operation log; every fact about an
  operation is the membership fact `OpFact`, taken from `run_inv`.
-/
import TB.Spec.ExportSpec
import TB.Lemmas.RunF
import TB.Lemmas.RunARun
import TB.Props.C04a
import TB.Props.C11
namespace TB.RunJ
open TB

/-! ### the vocabulary of `TB.Props.C01bytes` -/

def Good (H : Bytes → Bytes) (work : List Work) (p : Path) (k : Nat) (x : UInt8) : Prop :=
  ∃ w ∈ work, ∃ (j : Nat) (seg : WSeg) (buf : Bytes),
    w.segs[j]? = some seg ∧ seg.ent.isPad = false ∧ seg.ent.fullTarget = p ∧
    seg.off ≤ k ∧ k < seg.off + seg.len ∧ H buf = w.hash ∧
    buf[segStart w.segs j + (k - seg.off)]? = some x

def NoAl (fs : Fs) (table : List TEntry) : Prop :=
  ∀ e ∈ table, e.isPad = false → ∀ q i, fs.inoOf e.fullTarget = some i → fs.inoOf q = some i → q = e.fullTarget

def BOk (H : Bytes → Bytes) (work : List Work) (fs0 fs : Fs) : Prop :=
  ∀ p i, fs.inoOf p = some i → ∀ k x, (fs.content i)[k]? = some x →
    (∃ i0, fs0.inoOf p = some i0 ∧ (fs0.content i0)[k]? = some x)
    ∨ (x = 0 ∧ ∀ i0, fs0.inoOf p = some i0 → (fs0.content i0).length ≤ k)
    ∨ Good H work p k x

/-- table entries naming the same export image declare the same length -/
def SameLen (table : List TEntry) : Prop :=
  ∀ e ∈ table, ∀ f ∈ table, e.isPad = false → f.isPad = false → e.fullTarget = f.fullTarget →
    e.fileLength = f.fileLength

/-! ### the invariant -/

/-- what holds of the tree `fs` replayed from a prefix of the log of a run started on `fs0`:
    inodes are below `next`; the names of `fs0` keep their inodes; no export image shares its inode; an export image
    that existed at the start is at least as long as it was or has its declared length; the byte sentence -/
structure Inv (H : Bytes → Bytes) (work : List Work) (table : List TEntry) (fs0 fs : Fs) : Prop where
  lt : ∀ p i, fs.inoOf p = some i → i < fs.next
  keep : ∀ q i, fs0.inoOf q = some i → fs.inoOf q = some i
  na : NoAl fs table
  len : ∀ e ∈ table, e.isPad = false → ∀ i i0, fs.inoOf e.fullTarget = some i → fs0.inoOf e.fullTarget = some i0 →
    (fs0.content i0).length ≤ (fs.content i).length ∨ (fs.content i).length = e.fileLength
  bytes : BOk H work fs0 fs

variable {H : Bytes → Bytes} {work : List Work} {table : List TEntry} {fs0 : Fs}

theorem Inv.base (hwf : FsWF fs0) (hna : NoAl fs0 table) : Inv H work table fs0 fs0 := by
  refine ⟨fun p i h => hwf.1 p i (RunF.inoOf_mem h), fun _ _ h => h, hna, ?_, ?_⟩
  · intro e _ _ i i0 h h0
    rw [h] at h0; cases h0
    exact Or.inl (Nat.le_refl _)
  · intro p i h k x hx
    exact Or.inl ⟨i, h, hx⟩

/-- the invariant looks only at names, contents and `next` (so `create_dir_all` keeps it) -/
theorem Inv.congr {fs fs' : Fs} (hf : fs'.files = fs.files) (hd : fs'.data = fs.data) (hn : fs'.next = fs.next)
    (h : Inv H work table fs0 fs) : Inv H work table fs0 fs' := by
  have hi : ∀ p, fs'.inoOf p = fs.inoOf p := RunF.inoOf_congr hf
  have hc : ∀ i, fs'.content i = fs.content i := RunF.content_congr hd
  refine ⟨?_, ?_, ?_, ?_, ?_⟩
  · intro p i hp; rw [hn]; rw [hi] at hp; exact h.lt p i hp
  · intro q i hq; rw [hi]; exact h.keep q i hq
  · intro e he hp q i h1 h2; rw [hi] at h1 h2; exact h.na e he hp q i h1 h2
  · intro e he hp i i0 h1 h0; rw [hi] at h1; rw [hc]; exact h.len e he hp i i0 h1 h0
  · intro p i hp k x hx; rw [hi] at hp; rw [hc] at hx; exact h.bytes p i hp k x hx

/-! ### creating a file -/

theorem content_addFile_new (fs : Fs) (t : Path) : (RunF.addFile fs t).content fs.next = [] := by
  simp [RunF.addFile, Fs.content]

theorem Inv.addFile {fs : Fs} {t : Path} (h : Inv H work table fs0 fs) (hnone : fs.inoOf t = none) :
    Inv H work table fs0 (RunF.addFile fs t) := by
  have old : ∀ q j, (RunF.addFile fs t).inoOf q = some j → (q = t ∧ j = fs.next) ∨ (q ≠ t ∧ fs.inoOf q = some j) := by
    intro q j hq
    rw [RunF.inoOf_addFile] at hq
    split at hq
    · rename_i e; cases hq; exact Or.inl ⟨e.symm, rfl⟩
    · rename_i e; exact Or.inr ⟨fun e' => e e'.symm, hq⟩
  have cold : ∀ q j, fs.inoOf q = some j → (RunF.addFile fs t).content j = fs.content j :=
    fun q j hq => RunF.content_addFile fs t j (Nat.ne_of_lt (h.lt q j hq))
  refine ⟨?_, ?_, ?_, ?_, ?_⟩
  · intro p i hp
    show i < fs.next + 1
    rcases old p i hp with ⟨_, rfl⟩ | ⟨_, hp⟩
    · exact Nat.lt_succ_self _
    · exact Nat.lt_succ_of_lt (h.lt p i hp)
  · intro q i hq
    have hq' := h.keep q i hq
    rw [RunF.inoOf_addFile, if_neg]
    · exact hq'
    · intro e; subst e; rw [hnone] at hq'; cases hq'
  · intro e he hp q i h1 h2
    rcases old _ _ h1 with ⟨e1, rfl⟩ | ⟨_, h1'⟩
    · rcases old _ _ h2 with ⟨e2, _⟩ | ⟨_, h2'⟩
      · rw [e1, e2]
      · exact absurd (h.lt q _ h2') (Nat.lt_irrefl _)
    · rcases old _ _ h2 with ⟨_, rfl⟩ | ⟨_, h2'⟩
      · exact absurd (h.lt _ _ h1') (Nat.lt_irrefl _)
      · exact h.na e he hp q i h1' h2'
  · intro e he hp i i0 h1 h0
    rcases old _ _ h1 with ⟨e1, _⟩ | ⟨_, h1'⟩
    · have := h.keep _ _ h0
      rw [e1, hnone] at this; cases this
    · rw [cold _ _ h1']
      exact h.len e he hp i i0 h1' h0
  · intro p i hp k x hx
    rcases old _ _ hp with ⟨_, rfl⟩ | ⟨_, hp'⟩
    · rw [content_addFile_new] at hx; cases hx
    · rw [cold _ _ hp'] at hx
      exact h.bytes p i hp' k x hx

/-! ### rewriting the content of an export image -/

theorem Inv.setData {fs : Fs} (hsame : SameLen table) (h : Inv H work table fs0 fs)
    {e : TEntry} (he : e ∈ table) (hpad : e.isPad = false) {i : Nat} (hi : fs.inoOf e.fullTarget = some i)
    (bs : Bytes)
    (hb : ∀ k x, bs[k]? = some x → (fs.content i)[k]? = some x
        ∨ (x = 0 ∧ ∀ i0, fs0.inoOf e.fullTarget = some i0 → (fs0.content i0).length ≤ k)
        ∨ Good H work e.fullTarget k x)
    (hl : ∀ i0, fs0.inoOf e.fullTarget = some i0 →
        (fs0.content i0).length ≤ bs.length ∨ bs.length = e.fileLength) :
    Inv H work table fs0 (fs.setData i bs) := by
  refine ⟨fun p j hp => h.lt p j hp, fun q j hq => h.keep q j hq, h.na, ?_, ?_⟩
  · intro e' he' hp' j i0 h1 h0
    have h1 : fs.inoOf e'.fullTarget = some j := h1
    by_cases hj : j = i
    · subst hj
      have heq : e'.fullTarget = e.fullTarget := h.na e he hpad _ _ hi h1
      rw [RD.Fs.content_setData]
      rw [heq] at h0
      rcases hl i0 h0 with h2 | h2
      · exact Or.inl h2
      · exact Or.inr (h2.trans (hsame e he e' he' hpad hp' heq.symm))
    · rw [RB.Fs.content_setData_other _ _ _ _ hj]
      exact h.len e' he' hp' j i0 h1 h0
  · intro p j hp k x hx
    have hp : fs.inoOf p = some j := hp
    by_cases hj : j = i
    · subst hj
      have heq : p = e.fullTarget := h.na e he hpad _ _ hi hp
      subst heq
      rw [RD.Fs.content_setData] at hx
      rcases hb k x hx with h1 | h1
      · exact h.bytes _ _ hp k x h1
      · exact Or.inr h1
    · rw [RB.Fs.content_setData_other _ _ _ _ hj] at hx
      exact h.bytes p j hp k x hx

/-- `set_len` to the declared length: truncation keeps a prefix; an extension starts at the current length, which is
    then not below the original one (otherwise the file already had its declared length) -/
theorem Inv.setLen {fs : Fs} (hsame : SameLen table) (h : Inv H work table fs0 fs)
    {e : TEntry} (he : e ∈ table) (hpad : e.isPad = false) {i : Nat} (hi : fs.inoOf e.fullTarget = some i) :
    Inv H work table fs0 (fs.setLen i e.fileLength) := by
  show Inv H work table fs0 (fs.setData i (if e.fileLength ≤ (fs.content i).length
    then (fs.content i).take e.fileLength
    else fs.content i ++ List.replicate (e.fileLength - (fs.content i).length) 0))
  refine h.setData hsame he hpad hi _ ?_ ?_
  · intro k x hx
    split at hx
    · rw [List.getElem?_take] at hx
      split at hx
      · exact Or.inl hx
      · cases hx
    · rename_i hn
      rw [List.getElem?_append] at hx
      split at hx
      · exact Or.inl hx
      · rename_i hk
        rw [List.getElem?_replicate] at hx
        split at hx
        · cases hx
          refine Or.inr (Or.inl ⟨rfl, ?_⟩)
          intro i0 h0
          rcases h.len e he hpad i i0 hi h0 with h1 | h1 <;> omega
        · cases hx
  · intro i0 _
    right
    split
    · rw [List.length_take]; omega
    · rw [List.length_append, List.length_replicate]; omega

/-- the old content, zero-filled up to `off` if shorter -/
def padTo (c : Bytes) (off : Nat) : Bytes := if off ≤ c.length then c else c ++ List.replicate (off - c.length) 0

theorem writeAt_eq (fs : Fs) (i off : Nat) (d : Bytes) :
    fs.writeAt i off d
      = fs.setData i ((padTo (fs.content i) off).take off ++ d ++ (padTo (fs.content i) off).drop (off + d.length)) :=
  rfl

theorem padTo_spec (c : Bytes) (off : Nat) :
    off ≤ (padTo c off).length ∧ c.length ≤ (padTo c off).length ∧
    (off ≤ c.length → (padTo c off).length = c.length) ∧
    (∀ k x, (padTo c off)[k]? = some x → c[k]? = some x ∨ (x = 0 ∧ c.length ≤ k ∧ k < off)) := by
  unfold padTo
  split
  · rename_i h
    exact ⟨h, Nat.le_refl _, fun _ => rfl, fun k x hx => Or.inl hx⟩
  · rename_i h
    refine ⟨?_, ?_, ?_, ?_⟩
    · rw [List.length_append, List.length_replicate]; omega
    · rw [List.length_append]; omega
    · intro h'; exact absurd h' h
    · intro k x hx
      rw [List.getElem?_append] at hx
      split at hx
      · exact Or.inl hx
      · rw [List.getElem?_replicate] at hx
        split at hx
        · cases hx
          exact Or.inr ⟨rfl, by omega, by omega⟩
        · cases hx

theorem getElem?_write {α : Type} (c a : List α) (off : Nat) (hoff : off ≤ c.length) (k : Nat) :
    (c.take off ++ a ++ c.drop (off + a.length))[k]?
      = if k < off then c[k]? else if k < off + a.length then a[k - off]? else c[k]? := by
  have hl : (c.take off).length = off := by rw [List.length_take]; omega
  rw [List.getElem?_append, List.length_append, hl]
  by_cases h1 : k < off
  · rw [if_pos (by omega), if_pos h1, List.getElem?_append, hl, if_pos h1, List.getElem?_take, if_pos h1]
  · rw [if_neg h1]
    by_cases h2 : k < off + a.length
    · rw [if_pos h2, if_pos h2, List.getElem?_append, hl, if_neg h1]
    · rw [if_neg h2, if_neg h2, List.getElem?_drop]
      congr 1
      omega

/-- a sound write: inside the segment the bytes are good; a zero-filled gap lies beyond the original length
    (otherwise the file already had its declared length, which contains the segment); the rest is unchanged -/
theorem Inv.writeAt {fs : Fs} (hsame : SameLen table) (hrange : ∀ w ∈ work, SegsInRange w)
    (h : Inv H work table fs0 fs)
    {w : Work} (hw : w ∈ work) {j : Nat} {seg : WSeg} {buf : Bytes} (hseg : w.segs[j]? = some seg)
    (hpad : seg.ent.isPad = false) (hent : seg.ent ∈ table) {i : Nat} (hi : fs.inoOf seg.ent.fullTarget = some i)
    (hH : H buf = w.hash) (hlen : segStart w.segs j + seg.len ≤ buf.length) :
    Inv H work table fs0 (fs.writeAt i seg.off ((buf.drop (segStart w.segs j)).take seg.len)) := by
  have hr : seg.off + seg.len ≤ seg.ent.fileLength := hrange w hw seg (List.mem_of_getElem? hseg)
  have hdl : ((buf.drop (segStart w.segs j)).take seg.len).length = seg.len := by
    rw [List.length_take, List.length_drop]; omega
  obtain ⟨p1, p2, p3, p4⟩ := padTo_spec (fs.content i) seg.off
  rw [writeAt_eq]
  refine h.setData hsame hent hpad hi _ ?_ ?_
  · intro k x hx
    rw [getElem?_write _ _ _ p1, hdl] at hx
    have outside : (padTo (fs.content i) seg.off)[k]? = some x → (k < seg.off ∨ seg.off + seg.len ≤ k) →
        (fs.content i)[k]? = some x
          ∨ (x = 0 ∧ ∀ i0, fs0.inoOf seg.ent.fullTarget = some i0 → (fs0.content i0).length ≤ k)
          ∨ Good H work seg.ent.fullTarget k x := by
      intro hx hk
      rcases p4 k x hx with h1 | ⟨h1, h2, h3⟩
      · exact Or.inl h1
      · refine Or.inr (Or.inl ⟨h1, ?_⟩)
        intro i0 h0
        rcases h.len _ hent hpad i i0 hi h0 with h4 | h4 <;> omega
    split at hx
    · rename_i hk
      exact outside hx (Or.inl hk)
    · rename_i hk1
      split at hx
      · rename_i hk2
        rw [List.getElem?_take, if_pos (by omega), List.getElem?_drop] at hx
        exact Or.inr (Or.inr ⟨w, hw, j, seg, buf, hseg, hpad, rfl, by omega, hk2, hH, hx⟩)
      · rename_i hk2
        exact outside hx (Or.inr (by omega))
  · intro i0 h0
    have hbl : ((padTo (fs.content i) seg.off).take seg.off ++ (buf.drop (segStart w.segs j)).take seg.len
        ++ (padTo (fs.content i) seg.off).drop (seg.off + ((buf.drop (segStart w.segs j)).take seg.len).length)).length
        = seg.off + seg.len + ((padTo (fs.content i) seg.off).length - (seg.off + seg.len)) := by
      rw [List.length_append, List.length_append, List.length_take, List.length_drop, hdl]
      omega
    rw [hbl]
    rcases h.len _ hent hpad i i0 hi h0 with h4 | h4
    · left; omega
    · right
      have := p3 (by omega)
      omega

/-! ### one logged operation -/

/-- what is known of an operation of the log: `set_len` names an export image and its declared length, a write is
    the write of a segment of a work item (whose entry is in the table) cut from a buffer with the piece's hash -/
def OpFact (H : Bytes → Bytes) (work : List Work) (table : List TEntry) (o : Op) : Prop :=
  (∀ n, o.kind = .setlen n → ∃ e ∈ table, e.isPad = false ∧ o.path = e.fullTarget ∧ n = e.fileLength) ∧
  (∀ off data, o.kind = .write off data → ∃ w ∈ work, ∃ k seg buf, w.segs[k]? = some seg ∧
    seg.ent.isPad = false ∧ seg.ent ∈ table ∧ o.path = seg.ent.fullTarget ∧ off = seg.off ∧ H buf = w.hash ∧
    segStart w.segs k + seg.len ≤ buf.length ∧ data = (buf.drop (segStart w.segs k)).take seg.len)

theorem Inv.step {fs : Fs} (hsame : SameLen table) (hrange : ∀ w ∈ work, SegsInRange w)
    (h : Inv H work table fs0 fs) (o : Op) (hf : OpFact H work table o) :
    Inv H work table fs0 (applyOp fs o) := by
  unfold applyOp
  cases hk : o.kind with
  | mkdirs =>
    simp only []
    split
    · obtain ⟨h1, h2, h3, _⟩ := RunF.mkdirs_spec fs o.path
      exact h.congr h1 h2 h3
    · exact h
  | openc =>
    simp only []
    split
    · rcases RunF.openCreate_cases fs o.path with e | ⟨hl, e⟩
      · rw [e]; exact h
      · rw [e]; exact h.addFile (RunF.look_notFound hl).2
    · exact h
  | setlen n =>
    simp only []
    split
    · cases hl : fs.look o.path with
      | file i =>
        simp only []
        obtain ⟨e, he, hpad, hp, hn⟩ := hf.1 n hk
        subst hn
        have hi := RunF.look_file_inoOf hl
        rw [hp] at hi
        exact h.setLen hsame he hpad hi
      | _ => exact h
    · exact h
  | write off d =>
    simp only []
    split
    · cases hl : fs.look o.path with
      | file i =>
        simp only []
        obtain ⟨w, hw, k, seg, buf, hseg, hpad, hent, hp, hoff, hH, hlen, hd⟩ := hf.2 off d hk
        subst hoff; subst hd
        have hi := RunF.look_file_inoOf hl
        rw [hp] at hi
        exact h.writeAt hsame hrange hw hseg hpad hent hi hH hlen
      | _ => exact h
    · exact h
  | _ => exact h

theorem Inv.replay (hsame : SameLen table) (hrange : ∀ w ∈ work, SegsInRange w) (ops : List Op) :
    ∀ fs, (∀ o ∈ ops, OpFact H work table o) → Inv H work table fs0 fs → Inv H work table fs0 (replay fs ops) := by
  induction ops with
  | nil => intro fs _ h; exact h
  | cons o ops ih =>
    intro fs hall h
    show Inv H work table fs0 (TB.replay (applyOp fs o) ops)
    exact ih _ (fun o' ho' => hall o' (List.mem_cons_of_mem _ ho'))
      (h.step hsame hrange o (hall o List.mem_cons_self))

/-! ### the operations of a run -/

theorem run_opFact (H : Bytes → Bytes) (inp : RunIn) :
    ∀ o ∈ (run H inp).ops, OpFact H (run H inp).work (run H inp).table o := by
  intro o ho
  rcases (run_inv H inp).2 o ho with (h | h | ⟨e, he, hp, hkind, hpath⟩) | ⟨w, hw, h, hent⟩
  · exact ⟨fun n hk => (by rw [h] at hk; cases hk), fun off d hk => (by rw [h] at hk; cases hk)⟩
  · exact ⟨fun n hk => (by rw [h] at hk; cases hk), fun off d hk => (by rw [h] at hk; cases hk)⟩
  · refine ⟨fun n hk => ?_, fun off d hk => ?_⟩
    · rcases hkind with h | h
      · rw [h] at hk; cases hk
      · rw [h] at hk; cases hk
        exact ⟨e, he, hp, hpath, rfl⟩
    · rcases hkind with h | h <;> (rw [h] at hk; cases hk)
  · rcases h with h | ⟨buf, hb, k, seg, hseg, hp, hs⟩
    · refine ⟨fun n hk => ?_, fun off d hk => ?_⟩
      · rcases h with h | ⟨m, h⟩ | h <;> (rw [h] at hk; cases hk)
      · rcases h with h | ⟨m, h⟩ | h <;> (rw [h] at hk; cases hk)
    · have hmem := List.mem_of_getElem? hseg
      refine ⟨fun n hk => ?_, fun off d hk => ?_⟩
      · exact ⟨seg.ent, hent seg hmem, hp, by have := hs.confined.1; rw [hk] at this; simpa using this,
          hs.confined.2 n hk⟩
      · obtain ⟨h1, h2, h3, h4⟩ := hs.write hk
        exact ⟨w, hw, k, seg, buf, hseg, hp, hent seg hmem, h1, h2, hb, h4, h3⟩

/-- the invariant holds of the tree replayed from any part of the log that consists of operations of the run -/
theorem inv_replay (H : Bytes → Bytes) (inp : RunIn) (hwf : FsWF inp.fs)
    (hna : NoAl inp.fs (run H inp).table) (hsame : SameLen (run H inp).table)
    (hrange : ∀ w ∈ (run H inp).work, SegsInRange w) (ops : List Op) (hops : ∀ o ∈ ops, o ∈ (run H inp).ops) :
    Inv H (run H inp).work (run H inp).table inp.fs (replay inp.fs ops) :=
  Inv.replay hsame hrange ops inp.fs (fun o ho => run_opFact H inp o (hops o ho)) (Inv.base hwf hna)

end TB.RunJ
