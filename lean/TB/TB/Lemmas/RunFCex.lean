/-
  RunFCex: the two worlds that refute the first formulation of `C04a_found_verifies` (TB.Props.C04a), kept as
  checked examples. They explain the fourth clause of `FsWF` and the hypothesis `hzero`. `H` is the identity.
-/
import TB.Spec.ExportSpec
namespace TB.RunF.Cex
open TB

/-! ### (1) a bound file name whose parent is not a directory

`a/b` is bound (inode 0) but `a` is not a directory. Segment A (image `a/b`) is matched from its own image and
skipped; segment B (image `a`) is written from `c`: `openCreate a` succeeds (`look a = notFound`, the parent `[]`
is a directory) and creates a regular file at `a`. Afterwards `look (a/b) = notDir`, so segment A cannot be read
back. Excluded by the clause of `FsWF` that every proper prefix of a bound file name is a directory. -/

def fs1 : Fs := { files := [([[1], [2]], 0), ([[3]], 1)], dirs := [], data := [(0, [7]), (1, [8])], next := 2 }
def eA : TEntry := ⟨0, [], 0, 1, [[1], [2]], [], false, some [[[1], [2]]]⟩
def eB : TEntry := ⟨1, [], 1, 1, [[1]], [], false, some [[[3]]]⟩
def w1 : Work := ⟨[⟨1, 0, eA⟩, ⟨1, 0, eB⟩], [7, 8]⟩
def st1 : St := ⟨fs1, [], []⟩

example : (solvePiece id st1 w1).2 = .found := by decide
example : w1.segs.map (fun s => fs1.look s.ent.fullTarget) = [.file 0, .notFound] := by decide
example : w1.segs.map (segBytesIn (solvePiece id st1 w1).1.fs) = [none, some [8]] := by decide

/-! ### (2) a zero-length segment at a positive offset

Such segments exist in the model (`singleLoop` with surplus piece hashes yields `off = total`, `len = 0`).
`readBytes` with `len = 0` returns `some []` without looking at the content, `H [] = hash`, the source is the
export image itself, so nothing is written; but `segBytesIn` asks for `off + len ≤` the content length, and the
image is shorter than `off`. Excluded by `hzero` (a zero-length segment belongs to an empty file, C06), which with
`SegsInRange` gives `off = 0`. -/

def fs2 : Fs := { files := [([[1]], 0)], dirs := [], data := [(0, [])], next := 1 }
def eC : TEntry := ⟨0, [], 0, 1, [[1]], [], false, some [[[1]]]⟩
def w2 : Work := ⟨[⟨0, 1, eC⟩], []⟩
def st2 : St := ⟨fs2, [], []⟩

example : (solvePiece id st2 w2).2 = .found := by decide
example : w2.segs.map (segBytesIn (solvePiece id st2 w2).1.fs) = [none] := by decide

end TB.RunF.Cex
