/-
  Helper lemmas for C05 (termination part): every step from a state satisfying `Inv` decreases `measure`;
  one lemma `measure_dec_<pc>` per program counter.
-/
import TB.Lemmas.ExecTermMeas
namespace TB.Exec.Term
/-! ### arithmetic of `rankC` along each transition -/

theorem rc_top_popped {h h' w : Bool} {m m' n : Nat} :
    rankC true h' w m' n (.popped none) + 1 ≤ rankC true h w m n .top := by
  cases w <;> simp [rankC] <;> omega

theorem rc_top_want {e h' w : Bool} {m m' n : Nat} :
    rankC e h' w m' n .wantState + 1 ≤ rankC e true w m n .top := by
  cases w <;> cases e <;> simp [rankC] <;> omega

theorem rc_popped_none {e e' h h' w : Bool} {m m' n : Nat} :
    rankC e' h' w m' n .wantState + 1 ≤ rankC e h w m n (.popped none) := by
  cases w <;> simp [rankC] <;> omega

theorem rc_popped_some {e e' h h' w w' : Bool} {m m' n x : Nat} :
    rankC e' h' w' m' n (.solving x) + 1 ≤ rankC e h w m n (.popped (some x)) := by
  cases w <;> simp [rankC] <;> omega

theorem rc_wantState {e e' h h' w : Bool} {m m' n : Nat} :
    rankC e' h' w m' n .haveState + 1 ≤ rankC e h w m n .wantState := by
  cases w <;> simp [rankC] <;> omega

theorem rc_haveState_exit {e e' h h' w w' : Bool} {m m' n : Nat} :
    rankC e' h' w' m' n .exiting + 1 ≤ rankC e h w m n .haveState := by
  cases w <;> simp [rankC] <;> omega

theorem rc_haveState_local {e e' h h' w : Bool} {m m' n : Nat} :
    rankC e' h' w m' n .wantLocal + 1 ≤ rankC e h w m n .haveState := by
  cases w <;> simp [rankC] <;> omega

theorem rc_exiting {e e' h h' w w' : Bool} {m m' n : Nat} :
    rankC e' h' w' m' n .done + 1 ≤ rankC e h w m n .exiting := by
  simp [rankC] <;> omega

theorem rc_wantLocal {e e' h h' w : Bool} {m m' n : Nat} :
    rankC e' h' w m' n .haveLocal + 1 ≤ rankC e h w m n .wantLocal := by
  cases w <;> simp [rankC] <;> omega

theorem rc_haveLocal_cont {e e' h h' w w' : Bool} {m m' n : Nat} :
    rankC e' h' w' m' n .cont1 + 1 ≤ rankC e h w m n .haveLocal := by
  cases w <;> simp [rankC] <;> omega

theorem rc_haveLocal_collect {e e' h h' w' : Bool} {m m' n : Nat} (hm : m' ≤ n) :
    rankC e' h' w' m' n (.collect 0) + 1 ≤ rankC e h true m n .haveLocal := by
  simp [rankC] <;> omega

theorem rc_cont1 {e e' h h' w w' : Bool} {m m' n : Nat} :
    rankC e' h' w' m' n .cont2 + 1 ≤ rankC e h w m n .cont1 := by
  simp [rankC] <;> omega

theorem rc_cont2 {e h w a : Bool} {m m' n : Nat} :
    rankC false false (a && false) m' n .top + 1 ≤ rankC e h w m n .cont2 := by
  simp [rankC] <;> omega

theorem rc_collect_bal {e e' h h' w w' : Bool} {m m' n j : Nat} :
    rankC e' h' w' m' n .bal + 1 ≤ rankC e h w m n (.collect j) := by
  simp [rankC] <;> omega

theorem rc_collect_next {e e' h h' w w' : Bool} {m n j : Nat} (hj : j < m) :
    rankC e' h' w' m n (.collect (j + 1)) + 8 ≤ rankC e h w m n (.collect j) := by
  simp [rankC] <;> omega

theorem rc_release_next {e e' h h' w w' : Bool} {m m' n j d : Nat} (hj : j < n) :
    rankC e' h' w' m' n (.release (j + 1) d) + 1 ≤ rankC e h w m n (.release j d) := by
  simp [rankC] <;> omega

theorem rc_release_dec {e e' h h' w w' : Bool} {m m' n j d : Nat} :
    rankC e' h' w' m' n (.dec d) + 1 ≤ rankC e h w m n (.release j d) := by
  simp [rankC] <;> omega

theorem rc_dec {e e' h h' w w' : Bool} {m m' n d : Nat} :
    rankC e' h' w' m' n .unlockState + 1 ≤ rankC e h w m n (.dec d) := by
  simp [rankC] <;> omega

theorem rc_unlock {e e' h h' w : Bool} {m m' n : Nat} :
    rankC e' h' false m' n .top + 1 ≤ rankC e h w m n .unlockState := by
  cases e' <;> cases h' <;> simp [rankC] <;> omega

/-! ### facts read off the invariant -/

/-- at `top`, a failed `try_lock` means the own queue lock is held by another worker -/
theorem held_of_top_busy {s : ExSt} (hI : Inv s) {i : Nat} (hpc : s.pcs[i]? = some .top)
    (hbusy : ¬ (s.qlock[i]? == some none) = true) : heldOf s i = true := by
  have hin : i < s.qlock.length := by rw [hI.lenL]; exact lt_of_getElem?_eq_some hpc
  unfold heldOf
  rw [List.getElem?_eq_getElem hin] at hbusy ⊢
  cases hv : s.qlock[i] with
  | none => simp [hv] at hbusy
  | some h0 =>
    simp only
    have hq : s.qlock[i]? = some (some h0) := by rw [List.getElem?_eq_getElem hin, hv]
    obtain ⟨pch, hpch, hh⟩ := hI.qLock i h0 hq
    by_cases h : h0 = i
    · subst h; rw [hpc] at hpch; injection hpch with hpch; subst hpch; simp [holdsQ] at hh
    · simpa using h

/-- while worker `i` holds `S`, nobody else holds its queue lock -/
theorem not_held_of_holder {s : ExSt} (hI : Inv s) {i : Nat} {pc : Pc} (hpc : s.pcs[i]? = some pc)
    (hS : holdsS pc = true) : heldOf s i = false := by
  unfold heldOf
  cases hv : s.qlock[i]? with
  | none => rfl
  | some v =>
    cases v with
    | none => rfl
    | some h0 =>
      simp only
      by_cases h : h0 = i
      · simp [h]
      · obtain ⟨pch, hpch, hh⟩ := hI.qLock i h0 hv
        have := holdsS_of_holdsQ_ne hh (Ne.symm h)
        exact absurd (hI.holder_unique hpc hpch hS this) h

theorem others_length_le (i A : Nat) : (others i A).length ≤ A := by
  unfold others
  have := List.length_filter_le (· != i) (List.range A)
  simpa using this

theorem mem_others_of_getElem? {i A j t : Nat} (h : (others i A)[j]? = some t) : t < A ∧ t ≠ i :=
  mem_others.1 (List.mem_of_getElem? h)

/-- components 1–3 of the measure are unchanged -/
theorem m123_same {s s' : ExSt} {i : Nat} {pc pc' : Pc} (hpc : s.pcs[i]? = some pc)
    (hpcs : s'.pcs = s.pcs.set i pc') (hQ : s'.queues = s.queues) (hE : effActive s' = effActive s)
    (hH : isHand pc = isHand pc') : m1 s' = m1 s ∧ m2 s' = m2 s ∧ m3 s' = m3 s := by
  have hh := inHand_set hpc hpcs
  rw [hH] at hh
  refine ⟨?_, ?_, ?_⟩
  · unfold m1; rw [hQ]; omega
  · unfold m2; rw [hQ]
  · unfold m3; rw [hQ, hE, hpcs, List.length_set]


/-! ### one lemma per program counter -/

theorem measure_dec_top {bal : Bal} {s s' : ExSt} {i : Nat} (hI : Inv s) (hpc : s.pcs[i]? = some .top)
    (hs : step bal s i = some s') : mlt (measure s') (measure s) := by
  simp only [step, hpc] at hs
  have hin := lt_of_getElem?_eq_some hpc
  have hinQ : i < s.queues.length := by rw [hI.lenQ]; exact hin
  split at hs
  · injection hs with hs; subst hs
    have hqi : s.queues[i]? = some (s.queues[i]?.getD []) := by
      rw [List.getElem?_eq_getElem hinQ]; rfl
    generalize hq : s.queues[i]?.getD [] = q at *
    cases q with
    | nil =>
      -- the queue is empty: only the program counter and the own lock change
      have hQ : s.queues.set i ([] : List Nat).dropLast = s.queues := set_eq_self _ _ _ hqi
      have hpcs : (setPc (setQLock { s with queues := s.queues.set i ([] : List Nat).dropLast } i (some i)) i
          (.popped ([] : List Nat).getLast?)).pcs = s.pcs.set i (.popped none) := rfl
      have hE := effActive_frame hpc hpcs rfl rfl rfl
      refine dec_simple hI hpc hpcs hQ hE rfl (fun _ => rfl) ?_ ?_
      · intro k hk; left
        show (s.qlock.set i (some i))[k]? = s.qlock[k]?
        rw [List.getElem?_set_ne (Ne.symm hk)]
      · rw [rank_self hE _ hQ, rank_eq]
        have he : emptOf s i = true := by unfold emptOf; rw [hq]; rfl
        rw [he]; exact rc_top_popped
    | cons a q =>
      -- an item is popped: the number of queued items drops, queued + in hand does not change
      have hfl := flatten_set_length s.queues i (a :: q) (a :: q).dropLast hqi
      have hdl : ((a :: q).dropLast).length = q.length := by simp
      have hpcs : (setPc (setQLock { s with queues := s.queues.set i (a :: q).dropLast } i (some i)) i
          (.popped (a :: q).getLast?)).pcs = s.pcs.set i (.popped (a :: q).getLast?) := rfl
      have hh := inHand_set hpc hpcs
      have hhand : isHand (.popped (a :: q).getLast?) = true := by
        rw [List.getLast?_eq_some_getLast (by simp)]; rfl
      rw [hhand] at hh
      simp only [isHand, Bool.false_eq_true, if_false, if_true] at hh
      simp only [List.length_cons] at hfl
      refine mlt_of_m2 ?_ ?_
      · show (s.queues.set i (a :: q).dropLast).flatten.length + (inHand _).length = m1 s
        unfold m1; omega
      · show (s.queues.set i (a :: q).dropLast).flatten.length < m2 s
        unfold m2; omega
  · rename_i hbusy
    injection hs with hs; subst hs
    have hpcs : (setPc s i .wantState).pcs = s.pcs.set i .wantState := rfl
    have hE := effActive_frame hpc hpcs rfl rfl rfl
    refine dec_simple hI hpc hpcs rfl hE rfl (fun _ => rfl) (fun _ _ => Or.inl rfl) ?_
    rw [rank_self hE _ rfl, rank_eq, held_of_top_busy hI hpc hbusy]
    exact rc_top_want

theorem measure_dec_popped {bal : Bal} {s s' : ExSt} {i : Nat} {item : Option Nat} (hI : Inv s)
    (hpc : s.pcs[i]? = some (.popped item)) (hs : step bal s i = some s') : mlt (measure s') (measure s) := by
  simp only [step, hpc] at hs
  injection hs with hs; subst hs
  cases item with
  | none =>
    have hpcs : (setPc (setQLock s i none) i .wantState).pcs = s.pcs.set i .wantState := rfl
    have hE := effActive_frame hpc hpcs rfl rfl rfl
    refine dec_simple hI hpc hpcs rfl hE rfl (fun _ => rfl) (fun k _ => qlock_set_none_cases _ _ _) ?_
    rw [rank_self hE _ rfl, rank_eq]
    exact rc_popped_none
  | some x =>
    have hpcs : (setPc (setQLock s i none) i (.solving x)).pcs = s.pcs.set i (.solving x) := rfl
    have hE := effActive_frame hpc hpcs rfl rfl rfl
    refine dec_simple hI hpc hpcs rfl hE rfl (fun _ => rfl) (fun k _ => qlock_set_none_cases _ _ _) ?_
    rw [rank_self hE _ rfl, rank_eq]
    exact rc_popped_some

theorem measure_dec_solving {bal : Bal} {s s' : ExSt} {i x : Nat}
    (hpc : s.pcs[i]? = some (.solving x)) (hs : step bal s i = some s') : mlt (measure s') (measure s) := by
  simp only [step, hpc] at hs
  injection hs with hs; subst hs
  have hpcs : (setPc { s with solved := s.solved ++ [x] } i .top).pcs = s.pcs.set i .top := rfl
  have hh := inHand_set hpc hpcs
  simp only [isHand, Bool.false_eq_true, if_false, if_true] at hh
  refine mlt_of_m1 ?_
  show s.queues.flatten.length + (inHand _).length < m1 s
  unfold m1; omega

theorem measure_dec_wantState {bal : Bal} {s s' : ExSt} {i : Nat} (hI : Inv s)
    (hpc : s.pcs[i]? = some .wantState) (hs : step bal s i = some s') : mlt (measure s') (measure s) := by
  simp only [step, hpc] at hs
  split at hs
  · injection hs with hs; subst hs
    have hpcs : (setPc { s with stateLock := some i } i .haveState).pcs = s.pcs.set i .haveState := rfl
    have hE := effActive_frame hpc hpcs rfl rfl rfl
    refine dec_simple hI hpc hpcs rfl hE rfl (fun _ => rfl) (fun _ _ => Or.inl rfl) ?_
    rw [rank_self hE _ rfl, rank_eq]
    exact rc_wantState
  · cases hs

theorem measure_dec_haveState {bal : Bal} {s s' : ExSt} {i : Nat} (hI : Inv s)
    (hpc : s.pcs[i]? = some .haveState) (hs : step bal s i = some s') : mlt (measure s') (measure s) := by
  simp only [step, hpc] at hs
  injection hs with hs; subst hs
  by_cases hge : i ≥ s.active
  · rw [if_pos hge]
    have hpcs : (setPc s i .exiting).pcs = s.pcs.set i .exiting := rfl
    have hE := effActive_frame hpc hpcs rfl rfl rfl
    refine dec_simple hI hpc hpcs rfl hE rfl (fun _ => rfl) (fun _ _ => Or.inl rfl) ?_
    rw [rank_self hE _ rfl, rank_eq]
    exact rc_haveState_exit
  · rw [if_neg hge]
    have hpcs : (setPc s i .wantLocal).pcs = s.pcs.set i .wantLocal := rfl
    have hE := effActive_frame hpc hpcs rfl rfl rfl
    refine dec_simple hI hpc hpcs rfl hE rfl (fun _ => rfl) (fun _ _ => Or.inl rfl) ?_
    rw [rank_self hE _ rfl, rank_eq]
    exact rc_haveState_local

theorem measure_dec_exiting {bal : Bal} {s s' : ExSt} {i : Nat} (hI : Inv s)
    (hpc : s.pcs[i]? = some .exiting) (hs : step bal s i = some s') : mlt (measure s') (measure s) := by
  simp only [step, hpc] at hs
  injection hs with hs; subst hs
  have hpcs : (setPc { s with stateLock := none } i .done).pcs = s.pcs.set i .done := rfl
  have hE := effActive_frame hpc hpcs rfl rfl rfl
  refine dec_simple hI hpc hpcs rfl hE rfl (fun _ => rfl) (fun _ _ => Or.inl rfl) ?_
  rw [rank_self hE _ rfl, rank_eq]
  exact rc_exiting

theorem measure_dec_wantLocal {bal : Bal} {s s' : ExSt} {i : Nat} (hI : Inv s)
    (hpc : s.pcs[i]? = some .wantLocal) (hs : step bal s i = some s') : mlt (measure s') (measure s) := by
  simp only [step, hpc] at hs
  split at hs
  · injection hs with hs; subst hs
    have hpcs : (setPc (setQLock s i (some i)) i .haveLocal).pcs = s.pcs.set i .haveLocal := rfl
    have hE := effActive_frame hpc hpcs rfl rfl rfl
    refine dec_simple hI hpc hpcs rfl hE rfl (fun _ => rfl) ?_ ?_
    · intro k hk; left
      show (s.qlock.set i (some i))[k]? = s.qlock[k]?
      rw [List.getElem?_set_ne (Ne.symm hk)]
    · rw [rank_self hE _ rfl, rank_eq]
      exact rc_wantLocal
  · cases hs

theorem measure_dec_haveLocal {bal : Bal} {s s' : ExSt} {i : Nat} (hI : Inv s)
    (hpc : s.pcs[i]? = some .haveLocal) (hs : step bal s i = some s') : mlt (measure s') (measure s) := by
  simp only [step, hpc] at hs
  injection hs with hs; subst hs
  by_cases hlen : (s.queues[i]?.getD []).length > 0
  · rw [if_pos hlen]
    have hpcs : (setPc s i .cont1).pcs = s.pcs.set i .cont1 := rfl
    have hE := effActive_frame hpc hpcs rfl rfl rfl
    refine dec_simple hI hpc hpcs rfl hE rfl (fun _ => rfl) (fun _ _ => Or.inl rfl) ?_
    rw [rank_self hE _ rfl, rank_eq]
    exact rc_haveLocal_cont
  · rw [if_neg hlen]
    have hpcs : (setPc s i (.collect 0)).pcs = s.pcs.set i (.collect 0) := rfl
    have hE := effActive_frame hpc hpcs rfl rfl rfl
    refine dec_simple hI hpc hpcs rfl hE rfl (fun _ => rfl) (fun _ _ => Or.inl rfl) ?_
    rw [rank_self hE _ rfl, rank_eq]
    have hown : i < s.active := hI.own i _ hpc
    have hEs : effActive s = s.active := effActive_of_holder hI hpc rfl
    have he : emptOf s i = true := by
      unfold emptOf
      rw [List.eq_nil_of_length_eq_zero (by omega : (s.queues[i]?.getD []).length = 0)]; rfl
    have hw : (decide (i < effActive s) && emptOf s i) = true := by
      rw [he, hEs]; simpa using hown
    rw [hw]
    exact rc_haveLocal_collect (Nat.le_trans (others_length_le _ _) hI.actLe)

theorem measure_dec_cont1 {bal : Bal} {s s' : ExSt} {i : Nat} (hI : Inv s)
    (hpc : s.pcs[i]? = some .cont1) (hs : step bal s i = some s') : mlt (measure s') (measure s) := by
  simp only [step, hpc] at hs
  injection hs with hs; subst hs
  have hpcs : (setPc (setQLock s i none) i .cont2).pcs = s.pcs.set i .cont2 := rfl
  have hE := effActive_frame hpc hpcs rfl rfl rfl
  refine dec_simple hI hpc hpcs rfl hE rfl (fun _ => rfl) (fun k _ => qlock_set_none_cases _ _ _) ?_
  rw [rank_self hE _ rfl, rank_eq]
  exact rc_cont1

theorem measure_dec_cont2 {bal : Bal} {s s' : ExSt} {i : Nat} (hI : Inv s)
    (hpc : s.pcs[i]? = some .cont2) (hs : step bal s i = some s') : mlt (measure s') (measure s) := by
  simp only [step, hpc] at hs
  injection hs with hs; subst hs
  have hpcs : (setPc { s with stateLock := none } i .top).pcs = s.pcs.set i .top := rfl
  have hE := effActive_frame hpc hpcs rfl rfl rfl
  refine dec_simple hI hpc hpcs rfl hE rfl (fun _ => rfl) (fun _ _ => Or.inl rfl) ?_
  rw [rank_self hE _ rfl, rank_eq]
  have hown : s.queues[i]?.getD [] ≠ [] := hI.own i _ hpc
  have he : emptOf s i = false := by
    unfold emptOf
    cases hq : s.queues[i]?.getD [] with
    | nil => exact absurd hq hown
    | cons a q => rfl
  have hh : heldOf (setPc { s with stateLock := none } i .top) i = false := by
    exact (heldOf_congr (s := s) (k := i) rfl).trans (not_held_of_holder hI hpc rfl)
  rw [he, hh]
  exact rc_cont2

theorem measure_dec_collect {bal : Bal} {s s' : ExSt} {i j : Nat} (hI : Inv s)
    (hpc : s.pcs[i]? = some (.collect j)) (hs : step bal s i = some s') : mlt (measure s') (measure s) := by
  simp only [step, hpc] at hs
  split at hs
  · injection hs with hs; subst hs
    have hpcs : (setPc s i .bal).pcs = s.pcs.set i .bal := rfl
    have hE := effActive_frame hpc hpcs rfl rfl rfl
    refine dec_simple hI hpc hpcs rfl hE rfl (fun _ => rfl) (fun _ _ => Or.inl rfl) ?_
    rw [rank_self hE _ rfl, rank_eq]
    exact rc_collect_bal
  · rename_i t0 ht0
    split at hs
    · injection hs with hs; subst hs
      have hpcs : (setPc (setQLock s t0 (some i)) i (.collect (j + 1))).pcs = s.pcs.set i (.collect (j + 1)) := rfl
      have hE := effActive_frame hpc hpcs rfl rfl rfl
      obtain ⟨h1, h2, h3⟩ := m123_same hpc hpcs rfl hE rfl
      refine mlt_of_m4 h1 h2 h3 ?_
      have hjm : j < (others i s.active).length := lt_of_getElem?_eq_some ht0
      refine m4_lt hpc hpcs t0 8 7 (by omega) (mem_others_of_getElem? ht0).2 ?_ ?_
      · rw [rank_self hE _ rfl, rank_eq]
        exact rc_collect_next hjm
      · intro k pck hki hk
        have hro := rank_other (n := s.pcs.length) (s' := setPc (setQLock s t0 (some i)) i (.collect (j + 1)))
          hI hpc hk hki rfl hE (fun _ => rfl)
        by_cases hkt : k = t0
        · rw [if_pos hkt]; exact hro.1
        · rw [if_neg hkt]
          have := hro.2 (Or.inl (by
            show (s.qlock.set t0 (some i))[k]? = s.qlock[k]?
            rw [List.getElem?_set_ne (Ne.symm hkt)]))
          omega
    · cases hs


theorem flatten_length_bal {bal : Bal} (hb : BalSpec bal) {A : Nat} {Q : List (List Nat)} (hA : 0 < A)
    (hle : A ≤ Q.length) : (bal A Q).flatten.length = Q.flatten.length := by
  obtain ⟨_, hdrop, hperm, _⟩ := hb A Q hA hle
  have h1 : (bal A Q).flatten.length = ((bal A Q).take A).flatten.length + ((bal A Q).drop A).flatten.length := by
    rw [← List.length_append, ← List.flatten_append, List.take_append_drop]
  have h2 : Q.flatten.length = (Q.take A).flatten.length + (Q.drop A).flatten.length := by
    rw [← List.length_append, ← List.flatten_append, List.take_append_drop]
  rw [h1, h2, hdrop, hperm.length_eq]

theorem measure_dec_bal {bal : Bal} (hb : BalSpec bal) {s s' : ExSt} {i : Nat} (hI : Inv s)
    (hpc : s.pcs[i]? = some .bal) (hs : step bal s i = some s') : mlt (measure s') (measure s) := by
  have hI' := Inv_step_bal hb hI hpc hs
  simp only [step, hpc] at hs
  injection hs with hs; subst hs
  have hin := lt_of_getElem?_eq_some hpc
  have hown : i < s.active ∧ s.queues[i]?.getD [] = [] := hI.own i _ hpc
  have hA : 0 < s.active := by omega
  have hle : s.active ≤ s.queues.length := by rw [hI.lenQ]; exact hI.actLe
  generalize hd : emptyTail (bal s.active s.queues) s.active = d at *
  have hpcs : (setPc { s with queues := bal s.active s.queues } i (.release 0 d)).pcs = s.pcs.set i (.release 0 d) := rfl
  have hpc' : (setPc { s with queues := bal s.active s.queues } i (.release 0 d)).pcs[i]? = some (.release 0 d) := by
    rw [hpcs, List.getElem?_set_self hin]
  have hE' : effActive (setPc { s with queues := bal s.active s.queues } i (.release 0 d)) = s.active - d :=
    effActive_of_holder hI' hpc' rfl
  have hE : effActive s = s.active := effActive_of_holder hI hpc rfl
  have hh := inHand_set hpc hpcs
  simp only [isHand, Bool.false_eq_true, if_false] at hh
  have hfl := flatten_length_bal hb hA hle
  refine mlt_of_m3 ?_ ?_ ?_
  · show (bal s.active s.queues).flatten.length + (inHand _).length = m1 s
    unfold m1; omega
  · show (bal s.active s.queues).flatten.length = m2 s
    unfold m2; omega
  · have h0 : m3 (setPc { s with queues := bal s.active s.queues } i (.release 0 d)) = 0 := by
      unfold m3
      rw [List.length_eq_zero_iff, List.filter_eq_nil_iff]
      intro k _
      rw [hE']
      show ¬ (decide (k < s.active - d) && ((bal s.active s.queues)[k]?.getD []).isEmpty) = true
      intro hk
      simp only [Bool.and_eq_true, decide_eq_true_eq] at hk
      have hne := bal_nonempty hb hA hle (k := k) (by rw [hd]; exact hk.1)
      exact hne (List.isEmpty_iff.1 hk.2)
    have h1 : 0 < m3 s := by
      unfold m3
      apply List.length_pos_of_mem (a := i)
      rw [List.mem_filter]
      refine ⟨List.mem_range.2 hin, ?_⟩
      rw [hE, hown.2]
      simpa using hown.1
    omega

theorem measure_dec_release {bal : Bal} {s s' : ExSt} {i j d : Nat} (hI : Inv s)
    (hpc : s.pcs[i]? = some (.release j d)) (hs : step bal s i = some s') : mlt (measure s') (measure s) := by
  have hI' := Inv_step_release hI hpc hs
  have hin := lt_of_getElem?_eq_some hpc
  have hEs : effActive s = s.active - d := effActive_of_holder hI hpc rfl
  simp only [step, hpc] at hs
  split at hs
  · rename_i hj
    injection hs with hs; subst hs
    have hpcs : (setPc (setQLock s j none) i (.release (j + 1) d)).pcs = s.pcs.set i (.release (j + 1) d) := rfl
    have hpc' : (setPc (setQLock s j none) i (.release (j + 1) d)).pcs[i]? = some (.release (j + 1) d) := by
      rw [hpcs, List.getElem?_set_self hin]
    have hE : effActive (setPc (setQLock s j none) i (.release (j + 1) d)) = effActive s := by
      rw [hEs]; exact effActive_of_holder hI' hpc' rfl
    refine dec_simple hI hpc hpcs rfl hE rfl (fun _ => rfl) (fun k _ => qlock_set_none_cases _ _ _) ?_
    rw [rank_self hE _ rfl, rank_eq]
    exact rc_release_next (Nat.lt_of_lt_of_le hj hI.actLe)
  · injection hs with hs; subst hs
    have hpcs : (setPc s i (.dec d)).pcs = s.pcs.set i (.dec d) := rfl
    have hpc' : (setPc s i (.dec d)).pcs[i]? = some (.dec d) := by
      rw [hpcs, List.getElem?_set_self hin]
    have hE : effActive (setPc s i (.dec d)) = effActive s := by
      rw [hEs]; exact effActive_of_holder hI' hpc' rfl
    refine dec_simple hI hpc hpcs rfl hE rfl (fun _ => rfl) (fun _ _ => Or.inl rfl) ?_
    rw [rank_self hE _ rfl, rank_eq]
    exact rc_release_dec

theorem measure_dec_dec {bal : Bal} {s s' : ExSt} {i d : Nat} (hI : Inv s)
    (hpc : s.pcs[i]? = some (.dec d)) (hs : step bal s i = some s') : mlt (measure s') (measure s) := by
  have hI' := Inv_step_dec hI hpc hs
  have hin := lt_of_getElem?_eq_some hpc
  have hEs : effActive s = s.active - d := effActive_of_holder hI hpc rfl
  simp only [step, hpc] at hs
  injection hs with hs; subst hs
  have hpcs : (setPc { s with active := s.active - d } i .unlockState).pcs = s.pcs.set i .unlockState := rfl
  have hpc' : (setPc { s with active := s.active - d } i .unlockState).pcs[i]? = some .unlockState := by
    rw [hpcs, List.getElem?_set_self hin]
  have hE : effActive (setPc { s with active := s.active - d } i .unlockState) = effActive s := by
    rw [hEs]; exact effActive_of_holder hI' hpc' rfl
  refine dec_simple hI hpc hpcs rfl hE rfl (fun h => by simp [holdsS] at h) (fun _ _ => Or.inl rfl) ?_
  rw [rank_self hE _ rfl, rank_eq]
  exact rc_dec

theorem measure_dec_unlockState {bal : Bal} {s s' : ExSt} {i : Nat} (hI : Inv s)
    (hpc : s.pcs[i]? = some .unlockState) (hs : step bal s i = some s') : mlt (measure s') (measure s) := by
  simp only [step, hpc] at hs
  injection hs with hs; subst hs
  have hpcs : (setPc { s with stateLock := none } i .top).pcs = s.pcs.set i .top := rfl
  have hE := effActive_frame hpc hpcs rfl rfl rfl
  refine dec_simple hI hpc hpcs rfl hE rfl (fun _ => rfl) (fun _ _ => Or.inl rfl) ?_
  rw [rank_self hE _ rfl, rank_eq]
  have hown : s.queues[i]?.getD [] ≠ [] ∨ s.active ≤ i := hI.own i _ hpc
  have hEs : effActive s = s.active := effActive_of_holder hI hpc rfl
  have hw : (decide (i < effActive s) && emptOf s i) = false := by
    rw [hEs]
    rcases hown with h | h
    · have : emptOf s i = false := by
        unfold emptOf
        cases hq : s.queues[i]?.getD [] with
        | nil => exact absurd hq h
        | cons a q => rfl
      rw [this]; simp
    · have : decide (i < s.active) = false := by simp; omega
      rw [this]; simp
  rw [hw]
  exact rc_unlock

/-- every step from a state satisfying the invariant decreases the measure -/
theorem measure_dec {bal : Bal} (hb : BalSpec bal) {s s' : ExSt} {i : Nat} (hI : Inv s)
    (hs : step bal s i = some s') : mlt (measure s') (measure s) := by
  cases hpc : s.pcs[i]? with
  | none => simp [step, hpc] at hs
  | some pc =>
    cases pc with
    | top => exact measure_dec_top hI hpc hs
    | popped item => exact measure_dec_popped hI hpc hs
    | solving x => exact measure_dec_solving hpc hs
    | wantState => exact measure_dec_wantState hI hpc hs
    | haveState => exact measure_dec_haveState hI hpc hs
    | exiting => exact measure_dec_exiting hI hpc hs
    | wantLocal => exact measure_dec_wantLocal hI hpc hs
    | haveLocal => exact measure_dec_haveLocal hI hpc hs
    | cont1 => exact measure_dec_cont1 hI hpc hs
    | cont2 => exact measure_dec_cont2 hI hpc hs
    | collect j => exact measure_dec_collect hI hpc hs
    | bal => exact measure_dec_bal hb hI hpc hs
    | release j d => exact measure_dec_release hI hpc hs
    | dec d => exact measure_dec_dec hI hpc hs
    | unlockState => exact measure_dec_unlockState hI hpc hs
    | done => simp [step, hpc] at hs

end TB.Exec.Term