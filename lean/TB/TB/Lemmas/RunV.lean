/-
  Helper lemmas (RunV): chaining the run-level theorems into statements whose hypotheses speak of the torrents as
  loaded, of the initial tree and of the hash only (`TB.Props.TopLevel`).

  * Part A — transport between the tree-independent table / work list (`table0`, `work0`: no candidate lists) and the
    table / work list of an actual run (`(run H inp).table`, `.work`: candidate lists filled in from the tree). The
    layout facts mention `len`, `off`, `isPad`, `fullTarget`, `fileLength`, `hash` only, all kept by `strip`.
  * Part B — two more layout facts derived from `Loadable`: a zero-length segment belongs to an empty file (`hzero`
    of `C02_run_recovered`), and images are not nested if the paths of each torrent are prefix-free (`hnest`).
  * Part C — `AvailScan` is monotone in the tree, in the scan directories and (anti-monotone, up to images) in the table.
-/
import TB.Spec.ExportSpec
import TB.Props.C02chain
import TB.Props.C06layout
import TB.Props.C16total
import TB.Lemmas.RunR
import TB.Lemmas.RunT
namespace TB.RunV
open TB

/-! ## Part A: `strip` transport -/

theorem mem_strip_segs {w : Work} {s : WSeg} (h : s ∈ w.segs) : s.strip ∈ w.strip.segs :=
  List.mem_map_of_mem (f := WSeg.strip) h

theorem getElem?_strip_segs {w : Work} {a : Nat} {s : WSeg} (h : w.segs[a]? = some s) :
    w.strip.segs[a]? = some s.strip := by
  show (w.segs.map WSeg.strip)[a]? = some s.strip
  rw [List.getElem?_map, h]; rfl

theorem segsInRange_of_strip {w : Work} (h : SegsInRange w.strip) : SegsInRange w := by
  intro s hs
  exact h s.strip (mem_strip_segs hs)

/-- `SegsInRange` on `work0` gives `SegsInRange` on the work list of the run -/
theorem range_run (H : Bytes → Bytes) (inp : RunIn) (h : ∀ w ∈ work0 inp, SegsInRange w) :
    ∀ w ∈ (run H inp).work, SegsInRange w :=
  fun w hw => segsInRange_of_strip (h w.strip (RunR.run_work_strip_mem H inp w hw))

/-- "same image, same declared length" on `table0` gives the same on the table of the run -/
theorem same_run (H : Bytes → Bytes) (inp : RunIn) (h : RunJ.SameLen (table0 inp)) :
    RunJ.SameLen (run H inp).table := by
  intro e he f hf n1 n2 heq
  exact h e.strip (RunR.run_table_strip H inp e he) f.strip (RunR.run_table_strip H inp f hf) n1 n2 heq

/-- `RangesDisjoint` on `work0` gives `RangesDisjoint` on the work list of the run -/
theorem disj_run (H : Bytes → Bytes) (inp : RunIn) (h : RangesDisjoint (work0 inp)) :
    RangesDisjoint (run H inp).work := by
  rcases RunR.run_work_strip H inp with h0 | h0
  · rw [h0]
    exact ⟨fun a b w v ha => by simp at ha, fun w hw => by cases hw⟩
  · rw [h0] at h
    refine ⟨?_, ?_⟩
    · intro a b w v ha hb hab s hs t ht n1 n2 heq
      have ha' : ((run H inp).work.map Work.strip)[a]? = some w.strip := by rw [List.getElem?_map, ha]; rfl
      have hb' : ((run H inp).work.map Work.strip)[b]? = some v.strip := by rw [List.getElem?_map, hb]; rfl
      exact h.1 a b w.strip v.strip ha' hb' hab s.strip (mem_strip_segs hs) t.strip (mem_strip_segs ht) n1 n2 heq
    · intro w hw a b s t ha hb hab n1 n2
      exact h.2 w.strip (List.mem_map_of_mem hw) a b s.strip t.strip (getElem?_strip_segs ha)
        (getElem?_strip_segs hb) hab n1 n2

/-- collision-freedom on the piece hashes of `work0` gives the same for the work list of the run -/
theorem hinj_run (H : Bytes → Bytes) (inp : RunIn) (h : HInjOn H (work0 inp)) : HInjOn H (run H inp).work :=
  fun w hw b b' h1 h2 => h w.strip (RunR.run_work_strip_mem H inp w hw) b b' h1 h2

/-- `NoAlias` with respect to `table0` gives `NoAlias` with respect to the table of the run (on any tree) -/
theorem noAlias_run (H : Bytes → Bytes) (inp : RunIn) {fs : Fs} (h : NoAlias fs (table0 inp)) :
    NoAlias fs (run H inp).table := by
  intro e he hp q i h1 h2
  exact h e.strip (RunR.run_table_strip H inp e he) hp q i h1 h2

/-- the converse direction needs the run to have kept its table: the table of a run that evaluates pieces is
    `table0` with candidate lists filled in, so every entry of `table0` has a counterpart -/
theorem table0_covered (H : Bytes → Bytes) (inp : RunIn) (hw : (run H inp).work ≠ []) :
    ∀ e0 ∈ table0 inp, ∃ e ∈ (run H inp).table, e.strip = e0 := by
  intro e0 he0
  have F := RunQ.facts H inp hw
  obtain ⟨e, he, s, rfl⟩ := (populateSearches_rel (RunQ.cacheOf inp) inp.searchObs (RB.runTable0 inp)).1 e0 he0
  refine ⟨_, by rw [F.tab]; exact he, ?_⟩
  have hs : e0.searches = none := RunR.buildTable_searches _ _ _ e0 he0
  cases e0
  simp only [TEntry.strip] at *
  rw [hs]

theorem noAlias_table0_of_run (H : Bytes → Bytes) (inp : RunIn) (hw : (run H inp).work ≠ []) {fs : Fs}
    (h : NoAlias fs (run H inp).table) : NoAlias fs (table0 inp) := by
  intro e0 he0 hp q i h1 h2
  obtain ⟨e, he, rfl⟩ := table0_covered H inp hw e0 he0
  exact h e he hp q i h1 h2

/-! ### `AvailScan` looks at ranges, padding flags, declared lengths and the hash only -/

/-- what `AvailScan` looks at in a work item -/
def avKey (w : Work) : List (Nat × Nat × Bool × Nat) × Bytes :=
  (w.segs.map (fun s => (s.len, s.off, s.ent.isPad, s.ent.fileLength)), w.hash)

theorem avKey_strip (w : Work) : avKey w.strip = avKey w := by
  unfold avKey Work.strip
  simp only [List.map_map]
  rfl

theorem avKey_seg {w w' : Work} (h : avKey w' = avKey w) {k : Nat} {s : WSeg} (hs : w.segs[k]? = some s) :
    ∃ s', w'.segs[k]? = some s' ∧ s'.len = s.len ∧ s'.off = s.off ∧ s'.ent.isPad = s.ent.isPad
      ∧ s'.ent.fileLength = s.ent.fileLength := by
  have h1 : w'.segs.map (fun s => (s.len, s.off, s.ent.isPad, s.ent.fileLength))
      = w.segs.map (fun s => (s.len, s.off, s.ent.isPad, s.ent.fileLength)) := congrArg Prod.fst h
  have h2 := congrArg (fun l => l[k]?) h1
  simp only [List.getElem?_map, hs, Option.map_some] at h2
  cases hs' : w'.segs[k]? with
  | none => rw [hs'] at h2; cases h2
  | some s' =>
    rw [hs'] at h2
    simp only [Option.map_some, Option.some.injEq, Prod.mk.injEq] at h2
    exact ⟨s', rfl, h2.1, h2.2.1, h2.2.2.1, h2.2.2.2⟩

/-- `AvailScan` is a property of `avKey w` -/
theorem avail_congr {H : Bytes → Bytes} {fs : Fs} {scan : List PathArg} {table : List TEntry} {w w' : Work}
    (h : avKey w' = avKey w) (ha : AvailScan H fs scan table w) : AvailScan H fs scan table w' := by
  obtain ⟨parts, hl, hh, hp⟩ := ha
  have hlen : w'.segs.length = w.segs.length := by
    have := congrArg (fun x => x.1.length) h
    simpa [avKey] using this
  have hhash : w'.hash = w.hash := congrArg Prod.snd h
  refine ⟨parts, by rw [hl, hlen], by rw [hh, hhash], ?_⟩
  intro k s' part hk hpk
  obtain ⟨s, hs, e1, e2, e3, e4⟩ := avKey_seg h.symm hk
  have := hp k s part hs hpk
  rw [e1, e2, e3, e4] at this
  exact this

/-- `AvailScan` depends on the table through the export images of its non-padding entries only: it passes from
    `table` to any `table'` all of whose non-padding images are non-padding images of `table` -/
theorem avail_table_sub {H : Bytes → Bytes} {fs : Fs} {scan : List PathArg} {table table' : List TEntry} {w : Work}
    (hsub : ∀ e' ∈ table', e'.isPad = false → ∃ e ∈ table, e.isPad = false ∧ e.fullTarget = e'.fullTarget)
    (ha : AvailScan H fs scan table w) : AvailScan H fs scan table' w := by
  obtain ⟨parts, hl, hh, hp⟩ := ha
  refine ⟨parts, hl, hh, fun k seg part hk hpk => ?_⟩
  obtain ⟨a, b, c⟩ := hp k seg part hk hpk
  refine ⟨a, b, fun hpad hlen => ?_⟩
  obtain ⟨p, i, d, hmem, hd, hunder, hclen, hout, hpart⟩ := c hpad hlen
  refine ⟨p, i, d, hmem, hd, hunder, hclen, ?_, hpart⟩
  intro e' he' hpe'
  obtain ⟨e, he, hpe, heq⟩ := hsub e' he' hpe'
  rw [← heq]
  exact hout e he hpe

/-- availability stated with `table0` gives availability with the table of the run -/
theorem avail_run (H : Bytes → Bytes) (inp : RunIn) {fs : Fs} {scan : List PathArg} {w : Work}
    (ha : AvailScan H fs scan (table0 inp) w) : AvailScan H fs scan (run H inp).table w :=
  avail_table_sub (fun e' he' hp => ⟨e'.strip, RunR.run_table_strip H inp e' he', hp, rfl⟩) ha

/-- and back, for a run that evaluates pieces -/
theorem avail_table0_of_run (H : Bytes → Bytes) (inp : RunIn) (hw : (run H inp).work ≠ []) {fs : Fs}
    {scan : List PathArg} {w : Work} (ha : AvailScan H fs scan (run H inp).table w) :
    AvailScan H fs scan (table0 inp) w := by
  refine avail_table_sub ?_ ha
  intro e0 he0 hp
  obtain ⟨e, he, rfl⟩ := table0_covered H inp hw e0 he0
  exact ⟨e, he, hp, rfl⟩

/-! ## Part B: two more layout facts -/

/-- a zero-length segment of a work item of a loadable torrent belongs to an empty file (third clause of the C06
    partition, `PieceOk`) -/
theorem workOfTorrent_zero (H : Bytes → Bytes) {dir : Path} {all : List Torrent} {id0 : Nat} {t : Torrent}
    (hd : RunT.HashDistinct all) (ht : t ∈ all) (hload : Loadable H t) {wt : List Work}
    (h : workOfTorrent (buildTable dir all id0) t = some wt) :
    ∀ w ∈ wt, ∀ x ∈ w.segs, x.len = 0 → x.ent.fileLength = 0 := by
  obtain ⟨ps, hlay, _, hrel⟩ := RunT.workOfTorrent_rel H hd ht hload h
  intro w hw x hx hx0
  obtain ⟨i, hi⟩ := RunT.mem_index hw
  obtain ⟨p, hp, hwr⟩ := hrel i w hi
  obtain ⟨s, hs, hr⟩ := hwr.mem hx
  rcases hlay with rfl | ⟨fl, _, _, _, hok, hfl⟩
  · simp at hp
  · obtain ⟨hi', rfl⟩ := List.getElem?_eq_some_iff.1 hp
    obtain ⟨hs1, _, hs3⟩ := (hok i hi').2.2.2.2.1 s hs
    rw [RunT.segRel_flen hfl hs1 hr]
    exact hs3 (by rw [← hr.1]; exact hx0)

theorem convert_zero (H : Bytes → Bytes) {dir : Path} {all : List Torrent} {id0 : Nat} (hd : RunT.HashDistinct all)
    {ts : List Torrent} (hsub : ∀ t ∈ ts, t ∈ all) (hload : ∀ t ∈ ts, Loadable H t) {ws : List Work}
    (h : convertPiecesToWork (buildTable dir all id0) ts = some ws) :
    ∀ w ∈ ws, ∀ x ∈ w.segs, x.len = 0 → x.ent.fileLength = 0 := by
  intro w hw
  obtain ⟨t, ht, wt, hwt, hwin⟩ := RunH.convert_mem h w hw
  exact workOfTorrent_zero H hd (hsub t ht) (hload t ht) hwt w hwin

theorem mem_run_torrents {ts : List Torrent} {t : Torrent} (h : t ∈ dedupTorrents (sortTorrents ts)) :
    t ∈ ts := (RB.mem_sortTorrents _ _).1 (RB.dedupTorrents_mem _ t h)

/-- `hzero` for `work0`, from `Loadable` -/
theorem zero_work0 (H : Bytes → Bytes) (inp : RunIn) (hload : ∀ t ∈ inp.torrents, Loadable H t) :
    ∀ w ∈ work0 inp, ∀ s ∈ w.segs, s.len = 0 → s.ent.fileLength = 0 := by
  unfold work0
  cases h : convertPiecesToWork (table0 inp) (dedupTorrents (sortTorrents inp.torrents)) with
  | none => intro w hw; cases hw
  | some ws =>
    exact convert_zero H (RunT.hashDistinct_dedup_sort inp.torrents) (fun _ ht => ht)
      (fun t ht => hload t (mem_run_torrents ht)) h

/-- `hzero` for the work list of the run -/
theorem zero_run (H : Bytes → Bytes) (inp : RunIn) (hload : ∀ t ∈ inp.torrents, Loadable H t) :
    ∀ w ∈ (run H inp).work, ∀ s ∈ w.segs, s.len = 0 → s.ent.fileLength = 0 :=
  fun w hw s hs h0 => zero_work0 H inp hload w.strip (RunR.run_work_strip_mem H inp w hw) s.strip (mem_strip_segs hs) h0

/-- within torrent `t`, the path of a non-padding file is not a prefix of the path of another non-padding file
    (in particular the two paths differ) -/
def PrefixFree (t : Torrent) : Prop :=
  ∀ fs, t.info.files = some fs → ∀ (i j : Nat) (f g : FileRec), fs[i]? = some f → fs[j]? = some g → i ≠ j →
    isPaddingPath f.path = false → isPaddingPath g.path = false → ¬ f.path <+: g.path

theorem PrefixFree.distinct {t : Torrent} (h : PrefixFree t) : RunT.PathsDistinct t := by
  intro fs hfs i j f g hi hj hij n1 n2 he
  exact h fs hfs i j f g hi hj hij n1 n2 (by rw [he]; exact List.prefix_refl _)

theorem prefix_of_properPrefix {p q : Path} (h : q ∈ Fs.properPrefixes p) : q <+: p := by
  obtain ⟨n, _, _, rfl⟩ := RunF.mem_properPrefixes.1 h
  exact List.take_prefix n p

/-- two non-padding entries of one torrent with prefix-free paths: the image of one is not a proper prefix of the
    image of the other -/
theorem target_not_nested {dir : Path} {t : Torrent} {e₁ e₂ : TEntry} (hp : PrefixFree t)
    (h₁ : IsTargetOf dir t e₁) (h₂ : IsTargetOf dir t e₂) (n₁ : e₁.isPad = false) (n₂ : e₂.isPad = false) :
    e₁.fullTarget ∉ Fs.properPrefixes e₂.fullTarget := by
  intro hmem
  have hne := RunF.properPrefix_ne hmem
  have hpre := prefix_of_properPrefix hmem
  obtain ⟨_, ⟨l₁, hn₁, _, _, _, _, ht₁⟩ | ⟨fs₁, f, hf₁, hi₁, _, hp₁, ht₁⟩⟩ := h₁
  · obtain ⟨_, ⟨l₂, _, _, _, _, _, ht₂⟩ | ⟨fs₂, g, hf₂, _⟩⟩ := h₂
    · exact hne (ht₁.trans ht₂.symm)
    · rw [hn₁] at hf₂; cases hf₂
  · obtain ⟨_, ⟨l₂, hn₂, _⟩ | ⟨fs₂, g, hf₂, hi₂, _, hp₂, ht₂⟩⟩ := h₂
    · rw [hn₂] at hf₁; cases hf₁
    · rw [hf₁] at hf₂
      cases hf₂
      by_cases hidx : e₁.fileIndex = e₂.fileIndex
      · rw [hidx, hi₂] at hi₁
        cases hi₁
        exact hne (ht₁.trans ht₂.symm)
      · rw [ht₁, ht₂] at hpre
        exact hp fs₁ hf₁ _ _ f g hi₁ hi₂ hidx (by rw [← hp₁]; exact n₁) (by rw [← hp₂]; exact n₂)
          ((List.prefix_append_right_inj _).1 hpre)

/-- no export image of a non-padding entry of the table is a proper prefix of another one: different torrents of the
    table have different info-hashes, hence export roots that differ in one component; inside one torrent by
    `PrefixFree` -/
theorem table_not_nested {dir : Path} {all : List Torrent} {id0 : Nat} (hd : RunT.HashDistinct all)
    (hpf : ∀ t ∈ all, PrefixFree t) :
    ∀ e ∈ buildTable dir all id0, ∀ f ∈ buildTable dir all id0, e.isPad = false → f.isPad = false →
      e.fullTarget ∉ Fs.properPrefixes f.fullTarget := by
  intro e he f hf n1 n2 hmem
  obtain ⟨t₁, ht₁, h₁⟩ := buildTable_target dir all id0 e he
  obtain ⟨t₂, ht₂, h₂⟩ := buildTable_target dir all id0 f hf
  by_cases hh : t₁.infoHash = t₂.infoHash
  · have := hd.eq ht₁ ht₂ hh
    subst this
    exact target_not_nested (hpf t₁ ht₁) h₁ h₂ n1 n2 hmem
  · obtain ⟨rest, hr⟩ := prefix_of_properPrefix hmem
    exact IsTargetOf.disjoint h₁ h₂ hh ⟨rest, hr.symm⟩

/-- `hnest` of `C02_run_no_fault`, in the form used for `table0` and for the table of a run -/
def NotNested (table : List TEntry) : Prop :=
  ∀ e ∈ table, ∀ f ∈ table, e.isPad = false → f.isPad = false → e.fullTarget ∉ Fs.properPrefixes f.fullTarget

theorem notNested_table0 (inp : RunIn) (hpf : ∀ t ∈ inp.torrents, PrefixFree t) : NotNested (table0 inp) :=
  table_not_nested (RunT.hashDistinct_dedup_sort inp.torrents) (fun t ht => hpf t (mem_run_torrents ht))

/-- the entries of the segments of a work item of the run are entries of the run's table -/
theorem run_work_ent (H : Bytes → Bytes) (inp : RunIn) {w : Work} (hw : w ∈ (run H inp).work) :
    ∀ s ∈ w.segs, s.ent ∈ (run H inp).table :=
  convertPiecesToWork_ent (RunQ.facts H inp (List.ne_nil_of_mem hw)).conv w hw

/-- `hnest` for a work item of the run, from `NotNested (table0 inp)` -/
theorem nest_run (H : Bytes → Bytes) (inp : RunIn) (hnn : NotNested (table0 inp)) {w : Work}
    (hw : w ∈ (run H inp).work) :
    ∀ s ∈ w.segs, s.ent.isPad = false → ∀ e ∈ (run H inp).table, e.isPad = false →
      e.fullTarget ∉ Fs.properPrefixes s.ent.fullTarget ∧ s.ent.fullTarget ∉ Fs.properPrefixes e.fullTarget := by
  intro s hs hp e he hpe
  have h1 := RunR.run_table_strip H inp _ (run_work_ent H inp hw s hs)
  have h2 := RunR.run_table_strip H inp e he
  exact ⟨hnn e.strip h2 s.ent.strip h1 hpe hp, hnn s.ent.strip h1 e.strip h2 hp hpe⟩

/-! ## Part C: `AvailScan` is monotone in the tree and in the scan directories -/

/-- if every binding of `fs` is a binding of `fs'` with the same content, every scan directory of `scan` is one of
    `scan'`, and no export image of `table` is bound in `fs'` to an inode that had a name in `fs` unless it was
    bound to that inode in `fs` already (`hnew`), availability in `fs` gives availability in `fs'` -/
theorem avail_tree_mono {H : Bytes → Bytes} {fs fs' : Fs} {scan scan' : List PathArg} {table : List TEntry}
    {w : Work}
    (hfiles : ∀ p i, (p, i) ∈ fs.files → (p, i) ∈ fs'.files)
    (hcont : ∀ p i, (p, i) ∈ fs.files → fs'.content i = fs.content i)
    (hscan : ∀ d ∈ scan, d ∈ scan')
    (hnew : ∀ e ∈ table, e.isPad = false → ∀ i, fs'.inoOf e.fullTarget = some i → (∃ p, (p, i) ∈ fs.files) →
      fs.inoOf e.fullTarget = some i)
    (ha : AvailScan H fs scan table w) : AvailScan H fs' scan' table w := by
  obtain ⟨parts, hl, hh, hp⟩ := ha
  refine ⟨parts, hl, hh, fun k seg part hk hpk => ?_⟩
  obtain ⟨a, b, c⟩ := hp k seg part hk hpk
  refine ⟨a, b, fun hpad hlen => ?_⟩
  obtain ⟨p, i, d, hmem, hd, hunder, hclen, hout, hpart⟩ := c hpad hlen
  refine ⟨p, i, d, hfiles p i hmem, hscan d hd, hunder, by rw [hcont p i hmem]; exact hclen, ?_, ?_⟩
  · intro e he hpe hi
    exact hout e he hpe (hnew e he hpe i hi ⟨p, hmem⟩)
  · unfold Fs.readAt
    rw [hcont p i hmem]
    exact hpart

/-! ### tables of fewer torrents -/

/-- two entries of the same file of one torrent have the same image and padding flag -/
theorem target_same_image {dir : Path} {t : Torrent} {e₁ e₂ : TEntry}
    (h₁ : IsTargetOf dir t e₁) (h₂ : IsTargetOf dir t e₂) (hidx : e₁.fileIndex = e₂.fileIndex) :
    e₁.fullTarget = e₂.fullTarget ∧ e₁.isPad = e₂.isPad := by
  obtain ⟨_, ⟨l₁, hn₁, _, _, _, hq₁, ht₁⟩ | ⟨fs₁, f, hf₁, hi₁, _, hq₁, ht₁⟩⟩ := h₁
  · obtain ⟨_, ⟨l₂, _, _, _, _, hq₂, ht₂⟩ | ⟨fs₂, g, hf₂, _⟩⟩ := h₂
    · exact ⟨ht₁.trans ht₂.symm, hq₁.trans hq₂.symm⟩
    · rw [hn₁] at hf₂; cases hf₂
  · obtain ⟨_, ⟨l₂, hn₂, _⟩ | ⟨fs₂, g, hf₂, hi₂, _, hq₂, ht₂⟩⟩ := h₂
    · rw [hn₂] at hf₁; cases hf₁
    · rw [hf₁] at hf₂
      cases hf₂
      rw [hidx, hi₂] at hi₁
      cases hi₁
      exact ⟨ht₁.trans ht₂.symm, hq₁.trans hq₂.symm⟩

/-- the table of a list of torrents with distinct info-hashes contains, for every entry `e'` that is a target of one
    of them, an entry with the same image and padding flag -/
theorem table_has_image {dir : Path} {all : List Torrent} {id0 : Nat} (hd : RunT.HashDistinct all) {t : Torrent}
    (ht : t ∈ all) {e' : TEntry} (h' : IsTargetOf dir t e') :
    ∃ e ∈ buildTable dir all id0, e.fullTarget = e'.fullTarget ∧ e.isPad = e'.isPad := by
  have hc := RunH.buildTable_complete dir all id0 t ht
  have key : ∃ e ∈ buildTable dir all id0, e.infoHash = t.infoHash ∧ e.fileIndex = e'.fileIndex := by
    rcases h'.2 with ⟨l, hn, hl, hi, _⟩ | ⟨fs, f, hf, hi, _⟩
    · rw [hi]; exact hc.1 l hn hl
    · exact hc.2 fs hf _ (List.getElem?_eq_some_iff.1 hi).1
  obtain ⟨e, he, hih, hidx⟩ := key
  obtain ⟨t'', ht'', h''⟩ := buildTable_target dir all id0 e he
  have : t'' = t := hd.eq ht'' ht (h''.1.symm.trans hih)
  subst this
  exact ⟨e, he, target_same_image h'' h' hidx⟩

/-- the images of the table of fewer torrents are images of the table of more torrents, provided every torrent the
    smaller run keeps (after sorting and dropping repeated info-hashes) is kept by the larger run -/
theorem table0_images_sub {inp inp' : RunIn} (hdir : inp'.exportDir.path = inp.exportDir.path)
    (hsub : ∀ t ∈ dedupTorrents (sortTorrents inp'.torrents), t ∈ dedupTorrents (sortTorrents inp.torrents)) :
    ∀ e' ∈ table0 inp', e'.isPad = false → ∃ e ∈ table0 inp, e.isPad = false ∧ e.fullTarget = e'.fullTarget := by
  intro e' he' hp
  unfold table0 at he'
  rw [hdir] at he'
  obtain ⟨t, ht, h'⟩ := buildTable_target _ _ _ e' he'
  obtain ⟨e, he, h1, h2⟩ := table_has_image (id0 := 0) (RunT.hashDistinct_dedup_sort inp.torrents) (hsub t ht) h'
  exact ⟨e, he, by rw [h2]; exact hp, h1⟩

/-- a sufficient condition for `hsub` of `table0_images_sub`: the smaller list is contained in the larger one, and
    the larger one has pairwise distinct info-hashes -/
theorem kept_of_subset {ts ts' : List Torrent} (hsub : ∀ t ∈ ts', t ∈ ts)
    (hd : ts.Pairwise (fun a b => a.infoHash ≠ b.infoHash)) :
    ∀ t ∈ dedupTorrents (sortTorrents ts'), t ∈ dedupTorrents (sortTorrents ts) := by
  intro t ht
  have h1 : t ∈ ts := hsub t (mem_run_torrents ht)
  obtain ⟨u, hu, he⟩ := RB.dedupTorrents_cover _ t ((RB.mem_sortTorrents ts t).2 h1)
  have : u = t := RunT.HashDistinct.eq hd (mem_run_torrents hu) h1 he
  rw [← this]
  exact hu

/-! ## Part D: checkers for concrete worlds -/

theorem fsWF_of_check (fs : Fs) (h1 : ∀ e ∈ fs.files, e.2 < fs.next) (h2 : (fs.files.map (·.1)).Nodup)
    (h3 : ∀ e ∈ fs.files, fs.isDir e.1 = false)
    (h4 : ∀ e ∈ fs.files, ∀ q ∈ Fs.properPrefixes e.1, fs.isDir q = true) : FsWF fs :=
  ⟨fun p i h => h1 (p, i) h, h2, fun p i h => h3 (p, i) h, fun p i h => h4 (p, i) h⟩

theorem noAlias_of_check (fs : Fs) (T : List TEntry)
    (key : ∀ e ∈ T, ∀ f ∈ fs.files, ∀ g ∈ fs.files, f.1 = e.fullTarget → g.2 = f.2 → g.1 = e.fullTarget) :
    NoAlias fs T := by
  intro e he _ q i h1 h2
  exact key e he _ (RunF.inoOf_mem h1) _ (RunF.inoOf_mem h2) rfl rfl

/-- the clause of `AvailScan` for one segment, with the witness `x = (p, i, d)` -/
def AvailSegOk (fs : Fs) (scan : List PathArg) (table : List TEntry) (seg : WSeg) (x : Path × Nat × PathArg) : Prop :=
  seg.ent.isPad = true ∨ seg.len = 0 ∨
    ((x.1, x.2.1) ∈ fs.files ∧ x.2.2 ∈ scan ∧ (x.2.2.path.length < x.1.length ∧ x.1.take x.2.2.path.length = x.2.2.path) ∧
      (fs.content x.2.1).length = seg.ent.fileLength ∧
      (∀ e ∈ table, e.isPad = false → fs.inoOf e.fullTarget ≠ some x.2.1))

instance (fs : Fs) (scan : List PathArg) (table : List TEntry) (seg : WSeg) (x : Path × Nat × PathArg) :
    Decidable (AvailSegOk fs scan table seg x) := by unfold AvailSegOk; infer_instance

/-- the byte string the witness supplies for one segment -/
def availPart (fs : Fs) (seg : WSeg) (x : Path × Nat × PathArg) : Bytes :=
  if seg.ent.isPad then List.replicate seg.len 0
  else if seg.len = 0 then [] else fs.readAt x.2.1 seg.off seg.len

/-- `AvailScan` from one witness `(p, i, d)` per segment (ignored for padding and zero-length segments) -/
theorem avail_of_check {H : Bytes → Bytes} {fs : Fs} {scan : List PathArg} {table : List TEntry} {w : Work}
    (wit : List (Path × Nat × PathArg)) (hlen : wit.length = w.segs.length)
    (hok : ∀ y ∈ List.zip w.segs wit, AvailSegOk fs scan table y.1 y.2)
    (hh : H ((List.zip w.segs wit).map (fun y => availPart fs y.1 y.2)).flatten = w.hash) :
    AvailScan H fs scan table w := by
  refine ⟨(List.zip w.segs wit).map (fun y => availPart fs y.1 y.2), ?_, hh, ?_⟩
  · rw [List.length_map, List.length_zip, hlen, Nat.min_self]
  · intro k seg part hk hpk
    rw [List.getElem?_map] at hpk
    cases hz : (List.zip w.segs wit)[k]? with
    | none => rw [hz] at hpk; cases hpk
    | some y =>
      rw [hz] at hpk
      simp only [Option.map_some, Option.some.injEq] at hpk
      have hy := List.mem_of_getElem? hz
      rw [List.getElem?_zip_eq_some] at hz
      have hseg : y.1 = seg := Option.some.inj (hz.1.symm.trans hk)
      have hchk := hok y hy
      rw [hseg] at hchk hpk
      subst hpk
      unfold availPart
      refine ⟨fun hp => by rw [if_pos hp], fun hp h0 => by rw [if_neg (by rw [hp]; simp), if_pos h0], ?_⟩
      intro hp h0
      rcases hchk with h | h | ⟨a1, a2, a3, a4, a5⟩
      · rw [hp] at h; cases h
      · exact absurd h h0
      · exact ⟨y.2.1, y.2.2.1, y.2.2.2, a1, a2, a3, a4, a5, by rw [if_neg (by rw [hp]; simp), if_neg h0]⟩

end TB.RunV
