/-
  Helper lemmas (RunG).
-/
import TB.Spec.ExportSpec
namespace TB.RunG

end TB.RunG
