/-
  Helper lemmas (RunG): the run-level cache (`addExportPaths` followed by the scan directories), the canonical
  candidate order (`sortBy`, `pruneLinks`) and `populateSearches`.
-/
import TB.Spec.ExportSpec
import TB.Lemmas.RunB
import TB.Lemmas.RunC
namespace TB.RunG
open TB.RC TB.RB

/-! ### `addExportPaths` -/

theorem addExportPaths_cons (st : St) (c : Cache) (e : TEntry) (es : List TEntry) :
    addExportPaths st c (e :: es) =
      if e.isPad then addExportPaths st c es else
      if (st.openr e.fullTarget).2 = false then addExportPaths (st.openr e.fullTarget).1 c es else
      match (st.openr e.fullTarget).1.fs.look e.fullTarget with
      | .file i =>
        if ((st.openr e.fullTarget).1.fs.content i).length == e.fileLength
        then addExportPaths (st.openr e.fullTarget).1 (cacheInsert c e.fileLength e.fullTarget i) es
        else addExportPaths (st.openr e.fullTarget).1 c es
      | _ => addExportPaths (st.openr e.fullTarget).1 c es := by
  rw [addExportPaths]
  by_cases hp : e.isPad = true
  · simp [hp]
  · simp only [hp]
    cases hok : (st.openr e.fullTarget).2
    · simp
    · simp
      cases (st.openr e.fullTarget).1.fs.look e.fullTarget <;> rfl

/-- `addExportPaths` only ever inserts: a registration survives -/
theorem reg_addExportPaths {c : Cache} {l : Nat} {p : Path} (h : Reg c l p) (st : St) (table : List TEntry) :
    Reg (addExportPaths st c table).2 l p := by
  induction table generalizing st c with
  | nil => exact h
  | cons e es ih =>
    rw [addExportPaths_cons]
    split
    · exact ih h st
    · split
      · exact ih h _
      · split
        · split
          · exact ih (reg_insert h _ _ _) _
          · exact ih h _
        · exact ih h _

theorem addExportPaths_fs (st : St) (c : Cache) (table : List TEntry) :
    (addExportPaths st c table).1.fs = st.fs := by
  induction table generalizing st c with
  | nil => rfl
  | cons e es ih =>
    rw [addExportPaths_cons]
    split
    · exact ih st c
    · split
      · rw [ih, St.openr_fs]
      · split
        · split
          · rw [ih, St.openr_fs]
          · rw [ih, St.openr_fs]
        · rw [ih, St.openr_fs]

/-- without fault points `openr` succeeds exactly on files and directories -/
theorem openr_file_ok (st : St) (hf : st.faults = []) (p : Path) (i : Nat) (hl : st.fs.look p = .file i) :
    (st.openr p).2 = true := by
  unfold St.openr
  rw [St.op_nofault _ _ _ _ (by rw [hf]; rfl)]
  simp [hl]

/-- the step for `e` registers its export image if that is a regular file of the declared length -/
theorem addExportPaths_registers (st : St) (hf : st.faults = []) (c : Cache) (table : List TEntry) (e : TEntry)
    (i : Nat) (he : e ∈ table) (hpad : e.isPad = false)
    (hlook : st.fs.look e.fullTarget = .file i) (hlen : (st.fs.content i).length = e.fileLength) :
    Reg (addExportPaths st c table).2 e.fileLength e.fullTarget := by
  induction table generalizing st c with
  | nil => cases he
  | cons e0 es ih =>
    rcases List.mem_cons.1 he with rfl | hmem
    · rw [addExportPaths_cons]
      have hok := openr_file_ok st hf e.fullTarget i hlook
      have hfs := St.openr_fs st e.fullTarget
      simp only [hpad, hok, Bool.false_eq_true, if_false]
      rw [hfs, hlook]
      simp only [hlen, beq_self_eq_true, if_true]
      exact reg_addExportPaths (reg_insert_self _ _ _ _) _ _
    · rw [addExportPaths_cons]
      have hfs := St.openr_fs st e0.fullTarget
      have hfa : (st.openr e0.fullTarget).1.faults = [] := by rw [St.openr_faults]; exact hf
      have hlook' : (st.openr e0.fullTarget).1.fs.look e.fullTarget = .file i := by rw [hfs]; exact hlook
      have hlen' : ((st.openr e0.fullTarget).1.fs.content i).length = e.fileLength := by rw [hfs]; exact hlen
      split
      · exact ih st hf c hmem hlook hlen
      · split
        · exact ih _ hfa c hmem hlook' hlen'
        · split
          · split
            · exact ih _ hfa _ hmem hlook' hlen'
            · exact ih _ hfa c hmem hlook' hlen'
          · exact ih _ hfa c hmem hlook' hlen'

/-! ### the scan directories -/

theorem reg_addByDirectory {c : Cache} {l : Nat} {p : Path} (h : Reg c l p) (fs : Fs) (dir : Path)
    (lengths : List Nat) : Reg (addByDirectory fs c dir lengths) l p := by
  rw [addByDirectory_eq]
  exact reg_foldl h fs dir lengths fs.files

theorem reg_scan {c : Cache} {l : Nat} {p : Path} (h : Reg c l p) (fs : Fs) (lengths : List Nat)
    (scan : List PathArg) :
    Reg (scan.foldl (fun c d => addByDirectory fs c d.path lengths) c) l p := by
  induction scan generalizing c with
  | nil => exact h
  | cons d ds ih => exact ih (reg_addByDirectory h fs d.path lengths)

theorem scan_registers (fs : Fs) (lengths : List Nat) (scan : List PathArg) (c : Cache) (d : PathArg)
    (p : Path) (i : Nat) (hd : d ∈ scan) (hmem : (p, i) ∈ fs.files)
    (hunder : d.path.length < p.length ∧ p.take d.path.length = d.path)
    (hlen : lengths.contains (fs.content i).length = true) :
    Reg (scan.foldl (fun c d => addByDirectory fs c d.path lengths) c) (fs.content i).length p := by
  induction scan generalizing c with
  | nil => cases hd
  | cons d0 ds ih =>
    rcases List.mem_cons.1 hd with rfl | h
    · rw [List.foldl_cons]
      apply reg_scan
      rw [addByDirectory_eq]
      exact foldl_registers fs d.path lengths fs.files c p i hmem hunder hlen
    · exact ih _ h

theorem uniqueLengths_contains (table : List TEntry) (e : TEntry) (he : e ∈ table) (hpad : e.isPad = false) :
    (uniqueLengths table).contains e.fileLength = true := by
  rw [List.contains_iff_mem]
  unfold uniqueLengths
  exact List.mem_map.2 ⟨e, List.mem_filter.2 ⟨he, by simp [hpad]⟩, rfl⟩

/-! ### the canonical candidate order -/

theorem mem_insertBy {α : Type} (lt : α → α → Bool) (a x : α) (l : List α) :
    x ∈ insertBy lt a l ↔ x = a ∨ x ∈ l := by
  induction l with
  | nil => simp [insertBy]
  | cons b bs ih =>
    unfold insertBy
    split
    · simp
    · simp only [List.mem_cons, ih]
      constructor
      · rintro (h | h | h)
        · exact Or.inr (Or.inl h)
        · exact Or.inl h
        · exact Or.inr (Or.inr h)
      · rintro (h | h | h)
        · exact Or.inr (Or.inl h)
        · exact Or.inl h
        · exact Or.inr (Or.inr h)

theorem mem_sortBy {α : Type} (lt : α → α → Bool) (x : α) (l : List α) : x ∈ sortBy lt l ↔ x ∈ l := by
  unfold sortBy
  induction l with
  | nil => simp
  | cons a as ih => rw [List.foldr_cons, mem_insertBy, ih]; simp

/-- every inode of `l` not yet seen is represented in the pruned list by one of its names -/
theorem pruneLinks_keeps (l : List (Path × Nat)) (seen : List Nat) (p : Path) (i : Nat)
    (hmem : (p, i) ∈ l) (hns : i ∉ seen) : ∃ q ∈ pruneLinks l seen, (q, i) ∈ l := by
  induction l generalizing seen with
  | nil => cases hmem
  | cons a rest ih =>
    obtain ⟨p0, i0⟩ := a
    rw [pruneLinks]
    by_cases hs : seen.contains i0 = true
    · rw [if_pos hs]
      rcases List.mem_cons.1 hmem with h | h
      · cases h
        exact absurd (List.contains_iff_mem.1 hs) hns
      · obtain ⟨q, hq, hqi⟩ := ih seen h hns
        exact ⟨q, hq, List.mem_cons_of_mem _ hqi⟩
    · rw [if_neg hs]
      by_cases hi : i = i0
      · subst hi
        exact ⟨p0, by simp, by simp⟩
      · rcases List.mem_cons.1 hmem with h | h
        · cases h
          exact absurd rfl hi
        · obtain ⟨q, hq, hqi⟩ := ih (i0 :: seen) h (by simp [hi, hns])
          exact ⟨q, List.mem_cons_of_mem _ hq, List.mem_cons_of_mem _ hqi⟩

theorem canonicalSearches_keeps (e : TEntry) (m : List (Path × Nat)) :
    ∀ x ∈ m, ∃ q ∈ canonicalSearches e m, ∃ y ∈ m, y.1 = q ∧ y.2 = x.2 := by
  intro x hx
  unfold canonicalSearches
  obtain ⟨q, hq, hqi⟩ := pruneLinks_keeps _ [] x.1 x.2 ((mem_sortBy _ _ _).2 hx) (by simp)
  exact ⟨q, hq, (q, x.2), (mem_sortBy _ _ _).1 hqi, rfl, rfl⟩

/-! ### `populateSearches` -/

/-- the head of the populated table: same identity, and a candidate list that is either an admissible
    observation or the canonical one -/
theorem populateSearches_cons (c : Cache) (obs : List (Nat × List Path)) (e : TEntry) (es : List TEntry) :
    ∃ h, (populateSearches c obs (e :: es)).1 = h :: (populateSearches c obs es).1 ∧
      h.id = e.id ∧ h.fullTarget = e.fullTarget ∧
      (e.isPad = false → ∀ m, cacheGet c e.fileLength = some m →
        ∃ paths, h.searches = some paths ∧ (validSearches e m paths = true ∨ paths = canonicalSearches e m)) := by
  rw [populateSearches]
  by_cases hp : e.isPad = true
  · simp [hp]
  · simp only [hp, Bool.false_eq_true, if_false]
    cases hc : cacheGet c e.fileLength with
    | none => simp
    | some m =>
      simp only
      cases ho : Option.map (fun x => x.2) (obs.find? (fun o => o.1 == e.id)) with
      | none =>
        simp only
        refine ⟨_, rfl, rfl, rfl, ?_⟩
        intro _ m' hm'
        cases hm'
        exact ⟨_, rfl, Or.inr rfl⟩
      | some o =>
        simp only
        by_cases hv : validSearches e m o = true
        · rw [if_pos hv]
          refine ⟨_, rfl, rfl, rfl, ?_⟩
          intro _ m' hm'
          cases hm'
          exact ⟨_, rfl, Or.inl hv⟩
        · rw [if_neg hv]
          refine ⟨_, rfl, rfl, rfl, ?_⟩
          intro _ m' hm'
          cases hm'
          exact ⟨_, rfl, Or.inr rfl⟩

theorem populate_keeps (c : Cache) (obs : List (Nat × List Path)) (table : List TEntry) (e : TEntry)
    (m : List (Path × Nat)) (he : e ∈ table) (hpad : e.isPad = false) (hm : cacheGet c e.fileLength = some m) :
    ∃ e' ∈ (populateSearches c obs table).1, e'.id = e.id ∧ e'.fullTarget = e.fullTarget ∧
      ∃ paths, e'.searches = some paths ∧ ∀ x ∈ m, ∃ q ∈ paths, ∃ y ∈ m, y.1 = q ∧ y.2 = x.2 := by
  induction table with
  | nil => cases he
  | cons e0 es ih =>
    obtain ⟨h, heq, hid, hft, hs⟩ := populateSearches_cons c obs e0 es
    rw [heq]
    rcases List.mem_cons.1 he with rfl | hmem
    · obtain ⟨paths, hps, hor⟩ := hs hpad m hm
      refine ⟨h, by simp, hid, hft, paths, hps, ?_⟩
      rcases hor with hv | rfl
      · intro x hx
        obtain ⟨p, hp, hy, _⟩ := validSearches_mem hv x hx
        exact ⟨p, hp, hy⟩
      · exact canonicalSearches_keeps e m
    · obtain ⟨e', he', r⟩ := ih hmem
      exact ⟨e', List.mem_cons_of_mem _ he', r⟩

end TB.RunG
